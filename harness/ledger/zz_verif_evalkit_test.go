package ledger

// evalkit — small shared helpers for C19 (group atomicity) and C21 (minimum balance).
// Independent of the big "Engine C" (zz_verif_engc_*): a compact world builder on top of the upstream
// simple_test.go helpers + data/txntest, a multi-purpose TEAL application, block/StateDelta canonicalisation.
// Everything here goes through public APIs of ledger / ledger/eval (StartEvaluator, TransactionGroup,
// GenerateBlock, Validate, AddValidatedBlock, LookupLatest, LookupKeysByPrefix, LookupKv).

import (
	"encoding/binary"
	"errors"
	"fmt"
	"io"
	"sort"
	"strings"
	"sync/atomic"
	"testing"

	"github.com/algorand/go-algorand/agreement"
	"github.com/algorand/go-algorand/config"
	"github.com/algorand/go-algorand/crypto"
	"github.com/algorand/go-algorand/data/basics"
	"github.com/algorand/go-algorand/data/bookkeeping"
	"github.com/algorand/go-algorand/data/committee"
	"github.com/algorand/go-algorand/data/transactions"
	"github.com/algorand/go-algorand/data/transactions/logic"
	"github.com/algorand/go-algorand/data/txntest"
	"github.com/algorand/go-algorand/ledger/eval"
	"github.com/algorand/go-algorand/ledger/ledgercore"
	ledgertesting "github.com/algorand/go-algorand/ledger/testing"
	"github.com/algorand/go-algorand/logging"
	"github.com/algorand/go-algorand/protocol"
)

// evkAppSource is a multi-purpose application: ApplicationArgs[0] selects what a call does. It approves
// creation, updates, deletes, opt-ins and calls without arguments.
const evkAppSource = `
txn ApplicationID
bz ok
txn NumAppArgs
bz ok
txn ApplicationArgs 0; byte "gput"; ==; bnz gput
txn ApplicationArgs 0; byte "gint"; ==; bnz gint
txn ApplicationArgs 0; byte "gdel"; ==; bnz gdel
txn ApplicationArgs 0; byte "lput"; ==; bnz lput
txn ApplicationArgs 0; byte "bcreate"; ==; bnz bcreate
txn ApplicationArgs 0; byte "bput"; ==; bnz bput
txn ApplicationArgs 0; byte "bdel"; ==; bnz bdel
txn ApplicationArgs 0; byte "bresize"; ==; bnz bresize
txn ApplicationArgs 0; byte "bshrinkgrow"; ==; bnz bshrinkgrow
txn ApplicationArgs 0; byte "bsplice"; ==; bnz bsplice
txn ApplicationArgs 0; byte "breplace"; ==; bnz breplace
txn ApplicationArgs 0; byte "bread"; ==; bnz bread
txn ApplicationArgs 0; byte "pay"; ==; bnz pay
txn ApplicationArgs 0; byte "payclose"; ==; bnz payclose
txn ApplicationArgs 0; byte "acreate"; ==; bnz acreate
txn ApplicationArgs 0; byte "aoptin"; ==; bnz aoptin
txn ApplicationArgs 0; byte "aclose"; ==; bnz aclose
txn ApplicationArgs 0; byte "appcreate"; ==; bnz appcreate
txn ApplicationArgs 0; byte "call"; ==; bnz call
txn ApplicationArgs 0; byte "reject"; ==; bnz reject
txn ApplicationArgs 0; byte "err"; ==; bnz doerr
txn ApplicationArgs 0; byte "burn"; ==; bnz burn
b ok
gput:
 txn ApplicationArgs 1; txn ApplicationArgs 2; app_global_put; b ok
gint:
 txn ApplicationArgs 1; txn ApplicationArgs 2; btoi; app_global_put; b ok
gdel:
 txn ApplicationArgs 1; app_global_del; b ok
lput:
 txn Sender; txn ApplicationArgs 1; txn ApplicationArgs 2; app_local_put; b ok
bcreate:
 txn ApplicationArgs 1; txn ApplicationArgs 2; btoi; box_create; pop; b ok
bput:
 txn ApplicationArgs 1; box_del; pop
 txn ApplicationArgs 1; txn ApplicationArgs 2; box_put; b ok
bdel:
 txn ApplicationArgs 1; box_del; pop; b ok
bresize:
 txn ApplicationArgs 1; box_len; bz popok; pop
 txn ApplicationArgs 1; txn ApplicationArgs 2; btoi; box_resize; b ok
bshrinkgrow:
 txn ApplicationArgs 1; box_len; bz popok; pop
 txn ApplicationArgs 1; txn ApplicationArgs 2; btoi; box_resize
 txn ApplicationArgs 1; txn ApplicationArgs 3; btoi; box_resize
 b ok
bsplice:
 txn ApplicationArgs 1; box_len; bz popok; pop
 txn ApplicationArgs 1; txn ApplicationArgs 2; btoi; txn ApplicationArgs 3; btoi; txn ApplicationArgs 4; box_splice
 b ok
breplace:
 txn ApplicationArgs 1; box_len; bz popok; pop
 txn ApplicationArgs 1; int 0; txn ApplicationArgs 2; box_replace
 b ok
bread:
 txn ApplicationArgs 1; box_get; bz popok; log; b ok
popok:
 pop; b ok
pay:
 itxn_begin
 int pay; itxn_field TypeEnum
 txn Accounts 1; itxn_field Receiver
 txn ApplicationArgs 1; btoi; itxn_field Amount
 itxn_submit
 b ok
payclose:
 itxn_begin
 int pay; itxn_field TypeEnum
 txn Accounts 1; itxn_field Receiver
 txn Accounts 1; itxn_field CloseRemainderTo
 itxn_submit
 b ok
acreate:
 itxn_begin
 int acfg; itxn_field TypeEnum
 int 1000; itxn_field ConfigAssetTotal
 byte "vk"; itxn_field ConfigAssetUnitName
 itxn_submit
 b ok
aoptin:
 itxn_begin
 int axfer; itxn_field TypeEnum
 txn Assets 0; itxn_field XferAsset
 global CurrentApplicationAddress; itxn_field AssetReceiver
 itxn_submit
 b ok
aclose:
 itxn_begin
 int axfer; itxn_field TypeEnum
 txn Assets 0; itxn_field XferAsset
 txn Accounts 1; itxn_field AssetReceiver
 txn Accounts 1; itxn_field AssetCloseTo
 itxn_submit
 b ok
appcreate:
 itxn_begin
 int appl; itxn_field TypeEnum
 txn ApplicationArgs 1; itxn_field ApprovalProgram
 txn ApplicationArgs 1; itxn_field ClearStateProgram
 txn ApplicationArgs 2; btoi; itxn_field GlobalNumUint
 txn ApplicationArgs 3; btoi; itxn_field GlobalNumByteSlice
 itxn_submit
 b ok
call:
 itxn_begin
 int appl; itxn_field TypeEnum
 txn Applications 1; itxn_field ApplicationID
 txn ApplicationArgs 1; itxn_field ApplicationArgs
 txn ApplicationArgs 2; itxn_field ApplicationArgs
 txn ApplicationArgs 3; itxn_field ApplicationArgs
 txn NumAccounts; bz callgo
 txn Accounts 1; itxn_field Accounts
callgo:
 itxn_submit
 b ok
reject:
 int 0; return
doerr:
 err
burn:
 int 1; pop; b burn
ok:
 int 1; return
`

// evkClearSource: the clear-state program. "cerr": write then fail (the write must be discarded, the
// ClearState transaction itself still succeeds); "cput": write and approve.
const evkClearSource = `
txn NumAppArgs
bz ok
txn ApplicationArgs 0; byte "cerr"; ==; bnz cerr
txn ApplicationArgs 0; byte "cput"; ==; bnz cput
b ok
cerr:
 byte "cs"; byte "leak"; app_global_put
 err
cput:
 byte "cs"; txn ApplicationArgs 1; app_global_put
ok:
 int 1; return
`

func evkSrc(s string) string { return strings.ReplaceAll(s, ";", "\n") }

var evkLedgerCounter atomic.Uint64

type evkWorld struct {
	t      *testing.T
	l      *Ledger
	cv     protocol.ConsensusVersion
	proto  config.ConsensusParams
	addrs  []basics.Address // the 10 genesis accounts of ledgertesting.NewTestGenesis
	sink   basics.Address
	pool   basics.Address
	asset  basics.AssetIndex // created by addrs[0]; manager/freeze/clawback = addrs[0]
	app1   basics.AppIndex   // evkAppSource instances created by addrs[0], app accounts funded
	app2   basics.AppIndex
	tinyV  []byte // assembled "int 1" program of the proto's AVM version (for inner app creates)
	noteN  uint64
}

// evkTracer records, per top-level group, how many members were applied successfully and the index of
// the member whose application failed (-1: none, i.e. the group failed in a group-level check or passed).
type evkTracer struct {
	logic.NullEvalTracer
	depth   int
	applied int
	failed  int
}

func (tr *evkTracer) BeforeTxnGroup(ep *logic.EvalParams) {
	tr.depth++
	if tr.depth == 1 {
		tr.applied, tr.failed = 0, -1
	}
}
func (tr *evkTracer) AfterTxnGroup(ep *logic.EvalParams, deltas *ledgercore.StateDelta, evalError error) {
	tr.depth--
}
func (tr *evkTracer) AfterTxn(ep *logic.EvalParams, groupIndex int, ad transactions.ApplyData, evalError error) {
	if tr.depth != 1 {
		return
	}
	if evalError != nil {
		tr.failed = groupIndex
	} else {
		tr.applied++
	}
}

// DetailedEvalErrors as the upstream test tracer (EvalErrorDetailsTracer) does.
func (tr *evkTracer) DetailedEvalErrors() bool { return true }

func evkOpenLedger(t *testing.T, cv protocol.ConsensusVersion, rewardsOff bool) (*Ledger, []basics.Address, bookkeeping.GenesisBalances, error) {
	var opts []ledgertesting.TestGenesisOption
	if rewardsOff {
		opts = append(opts, ledgertesting.TurnOffRewards)
	}
	genBalances, addrs, _ := ledgertesting.NewTestGenesis(opts...)
	var genHash crypto.Digest
	copy(genHash[:], "verif-evalkit-fixed-genesis-hash")
	genBlock, err := bookkeeping.MakeGenesisBlock(cv, genBalances, "test", genHash)
	if err != nil {
		return nil, nil, genBalances, err
	}
	log := logging.NewLogger()
	log.SetOutput(io.Discard)
	dbName := fmt.Sprintf("evk-%s-%d-%d", strings.ReplaceAll(t.Name(), "/", "_"), vkShard(), evkLedgerCounter.Add(1))
	cfg := config.GetDefaultLocal()
	cfg.Archival = true
	cfg.TxPoolSize, cfg.VerifiedTranscationsCacheSize = 8, 8 // only sizes the ledger's verified-signature cache (unused here)
	// Keep every round of a case in the in-memory deltas: no tracker flush runs concurrently with the lookups
	// (in-memory sqlite answers "database table is locked" to readers while the flush writes).
	cfg.MaxAcctLookback = 400
	l, err := OpenLedger(log, dbName, true, ledgercore.InitState{
		Block:       genBlock,
		Accounts:    genBalances.Balances,
		GenesisHash: genHash,
	}, cfg)
	return l, addrs, genBalances, err
}

// evkNewWorld: fresh in-memory ledger with one asset and two funded instances of the evk application.
func evkNewWorld(t *testing.T, cv protocol.ConsensusVersion, rewardsOff bool) (*evkWorld, error) {
	l, addrs, gb, err := evkOpenLedger(t, cv, rewardsOff)
	if err != nil {
		return nil, err
	}
	w := &evkWorld{t: t, l: l, cv: cv, proto: config.Consensus[cv], addrs: addrs, sink: gb.FeeSink, pool: gb.RewardsPool}
	ops, err := logic.AssembleStringWithVersion("int 1", w.proto.LogicSigVersion)
	if err != nil {
		return nil, err
	}
	w.tinyV = ops.Program
	if full, err := logic.AssembleStringWithVersion(evkSrc(evkAppSource), w.proto.LogicSigVersion); err != nil {
		return nil, fmt.Errorf("evk app does not assemble: %v", err)
	} else if len(full.Program) > 1900 {
		return nil, fmt.Errorf("evk app is %d bytes: would need an extra program page", len(full.Program))
	}

	mkasset := &txntest.Txn{Type: "acfg", Sender: addrs[0], AssetParams: basics.AssetParams{
		Total: 1_000_000, UnitName: "evk", Manager: addrs[0], Freeze: addrs[0], Clawback: addrs[0], Reserve: addrs[0]}}
	mkapp1 := w.appCreate(addrs[0], basics.StateSchema{NumUint: 8, NumByteSlice: 8}, basics.StateSchema{NumUint: 4, NumByteSlice: 4}, 0)
	mkapp2 := w.appCreate(addrs[0], basics.StateSchema{NumUint: 8, NumByteSlice: 8}, basics.StateSchema{NumUint: 4, NumByteSlice: 4}, 0)
	vb, err := w.block([]*txntest.Txn{mkasset}, []*txntest.Txn{mkapp1}, []*txntest.Txn{mkapp2})
	if err != nil {
		return nil, fmt.Errorf("world setup block 1: %w", err)
	}
	ps := vb.Block().Payset
	if len(ps) != 3 {
		return nil, fmt.Errorf("world setup: payset %d", len(ps))
	}
	w.asset = ps[0].ApplyData.ConfigAsset
	w.app1 = ps[1].ApplyData.ApplicationID
	w.app2 = ps[2].ApplyData.ApplicationID
	if w.asset == 0 || w.app1 == 0 || w.app2 == 0 {
		return nil, fmt.Errorf("world setup: ids %d %d %d", w.asset, w.app1, w.app2)
	}
	_, err = w.block(
		[]*txntest.Txn{{Type: "pay", Sender: addrs[0], Receiver: w.app1.Address(), Amount: 10_000_000}},
		[]*txntest.Txn{{Type: "pay", Sender: addrs[0], Receiver: w.app2.Address(), Amount: 10_000_000}},
	)
	if err != nil {
		return nil, fmt.Errorf("world setup block 2: %w", err)
	}
	return w, nil
}

func (w *evkWorld) close() {
	if w.l != nil {
		w.l.Close()
		w.l = nil
	}
}

func (w *evkWorld) appCreate(sender basics.Address, global, local basics.StateSchema, epp uint32) *txntest.Txn {
	return &txntest.Txn{Type: "appl", Sender: sender,
		ApprovalProgram: evkSrc(evkAppSource), ClearStateProgram: evkSrc(evkClearSource),
		GlobalStateSchema: global, LocalStateSchema: local, ExtraProgramPages: epp}
}

// call builds an application call to app with string/bytes arguments.
func (w *evkWorld) call(sender basics.Address, app basics.AppIndex, args ...any) *txntest.Txn {
	tx := &txntest.Txn{Type: "appl", Sender: sender, ApplicationID: app}
	for _, a := range args {
		switch v := a.(type) {
		case string:
			tx.ApplicationArgs = append(tx.ApplicationArgs, []byte(v))
		case []byte:
			tx.ApplicationArgs = append(tx.ApplicationArgs, v)
		case uint64:
			tx.ApplicationArgs = append(tx.ApplicationArgs, evkItob(v))
		case int:
			tx.ApplicationArgs = append(tx.ApplicationArgs, evkItob(uint64(v)))
		default:
			panic(fmt.Sprintf("evk call arg %T", a))
		}
	}
	return tx
}

func evkItob(v uint64) []byte {
	var b [8]byte
	binary.BigEndian.PutUint64(b[:], v)
	return b[:]
}

func evkBox(name string) []transactions.BoxRef {
	return []transactions.BoxRef{{Index: 0, Name: []byte(name)}}
}

// nextHeader is what nextBlock() of simple_test.go builds (deterministic timestamp).
func (w *evkWorld) nextHeader() (bookkeeping.BlockHeader, error) {
	rnd := w.l.Latest()
	hdr, err := w.l.BlockHdr(rnd)
	if err != nil {
		return bookkeeping.BlockHeader{}, err
	}
	nextHdr := bookkeeping.MakeBlock(hdr).BlockHeader
	nextHdr.TimeStamp = hdr.TimeStamp + 1
	return nextHdr, nil
}

// startEval: like nextBlock() of simple_test.go, optionally with another tracer (nil = no tracer at all).
func (w *evkWorld) startEval(tracer logic.EvalTracer) (*eval.BlockEvaluator, error) {
	nextHdr, err := w.nextHeader()
	if err != nil {
		return nil, err
	}
	return eval.StartEvaluator(w.l, nextHdr, eval.EvaluatorOptions{Generate: true, Validate: true, Tracer: tracer})
}

// fill is fillDefaults() of simple_test.go plus a unique note (so generated transactions never collide
// by accident); the fee defaults to exactly the required fee.
func (w *evkWorld) fill(tx *txntest.Txn) {
	if tx.GenesisHash.IsZero() {
		tx.GenesisHash = w.l.GenesisHash()
	}
	if tx.FirstValid == 0 {
		tx.FirstValid = w.l.Latest() + 1
	}
	if tx.Note == nil {
		w.noteN++
		tx.Note = fmt.Sprintf("evk%d", w.noteN)
	}
	tx.FillDefaults(w.proto)
}

func (w *evkWorld) group(txns ...*txntest.Txn) []transactions.SignedTxn {
	for _, tx := range txns {
		w.fill(tx)
	}
	return txntest.Group(txns...)
}

// evkCopyGroup deep-copies a signed group through its canonical encoding, so no evaluator ever shares
// transaction memory with another one.
func evkCopyGroup(g []transactions.SignedTxn) []transactions.SignedTxn {
	out := make([]transactions.SignedTxn, len(g))
	for i := range g {
		enc := protocol.Encode(&g[i])
		if err := protocol.Decode(enc, &out[i]); err != nil {
			panic(fmt.Sprintf("evkCopyGroup: %v", err))
		}
	}
	return out
}

// evkApply hands a group to the evaluator the way txgroup() of simple_test.go does, except that the
// verdict of TestTransactionGroup (which must not change evaluator state) does not gate TransactionGroup.
func evkApply(ev *eval.BlockEvaluator, g []transactions.SignedTxn, pretest bool) error {
	g = evkCopyGroup(g)
	if pretest {
		_ = ev.TestTransactionGroup(g)
	}
	return ev.TransactionGroup(transactions.WrapSignedTxnsWithAD(g)...)
}

// finish is endBlock() of simple_test.go with errors returned instead of require'd.
func (w *evkWorld) finish(ev *eval.BlockEvaluator) (*ledgercore.ValidatedBlock, error) {
	ub, err := ev.GenerateBlock(nil)
	if err != nil {
		return nil, fmt.Errorf("GenerateBlock: %w", err)
	}
	blk := ub.UnfinishedBlock()
	prp := blk.BlockHeader.FeeSink
	var fin bookkeeping.Block
	if w.proto.Payouts.Enabled {
		fin = blk.WithProposer(committee.Seed(prp), prp, true)
	} else {
		fin = blk.WithProposer(committee.Seed(prp), basics.Address{}, false)
	}
	vvb, err := validateWithoutSignatures(w.t, w.l, fin)
	if err != nil {
		return nil, fmt.Errorf("Validate: %w", err)
	}
	if err = w.l.AddValidatedBlock(*vvb, agreement.Certificate{}); err != nil {
		return nil, fmt.Errorf("AddValidatedBlock: %w", err)
	}
	w.l.WaitForCommit(w.l.Latest())
	return vvb, nil
}

// block commits one block made of the given groups; every group must be accepted.
func (w *evkWorld) block(groups ...[]*txntest.Txn) (*ledgercore.ValidatedBlock, error) {
	ev, err := w.startEval(logic.EvalErrorDetailsTracer{})
	if err != nil {
		return nil, err
	}
	for i, g := range groups {
		if err := evkApply(ev, w.group(g...), true); err != nil {
			return nil, fmt.Errorf("group %d: %w", i, err)
		}
	}
	return w.finish(ev)
}

// evkIsPanic: the evaluator converts panics into EvalPanicError / refuses with ErrEvaluatorCorruptedState.
func evkIsPanic(err error) bool {
	var pe ledgercore.EvalPanicError
	return errors.As(err, &pe) || errors.Is(err, ledgercore.ErrEvaluatorCorruptedState)
}

// evkErrClass buckets an evaluation error for the label histogram (never used by an oracle).
func evkErrClass(err error) string {
	if err == nil {
		return "ok"
	}
	var mbe *ledgercore.MinBalanceError
	if errors.As(err, &mbe) {
		return "minbalance"
	}
	s := err.Error()
	for _, kv := range [][2]string{
		{"overspend", "overspend"}, {"underflow on subtracting", "asset-overspend"},
		{"balance 0 below min", "minbalance"},
		{"frozen in", "asset-frozen"}, {"not opted in to app", "app-not-opted-in"}, {"is not currently opted in", "app-not-opted-in"},
		{"has not opted in to app", "app-not-opted-in"},
		{"missing from", "asset-not-opted-in"}, {"receiver error: must optin", "asset-not-opted-in"},
		{"rejected by ApprovalProgram", "teal-reject"}, {"err opcode executed", "teal-err"},
		{"dynamic cost budget exceeded", "teal-budget"},
		{"invalid Box reference", "box-ref"}, {"unavailable Box", "box-ref"},
		{"less than", "fee"}, {"fee", "fee"},
		{"inconsistent group values", "group-id"}, {"incomplete group", "group-id"}, {"had zero Group", "group-id"},
		{"should have been authorized by", "authaddr"},
		{"already in ledger", "dup-txid"}, {"using an overlapping lease", "lease"}, {"overlapping lease", "lease"},
		{"malformed", "malformed"},
		{"round", "dead-round"},
		{"already opted in", "already-opted-in"},
		{"does not exist", "no-such-app"}, {"no app", "no-such-app"}, {"unavailable App", "no-such-app"},
		{"logic eval error", "teal-other"},
	} {
		if strings.Contains(s, kv[0]) {
			return kv[1]
		}
	}
	return "other"
}

// ---- canonical rendering of a block + StateDelta (no pointer identity, no map/slice order) ----

func evkCanonDelta(sd ledgercore.StateDelta) string {
	var lines []string
	add := func(f string, a ...any) { lines = append(lines, fmt.Sprintf(f, a...)) }
	for _, r := range sd.Accts.Accts {
		add("acct %s %+v", r.Addr, r.AccountData)
	}
	for _, r := range sd.Accts.AppResources {
		p, s := "nil", "nil"
		if r.Params.Params != nil {
			p = fmt.Sprintf("%+v", *r.Params.Params)
		}
		if r.State.LocalState != nil {
			s = fmt.Sprintf("%+v", *r.State.LocalState)
		}
		add("appres %s %d params(del=%v %s) state(del=%v %s)", r.Addr, r.Aidx, r.Params.Deleted, p, r.State.Deleted, s)
	}
	for _, r := range sd.Accts.AssetResources {
		p, h := "nil", "nil"
		if r.Params.Params != nil {
			p = fmt.Sprintf("%+v", *r.Params.Params)
		}
		if r.Holding.Holding != nil {
			h = fmt.Sprintf("%+v", *r.Holding.Holding)
		}
		add("assetres %s %d params(del=%v %s) holding(del=%v %s)", r.Addr, r.Aidx, r.Params.Deleted, p, r.Holding.Deleted, h)
	}
	for k, v := range sd.KvMods {
		add("kv %x data=%x nil=%v old=%x oldnil=%v", k, v.Data, v.Data == nil, v.OldData, v.OldData == nil)
	}
	for k, v := range sd.Txids {
		add("txid %s lv=%d intra=%d", k, v.LastValid, v.Intra)
	}
	for k, v := range sd.Txleases {
		add("lease %s %x exp=%d", k.Sender, k.Lease, v)
	}
	for k, v := range sd.Creatables {
		add("creatable %d %+v", k, v)
	}
	sort.Strings(lines)
	hdr := "nil"
	if sd.Hdr != nil {
		hdr = fmt.Sprintf("%x", protocol.Encode(sd.Hdr))
	}
	lines = append(lines, fmt.Sprintf("hdr %s", hdr),
		fmt.Sprintf("spnext %d prevts %d", sd.StateProofNext, sd.PrevTimestamp),
		fmt.Sprintf("totals %+v", sd.Totals))
	return strings.Join(lines, "\n")
}

// evkFirstDiff points at the first differing line of two canonical renderings.
func evkFirstDiff(a, b string) string {
	la, lb := strings.Split(a, "\n"), strings.Split(b, "\n")
	sa := map[string]bool{}
	for _, l := range la {
		sa[l] = true
	}
	sb := map[string]bool{}
	for _, l := range lb {
		sb[l] = true
	}
	var out []string
	for _, l := range la {
		if !sb[l] {
			out = append(out, "X only: "+evkTrunc(l, 600))
		}
	}
	for _, l := range lb {
		if !sa[l] {
			out = append(out, "Y only: "+evkTrunc(l, 600))
		}
	}
	if len(out) > 8 {
		out = out[:8]
	}
	return strings.Join(out, "\n")
}

func evkTrunc(s string, n int) string {
	if len(s) > n {
		return s[:n]
	}
	return s
}

func evkShort(a basics.Address) string { return a.String()[:6] }

// evkAddr: a deterministic synthetic address (nobody needs its key: TransactionGroup does not verify signatures).
func evkAddr(tag byte, i int) basics.Address {
	var a basics.Address
	for k := range a {
		a[k] = tag
	}
	a[0] = byte(i)
	return a
}
