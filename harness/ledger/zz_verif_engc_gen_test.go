package ledger

// Engine C — history: model-aware transaction generator and block builder (real evaluator).

import (
	"context"
	"encoding/binary"
	"fmt"
	"os"
	"strings"
	"sync"

	"pgregory.net/rapid"

	"github.com/algorand/avm-abi/apps"
	"github.com/algorand/go-algorand/data/basics"
	"github.com/algorand/go-algorand/data/bookkeeping"
	"github.com/algorand/go-algorand/data/committee"
	"github.com/algorand/go-algorand/data/transactions"
	"github.com/algorand/go-algorand/data/transactions/logic"
	"github.com/algorand/go-algorand/data/txntest"
	"github.com/algorand/go-algorand/ledger/eval"
	"github.com/algorand/go-algorand/protocol"
)

// The fixed TEAL family: one approval program whose behaviour is selected by ApplicationArgs[0].
const engcApprovalSrc = `
txn ApplicationID
bz approve
txn OnCompletion
int NoOp
!=
bnz oc
txn NumAppArgs
bz approve
txna ApplicationArgs 0
byte "gput"
==
bnz gput
txna ApplicationArgs 0
byte "gputi"
==
bnz gputi
txna ApplicationArgs 0
byte "gdel"
==
bnz gdel
txna ApplicationArgs 0
byte "lput"
==
bnz lput
txna ApplicationArgs 0
byte "ldel"
==
bnz ldel
txna ApplicationArgs 0
byte "bcreate"
==
bnz bcreate
txna ApplicationArgs 0
byte "bput"
==
bnz bput
txna ApplicationArgs 0
byte "bresize"
==
bnz bresize
txna ApplicationArgs 0
byte "breplace"
==
bnz breplace
txna ApplicationArgs 0
byte "bdel"
==
bnz bdel
txna ApplicationArgs 0
byte "ipay"
==
bnz ipay
txna ApplicationArgs 0
byte "log"
==
bnz dolog
txna ApplicationArgs 0
byte "reject"
==
bnz reject
err
oc:
txn NumAppArgs
bz approve
txna ApplicationArgs 0
byte "reject"
==
bnz reject
b approve
gput:
txna ApplicationArgs 1
txna ApplicationArgs 2
app_global_put
b approve
gputi:
txna ApplicationArgs 1
txna ApplicationArgs 2
btoi
app_global_put
b approve
gdel:
txna ApplicationArgs 1
app_global_del
b approve
lput:
txn Sender
txna ApplicationArgs 1
txna ApplicationArgs 2
app_local_put
b approve
ldel:
txn Sender
txna ApplicationArgs 1
app_local_del
b approve
bcreate:
txna ApplicationArgs 1
txna ApplicationArgs 2
btoi
box_create
pop
b approve
bput:
txna ApplicationArgs 1
txna ApplicationArgs 2
box_put
b approve
bresize:
txna ApplicationArgs 1
txna ApplicationArgs 2
btoi
box_resize
b approve
breplace:
txna ApplicationArgs 1
txna ApplicationArgs 2
btoi
txna ApplicationArgs 3
box_replace
b approve
bdel:
txna ApplicationArgs 1
box_del
pop
b approve
ipay:
itxn_begin
int pay
itxn_field TypeEnum
txna Accounts 1
itxn_field Receiver
txna ApplicationArgs 1
btoi
itxn_field Amount
itxn_submit
b approve
dolog:
txna ApplicationArgs 1
log
b approve
reject:
int 0
return
approve:
int 1
return
`

var engcDebugRej = os.Getenv("ENGC_DEBUG_REJ") != ""

var engcProgOnce sync.Once
var engcProgs struct {
	approvalA, approvalB, clear, clearB []byte
}

// engcPrograms returns the approval program (v10), its update variant (v11) and the clear programs of both versions
// (an update must carry approval and clear programs of the same version).
func engcPrograms() (approvalA, approvalB, clear []byte) {
	engcProgOnce.Do(func() {
		asm := func(src string) []byte {
			ops, err := logic.AssembleString(src)
			if err != nil {
				panic(fmt.Sprintf("engc: TEAL does not assemble: %v %v", err, ops.Errors))
			}
			return ops.Program
		}
		engcProgs.approvalA = asm("#pragma version 10\n" + engcApprovalSrc)
		engcProgs.approvalB = asm("#pragma version 11\n" + engcApprovalSrc)
		engcProgs.clear = asm("#pragma version 10\nint 1")
		engcProgs.clearB = asm("#pragma version 11\nint 1")
	})
	return engcProgs.approvalA, engcProgs.approvalB, engcProgs.clear
}

// engcBoxKey is the ledger kv key of box `name` of application app.
func engcBoxKey(app basics.AppIndex, name string) string { return apps.MakeBoxKey(uint64(app), name) }

func engcItob(x uint64) []byte {
	b := make([]byte, 8)
	binary.BigEndian.PutUint64(b, x)
	return b
}

// engcGen is the per-block generator context: everything is chosen from the model state at the start of the block.
type engcGen struct {
	w     *engcWorld
	t     *rapid.T
	s     *engcSnap
	round basics.Round // round being built
	all   []basics.Address

	assetIDs []basics.AssetIndex
	appIDs   []basics.AppIndex
}

func (w *engcWorld) newGen(t *rapid.T, round basics.Round) *engcGen {
	g := &engcGen{w: w, t: t, s: w.Model.Tip(), round: round}
	g.all = append(g.all, w.Users...)
	g.all = append(g.all, w.Fresh...)
	for _, id := range g.s.CreatableIDs(basics.AssetCreatable) {
		g.assetIDs = append(g.assetIDs, basics.AssetIndex(id))
	}
	for _, id := range g.s.CreatableIDs(basics.AppCreatable) {
		g.appIDs = append(g.appIDs, basics.AppIndex(id))
		g.all = append(g.all, basics.AppIndex(id).Address())
	}
	return g
}

func (g *engcGen) bal(a basics.Address) uint64 {
	d := g.s.Acct(a).Data
	return d.MicroAlgos.Raw + engcPendingRewards(d.Status, d.MicroAlgos.Raw, d.RewardsBase, g.s.RewardsLevel, g.s.Proto.RewardUnit)
}

func (g *engcGen) minBal(a basics.Address) uint64 {
	d := g.s.Acct(a).Data
	return d.MinBalance(&g.s.Proto).Raw
}

// spendable is what the account can pay out (beyond a generous fee reserve) without dipping under its min balance.
func (g *engcGen) spendable(a basics.Address) uint64 {
	b, m := g.bal(a), g.minBal(a)+10*g.s.Proto.MinTxnFee
	if b <= m {
		return 0
	}
	return b - m
}

func (g *engcGen) pick(name string, from []basics.Address) basics.Address {
	return from[rapid.IntRange(0, len(from)-1).Draw(g.t, name)]
}

// funded returns the non-special addresses that can afford at least `need` beyond their min balance.
func (g *engcGen) funded(need uint64) []basics.Address {
	var out []basics.Address
	for _, a := range g.all {
		if sp := g.spendable(a); sp > 0 && sp >= need {
			out = append(out, a)
		}
	}
	return out
}

func (g *engcGen) filter(from []basics.Address, keep func(basics.Address) bool) []basics.Address {
	var out []basics.Address
	for _, a := range from {
		if keep(a) {
			out = append(out, a)
		}
	}
	return out
}

func (g *engcGen) holders(asset basics.AssetIndex) []basics.Address {
	return g.filter(g.all, func(a basics.Address) bool { _, ok := g.s.Acct(a).Assets[asset]; return ok })
}

func (g *engcGen) optedIn(app basics.AppIndex) []basics.Address {
	return g.filter(g.all, func(a basics.Address) bool { _, ok := g.s.Acct(a).AppLocals[app]; return ok })
}

func (g *engcGen) assetParams(id basics.AssetIndex) (basics.AssetParams, basics.Address, bool) {
	c, ok := g.s.Creator(basics.CreatableIndex(id), basics.AssetCreatable)
	if !ok {
		return basics.AssetParams{}, basics.Address{}, false
	}
	p, ok := g.s.Acct(c).AssetParams[id]
	return p, c, ok
}

var engcKeys = []string{"a", "b", "c", "ab"}
var engcBoxNames = []string{"x", "y", "ab", "a", "abc"}

// engcKindWeights gives the transaction mix per profile.
func engcKindWeights(profile string) []string {
	rep := func(out []string, k string, n int) []string {
		for i := 0; i < n; i++ {
			out = append(out, k)
		}
		return out
	}
	var out []string
	switch profile {
	case "pay":
		out = rep(out, "pay", 8)
		out = rep(out, "close", 2)
	case "money": // value movers: payments, closes, fees, inner payments
		out = rep(out, "pay", 6)
		out = rep(out, "close", 3)
		out = rep(out, "keyreg-online", 2)
		out = rep(out, "keyreg-offline", 1)
		out = rep(out, "rekey", 1)
		out = rep(out, "acfg-create", 1)
		out = rep(out, "axfer-optin", 1)
		out = rep(out, "app-create", 2)
		out = rep(out, "app-fund", 3)
		out = rep(out, "app-call", 10)
	case "status":
		out = rep(out, "pay", 6)
		out = rep(out, "close", 3)
		out = rep(out, "keyreg-online", 5)
		out = rep(out, "keyreg-offline", 3)
		out = rep(out, "keyreg-nonpart", 1)
		out = rep(out, "rekey", 1)
		out = rep(out, "acfg-create", 1)
		out = rep(out, "axfer-optin", 1)
		out = rep(out, "axfer-send", 1)
		out = rep(out, "app-create", 1)
		out = rep(out, "app-call", 2)
	default:
		out = rep(out, "pay", 8)
		out = rep(out, "close", 2)
		out = rep(out, "rekey", 2)
		out = rep(out, "keyreg-online", 3)
		out = rep(out, "keyreg-offline", 2)
		out = rep(out, "keyreg-nonpart", 1)
		out = rep(out, "acfg-create", 3)
		out = rep(out, "acfg-config", 2)
		out = rep(out, "acfg-destroy", 2)
		out = rep(out, "axfer-optin", 4)
		out = rep(out, "axfer-send", 4)
		out = rep(out, "axfer-clawback", 2)
		out = rep(out, "afrz", 2)
		out = rep(out, "axfer-close", 2)
		out = rep(out, "app-create", 3)
		out = rep(out, "app-optin", 3)
		out = rep(out, "app-closeout", 1)
		out = rep(out, "app-clear", 1)
		out = rep(out, "app-update", 1)
		out = rep(out, "app-delete", 1)
		out = rep(out, "app-fund", 3)
		out = rep(out, "app-call", 14)
	}
	return out
}

// txn draws one transaction. It falls back to a plain payment when the drawn kind has no applicable target.
func (g *engcGen) txn() (*txntest.Txn, string) {
	kinds := engcKindWeights(g.w.Opts.Profile)
	kind := kinds[rapid.IntRange(0, len(kinds)-1).Draw(g.t, "kind")]
	if g.w.Opts.Profile == "" || g.w.Opts.Profile == "money" {
		// steering (general and money mixes): get an application early, and keep application accounts funded so that box
		// operations and inner payments are applicable
		if len(g.appIDs) == 0 && rapid.IntRange(0, 3).Draw(g.t, "steerCreate") == 0 {
			kind = "app-create"
		}
		if kind == "app-call" && len(g.appIDs) > 0 && rapid.IntRange(0, 2).Draw(g.t, "steerFund") == 0 {
			poor := false
			for _, id := range g.appIDs {
				if g.spendable(id.Address()) < 200_000 {
					poor = true
				}
			}
			if poor {
				kind = "app-fund"
			}
		}
	}
	if tx := g.build(kind); tx != nil {
		return tx, kind
	}
	if tx := g.build("pay"); tx != nil {
		return tx, "pay"
	}
	// nobody can pay: a zero self-payment from the first user (will most likely be rejected; still part of the domain)
	return &txntest.Txn{Type: protocol.PaymentTx, Sender: g.w.Users[0], Receiver: g.w.Users[0]}, "pay"
}

func (g *engcGen) build(kind string) *txntest.Txn {
	t := g.t
	proto := g.s.Proto
	minFee := proto.MinTxnFee
	switch kind {
	case "pay":
		from := g.funded(1)
		if len(from) == 0 {
			return nil
		}
		snd := g.pick("snd", from)
		recvs := append(append([]basics.Address{}, g.all...), g.w.Sink)
		rcv := g.pick("rcv", recvs)
		sp := g.spendable(snd)
		var amt uint64
		switch rapid.IntRange(0, 9).Draw(t, "amtClass") {
		case 0:
			amt = 0
		case 1:
			amt = sp // everything spendable
		case 2:
			amt = g.bal(snd) + rapid.Uint64Range(0, 5).Draw(t, "over") // overspend: rejected
		case 3, 4:
			amt = rapid.Uint64Range(0, sp).Draw(t, "amt")
		default:
			hi := sp
			if hi > 20_000_000 {
				hi = 20_000_000
			}
			amt = rapid.Uint64Range(0, hi).Draw(t, "amt")
		}
		if g.bal(rcv) == 0 && amt < proto.MinBalance && amt <= sp && rapid.IntRange(0, 9).Draw(t, "fundNew") != 0 {
			if sp >= proto.MinBalance {
				amt = proto.MinBalance + rapid.Uint64Range(0, sp-proto.MinBalance).Draw(t, "amtNew")%5_000_000
			}
		}
		return &txntest.Txn{Type: protocol.PaymentTx, Sender: snd, Receiver: rcv, Amount: amt}
	case "close":
		cands := g.filter(g.funded(0), func(a basics.Address) bool {
			d := g.s.Acct(a).Data
			clean := d.TotalAssets == 0 && d.TotalAppLocalStates == 0 && d.TotalAppParams == 0 && d.TotalAssetParams == 0 && d.TotalBoxes == 0
			return clean || rapid.IntRange(0, 9).Draw(t, "dirtyClose") == 0
		})
		if len(cands) == 0 {
			return nil
		}
		snd := g.pick("snd", cands)
		to := g.pick("closeTo", g.all)
		rcv := g.pick("rcv", g.all)
		amt := uint64(0)
		if g.bal(rcv) >= proto.MinBalance {
			amt = rapid.Uint64Range(0, g.spendable(snd)).Draw(t, "amt") % 3_000_000
		}
		return &txntest.Txn{Type: protocol.PaymentTx, Sender: snd, Receiver: rcv, Amount: amt, CloseRemainderTo: to}
	case "rekey":
		from := g.funded(0)
		if len(from) == 0 {
			return nil
		}
		snd := g.pick("snd", from)
		to := g.pick("rekeyTo", g.w.Users)
		return &txntest.Txn{Type: protocol.PaymentTx, Sender: snd, Receiver: snd, RekeyTo: to}
	case "keyreg-online", "keyreg-offline", "keyreg-nonpart":
		need := uint64(0)
		cands := g.filter(g.funded(need), func(a basics.Address) bool {
			st := g.s.Acct(a).Data.Status
			if st == basics.NotParticipating {
				return rapid.IntRange(0, 19).Draw(t, "np") == 0 // rejected: part of the domain
			}
			if kind == "keyreg-offline" {
				return st == basics.Online || rapid.IntRange(0, 4).Draw(t, "offoff") == 0
			}
			return true
		})
		if len(cands) == 0 {
			return nil
		}
		snd := g.pick("snd", cands)
		tx := &txntest.Txn{Type: protocol.KeyRegistrationTx, Sender: snd}
		switch kind {
		case "keyreg-online":
			engcFillBytes(t, tx.VotePK[:], "votePK")
			engcFillBytes(t, tx.SelectionPK[:], "selPK")
			engcFillBytes(t, tx.StateProofPK[:], "spPK")
			tx.VoteFirst = g.round
			tx.VoteLast = g.round + basics.Round(rapid.SampledFrom([]uint64{1, 3, 8, 20, 50, 1_000_000}).Draw(t, "voteLife"))
			tx.VoteKeyDilution = 10000
			if proto.Payouts.Enabled && rapid.Bool().Draw(t, "goOnlineFee") && g.spendable(snd) > proto.Payouts.GoOnlineFee {
				tx.Fee = proto.Payouts.GoOnlineFee
			}
		case "keyreg-nonpart":
			nonpart := 0
			for _, u := range g.w.Users {
				if g.s.Acct(u).Data.Status == basics.NotParticipating {
					nonpart++
				}
			}
			if nonpart*3 > len(g.w.Users) { // keep most users participating
				return nil
			}
			tx.Nonparticipation = true
		}
		return tx
	case "acfg-create":
		from := g.funded(proto.MinBalance)
		if len(from) == 0 {
			return nil
		}
		snd := g.pick("snd", from)
		addrOrZero := func(name string) basics.Address {
			if rapid.IntRange(0, 3).Draw(t, name+"Zero") == 0 {
				return basics.Address{}
			}
			return g.pick(name, g.w.Users)
		}
		total := rapid.SampledFrom([]uint64{1, 10, 1000, 1_000_000, ^uint64(0)}).Draw(t, "total")
		return &txntest.Txn{Type: protocol.AssetConfigTx, Sender: snd, AssetParams: basics.AssetParams{
			Total: total, Decimals: uint32(rapid.IntRange(0, 3).Draw(t, "decimals")), DefaultFrozen: rapid.IntRange(0, 4).Draw(t, "df") == 0,
			UnitName: "u" + fmt.Sprint(rapid.IntRange(0, 9).Draw(t, "unit")), AssetName: "engc",
			Manager: addrOrZero("manager"), Reserve: addrOrZero("reserve"), Freeze: addrOrZero("freeze"), Clawback: addrOrZero("clawback"),
		}}
	case "acfg-config", "acfg-destroy":
		var cands []basics.AssetIndex
		for _, id := range g.assetIDs {
			p, creator, ok := g.assetParams(id)
			if !ok || p.Manager.IsZero() || g.spendable(p.Manager) == 0 {
				continue
			}
			if kind == "acfg-destroy" && g.s.Acct(creator).Assets[id].Amount != p.Total && rapid.IntRange(0, 5).Draw(t, "badDestroy") != 0 {
				continue
			}
			cands = append(cands, id)
		}
		if len(cands) == 0 {
			return nil
		}
		id := cands[rapid.IntRange(0, len(cands)-1).Draw(t, "asset")]
		p, _, _ := g.assetParams(id)
		tx := &txntest.Txn{Type: protocol.AssetConfigTx, Sender: p.Manager, ConfigAsset: id}
		if kind == "acfg-config" {
			upd := func(cur basics.Address, name string) basics.Address {
				if cur.IsZero() {
					return cur
				}
				switch rapid.IntRange(0, 3).Draw(t, name+"Upd") {
				case 0:
					return basics.Address{}
				case 1:
					return g.pick(name, g.w.Users)
				}
				return cur
			}
			tx.AssetParams = basics.AssetParams{Manager: upd(p.Manager, "manager"), Reserve: upd(p.Reserve, "reserve"),
				Freeze: upd(p.Freeze, "freeze"), Clawback: upd(p.Clawback, "clawback")}
		}
		return tx
	case "axfer-optin":
		if len(g.assetIDs) == 0 {
			return nil
		}
		id := g.assetIDs[rapid.IntRange(0, len(g.assetIDs)-1).Draw(t, "asset")]
		cands := g.filter(g.funded(proto.MinBalance), func(a basics.Address) bool { _, ok := g.s.Acct(a).Assets[id]; return !ok })
		if len(cands) == 0 {
			return nil
		}
		snd := g.pick("snd", cands)
		return &txntest.Txn{Type: protocol.AssetTransferTx, Sender: snd, XferAsset: id, AssetReceiver: snd}
	case "axfer-send", "axfer-close":
		type cand struct {
			id  basics.AssetIndex
			snd basics.Address
		}
		var cands []cand
		for _, id := range g.assetIDs {
			_, creator, _ := g.assetParams(id)
			for _, h := range g.holders(id) {
				hd := g.s.Acct(h).Assets[id]
				if g.spendable(h) == 0 || (hd.Frozen && rapid.IntRange(0, 5).Draw(t, "frozenSend") != 0) {
					continue
				}
				if kind == "axfer-close" && h == creator {
					continue
				}
				if kind == "axfer-send" && hd.Amount == 0 && rapid.IntRange(0, 3).Draw(t, "zeroSend") != 0 {
					continue
				}
				cands = append(cands, cand{id, h})
			}
		}
		if len(cands) == 0 {
			return nil
		}
		c := cands[rapid.IntRange(0, len(cands)-1).Draw(t, "holder")]
		hs := g.holders(c.id)
		rcv := g.pick("rcv", hs)
		if rapid.IntRange(0, 11).Draw(t, "notOpted") == 0 {
			rcv = g.pick("rcvAny", g.all) // mostly rejected
		}
		have := g.s.Acct(c.snd).Assets[c.id].Amount
		amt := rapid.Uint64Range(0, have).Draw(t, "aamt")
		if rapid.IntRange(0, 14).Draw(t, "aover") == 0 {
			amt = have + 1
		}
		tx := &txntest.Txn{Type: protocol.AssetTransferTx, Sender: c.snd, XferAsset: c.id, AssetReceiver: rcv, AssetAmount: amt}
		if kind == "axfer-close" {
			tx.AssetCloseTo = g.pick("acloseTo", hs)
		}
		return tx
	case "axfer-clawback", "afrz":
		var cands []basics.AssetIndex
		for _, id := range g.assetIDs {
			p, _, ok := g.assetParams(id)
			if !ok {
				continue
			}
			ctl := p.Clawback
			if kind == "afrz" {
				ctl = p.Freeze
			}
			if !ctl.IsZero() && g.spendable(ctl) > 0 {
				cands = append(cands, id)
			}
		}
		if len(cands) == 0 {
			return nil
		}
		id := cands[rapid.IntRange(0, len(cands)-1).Draw(t, "asset")]
		p, _, _ := g.assetParams(id)
		hs := g.holders(id)
		if len(hs) == 0 {
			return nil
		}
		victim := g.pick("victim", hs)
		if kind == "afrz" {
			return &txntest.Txn{Type: protocol.AssetFreezeTx, Sender: p.Freeze, FreezeAsset: id, FreezeAccount: victim, AssetFrozen: rapid.Bool().Draw(t, "frozen")}
		}
		have := g.s.Acct(victim).Assets[id].Amount
		return &txntest.Txn{Type: protocol.AssetTransferTx, Sender: p.Clawback, XferAsset: id, AssetSender: victim,
			AssetReceiver: g.pick("rcv", hs), AssetAmount: rapid.Uint64Range(0, have).Draw(t, "aamt")}
	case "app-create":
		from := g.funded(2_000_000)
		if len(from) == 0 || len(g.appIDs) >= 6 {
			return nil
		}
		snd := g.pick("snd", from)
		a, _, c := engcPrograms()
		return &txntest.Txn{Type: protocol.ApplicationCallTx, Sender: snd, ApprovalProgram: a, ClearStateProgram: c,
			GlobalStateSchema: basics.StateSchema{NumUint: uint64(rapid.IntRange(0, 2).Draw(t, "gUint")), NumByteSlice: uint64(rapid.IntRange(1, 4).Draw(t, "gBytes"))},
			LocalStateSchema:  basics.StateSchema{NumUint: uint64(rapid.IntRange(0, 1).Draw(t, "lUint")), NumByteSlice: uint64(rapid.IntRange(1, 3).Draw(t, "lBytes"))},
			ExtraProgramPages: uint32(rapid.IntRange(0, 1).Draw(t, "epp")),
		}
	case "app-fund":
		if len(g.appIDs) == 0 {
			return nil
		}
		app := g.appIDs[rapid.IntRange(0, len(g.appIDs)-1).Draw(t, "app")]
		for _, id := range g.appIDs { // prefer an application whose account is short of funds
			if g.spendable(id.Address()) < 200_000 {
				app = id
				break
			}
		}
		from := g.funded(1_000_000)
		if len(from) == 0 {
			return nil
		}
		snd := g.pick("snd", from)
		amt := rapid.Uint64Range(300_000, 1_000_000).Draw(t, "amt")
		return &txntest.Txn{Type: protocol.PaymentTx, Sender: snd, Receiver: app.Address(), Amount: amt}
	case "app-optin", "app-closeout", "app-clear", "app-update", "app-delete", "app-call":
		if len(g.appIDs) == 0 {
			return nil
		}
		app := g.appIDs[rapid.IntRange(0, len(g.appIDs)-1).Draw(t, "app")]
		creator, _ := g.s.Creator(basics.CreatableIndex(app), basics.AppCreatable)
		tx := &txntest.Txn{Type: protocol.ApplicationCallTx, ApplicationID: app}
		in := g.filter(g.optedIn(app), func(a basics.Address) bool { return g.spendable(a) > 0 })
		switch kind {
		case "app-optin":
			out := g.filter(g.funded(1_000_000), func(a basics.Address) bool { _, ok := g.s.Acct(a).AppLocals[app]; return !ok })
			if len(out) == 0 {
				return nil
			}
			tx.Sender, tx.OnCompletion = g.pick("snd", out), transactions.OptInOC
		case "app-closeout", "app-clear":
			if len(in) == 0 {
				return nil
			}
			tx.Sender = g.pick("snd", in)
			tx.OnCompletion = transactions.CloseOutOC
			if kind == "app-clear" {
				tx.OnCompletion = transactions.ClearStateOC
			}
		case "app-update":
			if g.spendable(creator) == 0 {
				return nil
			}
			a, b, c := engcPrograms()
			tx.Sender, tx.OnCompletion = creator, transactions.UpdateApplicationOC
			tx.ApprovalProgram, tx.ClearStateProgram = b, engcProgs.clearB
			if rapid.Bool().Draw(t, "updBack") {
				tx.ApprovalProgram, tx.ClearStateProgram = a, c
			}
		case "app-delete":
			if g.spendable(creator) == 0 {
				return nil
			}
			tx.Sender, tx.OnCompletion = creator, transactions.DeleteApplicationOC
		case "app-call":
			from := g.funded(0)
			if len(from) == 0 {
				return nil
			}
			tx.Sender = g.pick("snd", from)
			key := engcKeys[rapid.IntRange(0, len(engcKeys)-1).Draw(t, "key")]
			box := engcBoxNames[rapid.IntRange(0, len(engcBoxNames)-1).Draw(t, "box")]
			val := []byte(fmt.Sprintf("v%d", rapid.IntRange(0, 99).Draw(t, "val")))
			boxKey := engcBoxKey(app, box)
			cur, boxExists := g.s.Kv[boxKey]
			ops := []string{"gput", "gput", "gputi", "gdel", "lput", "lput", "ldel", "bcreate", "bcreate", "bput", "bput", "bresize", "breplace", "bdel", "bdel", "ipay", "ipay", "ipay", "ipay", "log", "reject", "bogus"}
			op := ops[rapid.IntRange(0, len(ops)-1).Draw(t, "op")]
			if g.w.Opts.Profile == "money" && rapid.IntRange(0, 4).Draw(t, "moneyIpay") < 3 {
				op = "ipay"
			}
			// steer puts towards what the schema allows (a put beyond the schema is rejected; keep 1 in 5 of those)
			if params, ok := g.s.Acct(creator).AppParams[app]; ok && rapid.IntRange(0, 4).Draw(t, "schemaBlind") != 0 {
				switch op {
				case "gput", "gputi":
					op, key = engcSteerPut(t, op, key, params.GlobalState, params.GlobalStateSchema, "gput", "gputi", "gdel")
				case "lput":
					if len(in) > 0 {
						tx.Sender = g.pick("sndIn", in)
						ls := g.s.Acct(tx.Sender).AppLocals[app]
						op, key = engcSteerPut(t, op, key, ls.KeyValue, ls.Schema, "lput", "", "ldel")
					}
				}
			}
			// steer towards applicable box operations: create what is missing, and delete/modify what exists
			if (op == "bresize" || op == "breplace" || op == "bdel") && !boxExists && rapid.IntRange(0, 4).Draw(t, "boxMissing") != 0 {
				op = "bcreate"
			}
			if (op == "bcreate" || op == "bput") && boxExists && rapid.IntRange(0, 2).Draw(t, "boxPresent") != 0 {
				op = rapid.SampledFrom([]string{"bdel", "bdel", "breplace", "bresize"}).Draw(t, "boxOp")
			}
			if op[0] == 'b' && op != "bogus" && g.spendable(app.Address()) < 50_000 && rapid.IntRange(0, 3).Draw(t, "boxPoor") != 0 {
				op = "gput" // the application account cannot pay for box storage
			}
			if op == "ipay" && g.spendable(app.Address()) < 10_000 && rapid.IntRange(0, 3).Draw(t, "ipayPoor") != 0 {
				op = "log"
			}
			switch op {
			case "gput":
				tx.ApplicationArgs = [][]byte{[]byte("gput"), []byte(key), val}
			case "gputi":
				tx.ApplicationArgs = [][]byte{[]byte("gputi"), []byte(key), engcItob(rapid.Uint64Range(0, 1000).Draw(t, "ival"))}
			case "gdel":
				tx.ApplicationArgs = [][]byte{[]byte("gdel"), []byte(key)}
			case "lput", "ldel":
				if _, isIn := g.s.Acct(tx.Sender).AppLocals[app]; !isIn && len(in) > 0 && rapid.IntRange(0, 9).Draw(t, "localNotIn") != 0 {
					tx.Sender = g.pick("sndIn", in)
				}
				tx.ApplicationArgs = [][]byte{[]byte(op), []byte(key)}
				if op == "lput" {
					tx.ApplicationArgs = append(tx.ApplicationArgs, val)
				}
			case "bcreate":
				size := rapid.SampledFrom([]uint64{0, 1, 4, 4, 8, 24, 64}).Draw(t, "bsize")
				tx.ApplicationArgs = [][]byte{[]byte("bcreate"), []byte(box), engcItob(size)}
			case "bput":
				n := rapid.SampledFrom([]int{1, 4, 8}).Draw(t, "bputLen")
				if boxExists && len(cur) > 0 && rapid.IntRange(0, 5).Draw(t, "bputMismatch") != 0 {
					n = len(cur)
				}
				b := make([]byte, n)
				for i := range b {
					b[i] = val[i%len(val)]
				}
				tx.ApplicationArgs = [][]byte{[]byte("bput"), []byte(box), b}
			case "bresize":
				tx.ApplicationArgs = [][]byte{[]byte("bresize"), []byte(box), engcItob(rapid.SampledFrom([]uint64{0, 1, 4, 8, 32}).Draw(t, "bsize"))}
			case "breplace":
				off := uint64(0)
				if len(cur) > len(val) {
					off = rapid.Uint64Range(0, uint64(len(cur)-len(val))).Draw(t, "boff")
				}
				tx.ApplicationArgs = [][]byte{[]byte("breplace"), []byte(box), engcItob(off), val}
			case "bdel":
				tx.ApplicationArgs = [][]byte{[]byte("bdel"), []byte(box)}
			case "ipay":
				rcv := g.pick("ircv", g.all)
				if g.bal(rcv) == 0 && rapid.IntRange(0, 3).Draw(t, "ircvEmpty") != 0 {
					rcv = tx.Sender
				}
				hi := g.spendable(app.Address())
				if hi > 300_000 {
					hi = 300_000
				}
				amt := rapid.Uint64Range(0, hi).Draw(t, "iamt")
				if rapid.IntRange(0, 9).Draw(t, "iover") == 0 {
					amt = g.bal(app.Address()) + 1
				}
				tx.ApplicationArgs = [][]byte{[]byte("ipay"), engcItob(amt)}
				tx.Accounts = []basics.Address{rcv}
				tx.Fee = 3 * minFee
			case "log":
				tx.ApplicationArgs = [][]byte{[]byte("log"), val}
			case "reject":
				tx.ApplicationArgs = [][]byte{[]byte("reject")}
			default:
				tx.ApplicationArgs = [][]byte{[]byte("bogus")}
			}
			if op[0] == 'b' && op != "bogus" {
				tx.Boxes = []transactions.BoxRef{{Index: 0, Name: []byte(box)}}
				if rapid.IntRange(0, 3).Draw(t, "moreRefs") == 0 { // extra read budget
					tx.Boxes = append(tx.Boxes, transactions.BoxRef{}, transactions.BoxRef{})
				}
			}
		}
		if kind != "app-call" && rapid.IntRange(0, 14).Draw(t, "ocReject") == 0 && kind != "app-clear" {
			tx.ApplicationArgs = [][]byte{[]byte("reject")}
		}
		return tx
	}
	return nil
}

// engcSteerPut adapts a put of `key` to the key/value store kv under schema: if the key is new and the schema has no
// room for another value of that type it re-targets an existing key of the type, or turns the put into a delete.
func engcSteerPut(t *rapid.T, op, key string, kv basics.TealKeyValue, schema basics.StateSchema, putBytes, putUint, del string) (string, string) {
	var nUint, nBytes uint64
	var uintKeys, bytesKeys []string
	for _, k := range engcKeys { // deterministic order
		v, ok := kv[k]
		if !ok {
			continue
		}
		if v.Type == basics.TealUintType {
			nUint++
			uintKeys = append(uintKeys, k)
		} else {
			nBytes++
			bytesKeys = append(bytesKeys, k)
		}
	}
	cur, exists := kv[key]
	wantUint := op == putUint && putUint != ""
	room := nBytes < schema.NumByteSlice
	same := bytesKeys
	if wantUint {
		room = nUint < schema.NumUint
		same = uintKeys
	}
	if exists && (cur.Type == basics.TealUintType) == wantUint {
		return op, key // overwrite in place
	}
	if !exists && room {
		return op, key
	}
	if len(same) > 0 {
		return op, same[rapid.IntRange(0, len(same)-1).Draw(t, "steerKey")]
	}
	if exists {
		return del, key
	}
	if len(uintKeys)+len(bytesKeys) > 0 {
		all := append(append([]string{}, uintKeys...), bytesKeys...)
		return del, all[rapid.IntRange(0, len(all)-1).Draw(t, "steerDel")]
	}
	return op, key // nothing stored and no room: rejected, part of the domain
}

// engcStartEval is upstream nextBlock() with errors returned instead of require'd.
func engcStartEval(l *Ledger) (*eval.BlockEvaluator, error) {
	rnd := l.Latest()
	hdr, err := l.BlockHdr(rnd)
	if err != nil {
		return nil, err
	}
	nextHdr := bookkeeping.MakeBlock(hdr).BlockHeader
	nextHdr.TimeStamp = hdr.TimeStamp + 1
	return eval.StartEvaluator(l, nextHdr, eval.EvaluatorOptions{Generate: true, Validate: true, Tracer: logic.EvalErrorDetailsTracer{}})
}

// engcBlockBuilder is a block under construction: BeginBlock, then any number of Submit*/RandomGroups, then Finish.
type engcBlockBuilder struct {
	w     *engcWorld
	Eval  *eval.BlockEvaluator
	Gen   *engcGen // generator context (model state at the start of the block)
	Info  *engcBlockInfo
	Round basics.Round

	// Proposer / Eligible override the drawn proposer when ProposerSet is true.
	ProposerSet bool
	Proposer    basics.Address
	Eligible    bool
}

// BeginBlock starts the evaluator for round latest+1 (generate+validate mode, like upstream nextBlock()).
func (w *engcWorld) BeginBlock(t *rapid.T) *engcBlockBuilder {
	l := w.Node.L
	w.Node.Quiesce()
	ev, err := engcStartEval(l)
	if err != nil {
		t.Fatalf("ENGINE: StartEvaluator after round %d: %v", l.Latest(), err)
	}
	round := ev.Round()
	if round != w.Model.Latest()+1 {
		t.Fatalf("ENGINE: evaluator round %d, model latest %d", round, w.Model.Latest())
	}
	return &engcBlockBuilder{w: w, Eval: ev, Gen: w.newGen(t, round), Round: round, Info: &engcBlockInfo{Round: round, Pre: w.Model.Tip()}}
}

// Submit fills defaults (fee, validity window, genesis hash, unique note unless one is set), groups the transactions
// when there is more than one, sets AuthAddr for rekeyed senders (from the model state at block start) and submits
// the group to the evaluator (TestTransactionGroup, then TransactionGroup). A rejection is recorded, not fatal.
func (b *engcBlockBuilder) Submit(kinds []string, txs ...*txntest.Txn) error {
	w := b.w
	for _, tx := range txs {
		if tx.Note == nil {
			w.noteCtr++
			tx.Note = engcItob(w.noteCtr)
		}
		fillDefaults(w.tb, w.Node.L, b.Eval, tx)
	}
	var stxns []transactions.SignedTxn
	if len(txs) == 1 {
		stxns = []transactions.SignedTxn{txs[0].SignedTxn()}
	} else {
		stxns = txntest.Group(txs...)
	}
	for i := range stxns {
		auth := b.Gen.s.Acct(stxns[i].Txn.Sender).Data.AuthAddr
		if !auth.IsZero() && auth != stxns[i].Txn.Sender {
			stxns[i].AuthAddr = auth
		}
	}
	return b.SubmitSigned(kinds, stxns)
}

// SubmitSigned submits an already built group as is (for replays, bad authorizers, hand-made groups).
func (b *engcBlockBuilder) SubmitSigned(kinds []string, stxns []transactions.SignedTxn) error {
	w := b.w
	err := b.Eval.TestTransactionGroup(stxns)
	if err == nil {
		err = b.Eval.TransactionGroup(transactions.WrapSignedTxnsWithAD(stxns)...)
	}
	res := engcGroupResult{Kinds: kinds, Txns: stxns, Err: err}
	b.Info.Groups = append(b.Info.Groups, res)
	for _, k := range kinds {
		if err == nil {
			w.label("txn-ok:" + k)
		} else {
			w.label("txn-rej:" + k)
		}
	}
	if err != nil && engcDebugRej {
		msg := err.Error()
		if i := strings.Index(msg, ": "); i >= 0 && strings.HasPrefix(msg, "transaction ") {
			msg = msg[i+2:]
		}
		if len(msg) > 70 {
			msg = msg[:70]
		}
		w.label("why:" + strings.Join(kinds, "+") + ": " + msg)
	}
	if err == nil {
		w.Accepted++
		w.label("group-accepted")
	} else {
		w.Rejected++
		w.label("group-rejected")
	}
	for _, f := range w.onGroup {
		f(&b.Info.Groups[len(b.Info.Groups)-1])
	}
	return err
}

// RandomGroups submits n generated groups of 1-4 transactions chosen from the model state at block start.
func (b *engcBlockBuilder) RandomGroups(t *rapid.T, n int) {
	for gi := 0; gi < n; gi++ {
		size := rapid.SampledFrom([]int{1, 1, 1, 1, 1, 1, 2, 2, 2, 3, 4}).Draw(t, "gsize")
		var txs []*txntest.Txn
		var kinds []string
		for i := 0; i < size; i++ {
			tx, kind := b.Gen.txn()
			txs = append(txs, tx)
			kinds = append(kinds, kind)
		}
		_ = b.Submit(kinds, txs...)
	}
}

// Finish generates the block, picks a proposer, validates the block with Ledger.Validate on the pre-block state,
// calls the OnValidated hooks, adds the block (AddValidatedBlock; the shadow gets it through AddBlock), folds it into
// the model, waits for quiescence and calls the OnBlock hooks.
func (b *engcBlockBuilder) Finish(t *rapid.T) *engcBlockInfo {
	w, ev, info, round := b.w, b.Eval, b.Info, b.Round
	l := w.Node.L
	pre := info.Pre
	prp, eligible := b.Proposer, b.Eligible
	if !b.ProposerSet {
		// proposer: any user account that exists; payout only if it would be eligible under the agreement rules
		var prps []basics.Address
		for _, u := range w.Users {
			if !pre.Acct(u).IsEmpty() {
				prps = append(prps, u)
			}
		}
		prp = w.Sink
		if len(prps) > 0 && rapid.IntRange(0, 9).Draw(t, "sinkProposer") != 0 {
			prp = prps[rapid.IntRange(0, len(prps)-1).Draw(t, "proposer")]
		}
		pd := pre.Acct(prp).Data
		pbal := pd.MicroAlgos.Raw + engcPendingRewards(pd.Status, pd.MicroAlgos.Raw, pd.RewardsBase, pre.RewardsLevel, pre.Proto.RewardUnit)
		eligible = w.Proto.Payouts.Enabled && pd.Status == basics.Online && pd.IncentiveEligible &&
			pbal >= w.Proto.Payouts.MinBalance && pbal <= w.Proto.Payouts.MaxBalance
		if eligible && rapid.IntRange(0, 7).Draw(t, "altruistic") == 0 {
			eligible = false
		}
	}
	ub, err := ev.GenerateBlock([]basics.Address{prp})
	if err != nil {
		t.Fatalf("ENGINE: GenerateBlock round %d: %v", round, err)
	}
	genDelta := ub.UnfinishedDeltas()
	// FinishBlock (what agreement calls) drops the payout by itself when the proposer emptied its account in this block
	blk := ub.FinishBlock(committee.Seed(prp), prp, eligible)
	vb, err := l.Validate(context.Background(), blk, nil)
	if err != nil {
		t.Fatalf("ENGINE: Ledger.Validate rejected generated block %d: %v", round, err)
	}
	info.Block, info.GenDelta, info.Delta, info.Proposer, info.Eligible = vb.Block(), genDelta, vb.Delta(), prp, eligible
	for _, f := range w.onValidated {
		f(info)
	}
	if err := l.AddValidatedBlock(*vb, engcCert); err != nil {
		t.Fatalf("ENGINE: AddValidatedBlock %d: %v", round, err)
	}
	if w.Shadow != nil {
		w.Shadow.Quiesce()
		if err := w.Shadow.L.AddBlock(vb.Block(), engcCert); err != nil {
			t.Fatalf("ENGINE: shadow AddBlock %d: %v", round, err)
		}
	}
	post, err := w.Model.apply(vb.Block(), vb.Delta())
	if err != nil {
		t.Fatalf("ENGINE-MODEL: %v", err)
	}
	info.Post = post
	for _, n := range w.Nodes() {
		n.Quiesce()
	}
	w.tracef("block %d groups=%d accepted=%d proposer=%v payout=%d level=%d", round, len(info.Groups), engcCountAccepted(info.Groups),
		engcShort(prp), vb.Block().ProposerPayout().Raw, post.RewardsLevel)
	if vb.Block().ProposerPayout().Raw > 0 {
		w.label("block:payout")
	}
	if post.RewardsLevel != pre.RewardsLevel {
		w.label("block:rewards-level-moved")
	}
	if len(vb.Block().ExpiredParticipationAccounts) > 0 {
		w.label("block:expired-accounts")
	}
	if len(vb.Block().AbsentParticipationAccounts) > 0 {
		w.label("block:absent-accounts")
	}
	for _, f := range w.onBlock {
		f(info)
	}
	return info
}

// StepBlock = BeginBlock + RandomGroups + Finish. ngroups < 0 draws the number of groups (0 with probability 1/8,
// else 1..MaxGroupsPerBlock).
func (w *engcWorld) StepBlock(t *rapid.T, ngroups int) *engcBlockInfo {
	b := w.BeginBlock(t)
	maxG := w.Opts.MaxGroupsPerBlock
	if maxG == 0 {
		maxG = 8
	}
	if ngroups < 0 {
		if rapid.IntRange(0, 7).Draw(t, "emptyBlock") == 0 {
			ngroups = 0
		} else {
			ngroups = rapid.IntRange(1, maxG).Draw(t, "ngroups")
		}
	}
	b.RandomGroups(t, ngroups)
	return b.Finish(t)
}

func engcCountAccepted(gs []engcGroupResult) int {
	n := 0
	for _, g := range gs {
		if g.Err == nil {
			n++
		}
	}
	return n
}

func engcShort(a basics.Address) string { return a.String()[:6] }
