package ledger

// C22 — Asset supply is conserved and holder rules are enforced.
//
// A drawn history of asset create / opt-in / transfer / clawback / freeze / close-out / config / destroy
// transactions (top-level, grouped, and as inner transactions of one small app) is run through the real
// BlockEvaluator on a fresh in-memory ledger. A reference model written from the protocol rules (not from the
// implementation's data structures) predicts, per group, whether one of the rules under test forces a rejection
// or whether nothing at all should make it fail. After every block the holdings of every account are read back
// from the ledger: sum(holdings) == Params.Total for every existing asset, and the model agrees with the ledger.

import (
	"encoding/binary"
	"fmt"
	"io"
	"math"
	"math/big"
	"strings"
	"testing"
	"time"

	"pgregory.net/rapid"

	"github.com/algorand/go-algorand/config"
	"github.com/algorand/go-algorand/data/basics"
	"github.com/algorand/go-algorand/data/transactions/logic"
	"github.com/algorand/go-algorand/data/txntest"
	ledgertesting "github.com/algorand/go-algorand/ledger/testing"
	"github.com/algorand/go-algorand/logging"
	"github.com/algorand/go-algorand/protocol"
)

// ---------------------------------------------------------------- reference model

type c22Verdict int

const (
	c22OK    c22Verdict = iota // nothing in the rules makes this fail: must be accepted
	c22Rule                    // a rule under test forbids it: must be rejected
	c22Other                   // fails for a reason outside the property (classified, not asserted)
)

type c22Pred struct {
	v   c22Verdict
	why string
}

var c22Fine = c22Pred{c22OK, "ok"}

func c22RuleP(why string) c22Pred  { return c22Pred{c22Rule, why} }
func c22OtherP(why string) c22Pred { return c22Pred{c22Other, why} }

type c22Hold struct {
	Amt    uint64
	Frozen bool
}

type c22Asset struct {
	ID      basics.AssetIndex
	Creator basics.Address
	P       basics.AssetParams // Total, DefaultFrozen, Manager, Reserve, Freeze, Clawback are meaningful
	Alive   bool
	Phantom bool // never existed (id that no create produced)
	H       map[basics.Address]*c22Hold
}

func (a *c22Asset) clone() *c22Asset {
	c := *a
	c.H = make(map[basics.Address]*c22Hold, len(a.H))
	for k, v := range a.H {
		h := *v
		c.H[k] = &h
	}
	return &c
}

type c22Model struct {
	assets []*c22Asset
}

func (m *c22Model) clone() *c22Model {
	c := &c22Model{assets: make([]*c22Asset, len(m.assets))}
	for i, a := range m.assets {
		c.assets[i] = a.clone()
	}
	return c
}

func (a *c22Asset) frozen(addr basics.Address) bool {
	h, ok := a.H[addr]
	return ok && h.Frozen
}

func (a *c22Asset) takeOut(addr basics.Address, amt uint64, bypass bool) c22Pred {
	if amt == 0 {
		return c22Fine
	}
	h, ok := a.H[addr]
	if !ok {
		return c22RuleP("snd-not-optin")
	}
	if h.Frozen && !bypass {
		return c22RuleP("frozen-out")
	}
	if h.Amt < amt {
		return c22OtherP("insufficient")
	}
	h.Amt -= amt
	return c22Fine
}

func (a *c22Asset) putIn(addr basics.Address, amt uint64, bypass bool) c22Pred {
	if amt == 0 {
		return c22Fine
	}
	h, ok := a.H[addr]
	if !ok {
		return c22RuleP("rcv-not-optin")
	}
	if h.Frozen && !bypass {
		return c22RuleP("frozen-in")
	}
	if h.Amt > math.MaxUint64-amt {
		return c22OtherP("rcv-overflow")
	}
	h.Amt += amt
	return c22Fine
}

// xfer models an asset transfer transaction sent by snd. It mutates a (callers work on a clone).
// info receives tags describing which interesting mechanism was exercised.
func (a *c22Asset) xfer(snd basics.Address, amt uint64, asnd, rcv, closeTo basics.Address, info map[string]bool) c22Pred {
	source := snd
	claw := false
	if !asnd.IsZero() {
		if !a.Alive {
			return c22OtherP("claw-no-asset")
		}
		if a.P.Clawback.IsZero() || snd != a.P.Clawback {
			if amt > 0 && (a.frozen(asnd) || a.frozen(rcv)) {
				return c22RuleP("notclaw-frozen")
			}
			return c22OtherP("not-clawback")
		}
		source = asnd
		claw = true
	}
	if amt > 0 && (a.frozen(source) || a.frozen(rcv)) {
		info["touches-frozen"] = true
	}
	if amt == 0 && rcv == source && !claw {
		if _, ok := a.H[source]; !ok {
			if !a.Alive {
				return c22OtherP("optin-no-asset")
			}
			a.H[source] = &c22Hold{Frozen: a.P.DefaultFrozen}
			info["optin"] = true
			if a.P.DefaultFrozen {
				info["optin-default-frozen"] = true
			}
		}
	}
	if p := a.takeOut(source, amt, claw); p.v != c22OK {
		return p
	}
	if p := a.putIn(rcv, amt, claw); p.v != c22OK {
		return p
	}
	if claw && amt > 0 {
		info["clawback-moved"] = true
		if a.frozen(source) || a.frozen(rcv) {
			info["claw-bypass-frozen"] = true
		}
	}
	if !closeTo.IsZero() {
		if claw {
			return c22OtherP("close-by-claw")
		}
		if a.Alive && a.Creator == source {
			if _, ok := a.H[source]; ok {
				return c22RuleP("creator-close")
			}
		}
		h, ok := a.H[source]
		if !ok {
			return c22RuleP("snd-not-optin")
		}
		bypass := a.Alive && a.Creator == closeTo
		rest := h.Amt
		if rest > 0 && (h.Frozen || a.frozen(closeTo)) {
			info["touches-frozen"] = true
			if bypass {
				info["close-to-creator-bypass"] = true
			}
		}
		if p := a.takeOut(source, rest, bypass); p.v != c22OK {
			return p
		}
		if p := a.putIn(closeTo, rest, bypass); p.v != c22OK {
			return p
		}
		if a.H[source].Amt != 0 {
			return c22RuleP("close-self-nonzero") // the code refuses: "asset ... not zero (N) after closing"
		}
		delete(a.H, source)
		info["closed"] = true
	}
	return c22Fine
}

func (a *c22Asset) freeze(snd, target basics.Address, frozen bool, info map[string]bool) c22Pred {
	if !a.Alive {
		return c22OtherP("freeze-no-asset")
	}
	if a.P.Freeze.IsZero() || snd != a.P.Freeze {
		return c22OtherP("not-freezer")
	}
	h, ok := a.H[target]
	if !ok {
		return c22OtherP("freeze-no-holding")
	}
	h.Frozen = frozen
	if frozen {
		info["froze"] = true
	}
	return c22Fine
}

func (a *c22Asset) config(snd basics.Address, np basics.AssetParams, info map[string]bool) c22Pred {
	if !a.Alive {
		return c22OtherP("config-no-asset")
	}
	if a.P.Manager.IsZero() || snd != a.P.Manager {
		if np == (basics.AssetParams{}) {
			info["destroy-attempt"] = true
		}
		return c22OtherP("not-manager")
	}
	if np == (basics.AssetParams{}) {
		info["destroy-attempt"] = true
		h, ok := a.H[a.Creator]
		held := uint64(0)
		if ok {
			held = h.Amt
		}
		if held != a.P.Total {
			return c22RuleP("destroy-partial")
		}
		delete(a.H, a.Creator)
		a.Alive = false
		info["destroyed"] = true
		return c22Fine
	}
	if !a.P.Manager.IsZero() {
		a.P.Manager = np.Manager
	}
	if !a.P.Reserve.IsZero() {
		a.P.Reserve = np.Reserve
	}
	if !a.P.Freeze.IsZero() {
		a.P.Freeze = np.Freeze
	}
	if !a.P.Clawback.IsZero() {
		a.P.Clawback = np.Clawback
	}
	return c22Fine
}

// error texts produced by the rules under test: a group the model expects to pass must never fail with one of these
var c22RuleErrs = []string{
	"frozen in", "must optin", "missing from", "cannot destroy asset", "cannot close asset ID in allocating account",
	"clawback not allowed", "not present in account", "is not opted in asset",
}

func c22IsRuleErr(err error) bool {
	s := err.Error()
	for _, e := range c22RuleErrs {
		if strings.Contains(s, e) {
			return true
		}
	}
	return false
}

// ---------------------------------------------------------------- inner-transaction app

// The app sends one asset transfer from its own account: arg0 = "xfer" | "claw" | "close", arg1 = amount (8 bytes),
// Assets[0] = asset, Accounts[1] = receiver, Accounts[2] = clawback victim / close-to address.
var c22AppSource = main(`
  itxn_begin
  int axfer; itxn_field TypeEnum
  txn Assets 0; itxn_field XferAsset
  txn ApplicationArgs 1; btoi; itxn_field AssetAmount
  txn Accounts 1; itxn_field AssetReceiver
  txn ApplicationArgs 0; byte "claw"; ==; bz noclaw
  txn Accounts 2; itxn_field AssetSender
  noclaw:
  txn ApplicationArgs 0; byte "close"; ==; bz noclose
  txn Accounts 2; itxn_field AssetCloseTo
  noclose:
  itxn_submit
`)

func c22Assemble(t *testing.T, src string, version uint64) []byte {
	ops, err := logic.AssembleString(fmt.Sprintf("#pragma version %d\n%s", version, src))
	if err != nil {
		t.Fatalf("assemble: %v %v", err, ops.Errors)
	}
	return ops.Program
}

// ---------------------------------------------------------------- generator

// c22R draws an integer uniformly from [lo, hi]. rapid.IntRange is deliberately biased towards small values, which
// would distort every weighted choice and percentage below; 24 fair coin flips give an (almost exactly) uniform draw
// that still shrinks towards lo.
func c22R(t *rapid.T, label string, lo, hi int) int {
	if hi <= lo {
		return lo
	}
	bits := rapid.SliceOfN(rapid.Bool(), 24, 24).Draw(t, label)
	v := 0
	for _, b := range bits {
		v <<= 1
		if b {
			v |= 1
		}
	}
	return lo + v%(hi-lo+1)
}

type c22Op struct {
	K     string // create optin xfer claw freeze close config destroy
	S     int    // sender (for App ops: the outer caller; the asset sender is the app account)
	As    int    // index into model.assets
	X, Y  int    // receiver / victim|closeTo|target
	Amt   uint64
	B     bool
	App   bool
	Addrs [4]int // create/config: manager, reserve, freeze, clawback (-1 = zero address)
	Dec   uint32
}

func (o c22Op) String() string {
	app := ""
	if o.App {
		app = "@app"
	}
	switch o.K {
	case "create":
		return fmt.Sprintf("create%s(s%d tot=%d df=%v mrfc=%v)", app, o.S, o.Amt, o.B, o.Addrs)
	case "config":
		return fmt.Sprintf("config(s%d a%d mrfc=%v)", o.S, o.As, o.Addrs)
	case "destroy":
		return fmt.Sprintf("destroy(s%d a%d)", o.S, o.As)
	case "freeze":
		return fmt.Sprintf("freeze(s%d a%d tgt=%d %v)", o.S, o.As, o.X, o.B)
	case "optin":
		return fmt.Sprintf("optin%s(s%d a%d)", app, o.S, o.As)
	case "xfer":
		return fmt.Sprintf("xfer%s(s%d a%d ->%d amt=%d)", app, o.S, o.As, o.X, o.Amt)
	case "claw":
		return fmt.Sprintf("claw%s(s%d a%d %d->%d amt=%d)", app, o.S, o.As, o.Y, o.X, o.Amt)
	case "close":
		return fmt.Sprintf("close%s(s%d a%d ->%d amt=%d closeTo=%d)", app, o.S, o.As, o.X, o.Amt, o.Y)
	}
	return o.K
}

type c22World struct {
	addrs    []basics.Address // [0,n) funded actors, n = app account, n+1 = unfunded stranger
	n        int
	appID    basics.AppIndex
	all      []basics.Address // every account that can possibly exist in this ledger
	m        *c22Model
	seq      int
	created  int
	maxAsset int
	// history so far (drives the adaptive weights)
	frozeSeen, frozenXfer, clawMoved, destroyTried bool
	progress                                       int  // percent of the planned history already generated
	sumOnly                                        bool // the model lost track (abandoned case): only conservation is read back
}

func (w *c22World) appIdx() int      { return w.n }
func (w *c22World) strangerIdx() int { return w.n + 1 }

func (w *c22World) addr(i int) basics.Address {
	if i < 0 {
		return basics.Address{}
	}
	return w.addrs[i]
}

func (w *c22World) idxOf(a basics.Address) int {
	for i, x := range w.addrs {
		if x == a {
			return i
		}
	}
	return -1
}

// pick draws an actor index; with probability pct/100 it returns one of prefer (if any)
func (w *c22World) pick(t *rapid.T, label string, prefer []int, pct int, senders bool) int {
	if len(prefer) > 0 && c22R(t, label+"Pref", 0, 99) < pct {
		return prefer[c22R(t, label+"P", 0, len(prefer)-1)]
	}
	hi := w.n + 1 // incl. app and stranger
	if senders {
		hi = w.n - 1 // funded genesis actors only
	}
	return c22R(t, label, 0, hi)
}

func (w *c22World) holders(a *c22Asset, positive, nonCreator bool) []int {
	var out []int
	for i, ad := range w.addrs {
		h, ok := a.H[ad]
		if !ok || (positive && h.Amt == 0) || (nonCreator && ad == a.Creator) {
			continue
		}
		out = append(out, i)
	}
	return out
}

func c22One(i int) []int {
	if i < 0 {
		return nil
	}
	return []int{i}
}

func c22DrawTotal(t *rapid.T) uint64 {
	switch c22R(t, "totKind", 0, 9) {
	case 0:
		return 0
	case 1:
		return 1
	case 2:
		return math.MaxUint64
	case 3:
		return math.MaxUint64 - uint64(c22R(t, "totNear", 0, 3))
	case 4:
		return 1 << 63
	case 5, 6:
		return uint64(c22R(t, "totSmall", 2, 20))
	default:
		return rapid.Uint64Range(2, 1_000_000).Draw(t, "tot")
	}
}

func c22DrawAmount(t *rapid.T, bal, total uint64) uint64 {
	switch c22R(t, "amtKind", 0, 13) {
	case 0:
		return 0
	case 1:
		return 1
	case 2, 3:
		return bal
	case 4:
		if bal > 0 {
			return bal - 1
		}
		return 0
	case 5:
		if bal < math.MaxUint64 {
			return bal + 1
		}
		return bal
	case 6:
		return total
	default:
		if bal == 0 {
			return uint64(c22R(t, "amtZ", 0, 2))
		}
		return rapid.Uint64Range(0, bal).Draw(t, "amt")
	}
}

func (w *c22World) drawOp(t *rapid.T, forceCreate bool) c22Op {
	m := w.m
	nReal := 0
	for _, a := range m.assets {
		if !a.Phantom {
			nReal++
		}
	}
	nAlive := 0
	for _, a := range m.assets {
		if a.Alive {
			nAlive++
		}
	}
	if forceCreate || nReal == 0 || (nAlive == 0 && w.created < w.maxAsset+2) {
		return w.drawCreate(t)
	}
	ai := c22R(t, "asset", 1, len(m.assets)-1)
	if !m.assets[ai].Alive && c22R(t, "keepDead", 0, 9) < 7 {
		for j := 1; j < len(m.assets); j++ { // mostly work on assets that still exist
			if m.assets[j].Alive {
				ai = j
				break
			}
		}
	}
	if c22R(t, "phantom", 0, 39) == 0 {
		ai = 0 // an asset id that never existed
	}
	a := m.assets[ai]
	nonCreators := w.holders(a, false, true)
	var frozenHolders []int
	for i, ad := range w.addrs {
		if a.frozen(ad) {
			frozenHolders = append(frozenHolders, i)
		}
	}
	fzOK := a.Alive && !a.P.Freeze.IsZero() && w.idxOf(a.P.Freeze) < w.n
	cbOK := a.Alive && !a.P.Clawback.IsZero()
	mgOK := a.Alive && !a.P.Manager.IsZero() && w.idxOf(a.P.Manager) < w.n
	type wk struct {
		k string
		w int
	}
	wOptin, wXfer, wClaw, wFreeze, wClose, wConfig, wDestroy := 4, 26, 3, 3, 7, 3, 3
	outsiders := 0
	for i := 0; i <= w.n; i++ {
		if _, ok := a.H[w.addr(i)]; !ok {
			outsiders++
		}
	}
	switch {
	case outsiders == 0:
		wOptin = 1
	case len(nonCreators) < 2:
		wOptin = 30
	case len(nonCreators) < 3:
		wOptin = 8
	}
	if cbOK {
		wClaw = 10
		if !w.clawMoved {
			wClaw = 40
		}
	}
	if fzOK {
		wFreeze = 8
		if !w.frozeSeen {
			wFreeze = 45
		}
	}
	if len(frozenHolders) > 0 && !w.frozenXfer {
		wXfer = 50
	}
	if mgOK {
		wDestroy = 4
		if ch, ok := a.H[a.Creator]; ok && ch.Amt == a.P.Total && w.progress < 60 {
			wDestroy = 1 // a destroy would succeed: keep the asset around for most of the history
		} else if !w.destroyTried && w.progress > 40 {
			wDestroy = 30
		}
	}
	if !a.Alive {
		wOptin, wXfer, wClaw, wFreeze, wClose, wConfig, wDestroy = 3, 6, 2, 2, 8, 2, 2
	}
	ws := []wk{{"optin", wOptin}, {"xfer", wXfer}, {"claw", wClaw}, {"freeze", wFreeze}, {"close", wClose}, {"config", wConfig}, {"destroy", wDestroy}}
	if w.created < w.maxAsset {
		ws = append(ws, wk{"create", 3})
	}
	tot := 0
	for _, x := range ws {
		tot += x.w
	}
	r := c22R(t, "opKind", 0, tot-1)
	kind := ""
	for _, x := range ws {
		if r < x.w {
			kind = x.k
			break
		}
		r -= x.w
	}
	if kind == "create" {
		return w.drawCreate(t)
	}
	op := c22Op{K: kind, As: ai}
	viaApp := func() bool { return c22R(t, "viaApp", 0, 99) < 15 }
	holdersPos := w.holders(a, true, false)
	holdersAny := w.holders(a, false, false)
	balOf := func(i int) uint64 {
		if h, ok := a.H[w.addr(i)]; ok {
			return h.Amt
		}
		return 0
	}
	switch kind {
	case "optin":
		var outsiders []int
		for i := 0; i < w.n; i++ {
			if _, ok := a.H[w.addr(i)]; !ok {
				outsiders = append(outsiders, i)
			}
		}
		_, appIn := a.H[w.addr(w.appIdx())]
		if (!appIn && c22R(t, "appOptin", 0, 99) < 25) || (appIn && viaApp()) {
			op.App = true
			op.S = w.pick(t, "caller", nil, 0, true)
		} else {
			op.S = w.pick(t, "snd", outsiders, 90, true)
		}
	case "xfer":
		if viaApp() {
			op.App = true
			op.S = w.pick(t, "caller", nil, 0, true)
			op.X = w.pick(t, "rcv", holdersAny, 65, false)
			if c22R(t, "selfXfer", 0, 11) == 0 {
				op.X = w.appIdx() // sender == receiver
			}
			op.Amt = c22DrawAmount(t, balOf(w.appIdx()), a.P.Total)
		} else {
			op.S = w.pick(t, "snd", holdersPos, 75, true)
			if op.S >= w.n { // preferred holder may be the app/stranger, which cannot sign: use the app path
				op.App = op.S == w.appIdx()
				if !op.App {
					op.S = 0
				} else {
					op.S = w.pick(t, "caller", nil, 0, true)
				}
			}
			op.X = w.pick(t, "rcv", holdersAny, 65, false)
			if c22R(t, "selfXfer", 0, 11) == 0 && !op.App {
				op.X = op.S // sender == receiver
			}
			if len(frozenHolders) > 0 && !op.App {
				steer := c22R(t, "steerFrozen", 0, 9)
				if !w.frozenXfer && steer >= 5 {
					steer -= 5
				}
				switch steer {
				case 0, 1, 2:
					op.X = frozenHolders[c22R(t, "frozenRcv", 0, len(frozenHolders)-1)]
				case 3, 4:
					if f := frozenHolders[c22R(t, "frozenSnd", 0, len(frozenHolders)-1)]; f < w.n {
						op.S = f
					}
				}
			}
			src := op.S
			if op.App {
				src = w.appIdx()
			}
			op.Amt = c22DrawAmount(t, balOf(src), a.P.Total)
		}
	case "claw":
		cb := w.idxOf(a.P.Clawback)
		if a.P.Clawback.IsZero() {
			cb = -1
		}
		s := w.pick(t, "snd", c22One(cb), 85, false)
		if s == w.appIdx() {
			op.App = true
			op.S = w.pick(t, "caller", nil, 0, true)
		} else if s >= w.n {
			op.S = 0
		} else {
			op.S = s
		}
		op.Y = w.pick(t, "victim", holdersPos, 75, false)
		op.X = w.pick(t, "rcv", holdersAny, 70, false)
		if len(frozenHolders) > 0 && c22R(t, "clawFrozen", 0, 9) < 4 {
			f := frozenHolders[c22R(t, "clawF", 0, len(frozenHolders)-1)]
			if rapid.Bool().Draw(t, "clawFrozenVictim") {
				op.Y = f
			} else {
				op.X = f
			}
		}
		op.Amt = c22DrawAmount(t, balOf(op.Y), a.P.Total)
		if b := balOf(op.Y); !w.clawMoved && b > 0 && c22R(t, "clawValid", 0, 9) < 7 {
			op.Amt = rapid.Uint64Range(1, b).Draw(t, "clawAmt")
		}
	case "freeze":
		fz := w.idxOf(a.P.Freeze)
		if a.P.Freeze.IsZero() || fz >= w.n {
			fz = -1 // the app cannot send freeze transactions
		}
		op.S = w.pick(t, "snd", c22One(fz), 88, true)
		op.X = w.pick(t, "target", holdersAny, 85, false)
		op.B = c22R(t, "frz", 0, 9) < 7 || !w.frozeSeen
	case "close":
		s := w.pick(t, "snd", nonCreators, 70, false)
		if s == w.appIdx() {
			op.App = true
			op.S = w.pick(t, "caller", nil, 0, true)
		} else if s >= w.n {
			op.S = 0
		} else {
			op.S = s
		}
		cr := w.idxOf(a.Creator)
		src := op.S
		if op.App {
			src = w.appIdx()
		}
		switch c22R(t, "closeToKind", 0, 12) {
		case 0, 1, 2, 3:
			op.Y = cr
		case 4, 5, 6, 7:
			op.Y = w.pick(t, "closeTo", holdersAny, 90, false)
		case 8, 9, 10:
			op.Y = src // close-out to SELF: must be refused unless the holding is empty
		default:
			op.Y = w.pick(t, "closeTo", nil, 0, false)
		}
		if c22R(t, "closeAmt0", 0, 9) < 7 {
			op.Amt = 0
			op.X = op.Y
		} else {
			op.Amt = c22DrawAmount(t, balOf(src), a.P.Total)
			op.X = w.pick(t, "rcv", holdersAny, 70, false)
		}
		if c22R(t, "closeRcvSelf", 0, 9) < 2 {
			op.X = src // sender == receiver (== closeTo when the self kind was drawn)
		}
	case "config":
		mg := w.idxOf(a.P.Manager)
		if a.P.Manager.IsZero() || mg >= w.n {
			mg = -1
		}
		op.S = w.pick(t, "snd", c22One(mg), 88, true)
		cur := [4]basics.Address{a.P.Manager, a.P.Reserve, a.P.Freeze, a.P.Clawback}
		for i := range op.Addrs {
			switch c22R(t, "cfgField", 0, 9) {
			case 0, 1, 2, 3, 4:
				op.Addrs[i] = w.idxOf(cur[i])
				if cur[i].IsZero() {
					op.Addrs[i] = -1
				}
			case 5:
				op.Addrs[i] = -1
			default:
				op.Addrs[i] = c22R(t, "cfgAddr", 0, w.n)
			}
		}
	case "destroy":
		mg := w.idxOf(a.P.Manager)
		if a.P.Manager.IsZero() || mg >= w.n {
			mg = -1
		}
		op.S = w.pick(t, "snd", c22One(mg), 88, true)
	}
	return op
}

func (w *c22World) drawCreate(t *rapid.T) c22Op {
	op := c22Op{K: "create"}
	op.S = w.pick(t, "creator", nil, 0, true)
	op.Amt = c22DrawTotal(t)
	op.B = c22R(t, "defaultFrozen", 0, 9) < 3
	op.Dec = uint32(c22R(t, "decimals", 0, 19))
	for i := range op.Addrs {
		zeroPct := 25
		if i == 0 || i >= 2 { // manager, freeze and clawback mostly present so the rules can be exercised
			zeroPct = 12
			if w.created == 0 {
				zeroPct = 4
			}
		}
		r := c22R(t, "roleKind", 0, 99)
		switch {
		case r < zeroPct:
			op.Addrs[i] = -1
		case r < zeroPct+30:
			op.Addrs[i] = op.S
		case r < zeroPct+38 && i == 3:
			op.Addrs[i] = w.appIdx() // the app account as clawback: inner clawback transactions
		default:
			op.Addrs[i] = c22R(t, "roleAddr", 0, w.n-1)
		}
	}
	return op
}

func c22U64(x uint64) []byte {
	b := make([]byte, 8)
	binary.BigEndian.PutUint64(b, x)
	return b
}

// build turns an op into a transaction and applies it to the model clone mc, returning the prediction.
// counter is the evaluator's transaction counter before this transaction (used for the new asset id).
func (w *c22World) build(op c22Op, mc *c22Model, counter uint64, info map[string]bool) (*txntest.Txn, c22Pred) {
	w.seq++
	note := fmt.Sprintf("c22-%d", w.seq)
	snd := w.addr(op.S)
	if op.K == "create" {
		p := basics.AssetParams{
			Total: op.Amt, Decimals: op.Dec, DefaultFrozen: op.B, UnitName: "u", AssetName: "c22",
			Manager: w.addr(op.Addrs[0]), Reserve: w.addr(op.Addrs[1]), Freeze: w.addr(op.Addrs[2]), Clawback: w.addr(op.Addrs[3]),
		}
		tx := &txntest.Txn{Type: "acfg", Sender: snd, AssetParams: p, Note: note}
		a := &c22Asset{ID: basics.AssetIndex(counter + 1), Creator: snd, P: p, Alive: true, H: map[basics.Address]*c22Hold{snd: {Amt: op.Amt}}}
		mc.assets = append(mc.assets, a)
		info["created"] = true
		return tx, c22Fine
	}
	a := mc.assets[op.As]
	switch op.K {
	case "config", "destroy":
		var np basics.AssetParams
		if op.K == "config" {
			np = basics.AssetParams{Manager: w.addr(op.Addrs[0]), Reserve: w.addr(op.Addrs[1]), Freeze: w.addr(op.Addrs[2]), Clawback: w.addr(op.Addrs[3])}
		}
		tx := &txntest.Txn{Type: "acfg", Sender: snd, ConfigAsset: a.ID, AssetParams: np, Note: note}
		return tx, a.config(snd, np, info)
	case "freeze":
		tx := &txntest.Txn{Type: "afrz", Sender: snd, FreezeAsset: a.ID, FreezeAccount: w.addr(op.X), AssetFrozen: op.B, Note: note}
		return tx, a.freeze(snd, w.addr(op.X), op.B, info)
	}
	// transfer family
	var amt uint64
	var asnd, rcv, closeTo basics.Address
	src := snd
	if op.App {
		src = w.addr(w.appIdx())
	}
	switch op.K {
	case "optin":
		rcv = src
	case "xfer":
		amt, rcv = op.Amt, w.addr(op.X)
	case "claw":
		amt, rcv, asnd = op.Amt, w.addr(op.X), w.addr(op.Y)
	case "close":
		amt, rcv, closeTo = op.Amt, w.addr(op.X), w.addr(op.Y)
	}
	var tx *txntest.Txn
	if op.App {
		kind := "xfer"
		third := src
		if op.K == "claw" {
			kind, third = "claw", asnd
		} else if op.K == "close" {
			kind, third = "close", closeTo
		}
		tx = &txntest.Txn{Type: "appl", Sender: snd, ApplicationID: w.appID, Note: note,
			ApplicationArgs: [][]byte{[]byte(kind), c22U64(amt)}, ForeignAssets: []basics.AssetIndex{a.ID},
			Accounts: []basics.Address{rcv, third}}
		info["inner"] = true
	} else {
		tx = &txntest.Txn{Type: "axfer", Sender: snd, XferAsset: a.ID, AssetAmount: amt, AssetSender: asnd, AssetReceiver: rcv, AssetCloseTo: closeTo, Note: note}
	}
	return tx, a.xfer(src, amt, asnd, rcv, closeTo, info)
}

// ---------------------------------------------------------------- oracle: read everything back from the ledger

func (w *c22World) checkLedger(t *rapid.T, tt *testing.T, l *Ledger, vk *vkCtx, when string) {
	ads := make(map[basics.Address]basics.AccountData, len(w.all))
	for _, ad := range w.all {
		ads[ad] = lookup(tt, l, ad)
	}
	for _, a := range w.m.assets {
		creator, exists, err := l.GetCreator(basics.CreatableIndex(a.ID), basics.AssetCreatable)
		if err != nil {
			tt.Fatalf("GetCreator: %v", err)
		}
		if !w.sumOnly && exists != a.Alive {
			t.Fatalf("%s: asset %d exists=%v in the ledger but the rules say alive=%v", when, a.ID, exists, a.Alive)
		}
		if exists {
			if !w.sumOnly && creator != a.Creator {
				t.Fatalf("%s: asset %d creator changed", when, a.ID)
			}
			params, ok := ads[creator].AssetParams[a.ID]
			if !ok {
				t.Fatalf("%s: asset %d has a creator entry but no params in the creator account", when, a.ID)
			}
			// --- conservation: sum over ALL accounts of the ledger
			sum := new(big.Int)
			for _, ad := range w.all {
				if h, ok := ads[ad].Assets[a.ID]; ok {
					sum.Add(sum, new(big.Int).SetUint64(h.Amount))
				}
			}
			if sum.Cmp(new(big.Int).SetUint64(params.Total)) != 0 {
				t.Fatalf("%s: asset %d: sum of holdings %s != Params.Total %d", when, a.ID, sum, params.Total)
			}
			vk.Add("conservation_checks", 1)
			if w.sumOnly {
				continue
			}
			if params.Total != a.P.Total || params.DefaultFrozen != a.P.DefaultFrozen {
				t.Fatalf("%s: asset %d immutable params changed: total %d (created with %d)", when, a.ID, params.Total, a.P.Total)
			}
			if params.Manager != a.P.Manager || params.Reserve != a.P.Reserve || params.Freeze != a.P.Freeze || params.Clawback != a.P.Clawback {
				t.Fatalf("%s: asset %d role addresses differ from the reference model", when, a.ID)
			}
		}
		if w.sumOnly {
			continue
		}
		// --- reference model agrees with the ledger, holding by holding (incl. default-frozen on opt-in)
		for i, ad := range w.all {
			h, ok := ads[ad].Assets[a.ID]
			mh, mok := a.H[ad]
			if ok != mok {
				t.Fatalf("%s: asset %d account#%d opted-in=%v in the ledger, %v by the rules", when, a.ID, i, ok, mok)
			}
			if ok && (h.Amount != mh.Amt || h.Frozen != mh.Frozen) {
				t.Fatalf("%s: asset %d account#%d holding {%d frozen=%v} in the ledger, {%d frozen=%v} by the rules", when, a.ID, i, h.Amount, h.Frozen, mh.Amt, mh.Frozen)
			}
		}
	}
}

// ---------------------------------------------------------------- the property

func TestVerif_C22_History(t *testing.T) {
	vk := vkBegin(t, "C22")
	vk.Rule("histories of 6-14 blocks x 1-8 groups x 1-3 txns over 5-8 funded accounts + one app account (inner axfer) + an unfunded stranger, 1-3 assets " +
		"(totals 0/1/small/2^63/MaxUint64, default-frozen, empty role addresses); non-trivial = an accepted freeze followed by a value transfer attempt touching a frozen holding, " +
		"an accepted clawback that moved value, and a destroy attempt; distinct by the full op list")
	vk.Assume("all accounts that can exist are the genesis accounts, fee sink, rewards pool, the app account and addresses named in generated transactions")
	vk.Assume("mid-block state is not readable from package ledger; conservation is read back after every block (30% of blocks hold a single group)")
	gen, gaddrs, _ := ledgertesting.NewTestGenesis()
	var stranger basics.Address
	copy(stranger[:], "c22-stranger-account-never-funded")
	tt := t
	quiet := logging.NewLogger()
	quiet.SetOutput(io.Discard)

	rapid.Check(t, func(t *rapid.T) {
		cv := protocol.ConsensusCurrentVersion
		if c22R(t, "future", 0, 2) == 0 {
			cv = protocol.ConsensusFuture
		}
		cfg := config.GetDefaultLocal()
		// the LRU caches and the verified-txn cache preallocate ~100k entries each, which dominates the cost of a case
		cfg.DisableLedgerLRUCache = c22R(t, "lru", 0, 9) != 0
		cfg.VerifiedTranscationsCacheSize = 2000
		cfg.TxPoolSize = 1000 // OpenLedger sizes the verified-txn cache to at least TxPoolSize
		// No background tracker commits while the history runs: reads from this test would race with the commit
		// goroutine on the shared-cache in-memory sqlite ("database table is locked"). Nothing is committable with
		// a lookback longer than the history; the database path is exercised by an explicit, awaited flush at the end.
		cfg.MaxAcctLookback = 100
		t0 := time.Now()
		l := newSimpleLedgerWithConsensusVersion(tt, gen, cv, cfg, simpleLedgerLogger(quiet))
		defer l.Close()
		l.trackers.mu.Lock()
		l.trackers.lastFlushTime = time.Now().Add(24 * time.Hour)
		l.trackers.mu.Unlock()
		proto := config.Consensus[cv]

		n := c22R(t, "accounts", 5, 8)
		w := &c22World{n: n, maxAsset: c22R(t, "maxAssets", 1, 3)}
		w.m = &c22Model{assets: []*c22Asset{{ID: 999_999, Phantom: true, H: map[basics.Address]*c22Hold{}}}}

		// setup block: create and fund the app
		eval := nextBlock(tt, l)
		w.appID = basics.AppIndex(eval.TestingTxnCounter() + 1)
		prog := c22Assemble(tt, c22AppSource, proto.LogicSigVersion)
		txn(tt, l, eval, &txntest.Txn{Type: "appl", Sender: gaddrs[9], ApprovalProgram: prog, ClearStateProgram: prog})
		txn(tt, l, eval, &txntest.Txn{Type: "pay", Sender: gaddrs[9], Receiver: w.appID.Address(), Amount: 20_000_000})
		endBlock(tt, l, eval)
		vk.Add("ms_setup", time.Since(t0).Milliseconds())
		t0 = time.Now()
		w.addrs = append(append([]basics.Address{}, gaddrs[:n]...), w.appID.Address(), stranger)
		w.all = nil
		seenAddr := map[basics.Address]bool{}
		for _, ad := range append(append([]basics.Address{}, gaddrs...), w.appID.Address(), stranger, basics.Address{}, gen.FeeSink, gen.RewardsPool) {
			if !seenAddr[ad] {
				seenAddr[ad] = true
				w.all = append(w.all, ad)
			}
		}
		if _, ok, _ := l.GetCreator(basics.CreatableIndex(w.appID), basics.AppCreatable); !ok {
			tt.Fatalf("setup: app %d not created", w.appID)
		}

		var fp strings.Builder
		var rendered []string
		hist := map[string]bool{}
		frozeSeen, frozenXferAfterFreeze := false, false
		nBlocks := c22R(t, "blocks", 6, 14)
		abandoned := false
		first := true
		for b := 0; b < nBlocks && !abandoned; b++ {
			eval := nextBlock(tt, l)
			w.progress = 100 * b / nBlocks
			nGroups := 1
			if c22R(t, "multiGroup", 0, 9) >= 3 {
				nGroups = c22R(t, "groups", 2, 8)
			}
			for g := 0; g < nGroups && !abandoned; g++ {
				gs := 1
				if r := c22R(t, "groupSize", 0, 11); r >= 11 {
					gs = 3
				} else if r >= 9 {
					gs = 2
				}
				mc := w.m.clone()
				saved := w.m
				w.m = mc // ops of a group are drawn against the state left by the group's earlier ops
				var txs []*txntest.Txn
				pred := c22Fine
				info := map[string]bool{}
				var ops []c22Op
				counter := eval.TestingTxnCounter()
				for i := 0; i < gs; i++ {
					op := w.drawOp(t, first)
					first = false
					if op.K == "create" && i > 0 {
						break // asset ids are only predicted for the first transaction of a group
					}
					if op.K == "create" {
						w.created++
					}
					tx, p := w.build(op, mc, counter, info)
					ops = append(ops, op)
					txs = append(txs, tx)
					if pred.v == c22OK && p.v != c22OK {
						pred = p
					}
					if pred.v != c22OK {
						break // later ops would be drawn against a state that never materialises
					}
					if op.K == "create" {
						break // keep creations in their own group: id prediction stays trivial
					}
				}
				w.m = saved
				err := txgroup(tt, l, eval, txs...)
				for _, op := range ops {
					s := op.String()
					fp.WriteString(s)
					fp.WriteByte(';')
					rendered = append(rendered, s)
				}
				verdict := "acc"
				if err != nil {
					verdict = "rej"
				}
				fp.WriteString(verdict + "|")
				rendered = append(rendered, "=> "+pred.why+"/"+verdict)
				last := ops[len(ops)-1]
				vk.Labelf("%s:%s:%s", last.K, pred.why, verdict)
				if len(ops) > 1 {
					vk.Label("group>1")
				}
				switch pred.v {
				case c22OK:
					if err != nil {
						if c22IsRuleErr(err) {
							t.Fatalf("group %v: the rules allow it but it was rejected by a holder rule: %v", ops, err)
						}
						e := err.Error()
						if len(e) > 60 {
							e = e[:60]
						}
						vk.Label("unpredicted-reject:" + e)
						break
					}
					w.m = mc
					for k := range info {
						hist[k] = true
						vk.Label("did:" + k)
					}
					if info["froze"] {
						frozeSeen = true
					}
					if frozeSeen && info["touches-frozen"] {
						frozenXferAfterFreeze = true
					}
					w.clawMoved = w.clawMoved || info["clawback-moved"]
				case c22Rule:
					if err == nil {
						t.Fatalf("group %v accepted, but rule %q forbids it (model state before the group: %s)", ops, pred.why, c22Dump(saved, w))
					}
					if info["destroy-attempt"] {
						hist["destroy-attempt"] = true
					}
					if frozeSeen && (strings.HasPrefix(pred.why, "frozen") || pred.why == "notclaw-frozen" || info["touches-frozen"]) {
						frozenXferAfterFreeze = true
					}
				case c22Other:
					if info["destroy-attempt"] {
						hist["destroy-attempt"] = true
					}
					if err == nil {
						// outside the property: the reference model cannot follow, stop this history here
						vk.Label("abandoned:" + pred.why)
						abandoned = true
					}
				}
				w.frozeSeen, w.frozenXfer, w.destroyTried = frozeSeen, frozenXferAfterFreeze, hist["destroy-attempt"]
			}
			endBlock(tt, l, eval)
			l.trackers.waitAccountsWriting()
			w.sumOnly = abandoned
			w.checkLedger(t, tt, l, vk, fmt.Sprintf("after block %d", b+1))
			if abandoned {
				break
			}
		}
		if !abandoned && c22R(t, "flush", 0, 3) == 0 {
			// push everything into the database and read it all back through the committed path
			commitRoundLookback(0, l)
			l.trackers.waitAccountsWriting()
			w.checkLedger(t, tt, l, vk, "after flushing to the database")
			vk.Label("flushed-to-db")
		}
		vk.Add("ms_history", time.Since(t0).Milliseconds())
		vk.Add("groups", int64(len(rendered)/2))
		nt := frozenXferAfterFreeze && hist["clawback-moved"] && hist["destroy-attempt"]
		if frozenXferAfterFreeze {
			vk.Label("hist:freeze-then-transfer")
		}
		if hist["clawback-moved"] {
			vk.Label("hist:clawback")
		}
		if hist["destroy-attempt"] {
			vk.Label("hist:destroy-attempt")
		}
		if hist["destroyed"] {
			vk.Label("hist:destroyed")
		}
		vk.Case(nt, fp.String())
		if vk.WantSample(nt) {
			vk.Sample(nt, rendered)
		}
	})
}

func c22Dump(m *c22Model, w *c22World) string {
	var sb strings.Builder
	for _, a := range m.assets {
		if a.Phantom {
			continue
		}
		fmt.Fprintf(&sb, "asset%d{alive=%v total=%d creator=%d m=%d f=%d c=%d:", a.ID, a.Alive, a.P.Total, w.idxOf(a.Creator), w.idxOf(a.P.Manager), w.idxOf(a.P.Freeze), w.idxOf(a.P.Clawback))
		for i, ad := range w.addrs {
			if h, ok := a.H[ad]; ok {
				fmt.Fprintf(&sb, " #%d=%d", i, h.Amt)
				if h.Frozen {
					sb.WriteString("F")
				}
			}
		}
		sb.WriteString("} ")
	}
	return sb.String()
}
