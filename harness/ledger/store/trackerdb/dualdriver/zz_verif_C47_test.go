package dualdriver

// C47 — Ledger storage backends give identical answers.
//
// The same generated sequence of commit-like write steps (accounts, resources, creatables, kv pairs with adversarial keys,
// online accounts + round params + history pruning, state-proof verification contexts, tx tail, totals, round) is applied
// to a real sqlite tracker store and a real pebble tracker store (temp dirs), through the scopes the ledger uses
// (Transaction / Batch / direct writers, incl. aborted scopes). Every read of the API both backends serve is answered
// three ways — trivial map model, sqlite, pebble — and the renderings must be equal (refs are engine specific and are
// compared as nil / non-nil, exactly like dualdriver does).
//
// Out of domain (see TestVerif_C47_Unimplemented, counted): what the KV backend declares unimplemented.
// Known divergences of the KV backend (TestVerif_C47_Known): probed once per process; only the classes that reproduce on
// the tree under test are excluded by construction from the pebble comparison (sqlite is still compared with the model).

import (
	"context"
	"fmt"
	"os"
	"strings"
	"sync"
	"testing"
	"time"

	"pgregory.net/rapid"

	"github.com/algorand/go-algorand/data/basics"
	"github.com/algorand/go-algorand/ledger/ledgercore"
	"github.com/algorand/go-algorand/ledger/store/trackerdb"
	"github.com/algorand/go-algorand/protocol"
)

type c47Finding struct {
	sig    string
	what   string
	replay map[string]string
	fixed  bool // a class fixed in /repo: reproducing it again is a violation, never an exclusion
}

var (
	c47ProbeOnce     sync.Once
	c47ProbedDiv     c47Div
	c47ProbeFindings []c47Finding
	c47ProbeErr      error
)

func c47OnlineEntry(algos uint64) trackerdb.BaseOnlineAccountData {
	var d trackerdb.BaseOnlineAccountData
	d.MicroAlgos.Raw = algos
	d.VoteKeyDilution = 1
	d.VoteLastValid = 1000
	return d
}

// c47Probe runs the minimal case of every known divergence class on fresh stores.
func c47Probe(baseDir string) (c47Div, []c47Finding, error) {
	c47ProbeOnce.Do(func() {
		var div c47Div
		var fs []c47Finding
		var a, bb basics.Address
		a[0], bb[0] = 1, 2
		ru := c47Proto.RewardUnit
		with := func(f func(st [2]trackerdb.Store) error) error {
			st, dir, err := c47OpenStores(baseDir, nil)
			if err != nil {
				return err
			}
			defer os.RemoveAll(dir)
			defer st[0].Close()
			defer st[1].Close()
			return f(st)
		}
		insOnline := func(s trackerdb.Store, addr basics.Address, d trackerdb.BaseOnlineAccountData, upd uint64) error {
			w, err := s.MakeOnlineAccountsOptimizedWriter(true)
			if err != nil {
				return err
			}
			defer w.Close()
			_, err = w.InsertOnlineAccount(addr, d.NormalizedOnlineBalance(ru), d, upd, uint64(d.VoteLastValid))
			return err
		}
		// 1. prefix scans
		err := with(func(st [2]trackerdb.Store) error {
			key := c47BoxKey(1, "a")
			var got [2]string
			var cur [2]string
			for b, s := range st {
				w, err := s.MakeAccountsOptimizedWriter(false, false, true, false)
				if err != nil {
					return err
				}
				if err := w.UpsertKvPair(key, []byte("v")); err != nil {
					return err
				}
				w.Close()
				r, err := s.MakeAccountsOptimizedReader()
				if err != nil {
					return err
				}
				res := map[string]bool{}
				if _, err := r.LookupKeysByPrefix(c47BoxKey(1, ""), 10, res, 0); err != nil {
					return err
				}
				got[b] = "{"
				for k, v := range res {
					got[b] += fmt.Sprintf("%q:%v", k, v)
				}
				got[b] += "}"
				_, kvs, more, err := r.LookupKeysByPrefixCursor(c47BoxKey(1, ""), "", 10, 0, true, nil)
				if err != nil {
					return err
				}
				cur[b] = fmt.Sprintf("%d pairs more=%v", len(kvs), more)
				r.Close()
			}
			if got[0] != got[1] || cur[0] != cur[1] {
				div.prefixNamespace = true
				fs = append(fs, c47Finding{sig: "kv-prefix-scan-namespace", what: fmt.Sprintf("after UpsertKvPair(%q,\"v\") LookupKeysByPrefix(%q,10,{},0) fills %s on sqlite but %s on pebble, and LookupKeysByPrefixCursor returns %s on sqlite but %s on pebble: "+
					"generickv scans [prefix, prefix+1) of the raw key space although kv pairs are stored under the \"xc-\" namespace (appKvKey), so the pebble backend never finds a stored box by prefix",
					key, c47BoxKey(1, ""), got[0], got[1], cur[0], cur[1]),
					replay: map[string]string{"key": c47Hex([]byte(key)), "sqlite": got[0], "pebble": got[1]}})
			}
			return nil
		})
		if err != nil {
			c47ProbeErr = err
			return
		}
		// 2. LookupOnline at round 0x..ff
		err = with(func(st [2]trackerdb.Store) error {
			var got [2]string
			for b, s := range st {
				if err := insOnline(s, a, c47OnlineEntry(5_000_000), 1); err != nil {
					return err
				}
				r, err := s.MakeOnlineAccountsOptimizedReader()
				if err != nil {
					return err
				}
				d254, err := r.LookupOnline(a, 254)
				if err != nil {
					return err
				}
				d255, err := r.LookupOnline(a, 255)
				if err != nil {
					return err
				}
				got[b] = fmt.Sprintf("rnd254:found=%v rnd255:found=%v", d254.Ref != nil, d255.Ref != nil)
				r.Close()
			}
			if got[0] != got[1] {
				fs = append(fs, c47Finding{sig: "kv-lookuponline-round-xff", fixed: true, what: fmt.Sprintf("one online entry (updround 1): LookupOnline(addr, 254 / 255) gives %s on sqlite but %s on pebble: onlineAccountLatestRangePrefix makes the upper bound inclusive with high[len-1]++ "+
					"without carry, so for every round whose low byte is 0xff the bound wraps below the lower bound and the account is reported as not online", got[0], got[1]),
					replay: map[string]string{"sqlite": got[0], "pebble": got[1]}})
			}
			return nil
		})
		if err != nil {
			c47ProbeErr = err
			return
		}
		// 3. OnlineAccountsDelete horizon
		err = with(func(st [2]trackerdb.Store) error {
			var got [2]string
			for b, s := range st {
				if err := insOnline(s, a, c47OnlineEntry(5_000_000), 1); err != nil {
					return err
				}
				if err := insOnline(s, a, c47OnlineEntry(6_000_000), 3); err != nil {
					return err
				}
				aw, err := s.MakeAccountsWriter()
				if err != nil {
					return err
				}
				if err := aw.OnlineAccountsDelete(3); err != nil {
					return err
				}
				r, err := s.MakeOnlineAccountsOptimizedReader()
				if err != nil {
					return err
				}
				hs, _, err := r.LookupOnlineHistory(a)
				if err != nil {
					return err
				}
				got[b] = "updrounds"
				for _, h := range hs {
					got[b] += fmt.Sprintf(" %d", h.UpdRound)
				}
				r.Close()
			}
			if got[0] != got[1] {
				fs = append(fs, c47Finding{sig: "kv-onlinedelete-inclusive", fixed: true, what: fmt.Sprintf("online entries at updround 1 and 3, OnlineAccountsDelete(forgetBefore=3): history is [%s] on sqlite (rows with updround < 3, keeping the latest of them) but [%s] on pebble: "+
					"the KV writer scans onlineAccountBalanceForRoundRangePrefix(3), which includes round 3 itself, so it treats updround <= forgetBefore as prunable", got[0], got[1]),
					replay: map[string]string{"sqlite": got[0], "pebble": got[1]}})
			}
			return nil
		})
		if err != nil {
			c47ProbeErr = err
			return
		}
		// 4. AccountsOnlineTop
		err = with(func(st [2]trackerdb.Store) error {
			var got [2]string
			for b, s := range st {
				if err := insOnline(s, a, c47OnlineEntry(5_000_000), 1); err != nil {
					return err
				}
				if err := insOnline(s, bb, c47OnlineEntry(3_000_000), 2); err != nil {
					return err
				}
				r, err := s.MakeAccountsReader()
				if err != nil {
					return err
				}
				top, err := r.AccountsOnlineTop(2, 0, 1, ru)
				if err != nil {
					return err
				}
				got[b] = "top1="
				for ad, oa := range top {
					got[b] += fmt.Sprintf("addr%d(%d)", ad[0], oa.MicroAlgos.Raw)
				}
			}
			if got[0] != got[1] {
				div.onlineTopOrder = true
				fs = append(fs, c47Finding{sig: "kv-onlinetop-order", what: fmt.Sprintf("addr1 online with 5 Algos since round 1, addr2 with 3 Algos since round 2: AccountsOnlineTop(rnd=2, offset=0, n=1) is %s on sqlite but %s on pebble: the KV reader walks the "+
					"(round, balance, address) index backwards, i.e. orders by update round before balance, applies offset/n to raw history rows instead of accounts, and does not drop accounts whose latest entry has balance 0", got[0], got[1]),
					replay: map[string]string{"sqlite": got[0], "pebble": got[1]}})
			}
			return nil
		})
		if err != nil {
			c47ProbeErr = err
			return
		}
		// 5. OnlineAccountsAll item round
		err = with(func(st [2]trackerdb.Store) error {
			var got [2]string
			for b, s := range st {
				if err := insOnline(s, a, c47OnlineEntry(5_000_000), 1); err != nil {
					return err
				}
				aw, err := s.MakeAccountsWriter()
				if err != nil {
					return err
				}
				if err := aw.UpdateAccountsRound(7); err != nil {
					return err
				}
				r, err := s.MakeAccountsReader()
				if err != nil {
					return err
				}
				all, err := r.OnlineAccountsAll(0)
				if err != nil {
					return err
				}
				if len(all) != 1 {
					return fmt.Errorf("probe: OnlineAccountsAll returned %d items", len(all))
				}
				got[b] = fmt.Sprintf("Round=%d", all[0].Round)
			}
			if got[0] != got[1] {
				div.onlineAllRound = true
				fs = append(fs, c47Finding{sig: "kv-onlineall-round", what: fmt.Sprintf("store at round 7 with one online entry: the item returned by OnlineAccountsAll(0) has %s on sqlite but %s on pebble (dualdriver compares the items with cmp.Equal, so the dual store "+
					"reports ErrInconsistentResult at every ledger start past round 0); no caller reads the field", got[0], got[1]),
					replay: map[string]string{"sqlite": got[0], "pebble": got[1]}})
			}
			return nil
		})
		if err != nil {
			c47ProbeErr = err
			return
		}
		c47ProbedDiv, c47ProbeFindings = div, fs
	})
	return c47ProbedDiv, c47ProbeFindings, c47ProbeErr
}

// TestVerif_C47_Known reproduces the known divergences of the KV backend from their minimal cases.
func TestVerif_C47_Known(t *testing.T) {
	vk := vkBegin(t, "C47")
	vk.Rule("minimal frozen cases of the divergence classes found between the sqlite and the pebble tracker stores (3 listed as known, 2 fixed in /repo and kept as regressions); non-trivial = the case drives both real stores through the call that differed; distinct by class")
	_, fs, err := c47Probe(c47TempBase(t))
	if err != nil {
		t.Fatalf("probe failed: %v", err)
	}
	all := []string{"kv-prefix-scan-namespace", "kv-onlinetop-order", "kv-onlineall-round", "kv-lookuponline-round-xff", "kv-onlinedelete-inclusive"}
	seen := map[string]bool{}
	for _, f := range fs {
		seen[f.sig] = true
		vk.Case(true, f.sig)
		vk.Sample(true, map[string]interface{}{"signature": f.sig, "what": f.what, "case": f.replay})
		if f.fixed {
			// fixed in /repo (424ce1b7c3, cf0d22956e): frozen regression
			vk.Failf(f.replay, "regression of fixed finding %s: %s", f.sig, f.what)
		}
		vk.Label("reproduced: " + f.sig)
		vk.Known(f.sig, f.what, f.replay)
	}
	for _, s := range all {
		if !seen[s] {
			vk.Case(true, s)
			vk.Label("backends agree on the minimal case: " + s)
			vk.Sample(false, map[string]string{"signature": s, "status": "backends agree"})
		}
	}
}

// TestVerif_C47_Unimplemented records the part of the interface the KV backend declares unimplemented (out of domain).
func TestVerif_C47_Unimplemented(t *testing.T) {
	vk := vkBegin(t, "C47")
	vk.Rule("enumeration of the trackerdb methods the KV backend declares unimplemented (error \"not supported\", panic \"unimplemented\", or a TODO stub returning zero values); each is a case; non-trivial = still a declared gap; distinct by method")
	st, dir, err := c47OpenStores(c47TempBase(t), nil)
	if err != nil {
		t.Fatal(err)
	}
	defer os.RemoveAll(dir)
	defer st[0].Close()
	defer st[1].Close()
	pb := st[c47Pb]
	ctx := context.Background()
	panics := func(f func()) (msg string) {
		defer func() {
			if r := recover(); r != nil {
				msg = fmt.Sprint(r)
			}
		}()
		f()
		return ""
	}
	ar, _ := pb.MakeAccountsOptimizedReader()
	ax, _ := pb.MakeAccountsReader()
	aw, _ := pb.MakeAccountsWriter()
	type gap struct {
		name string
		how  func() string // "" = not a declared gap any more
	}
	pan := func(f func()) func() string {
		return func() string {
			if m := panics(f); m != "" {
				return "panic " + m
			}
			return ""
		}
	}
	zero := func(f func() (bool, error)) func() string {
		return func() string {
			z, err := f()
			if err == nil && z {
				return "stub returning zero values"
			}
			return ""
		}
	}
	gaps := []gap{
		{"AccountsReader.LookupLimitedResources", func() string {
			_, _, err := ar.LookupLimitedResources(basics.Address{}, 0, 10, basics.AssetCreatable)
			if err != nil && strings.Contains(err.Error(), "not supported") {
				return "error not supported"
			}
			return ""
		}},
		{"Reader.MakeCatchpointPendingHashesIterator", pan(func() { pb.MakeCatchpointPendingHashesIterator(1) })},
		{"Reader.MakeCatchpointReader", pan(func() { pb.MakeCatchpointReader() })},
		{"Reader.MakeEncodedAccountsBatchIter", pan(func() { pb.MakeEncodedAccountsBatchIter() })},
		{"Reader.MakeKVsIter", pan(func() { pb.MakeKVsIter(ctx) })},
		{"Reader.MakeOrderedOnlineAccountsIter", pan(func() { pb.MakeOrderedOnlineAccountsIter(ctx, false, 0) })},
		{"Reader.MakeOnlineRoundParamsIter", pan(func() { pb.MakeOnlineRoundParamsIter(ctx, false, 0) })},
		{"Catchpoint.MakeCatchpointReaderWriter", pan(func() { pb.MakeCatchpointReaderWriter() })},
		{"Catchpoint.MakeCatchpointWriter", pan(func() { pb.MakeCatchpointWriter() })},
		{"Catchpoint.MakeMerkleCommitter", pan(func() { pb.MakeMerkleCommitter(false) })},
		{"Catchpoint.MakeOrderedAccountsIter", pan(func() { pb.MakeOrderedAccountsIter(1) })},
		{"WriterTestExt.AccountsInitLightTest", pan(func() { pb.Testing().AccountsInitLightTest(t, nil, 1) })},
		{"WriterTestExt.AccountsUpdateSchemaTest", pan(func() { pb.Testing().AccountsUpdateSchemaTest(ctx) })},
		{"WriterTestExt.ModifyAcctBaseTest", pan(func() { pb.Testing().ModifyAcctBaseTest() })},
		{"AccountsReaderExt.Testing", func() string {
			if ax.Testing() == nil {
				return "returns nil"
			}
			return ""
		}},
		{"AccountsReaderExt.AccountsHashRound", zero(func() (bool, error) {
			aw.UpdateAccountsHashRound(ctx, 9)
			r, err := ax.AccountsHashRound(ctx)
			return r == 0, err
		})},
		{"AccountsWriterExt.UpdateAccountsHashRound", zero(func() (bool, error) {
			err := aw.UpdateAccountsHashRound(ctx, 9)
			r, _ := ax.AccountsHashRound(ctx)
			return r == 0, err
		})},
		{"AccountsReaderExt.LookupAccountAddressFromAddressID", zero(func() (bool, error) {
			a, err := ax.LookupAccountAddressFromAddressID(ctx, nil)
			return a.IsZero(), err
		})},
		{"AccountsReaderExt.TotalResources", zero(func() (bool, error) { n, err := ax.TotalResources(ctx); return n == 0, err })},
		{"AccountsReaderExt.TotalAccounts", zero(func() (bool, error) { n, err := ax.TotalAccounts(ctx); return n == 0, err })},
		{"AccountsReaderExt.TotalKVs", zero(func() (bool, error) { n, err := ax.TotalKVs(ctx); return n == 0, err })},
		{"AccountsReaderExt.TotalOnlineAccountRows", zero(func() (bool, error) { n, err := ax.TotalOnlineAccountRows(ctx); return n == 0, err })},
		{"AccountsReaderExt.TotalOnlineRoundParams", zero(func() (bool, error) { n, err := ax.TotalOnlineRoundParams(ctx); return n == 0, err })},
		{"AccountsReaderExt.LoadAllFullAccounts", zero(func() (bool, error) {
			n, err := ax.LoadAllFullAccounts(ctx, "accountbase", "resources", func(basics.Address, basics.AccountData) {})
			return n == 0, err
		})},
		{"AccountsWriterExt.AccountsReset", zero(func() (bool, error) {
			err := aw.AccountsReset(ctx)
			r, err2 := ax.AccountsRound() // a real reset drops the round row
			return err2 == nil && r == 0, err
		})},
		{"AccountsWriterExt.ResetAccountHashes", zero(func() (bool, error) { return true, aw.ResetAccountHashes(ctx) })},
		{"SpVerificationCtxWriter.StoreSPContextsToCatchpointTbl + GetAllSPContextsFromCatchpointTbl", zero(func() (bool, error) {
			err := pb.MakeSpVerificationCtxWriter().StoreSPContextsToCatchpointTbl(ctx, []ledgercore.StateProofVerificationContext{{LastAttestedRound: 256}})
			if err != nil {
				return false, err
			}
			l, err := pb.MakeSpVerificationCtxReader().GetAllSPContextsFromCatchpointTbl(ctx)
			return len(l) == 0, err
		})},
		{"Store.Vacuum", zero(func() (bool, error) { s, err := pb.Vacuum(ctx); return s.PagesBefore == 0 && s.PagesAfter == 0, err })},
		{"Store.ResetToV6Test", zero(func() (bool, error) { return true, pb.ResetToV6Test(ctx) })},
	}
	var names []string
	for _, g := range gaps {
		how := g.how()
		if how != "" {
			vk.Case(true, g.name)
			vk.Excluded("kv-unimplemented: " + g.name + " (" + how + ")")
			names = append(names, g.name+": "+how)
		} else {
			vk.Case(false, g.name)
			vk.Label("no longer a declared gap (extend the differential check): " + g.name)
		}
	}
	vk.Sample(true, names)
	vk.Assume("catchpoint generation/restore, merkle trie storage, the Total* counters, hash rounds and LookupLimitedResources exist only in the sqlite backend; they are outside the compared API surface")
}

func c47GenGenesis(rt *rapid.T) map[basics.Address]basics.AccountData {
	n := rapid.IntRange(0, 3).Draw(rt, "genesisN")
	if n == 0 {
		return nil
	}
	g := map[basics.Address]basics.AccountData{}
	for i := 0; i < n; i++ {
		var a basics.Address
		a[0], a[1] = 0xee, byte(i)
		if i == 2 {
			for j := range a {
				a[j] = 0xff
			}
			a[0] = 0xfd
		}
		var ad basics.AccountData
		ad.Status = basics.Status(rapid.IntRange(0, 2).Draw(rt, fmt.Sprintf("g%dst", i)))
		ad.MicroAlgos.Raw = c47GenAlgos(rt, fmt.Sprintf("g%d", i))
		if ad.Status == basics.Online {
			v := c47GenVoting(rt, fmt.Sprintf("g%dv", i))
			ad.VoteID, ad.SelectionID, ad.StateProofID = v.VoteID, v.SelectionID, v.StateProofID
			ad.VoteFirstValid, ad.VoteLastValid, ad.VoteKeyDilution = v.VoteFirstValid, v.VoteLastValid, v.VoteKeyDilution
		}
		g[a] = ad
	}
	return g
}

func (w *c47World) initFromGenesis(g map[basics.Address]basics.AccountData) {
	ru := c47Proto.RewardUnit
	var tot ledgercore.AccountTotals
	for a, ad := range g {
		var bad trackerdb.BaseAccountData
		bad.SetAccountData(&ad)
		w.m.accts[a] = c47Acct{bad, ad.NormalizedOnlineBalance(ru)}
		w.addrs = append(w.addrs, a)
		var cnt *ledgercore.AlgoCount
		switch ad.Status {
		case basics.Online:
			cnt = &tot.Online
			var od trackerdb.BaseOnlineAccountData
			od.BaseVotingData = bad.BaseVotingData
			od.MicroAlgos = bad.MicroAlgos
			od.RewardsBase = bad.RewardsBase
			w.m.online[a] = []c47On{{0, od, ad.NormalizedOnlineBalance(ru), uint64(od.VoteLastValid)}}
		case basics.Offline:
			cnt = &tot.Offline
		default:
			cnt = &tot.NotParticipating
		}
		cnt.Money.Raw += ad.MicroAlgos.Raw
		cnt.RewardUnits += ad.MicroAlgos.Raw / ru
	}
	w.m.totals[0] = &tot
	w.m.params[0] = ledgercore.OnlineRoundParamsData{OnlineSupply: tot.Online.Money.Raw, RewardsLevel: 0, CurrentProtocol: protocol.ConsensusCurrentVersion}
	for b := range w.st {
		ax, err := w.st[b].MakeAccountsReader()
		if err != nil {
			w.fatalf("%s MakeAccountsReader: %v", c47BackendName[b], err)
		}
		for a := range g {
			ref, err := ax.LookupAccountRowID(a)
			if err != nil || ref == nil {
				w.fatalf("%s: genesis account %s has no row after RunMigrations: %v", c47BackendName[b], c47A(a), err)
			}
			w.refs[b][a] = ref
		}
	}
}

type c47Snap struct {
	m      *c47Model
	h      [2]trackerdb.Snapshot
	rd     [2]*c47Readers
	age    int
	closed bool
}

func (s *c47Snap) close() {
	if s == nil || s.closed {
		return
	}
	s.closed = true
	for b := range s.h {
		if s.rd[b] != nil {
			s.rd[b].close()
		}
		if s.h[b] != nil {
			s.h[b].Close()
		}
	}
}

func (w *c47World) openSnap() *c47Snap {
	s := &c47Snap{m: w.m}
	for b := range w.st {
		h, err := w.st[b].BeginSnapshot(context.Background())
		if err != nil {
			s.close()
			w.fatalf("%s BeginSnapshot: %v", c47BackendName[b], err)
		}
		s.h[b] = h
		rd, err := c47MakeReaders(h)
		if err != nil {
			s.close()
			w.fatalf("%s snapshot readers: %v", c47BackendName[b], err)
		}
		s.rd[b] = rd
		// sqlite takes the read snapshot at the first statement of a deferred transaction
		if _, err := rd.ax.AccountsRound(); err != nil {
			s.close()
			w.fatalf("%s AccountsRound in snapshot: %v", c47BackendName[b], err)
		}
	}
	return s
}

// readScoped performs n random reads on the current state through the given kind of reader scope.
func (w *c47World) readScoped(kind int, lbl string, n int) {
	var rd [2]*c47Readers
	var closers []func()
	defer func() {
		for i := len(closers) - 1; i >= 0; i-- {
			closers[i]()
		}
	}()
	for b := range w.st {
		var r trackerdb.Reader
		switch kind {
		case 0:
			r = w.st[b]
		case 1:
			h, err := w.st[b].BeginSnapshot(context.Background())
			if err != nil {
				w.fatalf("%s BeginSnapshot: %v", c47BackendName[b], err)
			}
			closers = append(closers, func() { h.Close() })
			r = h
		default:
			h, err := w.st[b].BeginTransaction(context.Background())
			if err != nil {
				w.fatalf("%s BeginTransaction: %v", c47BackendName[b], err)
			}
			closers = append(closers, func() { h.Close() })
			r = h
		}
		x, err := c47MakeReaders(r)
		if err != nil {
			w.fatalf("%s readers: %v", c47BackendName[b], err)
		}
		closers = append(closers, x.close)
		rd[b] = x
	}
	w.vk.Labelf("readscope=%s", []string{"store", "Snapshot", "Transaction"}[kind])
	if n < 0 {
		w.sweep(w.m, rd)
	} else {
		w.randomReads(w.m, rd, lbl, n)
	}
}

// dualSmoke reads through dualdriver.MakeStore(sqlite, pebble): it must not report ErrInconsistentResult for the calls
// both engines answer identically, and must return the model's answer.
func (w *c47World) dualSmoke() {
	dual := MakeStore(w.st[c47Sq], w.st[c47Pb])
	ar, err := dual.MakeAccountsOptimizedReader()
	if err != nil {
		w.fatalf("dual MakeAccountsOptimizedReader: %v", err)
	}
	defer ar.Close()
	ax, err := dual.MakeAccountsReader()
	if err != nil {
		w.fatalf("dual MakeAccountsReader: %v", err)
	}
	rnd, err := ax.AccountsRound()
	if err != nil || rnd != w.m.round {
		w.fatalf("dual AccountsRound = %d, %v; model %d", rnd, err, w.m.round)
	}
	for _, a := range w.addrs {
		d, err := ar.LookupAccount(a)
		if err != nil {
			w.fatalf("dual LookupAccount(%s): %v", c47A(a), err)
		}
		ac, ok := w.m.accts[a]
		if (d.Ref != nil) != ok || c47EncAcct(d.AccountData) != c47EncAcct(ac.data) || d.Round != w.m.round {
			w.fatalf("dual LookupAccount(%s) differs from the model", c47A(a))
		}
		ps, _, err := ar.LookupAllResources(a)
		if err != nil {
			w.fatalf("dual LookupAllResources(%s): %v", c47A(a), err)
		}
		if len(ps) != len(w.m.resourcesOf(a)) {
			w.fatalf("dual LookupAllResources(%s): %d resources, model %d", c47A(a), len(ps), len(w.m.resourcesOf(a)))
		}
	}
	for _, k := range w.m.sortedKeys() {
		p, err := ar.LookupKeyValue(k)
		if err != nil {
			w.fatalf("dual LookupKeyValue(%s): %v", c47Q(k), err)
		}
		if c47Hex(p.Value) != c47Hex(w.m.kv[k]) || p.Value == nil {
			w.fatalf("dual LookupKeyValue(%s) differs from the model", c47Q(k))
		}
	}
	for _, c := range c47Aidxs {
		_, ok, _, err := ar.LookupCreator(c, c47Ctype(c))
		if err != nil {
			w.fatalf("dual LookupCreator(%d): %v", c, err)
		}
		if _, want := w.m.creat[c]; ok != want {
			w.fatalf("dual LookupCreator(%d) found=%v, model %v", c, ok, want)
		}
	}
}

func TestVerif_C47_Backends(t *testing.T) {
	vk := vkBegin(t, "C47")
	vk.Rule("a case = genesis accounts + 4..14 commit-like write steps (Transaction/Batch/direct scopes, 1 in 10 aborted) over 6 adversarial addresses, 12 creatable ids and box keys with shared prefixes / 0x00 / 0xff bytes, " +
		"applied to a real sqlite and a real pebble tracker store; after every step random reads of every family (through store, Snapshot or Transaction readers, and through snapshots opened before later commits), a full sweep at the end; " +
		"oracle = trivial map model, compared with each backend; non-trivial = at least 3 committed steps touching at least 4 tables, at least 30 pebble-vs-model comparisons, and both found and not-found answers; distinct by the step history")
	vk.Assume("the go-sqlite3 and pebble libraries themselves; refs are engine specific and compared as nil / non-nil (as dualdriver does); error texts are not compared, only ok / ErrNotFound / other error")
	baseDir := c47TempBase(t)
	div, _, err := c47Probe(baseDir)
	if err != nil {
		t.Fatalf("probe failed: %v", err)
	}
	// a class is excluded only when it reproduces AND is listed as known; a reproduced but unlisted class (or a returned
	// fixed one) is therefore caught by the comparisons below
	div.prefixNamespace = div.prefixNamespace && vkKnownListed("C47", "kv-prefix-scan-namespace")
	div.onlineTopOrder = div.onlineTopOrder && vkKnownListed("C47", "kv-onlinetop-order")
	div.onlineAllRound = div.onlineAllRound && vkKnownListed("C47", "kv-onlineall-round")
	vk.Labelf("listed known classes excluded on this tree: prefix=%v onlineTop=%v onlineAllRound=%v", div.prefixNamespace, div.onlineTopOrder, div.onlineAllRound)
	rapid.Check(t, func(rt *rapid.T) {
		genesis := c47GenGenesis(rt)
		st, dir, err := c47OpenStores(baseDir, genesis)
		if err != nil {
			rt.Fatalf("open stores: %v", err)
		}
		w := &c47World{rt: rt, vk: vk, st: st, m: c47NewModel(), div: div, tables: map[string]bool{}}
		w.refs[0], w.refs[1] = map[basics.Address]trackerdb.AccountRef{}, map[basics.Address]trackerdb.AccountRef{}
		var snap *c47Snap
		defer func() {
			snap.close()
			st[0].Close()
			st[1].Close()
			os.RemoveAll(dir)
		}()
		w.initFromGenesis(genesis)
		for _, a := range c47GenAddrPool(rt) {
			if _, dup := w.m.accts[a]; !dup {
				w.addrs = append(w.addrs, a)
			}
		}
		w.busy = []uint64{rapid.SampledFrom(c47Apps).Draw(rt, "busy0"), rapid.SampledFrom(c47Apps).Draw(rt, "busy1")}
		w.logf("genesis: %d accounts", len(genesis))
		// the freshly initialised stores must already agree (genesis accounts, online entries, totals, round params)
		w.readScoped(0, "init", -1)
		nSteps := rapid.IntRange(4, 14).Draw(rt, "nSteps")
		for si := 0; si < nSteps; si++ {
			if snap == nil && rapid.IntRange(0, 4).Draw(rt, fmt.Sprintf("s%dsnap", si)) == 0 {
				snap = w.openSnap()
				w.logf("snapshot opened at round %d", w.m.round)
				vk.Label("snapshot opened")
			}
			w.writeStep(si)
			w.readScoped(rapid.IntRange(0, 2).Draw(rt, fmt.Sprintf("s%drs", si)), fmt.Sprintf("s%d", si), rapid.IntRange(3, 8).Draw(rt, fmt.Sprintf("s%drn", si)))
			if snap != nil {
				snap.age++
				if snap.age >= 1 && rapid.Bool().Draw(rt, fmt.Sprintf("s%dsnapread", si)) {
					// reads inside the snapshot must still see the state it was opened on
					w.logf("reading through the snapshot opened at round %d (store now at %d)", snap.m.round, w.m.round)
					w.randomReads(snap.m, snap.rd, fmt.Sprintf("s%dsn", si), 5)
					if snap.m != w.m {
						vk.Label("snapshot read after a later commit")
					}
					snap.close()
					snap = nil
				}
			}
		}
		if snap != nil {
			w.randomReads(snap.m, snap.rd, "finalsn", 5)
			snap.close()
			snap = nil
		}
		w.readScoped(0, "final", -1)
		w.dualSmoke()
		nt := w.commits >= 3 && len(w.tables) >= 4 && w.pbCompared >= 30 && w.found > 0 && w.miss > 0
		vk.Case(nt, strings.Join(w.trace, "\n"))
		vk.Add("pebble_comparisons", int64(w.pbCompared))
		vk.Add("pebble_excluded_comparisons", int64(w.pbExcluded))
		vk.Add("found_answers", int64(w.found))
		vk.Add("notfound_answers", int64(w.miss))
		vk.Labelf("final round %s", c47RoundBucket(uint64(w.m.round)))
		if vk.WantSample(nt) {
			vk.Sample(nt, map[string]interface{}{"history": w.trace, "final_round": w.m.round, "accounts": len(w.m.accts), "resources": len(w.m.res), "kv": len(w.m.kv), "online_addrs": len(w.m.online)})
		}
	})
}

func c47RoundBucket(r uint64) string {
	switch {
	case r == 0:
		return "0"
	case r < 16:
		return "1-15"
	case r < 255:
		return "16-254"
	default:
		return ">=255"
	}
}

// c47TempBase returns a scratch directory, on a RAM-backed file system when there is one (the stores fsync on every
// commit / open; on a loaded machine that dominates the run time). Removed at the end of the test; stale directories of
// killed runs are swept.
func c47TempBase(t *testing.T) string {
	const shm = "/dev/shm"
	if st, err := os.Stat(shm); err == nil && st.IsDir() {
		if ents, err := os.ReadDir(shm); err == nil {
			for _, e := range ents {
				if strings.HasPrefix(e.Name(), "verif-c47-") {
					if fi, err := e.Info(); err == nil && time.Since(fi.ModTime()) > 2*time.Hour {
						os.RemoveAll(shm + "/" + e.Name())
					}
				}
			}
		}
		if d, err := os.MkdirTemp(shm, "verif-c47-"); err == nil {
			t.Cleanup(func() { os.RemoveAll(d) })
			return d
		}
	}
	return t.TempDir()
}
