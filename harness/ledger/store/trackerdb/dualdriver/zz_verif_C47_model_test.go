package dualdriver

// C47 — Ledger storage backends give identical answers (SQLite vs key-value/Pebble tracker stores).
// This file: the trivial map model, value generators and rendering helpers.

import (
	"bytes"
	"encoding/binary"
	"encoding/hex"
	"fmt"
	"sort"
	"strings"

	"pgregory.net/rapid"

	"github.com/algorand/go-algorand/config"
	"github.com/algorand/go-algorand/crypto"
	"github.com/algorand/go-algorand/data/basics"
	"github.com/algorand/go-algorand/data/bookkeeping"
	"github.com/algorand/go-algorand/data/transactions"
	"github.com/algorand/go-algorand/ledger/ledgercore"
	"github.com/algorand/go-algorand/ledger/store/trackerdb"
	"github.com/algorand/go-algorand/protocol"
)

var c47Proto = config.Consensus[protocol.ConsensusCurrentVersion]

type c47ResKey struct {
	addr basics.Address
	aidx basics.CreatableIndex
}

type c47Creat struct {
	ctype   basics.CreatableType
	creator basics.Address
}

type c47On struct {
	upd  uint64
	data trackerdb.BaseOnlineAccountData
	norm uint64
	vlv  uint64
}

type c47Acct struct {
	data trackerdb.BaseAccountData
	norm uint64
}

// c47Model is the reference: plain maps, no ordering, no indexes.
type c47Model struct {
	round    basics.Round
	accts    map[basics.Address]c47Acct
	res      map[c47ResKey]trackerdb.ResourcesData
	creat    map[basics.CreatableIndex]c47Creat
	kv       map[string][]byte
	online   map[basics.Address][]c47On // ascending upd
	params   map[basics.Round]ledgercore.OnlineRoundParamsData
	txtail   map[basics.Round][]byte
	sp       map[basics.Round]ledgercore.StateProofVerificationContext
	totals   [2]*ledgercore.AccountTotals // [live, staging]
	onlineFB basics.Round
	txFB     basics.Round
	spNext   basics.Round
}

func c47NewModel() *c47Model {
	return &c47Model{
		accts:  map[basics.Address]c47Acct{},
		res:    map[c47ResKey]trackerdb.ResourcesData{},
		creat:  map[basics.CreatableIndex]c47Creat{},
		kv:     map[string][]byte{},
		online: map[basics.Address][]c47On{},
		params: map[basics.Round]ledgercore.OnlineRoundParamsData{},
		txtail: map[basics.Round][]byte{},
		sp:     map[basics.Round]ledgercore.StateProofVerificationContext{},
		spNext: 256,
	}
}

func (m *c47Model) clone() *c47Model {
	c := c47NewModel()
	c.round, c.onlineFB, c.txFB, c.spNext = m.round, m.onlineFB, m.txFB, m.spNext
	for k, v := range m.accts {
		c.accts[k] = v
	}
	for k, v := range m.res {
		c.res[k] = v
	}
	for k, v := range m.creat {
		c.creat[k] = v
	}
	for k, v := range m.kv {
		c.kv[k] = v
	}
	for k, v := range m.online {
		c.online[k] = append([]c47On(nil), v...)
	}
	for k, v := range m.params {
		c.params[k] = v
	}
	for k, v := range m.txtail {
		c.txtail[k] = v
	}
	for k, v := range m.sp {
		c.sp[k] = v
	}
	for i := range m.totals {
		if m.totals[i] != nil {
			t := *m.totals[i]
			c.totals[i] = &t
		}
	}
	return c
}

func (m *c47Model) hasResources(addr basics.Address) bool {
	for k := range m.res {
		if k.addr == addr {
			return true
		}
	}
	return false
}

func (m *c47Model) resourcesOf(addr basics.Address) []basics.CreatableIndex {
	var out []basics.CreatableIndex
	for k := range m.res {
		if k.addr == addr {
			out = append(out, k.aidx)
		}
	}
	sort.Slice(out, func(i, j int) bool { return out[i] < out[j] })
	return out
}

func (m *c47Model) latestOnline(addr basics.Address, rnd basics.Round) (c47On, bool) {
	var best c47On
	found := false
	for _, e := range m.online[addr] {
		if e.upd <= uint64(rnd) && (!found || e.upd > best.upd) {
			best, found = e, true
		}
	}
	return best, found
}

func (m *c47Model) sortedAddrs() []basics.Address {
	var out []basics.Address
	for a := range m.online {
		if len(m.online[a]) > 0 {
			out = append(out, a)
		}
	}
	sort.Slice(out, func(i, j int) bool { return bytes.Compare(out[i][:], out[j][:]) < 0 })
	return out
}

func (m *c47Model) sortedKeys() []string {
	out := make([]string, 0, len(m.kv))
	for k := range m.kv {
		out = append(out, k)
	}
	sort.Strings(out)
	return out
}

// the model's version of OnlineAccountsDelete(forgetBefore): entries with upd < forgetBefore go, except that the
// latest of them stays when it is online (non-empty voting data).
func (m *c47Model) onlineDelete(fb basics.Round) {
	for a, list := range m.online {
		latest := -1
		for i, e := range list {
			if e.upd < uint64(fb) && (latest < 0 || e.upd > list[latest].upd) {
				latest = i
			}
		}
		if latest < 0 {
			continue
		}
		keepLatest := !list[latest].data.IsVotingEmpty()
		var nl []c47On
		for i, e := range list {
			if e.upd >= uint64(fb) || (i == latest && keepLatest) {
				nl = append(nl, e)
			}
		}
		if len(nl) == 0 {
			delete(m.online, a)
		} else {
			m.online[a] = nl
		}
	}
}

// ---------- rendering

func c47Hex(b []byte) string { return hex.EncodeToString(b) }

func c47A(a basics.Address) string {
	return hex.EncodeToString(a[:4]) + ".." + hex.EncodeToString(a[30:])
}

func c47EncAcct(d trackerdb.BaseAccountData) string          { return c47Hex(protocol.Encode(&d)) }
func c47EncRes(d trackerdb.ResourcesData) string             { return c47Hex(protocol.Encode(&d)) }
func c47EncOn(d trackerdb.BaseOnlineAccountData) string      { return c47Hex(protocol.Encode(&d)) }
func c47EncParams(d ledgercore.OnlineRoundParamsData) string { return c47Hex(protocol.Encode(&d)) }
func c47EncTotals(d ledgercore.AccountTotals) string         { return c47Hex(protocol.Encode(&d)) }
func c47EncSP(d ledgercore.StateProofVerificationContext) string {
	return c47Hex(protocol.Encode(&d))
}

func c47Q(s string) string { return fmt.Sprintf("%q", s) }

// ---------- generators

func c47Be8(v uint64) string {
	var b [8]byte
	binary.BigEndian.PutUint64(b[:], v)
	return string(b[:])
}

func c47BoxKey(app uint64, name string) string { return "bx:" + c47Be8(app) + name }

var c47Apps = []uint64{1, 0xff, 0x100, 0x2d, 0x2e2d, 0xffffffffffffffff, 0x00ffffffffffffff}

var c47Names = []string{"", "a", "ab", "abc", "a\x00", "a\xff", "a\xff\xff", "\xff", "\xff\xff", "\x00", "\x00\x00", "b", "-", ".", "b\xfe"}

// c47GenKey draws a box key; most keys of a case fall under the case's two "busy" applications so that prefixes are shared.
func c47GenKey(rt *rapid.T, lbl string, busy []uint64) string {
	if len(busy) > 0 && rapid.IntRange(0, 9).Draw(rt, lbl+"busy") < 7 {
		return c47BoxKey(c47PickFrom(rt, lbl+"bapp", busy), rapid.SampledFrom(c47Names).Draw(rt, lbl+"bn"))
	}
	switch rapid.IntRange(0, 19).Draw(rt, lbl+"K") {
	case 0:
		return "c\xff\xff" + rapid.SampledFrom(c47Names).Draw(rt, lbl+"n")
	case 1:
		b := rapid.SliceOfN(rapid.Byte(), 1, 4).Draw(rt, lbl+"rn")
		return c47BoxKey(rapid.SampledFrom(c47Apps).Draw(rt, lbl+"app"), string(b))
	default:
		return c47BoxKey(rapid.SampledFrom(c47Apps).Draw(rt, lbl+"app"), rapid.SampledFrom(c47Names).Draw(rt, lbl+"n"))
	}
}

func c47GenValue(rt *rapid.T, lbl string) []byte {
	switch rapid.IntRange(0, 9).Draw(rt, lbl+"V") {
	case 0:
		return []byte{}
	case 1:
		return bytes.Repeat([]byte{0xab}, rapid.IntRange(50, 200).Draw(rt, lbl+"big"))
	case 2:
		return []byte{0}
	default:
		return rapid.SliceOfN(rapid.Byte(), 1, 8).Draw(rt, lbl+"v")
	}
}

func c47GenAddr(rt *rapid.T, lbl string) basics.Address {
	var a basics.Address
	switch rapid.IntRange(0, 9).Draw(rt, lbl+"A") {
	case 0: // all zero
	case 1:
		for i := range a {
			a[i] = 0xff
		}
	case 2:
		for i := range a {
			a[i] = '-'
		}
	case 3:
		for i := range a {
			a[i] = '.'
		}
	case 4:
		a[31] = 1
	case 5:
		for i := range a {
			a[i] = 0xff
		}
		a[31] = 0xfe
	case 6:
		for i := range a {
			a[i] = '-'
		}
		a[31] = '.'
	default:
		b := rapid.SliceOfN(rapid.Byte(), 32, 32).Draw(rt, lbl+"rnd")
		copy(a[:], b)
	}
	return a
}

func c47GenAddrPool(rt *rapid.T) []basics.Address {
	seen := map[basics.Address]bool{}
	var out []basics.Address
	for i := 0; len(out) < 6 && i < 60; i++ {
		a := c47GenAddr(rt, fmt.Sprintf("pool%d", i))
		if !seen[a] {
			seen[a] = true
			out = append(out, a)
		}
	}
	return out
}

var c47Aidxs = []basics.CreatableIndex{1, 2, 3, 255, 256, 65535, 1 << 32, 1 << 62, 0x2d2d2d2d2d2d2d2d, 0x2e2e2e2e2e2e2e2e, 1<<63 - 1, 0x00000000000000ff}

// every creatable index is globally either an asset or an app (as in a real ledger)
func c47Ctype(aidx basics.CreatableIndex) basics.CreatableType {
	for i, x := range c47Aidxs {
		if x == aidx {
			if i%2 == 0 {
				return basics.AssetCreatable
			}
			return basics.AppCreatable
		}
	}
	return basics.AssetCreatable
}

func c47GenAlgos(rt *rapid.T, lbl string) uint64 {
	switch rapid.IntRange(0, 5).Draw(rt, lbl+"M") {
	case 0:
		return rapid.Uint64Range(1, 999_999).Draw(rt, lbl+"small") // below one reward unit: normalised balance can be 0
	case 1:
		return 1_000_000
	case 2:
		return rapid.Uint64Range(1, 1_000_000_000_000_000).Draw(rt, lbl+"big")
	default:
		return rapid.Uint64Range(1, 50).Draw(rt, lbl+"u") * 1_000_000
	}
}

func c47GenVoting(rt *rapid.T, lbl string) trackerdb.BaseVotingData {
	var v trackerdb.BaseVotingData
	b := rapid.SliceOfN(rapid.Byte(), 32, 32).Draw(rt, lbl+"vid")
	copy(v.VoteID[:], b)
	v.SelectionID[0] = rapid.Byte().Draw(rt, lbl+"sel") | 1 // a StateProofID without a SelectionID is illegal (and repaired by a sqlite migration)
	v.VoteFirstValid = basics.Round(rapid.Uint64Range(0, 20).Draw(rt, lbl+"vfv"))
	v.VoteLastValid = basics.Round(rapid.Uint64Range(1, 600).Draw(rt, lbl+"vlv"))
	v.VoteKeyDilution = rapid.Uint64Range(1, 10000).Draw(rt, lbl+"vkd")
	if rapid.Bool().Draw(rt, lbl+"sp") {
		v.StateProofID[5] = rapid.Byte().Draw(rt, lbl+"spb")
	}
	return v
}

func c47GenAcctData(rt *rapid.T, lbl string, round basics.Round) trackerdb.BaseAccountData {
	var d trackerdb.BaseAccountData
	d.Status = basics.Status(rapid.IntRange(0, 2).Draw(rt, lbl+"st"))
	d.MicroAlgos.Raw = c47GenAlgos(rt, lbl)
	d.RewardsBase = rapid.Uint64Range(0, 1000).Draw(rt, lbl+"rb")
	d.RewardedMicroAlgos.Raw = rapid.Uint64Range(0, 1<<40).Draw(rt, lbl+"rma")
	if rapid.Bool().Draw(rt, lbl+"auth") {
		d.AuthAddr[3] = rapid.Byte().Draw(rt, lbl+"authb")
	}
	if rapid.Bool().Draw(rt, lbl+"tot") {
		d.TotalAppSchemaNumUint = rapid.Uint64Range(0, 64).Draw(rt, lbl+"t1")
		d.TotalAppSchemaNumByteSlice = rapid.Uint64Range(0, 64).Draw(rt, lbl+"t2")
		d.TotalExtraAppPages = uint32(rapid.IntRange(0, 3).Draw(rt, lbl+"t3"))
		d.TotalAssetParams = rapid.Uint64Range(0, 5).Draw(rt, lbl+"t4")
		d.TotalAssets = rapid.Uint64Range(0, 5).Draw(rt, lbl+"t5")
		d.TotalAppParams = rapid.Uint64Range(0, 5).Draw(rt, lbl+"t6")
		d.TotalAppLocalStates = rapid.Uint64Range(0, 5).Draw(rt, lbl+"t7")
		d.TotalBoxes = rapid.Uint64Range(0, 5).Draw(rt, lbl+"t8")
		d.TotalBoxBytes = rapid.Uint64Range(0, 1<<20).Draw(rt, lbl+"t9")
	}
	d.IncentiveEligible = rapid.Bool().Draw(rt, lbl+"ie")
	d.LastProposed = basics.Round(rapid.Uint64Range(0, 100).Draw(rt, lbl+"lp"))
	d.LastHeartbeat = basics.Round(rapid.Uint64Range(0, 100).Draw(rt, lbl+"lh"))
	if d.Status == basics.Online {
		d.BaseVotingData = c47GenVoting(rt, lbl)
	}
	d.UpdateRound = uint64(round)
	return d
}

func c47GenTKV(rt *rapid.T, lbl string) basics.TealKeyValue {
	n := rapid.IntRange(0, 2).Draw(rt, lbl+"n")
	if n == 0 {
		return nil
	}
	kv := basics.TealKeyValue{}
	for i := 0; i < n; i++ {
		k := string(rapid.SliceOfN(rapid.Byte(), 0, 3).Draw(rt, fmt.Sprintf("%sk%d", lbl, i)))
		if rapid.Bool().Draw(rt, fmt.Sprintf("%st%d", lbl, i)) {
			kv[k] = basics.TealValue{Type: basics.TealUintType, Uint: rapid.Uint64().Draw(rt, fmt.Sprintf("%su%d", lbl, i))}
		} else {
			kv[k] = basics.TealValue{Type: basics.TealBytesType, Bytes: string(rapid.SliceOfN(rapid.Byte(), 1, 4).Draw(rt, fmt.Sprintf("%sb%d", lbl, i)))}
		}
	}
	return kv
}

func c47GenResData(rt *rapid.T, lbl string, ctype basics.CreatableType, round basics.Round) trackerdb.ResourcesData {
	d := trackerdb.MakeResourcesData(uint64(round))
	shape := rapid.IntRange(0, 2).Draw(rt, lbl+"shape")    // 0 holding, 1 params, 2 both
	zero := rapid.IntRange(0, 4).Draw(rt, lbl+"zero") == 0 // all-default values (flags are the only marker)
	if ctype == basics.AssetCreatable {
		if shape != 1 {
			var h basics.AssetHolding
			if !zero {
				h.Amount = rapid.Uint64().Draw(rt, lbl+"amt")
				h.Frozen = rapid.Bool().Draw(rt, lbl+"frz")
			}
			d.SetAssetHolding(h)
		}
		if shape != 0 {
			var p basics.AssetParams
			if !zero {
				p.Total = rapid.Uint64().Draw(rt, lbl+"total")
				p.Decimals = uint32(rapid.IntRange(0, 19).Draw(rt, lbl+"dec"))
				p.UnitName = rapid.SampledFrom([]string{"", "U", "\xff\x00"}).Draw(rt, lbl+"un")
				p.AssetName = rapid.SampledFrom([]string{"", "name", "-.-"}).Draw(rt, lbl+"an")
				p.Manager[1] = rapid.Byte().Draw(rt, lbl+"mgr")
				p.MetadataHash[2] = rapid.Byte().Draw(rt, lbl+"mh")
			}
			d.SetAssetParams(p, shape == 2)
		}
	} else {
		if shape != 1 {
			var l basics.AppLocalState
			if !zero {
				l.Schema.NumUint = rapid.Uint64Range(0, 16).Draw(rt, lbl+"lsu")
				l.Schema.NumByteSlice = rapid.Uint64Range(0, 16).Draw(rt, lbl+"lsb")
				l.KeyValue = c47GenTKV(rt, lbl+"lkv")
			}
			d.SetAppLocalState(l)
		}
		if shape != 0 {
			var p basics.AppParams
			if !zero {
				p.ApprovalProgram = rapid.SliceOfN(rapid.Byte(), 1, 6).Draw(rt, lbl+"ap")
				p.ClearStateProgram = rapid.SliceOfN(rapid.Byte(), 1, 3).Draw(rt, lbl+"cp")
				p.GlobalState = c47GenTKV(rt, lbl+"gkv")
				p.GlobalStateSchema.NumUint = rapid.Uint64Range(0, 64).Draw(rt, lbl+"gsu")
				p.ExtraProgramPages = uint32(rapid.IntRange(0, 3).Draw(rt, lbl+"epp"))
				p.Version = rapid.Uint64Range(0, 3).Draw(rt, lbl+"ver")
			}
			d.SetAppParams(p, shape == 2)
		}
	}
	return d
}

func c47GenOnlineData(rt *rapid.T, lbl string) trackerdb.BaseOnlineAccountData {
	var d trackerdb.BaseOnlineAccountData
	d.BaseVotingData = c47GenVoting(rt, lbl)
	d.MicroAlgos.Raw = c47GenAlgos(rt, lbl)
	d.RewardsBase = rapid.Uint64Range(0, 1000).Draw(rt, lbl+"rb")
	d.IncentiveEligible = rapid.Bool().Draw(rt, lbl+"ie")
	d.LastProposed = basics.Round(rapid.Uint64Range(0, 100).Draw(rt, lbl+"lp"))
	d.LastHeartbeat = basics.Round(rapid.Uint64Range(0, 100).Draw(rt, lbl+"lh"))
	return d
}

func c47GenTotals(rt *rapid.T, lbl string) ledgercore.AccountTotals {
	var t ledgercore.AccountTotals
	g := func(s string) uint64 { return rapid.Uint64Range(0, 1<<62).Draw(rt, lbl+s) }
	t.Online.Money.Raw, t.Online.RewardUnits = g("a"), g("b")
	t.Offline.Money.Raw, t.Offline.RewardUnits = g("c"), g("d")
	t.NotParticipating.Money.Raw, t.NotParticipating.RewardUnits = g("e"), g("f")
	t.RewardsLevel = g("g")
	return t
}

func c47GenTxTail(rt *rapid.T, lbl string, rnd basics.Round) []byte {
	var tr trackerdb.TxTailRound
	n := rapid.IntRange(0, 3).Draw(rt, lbl+"n")
	for i := 0; i < n; i++ {
		var id transactions.Txid
		id[0], id[1] = byte(rnd), rapid.Byte().Draw(rt, fmt.Sprintf("%sid%d", lbl, i))
		tr.TxnIDs = append(tr.TxnIDs, id)
		tr.LastValid = append(tr.LastValid, rnd+basics.Round(rapid.IntRange(0, 1000).Draw(rt, fmt.Sprintf("%slv%d", lbl, i))))
	}
	if n > 0 && rapid.Bool().Draw(rt, lbl+"lease") {
		var l trackerdb.TxTailRoundLease
		l.Sender[0] = 7
		l.Lease[31] = rapid.Byte().Draw(rt, lbl+"lb")
		l.TxnIdx = 0
		tr.Leases = append(tr.Leases, l)
	}
	tr.Hdr = bookkeeping.BlockHeader{Round: rnd, TimeStamp: int64(rapid.IntRange(0, 1<<30).Draw(rt, lbl+"ts"))}
	tr.Hdr.GenesisID = "c47"
	b, _ := tr.Encode()
	return b
}

func c47GenSP(rt *rapid.T, lbl string, rnd basics.Round) ledgercore.StateProofVerificationContext {
	c := ledgercore.StateProofVerificationContext{LastAttestedRound: rnd}
	if rapid.Bool().Draw(rt, lbl+"vc") {
		c.VotersCommitment = crypto.GenericDigest(rapid.SliceOfN(rapid.Byte(), 1, 64).Draw(rt, lbl+"vcb"))
	}
	c.OnlineTotalWeight.Raw = rapid.Uint64().Draw(rt, lbl+"w")
	c.Version = protocol.ConsensusVersion(rapid.SampledFrom([]string{"", "v1", string(protocol.ConsensusCurrentVersion)}).Draw(rt, lbl+"ver"))
	return c
}

func c47HasPrefixKeys(m *c47Model, prefix string) []string {
	var out []string
	for _, k := range m.sortedKeys() {
		if strings.HasPrefix(k, prefix) {
			out = append(out, k)
		}
	}
	return out
}

// "strange" prefixes (empty or all 0xff) are rejected by the sqlite reader by design and never produced by callers.
func c47StrangePrefix(p string) bool {
	for i := 0; i < len(p); i++ {
		if p[i] != 0xff {
			return false
		}
	}
	return true
}
