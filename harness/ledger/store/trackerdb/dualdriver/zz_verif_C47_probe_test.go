package dualdriver

import (
	"context"
	"fmt"
	"io"
	"os"
	"testing"

	"github.com/algorand/go-algorand/config"
	"github.com/algorand/go-algorand/data/basics"
	"github.com/algorand/go-algorand/ledger/store/trackerdb"
	"github.com/algorand/go-algorand/ledger/store/trackerdb/pebbledbdriver"
	"github.com/algorand/go-algorand/ledger/store/trackerdb/sqlitedriver"
	"github.com/algorand/go-algorand/logging"
	"github.com/algorand/go-algorand/protocol"
)

func c47pOpen(t *testing.T) (sq, pb trackerdb.Store) {
	dir, err := os.MkdirTemp(t.TempDir(), "c47")
	if err != nil {
		t.Fatal(err)
	}
	lg := logging.NewLogger()
	lg.SetOutput(io.Discard)
	proto := config.Consensus[protocol.ConsensusCurrentVersion]
	sq, err = sqlitedriver.Open(dir+"/tracker.sqlite", false, lg)
	if err != nil {
		t.Fatal(err)
	}
	pb, err = pebbledbdriver.Open(dir+"/pb", false, proto, lg)
	if err != nil {
		t.Fatal(err)
	}
	params := trackerdb.Params{InitProto: protocol.ConsensusCurrentVersion}
	for _, s := range []trackerdb.Store{sq, pb} {
		if _, err := s.RunMigrations(context.Background(), params, lg, trackerdb.AccountDBVersion); err != nil {
			t.Fatal(err)
		}
	}
	return
}

func TestVerif_C47_Probe(t *testing.T) {
	sq, pb := c47pOpen(t)
	defer sq.Close()
	defer pb.Close()
	names := []string{"sqlite", "pebble"}
	stores := []trackerdb.Store{sq, pb}
	// kv
	for i, s := range stores {
		w, err := s.MakeAccountsOptimizedWriter(true, true, true, true)
		if err != nil {
			t.Fatal(err)
		}
		for _, k := range []string{"bx:a", "bx:b", "bx:c", "bx:empty"} {
			v := []byte("v" + k)
			if k == "bx:empty" {
				v = []byte{}
			}
			if err := w.UpsertKvPair(k, v); err != nil {
				t.Fatal(err)
			}
		}
		w.Close()
		r, err := s.MakeAccountsOptimizedReader()
		if err != nil {
			t.Fatal(err)
		}
		res := map[string]bool{}
		rnd, err := r.LookupKeysByPrefix("bx:", 10, res, 0)
		fmt.Printf("%s LookupKeysByPrefix(bx:,10,{}) rnd=%d err=%v res=%v\n", names[i], rnd, err, res)
		res = map[string]bool{"bx:a": false, "bx:b": true}
		rnd, err = r.LookupKeysByPrefix("bx:", 3, res, 1)
		fmt.Printf("%s LookupKeysByPrefix(bx:,3,{a:false,b:true},1) rnd=%d err=%v res=%v\n", names[i], rnd, err, res)
		rnd, kvs, more, err := r.LookupKeysByPrefixCursor("bx:", "", 2, 0, true, nil)
		fmt.Printf("%s Cursor rnd=%d kvs=%v more=%v err=%v\n", names[i], rnd, kvs, more, err)
		pv, err := r.LookupKeyValue("bx:empty")
		fmt.Printf("%s LookupKeyValue(empty) value=%v nil=%v err=%v\n", names[i], pv.Value, pv.Value == nil, err)
		pv, err = r.LookupKeyValue("bx:none")
		fmt.Printf("%s LookupKeyValue(none) value=%v nil=%v err=%v\n", names[i], pv.Value, pv.Value == nil, err)
		res = map[string]bool{}
		rnd, err = r.LookupKeysByPrefix("", 100, res, 0)
		fmt.Printf("%s LookupKeysByPrefix('',100) rnd=%d err=%v n=%d\n", names[i], rnd, err, len(res))
		r.Close()
	}
	// online
	var a, b, c basics.Address
	a[0], b[0], c[0] = 1, 2, 3
	mk := func(algos uint64, vlv basics.Round) trackerdb.BaseOnlineAccountData {
		d := trackerdb.BaseOnlineAccountData{MicroAlgos: basics.MicroAlgos{Raw: algos}}
		d.VoteLastValid = vlv
		d.VoteKeyDilution = 1
		return d
	}
	ru := config.Consensus[protocol.ConsensusCurrentVersion].RewardUnit
	for i, s := range stores {
		w, err := s.MakeOnlineAccountsOptimizedWriter(true)
		if err != nil {
			t.Fatal(err)
		}
		ins := func(addr basics.Address, d trackerdb.BaseOnlineAccountData, upd uint64) {
			if _, err := w.InsertOnlineAccount(addr, d.NormalizedOnlineBalance(ru), d, upd, uint64(d.VoteLastValid)); err != nil {
				t.Fatal(err)
			}
		}
		ins(a, mk(5_000_000, 1000), 1)
		ins(b, mk(3_000_000, 1000), 2)
		ins(a, mk(1_000_000, 1000), 3)
		ins(c, mk(9_000_000, 1000), 250)
		if _, err := w.InsertOnlineAccount(b, 0, trackerdb.BaseOnlineAccountData{}, 5, 0); err != nil {
			t.Fatal(err)
		}
		w.Close()
		or, _ := s.MakeOnlineAccountsOptimizedReader()
		for _, rnd := range []basics.Round{254, 255, 256, 511} {
			d, err := or.LookupOnline(c, rnd)
			fmt.Printf("%s LookupOnline(c,%d) ref=%v upd=%d err=%v\n", names[i], rnd, d.Ref != nil, d.UpdRound, err)
		}
		var unk basics.Address
		unk[0] = 99
		h, rnd, err := or.LookupOnlineHistory(unk)
		fmt.Printf("%s LookupOnlineHistory(unknown) n=%d rnd=%d err=%v\n", names[i], len(h), rnd, err)
		or.Close()
		ar, _ := s.MakeAccountsReader()
		for _, q := range [][3]uint64{{4, 0, 1}, {4, 0, 10}, {10, 0, 10}, {10, 1, 1}, {2, 0, 1}} {
			top, err := ar.AccountsOnlineTop(basics.Round(q[0]), q[1], q[2], ru)
			s := ""
			for ad, oa := range top {
				s += fmt.Sprintf(" %d:%d", ad[0], oa.MicroAlgos.Raw)
			}
			fmt.Printf("%s AccountsOnlineTop(rnd=%d,off=%d,n=%d) err=%v ->%s\n", names[i], q[0], q[1], q[2], err, s)
		}
		all, err := ar.OnlineAccountsAll(0)
		fmt.Printf("%s OnlineAccountsAll n=%d err=%v", names[i], len(all), err)
		for _, x := range all {
			fmt.Printf(" (%d,upd=%d,round=%d)", x.Addr[0], x.UpdRound, x.Round)
		}
		fmt.Println()
		aw, _ := s.MakeAccountsWriter()
		if err := aw.UpdateAccountsRound(7); err != nil {
			t.Fatal(err)
		}
		all, _ = ar.OnlineAccountsAll(0)
		fmt.Printf("%s OnlineAccountsAll@7", names[i])
		for _, x := range all {
			fmt.Printf(" (%d,upd=%d,round=%d)", x.Addr[0], x.UpdRound, x.Round)
		}
		fmt.Println()
		if err := aw.OnlineAccountsDelete(3); err != nil {
			t.Fatal(err)
		}
		all, _ = ar.OnlineAccountsAll(0)
		fmt.Printf("%s after OnlineAccountsDelete(3)", names[i])
		for _, x := range all {
			fmt.Printf(" (%d,upd=%d)", x.Addr[0], x.UpdRound)
		}
		fmt.Println()
		sp := s.MakeSpVerificationCtxReader()
		v, err := sp.LookupSPContext(5)
		fmt.Printf("%s LookupSPContext(missing) nil=%v err=%v\n", names[i], v == nil, err)
		allsp, err := sp.GetAllSPContexts(context.Background())
		fmt.Printf("%s GetAllSPContexts nil=%v n=%d err=%v\n", names[i], allsp == nil, len(allsp), err)
		_, err = ar.AccountsTotals(context.Background(), true)
		fmt.Printf("%s AccountsTotals(staging) err=%v\n", names[i], err)
		tot, err := ar.AccountsTotals(context.Background(), false)
		fmt.Printf("%s AccountsTotals(live) %+v err=%v\n", names[i], tot, err)
		_, err = ar.LookupAccountRowID(unk)
		fmt.Printf("%s LookupAccountRowID(unknown) err=%v\n", names[i], err)
		_, _, err = ar.LookupOnlineAccountDataByAddress(unk)
		fmt.Printf("%s LookupOnlineAccountDataByAddress(unknown) err=%v\n", names[i], err)
		or2, _ := s.MakeOnlineAccountsOptimizedReader()
		_, err = or2.LookupOnlineRoundParams(77)
		fmt.Printf("%s LookupOnlineRoundParams(missing) err=%v\n", names[i], err)
		p0, err := or2.LookupOnlineRoundParams(0)
		fmt.Printf("%s LookupOnlineRoundParams(0) %+v err=%v\n", names[i], p0, err)
		td, th, base, err := ar.LoadTxTail(context.Background(), 7)
		fmt.Printf("%s LoadTxTail(7) n=%d/%d base=%d err=%v\n", names[i], len(td), len(th), base, err)
	}
}
