package dualdriver

// C47 — the read side: every query is answered by the model, by the sqlite store and by the pebble store; the three
// renderings must be equal (pebble is left out only for the reproduced known-divergence classes, which are counted).

import (
	"bytes"
	"context"
	"errors"
	"fmt"
	"sort"
	"strings"

	"pgregory.net/rapid"

	"github.com/algorand/go-algorand/crypto"
	"github.com/algorand/go-algorand/data/basics"
	"github.com/algorand/go-algorand/ledger/ledgercore"
	"github.com/algorand/go-algorand/ledger/store/trackerdb"
)

// c47Div says which divergence classes listed in KNOWN_FINDINGS.txt reproduce on the tree under test (probed once per
// process). Only those are left out of the pebble comparison; anything else that differs is a violation.
type c47Div struct {
	prefixNamespace bool // kv-prefix-scan-namespace
	onlineTopOrder  bool // kv-onlinetop-order
	onlineAllRound  bool // kv-onlineall-round
}

type c47Readers struct {
	ar trackerdb.AccountsReader
	ax trackerdb.AccountsReaderExt
	or trackerdb.OnlineAccountsReader
	sp trackerdb.SpVerificationCtxReader
}

func c47MakeReaders(r trackerdb.Reader) (*c47Readers, error) {
	var rd c47Readers
	var err error
	if rd.ar, err = r.MakeAccountsOptimizedReader(); err != nil {
		return nil, err
	}
	if rd.ax, err = r.MakeAccountsReader(); err != nil {
		return nil, err
	}
	if rd.or, err = r.MakeOnlineAccountsOptimizedReader(); err != nil {
		return nil, err
	}
	rd.sp = r.MakeSpVerificationCtxReader()
	return &rd, nil
}

func (rd *c47Readers) close() {
	rd.ar.Close()
	rd.or.Close()
}

func c47ErrStr(err error) string {
	switch {
	case err == nil:
		return "ok"
	case errors.Is(err, trackerdb.ErrNotFound):
		return "ErrNotFound"
	default:
		return "error"
	}
}

// cmp3 compares the model's rendering with each backend's. skipPb != "" leaves pebble out (known class, counted).
func (w *c47World) cmp3(what string, exp string, rd [2]*c47Readers, skipPb string, f func(b int, r *c47Readers) string) {
	for b := range rd {
		if b == c47Pb && skipPb != "" {
			w.vk.Excluded(skipPb)
			w.pbExcluded++
			continue
		}
		got := f(b, rd[b])
		if got != exp {
			w.fatalf("%s: %s answers differently from the model (and hence from the other backend unless it fails too)\n  model : %s\n  %s: %s", what, c47BackendName[b], exp, c47BackendName[b], got)
		}
		if b == c47Pb {
			w.pbCompared++
		}
	}
}

func (w *c47World) hit(found bool) {
	if found {
		w.found++
	} else {
		w.miss++
	}
}

// ---- individual queries

func (w *c47World) qAccount(m *c47Model, rd [2]*c47Readers, a basics.Address) {
	ac, ok := m.accts[a]
	w.hit(ok)
	exp := fmt.Sprintf("ok addr=%s rnd=%d ref=%v data=%s", c47A(a), m.round, ok, c47EncAcct(ac.data))
	w.cmp3("LookupAccount("+c47A(a)+")", exp, rd, "", func(b int, r *c47Readers) string {
		d, err := r.ar.LookupAccount(a)
		if err != nil {
			return c47ErrStr(err) + ": " + err.Error()
		}
		return fmt.Sprintf("ok addr=%s rnd=%d ref=%v data=%s", c47A(d.Addr), d.Round, d.Ref != nil, c47EncAcct(d.AccountData))
	})
	expRow := "ErrNotFound"
	if ok {
		expRow = "ok ref=true"
	}
	w.cmp3("LookupAccountRowID("+c47A(a)+")", expRow, rd, "", func(b int, r *c47Readers) string {
		ref, err := r.ax.LookupAccountRowID(a)
		if err != nil {
			return c47ErrStr(err)
		}
		return fmt.Sprintf("ok ref=%v", ref != nil)
	})
}

func (w *c47World) qResource(m *c47Model, rd [2]*c47Readers, a basics.Address, aidx basics.CreatableIndex) {
	d, ok := m.res[c47ResKey{a, aidx}]
	w.hit(ok)
	if !ok {
		d = trackerdb.MakeResourcesData(0)
	}
	exp := fmt.Sprintf("ok aidx=%d rnd=%d ref=%v data=%s", aidx, m.round, ok, c47EncRes(d))
	w.cmp3(fmt.Sprintf("LookupResources(%s,%d)", c47A(a), aidx), exp, rd, "", func(b int, r *c47Readers) string {
		p, err := r.ar.LookupResources(a, aidx, c47Ctype(aidx))
		if err != nil {
			return c47ErrStr(err) + ": " + err.Error()
		}
		return fmt.Sprintf("ok aidx=%d rnd=%d ref=%v data=%s", p.Aidx, p.Round, p.AcctRef != nil, c47EncRes(p.Data))
	})
	// raw bytes by account ref (what resourcesLoadOld does)
	expRaw := "ErrNotFound"
	if ok {
		expRaw = "ok " + c47EncRes(d)
	}
	w.cmp3(fmt.Sprintf("LookupResourceDataByAddrID(%s,%d)", c47A(a), aidx), expRaw, rd, "", func(b int, r *c47Readers) string {
		ref, err := r.ax.LookupAccountRowID(a)
		if err != nil && !errors.Is(err, trackerdb.ErrNotFound) {
			return "rowid error: " + err.Error()
		}
		if err != nil {
			ref = nil
		}
		raw, err := r.ax.LookupResourceDataByAddrID(ref, aidx)
		if err != nil {
			return c47ErrStr(err)
		}
		return "ok " + c47Hex(raw)
	})
}

func (w *c47World) qAllResources(m *c47Model, rd [2]*c47Readers, a basics.Address) {
	xs := m.resourcesOf(a)
	w.hit(len(xs) > 0)
	var sb strings.Builder
	fmt.Fprintf(&sb, "ok rnd=%d n=%d", m.round, len(xs))
	for _, x := range xs {
		fmt.Fprintf(&sb, " [%d ref=true rnd=%d %s]", x, m.round, c47EncRes(m.res[c47ResKey{a, x}]))
	}
	w.cmp3("LookupAllResources("+c47A(a)+")", sb.String(), rd, "", func(b int, r *c47Readers) string {
		ps, rnd, err := r.ar.LookupAllResources(a)
		if err != nil {
			return c47ErrStr(err) + ": " + err.Error()
		}
		var sb strings.Builder
		fmt.Fprintf(&sb, "ok rnd=%d n=%d", rnd, len(ps))
		for _, p := range ps {
			fmt.Fprintf(&sb, " [%d ref=%v rnd=%d %s]", p.Aidx, p.AcctRef != nil, p.Round, c47EncRes(p.Data))
		}
		return sb.String()
	})
}

func (w *c47World) qKeyValue(m *c47Model, rd [2]*c47Readers, key string) {
	v, ok := m.kv[key]
	w.hit(ok)
	exp := fmt.Sprintf("ok rnd=%d present=%v value=%s", m.round, ok, c47Hex(v))
	w.cmp3("LookupKeyValue("+c47Q(key)+")", exp, rd, "", func(b int, r *c47Readers) string {
		p, err := r.ar.LookupKeyValue(key)
		if err != nil {
			return c47ErrStr(err) + ": " + err.Error()
		}
		return fmt.Sprintf("ok rnd=%d present=%v value=%s", p.Round, p.Value != nil, c47Hex(p.Value))
	})
}

func (w *c47World) qCreator(m *c47Model, rd [2]*c47Readers, cidx basics.CreatableIndex, ctype basics.CreatableType) {
	cr, ok := m.creat[cidx]
	ok = ok && cr.ctype == ctype
	w.hit(ok)
	var ea basics.Address
	if ok {
		ea = cr.creator
	}
	exp := fmt.Sprintf("ok creator=%x found=%v rnd=%d", ea[:], ok, m.round)
	w.cmp3(fmt.Sprintf("LookupCreator(%d,%d)", cidx, ctype), exp, rd, "", func(b int, r *c47Readers) string {
		addr, found, rnd, err := r.ar.LookupCreator(cidx, ctype)
		if err != nil {
			return c47ErrStr(err) + ": " + err.Error()
		}
		return fmt.Sprintf("ok creator=%x found=%v rnd=%d", addr[:], found, rnd)
	})
}

func (w *c47World) qGlobals(m *c47Model, rd [2]*c47Readers) {
	w.cmp3("AccountsRound", fmt.Sprintf("ok %d", m.round), rd, "", func(b int, r *c47Readers) string {
		rnd, err := r.ax.AccountsRound()
		if err != nil {
			return c47ErrStr(err)
		}
		return fmt.Sprintf("ok %d", rnd)
	})
	for i, staging := range []bool{false, true} {
		exp := "error" // both backends fail, with their own "no such row" error
		if m.totals[i] != nil {
			exp = "ok " + c47EncTotals(*m.totals[i])
		}
		w.cmp3(fmt.Sprintf("AccountsTotals(staging=%v)", staging), exp, rd, "", func(b int, r *c47Readers) string {
			t, err := r.ax.AccountsTotals(context.Background(), staging)
			if err != nil {
				return "error"
			}
			return "ok " + c47EncTotals(t)
		})
	}
	// online round params
	var rs []basics.Round
	for r := range m.params {
		rs = append(rs, r)
	}
	sort.Slice(rs, func(i, j int) bool { return rs[i] < rs[j] })
	var sb strings.Builder
	end := basics.Round(0)
	for _, r := range rs {
		fmt.Fprintf(&sb, " %s", c47EncParams(m.params[r]))
		end = r
	}
	exp := fmt.Sprintf("ok end=%d n=%d%s", end, len(rs), sb.String())
	w.cmp3("AccountsOnlineRoundParams", exp, rd, "", func(b int, r *c47Readers) string {
		ps, e, err := r.ax.AccountsOnlineRoundParams()
		if err != nil {
			return c47ErrStr(err) + ": " + err.Error()
		}
		var sb strings.Builder
		for _, p := range ps {
			fmt.Fprintf(&sb, " %s", c47EncParams(p))
		}
		return fmt.Sprintf("ok end=%d n=%d%s", e, len(ps), sb.String())
	})
}

func (w *c47World) qRoundParams(m *c47Model, rd [2]*c47Readers, rnd basics.Round) {
	p, ok := m.params[rnd]
	w.hit(ok)
	exp := "ErrNotFound"
	if ok {
		exp = "ok " + c47EncParams(p)
	}
	w.cmp3(fmt.Sprintf("LookupOnlineRoundParams(%d)", rnd), exp, rd, "", func(b int, r *c47Readers) string {
		p, err := r.or.LookupOnlineRoundParams(rnd)
		if err != nil {
			return c47ErrStr(err)
		}
		return "ok " + c47EncParams(p)
	})
}

func (w *c47World) qTxTail(m *c47Model, rd [2]*c47Readers, dbRound basics.Round) {
	var rs []basics.Round
	for r := range m.txtail {
		rs = append(rs, r)
	}
	sort.Slice(rs, func(i, j int) bool { return rs[i] < rs[j] })
	exp := ""
	if len(rs) > 0 && rs[len(rs)-1] != dbRound {
		exp = "error"
	} else {
		var sb strings.Builder
		base := dbRound + 1
		if len(rs) > 0 {
			base = rs[0]
		}
		fmt.Fprintf(&sb, "ok base=%d n=%d", base, len(rs))
		for _, r := range rs {
			h := crypto.Hash(m.txtail[r])
			fmt.Fprintf(&sb, " [%s %x]", c47Hex(m.txtail[r]), h[:])
		}
		exp = sb.String()
	}
	w.cmp3(fmt.Sprintf("LoadTxTail(%d)", dbRound), exp, rd, "", func(b int, r *c47Readers) string {
		data, hashes, base, err := r.ax.LoadTxTail(context.Background(), dbRound)
		if err != nil {
			return "error"
		}
		if len(data) != len(hashes) {
			return fmt.Sprintf("len(data)=%d len(hashes)=%d", len(data), len(hashes))
		}
		var sb strings.Builder
		fmt.Fprintf(&sb, "ok base=%d n=%d", base, len(data))
		for i := range data {
			enc, _ := data[i].Encode()
			fmt.Fprintf(&sb, " [%s %x]", c47Hex(enc), hashes[i][:])
		}
		return sb.String()
	})
}

func (w *c47World) qSP(m *c47Model, rd [2]*c47Readers, rnd basics.Round) {
	c, ok := m.sp[rnd]
	w.hit(ok)
	exp := "ErrNotFound"
	if ok {
		exp = "ok " + c47EncSP(c)
	}
	w.cmp3(fmt.Sprintf("LookupSPContext(%d)", rnd), exp, rd, "", func(b int, r *c47Readers) string {
		c, err := r.sp.LookupSPContext(rnd)
		if err != nil {
			return c47ErrStr(err)
		}
		if c == nil {
			return "nil context without error"
		}
		return "ok " + c47EncSP(*c)
	})
}

func (w *c47World) qAllSP(m *c47Model, rd [2]*c47Readers) {
	var rs []basics.Round
	for r := range m.sp {
		rs = append(rs, r)
	}
	sort.Slice(rs, func(i, j int) bool { return rs[i] < rs[j] })
	var sb strings.Builder
	fmt.Fprintf(&sb, "ok n=%d", len(rs))
	for _, r := range rs {
		fmt.Fprintf(&sb, " %s", c47EncSP(m.sp[r]))
	}
	w.cmp3("GetAllSPContexts", sb.String(), rd, "", func(b int, r *c47Readers) string {
		cs, err := r.sp.GetAllSPContexts(context.Background())
		if err != nil {
			return c47ErrStr(err)
		}
		var sb strings.Builder
		fmt.Fprintf(&sb, "ok n=%d", len(cs))
		for _, c := range cs {
			fmt.Fprintf(&sb, " %s", c47EncSP(c))
		}
		return sb.String()
	})
}

// ---- online accounts

func (w *c47World) qLookupOnline(m *c47Model, rd [2]*c47Readers, a basics.Address, rnd basics.Round) {
	e, ok := m.latestOnline(a, rnd)
	w.hit(ok)
	exp := fmt.Sprintf("ok addr=%s rnd=%d ref=%v upd=%d data=%s", c47A(a), m.round, ok, e.upd, c47EncOn(e.data))
	if uint64(rnd)&0xff == 0xff && ok {
		w.vk.Label("LookupOnline at a round ending in 0xff with a stored entry")
	}
	w.cmp3(fmt.Sprintf("LookupOnline(%s,%d)", c47A(a), rnd), exp, rd, "", func(b int, r *c47Readers) string {
		d, err := r.or.LookupOnline(a, rnd)
		if err != nil {
			return c47ErrStr(err) + ": " + err.Error()
		}
		return fmt.Sprintf("ok addr=%s rnd=%d ref=%v upd=%d data=%s", c47A(d.Addr), d.Round, d.Ref != nil, d.UpdRound, c47EncOn(d.AccountData))
	})
}

func (w *c47World) qOnlineByAddress(m *c47Model, rd [2]*c47Readers, a basics.Address) {
	e, ok := m.latestOnline(a, basics.Round(^uint64(0)>>1))
	w.hit(ok)
	exp := "ErrNotFound"
	if ok {
		exp = "ok ref=true " + c47EncOn(e.data)
	}
	w.cmp3("LookupOnlineAccountDataByAddress("+c47A(a)+")", exp, rd, "", func(b int, r *c47Readers) string {
		ref, raw, err := r.ax.LookupOnlineAccountDataByAddress(a)
		if err != nil {
			return c47ErrStr(err)
		}
		return fmt.Sprintf("ok ref=%v %s", ref != nil, c47Hex(raw))
	})
}

func (w *c47World) qOnlineHistory(m *c47Model, rd [2]*c47Readers, a basics.Address) {
	list := m.online[a]
	if len(list) == 0 {
		// caller precondition (acctonline.go asks for the history only after LookupOnline found an entry);
		// sqlite fails to scan the NULL row of its LEFT JOIN here, pebble returns an empty list
		w.vk.Excluded("precondition: LookupOnlineHistory of an address without stored entries")
		return
	}
	w.hit(true)
	sorted := append([]c47On(nil), list...)
	sort.Slice(sorted, func(i, j int) bool { return sorted[i].upd < sorted[j].upd })
	var sb strings.Builder
	fmt.Fprintf(&sb, "ok rnd=%d n=%d", m.round, len(sorted))
	for _, e := range sorted {
		fmt.Fprintf(&sb, " [%s upd=%d ref=true itemrnd=0 %s]", c47A(a), e.upd, c47EncOn(e.data))
	}
	w.cmp3("LookupOnlineHistory("+c47A(a)+")", sb.String(), rd, "", func(b int, r *c47Readers) string {
		hs, rnd, err := r.or.LookupOnlineHistory(a)
		if err != nil {
			return c47ErrStr(err) + ": " + err.Error()
		}
		var sb strings.Builder
		fmt.Fprintf(&sb, "ok rnd=%d n=%d", rnd, len(hs))
		for _, h := range hs {
			fmt.Fprintf(&sb, " [%s upd=%d ref=%v itemrnd=%d %s]", c47A(h.Addr), h.UpdRound, h.Ref != nil, h.Round, c47EncOn(h.AccountData))
		}
		return sb.String()
	})
}

func (w *c47World) qOnlineAll(m *c47Model, rd [2]*c47Readers, max uint64) {
	addrs := m.sortedAddrs()
	if max > 0 && uint64(len(addrs)) > max {
		addrs = addrs[:max]
	}
	render := func(withRound bool, items []trackerdb.PersistedOnlineAccountData) string {
		var sb strings.Builder
		fmt.Fprintf(&sb, "ok n=%d", len(items))
		for _, h := range items {
			fmt.Fprintf(&sb, " [%s upd=%d ref=%v %s", c47A(h.Addr), h.UpdRound, h.Ref != nil, c47EncOn(h.AccountData))
			if withRound {
				fmt.Fprintf(&sb, " itemrnd=%d", h.Round)
			}
			sb.WriteString("]")
		}
		return sb.String()
	}
	var items []trackerdb.PersistedOnlineAccountData
	for _, a := range addrs {
		sorted := append([]c47On(nil), m.online[a]...)
		sort.Slice(sorted, func(i, j int) bool { return sorted[i].upd < sorted[j].upd })
		for _, e := range sorted {
			items = append(items, trackerdb.PersistedOnlineAccountData{Addr: a, AccountData: e.data, UpdRound: basics.Round(e.upd), Ref: sqlRefMarker{}})
		}
	}
	w.hit(len(items) > 0)
	// the items of the sqlite reader carry Round 0 (it never loads the db round)
	ignorePbRound := w.div.onlineAllRound && m.round != 0 && len(items) > 0
	what := fmt.Sprintf("OnlineAccountsAll(%d)", max)
	for b := range rd {
		withRound := !(b == c47Pb && ignorePbRound)
		if !withRound {
			w.vk.Excluded("kv-onlineall-round: Round field of OnlineAccountsAll items not compared on pebble")
		}
		exp := render(withRound, items)
		got := func() string {
			all, err := rd[b].ax.OnlineAccountsAll(max)
			if err != nil {
				return c47ErrStr(err) + ": " + err.Error()
			}
			return render(withRound, all)
		}()
		if got != exp {
			w.fatalf("%s: %s answers differently from the model\n  model : %s\n  %s: %s", what, c47BackendName[b], exp, c47BackendName[b], got)
		}
		if b == c47Pb {
			w.pbCompared++
		}
	}
}

// sqlRefMarker is only a non-nil OnlineAccountRef for rendering the model's items.
type sqlRefMarker struct{}

func (sqlRefMarker) OnlineAccountRefMarker() {}

func (w *c47World) qOnlineTop(m *c47Model, rd [2]*c47Readers, rnd basics.Round, offset, n uint64) {
	type cand struct {
		a basics.Address
		e c47On
	}
	var cands []cand
	raw, zeroLatest := 0, false
	sameRound, firstUpd, allPos := true, uint64(0), true
	for a, list := range m.online {
		for _, e := range list {
			if e.upd <= uint64(rnd) {
				if raw == 0 {
					firstUpd = e.upd
				} else if e.upd != firstUpd {
					sameRound = false
				}
				raw++
				if e.norm == 0 {
					allPos = false
				}
			}
		}
		if e, ok := m.latestOnline(a, rnd); ok {
			if e.norm > 0 {
				cands = append(cands, cand{a, e})
			} else {
				zeroLatest = true
			}
		}
	}
	sort.Slice(cands, func(i, j int) bool {
		if cands[i].e.norm != cands[j].e.norm {
			return cands[i].e.norm > cands[j].e.norm
		}
		return bytes.Compare(cands[i].a[:], cands[j].a[:]) > 0
	})
	off := offset
	if off > uint64(len(cands)) {
		off = uint64(len(cands))
	}
	win := cands[off:]
	if uint64(len(win)) > n {
		win = win[:n]
	}
	w.hit(len(win) > 0)
	render := func(mm map[basics.Address]*ledgercore.OnlineAccount) string {
		var ks []basics.Address
		for a := range mm {
			ks = append(ks, a)
		}
		sort.Slice(ks, func(i, j int) bool { return bytes.Compare(ks[i][:], ks[j][:]) < 0 })
		var sb strings.Builder
		fmt.Fprintf(&sb, "ok n=%d", len(ks))
		for _, a := range ks {
			fmt.Fprintf(&sb, " [%s %+v]", c47A(a), *mm[a])
		}
		return sb.String()
	}
	expMap := map[basics.Address]*ledgercore.OnlineAccount{}
	for _, c := range win {
		oa := c.e.data.GetOnlineAccount(c.a, c.e.data.NormalizedOnlineBalance(c47Proto.RewardUnit))
		expMap[c.a] = &oa
	}
	skip := ""
	if w.div.onlineTopOrder {
		inKvDomain := (offset == 0 && n >= uint64(raw) && !zeroLatest) || (sameRound && allPos)
		if !inKvDomain {
			skip = "kv-onlinetop-order: AccountsOnlineTop over entries of several rounds / zero balances / partial windows"
		}
	}
	w.cmp3(fmt.Sprintf("AccountsOnlineTop(rnd=%d,offset=%d,n=%d)", rnd, offset, n), render(expMap), rd, skip, func(b int, r *c47Readers) string {
		mm, err := r.ax.AccountsOnlineTop(rnd, offset, n, c47Proto.RewardUnit)
		if err != nil {
			return c47ErrStr(err) + ": " + err.Error()
		}
		for a, oa := range mm {
			if oa == nil || oa.Address != a {
				return fmt.Sprintf("entry for %s is nil or carries another address", c47A(a))
			}
		}
		return render(mm)
	})
}

func (w *c47World) qExpired(m *c47Model, rd [2]*c47Readers, rnd, voteRnd basics.Round, level uint64) {
	expMap := map[basics.Address]basics.OnlineAccountData{}
	for a := range m.online {
		if e, ok := m.latestOnline(a, rnd); ok && e.vlv > 0 && e.vlv < uint64(voteRnd) {
			expMap[a] = e.data.GetOnlineAccountData(c47Proto.RewardUnit, level)
		}
	}
	w.hit(len(expMap) > 0)
	render := func(mm map[basics.Address]basics.OnlineAccountData) string {
		var ks []basics.Address
		for a := range mm {
			ks = append(ks, a)
		}
		sort.Slice(ks, func(i, j int) bool { return bytes.Compare(ks[i][:], ks[j][:]) < 0 })
		var sb strings.Builder
		fmt.Fprintf(&sb, "ok n=%d", len(ks))
		for _, a := range ks {
			fmt.Fprintf(&sb, " [%s %+v]", c47A(a), mm[a])
		}
		return sb.String()
	}
	w.cmp3(fmt.Sprintf("ExpiredOnlineAccountsForRound(rnd=%d,voteRnd=%d,level=%d)", rnd, voteRnd, level), render(expMap), rd, "", func(b int, r *c47Readers) string {
		mm, err := r.ax.ExpiredOnlineAccountsForRound(rnd, voteRnd, c47Proto.RewardUnit, level)
		if err != nil {
			return c47ErrStr(err) + ": " + err.Error()
		}
		out := map[basics.Address]basics.OnlineAccountData{}
		for a, p := range mm {
			if p == nil {
				return "nil entry"
			}
			out[a] = *p
		}
		return render(out)
	})
}

// ---- kv prefix queries

// qKeysByPrefix mirrors accountUpdates.lookupKeysByPrefix: results is pre-populated with the keys already decided by
// the in-memory deltas (true = present, false = deleted), resultCount = number of true entries.
func (w *c47World) qKeysByPrefix(m *c47Model, rd [2]*c47Readers, prefix string, pre map[string]bool, maxKeyNum uint64) {
	count := uint64(0)
	for _, v := range pre {
		if v {
			count++
		}
	}
	stored := c47HasPrefixKeys(m, prefix)
	var candidates []string
	for _, k := range stored {
		if _, ok := pre[k]; !ok {
			candidates = append(candidates, k)
		}
	}
	want := uint64(len(candidates))
	if maxKeyNum > 0 && want > maxKeyNum-count {
		want = maxKeyNum - count
	}
	w.hit(len(candidates) > 0)
	var preS []string
	for k, v := range pre {
		preS = append(preS, fmt.Sprintf("%q:%v", k, v))
	}
	sort.Strings(preS)
	what := fmt.Sprintf("LookupKeysByPrefix(%s, max=%d, pre={%s}, count=%d)", c47Q(prefix), maxKeyNum, strings.Join(preS, " "), count)
	for b := range rd {
		if b == c47Pb && w.div.prefixNamespace && len(stored) > 0 {
			w.vk.Excluded("kv-prefix-scan-namespace: LookupKeysByPrefix with stored keys under the prefix")
			w.pbExcluded++
			continue
		}
		res := map[string]bool{}
		for k, v := range pre {
			res[k] = v
		}
		rnd, err := rd[b].ar.LookupKeysByPrefix(prefix, maxKeyNum, res, count)
		if err != nil {
			w.fatalf("%s: %s failed: %v", what, c47BackendName[b], err)
		}
		if rnd != m.round {
			w.fatalf("%s: %s returned round %d, the store is at %d", what, c47BackendName[b], rnd, m.round)
		}
		added := uint64(0)
		for k, v := range res {
			if pv, ok := pre[k]; ok {
				if pv != v {
					w.fatalf("%s: %s changed the verdict of key %s already decided by the deltas from %v to %v", what, c47BackendName[b], c47Q(k), pv, v)
				}
				continue
			}
			if _, ok := m.kv[k]; !ok || !strings.HasPrefix(k, prefix) {
				w.fatalf("%s: %s reported key %s which is not a stored key with that prefix", what, c47BackendName[b], c47Q(k))
			}
			if !v {
				w.fatalf("%s: %s reported stored key %s as absent", what, c47BackendName[b], c47Q(k))
			}
			added++
		}
		for k := range pre {
			if _, ok := res[k]; !ok {
				w.fatalf("%s: %s dropped pre-decided key %s", what, c47BackendName[b], c47Q(k))
			}
		}
		if added != want {
			w.fatalf("%s: %s added %d keys, want %d (stored under the prefix and not pre-decided: %d)", what, c47BackendName[b], added, want, len(candidates))
		}
		if b == c47Pb {
			w.pbCompared++
		}
	}
}

func (w *c47World) qKeysCursor(m *c47Model, rd [2]*c47Readers, prefix, cursor string, limit, maxBytes uint64, includeValues bool, exclude map[string][]byte) {
	stored := c47HasPrefixKeys(m, prefix)
	var cands []string
	for _, k := range stored {
		if k > cursor {
			if _, ex := exclude[k]; !ex {
				cands = append(cands, k)
			}
		}
	}
	var sb strings.Builder
	n, acc, more := 0, uint64(0), false
	for i, k := range cands {
		sz := uint64(len(k))
		if includeValues {
			sz += uint64(len(m.kv[k]))
		}
		if maxBytes > 0 && acc+sz > maxBytes && n > 0 {
			more = true
			break
		}
		v := ""
		if includeValues {
			v = c47Hex(m.kv[k])
		}
		fmt.Fprintf(&sb, " [%s=%s]", c47Q(k), v)
		acc += sz
		n++
		if limit > 0 && uint64(n) >= limit {
			more = i+1 < len(cands)
			break
		}
	}
	w.hit(n > 0)
	exp := fmt.Sprintf("ok rnd=%d more=%v n=%d%s", m.round, more, n, sb.String())
	skip := ""
	if w.div.prefixNamespace && len(stored) > 0 {
		skip = "kv-prefix-scan-namespace: LookupKeysByPrefixCursor with stored keys under the prefix"
	}
	var exk []string
	for k := range exclude {
		exk = append(exk, c47Q(k))
	}
	sort.Strings(exk)
	what := fmt.Sprintf("LookupKeysByPrefixCursor(%s, cursor=%s, limit=%d, maxBytes=%d, values=%v, exclude=%v)", c47Q(prefix), c47Q(cursor), limit, maxBytes, includeValues, exk)
	w.cmp3(what, exp, rd, skip, func(b int, r *c47Readers) string {
		rnd, kvs, more, err := r.ar.LookupKeysByPrefixCursor(prefix, cursor, limit, maxBytes, includeValues, exclude)
		if err != nil {
			return c47ErrStr(err) + ": " + err.Error()
		}
		var sb strings.Builder
		for _, kv := range kvs {
			if !includeValues && kv.Value != nil {
				return "value returned although not requested"
			}
			fmt.Fprintf(&sb, " [%s=%s]", c47Q(kv.Key), c47Hex(kv.Value))
		}
		return fmt.Sprintf("ok rnd=%d more=%v n=%d%s", rnd, more, len(kvs), sb.String())
	})
}

// ---- query selection

func (w *c47World) genPrefix(m *c47Model, lbl string) string {
	rt := w.rt
	if keys := m.sortedKeys(); len(keys) > 0 && rapid.IntRange(0, 9).Draw(rt, lbl+"fromkey") < 6 {
		// a prefix of a stored key: the app prefix (11 bytes) or a cut inside the name
		k := c47PickFrom(rt, lbl+"pk", keys)
		cut := 11
		if len(k) < 11 {
			cut = len(k)
		} else if len(k) > 11 && rapid.Bool().Draw(rt, lbl+"incut") {
			cut = rapid.IntRange(11, len(k)).Draw(rt, lbl+"cutk")
		}
		return k[:cut]
	}
	app := rapid.SampledFrom(c47Apps).Draw(rt, lbl+"app")
	if rapid.Bool().Draw(rt, lbl+"busyapp") {
		app = c47PickFrom(rt, lbl+"bapp", w.busy)
	}
	full := c47BoxKey(app, "")
	switch rapid.IntRange(0, 9).Draw(rt, lbl+"P") {
	case 0:
		return "bx:"
	case 1:
		return full[:rapid.IntRange(4, len(full)-1).Draw(rt, lbl+"cut")]
	case 2, 3, 4:
		nm := rapid.SampledFrom(c47Names).Draw(rt, lbl+"nm")
		return full + nm
	case 5:
		return "c\xff\xff"
	default:
		return full
	}
}

func (w *c47World) genPrefixQueries(m *c47Model, rd [2]*c47Readers, lbl string) {
	rt := w.rt
	prefix := w.genPrefix(m, lbl)
	if c47StrangePrefix(prefix) {
		w.vk.Excluded("precondition: empty / all-0xff prefix (rejected by the sqlite reader by design, never produced by callers)")
		return
	}
	if strings.HasSuffix(prefix, "\xff") {
		w.vk.Label("prefix ends in 0xff")
	}
	stored := c47HasPrefixKeys(m, prefix)
	w.vk.Labelf("prefix matches %s stored keys", c47Bucket(len(stored)))
	// --- LookupKeysByPrefix with a results map prepared like acctupdates does
	pre := map[string]bool{}
	for _, k := range stored {
		switch rapid.IntRange(0, 5).Draw(rt, lbl+"pre"+k) {
		case 0:
			pre[k] = true // updated in the deltas
		case 1:
			pre[k] = false // deleted in the deltas, still in the DB
		}
	}
	for i := 0; i < rapid.IntRange(0, 2).Draw(rt, lbl+"extra"); i++ {
		k := prefix + rapid.SampledFrom([]string{"new", "\x00new", "\xffnew", "zz"}).Draw(rt, fmt.Sprintf("%sx%d", lbl, i))
		if _, ok := m.kv[k]; !ok {
			pre[k] = rapid.Bool().Draw(rt, fmt.Sprintf("%sxv%d", lbl, i)) // created (and maybe deleted again) in the deltas only
		}
	}
	count := 0
	for _, v := range pre {
		if v {
			count++
		}
	}
	free := 0
	for _, k := range stored {
		if _, ok := pre[k]; !ok {
			free++
		}
	}
	var maxKeyNum uint64
	switch rapid.IntRange(0, 6).Draw(rt, lbl+"max") {
	case 0:
		maxKeyNum = 0
	case 1:
		maxKeyNum = uint64(count + 1)
	case 2:
		maxKeyNum = uint64(count + free)
	case 3:
		if free > 1 {
			maxKeyNum = uint64(count + free - 1)
		} else {
			maxKeyNum = 1000
		}
	case 4:
		maxKeyNum = ^uint64(0)
	case 5:
		maxKeyNum = uint64(count + free + 1)
	default:
		maxKeyNum = 10000
	}
	if maxKeyNum > 0 && uint64(count) >= maxKeyNum {
		maxKeyNum = uint64(count) + 1 // the ledger returns before reaching the store once the deltas filled the quota
	}
	w.vk.Labelf("LookupKeysByPrefix max=%s pre=%s", c47MaxClass(maxKeyNum, count, free), c47Bucket(len(pre)))
	w.qKeysByPrefix(m, rd, prefix, pre, maxKeyNum)

	// --- LookupKeysByPrefixCursor grid
	cursor := ""
	switch rapid.IntRange(0, 6).Draw(rt, lbl+"cur") {
	case 0, 1:
	case 2, 3:
		if len(stored) > 0 {
			cursor = c47PickFrom(rt, lbl+"curk", stored)
		}
	case 4:
		cursor = prefix + rapid.SampledFrom([]string{"\x00", "a", "a\xfe", "\xff", "m"}).Draw(rt, lbl+"curs")
	case 5:
		cursor = "bx" // below every box key
	default:
		cursor = prefix + "\xff\xff\xff\xff"
	}
	exclude := map[string][]byte{}
	if rapid.Bool().Draw(rt, lbl+"ex") {
		for _, k := range stored {
			if rapid.IntRange(0, 3).Draw(rt, lbl+"ex"+k) == 0 {
				if rapid.Bool().Draw(rt, lbl+"exv"+k) {
					exclude[k] = []byte("delta")
				} else {
					exclude[k] = nil
				}
			}
		}
		exclude[prefix+"only-in-deltas"] = []byte{1}
	}
	var sizes []uint64
	includeValues := rapid.Bool().Draw(rt, lbl+"iv")
	tot := uint64(0)
	for _, k := range stored {
		if _, ex := exclude[k]; k > cursor && !ex {
			sz := uint64(len(k))
			if includeValues {
				sz += uint64(len(m.kv[k]))
			}
			tot += sz
			sizes = append(sizes, tot)
		}
	}
	var limit, maxBytes uint64
	switch rapid.IntRange(0, 6).Draw(rt, lbl+"lim") {
	case 0:
		limit = 1
	case 1:
		limit = 2
	case 2:
		limit = uint64(len(sizes))
		if limit == 0 {
			limit = 1
		}
	case 3:
		limit = uint64(len(sizes)) + 1
	case 4:
		limit = 0 // "no limit" in both readers (the ledger itself never passes 0)
	case 5:
		limit = 100000
	default:
		limit = 3
	}
	switch rapid.IntRange(0, 6).Draw(rt, lbl+"mb") {
	case 0, 1:
		maxBytes = 0
	case 2:
		maxBytes = 1
	case 3:
		if len(sizes) > 0 {
			maxBytes = c47PickFrom(rt, lbl+"mbs", sizes)
		}
	case 4:
		if len(sizes) > 0 {
			maxBytes = c47PickFrom(rt, lbl+"mbs1", sizes) - 1
		}
	case 5:
		if len(sizes) > 0 {
			maxBytes = c47PickFrom(rt, lbl+"mbs2", sizes) + 1
		}
	default:
		maxBytes = 1 << 20
	}
	w.vk.Labelf("cursor grid: limit=%s bytes=%s exclude=%v", c47LimClass(limit, len(sizes)), c47LimClass(maxBytes, int(tot)), len(exclude) > 0)
	w.qKeysCursor(m, rd, prefix, cursor, limit, maxBytes, includeValues, exclude)
}

func c47Bucket(n int) string {
	switch {
	case n == 0:
		return "0"
	case n == 1:
		return "1"
	case n <= 3:
		return "2-3"
	default:
		return "4+"
	}
}

func c47MaxClass(max uint64, count, free int) string {
	switch {
	case max == 0:
		return "0(no limit)"
	case max < uint64(count+free):
		return "truncating"
	case max == uint64(count+free):
		return "exact"
	default:
		return "large"
	}
}

func c47LimClass(v uint64, n int) string {
	switch {
	case v == 0:
		return "0"
	case v < uint64(n):
		return "cuts"
	case v == uint64(n):
		return "exact"
	default:
		return "above"
	}
}

func (w *c47World) genRound(m *c47Model, lbl string) basics.Round {
	rt := w.rt
	// target rounds may lie ahead of the db round (the ledger asks the store for any round its deltas do not cover)
	r := rapid.Uint64Range(0, uint64(m.round)+2).Draw(rt, lbl)
	switch rapid.IntRange(0, 5).Draw(rt, lbl+"ff") {
	case 0:
		r |= 0xff // low byte 0xff (regression of kv-lookuponline-round-xff)
	case 1:
		r |= 0xffff
	case 2:
		r += uint64(rapid.IntRange(0, 300).Draw(rt, lbl+"ahead"))
	}
	return basics.Round(r)
}

// randomReads performs a handful of queries of every family.
func (w *c47World) randomReads(m *c47Model, rd [2]*c47Readers, lbl string, n int) {
	rt := w.rt
	for i := 0; i < n; i++ {
		l := func(s string) string { return fmt.Sprintf("%sq%d%s", lbl, i, s) }
		kind := rapid.IntRange(0, 17).Draw(rt, l("kind"))
		switch kind {
		case 0:
			w.qAccount(m, rd, w.pickAddr(l("a")))
		case 1:
			w.qResource(m, rd, w.pickAddr(l("a")), c47PickFrom(rt, l("x"), c47Aidxs))
		case 2:
			w.qAllResources(m, rd, w.pickAddr(l("a")))
		case 3:
			keys := m.sortedKeys()
			if len(keys) > 0 && rapid.Bool().Draw(rt, l("known")) {
				w.qKeyValue(m, rd, c47PickFrom(rt, l("k"), keys))
			} else {
				w.qKeyValue(m, rd, c47GenKey(rt, l("k"), w.busy))
			}
		case 4, 5, 6:
			w.genPrefixQueries(m, rd, l("p"))
		case 7:
			cidx := c47PickFrom(rt, l("c"), c47Aidxs)
			ct := c47Ctype(cidx)
			if rapid.IntRange(0, 3).Draw(rt, l("wrong")) == 0 {
				ct = 1 - ct
			}
			w.qCreator(m, rd, cidx, ct)
		case 8:
			w.qGlobals(m, rd)
		case 9:
			w.qRoundParams(m, rd, w.genRound(m, l("r")))
		case 10:
			w.qTxTail(m, rd, m.round+basics.Round(rapid.IntRange(0, 4).Draw(rt, l("off"))/4))
		case 11:
			if rapid.Bool().Draw(rt, l("all")) {
				w.qAllSP(m, rd)
			} else {
				var rs []basics.Round
				for r := range m.sp {
					rs = append(rs, r)
				}
				sort.Slice(rs, func(i, j int) bool { return rs[i] < rs[j] })
				r := basics.Round(rapid.Uint64Range(0, 1024).Draw(rt, l("spr")))
				if len(rs) > 0 && rapid.Bool().Draw(rt, l("spk")) {
					r = c47PickFrom(rt, l("spp"), rs)
				}
				w.qSP(m, rd, r)
			}
		case 12, 13:
			w.qLookupOnline(m, rd, w.pickAddr(l("a")), w.genRound(m, l("r")))
		case 14:
			a := w.pickAddr(l("a"))
			w.qOnlineByAddress(m, rd, a)
			w.qOnlineHistory(m, rd, a)
		case 15:
			w.qOnlineAll(m, rd, uint64(rapid.IntRange(0, 4).Draw(rt, l("max"))))
		case 16:
			w.qOnlineTop(m, rd, w.genRound(m, l("r")), uint64(rapid.IntRange(0, 3).Draw(rt, l("off"))), uint64(rapid.SampledFrom([]int{0, 1, 2, 3, 100}).Draw(rt, l("n"))))
		case 17:
			w.qExpired(m, rd, w.genRound(m, l("r")), basics.Round(rapid.Uint64Range(0, 700).Draw(rt, l("vr"))), rapid.Uint64Range(1000, 2000).Draw(rt, l("lvl")))
		}
		w.vk.Labelf("read=%d", kind)
	}
}

// sweep reads everything once.
func (w *c47World) sweep(m *c47Model, rd [2]*c47Readers) {
	w.qGlobals(m, rd)
	w.qTxTail(m, rd, m.round)
	w.qAllSP(m, rd)
	w.qOnlineAll(m, rd, 0)
	for _, a := range w.addrs {
		w.qAccount(m, rd, a)
		w.qAllResources(m, rd, a)
		for _, x := range m.resourcesOf(a) {
			w.qResource(m, rd, a, x)
		}
		w.qOnlineByAddress(m, rd, a)
		if len(m.online[a]) > 0 {
			w.qOnlineHistory(m, rd, a)
		}
		w.qLookupOnline(m, rd, a, m.round)
		w.qLookupOnline(m, rd, a, m.round|0xff)
	}
	for _, k := range m.sortedKeys() {
		w.qKeyValue(m, rd, k)
	}
	for _, c := range c47Aidxs {
		w.qCreator(m, rd, c, c47Ctype(c))
	}
	w.qOnlineTop(m, rd, m.round, 0, 1000)
	w.qExpired(m, rd, m.round, 1000, 1500)
}
