package dualdriver

// C47 — world (two real stores + model) and the write steps.

import (
	"context"
	"errors"
	"fmt"
	"io"
	"os"
	"sort"

	"pgregory.net/rapid"

	"github.com/algorand/go-algorand/data/basics"
	"github.com/algorand/go-algorand/ledger/ledgercore"
	"github.com/algorand/go-algorand/ledger/store/trackerdb"
	"github.com/algorand/go-algorand/ledger/store/trackerdb/pebbledbdriver"
	"github.com/algorand/go-algorand/ledger/store/trackerdb/sqlitedriver"
	"github.com/algorand/go-algorand/logging"
	"github.com/algorand/go-algorand/protocol"
	"github.com/algorand/go-algorand/util/db"
)

const (
	c47Sq = 0
	c47Pb = 1
)

var c47BackendName = [2]string{"sqlite", "pebble"}

var c47ErrAbort = errors.New("c47: deliberate abort")

func c47Logger() logging.Logger {
	lg := logging.NewLogger()
	lg.SetOutput(io.Discard)
	return lg
}

// c47OpenStores opens a sqlite store and a pebble store in a fresh directory and runs the schema initialisation
// of each with the same genesis accounts.
func c47OpenStores(baseDir string, genesis map[basics.Address]basics.AccountData) (st [2]trackerdb.Store, dir string, err error) {
	dir, err = os.MkdirTemp(baseDir, "c47-")
	if err != nil {
		return
	}
	lg := c47Logger()
	st[c47Sq], err = sqlitedriver.Open(dir+"/tracker.sqlite", false, lg)
	if err != nil {
		return
	}
	st[c47Pb], err = pebbledbdriver.Open(dir+"/tracker", false, c47Proto, lg)
	if err != nil {
		st[c47Sq].Close()
		return
	}
	params := trackerdb.Params{InitProto: protocol.ConsensusCurrentVersion, InitAccounts: genesis}
	for b := range st {
		// no fsync per commit (what the ledger itself selects during catch-up); query logic is unaffected
		if err = st[b].SetSynchronousMode(context.Background(), db.SynchronousModeOff, false); err != nil {
			st[0].Close()
			st[1].Close()
			return
		}
		if _, err = st[b].RunMigrations(context.Background(), params, lg, trackerdb.AccountDBVersion); err != nil {
			err = fmt.Errorf("%s RunMigrations: %w", c47BackendName[b], err)
			st[0].Close()
			st[1].Close()
			return
		}
	}
	return
}

type c47Writers struct {
	aw trackerdb.AccountsWriter
	ax trackerdb.AccountsWriterExt
	ow trackerdb.OnlineAccountsWriter
	sp trackerdb.SpVerificationCtxWriter
}

type c47Op struct {
	name  string
	table string // accts, res, kv, creat, online, ext, sp
	run   func(b int, w *c47Writers) error
}

type c47World struct {
	rt    *rapid.T
	vk    *vkCtx
	st    [2]trackerdb.Store
	m     *c47Model
	refs  [2]map[basics.Address]trackerdb.AccountRef
	addrs []basics.Address
	busy  []uint64 // the applications most box keys of this case belong to
	div   c47Div
	trace []string

	tables      map[string]bool
	commits     int
	pbCompared  int
	pbExcluded  int
	found, miss int
}

func (w *c47World) fatalf(format string, args ...interface{}) {
	msg := fmt.Sprintf(format, args...)
	tr := w.trace
	if len(tr) > 60 {
		tr = tr[len(tr)-60:]
	}
	s := ""
	for _, l := range tr {
		s += "\n    " + l
	}
	w.rt.Fatalf("%s\n  history (last %d steps):%s", msg, len(tr), s)
}

func (w *c47World) logf(format string, args ...interface{}) {
	w.trace = append(w.trace, fmt.Sprintf(format, args...))
}

func (w *c47World) pickAddr(lbl string) basics.Address {
	return w.addrs[rapid.IntRange(0, len(w.addrs)-1).Draw(w.rt, lbl)]
}

func c47PickFrom[T any](rt *rapid.T, lbl string, xs []T) T {
	return xs[rapid.IntRange(0, len(xs)-1).Draw(rt, lbl)]
}

func (w *c47World) knownAccts(m *c47Model) []basics.Address {
	var out []basics.Address
	for _, a := range w.addrs {
		if _, ok := m.accts[a]; ok {
			out = append(out, a)
		}
	}
	return out
}

// genStep draws one commit-like step: a list of writes valid in the callers' domain, applied to the model copy m2.
func (w *c47World) genStep(m2 *c47Model, si int) (ops []c47Op, desc string) {
	rt := w.rt
	L := func(s string) string { return fmt.Sprintf("s%d%s", si, s) }
	add := func(name, table string, run func(b int, wr *c47Writers) error) {
		ops = append(ops, c47Op{name: name, table: table, run: run})
	}
	oldRound := m2.round
	k := rapid.IntRange(0, 3).Draw(rt, L("adv"))
	if rapid.IntRange(0, 11).Draw(rt, L("jump")) == 0 {
		k = rapid.IntRange(100, 300).Draw(rt, L("jumpk")) // cross the 0xff round boundary
	}
	newRound := oldRound + basics.Round(k)
	nops := rapid.IntRange(1, 8).Draw(rt, L("n"))
	for oi := 0; oi < nops; oi++ {
		l := func(s string) string { return fmt.Sprintf("s%do%d%s", si, oi, s) }
		switch rapid.IntRange(0, 15).Draw(rt, l("op")) {
		case 0, 1: // account insert
			var cands []basics.Address
			for _, a := range w.addrs {
				if _, ok := m2.accts[a]; !ok {
					cands = append(cands, a)
				}
			}
			if len(cands) == 0 {
				continue
			}
			a := c47PickFrom(rt, l("a"), cands)
			d := c47GenAcctData(rt, l("d"), newRound)
			norm := d.NormalizedOnlineBalance(c47Proto.RewardUnit)
			m2.accts[a] = c47Acct{d, norm}
			add("InsertAccount "+c47A(a), "accts", func(b int, wr *c47Writers) error {
				ref, err := wr.aw.InsertAccount(a, norm, d)
				if err != nil {
					return err
				}
				if ref == nil {
					return fmt.Errorf("nil ref")
				}
				w.refs[b][a] = ref
				return nil
			})
		case 2: // account update
			cands := w.knownAccts(m2)
			if len(cands) == 0 {
				continue
			}
			a := c47PickFrom(rt, l("a"), cands)
			d := c47GenAcctData(rt, l("d"), newRound)
			norm := d.NormalizedOnlineBalance(c47Proto.RewardUnit)
			m2.accts[a] = c47Acct{d, norm}
			add("UpdateAccount "+c47A(a), "accts", func(b int, wr *c47Writers) error {
				n, err := wr.aw.UpdateAccount(w.refs[b][a], norm, d)
				if err == nil && n != 1 {
					err = fmt.Errorf("rowsAffected=%d", n)
				}
				return err
			})
		case 3: // account delete (the ledger only deletes accounts that hold no resources)
			var cands []basics.Address
			for _, a := range w.knownAccts(m2) {
				if !m2.hasResources(a) {
					cands = append(cands, a)
				}
			}
			if len(cands) == 0 {
				continue
			}
			a := c47PickFrom(rt, l("a"), cands)
			delete(m2.accts, a)
			add("DeleteAccount "+c47A(a), "accts", func(b int, wr *c47Writers) error {
				n, err := wr.aw.DeleteAccount(w.refs[b][a])
				if err == nil && n != 1 {
					err = fmt.Errorf("rowsAffected=%d", n)
				}
				delete(w.refs[b], a)
				return err
			})
		case 4, 5: // resource insert
			cands := w.knownAccts(m2)
			if len(cands) == 0 {
				continue
			}
			a := c47PickFrom(rt, l("a"), cands)
			aidx := c47PickFrom(rt, l("x"), c47Aidxs)
			if _, ok := m2.res[c47ResKey{a, aidx}]; ok {
				continue
			}
			d := c47GenResData(rt, l("d"), c47Ctype(aidx), newRound)
			m2.res[c47ResKey{a, aidx}] = d
			add(fmt.Sprintf("InsertResource %s/%d", c47A(a), aidx), "res", func(b int, wr *c47Writers) error {
				ref, err := wr.aw.InsertResource(w.refs[b][a], aidx, d)
				if err == nil && ref == nil {
					err = fmt.Errorf("nil ref")
				}
				return err
			})
		case 6, 7: // resource update / delete
			var cands []c47ResKey
			for _, a := range w.addrs {
				for _, x := range m2.resourcesOf(a) {
					cands = append(cands, c47ResKey{a, x})
				}
			}
			if len(cands) == 0 {
				continue
			}
			rk := c47PickFrom(rt, l("rk"), cands)
			if rapid.Bool().Draw(rt, l("del")) {
				delete(m2.res, rk)
				add(fmt.Sprintf("DeleteResource %s/%d", c47A(rk.addr), rk.aidx), "res", func(b int, wr *c47Writers) error {
					n, err := wr.aw.DeleteResource(w.refs[b][rk.addr], rk.aidx)
					if err == nil && n != 1 {
						err = fmt.Errorf("rowsAffected=%d", n)
					}
					return err
				})
			} else {
				d := c47GenResData(rt, l("d"), c47Ctype(rk.aidx), newRound)
				m2.res[rk] = d
				add(fmt.Sprintf("UpdateResource %s/%d", c47A(rk.addr), rk.aidx), "res", func(b int, wr *c47Writers) error {
					n, err := wr.aw.UpdateResource(w.refs[b][rk.addr], rk.aidx, d)
					if err == nil && n != 1 {
						err = fmt.Errorf("rowsAffected=%d", n)
					}
					return err
				})
			}
		case 8, 9, 10: // kv upsert
			kn := rapid.IntRange(1, 3).Draw(rt, l("kn"))
			for ki := 0; ki < kn; ki++ {
				key := c47GenKey(rt, fmt.Sprintf("%sk%d", l(""), ki), w.busy)
				val := c47GenValue(rt, fmt.Sprintf("%sv%d", l(""), ki))
				m2.kv[key] = val
				add("UpsertKvPair "+c47Q(key), "kv", func(b int, wr *c47Writers) error { return wr.aw.UpsertKvPair(key, val) })
			}
		case 11: // kv delete
			keys := m2.sortedKeys()
			if len(keys) == 0 {
				continue
			}
			key := c47PickFrom(rt, l("k"), keys)
			delete(m2.kv, key)
			add("DeleteKvPair "+c47Q(key), "kv", func(b int, wr *c47Writers) error { return wr.aw.DeleteKvPair(key) })
		case 12: // creatable insert / delete
			cidx := c47PickFrom(rt, l("c"), c47Aidxs)
			if cr, ok := m2.creat[cidx]; ok {
				delete(m2.creat, cidx)
				add(fmt.Sprintf("DeleteCreatable %d", cidx), "creat", func(b int, wr *c47Writers) error {
					n, err := wr.aw.DeleteCreatable(cidx, cr.ctype)
					if err == nil && n != 1 {
						err = fmt.Errorf("rowsAffected=%d", n)
					}
					return err
				})
			} else {
				cr := c47Creat{c47Ctype(cidx), w.pickAddr(l("cr"))}
				m2.creat[cidx] = cr
				add(fmt.Sprintf("InsertCreatable %d", cidx), "creat", func(b int, wr *c47Writers) error {
					ref, err := wr.aw.InsertCreatable(cidx, cr.ctype, cr.creator[:])
					if err == nil && ref == nil {
						err = fmt.Errorf("nil ref")
					}
					return err
				})
			}
		case 13: // totals
			tot := c47GenTotals(rt, l("t"))
			staging := rapid.IntRange(0, 3).Draw(rt, l("stg")) == 0
			i := 0
			if staging {
				i = 1
			}
			m2.totals[i] = &tot
			add(fmt.Sprintf("AccountsPutTotals staging=%v", staging), "ext", func(b int, wr *c47Writers) error {
				return wr.ax.AccountsPutTotals(tot, staging)
			})
		case 14: // state proof contexts
			if rapid.Bool().Draw(rt, l("spdel")) && len(m2.sp) > 0 {
				var rs []basics.Round
				for r := range m2.sp {
					rs = append(rs, r)
				}
				sort.Slice(rs, func(i, j int) bool { return rs[i] < rs[j] })
				earliest := c47PickFrom(rt, l("e"), rs) + basics.Round(rapid.IntRange(0, 1).Draw(rt, l("e1")))
				for r := range m2.sp {
					if r < earliest {
						delete(m2.sp, r)
					}
				}
				add(fmt.Sprintf("DeleteOldSPContexts %d", earliest), "sp", func(b int, wr *c47Writers) error {
					return wr.sp.DeleteOldSPContexts(context.Background(), earliest)
				})
			} else {
				n := rapid.IntRange(1, 3).Draw(rt, l("spn"))
				var list []ledgercore.StateProofVerificationContext
				for i := 0; i < n; i++ {
					c := c47GenSP(rt, fmt.Sprintf("%ssp%d", l(""), i), m2.spNext)
					m2.sp[c.LastAttestedRound] = c
					m2.spNext += basics.Round(rapid.SampledFrom([]int{1, 255, 256}).Draw(rt, fmt.Sprintf("%sspi%d", l(""), i)))
					list = append(list, c)
				}
				add(fmt.Sprintf("StoreSPContexts %d from %d", n, list[0].LastAttestedRound), "sp", func(b int, wr *c47Writers) error {
					ptrs := make([]*ledgercore.StateProofVerificationContext, len(list))
					for i := range list {
						c := list[i]
						ptrs[i] = &c
					}
					return wr.sp.StoreSPContexts(context.Background(), ptrs)
				})
			}
		case 15: // online account entries for the rounds being committed
			if k == 0 {
				continue
			}
			a := w.pickAddr(l("a"))
			if a.IsZero() {
				// the zero address never holds participation keys; both readers of OnlineAccountsAll(maxAccounts) start
				// their "previous address" at the zero address and would not count it
				continue
			}
			last, has := m2.latestOnline(a, basics.Round(^uint64(0)>>1))
			lo := uint64(oldRound) + 1
			if has && last.upd+1 > lo {
				lo = last.upd + 1
			}
			if lo > uint64(newRound) {
				continue
			}
			upd := rapid.Uint64Range(lo, uint64(newRound)).Draw(rt, l("upd"))
			if rapid.IntRange(0, 3).Draw(rt, l("bnd")) == 0 { // prefer rounds around the 0xff boundary when reachable
				for _, c := range []uint64{upd | 0xff, (upd | 0xff) + 1, upd &^ 0xff} {
					if c >= lo && c <= uint64(newRound) {
						upd = c
						break
					}
				}
			}
			var e c47On
			if has && !last.data.IsVotingEmpty() && rapid.IntRange(0, 2).Draw(rt, l("off")) == 0 {
				e = c47On{upd: upd} // going offline: the ledger writes an all-zero entry
			} else {
				d := c47GenOnlineData(rt, l("d"))
				e = c47On{upd, d, d.NormalizedOnlineBalance(c47Proto.RewardUnit), uint64(d.VoteLastValid)}
			}
			m2.online[a] = append(m2.online[a], e)
			add(fmt.Sprintf("InsertOnlineAccount %s upd=%d norm=%d votingEmpty=%v", c47A(a), e.upd, e.norm, e.data.IsVotingEmpty()), "online", func(b int, wr *c47Writers) error {
				ref, err := wr.ow.InsertOnlineAccount(a, e.norm, e.data, e.upd, e.vlv)
				if err == nil && ref == nil {
					err = fmt.Errorf("nil ref")
				}
				return err
			})
		}
	}
	if k > 0 {
		// what every commit does: prune online history, extend the round params and the tx tail, bump the round
		var pruneOp *c47Op
		if rapid.IntRange(0, 2).Draw(rt, L("prune")) == 0 && oldRound >= m2.onlineFB {
			fb := basics.Round(rapid.Uint64Range(uint64(m2.onlineFB), uint64(oldRound)).Draw(rt, L("fb")))
			if rapid.Bool().Draw(rt, L("fbhit")) {
				// aim at a horizon equal to a stored update round (regression of kv-onlinedelete-inclusive)
				var hits []uint64
				for _, list := range m2.online {
					for _, e := range list {
						if e.upd >= uint64(m2.onlineFB) && e.upd <= uint64(oldRound) {
							hits = append(hits, e.upd)
						}
					}
				}
				sort.Slice(hits, func(i, j int) bool { return hits[i] < hits[j] })
				if len(hits) > 0 {
					fb = basics.Round(c47PickFrom(rt, L("fbh"), hits))
					w.vk.Label("OnlineAccountsDelete horizon equal to a stored updround")
				}
			}
			m2.onlineFB = fb
			m2.onlineDelete(fb)
			for r := range m2.params {
				if r < fb {
					delete(m2.params, r)
				}
			}
			add(fmt.Sprintf("OnlineAccountsDelete %d", fb), "online", func(b int, wr *c47Writers) error { return wr.ax.OnlineAccountsDelete(fb) })
			pruneOp = &c47Op{name: fmt.Sprintf("AccountsPruneOnlineRoundParams %d", fb), table: "ext", run: func(b int, wr *c47Writers) error {
				return wr.ax.AccountsPruneOnlineRoundParams(fb)
			}}
		}
		np := k
		var plist []ledgercore.OnlineRoundParamsData
		for i := 0; i < np; i++ {
			p := ledgercore.OnlineRoundParamsData{OnlineSupply: uint64(oldRound)*1000 + uint64(i), RewardsLevel: uint64(i), CurrentProtocol: protocol.ConsensusCurrentVersion}
			if i%2 == 1 {
				p.CurrentProtocol = ""
			}
			plist = append(plist, p)
			m2.params[oldRound+1+basics.Round(i)] = p
		}
		add(fmt.Sprintf("AccountsPutOnlineRoundParams %d from %d", np, oldRound+1), "ext", func(b int, wr *c47Writers) error {
			return wr.ax.AccountsPutOnlineRoundParams(plist, oldRound+1)
		})
		if pruneOp != nil {
			ops = append(ops, *pruneOp)
		}
		var tails [][]byte
		tn := k
		if tn > 4 {
			// a long jump: the tail keeps only the last rounds, as after a catchpoint restore; forget everything older
			tn = 4
		}
		tbase := newRound - basics.Round(tn) + 1
		for i := 0; i < tn; i++ {
			tb := c47GenTxTail(rt, fmt.Sprintf("%stt%d", L(""), i), tbase+basics.Round(i))
			tails = append(tails, tb)
		}
		tfb := m2.txFB
		if tbase > oldRound+1 {
			tfb = tbase
		} else if rapid.Bool().Draw(rt, L("tfb")) {
			tfb = basics.Round(rapid.Uint64Range(uint64(m2.txFB), uint64(newRound)).Draw(rt, L("tfbv")))
		}
		m2.txFB = tfb
		for i, tb := range tails {
			m2.txtail[tbase+basics.Round(i)] = tb
		}
		for r := range m2.txtail {
			if r < tfb {
				delete(m2.txtail, r)
			}
		}
		add(fmt.Sprintf("TxtailNewRound base=%d n=%d forgetBefore=%d", tbase, tn, tfb), "ext", func(b int, wr *c47Writers) error {
			return wr.ax.TxtailNewRound(context.Background(), tbase, tails, tfb)
		})
		m2.round = newRound
		ops = append(ops, c47Op{name: fmt.Sprintf("UpdateAccountsRound %d", newRound), table: "ext", run: func(b int, wr *c47Writers) error {
			return wr.ax.UpdateAccountsRound(newRound)
		}})
	} else if rapid.IntRange(0, 5).Draw(rt, L("same")) == 0 {
		add(fmt.Sprintf("UpdateAccountsRound %d (unchanged)", oldRound), "ext", func(b int, wr *c47Writers) error {
			return wr.ax.UpdateAccountsRound(oldRound)
		})
	}
	desc = ""
	for i, op := range ops {
		if i > 0 {
			desc += "; "
		}
		desc += op.name
	}
	return
}

const (
	c47ScopeTx = iota
	c47ScopeBatch
	c47ScopeDirect
)

var c47ScopeName = []string{"Transaction", "Batch", "direct"}

// apply runs the ops of one step against backend b in the given scope.
func (w *c47World) apply(b int, scope int, ops []c47Op, abort bool) error {
	var fl [4]bool // accounts, resources, kv, creatables — as computed by accountsNewRound
	online := false
	for _, op := range ops {
		switch op.table {
		case "accts":
			fl[0] = true
		case "res":
			fl[1] = true
		case "kv":
			fl[2] = true
		case "creat":
			fl[3] = true
		case "online":
			online = true
		}
	}
	run := func(wr trackerdb.Writer) (err error) {
		var ws c47Writers
		if ws.aw, err = wr.MakeAccountsOptimizedWriter(fl[0], fl[1], fl[2], fl[3]); err != nil {
			return err
		}
		defer ws.aw.Close()
		if ws.ax, err = wr.MakeAccountsWriter(); err != nil {
			return err
		}
		if ws.ow, err = wr.MakeOnlineAccountsOptimizedWriter(online); err != nil {
			return err
		}
		defer ws.ow.Close()
		ws.sp = wr.MakeSpVerificationCtxWriter()
		for _, op := range ops {
			if err := op.run(b, &ws); err != nil {
				return fmt.Errorf("%s: %w", op.name, err)
			}
		}
		if abort {
			return c47ErrAbort
		}
		return nil
	}
	switch scope {
	case c47ScopeTx:
		return w.st[b].Transaction(func(ctx context.Context, tx trackerdb.TransactionScope) error { return run(tx) })
	case c47ScopeBatch:
		return w.st[b].Batch(func(ctx context.Context, tx trackerdb.BatchScope) error { return run(tx) })
	default:
		return run(w.st[b])
	}
}

// writeStep draws a step and applies it to both stores and (unless aborted) to the model.
func (w *c47World) writeStep(si int) {
	m2 := w.m.clone()
	ops, desc := w.genStep(m2, si)
	if len(ops) == 0 {
		return
	}
	scope := rapid.IntRange(0, 2).Draw(w.rt, fmt.Sprintf("s%dscope", si))
	abort := scope != c47ScopeDirect && rapid.IntRange(0, 9).Draw(w.rt, fmt.Sprintf("s%dabort", si)) == 0
	w.logf("step %d [%s abort=%v]: %s", si, c47ScopeName[scope], abort, desc)
	w.vk.Label("scope=" + c47ScopeName[scope])
	var saved [2]map[basics.Address]trackerdb.AccountRef
	for b := range w.refs {
		saved[b] = map[basics.Address]trackerdb.AccountRef{}
		for k, v := range w.refs[b] {
			saved[b][k] = v
		}
	}
	for b := range w.st {
		err := w.apply(b, scope, ops, abort)
		if abort {
			if !errors.Is(err, c47ErrAbort) {
				w.fatalf("%s: aborted %s returned %v instead of the callback's error", c47BackendName[b], c47ScopeName[scope], err)
			}
			continue
		}
		if err != nil {
			w.fatalf("%s: write step failed inside the callers' domain: %v", c47BackendName[b], err)
		}
	}
	if abort {
		w.refs = saved
		w.vk.Label("step=aborted")
		return
	}
	for _, op := range ops {
		w.tables[op.table] = true
		w.vk.Label("write=" + op.table)
	}
	w.commits++
	w.m = m2
}
