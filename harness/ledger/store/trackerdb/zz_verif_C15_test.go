package trackerdb

// C15 — A catchpoint label commits to a unique ledger state.
// Pure part: the map (ledger entry) -> (trie leaf) must be injective up to hash collisions, the trie root must
// separate states that differ in one entry, and the label must separate roots/totals. Pairs are built with
// structure-aware adjacency (bytes moved across field boundaries, same bytes under another kind, same record under
// another address / creatable id, one field changed).
//
// Known finding F1 (kv-boundary-shift): KvHashBuilderV6 hashes key||value without a separator, so two boxes of one
// application with k1||v1 == k2||v2 have the same leaf. That class is excluded by construction from the search and
// reproduced separately through vk.Known.

import (
	"bytes"
	"encoding/binary"
	"encoding/hex"
	"fmt"
	"reflect"
	"testing"

	"github.com/algorand/avm-abi/apps"
	"pgregory.net/rapid"

	"github.com/algorand/go-algorand/crypto"
	"github.com/algorand/go-algorand/crypto/merkletrie"
	"github.com/algorand/go-algorand/data/basics"
	"github.com/algorand/go-algorand/ledger/ledgercore"
	"github.com/algorand/go-algorand/protocol"
)

// ---------- ledger entries

type c15Entry struct {
	Kind  string // "acct" | "res" | "kv"
	Addr  basics.Address
	Acct  BaseAccountData
	Cidx  basics.CreatableIndex
	Res   ResourcesData
	Key   string
	Value []byte
}

func (e c15Entry) String() string {
	switch e.Kind {
	case "acct":
		return fmt.Sprintf("acct{%x.. %s}", e.Addr[:4], hex.EncodeToString(protocol.Encode(&e.Acct)))
	case "res":
		return fmt.Sprintf("res{%x.. cidx=%d %s}", e.Addr[:4], e.Cidx, hex.EncodeToString(protocol.Encode(&e.Res)))
	}
	return fmt.Sprintf("kv{key=%x value=%x}", e.Key, e.Value)
}

// leaf computes the trie element exactly the way the callers in ledger/catchpointtracker.go and
// ledger/acctdeltas.go do.
func (e c15Entry) leaf() ([]byte, error) {
	switch e.Kind {
	case "acct":
		a := e.Acct
		return AccountHashBuilderV6(e.Addr, &a, protocol.Encode(&a)), nil
	case "res":
		r := e.Res
		return ResourcesHashBuilderV6(&r, e.Addr, e.Cidx, r.UpdateRound, protocol.Encode(&r))
	}
	return KvHashBuilderV6(e.Key, e.Value), nil
}

// same reports semantic equality of two entries (what "the same ledger record" means).
func (e c15Entry) same(o c15Entry) bool {
	if e.Kind != o.Kind {
		return false
	}
	switch e.Kind {
	case "acct":
		return e.Addr == o.Addr && bytes.Equal(protocol.EncodeReflect(&e.Acct), protocol.EncodeReflect(&o.Acct)) && reflect.DeepEqual(c15Norm(e.Acct), c15Norm(o.Acct))
	case "res":
		return e.Addr == o.Addr && e.Cidx == o.Cidx && reflect.DeepEqual(c15Norm(e.Res), c15Norm(o.Res))
	}
	return e.Key == o.Key && bytes.Equal(e.Value, o.Value)
}

// c15Norm normalises nil/empty collections so DeepEqual means semantic equality.
func c15Norm(v interface{}) interface{} {
	switch x := v.(type) {
	case ResourcesData:
		if len(x.KeyValue) == 0 {
			x.KeyValue = nil
		}
		if len(x.GlobalState) == 0 {
			x.GlobalState = nil
		}
		if len(x.ApprovalProgram) == 0 {
			x.ApprovalProgram = nil
		}
		if len(x.ClearStateProgram) == 0 {
			x.ClearStateProgram = nil
		}
		return x
	}
	return v
}

// ---------- generators

func c15U64(t *rapid.T, label string) uint64 {
	switch rapid.IntRange(0, 5).Draw(t, label+"k") {
	case 0:
		return 0
	case 1:
		return rapid.Uint64Range(1, 300).Draw(t, label)
	case 2:
		return uint64(1)<<uint(rapid.IntRange(8, 63).Draw(t, label+"s")) + rapid.Uint64Range(0, 1).Draw(t, label+"d") - 1
	case 3:
		return ^uint64(0) - rapid.Uint64Range(0, 2).Draw(t, label)
	default:
		return rapid.Uint64().Draw(t, label)
	}
}

func c15Bytes(t *rapid.T, label string, max int) []byte {
	n := rapid.IntRange(0, max).Draw(t, label+"n")
	b := make([]byte, n)
	mode := rapid.IntRange(0, 3).Draw(t, label+"m")
	for i := range b {
		switch mode {
		case 0:
			b[i] = 0
		case 1:
			b[i] = 0xff
		case 2:
			b[i] = "abx:\x00\xff"[rapid.IntRange(0, 5).Draw(t, label+"c")]
		default:
			b[i] = rapid.Byte().Draw(t, label+"b")
		}
	}
	return b
}

func c15Addr(t *rapid.T, label string) basics.Address {
	var a basics.Address
	switch rapid.IntRange(0, 3).Draw(t, label+"k") {
	case 0: // small family: collisions of address between entries are common
		a[0] = byte(rapid.IntRange(1, 4).Draw(t, label))
	case 1: // looks like a box key prefix
		copy(a[:], "bx:")
		binary.BigEndian.PutUint64(a[3:], rapid.Uint64Range(1, 3).Draw(t, label+"app"))
		copy(a[11:], c15Bytes(t, label+"rest", 21))
	default:
		copy(a[:], c15Bytes(t, label, 32))
		a[31] |= 1
	}
	return a
}

// c15Fill fills v (a struct value) with drawn data, recursively.
func c15Fill(t *rapid.T, v reflect.Value, path string, density int) {
	switch v.Kind() {
	case reflect.Struct:
		for i := 0; i < v.NumField(); i++ {
			f := v.Type().Field(i)
			if f.Name == "_struct" || !v.Field(i).CanSet() {
				continue
			}
			c15Fill(t, v.Field(i), path+"."+f.Name, density)
		}
	case reflect.Uint8, reflect.Uint16, reflect.Uint32, reflect.Uint64, reflect.Uint:
		if rapid.IntRange(0, density).Draw(t, path+"?") == 0 {
			return
		}
		x := c15U64(t, path)
		bitsz := v.Type().Bits()
		if bitsz < 64 {
			x &= (uint64(1) << uint(bitsz)) - 1
		}
		v.SetUint(x)
	case reflect.Bool:
		v.SetBool(rapid.Bool().Draw(t, path))
	case reflect.String:
		if rapid.IntRange(0, density).Draw(t, path+"?") != 0 {
			v.SetString(string(c15Bytes(t, path, 6)))
		}
	case reflect.Slice:
		if v.Type().Elem().Kind() == reflect.Uint8 && rapid.IntRange(0, density).Draw(t, path+"?") != 0 {
			v.SetBytes(c15Bytes(t, path, 8))
		}
	case reflect.Array:
		if v.Type().Elem().Kind() == reflect.Uint8 && rapid.IntRange(0, density).Draw(t, path+"?") != 0 {
			b := c15Bytes(t, path, v.Len())
			for i := 0; i < len(b); i++ {
				v.Index(i).SetUint(uint64(b[i]))
			}
		} else if v.Type().Elem().Kind() != reflect.Uint8 {
			for i := 0; i < v.Len(); i++ {
				c15Fill(t, v.Index(i), fmt.Sprintf("%s[%d]", path, i), density)
			}
		}
	case reflect.Map:
		if v.Type() == reflect.TypeOf(basics.TealKeyValue{}) {
			n := rapid.IntRange(0, 3).Draw(t, path+"n")
			if n == 0 {
				return
			}
			m := basics.TealKeyValue{}
			for i := 0; i < n; i++ {
				k := string(c15Bytes(t, fmt.Sprintf("%s.k%d", path, i), 4))
				if rapid.Bool().Draw(t, fmt.Sprintf("%s.t%d", path, i)) {
					m[k] = basics.TealValue{Type: basics.TealUintType, Uint: c15U64(t, fmt.Sprintf("%s.u%d", path, i))}
				} else {
					m[k] = basics.TealValue{Type: basics.TealBytesType, Bytes: string(c15Bytes(t, fmt.Sprintf("%s.b%d", path, i), 5))}
				}
			}
			v.Set(reflect.ValueOf(m))
		}
	}
}

func c15GenAcct(t *rapid.T, label string) c15Entry {
	e := c15Entry{Kind: "acct", Addr: c15Addr(t, label+".addr")}
	c15Fill(t, reflect.ValueOf(&e.Acct).Elem(), label, rapid.IntRange(1, 4).Draw(t, label+".density"))
	return e
}

func c15GenRes(t *rapid.T, label string) c15Entry {
	e := c15Entry{Kind: "res", Addr: c15Addr(t, label+".addr"), Cidx: basics.CreatableIndex(c15U64(t, label+".cidx"))}
	var full ResourcesData
	c15Fill(t, reflect.ValueOf(&full).Elem(), label, rapid.IntRange(1, 4).Draw(t, label+".density"))
	// a stored resource row is an asset (params and/or holding) or an app (params and/or local state), never both
	if rapid.Bool().Draw(t, label+".asset") {
		full.ClearAppParams()
		full.ClearAppLocalState()
		full.ResourceFlags &= ResourceFlagsOwnership | ResourceFlagsNotHolding
		if full.IsEmptyAssetFields() {
			full.ResourceFlags |= ResourceFlagsEmptyAsset
		}
	} else {
		full.ClearAssetParams()
		full.ClearAssetHolding()
		full.ResourceFlags &= ResourceFlagsOwnership | ResourceFlagsNotHolding
		if full.IsEmptyAppFields() {
			full.ResourceFlags |= ResourceFlagsEmptyApp
		}
	}
	e.Res = full
	return e
}

func c15GenKv(t *rapid.T, label string) c15Entry {
	app := rapid.Uint64Range(1, 3).Draw(t, label+".app")
	name := c15Bytes(t, label+".name", 6)
	return c15Entry{Kind: "kv", Key: apps.MakeBoxKey(app, string(name)), Value: c15Bytes(t, label+".val", 8)}
}

func c15GenEntry(t *rapid.T, label string) c15Entry {
	switch rapid.IntRange(0, 2).Draw(t, label+".kind") {
	case 0:
		return c15GenAcct(t, label)
	case 1:
		return c15GenRes(t, label)
	}
	return c15GenKv(t, label)
}

// c15MutateLeafField changes exactly one leaf field reachable from v to a different value; returns the path changed.
func c15MutateField(t *rapid.T, v reflect.Value) string {
	type leafRef struct {
		v    reflect.Value
		path string
	}
	var leaves []leafRef
	var walk func(v reflect.Value, path string)
	walk = func(v reflect.Value, path string) {
		switch v.Kind() {
		case reflect.Struct:
			for i := 0; i < v.NumField(); i++ {
				f := v.Type().Field(i)
				if f.Name == "_struct" || !v.Field(i).CanSet() {
					continue
				}
				walk(v.Field(i), path+"."+f.Name)
			}
		case reflect.Uint8, reflect.Uint16, reflect.Uint32, reflect.Uint64, reflect.Uint, reflect.Bool, reflect.String, reflect.Map:
			leaves = append(leaves, leafRef{v, path})
		case reflect.Slice, reflect.Array:
			if v.Type().Elem().Kind() == reflect.Uint8 {
				leaves = append(leaves, leafRef{v, path})
			}
		}
	}
	walk(v, "")
	l := leaves[rapid.IntRange(0, len(leaves)-1).Draw(t, "mutField")]
	switch l.v.Kind() {
	case reflect.Bool:
		l.v.SetBool(!l.v.Bool())
	case reflect.Uint8, reflect.Uint16, reflect.Uint32, reflect.Uint64, reflect.Uint:
		old := l.v.Uint()
		var nv uint64
		switch rapid.IntRange(0, 3).Draw(t, "mutHow") {
		case 0:
			nv = old + 1
		case 1:
			nv = old ^ (uint64(1) << uint(rapid.IntRange(0, l.v.Type().Bits()-1).Draw(t, "bit")))
		case 2:
			nv = old + (uint64(1) << 32) // same low 32 bits (the trie-affinity prefix only keeps those)
		default:
			nv = old << 8
		}
		if bitsz := l.v.Type().Bits(); bitsz < 64 {
			nv &= (uint64(1) << uint(bitsz)) - 1
		}
		if nv == old {
			nv = old ^ 1
		}
		l.v.SetUint(nv)
	case reflect.String:
		l.v.SetString(l.v.String() + string([]byte{byte(rapid.IntRange(0, 255).Draw(t, "appendByte"))}))
	case reflect.Slice:
		l.v.SetBytes(append(append([]byte{}, l.v.Bytes()...), byte(rapid.IntRange(0, 255).Draw(t, "appendByte"))))
	case reflect.Array:
		i := rapid.IntRange(0, l.v.Len()-1).Draw(t, "arrIdx")
		l.v.Index(i).SetUint(l.v.Index(i).Uint() ^ uint64(1+rapid.IntRange(0, 254).Draw(t, "arrXor")))
	case reflect.Map:
		m := basics.TealKeyValue{}
		for _, k := range l.v.MapKeys() {
			m[k.String()] = l.v.MapIndex(k).Interface().(basics.TealValue)
		}
		// add a fresh key, or move one byte across the key|value boundary of an existing bytes entry
		moved := false
		for k, tv := range m {
			if tv.Type == basics.TealBytesType && len(tv.Bytes) > 0 && rapid.Bool().Draw(t, "mapShift") {
				if _, clash := m[k+tv.Bytes[:1]]; !clash {
					delete(m, k)
					m[k+tv.Bytes[:1]] = basics.TealValue{Type: basics.TealBytesType, Bytes: tv.Bytes[1:]}
					moved = true
				}
				break
			}
		}
		if !moved {
			k := "nk"
			for {
				if _, ok := m[k]; !ok {
					break
				}
				k += "x"
			}
			m[k] = basics.TealValue{Type: basics.TealUintType, Uint: 1}
		}
		l.v.Set(reflect.ValueOf(m))
	}
	return l.path
}

// c15Neighbour derives from e a *different* entry that is adversarially close to it. It returns the class label.
// The F1 class (kv boundary shift) is generated only when allowF1 is true.
func c15Neighbour(t *rapid.T, e c15Entry, allowF1 bool) (c15Entry, string) {
	o := e
	o.Value = append([]byte{}, e.Value...)
	switch e.Kind {
	case "kv":
		choices := []string{"kv-value-byte", "kv-value-extend", "kv-other-app", "kv-name-extend", "kv-as-account", "kv-as-resource"}
		if allowF1 {
			choices = []string{"kv-boundary-shift"}
		}
		c := rapid.SampledFrom(choices).Draw(t, "nb")
		switch c {
		case "kv-boundary-shift":
			// move i bytes of the value into the name (or of the name into the value): k1||v1 == k2||v2
			if len(e.Value) > 0 && (len(e.Key) <= 11 || rapid.Bool().Draw(t, "dir")) {
				i := rapid.IntRange(1, len(e.Value)).Draw(t, "i")
				o.Key = e.Key + string(e.Value[:i])
				o.Value = append([]byte{}, e.Value[i:]...)
			} else if len(e.Key) > 11 {
				i := rapid.IntRange(1, len(e.Key)-11).Draw(t, "i")
				o.Key = e.Key[:len(e.Key)-i]
				o.Value = append([]byte(e.Key[len(e.Key)-i:]), e.Value...)
			} else {
				o.Value = append(o.Value, 1)
				return o, "kv-value-extend"
			}
		case "kv-value-byte":
			if len(o.Value) == 0 {
				o.Value = []byte{0}
			} else {
				i := rapid.IntRange(0, len(o.Value)-1).Draw(t, "i")
				o.Value[i] ^= byte(1 + rapid.IntRange(0, 254).Draw(t, "x"))
			}
		case "kv-value-extend":
			o.Value = append(o.Value, byte(rapid.IntRange(0, 255).Draw(t, "b"))) // incl. trailing zero: "" vs "\x00"
		case "kv-other-app":
			b := []byte(e.Key)
			b[10] ^= byte(1 + rapid.IntRange(0, 254).Draw(t, "x"))
			o.Key = string(b)
		case "kv-name-extend":
			o.Key = e.Key + string([]byte{byte(rapid.IntRange(0, 255).Draw(t, "b"))}) // same value under a longer name
		case "kv-as-account":
			// an account record whose hashed bytes addr||encoding are exactly key||value of the kv entry
			pre := append([]byte(e.Key), e.Value...)
			for len(pre) < 33 {
				pre = append(pre, 0x80) // pad both sides identically
			}
			o = c15Entry{Kind: "rawacct"}
			copy(o.Addr[:], pre[:32])
			o.Value = pre[32:]
			e2 := e
			e2.Value = pre[len(e.Key):]
			return c15RawPair(e2, o), c
		case "kv-as-resource":
			pre := append([]byte(e.Key), e.Value...)
			for len(pre) < 41 {
				pre = append(pre, 0x80)
			}
			o = c15Entry{Kind: "rawres"}
			copy(o.Addr[:], pre[:32])
			o.Cidx = basics.CreatableIndex(binary.LittleEndian.Uint64(pre[32:40]))
			o.Value = pre[40:]
			e2 := e
			e2.Value = pre[len(e.Key):]
			return c15RawPair(e2, o), c
		}
		return o, c
	case "acct":
		c := rapid.SampledFrom([]string{"acct-field", "acct-field", "acct-other-addr", "acct-addr-byte"}).Draw(t, "nb")
		switch c {
		case "acct-field":
			p := c15MutateField(t, reflect.ValueOf(&o.Acct).Elem())
			return o, c + p
		case "acct-other-addr":
			o.Addr = c15Addr(t, "otherAddr")
			if o.Addr == e.Addr {
				o.Addr[31] ^= 0x80
			}
		case "acct-addr-byte":
			o.Addr[rapid.IntRange(0, 31).Draw(t, "ai")] ^= byte(1 + rapid.IntRange(0, 254).Draw(t, "ax"))
		}
		return o, c
	default: // res
		c := rapid.SampledFrom([]string{"res-field", "res-field", "res-other-cidx", "res-other-addr", "res-cidx-into-addr"}).Draw(t, "nb")
		switch c {
		case "res-field":
			before := o.Res
			p := c15MutateField(t, reflect.ValueOf(&o.Res).Elem())
			// keep it a single-kind row; if the mutation turned an asset row into an app row (or vice versa) that is a
			// legitimate different record too, as long as it still has a kind
			if o.Res.IsEmpty() {
				o.Res = before
				o.Res.UpdateRound++
				p = ".UpdateRound"
			}
			return o, c + p
		case "res-other-cidx":
			o.Cidx = e.Cidx + basics.CreatableIndex(1+rapid.Uint64Range(0, 1<<40).Draw(t, "dc"))
		case "res-other-addr":
			o.Addr[rapid.IntRange(0, 31).Draw(t, "ai")] ^= byte(1 + rapid.IntRange(0, 254).Draw(t, "ax"))
		case "res-cidx-into-addr":
			// shift: last address byte <-> first cidx byte (fixed-width fields, must still differ)
			lo := byte(e.Cidx)
			o.Cidx = (e.Cidx &^ 0xff) | basics.CreatableIndex(e.Addr[31])
			o.Addr[31] = lo
			if o.Addr == e.Addr && o.Cidx == e.Cidx {
				o.Cidx++
			}
		}
		return o, c
	}
}

// rawacct / rawres entries call the builders with caller-chosen encoded bytes (the builders' contract is on bytes).
type c15Raw struct {
	c15Entry
}

func c15RawPair(kv c15Entry, raw c15Entry) c15Entry { c15RawOther = kv; return raw }

var c15RawOther c15Entry

func c15Leaf(e c15Entry) ([]byte, error) {
	switch e.Kind {
	case "rawacct":
		var bad BaseAccountData // UpdateRound 0, RewardsBase 0: same 4-byte affinity prefix as a kv leaf
		return AccountHashBuilderV6(e.Addr, &bad, e.Value), nil
	case "rawres":
		rd := ResourcesData{ResourceFlags: ResourceFlagsEmptyAsset}
		return ResourcesHashBuilderV6(&rd, e.Addr, e.Cidx, 0, e.Value)
	}
	return e.leaf()
}

func c15IsF1(a, b c15Entry) bool {
	if a.Kind != "kv" || b.Kind != "kv" || a.Key == b.Key {
		return false
	}
	return bytes.Equal(append([]byte(a.Key), a.Value...), append([]byte(b.Key), b.Value...))
}

// ---------- the property

func TestVerif_C15_Leaves(t *testing.T) {
	vk := vkBegin(t, "C15")
	vk.Rule("pairs of ledger entries (account / asset-or-app resource row / box kv) where the second is an adversarial neighbour of the first (one field changed, byte moved across a field boundary, same bytes under another address / creatable id / kind); oracle: the 36-byte trie leaves differ, a trie built from a random base state plus either entry has different roots, and labels built from those roots differ; non-trivial = boundary shift or kind confusion or same-low-32-bits change (not a plain byte flip); distinct by rendered pair. The known class kv-boundary-shift (F1) is excluded by construction.")
	vk.Assume("SHA-512/256 collision resistance (equal leaves for unequal entries are read as an encoding ambiguity)")
	rapid.Check(t, func(t *rapid.T) {
		e := c15GenEntry(t, "e")
		c15RawOther = c15Entry{}
		o, class := c15Neighbour(t, e, false)
		if o.Kind == "rawacct" || o.Kind == "rawres" {
			e = c15RawOther // kv entry padded so both pre-images are byte-identical
		} else if e.same(o) {
			t.Fatalf("harness bug: neighbour equals original (%s): %v", class, e)
		}
		if c15IsF1(e, o) {
			vk.Excluded("kv-boundary-shift")
			return
		}
		l1, err1 := c15Leaf(e)
		l2, err2 := c15Leaf(o)
		if err1 != nil || err2 != nil {
			t.Fatalf("hash builder error: %v %v for %v / %v", err1, err2, e, o)
		}
		if len(l1) != 4+crypto.DigestSize || len(l2) != len(l1) {
			t.Fatalf("leaf length %d/%d", len(l1), len(l2))
		}
		if bytes.Equal(l1, l2) {
			t.Fatalf("two different ledger entries have the same trie leaf (%s):\n  %v\n  %v\n  leaf %x", class, e, o, l1)
		}
		nt := class != "kv-value-byte" && class != "acct-addr-byte" && class != "res-other-addr"
		vk.Label(class)

		// trie level: base state + e  vs  base state + o
		nbase := rapid.IntRange(0, 6).Draw(t, "nbase")
		var base [][]byte
		for i := 0; i < nbase; i++ {
			b := c15GenEntry(t, fmt.Sprintf("base%d", i))
			lb, err := b.leaf()
			if err != nil {
				t.Fatalf("base leaf: %v", err)
			}
			if bytes.Equal(lb, l1) || bytes.Equal(lb, l2) {
				continue
			}
			base = append(base, lb)
		}
		r1 := c15Root(t, append(append([][]byte{}, base...), l1))
		r2 := c15Root(t, append(append([][]byte{}, base...), l2))
		if r1 == r2 {
			t.Fatalf("tries of two different states have the same root %v (%s): %v / %v", r1, class, e, o)
		}
		// label level
		var blk, sp, oa, orp crypto.Digest
		blk[0], sp[0], oa[0], orp[0] = 1, 2, 3, 4
		var tot ledgercore.AccountTotals
		tot.Online.Money.Raw = 1000
		la := ledgercore.MakeLabel(ledgercore.MakeCatchpointLabelMakerCurrent(8, &blk, &r1, tot, &sp, &oa, &orp))
		lb := ledgercore.MakeLabel(ledgercore.MakeCatchpointLabelMakerCurrent(8, &blk, &r2, tot, &sp, &oa, &orp))
		if la == lb {
			t.Fatalf("labels equal for different roots: %s", la)
		}
		fp := class + "|" + e.String() + "|" + o.String()
		vk.Case(nt, fp)
		if vk.WantSample(nt) {
			vk.Sample(nt, map[string]string{"class": class, "a": e.String(), "b": o.String(), "leafA": hex.EncodeToString(l1), "leafB": hex.EncodeToString(l2)})
		}
	})
}

func c15Root(t *rapid.T, leaves [][]byte) crypto.Digest {
	mt, err := merkletrie.MakeTrie(&merkletrie.InMemoryCommitter{}, merkletrie.MemoryConfig{NodesCountPerPage: 116, CachedNodesCount: 9000, PageFillFactor: 0.95, MaxChildrenPagesThreshold: 64})
	if err != nil {
		t.Fatalf("MakeTrie: %v", err)
	}
	for _, l := range leaves {
		if _, err := mt.Add(l); err != nil {
			t.Fatalf("trie add: %v", err)
		}
	}
	r, err := mt.RootHash()
	if err != nil {
		t.Fatalf("RootHash: %v", err)
	}
	return r
}

// Label components: two label inputs that differ in one component give different labels.
func TestVerif_C15_Label(t *testing.T) {
	vk := vkBegin(t, "C15")
	vk.Rule("pairs of label inputs (round, block hash, trie root, totals, state-proof ctx hash, online accounts hash, online round params hash) differing in exactly one component or by moving a byte between adjacent components; oracle: labels differ; non-trivial = byte moved across a component boundary or a totals field change")
	rapid.Check(t, func(t *rapid.T) {
		type in struct {
			Round                 uint64
			Blk, Root, Sp, Oa, Op crypto.Digest
			Tot                   ledgercore.AccountTotals
		}
		var a in
		a.Round = rapid.Uint64Range(1, 1<<40).Draw(t, "round")
		for _, d := range []*crypto.Digest{&a.Blk, &a.Root, &a.Sp, &a.Oa, &a.Op} {
			copy(d[:], c15Bytes(t, "dig", 32))
		}
		c15Fill(t, reflect.ValueOf(&a.Tot).Elem(), "tot", 2)
		b := a
		class := rapid.SampledFrom([]string{"round", "blk", "root", "sp", "oa", "op", "totals", "shift-root-totals", "shift-blk-root", "swap-oa-op"}).Draw(t, "class")
		nt := false
		switch class {
		case "round":
			b.Round++
		case "blk":
			b.Blk[rapid.IntRange(0, 31).Draw(t, "i")] ^= 1
		case "root":
			b.Root[rapid.IntRange(0, 31).Draw(t, "i")] ^= 1
		case "sp":
			b.Sp[rapid.IntRange(0, 31).Draw(t, "i")] ^= 1
		case "oa":
			b.Oa[rapid.IntRange(0, 31).Draw(t, "i")] ^= 1
		case "op":
			b.Op[rapid.IntRange(0, 31).Draw(t, "i")] ^= 1
		case "totals":
			c15MutateField(t, reflect.ValueOf(&b.Tot).Elem())
			nt = true
		case "shift-blk-root":
			b.Blk[31], b.Root[0] = a.Root[0], a.Blk[31]
			if b == a {
				b.Root[0] ^= 1
			}
			nt = true
		case "shift-root-totals":
			b.Root[31] ^= 0x55
			nt = true
		case "swap-oa-op":
			b.Oa, b.Op = a.Op, a.Oa
			if b == a {
				b.Op[0] ^= 1
			}
			nt = true
		}
		mk := func(x in) string {
			return ledgercore.MakeLabel(ledgercore.MakeCatchpointLabelMakerCurrent(basics.Round(x.Round), &x.Blk, &x.Root, x.Tot, &x.Sp, &x.Oa, &x.Op))
		}
		la, lb := mk(a), mk(b)
		if la == lb {
			t.Fatalf("different label inputs (%s) give the same label %s:\n%+v\n%+v", class, la, a, b)
		}
		// and the label parses back to the same round / is deterministic
		if mk(a) != la {
			t.Fatalf("label not deterministic")
		}
		vk.Label(class)
		vk.Case(nt, fmt.Sprintf("%s|%+v", class, a))
		if vk.WantSample(nt) {
			vk.Sample(nt, map[string]string{"class": class, "labelA": la, "labelB": lb})
		}
	})
}

// F1: the known kv boundary shift, reproduced at leaf, trie-root and label level (drawn instances + the frozen one).
func TestVerif_C15_KnownF1(t *testing.T) {
	vk := vkBegin(t, "C15")
	vk.Rule("instances of the known class kv-boundary-shift: two boxes of one application with name1||value1 == name2||value2; reported as KNOWN-FINDING when it reproduces and is listed; evidence counts reproductions")
	frozen := [2]c15Entry{
		{Kind: "kv", Key: apps.MakeBoxKey(1001, "ab"), Value: []byte("c")},
		{Kind: "kv", Key: apps.MakeBoxKey(1001, "a"), Value: []byte("bc")},
	}
	reproduced := 0
	check := func(a, b c15Entry) {
		la, _ := a.leaf()
		lb, _ := b.leaf()
		if bytes.Equal(la, lb) {
			reproduced++
			vk.Case(true, a.String()+"|"+b.String())
			vk.Sample(true, map[string]string{"a": a.String(), "b": b.String(), "leaf": hex.EncodeToString(la)})
		} else {
			vk.Case(false, a.String()+"|"+b.String())
		}
	}
	check(frozen[0], frozen[1])
	rapid.Check(t, func(t *rapid.T) {
		e := c15GenKv(t, "e")
		o, class := c15Neighbour(t, e, true)
		if class != "kv-boundary-shift" || !c15IsF1(e, o) {
			return
		}
		check(e, o)
	})
	if reproduced > 0 {
		vk.Known("kv-boundary-shift", fmt.Sprintf("KvHashBuilderV6(key,value) hashes key||value unseparated: boxes (name=\"ab\",value=\"c\") and (name=\"a\",value=\"bc\") of one app have the same trie leaf, hence the same balances root and catchpoint label (%d instances reproduced)", reproduced), frozen)
	}
}
