package ledger

// C10 — Paginated listings return each resource exactly once.
//
// Subjects: Ledger.LookupAssets / LookupApplications (latest round, id cursor) and Ledger.LookupKvPairsByPrefix
// (any served round, key cursor, limit, byte cap). The client protocol is the one of the REST handlers
// (daemon/algod/api/server/v2/handlers.go):
//   - AccountAssetsInformation / AccountApplicationsInformation ask the ledger for Limit+1 records after `next`,
//     emit the first Limit of them and a next-token (= id of the last emitted record) iff they got more than Limit;
//   - GetApplicationBoxes asks (round, prefix, cursor, limit, maxBytes) and emits a next-token (= name of the last
//     returned box; the next call's cursor is that box's key) iff moreData && len(results) > 0.
// Oracle: the Engine C reference model (fold of the block deltas) at the queried round.

import (
	"bytes"
	"fmt"
	"sort"
	"strings"
	"testing"

	"github.com/algorand/msgp/msgp"
	"pgregory.net/rapid"

	"github.com/algorand/go-algorand/data/basics"
	"github.com/algorand/go-algorand/data/transactions"
	"github.com/algorand/go-algorand/data/txntest"
	"github.com/algorand/go-algorand/ledger/ledgercore"
	"github.com/algorand/go-algorand/protocol"
)

// adversarial box names: shared prefixes, name = other name + 1 byte, 0x00 / 0xff bytes (0xff exercises the carry of
// the prefix -> [start, end) interval computation, 0x00 the "smallest successor" of a key)
var c10BoxNames = func() []string {
	out := []string{
		"a", "a\x00", "a\x00\x00", "a\x00\xff", "a\xff", "a\xff\x00", "a\xff\xff", "a\xff\xff\xff", "aa", "ab", "ab\x00", "ab\xff", "abc", "abd",
		"b", "b\x00", "b\xfe", "b\xff", "\x00", "\x00\x00", "\x00\x01", "\xff", "\xff\xff", "\xff\xff\xff", "\xfe\xff", "c",
	}
	for i := 0; i < 40; i++ {
		out = append(out, fmt.Sprintf("n%02d", i))
	}
	return out
}()

// raw name prefixes asked by the walks ("" = all boxes of the app; the last two match nothing)
var c10Prefixes = []string{"", "a", "a\x00", "a\xff", "a\xff\xff", "ab", "\xff", "\xff\xff", "\x00", "b", "n", "n1", "abcd", "zz"}

type c10Stats struct {
	walks, pages, calls   int
	nearDeleted           int // walks where a page boundary is adjacent to an entry deleted in the deltas but present in the DB
	createdBeyondDBPage   int // walks where a delta-only creation lies beyond the last id/key of the DB page
	spansDeleted          int // walks over a subject that has >=1 entry deleted in deltas but present in DB
	historic, afterReload int
	refused               int
	maxAssets, maxApps    int
	maxBoxes              int
}

type c10Run struct {
	w       *engcWorld
	vk      *vkCtx
	rich    basics.Address
	subj    []basics.Address
	boxApps []basics.AppIndex
	st      c10Stats
}

func (c *c10Run) failf(t *rapid.T, format string, args ...any) {
	h := c.w.History
	if len(h) > 50 {
		h = h[len(h)-50:]
	}
	t.Fatalf("C10 VIOLATION: %s\n--- history (tail) ---\n%s", fmt.Sprintf(format, args...), strings.Join(h, "\n"))
}

func c10Served(r, d0, d1, latest basics.Round) (mustErr, mustOK bool) {
	if r > latest || r < d0 {
		return true, false
	}
	if r >= d1 {
		return false, true
	}
	return false, false
}

func c10Enc[T any, P interface {
	*T
	msgp.Marshaler
}](v *T) []byte {
	if v == nil {
		return nil
	}
	return protocol.Encode(P(v))
}

// ---------------------------------------------------------------------------------------------------------------
// model side

type c10AssetWant struct {
	id      basics.AssetIndex
	holding basics.AssetHolding
	creator basics.Address
	params  *basics.AssetParams
}

// c10ModelAssets: every asset the account holds (opted in), by increasing id, with the creator and the creator's
// parameters if the asset still exists.
func c10ModelAssets(s *engcSnap, addr basics.Address) []c10AssetWant {
	a := s.Acct(addr)
	out := make([]c10AssetWant, 0, len(a.Assets))
	for id, h := range a.Assets {
		w := c10AssetWant{id: id, holding: h}
		if cr, ok := s.Creator(basics.CreatableIndex(id), basics.AssetCreatable); ok {
			w.creator = cr
			if p, ok := s.Acct(cr).AssetParams[id]; ok {
				w.params = &p
			}
		}
		out = append(out, w)
	}
	sort.Slice(out, func(i, j int) bool { return out[i].id < out[j].id })
	return out
}

type c10AppWant struct {
	id      basics.AppIndex
	local   *basics.AppLocalState
	creator basics.Address
	params  *basics.AppParams
}

// c10ModelApps: every application the account is opted in to or has created, by increasing id.
func c10ModelApps(s *engcSnap, addr basics.Address) []c10AppWant {
	a := s.Acct(addr)
	ids := map[basics.AppIndex]bool{}
	for id := range a.AppLocals {
		ids[id] = true
	}
	for id := range a.AppParams {
		ids[id] = true
	}
	out := make([]c10AppWant, 0, len(ids))
	for id := range ids {
		w := c10AppWant{id: id}
		if l, ok := a.AppLocals[id]; ok {
			w.local = &l
		}
		if cr, ok := s.Creator(basics.CreatableIndex(id), basics.AppCreatable); ok {
			w.creator = cr
			if p, ok := s.Acct(cr).AppParams[id]; ok {
				w.params = &p
			}
		}
		out = append(out, w)
	}
	sort.Slice(out, func(i, j int) bool { return out[i].id < out[j].id })
	return out
}

func c10AssetIDs(ws []c10AssetWant) []uint64 {
	out := make([]uint64, len(ws))
	for i, w := range ws {
		out[i] = uint64(w.id)
	}
	return out
}

func c10AppIDs(ws []c10AppWant) []uint64 {
	out := make([]uint64, len(ws))
	for i, w := range ws {
		out[i] = uint64(w.id)
	}
	return out
}

// c10Classify measures, for one id-cursor walk with page size `page` starting after gt, the two situations of the
// DESIGN's non-trivial rule. db = ids on disk (model at the tracker DB round), cur = ids at the queried round.
func (c *c10Run) classifyIDs(db, cur []uint64, gt uint64, page int) {
	inDB, inCur := map[uint64]bool{}, map[uint64]bool{}
	var union []uint64
	for _, x := range db {
		inDB[x] = true
		union = append(union, x)
	}
	for _, x := range cur {
		inCur[x] = true
		if !inDB[x] {
			union = append(union, x)
		}
	}
	sort.Slice(union, func(i, j int) bool { return union[i] < union[j] })
	deleted := func(x uint64) bool { return inDB[x] && !inCur[x] }
	anyDeleted := false
	for _, x := range db {
		if x > gt && deleted(x) {
			anyDeleted = true
		}
	}
	if anyDeleted {
		c.st.spansDeleted++
		c.vk.Label("walk:subject-has-delta-deleted-db-entry")
	}
	// page boundaries: every page-th entry of cur beyond gt that has a successor
	var rest []uint64
	for _, x := range cur {
		if x > gt {
			rest = append(rest, x)
		}
	}
	near := false
	for i := page - 1; i >= 0 && i < len(rest)-1; i += page {
		b := rest[i]
		j := sort.Search(len(union), func(k int) bool { return union[k] >= b })
		if (j > 0 && deleted(union[j-1]) && union[j-1] > gt) || (j+1 < len(union) && deleted(union[j+1])) {
			near = true
		}
	}
	if near {
		c.st.nearDeleted++
		c.vk.Label("walk:page-boundary-next-to-delta-deleted-db-entry")
	}
	// delta-only creation beyond the DB page: the DB holds more than page+1 ids after some page start and a created id
	// is greater than the (page+1)-th of them
	beyond := false
	starts := []uint64{gt}
	for i := page - 1; i >= 0 && i < len(rest)-1; i += page {
		starts = append(starts, rest[i])
	}
	for _, g := range starts {
		var dbRest []uint64
		for _, x := range db {
			if x > g {
				dbRest = append(dbRest, x)
			}
		}
		if len(dbRest) <= page+1 {
			continue
		}
		last := dbRest[page]
		for _, x := range cur {
			if !inDB[x] && x > last {
				beyond = true
			}
		}
	}
	if beyond {
		c.st.createdBeyondDBPage++
		c.vk.Label("walk:delta-only-creation-beyond-db-page")
	}
}

// same for key cursors
func (c *c10Run) classifyKeys(db, cur []string, cursor string, limit int) {
	inDB, inCur := map[string]bool{}, map[string]bool{}
	var union []string
	for _, x := range db {
		inDB[x] = true
		union = append(union, x)
	}
	for _, x := range cur {
		inCur[x] = true
		if !inDB[x] {
			union = append(union, x)
		}
	}
	sort.Strings(union)
	deleted := func(x string) bool { return inDB[x] && !inCur[x] }
	for _, x := range db {
		if x > cursor && deleted(x) {
			c.st.spansDeleted++
			c.vk.Label("walk:subject-has-delta-deleted-db-entry")
			break
		}
	}
	var rest []string
	for _, x := range cur {
		if x > cursor {
			rest = append(rest, x)
		}
	}
	near := false
	for i := limit - 1; i >= 0 && i < len(rest)-1; i += limit {
		b := rest[i]
		j := sort.SearchStrings(union, b)
		if (j > 0 && deleted(union[j-1]) && union[j-1] > cursor) || (j+1 < len(union) && deleted(union[j+1])) {
			near = true
		}
	}
	if near {
		c.st.nearDeleted++
		c.vk.Label("walk:page-boundary-next-to-delta-deleted-db-entry")
	}
	var dbRest []string
	for _, x := range db {
		if x > cursor {
			dbRest = append(dbRest, x)
		}
	}
	if len(dbRest) > limit {
		last := dbRest[limit-1]
		for _, x := range cur {
			if !inDB[x] && x > last {
				c.st.createdBeyondDBPage++
				c.vk.Label("walk:delta-only-creation-beyond-db-page")
				break
			}
		}
	}
}

// ---------------------------------------------------------------------------------------------------------------
// assets / applications

func (c *c10Run) cmpAsset(t *rapid.T, n *engcNode, what string, got ledgercore.AssetResourceWithIDs, want c10AssetWant) {
	if got.AssetID != want.id {
		c.failf(t, "%s: %s returned asset id %d where the model has %d", n.Name, what, got.AssetID, want.id)
	}
	if got.AssetHolding == nil || *got.AssetHolding != want.holding {
		c.failf(t, "%s: %s asset %d: holding %+v, model %+v", n.Name, what, want.id, got.AssetHolding, want.holding)
	}
	if got.Creator != want.creator {
		c.failf(t, "%s: %s asset %d: creator %v, model %v", n.Name, what, want.id, got.Creator, want.creator)
	}
	if (got.AssetParams == nil) != (want.params == nil) || !bytes.Equal(c10Enc(got.AssetParams), c10Enc(want.params)) {
		c.failf(t, "%s: %s asset %d: params %+v, model %+v", n.Name, what, want.id, got.AssetParams, want.params)
	}
}

func (c *c10Run) cmpApp(t *rapid.T, n *engcNode, what string, includeParams bool, got ledgercore.AppResourceWithIDs, want c10AppWant) {
	if got.AppID != want.id {
		c.failf(t, "%s: %s returned app id %d where the model has %d", n.Name, what, got.AppID, want.id)
	}
	if (got.AppLocalState == nil) != (want.local == nil) || !bytes.Equal(c10Enc(got.AppLocalState), c10Enc(want.local)) {
		c.failf(t, "%s: %s app %d: local state %+v, model %+v", n.Name, what, want.id, got.AppLocalState, want.local)
	}
	if got.Creator != want.creator {
		c.failf(t, "%s: %s app %d: creator %v, model %v", n.Name, what, want.id, got.Creator, want.creator)
	}
	if includeParams {
		if (got.AppParams == nil) != (want.params == nil) || !bytes.Equal(c10Enc(got.AppParams), c10Enc(want.params)) {
			c.failf(t, "%s: %s app %d: params %+v, model %+v", n.Name, what, want.id, got.AppParams, want.params)
		}
	}
}

// assetCall: one LookupAssets call must return exactly the first `limit` model entries with id > gt.
func (c *c10Run) assetCall(t *rapid.T, n *engcNode, addr basics.Address, gt basics.AssetIndex, limit uint64) []ledgercore.AssetResourceWithIDs {
	tip := c.w.Model.Tip()
	var want []c10AssetWant
	for _, w := range c10ModelAssets(tip, addr) {
		if w.id > gt && uint64(len(want)) < limit {
			want = append(want, w)
		}
	}
	got, rnd, err := n.L.LookupAssets(addr, gt, limit)
	c.st.calls++
	what := fmt.Sprintf("LookupAssets(%s, gt=%d, limit=%d) (dbRound %d, latest %d)", engcShort(addr), gt, limit, n.DBRound(), tip.Round)
	if err != nil {
		c.failf(t, "%s: %s failed: %v", n.Name, what, err)
	}
	if rnd != tip.Round {
		c.failf(t, "%s: %s returned round %d", n.Name, what, rnd)
	}
	if len(got) != len(want) {
		var gi []uint64
		for _, g := range got {
			gi = append(gi, uint64(g.AssetID))
		}
		c.failf(t, "%s: %s returned %d records %v, the model has %v", n.Name, what, len(got), gi, c10AssetIDs(want))
	}
	for i := range got {
		c.cmpAsset(t, n, what, got[i], want[i])
	}
	return got
}

func (c *c10Run) appCall(t *rapid.T, n *engcNode, addr basics.Address, gt basics.AppIndex, limit uint64, includeParams bool) []ledgercore.AppResourceWithIDs {
	tip := c.w.Model.Tip()
	var want []c10AppWant
	for _, w := range c10ModelApps(tip, addr) {
		if w.id > gt && uint64(len(want)) < limit {
			want = append(want, w)
		}
	}
	got, rnd, err := n.L.LookupApplications(addr, gt, limit, includeParams)
	c.st.calls++
	what := fmt.Sprintf("LookupApplications(%s, gt=%d, limit=%d, params=%v) (dbRound %d, latest %d)", engcShort(addr), gt, limit, includeParams, n.DBRound(), tip.Round)
	if err != nil {
		c.failf(t, "%s: %s failed: %v", n.Name, what, err)
	}
	if rnd != tip.Round {
		c.failf(t, "%s: %s returned round %d", n.Name, what, rnd)
	}
	if len(got) != len(want) {
		var gi []uint64
		for _, g := range got {
			gi = append(gi, uint64(g.AppID))
		}
		c.failf(t, "%s: %s returned %d records %v, the model has %v", n.Name, what, len(got), gi, c10AppIDs(want))
	}
	for i := range got {
		c.cmpApp(t, n, what, includeParams, got[i], want[i])
	}
	return got
}

// assetWalk is the REST client: ask Limit+1 after `next`; emit the first Limit; continue from the last emitted id iff
// more than Limit came back. The concatenation must be the model's list. The walk does not trust the per-call oracle:
// it applies the handler rule to whatever the ledger returns and compares only the concatenation.
func (c *c10Run) assetWalk(t *rapid.T, n *engcNode, addr basics.Address, start basics.AssetIndex, page uint64) {
	m := c.w.Model
	tip := m.Tip()
	var want []c10AssetWant
	for _, w := range c10ModelAssets(tip, addr) {
		if w.id > start {
			want = append(want, w)
		}
	}
	c.classifyIDs(c10AssetIDs(c10ModelAssets(m.At(n.DBRound()), addr)), c10AssetIDs(c10ModelAssets(tip, addr)), uint64(start), int(page))
	c.noteWalk(n, tip.Round)
	if len(want) > c.st.maxAssets {
		c.st.maxAssets = len(want)
	}
	what := fmt.Sprintf("asset listing of %s from %d with page size %d (dbRound %d, latest %d)", engcShort(addr), start, page, n.DBRound(), tip.Round)
	var got []ledgercore.AssetResourceWithIDs
	next := start
	for pages := 0; ; pages++ {
		if pages > len(want)+2 {
			c.failf(t, "%s: %s does not terminate (%d pages for %d entries)", n.Name, what, pages, len(want))
		}
		recs, _, err := n.L.LookupAssets(addr, next, page+1)
		c.st.pages++
		if err != nil {
			c.failf(t, "%s: %s: LookupAssets(gt=%d) failed: %v", n.Name, what, next, err)
		}
		if uint64(len(recs)) > page {
			recs = recs[:page]
			got = append(got, recs...)
			next = recs[len(recs)-1].AssetID
			continue
		}
		got = append(got, recs...)
		break
	}
	gi := make([]uint64, len(got))
	for i, g := range got {
		gi[i] = uint64(g.AssetID)
		if i > 0 && gi[i] <= gi[i-1] {
			c.failf(t, "%s: %s is not strictly increasing (asset %d after %d): got %v, model %v", n.Name, what, gi[i], gi[i-1], gi[:i+1], c10AssetIDs(want))
		}
	}
	if len(got) != len(want) {
		c.failf(t, "%s: %s returned %v, the model has %v", n.Name, what, gi, c10AssetIDs(want))
	}
	for i := range got {
		c.cmpAsset(t, n, what, got[i], want[i])
	}
}

func (c *c10Run) appWalk(t *rapid.T, n *engcNode, addr basics.Address, start basics.AppIndex, page uint64, includeParams bool) {
	m := c.w.Model
	tip := m.Tip()
	var want []c10AppWant
	for _, w := range c10ModelApps(tip, addr) {
		if w.id > start {
			want = append(want, w)
		}
	}
	c.classifyIDs(c10AppIDs(c10ModelApps(m.At(n.DBRound()), addr)), c10AppIDs(c10ModelApps(tip, addr)), uint64(start), int(page))
	c.noteWalk(n, tip.Round)
	if len(want) > c.st.maxApps {
		c.st.maxApps = len(want)
	}
	what := fmt.Sprintf("application listing of %s from %d with page size %d params=%v (dbRound %d, latest %d)", engcShort(addr), start, page, includeParams, n.DBRound(), tip.Round)
	var got []ledgercore.AppResourceWithIDs
	next := start
	for pages := 0; ; pages++ {
		if pages > len(want)+2 {
			c.failf(t, "%s: %s does not terminate (%d pages for %d entries)", n.Name, what, pages, len(want))
		}
		recs, _, err := n.L.LookupApplications(addr, next, page+1, includeParams)
		c.st.pages++
		if err != nil {
			c.failf(t, "%s: %s: LookupApplications(gt=%d) failed: %v", n.Name, what, next, err)
		}
		if uint64(len(recs)) > page {
			recs = recs[:page]
			got = append(got, recs...)
			next = recs[len(recs)-1].AppID
			continue
		}
		got = append(got, recs...)
		break
	}
	gi := make([]uint64, len(got))
	for i, g := range got {
		gi[i] = uint64(g.AppID)
		if i > 0 && gi[i] <= gi[i-1] {
			c.failf(t, "%s: %s is not strictly increasing (app %d after %d): got %v, model %v", n.Name, what, gi[i], gi[i-1], gi[:i+1], c10AppIDs(want))
		}
	}
	if len(got) != len(want) {
		c.failf(t, "%s: %s returned %v, the model has %v", n.Name, what, gi, c10AppIDs(want))
	}
	for i := range got {
		c.cmpApp(t, n, what, includeParams, got[i], want[i])
	}
}

func (c *c10Run) noteWalk(n *engcNode, r basics.Round) {
	c.st.walks++
	if r < c.w.Model.Latest() {
		c.st.historic++
		c.vk.Label("walk:historic-round")
	}
	if n.Reloads+n.Reopens > 0 {
		c.st.afterReload++
	}
}

// listingSubjects: the two subjects, the rich account, and one more address (drawn).
func (c *c10Run) listingSubjects(t *rapid.T) []basics.Address {
	out := append([]basics.Address{}, c.subj...)
	out = append(out, c.rich)
	all := c.w.Addrs()
	out = append(out, all[rapid.IntRange(0, len(all)-1).Draw(t, "otherSubject")])
	return out
}

func c10PickGT(t *rapid.T, ids []uint64, name string) uint64 {
	if len(ids) == 0 {
		return uint64(rapid.IntRange(0, 3).Draw(t, name+"Empty"))
	}
	x := ids[rapid.IntRange(0, len(ids)-1).Draw(t, name+"Idx")]
	switch rapid.IntRange(0, 6).Draw(t, name+"Class") {
	case 0:
		return 0
	case 1:
		return x // an existing id
	case 2:
		return x - 1 // just below an existing id (usually "between")
	case 3:
		return x + 1
	case 4:
		return ids[len(ids)-1] // the maximum: nothing remains
	case 5:
		return ids[len(ids)-1] + 2
	}
	return ids[0] - 1
}

// resourceQueries runs k drawn per-call checks and walks for assets and applications on every node.
func (c *c10Run) resourceQueries(t *rapid.T, k int) {
	tip := c.w.Model.Tip()
	for _, n := range c.w.Nodes() {
		for _, addr := range c.listingSubjects(t) {
			as := c10AssetIDs(c10ModelAssets(tip, addr))
			ps := c10AppIDs(c10ModelApps(tip, addr))
			// ids the account had on disk are interesting cursors too (deleted entries)
			asDB := c10AssetIDs(c10ModelAssets(c.w.Model.At(n.DBRound()), addr))
			psDB := c10AppIDs(c10ModelApps(c.w.Model.At(n.DBRound()), addr))
			for i := 0; i < k; i++ {
				src := as
				if len(asDB) > 0 && rapid.IntRange(0, 3).Draw(t, "gtFromDB") == 0 {
					src = asDB
				}
				gt := c10PickGT(t, src, "assetGT")
				limit := uint64(rapid.IntRange(1, len(as)+2).Draw(t, "assetLimit"))
				c.assetCall(t, n, addr, basics.AssetIndex(gt), limit)
				src = ps
				if len(psDB) > 0 && rapid.IntRange(0, 3).Draw(t, "gtFromDB") == 0 {
					src = psDB
				}
				gt = c10PickGT(t, src, "appGT")
				limit = uint64(rapid.IntRange(1, len(ps)+2).Draw(t, "appLimit"))
				c.appCall(t, n, addr, basics.AppIndex(gt), limit, rapid.Bool().Draw(t, "includeParams"))
			}
			walks := 1 + k/4
			for i := 0; i < walks; i++ {
				start := uint64(0)
				if rapid.IntRange(0, 3).Draw(t, "walkFromMiddle") == 0 {
					start = c10PickGT(t, as, "assetStart")
				}
				c.assetWalk(t, n, addr, basics.AssetIndex(start), uint64(rapid.IntRange(1, len(as)+2).Draw(t, "assetPage")))
				start = 0
				if rapid.IntRange(0, 3).Draw(t, "walkFromMiddle") == 0 {
					start = c10PickGT(t, ps, "appStart")
				}
				c.appWalk(t, n, addr, basics.AppIndex(start), uint64(rapid.IntRange(1, len(ps)+2).Draw(t, "appPage")), rapid.Bool().Draw(t, "includeParams"))
			}
		}
	}
}

// resourceSweep: for the subjects, every page size 1..N+2 from the start, and per-call exactness for every limit at a
// few cursors.
func (c *c10Run) resourceSweep(t *rapid.T) {
	tip := c.w.Model.Tip()
	for _, n := range c.w.Nodes() {
		for _, addr := range append(append([]basics.Address{}, c.subj...), c.rich) {
			as := c10AssetIDs(c10ModelAssets(tip, addr))
			ps := c10AppIDs(c10ModelApps(tip, addr))
			for _, page := range c10PageSizes(len(as)) {
				c.assetWalk(t, n, addr, 0, uint64(page))
				c.assetCall(t, n, addr, 0, uint64(page))
				if len(as) > 2 {
					c.assetCall(t, n, addr, basics.AssetIndex(as[len(as)/2]), uint64(page))
				}
			}
			for _, page := range c10PageSizes(len(ps)) {
				c.appWalk(t, n, addr, 0, uint64(page), page%2 == 0)
				c.appCall(t, n, addr, 0, uint64(page), page%2 == 1)
				if len(ps) > 2 {
					c.appCall(t, n, addr, basics.AppIndex(ps[len(ps)/2]), uint64(page), true)
				}
			}
		}
	}
	c.vk.Label("resource-sweep")
}

// ---------------------------------------------------------------------------------------------------------------
// boxes

// boxWalk is the REST client of GetApplicationBoxes at round r: pages until no next-token would be emitted.
func (c *c10Run) boxWalk(t *rapid.T, n *engcNode, r basics.Round, prefix, cursor0 string, limit, maxBytes uint64, includeValues bool) {
	m := c.w.Model
	latest := m.Latest()
	d0 := n.DBRound()
	what := fmt.Sprintf("box listing at round %d prefix %q from cursor %q limit %d maxBytes %d values=%v (dbRound %d, latest %d)", r, prefix, cursor0, limit, maxBytes,
		includeValues, d0, latest)
	var want []string
	var snap *engcSnap
	if r <= latest {
		snap = m.At(r)
		for _, k := range snap.KvKeys(prefix) {
			if k > cursor0 {
				want = append(want, k)
			}
		}
	}
	if r >= d0 && r <= latest {
		c.classifyKeys(m.At(d0).KvKeys(prefix), snap.KvKeys(prefix), cursor0, int(limit))
		c.noteWalk(n, r)
		if len(want) > c.st.maxBoxes {
			c.st.maxBoxes = len(want)
		}
	}
	var got []ledgercore.KvPairResult
	cursor := cursor0
	for pages := 0; ; pages++ {
		if pages > len(want)+2 {
			c.failf(t, "%s: %s does not terminate (%d pages for %d entries)", n.Name, what, pages, len(want))
		}
		res, rnd, more, err := n.L.LookupKvPairsByPrefix(r, prefix, cursor, limit, maxBytes, includeValues)
		c.st.pages++
		d1 := n.DBRound()
		mustErr, mustOK := c10Served(r, d0, d1, latest)
		if mustErr && err == nil {
			c.failf(t, "%s: %s answered although the round is not served", n.Name, what)
		}
		if mustOK && err != nil {
			c.failf(t, "%s: %s failed although the round is served: %v", n.Name, what, err)
		}
		if err != nil {
			c.st.refused++
			c.vk.Label("walk:refused-round")
			return
		}
		if rnd != r {
			c.failf(t, "%s: %s: page after %q reports round %d", n.Name, what, cursor, rnd)
		}
		if uint64(len(res)) > limit {
			c.failf(t, "%s: %s: page after %q has %d entries", n.Name, what, cursor, len(res))
		}
		var size uint64
		for _, kv := range res {
			size += kv.ByteSize()
		}
		if len(res) > 1 && size > maxBytes {
			c.failf(t, "%s: %s: page after %q has %d entries totalling %d bytes", n.Name, what, cursor, len(res), size)
		}
		if more && len(res) == 0 {
			c.failf(t, "%s: %s: page after %q is empty but reports more data (a client cannot make progress)", n.Name, what, cursor)
		}
		got = append(got, res...)
		if !more {
			break
		}
		if uint64(len(res)) < limit {
			c.vk.Label("walk:page-cut-by-byte-cap")
		}
		cursor = res[len(res)-1].Key
	}
	keys := make([]string, len(got))
	for i, kv := range got {
		keys[i] = kv.Key
		if !strings.HasPrefix(kv.Key, prefix) || kv.Key <= cursor0 {
			c.failf(t, "%s: %s returned key %q outside the request", n.Name, what, kv.Key)
		}
		if i > 0 && keys[i] <= keys[i-1] {
			c.failf(t, "%s: %s is not strictly increasing (%q after %q); got %q, model %q", n.Name, what, keys[i], keys[i-1], keys[:i+1], want)
		}
	}
	if len(keys) != len(want) {
		c.failf(t, "%s: %s returned %d keys %q, the model has %d: %q", n.Name, what, len(keys), keys, len(want), want)
	}
	for i := range keys {
		if keys[i] != want[i] {
			c.failf(t, "%s: %s returned %q, the model has %q", n.Name, what, keys, want)
		}
		if includeValues && !bytes.Equal(got[i].Value, snap.Kv[keys[i]]) {
			c.failf(t, "%s: %s: value of %q is %x, model %x", n.Name, what, keys[i], got[i].Value, snap.Kv[keys[i]])
		}
	}
}

// boxAppsEver: the box applications plus every other application that ever existed (few boxes from the engine mix).
func (c *c10Run) drawBoxQuery(t *rapid.T, n *engcNode) (r basics.Round, prefix, cursor string, limit, maxBytes uint64, incl bool) {
	m := c.w.Model
	latest := m.Latest()
	d := n.DBRound()
	switch rapid.IntRange(0, 9).Draw(t, "roundClass") {
	case 0:
		r = d
	case 1:
		r = d.SubSaturate(1) // refused unless d == 0
	case 2:
		r = latest + 1 // refused
	case 3, 4, 5:
		r = latest
	default:
		r = basics.Round(rapid.Uint64Range(uint64(d), uint64(latest)).Draw(t, "round"))
	}
	app := c.boxApps[rapid.IntRange(0, len(c.boxApps)-1).Draw(t, "boxApp")]
	if rapid.IntRange(0, 11).Draw(t, "strangeApp") == 0 {
		app += basics.AppIndex(rapid.IntRange(1, 3).Draw(t, "appOff")) // usually an app without boxes, or not an app
	}
	raw := c10Prefixes[rapid.IntRange(0, len(c10Prefixes)-1).Draw(t, "prefix")]
	if rapid.IntRange(0, 2).Draw(t, "allBoxes") == 0 {
		raw = ""
	}
	prefix = engcBoxKey(app, raw)
	var at *engcSnap
	if r <= latest {
		at = m.At(r)
	} else {
		at = m.Tip()
	}
	cur := at.KvKeys(prefix)
	n0 := len(cur)
	switch rapid.IntRange(0, 9).Draw(t, "cursorClass") {
	case 0, 1, 2, 3:
		cursor = ""
	case 4:
		if n0 > 0 {
			cursor = cur[rapid.IntRange(0, n0-1).Draw(t, "cursorIdx")] // an existing key
		}
	case 5:
		// a key that existed at some round but not at r (a client paging while boxes are deleted)
		var gone []string
		for _, k := range m.EverKvKeys() {
			if _, ok := at.Kv[k]; !ok && strings.HasPrefix(k, prefix) {
				gone = append(gone, k)
			}
		}
		if len(gone) > 0 {
			cursor = gone[rapid.IntRange(0, len(gone)-1).Draw(t, "goneIdx")]
		}
	case 6:
		if n0 > 0 {
			cursor = cur[rapid.IntRange(0, n0-1).Draw(t, "cursorIdx")] + "\x00" // between keys
		}
	case 7:
		if n0 > 0 {
			k := cur[rapid.IntRange(0, n0-1).Draw(t, "cursorIdx")]
			cursor = k[:len(k)-1] // between keys (or the bare prefix)
		}
	case 8:
		cursor = engcBoxKey(app+1, "") // beyond every key of the app
	case 9:
		cursor = "a" // below the whole kv range of boxes
	}
	limit = uint64(rapid.IntRange(1, n0+2).Draw(t, "limit"))
	incl = rapid.Bool().Draw(t, "includeValues")
	var total uint64
	for _, k := range cur {
		total += uint64(len(k))
		if incl {
			total += uint64(len(at.Kv[k]))
		}
	}
	switch rapid.IntRange(0, 7).Draw(t, "capClass") {
	case 0:
		maxBytes = 1
	case 1:
		maxBytes = uint64(rapid.IntRange(1, 40).Draw(t, "capSmall"))
	case 2, 3:
		maxBytes = rapid.Uint64Range(1, total+1).Draw(t, "capMid")
	case 4:
		maxBytes = total
	default:
		maxBytes = 1_000_000 // what the handler passes
	}
	return
}

func (c *c10Run) boxQueries(t *rapid.T, k int) {
	if len(c.boxApps) == 0 {
		return
	}
	for _, n := range c.w.Nodes() {
		for i := 0; i < k; i++ {
			r, prefix, cursor, limit, maxBytes, incl := c.drawBoxQuery(t, n)
			c.boxWalk(t, n, r, prefix, cursor, limit, maxBytes, incl)
		}
	}
}

// boxSweep: every box app x every served round x (all boxes and every non-trivial name prefix) x a spread of limits and caps.
func (c *c10Run) boxSweep(t *rapid.T) {
	m := c.w.Model
	latest := m.Latest()
	for _, n := range c.w.Nodes() {
		d := n.DBRound()
		for _, app := range c.boxApps {
			for r := d.SubSaturate(1); r <= latest+1; r++ {
				full := r == d || r == latest || r == (d+latest)/2 // the whole prefix grid on three rounds, a reduced one elsewhere
				for pi, raw := range c10Prefixes {
					if !full && raw != "" && raw != "a" {
						continue
					}
					prefix := engcBoxKey(app, raw)
					n0 := 0
					var total uint64
					if r <= latest {
						for _, k := range m.At(r).KvKeys(prefix) {
							n0++
							total += uint64(len(k) + len(m.At(r).Kv[k]))
						}
					}
					if n0 == 0 && pi%4 != 0 {
						continue
					}
					limits := []int{1, 2, 3, n0/2 + 1, n0, n0 + 1}
					if !full {
						limits = []int{2, n0 + 1}
					}
					for _, limit := range limits {
						if limit < 1 || (limit > 3 && raw != "" && (int(r)+limit)%3 != 0) {
							continue
						}
						c.boxWalk(t, n, r, prefix, "", uint64(limit), 1_000_000, (limit+int(r))%2 == 0)
						c.boxWalk(t, n, r, prefix, "", uint64(limit), total/3+1, true)
					}
					c.boxWalk(t, n, r, prefix, "", uint64(n0+2), 1, false)
					c.boxWalk(t, n, r, prefix, "", uint64(n0+2), 40, true)
				}
			}
		}
	}
	c.vk.Label("box-sweep")
}

// ---------------------------------------------------------------------------------------------------------------
// history

func (c *c10Run) spend(g *engcGen, a basics.Address) uint64 { return g.spendable(a) }

// setup: funds the subjects, creates assets and applications (three of them "box applications", placed - when the
// transaction counter allows - at ids ...FF, ...00, ...01 so that the box-key prefix of the first one ends in 0xff),
// opts the subjects in, and creates boxes, with commits in between so that part of this is in the tracker DB.
func (c *c10Run) setup(t *rapid.T) {
	w := c.w
	tip := w.Model.Tip()
	// the richest user pays for everything; subjects are two other users (or fresh addresses)
	c.rich = w.Users[0]
	for _, u := range w.Users {
		if tip.Acct(u).Data.MicroAlgos.Raw > tip.Acct(c.rich).Data.MicroAlgos.Raw {
			c.rich = u
		}
	}
	var pool []basics.Address
	for _, u := range w.Users {
		if u != c.rich && tip.Acct(u).Data.Status != basics.NotParticipating {
			pool = append(pool, u)
		}
	}
	pool = append(pool, w.Fresh...)
	i0 := rapid.IntRange(0, len(pool)-1).Draw(t, "subj0")
	i1 := rapid.IntRange(0, len(pool)-2).Draw(t, "subj1")
	if i1 >= i0 {
		i1++
	}
	c.subj = []basics.Address{pool[i0], pool[i1]}

	richBal := tip.Acct(c.rich).Data.MicroAlgos.Raw
	scale := 1.0
	if richBal < 400_000_000 {
		scale = float64(richBal) / 400_000_000
		c.vk.Label("setup:poor-world-scaled-down")
	}
	sc := func(n int) int {
		x := int(float64(n) * scale)
		if x < 1 {
			x = 1
		}
		return x
	}
	a, _, cl := engcPrograms()

	// ---- block 1: fund subjects, filler assets, box apps, more assets and apps
	b := w.BeginBlock(t)
	subjFund := uint64(float64(60_000_000) * scale)
	for _, s := range c.subj {
		_ = b.Submit([]string{"c10:fund"}, &txntest.Txn{Type: protocol.PaymentTx, Sender: c.rich, Receiver: s, Amount: subjFund})
	}
	counter := tip.Hdr.TxnCounter + uint64(len(c.subj))
	target := (counter + 3) | 0xff
	fillers := int(target - counter - 1)
	if fillers > sc(40) {
		fillers = rapid.IntRange(0, sc(12)).Draw(t, "fillers")
	}
	mkAsset := func(creator basics.Address, i int) *txntest.Txn {
		return &txntest.Txn{Type: protocol.AssetConfigTx, Sender: creator, AssetParams: basics.AssetParams{Total: 10, Manager: creator, UnitName: fmt.Sprintf("c%d", i%100), AssetName: "c10"}}
	}
	mkApp := func(creator basics.Address, i int) *txntest.Txn {
		return &txntest.Txn{Type: protocol.ApplicationCallTx, Sender: creator, ApprovalProgram: a, ClearStateProgram: cl,
			GlobalStateSchema: basics.StateSchema{NumByteSlice: 1}, LocalStateSchema: basics.StateSchema{NumByteSlice: uint64(i % 2)}}
	}
	for i := 0; i < fillers; i++ {
		_ = b.Submit([]string{"c10:asset-create"}, mkAsset(c.rich, i))
	}
	nBoxApps := rapid.IntRange(2, 3).Draw(t, "nBoxApps")
	for i := 0; i < nBoxApps; i++ {
		_ = b.Submit([]string{"c10:boxapp-create"}, mkApp(c.rich, 0))
	}
	creators := []basics.Address{c.subj[0], c.subj[1], c.rich, c.subj[0]}
	nAssets := rapid.IntRange(0, sc(40)).Draw(t, "moreAssets")
	nApps := rapid.IntRange(4, sc(40)+4).Draw(t, "moreApps")
	for i := 0; i < nAssets+nApps; i++ {
		cr := creators[rapid.IntRange(0, len(creators)-1).Draw(t, "creator")]
		// interleave assets and applications so that their ids alternate
		if i%2 == 0 && i/2 < nAssets || i/2 >= nApps {
			_ = b.Submit([]string{"c10:asset-create"}, mkAsset(cr, i))
		} else {
			_ = b.Submit([]string{"c10:app-create"}, mkApp(cr, i))
		}
	}
	info := b.Finish(t)
	// the box apps are the first nBoxApps applications created by rich in this block (in id order)
	post := info.Post
	for _, id := range post.CreatableIDs(basics.AppCreatable) {
		if cr, _ := post.Creator(id, basics.AppCreatable); cr == c.rich && len(c.boxApps) < nBoxApps {
			if _, existed := info.Pre.Creatables[id]; !existed {
				c.boxApps = append(c.boxApps, basics.AppIndex(id))
			}
		}
	}
	for _, app := range c.boxApps {
		if uint64(app)&0xff == 0xff {
			c.vk.Label("setup:box-app-id-ends-0xff")
		}
	}

	// ---- block 2: fund the box apps; subjects opt in to drawn subsets of assets and applications
	b = w.BeginBlock(t)
	for _, app := range c.boxApps {
		_ = b.Submit([]string{"c10:boxapp-fund"}, &txntest.Txn{Type: protocol.PaymentTx, Sender: c.rich, Receiver: app.Address(), Amount: uint64(float64(25_000_000) * scale)})
	}
	s := b.Gen.s
	for _, sj := range append(append([]basics.Address{}, c.subj...), c.rich) {
		p := rapid.IntRange(1, 9).Draw(t, "optinDensity") // tenths
		if sj == c.rich {
			p = rapid.IntRange(0, 3).Draw(t, "optinDensityRich")
		}
		for _, id := range s.CreatableIDs(basics.AssetCreatable) {
			if _, held := s.Acct(sj).Assets[basics.AssetIndex(id)]; !held && rapid.IntRange(0, 9).Draw(t, "optin") < p {
				_ = b.Submit([]string{"c10:asset-optin"}, &txntest.Txn{Type: protocol.AssetTransferTx, Sender: sj, XferAsset: basics.AssetIndex(id), AssetReceiver: sj})
			}
		}
		for _, id := range s.CreatableIDs(basics.AppCreatable) {
			if _, in := s.Acct(sj).AppLocals[basics.AppIndex(id)]; !in && rapid.IntRange(0, 9).Draw(t, "optin") < p {
				_ = b.Submit([]string{"c10:app-optin"}, &txntest.Txn{Type: protocol.ApplicationCallTx, Sender: sj, ApplicationID: basics.AppIndex(id), OnCompletion: transactions.OptInOC})
			}
		}
	}
	b.Finish(t)

	// ---- blocks 3..: boxes, in two or three instalments with optional commits in between
	counts := []int{rapid.IntRange(5, sc(55)+5).Draw(t, "boxes0"), rapid.IntRange(3, sc(22)+3).Draw(t, "boxes1"), rapid.IntRange(0, 8).Draw(t, "boxes2")}
	rounds := rapid.IntRange(2, 3).Draw(t, "boxInstalments")
	for inst := 0; inst < rounds; inst++ {
		b = w.BeginBlock(t)
		planned := map[string]bool{}
		for ai, app := range c.boxApps {
			for i := 0; i < (counts[ai]+rounds-1)/rounds; i++ {
				c.opBoxCreate(t, b, app, planned)
			}
		}
		b.Finish(t)
		if rapid.IntRange(0, 2).Draw(t, "commitDuringSetup") == 0 {
			c.pickNode(t).OpCommit()
		}
	}
}

func (c *c10Run) pickNode(t *rapid.T) *engcNode {
	ns := c.w.Nodes()
	return ns[rapid.IntRange(0, len(ns)-1).Draw(t, "node")]
}

func (c *c10Run) boxCall(app basics.AppIndex, name string, extraRefs int, args ...[]byte) *txntest.Txn {
	tx := &txntest.Txn{Type: protocol.ApplicationCallTx, Sender: c.rich, ApplicationID: app, ApplicationArgs: args,
		Boxes: []transactions.BoxRef{{Index: 0, Name: []byte(name)}}}
	for i := 0; i < extraRefs; i++ {
		tx.Boxes = append(tx.Boxes, transactions.BoxRef{})
	}
	return tx
}

func (c *c10Run) opBoxCreate(t *rapid.T, b *engcBlockBuilder, app basics.AppIndex, planned map[string]bool) bool {
	s := b.Gen.s
	var free []string
	for _, nm := range c10BoxNames {
		k := engcBoxKey(app, nm)
		if _, ok := s.Kv[k]; !ok && !planned[k] {
			free = append(free, nm)
		}
	}
	if len(free) == 0 {
		return false
	}
	// prefer the adversarial names (front of the pool)
	idx := rapid.IntRange(0, len(free)-1).Draw(t, "boxName")
	if rapid.Bool().Draw(t, "preferFront") {
		idx = idx / 3
	}
	nm := free[idx]
	planned[engcBoxKey(app, nm)] = true
	size := rapid.SampledFrom([]uint64{0, 1, 1, 4, 8, 8, 24, 64, 300, 900}).Draw(t, "boxSize")
	extra := 0
	if size > 200 {
		extra = 1
	}
	return b.Submit([]string{"c10:box-create"}, c.boxCall(app, nm, extra, []byte("bcreate"), []byte(nm), engcItob(size))) == nil
}

// oneOp submits one drawn churn operation chosen from the model state at block start; `planned` avoids conflicting
// operations on the same entity inside one block. bias: "del" favours removals, "add" creations.
func (c *c10Run) oneOp(t *rapid.T, b *engcBlockBuilder, planned map[string]bool, bias string) {
	s := b.Gen.s
	g := b.Gen
	ops := []string{"a-optin", "a-optin", "a-optout", "a-optout", "a-create", "a-destroy", "a-send", "p-optin", "p-optin", "p-out", "p-out", "p-create", "p-delete", "p-update",
		"p-lput", "b-create", "b-create", "b-create", "b-del", "b-del", "b-resize", "b-put"}
	switch bias {
	case "del":
		ops = append(ops, "a-optout", "a-optout", "a-optout", "a-destroy", "p-out", "p-out", "p-out", "p-delete", "b-del", "b-del", "b-del", "b-del")
	case "add":
		ops = append(ops, "a-optin", "a-optin", "a-create", "a-create", "p-optin", "p-optin", "p-create", "p-create", "b-create", "b-create", "b-create")
	}
	op := ops[rapid.IntRange(0, len(ops)-1).Draw(t, "op")]
	sj := c.subj[rapid.IntRange(0, len(c.subj)-1).Draw(t, "subject")]
	if rapid.IntRange(0, 7).Draw(t, "richSubject") == 0 {
		sj = c.rich
	}
	claim := func(kind string, who basics.Address, id uint64) bool {
		k := fmt.Sprintf("%s/%s/%d", kind, engcShort(who), id)
		if planned[k] {
			return false
		}
		planned[k] = true
		return true
	}
	pickID := func(ids []uint64, name string) (uint64, bool) {
		if len(ids) == 0 {
			return 0, false
		}
		return ids[rapid.IntRange(0, len(ids)-1).Draw(t, name)], true
	}
	isBoxApp := func(id basics.AppIndex) bool {
		for _, a := range c.boxApps {
			if a == id {
				return true
			}
		}
		return false
	}
	a, a2, cl := engcPrograms()
	switch op {
	case "a-optin":
		var cands []uint64
		for _, id := range s.CreatableIDs(basics.AssetCreatable) {
			if _, held := s.Acct(sj).Assets[basics.AssetIndex(id)]; !held {
				cands = append(cands, uint64(id))
			}
		}
		if id, ok := pickID(cands, "asset"); ok && claim("a", sj, id) && g.spendable(sj) > 200_000 {
			_ = b.Submit([]string{"c10:asset-optin"}, &txntest.Txn{Type: protocol.AssetTransferTx, Sender: sj, XferAsset: basics.AssetIndex(id), AssetReceiver: sj})
		}
	case "a-optout":
		var cands []uint64
		for id := range s.Acct(sj).Assets {
			if _, mine := s.Acct(sj).AssetParams[id]; !mine {
				cands = append(cands, uint64(id))
			}
		}
		sort.Slice(cands, func(i, j int) bool { return cands[i] < cands[j] })
		if id, ok := pickID(cands, "asset"); ok && claim("a", sj, id) {
			to, exists := s.Creator(basics.CreatableIndex(id), basics.AssetCreatable)
			if !exists {
				to = c.rich
			}
			if exists && !claim("a", to, id) {
				return
			}
			_ = b.Submit([]string{"c10:asset-optout"}, &txntest.Txn{Type: protocol.AssetTransferTx, Sender: sj, XferAsset: basics.AssetIndex(id), AssetCloseTo: to})
		}
	case "a-create":
		if g.spendable(sj) > 300_000 {
			_ = b.Submit([]string{"c10:asset-create"}, &txntest.Txn{Type: protocol.AssetConfigTx, Sender: sj,
				AssetParams: basics.AssetParams{Total: 10, Manager: sj, UnitName: "cc", AssetName: "c10"}})
		}
	case "a-destroy":
		var cands []uint64
		for _, id := range s.CreatableIDs(basics.AssetCreatable) {
			cr, _ := s.Creator(id, basics.AssetCreatable)
			p := s.Acct(cr).AssetParams[basics.AssetIndex(id)]
			if p.Manager == cr && s.Acct(cr).Assets[basics.AssetIndex(id)].Amount == p.Total && g.spendable(cr) > 0 {
				cands = append(cands, uint64(id))
			}
		}
		if id, ok := pickID(cands, "asset"); ok {
			cr, _ := s.Creator(basics.CreatableIndex(id), basics.AssetCreatable)
			if claim("a", cr, id) {
				_ = b.Submit([]string{"c10:asset-destroy"}, &txntest.Txn{Type: protocol.AssetConfigTx, Sender: cr, ConfigAsset: basics.AssetIndex(id)})
			}
		}
	case "a-send":
		// creator -> subject (1 unit) or subject -> creator (everything back): changes holdings that may be on disk
		var cands []uint64
		for id, h := range s.Acct(sj).Assets {
			cr, ok := s.Creator(basics.CreatableIndex(id), basics.AssetCreatable)
			if ok && cr != sj && (h.Amount > 0 || s.Acct(cr).Assets[id].Amount > 0) && !h.Frozen {
				cands = append(cands, uint64(id))
			}
		}
		sort.Slice(cands, func(i, j int) bool { return cands[i] < cands[j] })
		if id, ok := pickID(cands, "asset"); ok {
			cr, _ := s.Creator(basics.CreatableIndex(id), basics.AssetCreatable)
			if !claim("a", sj, id) || !claim("a", cr, id) {
				return
			}
			if h := s.Acct(sj).Assets[basics.AssetIndex(id)]; h.Amount > 0 {
				_ = b.Submit([]string{"c10:asset-send"}, &txntest.Txn{Type: protocol.AssetTransferTx, Sender: sj, XferAsset: basics.AssetIndex(id), AssetReceiver: cr, AssetAmount: h.Amount})
			} else if g.spendable(cr) > 0 {
				_ = b.Submit([]string{"c10:asset-send"}, &txntest.Txn{Type: protocol.AssetTransferTx, Sender: cr, XferAsset: basics.AssetIndex(id), AssetReceiver: sj, AssetAmount: 1})
			}
		}
	case "p-optin":
		var cands []uint64
		for _, id := range s.CreatableIDs(basics.AppCreatable) {
			if _, in := s.Acct(sj).AppLocals[basics.AppIndex(id)]; !in {
				cands = append(cands, uint64(id))
			}
		}
		if id, ok := pickID(cands, "app"); ok && claim("p", sj, id) && g.spendable(sj) > 300_000 {
			_ = b.Submit([]string{"c10:app-optin"}, &txntest.Txn{Type: protocol.ApplicationCallTx, Sender: sj, ApplicationID: basics.AppIndex(id), OnCompletion: transactions.OptInOC})
		}
	case "p-out":
		var cands []uint64
		for id := range s.Acct(sj).AppLocals {
			cands = append(cands, uint64(id))
		}
		sort.Slice(cands, func(i, j int) bool { return cands[i] < cands[j] })
		if id, ok := pickID(cands, "app"); ok && claim("p", sj, id) && g.spendable(sj) > 0 {
			oc := transactions.ClearStateOC
			if _, exists := s.Creator(basics.CreatableIndex(id), basics.AppCreatable); exists && rapid.Bool().Draw(t, "closeOut") {
				oc = transactions.CloseOutOC
			}
			_ = b.Submit([]string{"c10:app-optout"}, &txntest.Txn{Type: protocol.ApplicationCallTx, Sender: sj, ApplicationID: basics.AppIndex(id), OnCompletion: oc})
		}
	case "p-create":
		if g.spendable(sj) > 500_000 {
			_ = b.Submit([]string{"c10:app-create"}, &txntest.Txn{Type: protocol.ApplicationCallTx, Sender: sj, ApprovalProgram: a, ClearStateProgram: cl,
				GlobalStateSchema: basics.StateSchema{NumByteSlice: 1}, LocalStateSchema: basics.StateSchema{NumByteSlice: uint64(rapid.IntRange(0, 1).Draw(t, "lBytes"))}})
		}
	case "p-delete", "p-update":
		var cands []uint64
		for _, id := range s.CreatableIDs(basics.AppCreatable) {
			cr, _ := s.Creator(id, basics.AppCreatable)
			if g.spendable(cr) == 0 {
				continue
			}
			if op == "p-delete" && isBoxApp(basics.AppIndex(id)) && rapid.IntRange(0, 29).Draw(t, "deleteBoxApp") != 0 {
				continue
			}
			cands = append(cands, uint64(id))
		}
		if id, ok := pickID(cands, "app"); ok {
			cr, _ := s.Creator(basics.CreatableIndex(id), basics.AppCreatable)
			if !claim("p", cr, id) {
				return
			}
			tx := &txntest.Txn{Type: protocol.ApplicationCallTx, Sender: cr, ApplicationID: basics.AppIndex(id), OnCompletion: transactions.DeleteApplicationOC}
			if op == "p-update" {
				tx.OnCompletion = transactions.UpdateApplicationOC
				tx.ApprovalProgram, tx.ClearStateProgram = a2, engcProgs.clearB
				if bytes.Equal(s.Acct(cr).AppParams[basics.AppIndex(id)].ApprovalProgram, a2) {
					tx.ApprovalProgram, tx.ClearStateProgram = a, cl
				}
			}
			_ = b.Submit([]string{"c10:app-" + op[2:]}, tx)
		}
	case "p-lput":
		var cands []uint64
		for id := range s.Acct(sj).AppLocals {
			if cr, ok := s.Creator(basics.CreatableIndex(id), basics.AppCreatable); ok && s.Acct(cr).AppParams[id].LocalStateSchema.NumByteSlice > 0 {
				cands = append(cands, uint64(id))
			}
		}
		sort.Slice(cands, func(i, j int) bool { return cands[i] < cands[j] })
		if id, ok := pickID(cands, "app"); ok && claim("p", sj, id) && g.spendable(sj) > 0 {
			_ = b.Submit([]string{"c10:app-lput"}, &txntest.Txn{Type: protocol.ApplicationCallTx, Sender: sj, ApplicationID: basics.AppIndex(id),
				ApplicationArgs: [][]byte{[]byte("lput"), []byte("k"), []byte(fmt.Sprintf("v%d", rapid.IntRange(0, 99).Draw(t, "val")))}})
		}
	case "b-create":
		if len(c.boxApps) > 0 {
			c.opBoxCreate(t, b, c.boxApps[rapid.IntRange(0, len(c.boxApps)-1).Draw(t, "boxApp")], planned)
		}
	case "b-del", "b-resize", "b-put":
		if len(c.boxApps) == 0 {
			return
		}
		app := c.boxApps[rapid.IntRange(0, len(c.boxApps)-1).Draw(t, "boxApp")]
		if _, live := s.Creator(basics.CreatableIndex(app), basics.AppCreatable); !live {
			return
		}
		var cands []string
		for _, k := range s.KvKeys(engcBoxKey(app, "")) {
			if !planned[k] {
				cands = append(cands, k)
			}
		}
		if len(cands) == 0 {
			return
		}
		k := cands[rapid.IntRange(0, len(cands)-1).Draw(t, "box")]
		planned[k] = true
		nm := k[len(engcBoxKey(app, "")):]
		extra := 0
		if len(s.Kv[k]) > 200 {
			extra = 1
		}
		switch op {
		case "b-del":
			_ = b.Submit([]string{"c10:box-del"}, c.boxCall(app, nm, extra, []byte("bdel"), []byte(nm)))
		case "b-resize":
			size := rapid.SampledFrom([]uint64{0, 1, 4, 8, 32, 200, 700}).Draw(t, "boxSize")
			_ = b.Submit([]string{"c10:box-resize"}, c.boxCall(app, nm, 1, []byte("bresize"), []byte(nm), engcItob(size)))
		case "b-put":
			v := bytes.Repeat([]byte{byte('0' + rapid.IntRange(0, 9).Draw(t, "fill"))}, len(s.Kv[k]))
			if len(v) == 0 {
				return
			}
			_ = b.Submit([]string{"c10:box-put"}, c.boxCall(app, nm, extra, []byte("bput"), []byte(nm), v))
		}
	}
}

func (c *c10Run) churnBlock(t *rapid.T, bias string) {
	b := c.w.BeginBlock(t)
	planned := map[string]bool{}
	nops := rapid.IntRange(1, 10).Draw(t, "nops")
	for i := 0; i < nops; i++ {
		c.oneOp(t, b, planned, bias)
	}
	b.Finish(t)
}

func c10RunCase(tb *testing.T, t *rapid.T, vk *vkCtx, shadow bool) {
	w := engcNewWorld(tb, t, engcOpts{Label: vk.Label, Shadow: shadow, MaxGroupsPerBlock: 4})
	defer w.Close()
	c := &c10Run{w: w, vk: vk}
	c.setup(t)
	opFail := func(t *rapid.T, what string, err error) {
		if err != nil {
			c.failf(t, "%s failed: %v", what, err)
		}
	}
	churn := func(t *rapid.T) {
		c.churnBlock(t, rapid.SampledFrom([]string{"", "", "del", "del", "add"}).Draw(t, "bias"))
	}
	actions := map[string]func(*rapid.T){
		"Churn1": churn, "Churn2": churn, "Churn3": churn, "Churn4": churn, "Churn5": churn,
		"EngineBlock": func(t *rapid.T) { w.StepBlock(t, -1) },
		"Burst": func(t *rapid.T) {
			for i, k := 0, rapid.IntRange(2, 4).Draw(t, "burst"); i < k; i++ {
				churn(t)
			}
		},
		"Commit":  func(t *rapid.T) { c.pickNode(t).OpCommit(); vk.Label("op:commit") },
		"Commit2": func(t *rapid.T) { c.pickNode(t).OpCommit(); vk.Label("op:commit") },
		"Park": func(t *rapid.T) {
			n := c.pickNode(t)
			n.OpSetParked(!n.parked)
			vk.Label("op:toggle-park")
		},
		"Reload": func(t *rapid.T) {
			n := c.pickNode(t)
			switch {
			case !n.ReloadBudgetLeft():
				n.OpPruneCaches()
				vk.Label("op:prune-caches")
			case n.OnDisk && rapid.Bool().Draw(t, "reopen"):
				opFail(t, "close+OpenLedger", n.OpReopen())
				vk.Label("op:reopen")
			default:
				opFail(t, "reloadLedger", n.OpReload())
				vk.Label("op:reload")
			}
		},
		"Queries": func(t *rapid.T) {
			c.resourceQueries(t, 6)
			c.boxQueries(t, 24)
		},
		"": func(t *rapid.T) {
			c.resourceQueries(t, 1)
			c.boxQueries(t, 5)
		},
	}
	t.Repeat(actions)
	// finale: make sure the history ends with a populated split (something committed, then removals and creations
	// that live only in the deltas), and ask everything
	c.pickNode(t).OpCommit()
	c.churnBlock(t, "del")
	if rapid.Bool().Draw(t, "secondFinalChurn") {
		c.churnBlock(t, "add")
	}
	c.resourceQueries(t, 4)
	c.boxQueries(t, 20)
	c.resourceSweep(t)
	c.boxSweep(t)

	st := c.st
	nontrivial := st.nearDeleted > 0 || st.createdBeyondDBPage > 0
	vk.Case(nontrivial, strings.Join(w.History, "|"))
	vk.Labelf("history-blocks:%s", c10Bucket(int(w.Model.Latest())))
	vk.Labelf("subject-assets-max:%s", c10Bucket(st.maxAssets))
	vk.Labelf("subject-apps-max:%s", c10Bucket(st.maxApps))
	vk.Labelf("app-boxes-max:%s", c10Bucket(st.maxBoxes))
	vk.Labelf("node-disk:%v", w.Node.OnDisk)
	vk.Labelf("shadow:%v", shadow)
	if st.nearDeleted > 0 {
		vk.Label("case:page-boundary-next-to-delta-deleted-db-entry")
	}
	if st.createdBeyondDBPage > 0 {
		vk.Label("case:delta-only-creation-beyond-db-page")
	}
	if st.afterReload > 0 {
		vk.Label("case:walked-after-reload")
	}
	if st.historic > 0 {
		vk.Label("case:walked-historic-round")
	}
	vk.Add("walks", int64(st.walks))
	vk.Add("pages", int64(st.pages))
	vk.Add("single_calls", int64(st.calls))
	vk.Add("walks_boundary_next_to_deleted", int64(st.nearDeleted))
	vk.Add("walks_creation_beyond_db_page", int64(st.createdBeyondDBPage))
	vk.Add("walks_refused_round", int64(st.refused))
	if vk.WantSample(nontrivial) {
		vk.Sample(nontrivial, map[string]any{"history": w.History, "walks": st.walks, "pages": st.pages, "calls": st.calls, "nearDeleted": st.nearDeleted,
			"createdBeyondDBPage": st.createdBeyondDBPage, "maxAssets": st.maxAssets, "maxApps": st.maxApps, "maxBoxes": st.maxBoxes,
			"accepted_groups": w.Accepted, "rejected_groups": w.Rejected})
	}
}

// c10PageSizes: every page size 1..n+2 for small n, a spread that keeps 1,2,3 and n-1..n+2 otherwise.
func c10PageSizes(n int) []int {
	var out []int
	for p := 1; p <= n+2; p++ {
		if n <= 16 || p <= 3 || p >= n-1 || p%5 == 0 {
			out = append(out, p)
		}
	}
	return out
}

func c10Bucket(n int) string {
	switch {
	case n < 5:
		return "<5"
	case n < 15:
		return "5-14"
	case n < 30:
		return "15-29"
	case n < 60:
		return "30-59"
	}
	return ">=60"
}

const c10Rule = "rapid state machine over the real ledger: a setup (two subject accounts opted in to / creators of 5-60 assets and applications with interleaved ids; 2-3 box applications " +
	"- ids placed at ..FF/..00/..01 when possible - holding 5-60 boxes with adversarial names: shared prefixes, name+1 byte, 0x00/0xff bytes, sizes 0-900) followed by churn blocks " +
	"(opt-in/out, asset create/destroy/send, app create/delete/update/opt-in/out/local put, box create/delete/resize/put), engine blocks, forced commits, park, reload/reopen, cache prune; " +
	"queries: LookupAssets/LookupApplications per call (gt in {0, existing, deleted, between, max}, limit 1..N+2) and REST-client walks with the handlers' Limit+1 / next-token rule; " +
	"LookupKvPairsByPrefix walks (next-token iff moreData && non-empty page) at every served round and just outside, prefixes (all, partial names, no match), cursors (empty, existing, deleted, between, outside), " +
	"limits 1..N+2, byte caps 1..total and the handler's 1e6, with and without values; everything compared with the reference fold at the round. " +
	"Non-trivial: some walk had a page boundary adjacent to an entry deleted in the in-memory deltas but present in the tracker DB, or a delta-only creation beyond the last id/key of the DB page. " +
	"Distinct: by the block/operation trace."

func TestVerif_C10_Paging(t *testing.T) {
	vk := vkBegin(t, "C10")
	vk.Rule(c10Rule)
	vk.Assume("the StateDelta returned by Ledger.Validate describes the block correctly; unsigned transactions with a mocked signature cache; box limit/maxBytes are best-effort (only page <= limit, page <= cap beyond the first item, moreData=false => exhausted, progress)")
	rapid.Check(t, func(rt *rapid.T) {
		c10RunCase(t, rt, vk, rapid.IntRange(0, 3).Draw(rt, "shadow") == 0)
	})
}
