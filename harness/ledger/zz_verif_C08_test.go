package ledger

// C08 — Ledger queries answer from the block history, not from flush timing.
//
// Oracle: the Engine C reference fold. Every lookup the ledger serves at round r must equal the model state at r;
// a round that is not served must be an error. The verdict rule is schedule independent (see c08Served).

import (
	"bytes"
	"fmt"
	"math"
	"sort"
	"strings"
	"testing"

	"github.com/algorand/msgp/msgp"
	"pgregory.net/rapid"

	"github.com/algorand/go-algorand/config"
	"github.com/algorand/go-algorand/data/basics"
	"github.com/algorand/go-algorand/data/transactions"
	"github.com/algorand/go-algorand/data/txntest"
	"github.com/algorand/go-algorand/ledger/ledgercore"
	"github.com/algorand/go-algorand/protocol"
)

type c08Stats struct {
	queries       int
	crossed       int // answered while an older version was on disk and a newer one in memory (either side of the split)
	diskUnderMem  int // answer had to come from disk although memory held newer versions of the entity
	memOverDisk   int // answer came from memory while disk held an older, non-empty version
	afterReload   int // queries issued after a reload/reopen
	recreated     int // queries on an entity that was deleted and later recreated
	refused       int // rounds correctly refused
	sawReloadFlag bool
}

type c08Checker struct {
	w  *engcWorld
	vk *vkCtx
	st c08Stats
}

func (c *c08Checker) failf(t *rapid.T, format string, args ...any) {
	h := c.w.History
	if len(h) > 60 {
		h = h[len(h)-60:]
	}
	t.Fatalf("C08 VIOLATION: %s\n--- history (tail) ---\n%s", fmt.Sprintf(format, args...), strings.Join(h, "\n"))
}

// c08Served decides what the ledger may answer for round r given the tracker DB round observed before (d0) and
// after (d1) the call: mustErr (r is not served), mustOK (r is served), or either (a commit moved the DB round
// across r during the call; cannot happen after Quiesce but the rule does not rely on that).
func c08Served(r, d0, d1, latest basics.Round) (mustErr, mustOK bool) {
	if r > latest || r < d0 {
		return true, false
	}
	if r >= d1 {
		return false, true
	}
	return false, false
}

type c08Entity struct {
	kind  string // "acct" | "asset" | "app" | "kv" | "prefix" | "creator"
	addr  basics.Address
	cidx  basics.CreatableIndex
	ctype basics.CreatableType
	key   string
	max   uint64
}

func (e c08Entity) String() string {
	switch e.kind {
	case "acct":
		return "acct " + engcShort(e.addr)
	case "asset", "app":
		return fmt.Sprintf("%s %s/%d", e.kind, engcShort(e.addr), e.cidx)
	case "kv":
		return fmt.Sprintf("kv %q", e.key)
	case "prefix":
		return fmt.Sprintf("prefix %q max=%d", e.key, e.max)
	}
	return fmt.Sprintf("creator %d type %d", e.cidx, e.ctype)
}

func (e c08Entity) touched(c *engcChanges) bool {
	switch e.kind {
	case "acct":
		return c.Accts[e.addr]
	case "asset":
		return c.Assets[ledgercore.AccountAsset{Address: e.addr, Asset: basics.AssetIndex(e.cidx)}]
	case "app":
		return c.Apps[ledgercore.AccountApp{Address: e.addr, App: basics.AppIndex(e.cidx)}]
	case "kv":
		return c.Kv[e.key]
	case "prefix":
		for k := range c.Kv {
			if strings.HasPrefix(k, e.key) {
				return true
			}
		}
		return false
	}
	return c.Creatables[e.cidx]
}

func (e c08Entity) nonEmptyAt(s *engcSnap) bool {
	switch e.kind {
	case "acct":
		return !s.Acct(e.addr).Data.IsZero()
	case "asset":
		a := s.Acct(e.addr)
		_, h := a.Assets[basics.AssetIndex(e.cidx)]
		_, p := a.AssetParams[basics.AssetIndex(e.cidx)]
		return h || p
	case "app":
		a := s.Acct(e.addr)
		_, h := a.AppLocals[basics.AppIndex(e.cidx)]
		_, p := a.AppParams[basics.AppIndex(e.cidx)]
		return h || p
	case "kv":
		_, ok := s.Kv[e.key]
		return ok
	case "prefix":
		return len(s.KvKeys(e.key)) > 0
	}
	_, ok := s.Creatables[e.cidx]
	return ok
}

// classify measures where the answer for (e, r) has to come from, for the evidence labels / non-trivial rule.
func (c *c08Checker) classify(n *engcNode, e c08Entity, r, d basics.Round) {
	m := c.w.Model
	latest := m.Latest()
	if r < d || r > latest {
		return
	}
	c.st.queries++
	inMem := m.LastChange(d, r, e.touched) > 0
	newer := m.LastChange(r, latest, e.touched) > 0
	onDisk := e.nonEmptyAt(m.At(d))
	switch {
	case inMem && onDisk:
		c.st.memOverDisk++
		c.st.crossed++
		c.vk.Label("q:memory-over-older-disk-version")
	case !inMem && newer:
		c.st.diskUnderMem++
		c.st.crossed++
		c.vk.Label("q:disk-under-newer-memory-version")
	case inMem:
		c.vk.Label("q:memory-only")
	default:
		c.vk.Label("q:disk-or-cache-only")
	}
	if n.Reloads+n.Reopens > 0 {
		c.st.afterReload++
	}
	// deleted and recreated: empty at some earlier round after having been non-empty, and non-empty at r
	if e.nonEmptyAt(m.At(r)) {
		seenFull := false
		for q := basics.Round(0); q < r; q++ {
			ne := e.nonEmptyAt(m.At(q))
			if ne {
				seenFull = true
			} else if seenFull {
				c.st.recreated++
				c.vk.Label("q:deleted-then-recreated")
				break
			}
		}
	}
}

func c08Enc[T any, P interface {
	*T
	msgp.Marshaler
}](v *T) []byte {
	if v == nil {
		return nil
	}
	return protocol.Encode(P(v))
}

// query runs every lookup that applies to entity e at round r on node n and compares with the model.
func (c *c08Checker) query(t *rapid.T, n *engcNode, e c08Entity, r basics.Round) {
	l := n.L
	m := c.w.Model
	latest := m.Latest()
	if l.Latest() != latest {
		c.failf(t, "%s: ledger latest %d, %d blocks were added", n.Name, l.Latest(), latest)
	}
	d0 := n.DBRound()
	var want *engcSnap
	if r <= latest {
		want = m.At(r)
	}
	verdict := func(what string, err error) (compare bool) {
		d1 := n.DBRound()
		mustErr, mustOK := c08Served(r, d0, d1, latest)
		if mustErr && err == nil {
			c.failf(t, "%s: %s at round %d answered although the round is not served (dbRound %d, latest %d)", n.Name, what, r, d0, latest)
		}
		if mustOK && err != nil {
			c.failf(t, "%s: %s at round %d failed although the round is served (dbRound %d..%d, latest %d): %v", n.Name, what, r, d0, d1, latest, err)
		}
		if err != nil {
			c.st.refused++
			c.vk.Label("q:refused-round")
		}
		return err == nil
	}
	c.classify(n, e, r, d0)
	switch e.kind {
	case "acct":
		got, vt, err := l.LookupWithoutRewards(r, e.addr)
		if verdict("LookupWithoutRewards "+e.String(), err) {
			wd := want.Acct(e.addr).Data
			if got != wd {
				c.failf(t, "%s: LookupWithoutRewards(%d, %v) = %+v, model %+v (dbRound %d)", n.Name, r, e.addr, got, wd, d0)
			}
			c.checkValidThrough(t, n, "LookupWithoutRewards", e.addr, r, vt)
		}
		got2, vt2, wo, err := l.LookupAccount(r, e.addr)
		if verdict("LookupAccount "+e.String(), err) {
			wd := want.Acct(e.addr).Data
			ww := engcWithRewards(wd, want.RewardsLevel, want.Proto.RewardUnit)
			if got2 != ww || wo != wd.MicroAlgos {
				c.failf(t, "%s: LookupAccount(%d, %v) = %+v (withoutRewards %d), model %+v (withoutRewards %d, level %d, dbRound %d)",
					n.Name, r, e.addr, got2, wo.Raw, ww, wd.MicroAlgos.Raw, want.RewardsLevel, d0)
			}
			c.checkValidThrough(t, n, "LookupAccount", e.addr, r, vt2)
		}
		if r == latest {
			full, rnd, wo, err := l.LookupLatest(e.addr)
			if err != nil {
				c.failf(t, "%s: LookupLatest(%v) failed: %v", n.Name, e.addr, err)
			}
			tip := m.Tip()
			wa := tip.Acct(e.addr)
			wf := wa.Full()
			ledgercore.AssignAccountData(&wf, engcWithRewards(wa.Data, tip.RewardsLevel, tip.Proto.RewardUnit))
			if rnd != latest || wo != wa.Data.MicroAlgos || !bytes.Equal(protocol.Encode(&full), protocol.Encode(&wf)) {
				c.failf(t, "%s: LookupLatest(%v) = round %d withoutRewards %d %+v; model round %d withoutRewards %d %+v", n.Name, e.addr, rnd, wo.Raw, full,
					latest, wa.Data.MicroAlgos.Raw, wf)
			}
			c.vk.Add("lookups", 1)
		}
		c.vk.Add("lookups", 2)
	case "asset":
		got, err := l.LookupAsset(r, e.addr, basics.AssetIndex(e.cidx))
		if verdict("LookupAsset "+e.String(), err) {
			a := want.Acct(e.addr)
			var wh *basics.AssetHolding
			var wp *basics.AssetParams
			if h, ok := a.Assets[basics.AssetIndex(e.cidx)]; ok {
				wh = &h
			}
			if p, ok := a.AssetParams[basics.AssetIndex(e.cidx)]; ok {
				wp = &p
			}
			if !bytes.Equal(c08Enc(got.AssetHolding), c08Enc(wh)) || (got.AssetHolding == nil) != (wh == nil) ||
				!bytes.Equal(c08Enc(got.AssetParams), c08Enc(wp)) || (got.AssetParams == nil) != (wp == nil) {
				c.failf(t, "%s: LookupAsset(%d, %v, %d) = holding %+v params %+v; model holding %+v params %+v (dbRound %d)", n.Name, r, e.addr, e.cidx,
					got.AssetHolding, got.AssetParams, wh, wp, d0)
			}
		}
		c.vk.Add("lookups", 1)
	case "app":
		got, err := l.LookupApplication(r, e.addr, basics.AppIndex(e.cidx))
		if verdict("LookupApplication "+e.String(), err) {
			a := want.Acct(e.addr)
			var wl *basics.AppLocalState
			var wp *basics.AppParams
			if h, ok := a.AppLocals[basics.AppIndex(e.cidx)]; ok {
				wl = &h
			}
			if p, ok := a.AppParams[basics.AppIndex(e.cidx)]; ok {
				wp = &p
			}
			if !bytes.Equal(c08Enc(got.AppLocalState), c08Enc(wl)) || (got.AppLocalState == nil) != (wl == nil) ||
				!bytes.Equal(c08Enc(got.AppParams), c08Enc(wp)) || (got.AppParams == nil) != (wp == nil) {
				c.failf(t, "%s: LookupApplication(%d, %v, %d) = local %+v params %+v; model local %+v params %+v (dbRound %d)", n.Name, r, e.addr, e.cidx,
					got.AppLocalState, got.AppParams, wl, wp, d0)
			}
		}
		c.vk.Add("lookups", 1)
	case "kv":
		got, err := l.LookupKv(r, e.key)
		if verdict("LookupKv "+e.String(), err) {
			wv, ok := want.Kv[e.key]
			if (got != nil) != ok || !bytes.Equal(got, wv) {
				c.failf(t, "%s: LookupKv(%d, %q) = %x (present %v); model %x (present %v) (dbRound %d)", n.Name, r, e.key, got, got != nil, wv, ok, d0)
			}
		}
		c.vk.Add("lookups", 1)
	case "prefix":
		// maxKeyNum == 0 is documented in ledger.go as "loads all keys"; the REST handler asks for all with math.MaxUint64.
		// Both are part of the domain (0 used to fail: finding fixed in c1ea62a92e, frozen in TestVerif_C08_RegressMax0).
		got, err := l.LookupKeysByPrefix(r, e.key, e.max)
		if verdict("LookupKeysByPrefix "+e.String(), err) {
			all := want.KvKeys(e.key)
			sort.Strings(got)
			ok := true
			if e.max == 0 || uint64(len(all)) <= e.max {
				ok = len(got) == len(all)
				for i := 0; ok && i < len(got); i++ {
					ok = got[i] == all[i]
				}
			} else {
				ok = uint64(len(got)) == e.max
				set := map[string]bool{}
				for _, k := range all {
					set[k] = true
				}
				for i, k := range got {
					if !set[k] || (i > 0 && got[i-1] == k) {
						ok = false
					}
				}
			}
			if !ok {
				c.failf(t, "%s: LookupKeysByPrefix(%d, %q, %d) = %q; model keys %q (dbRound %d)", n.Name, r, e.key, e.max, got, all, d0)
			}
		}
		c.vk.Add("lookups", 1)
	case "creator":
		got, ok, err := l.GetCreatorForRound(r, e.cidx, e.ctype)
		if verdict("GetCreatorForRound "+e.String(), err) {
			wc, wok := want.Creator(e.cidx, e.ctype)
			if ok != wok || got != wc {
				c.failf(t, "%s: GetCreatorForRound(%d, %d, %d) = %v %v; model %v %v (dbRound %d)", n.Name, r, e.cidx, e.ctype, got, ok, wc, wok, d0)
			}
		}
		if r == latest {
			got, ok, err := l.GetCreator(e.cidx, e.ctype)
			wc, wok := want.Creator(e.cidx, e.ctype)
			if err != nil || ok != wok || got != wc {
				c.failf(t, "%s: GetCreator(%d, %d) = %v %v %v; model %v %v", n.Name, e.cidx, e.ctype, got, ok, err, wc, wok)
			}
		}
		c.vk.Add("lookups", 1)
	}
}

// checkValidThrough: the returned validThrough promises that the account did not change in (r, validThrough].
func (c *c08Checker) checkValidThrough(t *rapid.T, n *engcNode, what string, addr basics.Address, r, vt basics.Round) {
	m := c.w.Model
	if vt < r || vt > m.Latest() {
		c.failf(t, "%s: %s(%d, %v) returned validThrough %d outside [%d, latest %d]", n.Name, what, r, addr, vt, r, m.Latest())
	}
	base := m.At(r).Acct(addr).Data
	for q := r + 1; q <= vt; q++ {
		if m.At(q).Acct(addr).Data != base {
			c.failf(t, "%s: %s(%d, %v) returned validThrough %d but the account changed at round %d", n.Name, what, r, addr, vt, q)
		}
	}
}

// entities enumerates everything that can be asked about (deterministic order). Resource questions are asked for the
// addresses that ever held the resource plus two that never did.
func (c *c08Checker) entities() []c08Entity {
	w := c.w
	m := w.Model
	var out []c08Entity
	addrs := w.Addrs()
	for _, a := range addrs {
		out = append(out, c08Entity{kind: "acct", addr: a})
	}
	ids, types := m.EverCreatables()
	for _, id := range ids {
		kind := "asset"
		if types[id] == basics.AppCreatable {
			kind = "app"
		}
		strangers := 0
		for _, a := range addrs {
			e := c08Entity{kind: kind, addr: a, cidx: id, ctype: types[id]}
			ever := false
			for r := basics.Round(0); r <= m.Latest() && !ever; r++ {
				ever = e.nonEmptyAt(m.At(r))
			}
			if !ever {
				if strangers >= 2 {
					continue
				}
				strangers++
			}
			out = append(out, e)
		}
		out = append(out, c08Entity{kind: "creator", cidx: id, ctype: types[id]})
		other := basics.AssetCreatable
		if types[id] == basics.AssetCreatable {
			other = basics.AppCreatable
		}
		out = append(out, c08Entity{kind: "creator", cidx: id, ctype: other})
		if types[id] == basics.AppCreatable {
			p := engcBoxKey(basics.AppIndex(id), "")
			out = append(out, c08Entity{kind: "prefix", key: p}, c08Entity{kind: "prefix", key: p + "a"}, c08Entity{kind: "prefix", key: p, max: math.MaxUint64},
				c08Entity{kind: "prefix", key: p, max: 1}, c08Entity{kind: "prefix", key: p, max: 2}, c08Entity{kind: "prefix", key: p + "a", max: 1})
			for _, name := range engcBoxNames {
				out = append(out, c08Entity{kind: "kv", key: engcBoxKey(basics.AppIndex(id), name)})
			}
		}
	}
	// a creatable id that never existed
	out = append(out, c08Entity{kind: "creator", cidx: 1, ctype: basics.AssetCreatable})
	return out
}

func (c *c08Checker) rounds(n *engcNode) []basics.Round {
	d, latest := n.DBRound(), c.w.Model.Latest()
	lo := basics.Round(0)
	if d > 2 {
		lo = d - 2
	}
	var out []basics.Round
	for r := lo; r <= latest+1; r++ {
		out = append(out, r)
	}
	return out
}

// recent lists the entities touched by the blocks of rounds (lo, latest]: questions about them are the ones that can
// cross the memory/disk split (deterministic order).
func (c *c08Checker) recent(lo basics.Round) []c08Entity {
	m := c.w.Model
	seen := map[string]bool{}
	var out []c08Entity
	add := func(e c08Entity) {
		k := e.String()
		if !seen[k] {
			seen[k] = true
			out = append(out, e)
		}
	}
	for r := lo + 1; r <= m.Latest(); r++ {
		ch := &m.At(r).Changes
		addrs := make([]basics.Address, 0, len(ch.Accts))
		for a := range ch.Accts {
			addrs = append(addrs, a)
		}
		engcSortAddrs(addrs)
		for _, a := range addrs {
			add(c08Entity{kind: "acct", addr: a})
		}
		var res []c08Entity
		for k := range ch.Assets {
			res = append(res, c08Entity{kind: "asset", addr: k.Address, cidx: basics.CreatableIndex(k.Asset), ctype: basics.AssetCreatable})
		}
		for k := range ch.Apps {
			res = append(res, c08Entity{kind: "app", addr: k.Address, cidx: basics.CreatableIndex(k.App), ctype: basics.AppCreatable})
		}
		for k := range ch.Kv {
			res = append(res, c08Entity{kind: "kv", key: k})
			if len(k) >= 11 {
				res = append(res, c08Entity{kind: "prefix", key: k[:11]}, c08Entity{kind: "prefix", key: k[:11], max: 1})
			}
		}
		_, types := m.EverCreatables()
		for id := range ch.Creatables {
			ct, ok := types[id]
			if !ok {
				ct = basics.AssetCreatable
			}
			res = append(res, c08Entity{kind: "creator", cidx: id, ctype: ct})
		}
		sort.Slice(res, func(i, j int) bool { return res[i].String() < res[j].String() })
		for _, e := range res {
			add(e)
		}
	}
	return out
}

// sample asks k drawn (entity, round) questions on every node; half of them about recently touched entities.
func (c *c08Checker) sample(t *rapid.T, k int) {
	ents := c.entities()
	for _, n := range c.w.Nodes() {
		rs := c.rounds(n)
		d, latest := n.DBRound(), c.w.Model.Latest()
		hot := c.recent(d.SubSaturate(2))
		for i := 0; i < k; i++ {
			var e c08Entity
			if len(hot) > 0 && rapid.Bool().Draw(t, "hot") {
				e = hot[rapid.IntRange(0, len(hot)-1).Draw(t, "hotEntity")]
			} else {
				e = ents[rapid.IntRange(0, len(ents)-1).Draw(t, "entity")]
			}
			var r basics.Round
			switch rapid.IntRange(0, 7).Draw(t, "roundClass") {
			case 0:
				r = latest
			case 1:
				r = d
			case 2:
				r = d + 1
			case 3:
				r = latest + 1
			case 4:
				r = d.SubSaturate(1)
			default:
				r = rs[rapid.IntRange(0, len(rs)-1).Draw(t, "round")]
			}
			if r > latest+1 {
				r = latest + 1
			}
			c.query(t, n, e, r)
		}
	}
}

// sweep asks everything: every entity at every round in [dbRound-2, latest+1] on every node.
func (c *c08Checker) sweep(t *rapid.T) {
	ents := c.entities()
	for _, n := range c.w.Nodes() {
		for _, r := range c.rounds(n) {
			for _, e := range ents {
				c.query(t, n, e, r)
			}
		}
	}
	c.vk.Label("full-sweep")
}

// compareNodes is the metamorphic companion: two ledgers fed the same blocks under different schedules and
// configurations must give byte-identical answers wherever both serve the round.
func (c *c08Checker) compareNodes(t *rapid.T, k int) {
	w := c.w
	if w.Shadow == nil {
		return
	}
	a, b := w.Node, w.Shadow
	lo := a.DBRound()
	if b.DBRound() > lo {
		lo = b.DBRound()
	}
	latest := w.Model.Latest()
	ents := c.entities()
	for i := 0; i < k; i++ {
		e := ents[rapid.IntRange(0, len(ents)-1).Draw(t, "mEntity")]
		r := basics.Round(rapid.Uint64Range(uint64(lo), uint64(latest)).Draw(t, "mRound"))
		ra, rb := c08Render(a.L, e, r), c08Render(b.L, e, r)
		if ra != rb {
			c.failf(t, "metamorphic: %s at round %d: node(db %d) answers %s, shadow(db %d) answers %s", e, r, a.DBRound(), ra, b.DBRound(), rb)
		}
		c.vk.Add("metamorphic_pairs", 1)
	}
}

func c08Render(l *Ledger, e c08Entity, r basics.Round) string {
	switch e.kind {
	case "acct":
		d, _, wo, err := l.LookupAccount(r, e.addr)
		return fmt.Sprintf("%+v %d %v", d, wo.Raw, err)
	case "asset":
		x, err := l.LookupAsset(r, e.addr, basics.AssetIndex(e.cidx))
		return fmt.Sprintf("%x %x %v", c08Enc(x.AssetHolding), c08Enc(x.AssetParams), err)
	case "app":
		x, err := l.LookupApplication(r, e.addr, basics.AppIndex(e.cidx))
		return fmt.Sprintf("%x %x %v", c08Enc(x.AppLocalState), c08Enc(x.AppParams), err)
	case "kv":
		v, err := l.LookupKv(r, e.key)
		return fmt.Sprintf("%x %v %v", v, v != nil, err)
	case "prefix":
		ks, err := l.LookupKeysByPrefix(r, e.key, 0)
		sort.Strings(ks)
		return fmt.Sprintf("%q %v", ks, err)
	}
	a, ok, err := l.GetCreatorForRound(r, e.cidx, e.ctype)
	return fmt.Sprintf("%v %v %v", a, ok, err)
}

func c08Run(tb *testing.T, t *rapid.T, vk *vkCtx, opts engcOpts) {
	opts.Label = vk.Label
	w := engcNewWorld(tb, t, opts)
	defer w.Close()
	c := &c08Checker{w: w, vk: vk}
	pickNode := func(t *rapid.T) *engcNode {
		ns := w.Nodes()
		return ns[rapid.IntRange(0, len(ns)-1).Draw(t, "node")]
	}
	opFail := func(t *rapid.T, what string, err error) {
		if err != nil {
			c.failf(t, "%s failed: %v", what, err)
		}
	}
	block := func(t *rapid.T) { w.StepBlock(t, -1) }
	actions := map[string]func(*rapid.T){
		"Block1": block, "Block2": block, "Block3": block, "Block4": block, "Block5": block,
		"Blocks": func(t *rapid.T) {
			for i, k := 0, rapid.IntRange(2, 5).Draw(t, "burst"); i < k; i++ {
				w.StepBlock(t, -1)
			}
		},
		"Commit":  func(t *rapid.T) { pickNode(t).OpCommit(); vk.Label("op:commit") },
		"Commit2": func(t *rapid.T) { pickNode(t).OpCommit(); vk.Label("op:commit") },
		"Park": func(t *rapid.T) {
			n := pickNode(t)
			n.OpSetParked(!n.parked)
			vk.Label("op:toggle-park")
		},
		"Reload": func(t *rapid.T) {
			n := pickNode(t)
			if !n.ReloadBudgetLeft() {
				n.OpCommit()
				vk.Label("op:commit")
				return
			}
			opFail(t, "reloadLedger", n.OpReload())
			vk.Label("op:reload")
		},
		"Reopen": func(t *rapid.T) {
			n := pickNode(t)
			if !n.ReloadBudgetLeft() {
				n.OpPruneCaches()
				vk.Label("op:prune-caches")
				return
			}
			if !n.OnDisk {
				opFail(t, "reloadLedger", n.OpReload())
				vk.Label("op:reload")
				return
			}
			opFail(t, "close+OpenLedger", n.OpReopen())
			vk.Label("op:reopen")
		},
		"Caches": func(t *rapid.T) {
			n := pickNode(t)
			if rapid.Bool().Draw(t, "prune") {
				n.OpPruneCaches()
				vk.Label("op:prune-caches")
			} else {
				n.OpFlushCaches()
				vk.Label("op:flush-caches")
			}
		},
		"Sweep": func(t *rapid.T) {
			if rapid.IntRange(0, 7).Draw(t, "doSweep") == 0 {
				c.sweep(t)
			} else {
				c.sample(t, 24)
			}
		},
		"": func(t *rapid.T) {
			c.sample(t, 8)
			c.compareNodes(t, 6)
		},
	}
	t.Repeat(actions)
	// a final block burst + commit makes sure every history ends with a populated memory/disk split
	for i := 0; i < 3; i++ {
		w.StepBlock(t, -1)
	}
	c.sample(t, 10)
	c.sweep(t)
	c.compareNodes(t, 20)

	m := w.Model
	nontrivial := c.st.crossed > 0 || c.st.recreated > 0 || (c.st.afterReload > 0 && c.st.queries > 0)
	vk.Case(nontrivial, strings.Join(w.History, "|"))
	vk.Labelf("history-blocks:%s", c08Bucket(int(m.Latest())))
	vk.Labelf("node-disk:%v", w.Node.OnDisk)
	vk.Labelf("node-lru-disabled:%v", w.Node.Cfg.DisableLedgerLRUCache)
	vk.Labelf("node-archival:%v", w.Node.Cfg.Archival)
	vk.Labelf("proto:%v", w.CV == protocol.ConsensusFuture)
	if c.st.crossed > 0 {
		vk.Label("case:crossed-memory-disk-split")
	}
	if c.st.recreated > 0 {
		vk.Label("case:delete-then-recreate-queried")
	}
	if c.st.afterReload > 0 {
		vk.Label("case:queried-after-reload")
	}
	vk.Add("queries_in_window", int64(c.st.queries))
	vk.Add("queries_crossing_split", int64(c.st.crossed))
	vk.Add("queries_refused", int64(c.st.refused))
	if vk.WantSample(nontrivial) {
		vk.Sample(nontrivial, map[string]any{"history": w.History, "queries": c.st.queries, "crossed": c.st.crossed, "recreated": c.st.recreated,
			"afterReload": c.st.afterReload, "accepted_groups": w.Accepted, "rejected_groups": w.Rejected})
	}
}

func c08Bucket(n int) string {
	switch {
	case n < 10:
		return "<10"
	case n < 30:
		return "10-29"
	case n < 60:
		return "30-59"
	case n < 120:
		return "60-119"
	}
	return ">=120"
}

const c08Rule = "rapid state machine: blocks built by the real evaluator from model-aware random transaction groups (pay/close/rekey/keyreg/asset and app lifecycle/boxes/inner pay) " +
	"interleaved with forced commits, park/unpark of the flush timer, reloadLedger, close+reopen, LRU flush/prune, under drawn MaxAcctLookback/LRU/archival/in-mem|on-disk; " +
	"every lookup API at every round in [dbRound-2, latest+1] compared with an independent fold of the block deltas. " +
	"Non-trivial: some query was answered across the memory/disk split (newer version in memory, older on disk, either side asked), or on a deleted-then-recreated entity, or after a reload/reopen. " +
	"Distinct: by the full operation/block trace of the history."

func TestVerif_C08_History(t *testing.T) {
	vk := vkBegin(t, "C08")
	vk.Rule(c08Rule)
	vk.Assume("the StateDelta returned by Ledger.Validate describes the block correctly (the evaluator is C18-C24's subject); unsigned transactions with a mocked signature cache")
	rapid.Check(t, func(rt *rapid.T) { c08Run(t, rt, vk, engcOpts{}) })
}

func TestVerif_C08_Metamorphic(t *testing.T) {
	vk := vkBegin(t, "C08")
	vk.Rule(c08Rule + " Metamorphic unit: a second ledger with its own drawn configuration and schedule is fed the same blocks through AddBlock; both must answer identically and equal the model.")
	rapid.Check(t, func(rt *rapid.T) { c08Run(t, rt, vk, engcOpts{Shadow: true}) })
}

// TestVerif_C08_RegressMax0 freezes the counter-example found by this check (fixed in /repo by c1ea62a92e):
// Ledger.LookupKeysByPrefix(round, prefix, maxKeyNum = 0) - documented as "loads all keys" - returned
// StaleDatabaseRoundError (dbRound > 0) or no database keys, whenever no matching key was in the in-memory deltas,
// because the store readers tested `resultCount == maxKeyNum` (0 == 0) before reading the first row.
// Minimal history: create an app, fund it, create one box, add MaxAcctLookback+2 empty blocks, commit, ask.
func TestVerif_C08_RegressMax0(t *testing.T) {
	vk := vkBegin(t, "C08")
	vk.Rule("regression: hand-made history (create app, fund it, create one box, empty blocks until the box is only in the tracker DB, commit), then LookupKeysByPrefix(latest, boxPrefix, 0 and MaxUint64) must both list the box. " +
		"Non-trivial: the box key is on disk and absent from the in-memory deltas. Distinct: by world configuration.")
	rapid.Check(t, func(rt *rapid.T) {
		w := engcNewWorld(t, rt, engcOpts{Label: vk.Label, Profile: "pay"})
		defer w.Close()
		tip := w.Model.Tip()
		creator := w.Users[0]
		for _, u := range w.Users {
			if tip.Acct(u).Data.MicroAlgos.Raw > tip.Acct(creator).Data.MicroAlgos.Raw {
				creator = u
			}
		}
		a, _, cl := engcPrograms()
		step := func(kind string, tx *txntest.Txn) {
			b := w.BeginBlock(rt)
			if err := b.Submit([]string{kind}, tx); err != nil {
				rt.Skipf("setup transaction %s rejected: %v", kind, err)
			}
			b.Finish(rt)
		}
		step("app-create", &txntest.Txn{Type: protocol.ApplicationCallTx, Sender: creator, ApprovalProgram: a, ClearStateProgram: cl,
			GlobalStateSchema: basics.StateSchema{NumByteSlice: 1}})
		ids := w.Model.Tip().CreatableIDs(basics.AppCreatable)
		if len(ids) != 1 {
			rt.Fatalf("ENGINE: expected one app, have %v", ids)
		}
		app := basics.AppIndex(ids[0])
		step("app-fund", &txntest.Txn{Type: protocol.PaymentTx, Sender: creator, Receiver: app.Address(), Amount: 1_000_000})
		step("app-call", &txntest.Txn{Type: protocol.ApplicationCallTx, Sender: creator, ApplicationID: app,
			ApplicationArgs: [][]byte{[]byte("bcreate"), []byte("x"), engcItob(8)}, Boxes: []transactions.BoxRef{{Index: 0, Name: []byte("x")}}})
		boxRound := w.Model.Latest()
		for i := uint64(0); i < w.Node.Cfg.MaxAcctLookback+2; i++ {
			w.StepBlock(rt, 0)
		}
		w.Node.OpCommit()
		prefix := engcBoxKey(app, "")
		latest := w.Model.Latest()
		onDiskOnly := w.Node.DBRound() >= boxRound
		vk.Case(onDiskOnly, strings.Join(w.History, "|"))
		for _, max := range []uint64{math.MaxUint64, 0} {
			got, err := w.Node.L.LookupKeysByPrefix(latest, prefix, max)
			if err != nil || len(got) != 1 || got[0] != engcBoxKey(app, "x") {
				rt.Fatalf("C08 VIOLATION: LookupKeysByPrefix(round %d, boxes of app %d, maxKeyNum %d) = %q, err %v; the app has exactly box \"x\" (dbRound %d, box created in round %d)\n%s",
					latest, app, max, got, err, w.Node.DBRound(), boxRound, strings.Join(w.History, "\n"))
			}
		}
		if vk.WantSample(onDiskOnly) {
			vk.Sample(onDiskOnly, map[string]any{"history": w.History, "dbRound": w.Node.DBRound(), "boxRound": boxRound})
		}
	})
}

// ---------------------------------------------------------------------------------------------------------------
// Resource churn across flushes (LRU caches enabled).
//
// A resource (asset holding, app local state, box, whole account) is created, deleted and re-created with each of the
// three events flushed to the tracker DB by a SEPARATE commit, and is looked up right after every flush, before it is
// touched again. This is the path where postCommit feeds the LRU caches with the rows the DB writer reports
// (accountsNewRoundImpl -> updatedPersistedResources -> lruResources.write, which keeps the entry with the larger
// Round): a "deleted" marker cached by the second flush must be replaced by the re-created row of the third one.
// Random histories rarely line the three events up with three commits on an LRU-enabled node, so it is scripted.

type c08Churn struct {
	c       *c08Checker
	w       *engcWorld
	creator basics.Address
	holder  basics.Address
	fresh   basics.Address
	asset   basics.AssetIndex
	app     basics.AppIndex
	targets []c08Entity
}

// block builds one block from scripted single-transaction groups plus optional random filler (payments only profile).
func (ch *c08Churn) block(t *rapid.T, what string, txs ...*txntest.Txn) {
	b := ch.w.BeginBlock(t)
	for _, tx := range txs {
		if err := b.Submit([]string{"churn:" + what}, tx); err != nil {
			t.Fatalf("ENGINE: scripted churn transaction (%s, %v from %s) rejected in round %d: %v", what, tx.Type, engcShort(tx.Sender), b.Round, err)
		}
	}
	ch.filler(t, b)
	b.Finish(t)
}

// filler adds 0-2 small payments between accounts that play no role in the script (random traffic from the generator
// could drain or close the scripted accounts).
func (ch *c08Churn) filler(t *rapid.T, b *engcBlockBuilder) {
	var others []basics.Address
	for _, u := range ch.w.Users {
		if u != ch.creator && u != ch.holder {
			others = append(others, u)
		}
	}
	for i, k := 0, rapid.IntRange(0, 2).Draw(t, "filler"); i < k && len(others) > 0; i++ {
		snd := others[rapid.IntRange(0, len(others)-1).Draw(t, "fillerSnd")]
		rcv := others[rapid.IntRange(0, len(others)-1).Draw(t, "fillerRcv")]
		if b.Gen.spendable(snd) < 10_000 {
			continue
		}
		_ = b.Submit([]string{"pay"}, &txntest.Txn{Type: protocol.PaymentTx, Sender: snd, Receiver: rcv, Amount: rapid.Uint64Range(0, 5_000).Draw(t, "fillerAmt")})
	}
}

// flush adds blocks until the event of round `upTo` is in the tracker DB of every node (MaxAcctLookback rounds stay in
// memory), each time through the production commit path.
func (ch *c08Churn) flush(t *rapid.T, upTo basics.Round) {
	for _, n := range ch.w.Nodes() {
		for tries := 0; n.DBRound() < upTo; tries++ {
			if tries > 40 {
				t.Fatalf("ENGINE: %s does not flush round %d (dbRound %d, latest %d, lookback %d)", n.Name, upTo, n.DBRound(), ch.w.Model.Latest(), n.Cfg.MaxAcctLookback)
			}
			if ch.w.Model.Latest() < upTo+basics.Round(n.Cfg.MaxAcctLookback) || tries > 0 {
				b := ch.w.BeginBlock(t)
				ch.filler(t, b)
				b.Finish(t)
			}
			n.OpCommit()
		}
	}
	ch.c.vk.Label("churn:flush")
}

// ask queries every churn target at every round of the served window (and just outside) on every node.
func (ch *c08Churn) ask(t *rapid.T) {
	for _, n := range ch.w.Nodes() {
		for _, r := range ch.c.rounds(n) {
			for _, e := range ch.targets {
				ch.c.query(t, n, e, r)
			}
		}
	}
}

func c08ChurnRun(tb *testing.T, t *rapid.T, vk *vkCtx) {
	opts := engcOpts{Label: vk.Label, Profile: "pay", ForceMem: true, Shadow: rapid.IntRange(0, 2).Draw(t, "shadow") == 0,
		CfgHook: func(name string, cfg *config.Local) {
			if name == "node" {
				cfg.DisableLedgerLRUCache = false // the subject of this unit
			}
		}}
	w := engcNewWorld(tb, t, opts)
	defer w.Close()
	c := &c08Checker{w: w, vk: vk}
	ch := &c08Churn{c: c, w: w}

	// the two richest users play creator and holder
	tip := w.Model.Tip()
	users := append([]basics.Address{}, w.Users...)
	sort.SliceStable(users, func(i, j int) bool {
		return tip.Acct(users[i]).Data.MicroAlgos.Raw > tip.Acct(users[j]).Data.MicroAlgos.Raw
	})
	ch.creator, ch.holder, ch.fresh = users[0], users[1], w.Fresh[0]
	if tip.Acct(ch.holder).Data.MicroAlgos.Raw < 20_000_000 {
		// top the holder up from the creator
		ch.block(t, "fund-holder", &txntest.Txn{Type: protocol.PaymentTx, Sender: ch.creator, Receiver: ch.holder, Amount: 20_000_000})
	}
	for _, u := range []basics.Address{ch.creator, ch.holder} { // scripted senders must be able to authorize themselves
		if st := w.Model.Tip().Acct(u).Data; !st.AuthAddr.IsZero() {
			t.Fatalf("ENGINE: genesis account is rekeyed")
		}
	}
	a, _, cl := engcPrograms()
	ch.block(t, "setup",
		&txntest.Txn{Type: protocol.AssetConfigTx, Sender: ch.creator, AssetParams: basics.AssetParams{Total: 1000, UnitName: "ch", AssetName: "churn"}},
		&txntest.Txn{Type: protocol.ApplicationCallTx, Sender: ch.creator, ApprovalProgram: a, ClearStateProgram: cl,
			GlobalStateSchema: basics.StateSchema{NumByteSlice: 1}, LocalStateSchema: basics.StateSchema{NumByteSlice: 1}})
	for _, id := range w.Model.Tip().CreatableIDs(basics.AssetCreatable) {
		ch.asset = basics.AssetIndex(id)
	}
	for _, id := range w.Model.Tip().CreatableIDs(basics.AppCreatable) {
		ch.app = basics.AppIndex(id)
	}
	if ch.asset == 0 || ch.app == 0 {
		t.Fatalf("ENGINE: churn setup did not create asset/app")
	}
	ch.block(t, "fund-app", &txntest.Txn{Type: protocol.PaymentTx, Sender: ch.creator, Receiver: ch.app.Address(), Amount: 2_000_000})
	boxKey := engcBoxKey(ch.app, "x")
	ch.targets = []c08Entity{
		{kind: "asset", addr: ch.holder, cidx: basics.CreatableIndex(ch.asset), ctype: basics.AssetCreatable},
		{kind: "asset", addr: ch.creator, cidx: basics.CreatableIndex(ch.asset), ctype: basics.AssetCreatable},
		{kind: "app", addr: ch.holder, cidx: basics.CreatableIndex(ch.app), ctype: basics.AppCreatable},
		{kind: "app", addr: ch.creator, cidx: basics.CreatableIndex(ch.app), ctype: basics.AppCreatable},
		{kind: "kv", key: boxKey}, {kind: "prefix", key: engcBoxKey(ch.app, "")}, {kind: "prefix", key: engcBoxKey(ch.app, ""), max: 1},
		{kind: "acct", addr: ch.holder}, {kind: "acct", addr: ch.fresh}, {kind: "acct", addr: ch.app.Address()},
	}
	ch.flush(t, w.Model.Latest())
	ch.ask(t)

	create := func(size uint64) []*txntest.Txn {
		return []*txntest.Txn{
			{Type: protocol.AssetTransferTx, Sender: ch.holder, XferAsset: ch.asset, AssetReceiver: ch.holder},
			{Type: protocol.ApplicationCallTx, Sender: ch.holder, ApplicationID: ch.app, OnCompletion: transactions.OptInOC},
			{Type: protocol.ApplicationCallTx, Sender: ch.creator, ApplicationID: ch.app,
				ApplicationArgs: [][]byte{[]byte("bcreate"), []byte("x"), engcItob(size)}, Boxes: []transactions.BoxRef{{Index: 0, Name: []byte("x")}}},
			{Type: protocol.PaymentTx, Sender: ch.creator, Receiver: ch.fresh, Amount: 1_000_000},
		}
	}
	remove := func() []*txntest.Txn {
		return []*txntest.Txn{
			{Type: protocol.AssetTransferTx, Sender: ch.holder, XferAsset: ch.asset, AssetReceiver: ch.creator, AssetCloseTo: ch.creator},
			{Type: protocol.ApplicationCallTx, Sender: ch.holder, ApplicationID: ch.app, OnCompletion: transactions.CloseOutOC},
			{Type: protocol.ApplicationCallTx, Sender: ch.creator, ApplicationID: ch.app,
				ApplicationArgs: [][]byte{[]byte("bdel"), []byte("x")}, Boxes: []transactions.BoxRef{{Index: 0, Name: []byte("x")}}},
			{Type: protocol.PaymentTx, Sender: ch.fresh, Receiver: ch.creator, CloseRemainderTo: ch.creator},
		}
	}
	use := func() []*txntest.Txn { // touch the re-created resources: the holder receives units, writes local state
		return []*txntest.Txn{
			{Type: protocol.AssetTransferTx, Sender: ch.creator, XferAsset: ch.asset, AssetReceiver: ch.holder, AssetAmount: 3},
			{Type: protocol.ApplicationCallTx, Sender: ch.holder, ApplicationID: ch.app, ApplicationArgs: [][]byte{[]byte("lput"), []byte("a"), []byte("v")}},
		}
	}
	cycles := rapid.IntRange(1, 2).Draw(t, "cycles")
	lookBetween := rapid.IntRange(0, 4).Draw(t, "lookBetween") != 0
	step := func(what string, txs []*txntest.Txn) {
		ch.block(t, what, txs...)
		ev := w.Model.Latest()
		if lookBetween {
			ch.ask(t) // still in memory
		}
		ch.flush(t, ev)
		ch.ask(t) // right after the flush, before anything touches the resources again
		c.compareNodes(t, 6)
	}
	step("create", create(8))
	for i := 0; i < cycles; i++ {
		step("delete", remove())
		step("recreate", create(uint64(4+i)))
		vk.Label("churn:create-delete-recreate-in-3-commits")
		if rapid.Bool().Draw(t, "useAfter") {
			step("use", use())
		}
	}
	c.sweep(t)
	vk.Case(true, strings.Join(w.History, "|"))
	vk.Labelf("churn:lookback:%d", w.Node.Cfg.MaxAcctLookback)
	vk.Add("queries_in_window", int64(c.st.queries))
	vk.Add("queries_crossing_split", int64(c.st.crossed))
	if vk.WantSample(true) {
		vk.Sample(true, map[string]any{"history": w.History, "cycles": cycles, "queries": c.st.queries})
	}
}

func TestVerif_C08_Churn(t *testing.T) {
	vk := vkBegin(t, "C08")
	vk.Rule("scripted resource churn on a node with the LRU caches enabled: an asset holding, an app local state, a box and a whole account are created, deleted and re-created (1-2 cycles), " +
		"each event flushed by its own tracker commit (filler blocks respect MaxAcctLookback), and every affected entity is looked up at every served round before and right after every flush, " +
		"on the node and (1/3) on an LRU-less shadow ledger; drawn: world, lookback, filler payments, lookups between flushes, cycles. Non-trivial: every case (three separate commits reached). Distinct: by trace.")
	rapid.Check(t, func(rt *rapid.T) { c08ChurnRun(t, rt, vk) })
}
