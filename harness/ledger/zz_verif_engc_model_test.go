package ledger

// Engine C — reference model.
//
// A plain in-memory fold over the block history: state[r] = apply(state[r-1], StateDelta of block r).
// The delta is used as DATA only (account records, resource records, KvMods, Creatables); nothing of the
// tracker / lookup / cache / DB code is used. One full, immutable snapshot is kept for every round.
// See /verif/notes/ENGC.md.

import (
	"bytes"
	"fmt"
	"maps"
	"sort"
	"strings"

	"github.com/algorand/go-algorand/config"
	"github.com/algorand/go-algorand/data/basics"
	"github.com/algorand/go-algorand/data/bookkeeping"
	"github.com/algorand/go-algorand/ledger/ledgercore"
	"github.com/algorand/go-algorand/protocol"
)

// engcAcct is the complete state of one account at one round. Values stored in a snapshot are never mutated.
type engcAcct struct {
	Data        ledgercore.AccountData // base fields + voting data (no resources)
	Assets      map[basics.AssetIndex]basics.AssetHolding
	AssetParams map[basics.AssetIndex]basics.AssetParams
	AppLocals   map[basics.AppIndex]basics.AppLocalState
	AppParams   map[basics.AppIndex]basics.AppParams
}

var engcEmptyAcct = &engcAcct{}

func (a *engcAcct) clone() *engcAcct {
	return &engcAcct{
		Data:        a.Data,
		Assets:      maps.Clone(a.Assets),
		AssetParams: maps.Clone(a.AssetParams),
		AppLocals:   maps.Clone(a.AppLocals), // values are immutable (cloned on ingestion)
		AppParams:   maps.Clone(a.AppParams),
	}
}

// IsEmpty: nothing at all is stored for the account (the ledger cannot distinguish this from "never existed").
func (a *engcAcct) IsEmpty() bool {
	return a.Data.IsZero() && len(a.Assets) == 0 && len(a.AssetParams) == 0 && len(a.AppLocals) == 0 && len(a.AppParams) == 0
}

// Full renders the account as a basics.AccountData including all resources (what LookupLatest reports, before rewards).
func (a *engcAcct) Full() basics.AccountData {
	var ad basics.AccountData
	ledgercore.AssignAccountData(&ad, a.Data)
	if len(a.Assets) > 0 {
		ad.Assets = maps.Clone(a.Assets)
	}
	if len(a.AssetParams) > 0 {
		ad.AssetParams = maps.Clone(a.AssetParams)
	}
	if len(a.AppLocals) > 0 {
		ad.AppLocalStates = maps.Clone(a.AppLocals)
	}
	if len(a.AppParams) > 0 {
		ad.AppParams = maps.Clone(a.AppParams)
	}
	return ad
}

// engcCreatable is one entry of the creatable -> creator table.
type engcCreatable struct {
	Creator basics.Address
	Ctype   basics.CreatableType
}

// engcChanges lists what the block of a snapshot's round touched (delta membership, not value inequality).
type engcChanges struct {
	Accts      map[basics.Address]bool
	Assets     map[ledgercore.AccountAsset]bool
	Apps       map[ledgercore.AccountApp]bool
	Kv         map[string]bool
	Creatables map[basics.CreatableIndex]bool

	StatusChanged int // accounts whose Status differs from the previous round
	Closed        int // accounts that became empty
	Created       int // accounts that became non-empty
	KvDeleted     int
	KvRecreated   int // key written in this round that did not exist in the previous round but existed earlier
	Uncreated     int // creatables deleted
}

// engcSnap is the model state after applying blocks 1..Round to genesis.
type engcSnap struct {
	Round        basics.Round
	Hdr          bookkeeping.BlockHeader
	ProtoVersion protocol.ConsensusVersion
	Proto        config.ConsensusParams
	RewardsLevel uint64                       // Hdr.RewardsLevel
	Accts        map[basics.Address]*engcAcct // only non-empty accounts
	Kv           map[string][]byte
	Creatables   map[basics.CreatableIndex]engcCreatable
	Changes      engcChanges
}

// Acct returns the account state (never nil; an all-zero value if the account does not exist).
func (s *engcSnap) Acct(addr basics.Address) *engcAcct {
	if a, ok := s.Accts[addr]; ok {
		return a
	}
	return engcEmptyAcct
}

// Addrs returns the addresses of all non-empty accounts, sorted.
func (s *engcSnap) Addrs() []basics.Address {
	out := make([]basics.Address, 0, len(s.Accts))
	for a := range s.Accts {
		out = append(out, a)
	}
	engcSortAddrs(out)
	return out
}

// KvKeys returns the sorted keys having the given prefix.
func (s *engcSnap) KvKeys(prefix string) []string {
	var out []string
	for k := range s.Kv {
		if strings.HasPrefix(k, prefix) {
			out = append(out, k)
		}
	}
	sort.Strings(out)
	return out
}

// Creator looks up the creator of a creatable of the given type.
func (s *engcSnap) Creator(cidx basics.CreatableIndex, ctype basics.CreatableType) (basics.Address, bool) {
	c, ok := s.Creatables[cidx]
	if !ok || c.Ctype != ctype {
		return basics.Address{}, false
	}
	return c.Creator, true
}

// CreatableIDs returns the sorted ids of the live creatables of one type.
func (s *engcSnap) CreatableIDs(ctype basics.CreatableType) []basics.CreatableIndex {
	var out []basics.CreatableIndex
	for id, c := range s.Creatables {
		if c.Ctype == ctype {
			out = append(out, id)
		}
	}
	sort.Slice(out, func(i, j int) bool { return out[i] < out[j] })
	return out
}

func engcSortAddrs(a []basics.Address) {
	sort.Slice(a, func(i, j int) bool { return bytes.Compare(a[i][:], a[j][:]) < 0 })
}

// engcPendingRewards is the independent rewards formula: an account with a participating status (Online, Offline)
// earns (level - base) microalgos for every whole RewardUnit it holds. NotParticipating accounts earn nothing.
func engcPendingRewards(status basics.Status, microAlgos, rewardsBase, level, rewardUnit uint64) uint64 {
	if status == basics.NotParticipating || rewardUnit == 0 || level < rewardsBase {
		return 0
	}
	return (microAlgos / rewardUnit) * (level - rewardsBase)
}

// engcWithRewards returns the base account data as a rewards-applying lookup must report it at the given level.
func engcWithRewards(d ledgercore.AccountData, level, rewardUnit uint64) ledgercore.AccountData {
	if d.Status == basics.NotParticipating {
		return d
	}
	r := engcPendingRewards(d.Status, d.MicroAlgos.Raw, d.RewardsBase, level, rewardUnit)
	d.MicroAlgos.Raw += r
	d.RewardedMicroAlgos.Raw += r
	d.RewardsBase = level
	return d
}

// engcModel holds one snapshot per round, index == round.
type engcModel struct {
	snaps  []*engcSnap
	ever   map[basics.Address]bool // every address that was ever non-empty
	kvEver map[string]bool         // every kv key that ever existed
	crEver map[basics.CreatableIndex]basics.CreatableType
}

func engcNewModel(genesis bookkeeping.Block, accts map[basics.Address]basics.AccountData) *engcModel {
	m := &engcModel{ever: map[basics.Address]bool{}, kvEver: map[string]bool{}, crEver: map[basics.CreatableIndex]basics.CreatableType{}}
	s := &engcSnap{
		Round: 0, Hdr: genesis.BlockHeader, ProtoVersion: genesis.CurrentProtocol, Proto: config.Consensus[genesis.CurrentProtocol],
		RewardsLevel: genesis.RewardsLevel, Accts: map[basics.Address]*engcAcct{}, Kv: map[string][]byte{},
		Creatables: map[basics.CreatableIndex]engcCreatable{},
	}
	for addr, ad := range accts {
		a := &engcAcct{Data: ledgercore.ToAccountData(ad)}
		if len(ad.Assets) > 0 {
			a.Assets = maps.Clone(ad.Assets)
		}
		if len(ad.AssetParams) > 0 {
			a.AssetParams = maps.Clone(ad.AssetParams)
			for id := range ad.AssetParams {
				s.Creatables[basics.CreatableIndex(id)] = engcCreatable{addr, basics.AssetCreatable}
			}
		}
		if len(ad.AppLocalStates) > 0 {
			a.AppLocals = map[basics.AppIndex]basics.AppLocalState{}
			for id, v := range ad.AppLocalStates {
				a.AppLocals[id] = v.Clone()
			}
		}
		if len(ad.AppParams) > 0 {
			a.AppParams = map[basics.AppIndex]basics.AppParams{}
			for id, v := range ad.AppParams {
				a.AppParams[id] = v.Clone()
				s.Creatables[basics.CreatableIndex(id)] = engcCreatable{addr, basics.AppCreatable}
			}
		}
		if !a.IsEmpty() {
			s.Accts[addr] = a
			m.ever[addr] = true
		}
	}
	m.snaps = []*engcSnap{s}
	return m
}

// Latest is the last round folded into the model.
func (m *engcModel) Latest() basics.Round { return basics.Round(len(m.snaps) - 1) }

// At returns the snapshot of round r (nil if r > Latest).
func (m *engcModel) At(r basics.Round) *engcSnap {
	if int(r) >= len(m.snaps) {
		return nil
	}
	return m.snaps[r]
}

// Tip is At(Latest()).
func (m *engcModel) Tip() *engcSnap { return m.snaps[len(m.snaps)-1] }

// EverAddrs returns every address that was non-empty at some round (sorted).
func (m *engcModel) EverAddrs() []basics.Address {
	out := make([]basics.Address, 0, len(m.ever))
	for a := range m.ever {
		out = append(out, a)
	}
	engcSortAddrs(out)
	return out
}

// EverKvKeys returns every kv key that existed at some round (sorted).
func (m *engcModel) EverKvKeys() []string {
	out := make([]string, 0, len(m.kvEver))
	for k := range m.kvEver {
		out = append(out, k)
	}
	sort.Strings(out)
	return out
}

// EverCreatables returns every creatable id that existed at some round (sorted) with its type.
func (m *engcModel) EverCreatables() ([]basics.CreatableIndex, map[basics.CreatableIndex]basics.CreatableType) {
	out := make([]basics.CreatableIndex, 0, len(m.crEver))
	for k := range m.crEver {
		out = append(out, k)
	}
	sort.Slice(out, func(i, j int) bool { return out[i] < out[j] })
	return out, m.crEver
}

// Preview folds the delta of block blk on top of base and returns the resulting snapshot without storing it.
// An error means the delta is not a well-formed successor description (see notes: "record ambiguity").
func (m *engcModel) Preview(base *engcSnap, blk bookkeeping.Block, delta ledgercore.StateDelta) (*engcSnap, error) {
	if blk.Round() != base.Round+1 {
		return nil, fmt.Errorf("model: block %d applied on top of round %d", blk.Round(), base.Round)
	}
	proto, ok := config.Consensus[blk.CurrentProtocol]
	if !ok {
		return nil, fmt.Errorf("model: unknown protocol %v", blk.CurrentProtocol)
	}
	s := &engcSnap{
		Round: blk.Round(), Hdr: blk.BlockHeader, ProtoVersion: blk.CurrentProtocol, Proto: proto, RewardsLevel: blk.RewardsLevel,
		Accts: maps.Clone(base.Accts), Kv: maps.Clone(base.Kv), Creatables: maps.Clone(base.Creatables),
		Changes: engcChanges{Accts: map[basics.Address]bool{}, Assets: map[ledgercore.AccountAsset]bool{}, Apps: map[ledgercore.AccountApp]bool{},
			Kv: map[string]bool{}, Creatables: map[basics.CreatableIndex]bool{}},
	}
	fresh := map[basics.Address]*engcAcct{}
	mut := func(addr basics.Address) *engcAcct {
		if a, ok := fresh[addr]; ok {
			return a
		}
		a := base.Acct(addr).clone()
		fresh[addr] = a
		return a
	}
	seenAcct := map[basics.Address]bool{}
	for i := range delta.Accts.Accts {
		rec := delta.Accts.Accts[i]
		if seenAcct[rec.Addr] {
			return nil, fmt.Errorf("model: round %d delta lists account %v twice", s.Round, rec.Addr)
		}
		seenAcct[rec.Addr] = true
		mut(rec.Addr).Data = rec.AccountData
		s.Changes.Accts[rec.Addr] = true
	}
	for i := range delta.Accts.AssetResources {
		rec := delta.Accts.AssetResources[i]
		key := ledgercore.AccountAsset{Address: rec.Addr, Asset: rec.Aidx}
		if s.Changes.Assets[key] {
			return nil, fmt.Errorf("model: round %d delta lists asset resource (%v,%d) twice", s.Round, rec.Addr, rec.Aidx)
		}
		s.Changes.Assets[key] = true
		a := mut(rec.Addr)
		// A record describes the complete (addr, asset) resource after the block: the in-memory lookup path reads it
		// that way, the DB writer treats "nil and not Deleted" as "unchanged". Both agree only if a nil component was
		// already absent; anything else would make answers depend on flush timing, so it is reported.
		switch {
		case rec.Params.Deleted && rec.Params.Params != nil:
			return nil, fmt.Errorf("model: round %d asset params (%v,%d) both Deleted and present", s.Round, rec.Addr, rec.Aidx)
		case rec.Params.Deleted:
			delete(a.AssetParams, rec.Aidx)
		case rec.Params.Params != nil:
			if a.AssetParams == nil {
				a.AssetParams = map[basics.AssetIndex]basics.AssetParams{}
			}
			a.AssetParams[rec.Aidx] = *rec.Params.Params
		default:
			if _, had := a.AssetParams[rec.Aidx]; had {
				return nil, fmt.Errorf("model: round %d record ambiguity: asset params (%v,%d) nil/not-deleted in delta but present before", s.Round, rec.Addr, rec.Aidx)
			}
		}
		switch {
		case rec.Holding.Deleted && rec.Holding.Holding != nil:
			return nil, fmt.Errorf("model: round %d asset holding (%v,%d) both Deleted and present", s.Round, rec.Addr, rec.Aidx)
		case rec.Holding.Deleted:
			delete(a.Assets, rec.Aidx)
		case rec.Holding.Holding != nil:
			if a.Assets == nil {
				a.Assets = map[basics.AssetIndex]basics.AssetHolding{}
			}
			a.Assets[rec.Aidx] = *rec.Holding.Holding
		default:
			if _, had := a.Assets[rec.Aidx]; had {
				return nil, fmt.Errorf("model: round %d record ambiguity: asset holding (%v,%d) nil/not-deleted in delta but present before", s.Round, rec.Addr, rec.Aidx)
			}
		}
	}
	for i := range delta.Accts.AppResources {
		rec := delta.Accts.AppResources[i]
		key := ledgercore.AccountApp{Address: rec.Addr, App: rec.Aidx}
		if s.Changes.Apps[key] {
			return nil, fmt.Errorf("model: round %d delta lists app resource (%v,%d) twice", s.Round, rec.Addr, rec.Aidx)
		}
		s.Changes.Apps[key] = true
		a := mut(rec.Addr)
		switch {
		case rec.Params.Deleted && rec.Params.Params != nil:
			return nil, fmt.Errorf("model: round %d app params (%v,%d) both Deleted and present", s.Round, rec.Addr, rec.Aidx)
		case rec.Params.Deleted:
			delete(a.AppParams, rec.Aidx)
		case rec.Params.Params != nil:
			if a.AppParams == nil {
				a.AppParams = map[basics.AppIndex]basics.AppParams{}
			}
			a.AppParams[rec.Aidx] = rec.Params.Params.Clone()
		default:
			if _, had := a.AppParams[rec.Aidx]; had {
				return nil, fmt.Errorf("model: round %d record ambiguity: app params (%v,%d) nil/not-deleted in delta but present before", s.Round, rec.Addr, rec.Aidx)
			}
		}
		switch {
		case rec.State.Deleted && rec.State.LocalState != nil:
			return nil, fmt.Errorf("model: round %d app local state (%v,%d) both Deleted and present", s.Round, rec.Addr, rec.Aidx)
		case rec.State.Deleted:
			delete(a.AppLocals, rec.Aidx)
		case rec.State.LocalState != nil:
			if a.AppLocals == nil {
				a.AppLocals = map[basics.AppIndex]basics.AppLocalState{}
			}
			a.AppLocals[rec.Aidx] = rec.State.LocalState.Clone()
		default:
			if _, had := a.AppLocals[rec.Aidx]; had {
				return nil, fmt.Errorf("model: round %d record ambiguity: app local state (%v,%d) nil/not-deleted in delta but present before", s.Round, rec.Addr, rec.Aidx)
			}
		}
	}
	for addr, a := range fresh {
		before := base.Acct(addr)
		if a.IsEmpty() {
			delete(s.Accts, addr)
			if !before.IsEmpty() {
				s.Changes.Closed++
			}
		} else {
			s.Accts[addr] = a
			if before.IsEmpty() {
				s.Changes.Created++
			}
		}
		if before.Data.Status != a.Data.Status && !before.IsEmpty() && !a.IsEmpty() {
			s.Changes.StatusChanged++
		}
	}
	for k, v := range delta.KvMods {
		s.Changes.Kv[k] = true
		if v.Data == nil {
			if _, had := s.Kv[k]; had {
				s.Changes.KvDeleted++
			}
			delete(s.Kv, k)
		} else {
			if _, had := base.Kv[k]; !had && m.kvEver[k] {
				s.Changes.KvRecreated++
			}
			s.Kv[k] = bytes.Clone(v.Data)
			if s.Kv[k] == nil {
				s.Kv[k] = []byte{}
			}
		}
	}
	for cidx, c := range delta.Creatables {
		s.Changes.Creatables[cidx] = true
		if c.Created {
			s.Creatables[cidx] = engcCreatable{Creator: c.Creator, Ctype: c.Ctype}
		} else {
			if _, had := s.Creatables[cidx]; had {
				s.Changes.Uncreated++
			}
			delete(s.Creatables, cidx)
		}
	}
	return s, nil
}

// apply folds block blk (with its StateDelta) into the model and stores the new snapshot.
func (m *engcModel) apply(blk bookkeeping.Block, delta ledgercore.StateDelta) (*engcSnap, error) {
	s, err := m.Preview(m.Tip(), blk, delta)
	if err != nil {
		return nil, err
	}
	m.snaps = append(m.snaps, s)
	for a := range s.Accts {
		m.ever[a] = true
	}
	for k := range s.Changes.Kv {
		if _, ok := s.Kv[k]; ok {
			m.kvEver[k] = true
		}
	}
	for id, c := range s.Creatables {
		m.crEver[id] = c.Ctype
	}
	return s, nil
}

// engcSnapEqual compares the state part (accounts, kv, creatables) of two snapshots; "" if equal, else a description.
func engcSnapEqual(a, b *engcSnap) string {
	if len(a.Accts) != len(b.Accts) {
		return fmt.Sprintf("account sets differ: %d vs %d", len(a.Accts), len(b.Accts))
	}
	for addr, x := range a.Accts {
		y, ok := b.Accts[addr]
		if !ok {
			return fmt.Sprintf("account %v missing on one side", addr)
		}
		fx, fy := x.Full(), y.Full()
		if !bytes.Equal(protocol.Encode(&fx), protocol.Encode(&fy)) {
			return fmt.Sprintf("account %v differs: %+v vs %+v", addr, fx, fy)
		}
	}
	if len(a.Kv) != len(b.Kv) {
		return fmt.Sprintf("kv sets differ: %d vs %d", len(a.Kv), len(b.Kv))
	}
	for k, v := range a.Kv {
		w, ok := b.Kv[k]
		if !ok || !bytes.Equal(v, w) {
			return fmt.Sprintf("kv %q differs: %x vs %x (present %v)", k, v, w, ok)
		}
	}
	if len(a.Creatables) != len(b.Creatables) {
		return fmt.Sprintf("creatable sets differ: %d vs %d", len(a.Creatables), len(b.Creatables))
	}
	for k, v := range a.Creatables {
		if w, ok := b.Creatables[k]; !ok || v != w {
			return fmt.Sprintf("creatable %d differs: %+v vs %+v (present %v)", k, v, w, ok)
		}
	}
	return ""
}

// LastChange returns the greatest round in (lo, hi] whose block touched the entity selected by touched(), or 0 if none.
func (m *engcModel) LastChange(lo, hi basics.Round, touched func(c *engcChanges) bool) basics.Round {
	if hi > m.Latest() {
		hi = m.Latest()
	}
	for r := hi; r > lo; r-- {
		if touched(&m.snaps[r].Changes) {
			return r
		}
	}
	return 0
}
