package ledger

// C23 — Application storage accounting matches stored state.
//
// A drawn history of application calls (box create/put/resize/replace/splice/delete with adversarial names and sizes,
// same-transaction and same-group create+delete / delete+recreate, global and local key put/del with type changes,
// opt-in / close-out / clear-state with passing and failing clear programs, schema-changing updates, app deletion with
// boxes outstanding, app-account close attempts, inner app calls doing box/global ops) is run through the real
// BlockEvaluator on a fresh ledger. After every block, for every app account, TotalBoxes / TotalBoxBytes are compared
// with the boxes enumerated from the kv store (LookupKeysByPrefix + LookupKv) AND with a reference model of which boxes
// must exist; every global / local state is enumerated and its per-type key counts are compared with the declared
// schema; every account's TotalAppSchema is compared with the sum of the declared schemas it is responsible for.

import (
	"encoding/binary"
	"fmt"
	"io"
	"regexp"
	"sort"
	"strings"
	"testing"
	"time"

	"pgregory.net/rapid"

	"github.com/algorand/go-algorand/config"
	"github.com/algorand/go-algorand/data/basics"
	"github.com/algorand/go-algorand/data/transactions"
	"github.com/algorand/go-algorand/data/transactions/logic"
	"github.com/algorand/go-algorand/data/txntest"
	ledgertesting "github.com/algorand/go-algorand/ledger/testing"
	"github.com/algorand/go-algorand/logging"
	"github.com/algorand/go-algorand/protocol"
)

// ---------------------------------------------------------------- programs

// Approval program: approves creation and argument-less calls; otherwise performs exactly the operation named by
// ApplicationArgs[0] (or fails), leaving an empty stack.
const c23ApprovalSource = `
txn ApplicationID
bz end
txn NumAppArgs
bz end

txn ApplicationArgs 0; byte "bc"; ==; bz n1
  txn ApplicationArgs 1; txn ApplicationArgs 2; btoi; box_create; pop
  b end
n1:
txn ApplicationArgs 0; byte "bp"; ==; bz n2
  txn ApplicationArgs 1; txn ApplicationArgs 2; box_put
  b end
n2:
txn ApplicationArgs 0; byte "br"; ==; bz n3
  txn ApplicationArgs 1; txn ApplicationArgs 2; btoi; box_resize
  b end
n3:
txn ApplicationArgs 0; byte "bx"; ==; bz n4
  txn ApplicationArgs 1; txn ApplicationArgs 2; btoi; txn ApplicationArgs 3; box_replace
  b end
n4:
txn ApplicationArgs 0; byte "bs"; ==; bz n5
  txn ApplicationArgs 1; txn ApplicationArgs 2; btoi; txn ApplicationArgs 3; btoi; txn ApplicationArgs 4; box_splice
  b end
n5:
txn ApplicationArgs 0; byte "bd"; ==; bz n6
  txn ApplicationArgs 1; box_del; pop
  b end
n6:
txn ApplicationArgs 0; byte "cd"; ==; bz n7
  txn ApplicationArgs 1; txn ApplicationArgs 2; btoi; box_create; pop
  txn ApplicationArgs 1; box_del; pop
  b end
n7:
txn ApplicationArgs 0; byte "dc"; ==; bz n8
  txn ApplicationArgs 1; box_del; pop
  txn ApplicationArgs 1; txn ApplicationArgs 2; btoi; box_create; pop
  b end
n8:
txn ApplicationArgs 0; byte "gp"; ==; bz n9
  txn ApplicationArgs 1; txn ApplicationArgs 2; app_global_put
  b end
n9:
txn ApplicationArgs 0; byte "gu"; ==; bz n10
  txn ApplicationArgs 1; txn ApplicationArgs 2; btoi; app_global_put
  b end
n10:
txn ApplicationArgs 0; byte "gd"; ==; bz n11
  txn ApplicationArgs 1; app_global_del
  b end
n11:
txn ApplicationArgs 0; byte "lp"; ==; bz n12
  int 0; txn ApplicationArgs 1; txn ApplicationArgs 2; app_local_put
  b end
n12:
txn ApplicationArgs 0; byte "lu"; ==; bz n13
  int 0; txn ApplicationArgs 1; txn ApplicationArgs 2; btoi; app_local_put
  b end
n13:
txn ApplicationArgs 0; byte "ld"; ==; bz n14
  int 0; txn ApplicationArgs 1; app_local_del
  b end
n14:
txn ApplicationArgs 0; byte "in"; ==; bz n15
  itxn_begin
  int appl; itxn_field TypeEnum
  txn Applications 1; itxn_field ApplicationID
  txn ApplicationArgs 1; itxn_field ApplicationArgs
  txn NumAppArgs; int 2; >; bz insub
  txn ApplicationArgs 2; itxn_field ApplicationArgs
  txn NumAppArgs; int 3; >; bz insub
  txn ApplicationArgs 3; itxn_field ApplicationArgs
  txn NumAppArgs; int 4; >; bz insub
  txn ApplicationArgs 4; itxn_field ApplicationArgs
  txn NumAppArgs; int 5; >; bz insub
  txn ApplicationArgs 5; itxn_field ApplicationArgs
  insub:
  itxn_submit
  b end
n15:
txn ApplicationArgs 0; byte "cl"; ==; bz n16
  itxn_begin
  int pay; itxn_field TypeEnum
  txn Sender; itxn_field Receiver
  txn Sender; itxn_field CloseRemainderTo
  itxn_submit
  b end
n16:
txn ApplicationArgs 0; byte "fa"; ==; bz n17
  txn ApplicationArgs 1; btoi; app_params_set AppFamilyBoxAccess
  b end
n17:
txn ApplicationArgs 0; byte "xc"; ==; bz n18
  txn Applications 1; txn ApplicationArgs 1; txn ApplicationArgs 2; btoi; app_box_create; pop
  b end
n18:
txn ApplicationArgs 0; byte "xp"; ==; bz n19
  txn Applications 1; txn ApplicationArgs 1; txn ApplicationArgs 2; app_box_put
  b end
n19:
txn ApplicationArgs 0; byte "xr"; ==; bz n20
  txn Applications 1; txn ApplicationArgs 1; txn ApplicationArgs 2; btoi; app_box_resize
  b end
n20:
txn ApplicationArgs 0; byte "xd"; ==; bz n21
  txn Applications 1; txn ApplicationArgs 1; app_box_del; pop
  b end
n21:
txn ApplicationArgs 0; byte "no"; ==; bz bad
  b end
bad:
err
end:
int 1
`

// Clear-state program: "ok"/no args pass; "err" fails; "gp"/"gu" write a global key and pass; "gpe" writes a
// global key and then fails (the write must be discarded); "lp" writes a local key; "bx" touches a box (forbidden
// in clear-state programs, so the program fails).
const c23ClearSource = `
txn NumAppArgs
bz end
txn ApplicationArgs 0; byte "err"; ==; bz c1
  err
c1:
txn ApplicationArgs 0; byte "gp"; ==; bz c2
  txn ApplicationArgs 1; txn ApplicationArgs 2; app_global_put
  b end
c2:
txn ApplicationArgs 0; byte "gu"; ==; bz c3
  txn ApplicationArgs 1; txn ApplicationArgs 2; btoi; app_global_put
  b end
c3:
txn ApplicationArgs 0; byte "gpe"; ==; bz c4
  txn ApplicationArgs 1; txn ApplicationArgs 2; app_global_put
  err
c4:
txn ApplicationArgs 0; byte "lp"; ==; bz c5
  int 0; txn ApplicationArgs 1; txn ApplicationArgs 2; app_local_put
  b end
c5:
txn ApplicationArgs 0; byte "bx"; ==; bz end
  txn ApplicationArgs 1; int 8; box_create; pop
end:
int 1
`

func c23Assemble(t *testing.T, src string, version uint64) []byte {
	ops, err := logic.AssembleString(fmt.Sprintf("#pragma version %d\n%s", version, strings.ReplaceAll(src, ";", "\n")))
	if err != nil {
		t.Fatalf("assemble: %v %v", err, ops.Errors)
	}
	return ops.Program
}

// ---------------------------------------------------------------- reference model

type c23App struct {
	ID      basics.AppIndex
	Creator basics.Address
	Sponsor basics.Address // account charged for the global schema (creator unless a size-changing update moved it)
	G, L    basics.StateSchema
	Alive   bool
	Family  bool                                  // FamilyBoxAccess currently set (same-creator apps may use app_box_* on this app's boxes)
	Closed  bool                                  // the app ACCOUNT was closed out (no funds) and not re-funded yet
	Boxes   map[string]int                        // name -> value length
	LastDel map[string]int                        // name -> value length at the most recent deletion
	Opted   map[basics.Address]basics.StateSchema // opted-in accounts and the local schema they were charged
}

func (a *c23App) clone() *c23App {
	c := *a
	c.Boxes = make(map[string]int, len(a.Boxes))
	for k, v := range a.Boxes {
		c.Boxes[k] = v
	}
	c.LastDel = make(map[string]int, len(a.LastDel))
	for k, v := range a.LastDel {
		c.LastDel[k] = v
	}
	c.Opted = make(map[basics.Address]basics.StateSchema, len(a.Opted))
	for k, v := range a.Opted {
		c.Opted[k] = v
	}
	return &c
}

type c23Model struct{ apps []*c23App }

func (m *c23Model) clone() *c23Model {
	c := &c23Model{apps: make([]*c23App, len(m.apps))}
	for i, a := range m.apps {
		c.apps[i] = a.clone()
	}
	return c
}

// applyBox applies the effect an ACCEPTED box operation must have had. nt reports a non-trivial accounting event.
func (a *c23App) applyBox(op string, name string, size int) (nt string) {
	old, existed := a.Boxes[name]
	switch op {
	case "bc", "bp":
		if !existed {
			a.Boxes[name] = size
			if d, ok := a.LastDel[name]; ok && d != size {
				nt = "recreate-other-size"
			}
		}
	case "br":
		a.Boxes[name] = size
		if existed && old != size {
			nt = "resize"
		}
	case "bd":
		if existed {
			a.LastDel[name] = old
			delete(a.Boxes, name)
		}
	case "cd":
		if existed {
			a.LastDel[name] = old
		} else {
			a.LastDel[name] = size
		}
		delete(a.Boxes, name)
	case "dc":
		a.Boxes[name] = size
		if existed && old != size {
			nt = "recreate-other-size"
		}
	}
	return
}

// ---------------------------------------------------------------- generator

// c23R draws an integer uniformly from [lo, hi]. rapid.IntRange is deliberately biased towards small values, which
// would distort every weighted choice and percentage below; 24 fair coin flips give an (almost exactly) uniform draw
// that still shrinks towards lo.
func c23R(t *rapid.T, label string, lo, hi int) int {
	if hi <= lo {
		return lo
	}
	bits := rapid.SliceOfN(rapid.Bool(), 24, 24).Draw(t, label)
	v := 0
	for _, b := range bits {
		v <<= 1
		if b {
			v |= 1
		}
	}
	return lo + v%(hi-lo+1)
}

type c23Op struct {
	K      string // box/global/local op code, or: optin closeout clear delete update fund
	App    int    // index of the called app
	Via    int    // >= 0: the op is forwarded by app Via as an inner call to App (or, with Cross, done by app Via with app_box_*)
	Cross  bool   // app Via performs the box op on App's box with the AVM v13 app_box_* opcodes
	Caller int
	Name   string
	Size   int
	Start  int
	Len    int
	Val    int // length of the value argument (content is derived)
	Clear  string
	G      basics.StateSchema
}

func (o c23Op) String() string {
	via := ""
	if o.Via >= 0 {
		via = fmt.Sprintf(" via app%d", o.Via)
		if o.Cross {
			via = fmt.Sprintf(" by app%d(app_box_*)", o.Via)
		}
	}
	if o.K == "fa" {
		return fmt.Sprintf("fa(app%d c%d family=%d)", o.App, o.Caller, o.Val)
	}
	switch o.K {
	case "bc", "br", "cd", "dc":
		return fmt.Sprintf("%s(app%d%s c%d %q size=%d)", o.K, o.App, via, o.Caller, o.Name, o.Size)
	case "bp":
		return fmt.Sprintf("bp(app%d%s c%d %q len=%d)", o.App, via, o.Caller, o.Name, o.Val)
	case "bx":
		return fmt.Sprintf("bx(app%d%s c%d %q @%d len=%d)", o.App, via, o.Caller, o.Name, o.Start, o.Val)
	case "bs":
		return fmt.Sprintf("bs(app%d%s c%d %q @%d del=%d ins=%d)", o.App, via, o.Caller, o.Name, o.Start, o.Len, o.Val)
	case "bd":
		return fmt.Sprintf("bd(app%d%s c%d %q)", o.App, via, o.Caller, o.Name)
	case "gp", "gu", "gd", "lp", "lu", "ld":
		return fmt.Sprintf("%s(app%d%s c%d %q)", o.K, o.App, via, o.Caller, o.Name)
	case "clear":
		return fmt.Sprintf("clear(app%d c%d %s %q)", o.App, o.Caller, o.Clear, o.Name)
	case "update":
		return fmt.Sprintf("update(app%d c%d g=%d/%d)", o.App, o.Caller, o.G.NumUint, o.G.NumByteSlice)
	}
	return fmt.Sprintf("%s(app%d c%d)", o.K, o.App, o.Caller)
}

var c23Names = []string{"a", "ab", "abc", "b", "\x00", "\x00\x00", "\xff", "a\x00", "a\xff", "bx:", strings.Repeat("x", 63), strings.Repeat("x", 64)}
var c23Keys = []string{"a", "b", "c", "", "\x00", strings.Repeat("k", 64)}

func c23DrawSize(t *rapid.T) int {
	switch c23R(t, "sizeKind", 0, 19) {
	case 0:
		return 0
	case 1:
		return 1
	case 2, 3, 4, 5:
		return c23R(t, "sizeSmall", 2, 64)
	case 6, 7, 8:
		return 1024 + c23R(t, "size1k", -1, 1)
	case 9, 10:
		return 2048 + c23R(t, "size2k", -1, 1)
	case 11, 12:
		return 4096 + c23R(t, "size4k", -1, 1)
	case 13:
		return 8192
	case 14:
		return 32768 + c23R(t, "sizeMax", -1, 1)
	default:
		return c23R(t, "size", 0, 3000)
	}
}

type c23World struct {
	actors  []basics.Address
	m       *c23Model
	seq     int
	bytesBR uint64
	all     []basics.Address
}

func (w *c23World) drawName(t *rapid.T, a *c23App, wantExisting int) string {
	// wantExisting: percent chance to pick a name that currently exists in the app (if any)
	if len(a.Boxes) > 0 && c23R(t, "nameExisting", 0, 99) < wantExisting {
		names := make([]string, 0, len(a.Boxes))
		for n := range a.Boxes {
			names = append(names, n)
		}
		sort.Strings(names)
		return names[c23R(t, "nameIdx", 0, len(names)-1)]
	}
	switch c23R(t, "nameOdd", 0, 49) {
	case 0:
		return "" // illegal: zero length
	case 1:
		return strings.Repeat("y", 65) // illegal: too long
	}
	return c23Names[c23R(t, "name", 0, len(c23Names)-1)]
}

func (w *c23World) drawOp(t *rapid.T, progress int) c23Op {
	m := w.m
	op := c23Op{Via: -1}
	op.App = c23R(t, "app", 0, len(m.apps)-1)
	a := m.apps[op.App]
	op.Caller = c23R(t, "caller", 0, len(w.actors)-1)
	var opted, notOpted []int
	for i, ad := range w.actors {
		if _, ok := a.Opted[ad]; ok {
			opted = append(opted, i)
		} else {
			notOpted = append(notOpted, i)
		}
	}
	pickFrom := func(label string, set []int) {
		if len(set) > 0 && c23R(t, label+"Pref", 0, 9) < 9 {
			op.Caller = set[c23R(t, label, 0, len(set)-1)]
		}
	}
	type wk struct {
		k string
		w int
	}
	ws := []wk{{"bc", 14}, {"bp", 8}, {"br", 12}, {"bx", 4}, {"bs", 4}, {"bd", 9}, {"cd", 3}, {"dc", 5},
		{"gp", 9}, {"gu", 9}, {"gd", 4}, {"lp", 5}, {"lu", 5}, {"ld", 3},
		{"optin", 7}, {"closeout", 3}, {"clear", 4}, {"update", 3}, {"cl", 2}, {"fund", 1}, {"fa", 3}}
	if !a.Family {
		ws[20].w = 9
	}
	if len(opted) == 0 {
		ws[14].w = 16
		ws[11].w, ws[12].w, ws[13].w = 1, 1, 1
	} else if len(opted) < 3 {
		ws[14].w = 9
		ws[11].w, ws[12].w = 8, 8
	}
	if a.Closed {
		ws[19].w = 60
	}
	if progress > 40 {
		ws = append(ws, wk{"delete", 2})
	}
	if !a.Alive {
		ws = []wk{{"bc", 3}, {"bd", 3}, {"gp", 2}, {"clear", 8}, {"closeout", 2}, {"optin", 1}, {"fund", 1}}
	}
	tot := 0
	for _, x := range ws {
		tot += x.w
	}
	r := c23R(t, "opKind", 0, tot-1)
	for _, x := range ws {
		if r < x.w {
			op.K = x.k
			break
		}
		r -= x.w
	}
	switch op.K {
	case "bc":
		op.Name = w.drawName(t, a, 20)
		op.Size = c23DrawSize(t)
		if sz, ok := a.Boxes[op.Name]; ok && rapid.Bool().Draw(t, "sameSize") {
			op.Size = sz
		} else if d, ok := a.LastDel[op.Name]; ok && c23R(t, "lastDelSize", 0, 3) == 0 {
			op.Size = d // sometimes recreate with the old size
		}
	case "bp":
		op.Name = w.drawName(t, a, 40)
		op.Val = []int{0, 1, 5, 64, 1000, 1024, 4096}[c23R(t, "putLen", 0, 6)]
		if sz, ok := a.Boxes[op.Name]; ok && sz <= 4096 && c23R(t, "putSame", 0, 3) != 0 {
			op.Val = sz
		}
	case "br", "dc":
		op.Name = w.drawName(t, a, 90)
		op.Size = c23DrawSize(t)
		if sz, ok := a.Boxes[op.Name]; ok && c23R(t, "resizeNear", 0, 2) == 0 {
			op.Size = sz + c23R(t, "resizeDelta", -2, 2)
			if op.Size < 0 {
				op.Size = 0
			}
		}
	case "cd":
		op.Name = w.drawName(t, a, 30)
		op.Size = c23DrawSize(t)
		if sz, ok := a.Boxes[op.Name]; ok {
			op.Size = sz
		}
	case "bx", "bs":
		op.Name = w.drawName(t, a, 92)
		sz := a.Boxes[op.Name]
		op.Val = c23R(t, "replLen", 0, 40)
		hi := sz - op.Val
		if c23R(t, "replBeyond", 0, 5) == 0 {
			hi = sz + 2
		}
		if hi < 0 {
			hi = 0
		}
		op.Start = c23R(t, "replStart", 0, hi)
		if op.K == "bs" {
			rest := sz - op.Start
			if rest < 0 {
				rest = 0
			}
			op.Len = c23R(t, "spliceLen", 0, rest+1)
		}
	case "bd":
		op.Name = w.drawName(t, a, 88)
	case "gp", "gu", "gd":
		op.Name = c23Keys[c23R(t, "key", 0, len(c23Keys)-1)]
		if c23R(t, "hotKey", 0, 9) < 6 {
			op.Name = c23Keys[c23R(t, "hotKeyIdx", 0, 1)]
		}
		op.Val = c23R(t, "valLen", 0, 20)
	case "lp", "lu", "ld":
		op.Name = c23Keys[c23R(t, "key", 0, len(c23Keys)-1)]
		if c23R(t, "hotKey", 0, 9) < 6 {
			op.Name = c23Keys[c23R(t, "hotKeyIdx", 0, 1)]
		}
		op.Val = c23R(t, "valLen", 0, 20)
		pickFrom("optedCaller", opted)
	case "optin":
		pickFrom("newCaller", notOpted)
		if rapid.Bool().Draw(t, "optinWrites") { // write a local key in the opt-in call itself
			op.Name = c23Keys[c23R(t, "key", 0, 2)]
			op.Clear = []string{"lp", "lu"}[c23R(t, "optinOp", 0, 1)]
		}
	case "closeout":
		pickFrom("optedCaller", opted)
	case "clear":
		pickFrom("optedCaller", opted)
		op.Clear = []string{"ok", "err", "gp", "gu", "gpe", "lp", "bx", ""}[c23R(t, "clearKind", 0, 7)]
		op.Name = c23Keys[c23R(t, "key", 0, 2)]
	case "fa":
		op.Val = 1
		if c23R(t, "familyOff", 0, 9) < 2 || (a.Family && c23R(t, "familyOff2", 0, 9) < 4) {
			op.Val = 0
		}
	case "update":
		op.G = basics.StateSchema{NumUint: uint64(c23R(t, "gUint", 0, 3)), NumByteSlice: uint64(c23R(t, "gBytes", 0, 3))}
		if op.G == (basics.StateSchema{}) && c23R(t, "plainUpdate", 0, 3) != 0 {
			op.G.NumUint = 1
		}
		if c23R(t, "byCreator", 0, 2) != 0 {
			for i, ad := range w.actors {
				if ad == a.Creator {
					op.Caller = i
				}
			}
		}
	}
	// forward box / global ops through another app as an inner call, or let a sibling app do the box op itself
	// with the AVM v13 app_box_* opcodes (allowed for same-creator apps once the owner set FamilyBoxAccess)
	switch op.K {
	case "bc", "bp", "br", "bx", "bs", "bd", "cd", "dc", "gp", "gu", "gd":
		if len(m.apps) > 1 {
			r := c23R(t, "inner", 0, 99)
			crossPct := 8
			if a.Family {
				crossPct = 30
			}
			cross := false
			switch op.K {
			case "bc", "bp", "br", "bd":
				cross = r >= 14 && r < 14+crossPct
			}
			if r < 14 || cross {
				v := c23R(t, "via", 0, len(m.apps)-2)
				if v >= op.App {
					v++
				}
				if cross && m.apps[v].Creator != a.Creator && c23R(t, "crossFamily", 0, 9) < 8 {
					for j, b := range m.apps { // mostly a sibling (same creator), sometimes a foreign app (must be refused)
						if j != op.App && b.Creator == a.Creator && b.Alive {
							v = j
						}
					}
				}
				op.Via = v
				op.Cross = cross
			}
		}
	}
	return op
}

func c23U64(x int) []byte {
	b := make([]byte, 8)
	binary.BigEndian.PutUint64(b, uint64(x))
	return b
}

func c23Value(n int, salt int) []byte {
	b := make([]byte, n)
	for i := range b {
		b[i] = byte(salt + i*7)
	}
	return b
}

// build turns an op into a transaction; boxNeed returns (app id, name, bytes of io budget wanted) if a box is touched
func (w *c23World) build(op c23Op, progs [2][]byte) (tx *txntest.Txn, boxApp basics.AppIndex, boxName string, need int) {
	w.seq++
	a := w.m.apps[op.App]
	tx = &txntest.Txn{Type: "appl", Sender: w.actors[op.Caller], ApplicationID: a.ID, Note: fmt.Sprintf("c23-%d", w.seq)}
	var args [][]byte
	name := []byte(op.Name)
	switch op.K {
	case "bc", "br", "cd", "dc":
		args = [][]byte{[]byte(op.K), name, c23U64(op.Size)}
		need = op.Size
	case "bp":
		args = [][]byte{[]byte("bp"), name, c23Value(op.Val, w.seq)}
		need = op.Val
	case "bx":
		args = [][]byte{[]byte("bx"), name, c23U64(op.Start), c23Value(op.Val, w.seq)}
	case "bs":
		args = [][]byte{[]byte("bs"), name, c23U64(op.Start), c23U64(op.Len), c23Value(op.Val, w.seq)}
	case "bd":
		args = [][]byte{[]byte("bd"), name}
	case "gp", "lp":
		args = [][]byte{[]byte(op.K), name, c23Value(op.Val, w.seq)}
	case "gu", "lu":
		args = [][]byte{[]byte(op.K), name, c23U64(op.Val)}
	case "gd", "ld":
		args = [][]byte{[]byte(op.K), name}
	case "optin":
		tx.OnCompletion = transactions.OptInOC
		if op.Clear == "lp" {
			args = [][]byte{[]byte("lp"), name, c23Value(3, w.seq)}
		} else if op.Clear == "lu" {
			args = [][]byte{[]byte("lu"), name, c23U64(7)}
		}
	case "closeout":
		tx.OnCompletion = transactions.CloseOutOC
	case "clear":
		tx.OnCompletion = transactions.ClearStateOC
		switch op.Clear {
		case "gp", "gpe", "lp":
			args = [][]byte{[]byte(op.Clear), name, c23Value(4, w.seq)}
		case "gu":
			args = [][]byte{[]byte("gu"), name, c23U64(9)}
		case "bx":
			args = [][]byte{[]byte("bx"), []byte("a")}
		case "":
		default:
			args = [][]byte{[]byte(op.Clear)}
		}
	case "delete":
		tx.OnCompletion = transactions.DeleteApplicationOC
	case "update":
		tx.OnCompletion = transactions.UpdateApplicationOC
		tx.ApprovalProgram, tx.ClearStateProgram = progs[0], progs[1]
		tx.GlobalStateSchema = op.G
	case "cl":
		args = [][]byte{[]byte("cl")}
	case "fund":
		return &txntest.Txn{Type: "pay", Sender: w.actors[op.Caller], Receiver: a.ID.Address(), Amount: 30_000_000, Note: tx.Note}, 0, "", 0
	}
	isBox := false
	switch op.K {
	case "bc", "bp", "br", "bx", "bs", "bd", "cd", "dc":
		isBox = true
		if sz, ok := a.Boxes[op.Name]; ok && sz > need {
			need = sz
		}
	}
	if op.K == "fa" {
		args = [][]byte{[]byte("fa"), c23U64(op.Val)}
	}
	if op.Via >= 0 {
		v := w.m.apps[op.Via]
		tx.ApplicationID = v.ID
		tx.ForeignApps = []basics.AppIndex{a.ID}
		if op.Cross {
			args[0] = []byte("x" + op.K[1:]) // bc -> xc (app_box_create), bp -> xp, br -> xr, bd -> xd
		} else {
			args = append([][]byte{[]byte("in")}, args...)
		}
		if isBox {
			tx.Boxes = []transactions.BoxRef{{Index: 1, Name: name}}
		}
	} else if isBox {
		tx.Boxes = []transactions.BoxRef{{Index: 0, Name: name}}
	}
	tx.ApplicationArgs = args
	if isBox {
		if len(name) > 64 {
			tx.Boxes = nil // such a reference is malformed; the op then fails on the missing reference
		}
		return tx, a.ID, op.Name, need
	}
	return tx, 0, "", 0
}

// applyAccepted applies to model mc the effects the ops of an accepted group must have had.
func (w *c23World) applyAccepted(mc *c23Model, ops []c23Op, nts map[string]bool) {
	for _, op := range ops {
		a := mc.apps[op.App]
		caller := w.actors[op.Caller]
		switch op.K {
		case "bc", "br", "cd", "dc", "bd":
			if nt := a.applyBox(op.K, op.Name, op.Size); nt != "" {
				nts[nt] = true
			}
		case "bp":
			if nt := a.applyBox("bp", op.Name, op.Val); nt != "" {
				nts[nt] = true
			}
		case "optin":
			a.Opted[caller] = a.L
		case "closeout", "clear":
			delete(a.Opted, caller)
		case "delete":
			a.Alive = false
		case "fa":
			a.Family = op.Val == 1
		case "cl":
			a.Closed = true
		case "fund":
			a.Closed = false
		case "update":
			if op.G != (basics.StateSchema{}) { // an update without sizing fields leaves schema and sponsor alone
				a.G = op.G
				a.Sponsor = caller
			}
		}
	}
}

// ---------------------------------------------------------------- oracle

func c23BoxPrefix(app basics.AppIndex) string {
	b := make([]byte, 8)
	binary.BigEndian.PutUint64(b, uint64(app))
	return "bx:" + string(b)
}

func c23CountTypes(kv basics.TealKeyValue) (nu, nb uint64, bad bool) {
	for _, v := range kv {
		switch v.Type {
		case basics.TealUintType:
			nu++
		case basics.TealBytesType:
			nb++
		default:
			bad = true
		}
	}
	return
}

type c23Snap map[string]basics.TealType // "<app>/g/<key>" or "<app>/l/<acct>/<key>" -> type

func (w *c23World) checkLedger(t *rapid.T, tt *testing.T, l *Ledger, vk *vkCtx, when string, prev c23Snap, nts map[string]bool) c23Snap {
	rnd := l.Latest()
	snap := c23Snap{}
	ads := make(map[basics.Address]basics.AccountData, len(w.all))
	for _, ad := range w.all {
		ads[ad] = lookup(tt, l, ad)
	}
	wantSchema := map[basics.Address]basics.StateSchema{}   // from the reference model
	storedSchema := map[basics.Address]basics.StateSchema{} // from the stored params / local states
	for ai, a := range w.m.apps {
		// ---- boxes: recorded counters vs kv store enumeration vs reference model
		prefix := c23BoxPrefix(a.ID)
		keys, err := l.LookupKeysByPrefix(rnd, prefix, 1_000_000)
		if err != nil {
			tt.Fatalf("LookupKeysByPrefix: %v", err)
		}
		var n, bytes uint64
		seen := map[string]int{}
		for _, k := range keys {
			if !strings.HasPrefix(k, prefix) {
				t.Fatalf("%s: LookupKeysByPrefix returned %q for prefix %q", when, k, prefix)
			}
			v, err := l.LookupKv(rnd, k)
			if err != nil {
				tt.Fatalf("LookupKv: %v", err)
			}
			if v == nil {
				t.Fatalf("%s: app%d: key %q enumerated but has no value", when, ai, k)
			}
			name := k[len(prefix):]
			if _, dup := seen[name]; dup {
				t.Fatalf("%s: app%d: box %q enumerated twice", when, ai, name)
			}
			seen[name] = len(v)
			n++
			bytes += uint64(len(name) + len(v))
		}
		acct := ads[a.ID.Address()]
		if acct.TotalBoxes != n || acct.TotalBoxBytes != bytes {
			t.Fatalf("%s: app%d (id %d): account records TotalBoxes=%d TotalBoxBytes=%d but the kv store holds %d boxes / %d bytes: %v",
				when, ai, a.ID, acct.TotalBoxes, acct.TotalBoxBytes, n, bytes, seen)
		}
		var mn, mbytes uint64
		for name, sz := range a.Boxes {
			mn++
			mbytes += uint64(len(name) + sz)
			if got, ok := seen[name]; !ok || got != sz {
				t.Fatalf("%s: app%d: box %q must exist with %d bytes after the accepted operations; kv store has (%d, present=%v)", when, ai, name, sz, got, ok)
			}
		}
		if mn != n {
			t.Fatalf("%s: app%d: kv store holds %d boxes %v, the accepted operations leave %d %v", when, ai, n, seen, mn, a.Boxes)
		}
		if acct.TotalBoxes != mn || acct.TotalBoxBytes != mbytes {
			t.Fatalf("%s: app%d: recorded TotalBoxes=%d TotalBoxBytes=%d, accepted operations leave %d / %d", when, ai, acct.TotalBoxes, acct.TotalBoxBytes, mn, mbytes)
		}
		vk.Add("box_account_checks", 1)
		vk.Add("boxes_enumerated", int64(n))

		// ---- existence and global state
		creator, exists, err := l.GetCreator(basics.CreatableIndex(a.ID), basics.AppCreatable)
		if err != nil {
			tt.Fatalf("GetCreator: %v", err)
		}
		if exists != a.Alive {
			t.Fatalf("%s: app%d exists=%v in the ledger, %v after the accepted operations", when, ai, exists, a.Alive)
		}
		if exists {
			if creator != a.Creator {
				t.Fatalf("%s: app%d creator changed", when, ai)
			}
			params, ok := ads[creator].AppParams[a.ID]
			if !ok {
				t.Fatalf("%s: app%d has no params in its creator account", when, ai)
			}
			nu, nb, bad := c23CountTypes(params.GlobalState)
			if bad || nu > params.GlobalStateSchema.NumUint || nb > params.GlobalStateSchema.NumByteSlice {
				t.Fatalf("%s: app%d global state holds %d uint / %d byteslice keys, declared schema %+v (state %v)", when, ai, nu, nb, params.GlobalStateSchema, params.GlobalState)
			}
			if params.GlobalStateSchema != a.G || params.LocalStateSchema != a.L {
				t.Fatalf("%s: app%d stored schemas %+v/%+v differ from the declared ones %+v/%+v", when, ai, params.GlobalStateSchema, params.LocalStateSchema, a.G, a.L)
			}
			sponsor := params.SizeSponsor
			if sponsor.IsZero() {
				sponsor = creator
			}
			storedSchema[sponsor] = storedSchema[sponsor].AddSchema(params.GlobalStateSchema)
			msp := a.Sponsor
			if msp.IsZero() {
				msp = a.Creator
			}
			wantSchema[msp] = wantSchema[msp].AddSchema(a.G)
			for k, v := range params.GlobalState {
				key := fmt.Sprintf("%d/g/%s", ai, k)
				snap[key] = v.Type
				if pt, ok := prev[key]; ok && pt != v.Type {
					if (v.Type == basics.TealUintType && nu == params.GlobalStateSchema.NumUint) || (v.Type == basics.TealBytesType && nb == params.GlobalStateSchema.NumByteSlice) {
						nts["type-change-at-limit"] = true
					} else {
						nts["type-change"] = true
					}
				}
			}
			vk.Add("global_schema_checks", 1)
		}
		// ---- local states of every account
		for xi, ad := range w.all {
			ls, ok := ads[ad].AppLocalStates[a.ID]
			msch, mok := a.Opted[ad]
			if ok != mok {
				t.Fatalf("%s: account#%d opted-in to app%d = %v in the ledger, %v after the accepted operations", when, xi, ai, ok, mok)
			}
			if !ok {
				continue
			}
			nu, nb, bad := c23CountTypes(ls.KeyValue)
			if bad || nu > ls.Schema.NumUint || nb > ls.Schema.NumByteSlice {
				t.Fatalf("%s: account#%d local state of app%d holds %d uint / %d byteslice keys, schema %+v (state %v)", when, xi, ai, nu, nb, ls.Schema, ls.KeyValue)
			}
			if ls.Schema != msch {
				t.Fatalf("%s: account#%d local schema for app%d is %+v, the app declared %+v", when, xi, ai, ls.Schema, msch)
			}
			storedSchema[ad] = storedSchema[ad].AddSchema(ls.Schema)
			wantSchema[ad] = wantSchema[ad].AddSchema(msch)
			for k, v := range ls.KeyValue {
				key := fmt.Sprintf("%d/l/%d/%s", ai, xi, k)
				snap[key] = v.Type
				if pt, ok := prev[key]; ok && pt != v.Type {
					if (v.Type == basics.TealUintType && nu == ls.Schema.NumUint) || (v.Type == basics.TealBytesType && nb == ls.Schema.NumByteSlice) {
						nts["type-change-at-limit"] = true
					} else {
						nts["type-change"] = true
					}
				}
			}
			vk.Add("local_schema_checks", 1)
		}
	}
	// ---- account-level totals
	for xi, ad := range w.all {
		got := ads[ad].TotalAppSchema
		if got != storedSchema[ad] {
			t.Fatalf("%s: account#%d TotalAppSchema=%+v but the schemas of its stored app params/local states sum to %+v", when, xi, got, storedSchema[ad])
		}
		if got != wantSchema[ad] {
			t.Fatalf("%s: account#%d TotalAppSchema=%+v but the declared schemas it is responsible for sum to %+v", when, xi, got, wantSchema[ad])
		}
	}
	vk.Add("account_schema_checks", int64(len(w.all)))
	return snap
}

// ---------------------------------------------------------------- the property

func TestVerif_C23_History(t *testing.T) {
	vk := vkBegin(t, "C23")
	vk.Rule("histories of 4-10 blocks x 1-6 groups x 1-3 app calls (+ budget padding calls) over 2-3 apps with drawn global/local schemas (0-3 per type) and 5 callers; " +
		"box names share prefixes / contain 0x00,0xff / have length 63,64 (and illegal 0,65), sizes 0,1,~1024,~2048,~4096,8192,~32768; ops incl. same-txn and same-group create+delete, delete+recreate, " +
		"inner-app forwarding, key type flips, failing clear programs, schema-changing updates, app deletion and app-account close with boxes outstanding; " +
		"non-trivial = an accepted resize to another size, a delete followed by a re-creation with another size, or a key type change that fills its schema limit; distinct by the full op list")
	vk.Assume("mid-block state is not readable from package ledger; accounting is read back after every block (35% of blocks hold a single group)")
	vk.Assume("deleting an app with boxes outstanding is allowed by the protocol (boxes and their accounting stay with the app account); only closing the app ACCOUNT with boxes outstanding is refused")
	gen, gaddrs, _ := ledgertesting.NewTestGenesis()
	tt := t
	quiet := logging.NewLogger()
	quiet.SetOutput(io.Discard)
	progCache := map[uint64][2][]byte{}

	rapid.Check(t, func(t *rapid.T) {
		cv := protocol.ConsensusCurrentVersion
		if c23R(t, "future", 0, 2) == 0 {
			cv = protocol.ConsensusFuture
		}
		cfg := config.GetDefaultLocal()
		// the LRU caches and the verified-txn cache preallocate ~100k entries each, which dominates the cost of a case
		cfg.DisableLedgerLRUCache = c23R(t, "lru", 0, 9) != 0
		cfg.VerifiedTranscationsCacheSize = 2000
		cfg.TxPoolSize = 1000 // OpenLedger sizes the verified-txn cache to at least TxPoolSize
		// No background tracker commits while the history runs: reads from this test would race with the commit
		// goroutine on the shared-cache in-memory sqlite ("database table is locked"). Nothing is committable with
		// a lookback longer than the history; the database path is exercised by an explicit, awaited flush at the end.
		cfg.MaxAcctLookback = 100
		t0 := time.Now()
		l := newSimpleLedgerWithConsensusVersion(tt, gen, cv, cfg, simpleLedgerLogger(quiet))
		defer l.Close()
		l.trackers.mu.Lock()
		l.trackers.lastFlushTime = time.Now().Add(24 * time.Hour)
		l.trackers.mu.Unlock()
		proto := config.Consensus[cv]
		progs, ok := progCache[proto.LogicSigVersion]
		if !ok {
			progs = [2][]byte{c23Assemble(tt, c23ApprovalSource, proto.LogicSigVersion), c23Assemble(tt, c23ClearSource, proto.LogicSigVersion)}
			progCache[proto.LogicSigVersion] = progs
		}

		w := &c23World{actors: gaddrs[:5], m: &c23Model{}, bytesBR: proto.BytesPerBoxReference}
		nApps := c23R(t, "apps", 2, 3)
		// setup block: create and fund the apps
		eval := nextBlock(tt, l)
		for i := 0; i < nApps; i++ {
			creator := gaddrs[c23R(t, "creator", 0, 4)]
			if i > 0 && c23R(t, "sameCreator", 0, 9) < 7 {
				creator = w.m.apps[0].Creator // an app family: same-creator apps may share boxes (AVM v13)
			}
			g := basics.StateSchema{NumUint: uint64(c23R(t, "gUint", 0, 2)), NumByteSlice: uint64(c23R(t, "gBytes", 0, 2))}
			ls := basics.StateSchema{NumUint: uint64(c23R(t, "lUint", 0, 2)), NumByteSlice: uint64(c23R(t, "lBytes", 0, 2))}
			id := basics.AppIndex(eval.TestingTxnCounter() + 1)
			txn(tt, l, eval, &txntest.Txn{Type: "appl", Sender: creator, ApprovalProgram: progs[0], ClearStateProgram: progs[1],
				GlobalStateSchema: g, LocalStateSchema: ls, Note: fmt.Sprintf("c23-create-%d", i)})
			txn(tt, l, eval, &txntest.Txn{Type: "pay", Sender: gaddrs[9], Receiver: id.Address(), Amount: 60_000_000, Note: fmt.Sprintf("c23-fund-%d", i)})
			family := c23R(t, "familyAtSetup", 0, 9) < 5
			if family {
				txn(tt, l, eval, &txntest.Txn{Type: "appl", Sender: creator, ApplicationID: id, ApplicationArgs: [][]byte{[]byte("fa"), c23U64(1)},
					Note: fmt.Sprintf("c23-family-%d", i)})
			}
			w.m.apps = append(w.m.apps, &c23App{ID: id, Creator: creator, G: g, L: ls, Alive: true, Family: family,
				Boxes: map[string]int{}, LastDel: map[string]int{}, Opted: map[basics.Address]basics.StateSchema{}})
		}
		endBlock(tt, l, eval)
		l.trackers.waitAccountsWriting()
		w.all = append([]basics.Address{}, gaddrs...)
		for _, a := range w.m.apps {
			w.all = append(w.all, a.ID.Address())
		}
		vk.Add("ms_setup", time.Since(t0).Milliseconds())
		t0 = time.Now()
		nts := map[string]bool{}
		snap := w.checkLedger(t, tt, l, vk, "after setup", nil, nts)

		var fp strings.Builder
		var rendered []string
		nBlocks := c23R(t, "blocks", 4, 10)
		accepted, rejected := 0, 0
		for b := 0; b < nBlocks; b++ {
			eval := nextBlock(tt, l)
			nGroups := 1
			if c23R(t, "multiGroup", 0, 19) >= 7 {
				nGroups = c23R(t, "groups", 2, 6)
			}
			for g := 0; g < nGroups; g++ {
				gs := 1
				if r := c23R(t, "groupSize", 0, 11); r >= 11 {
					gs = 3
				} else if r >= 8 {
					gs = 2
				}
				mc := w.m.clone()
				saved := w.m
				var ops []c23Op
				var txs []*txntest.Txn
				gnts := map[string]bool{}
				type boxKey struct {
					app  basics.AppIndex
					name string
				}
				needs := map[boxKey]int{}
				refs := 0
				for i := 0; i < gs; i++ {
					// ops are drawn against the state the earlier ops of the group would leave if the group is accepted
					w.m = mc
					op := w.drawOp(t, 100*b/nBlocks)
					if i > 0 && c23R(t, "pairUp", 0, 3) == 0 {
						// same-group create+delete / delete+recreate on the box touched by the previous op
						p := ops[i-1]
						switch p.K {
						case "bc", "bp", "br", "dc":
							op = c23Op{K: "bd", App: p.App, Via: -1, Caller: op.Caller, Name: p.Name}
						case "bd", "cd":
							op = c23Op{K: "bc", App: p.App, Via: -1, Caller: op.Caller, Name: p.Name, Size: c23DrawSize(t)}
						}
					}
					tx, bapp, bname, need := w.build(op, progs)
					w.applyAccepted(mc, []c23Op{op}, gnts)
					ops = append(ops, op)
					txs = append(txs, tx)
					if bapp != 0 {
						k := boxKey{bapp, bname}
						if need > needs[k] {
							needs[k] = need
						}
					}
				}
				w.m = saved
				// io budget: give every box-touching group enough (empty) box references, within the group limits
				want := 0
				for _, n := range needs {
					want += n
				}
				for _, tx := range txs {
					if tx.Type != "appl" {
						continue
					}
					room := 8 - len(tx.Boxes) - len(tx.ForeignApps) - len(tx.Accounts)
					for ; room > 0 && uint64(refs+len(tx.Boxes))*w.bytesBR < uint64(want)+1 && len(needs) > 0; room-- {
						tx.Boxes = append(tx.Boxes, transactions.BoxRef{})
					}
					refs += len(tx.Boxes)
				}
				for len(needs) > 0 && uint64(refs)*w.bytesBR < uint64(want) && len(txs) < 16 {
					// padding call: a no-op app call carrying 8 empty box references
					w.seq++
					pad := &txntest.Txn{Type: "appl", Sender: w.actors[0], ApplicationID: w.padApp(), Note: fmt.Sprintf("c23-pad-%d", w.seq),
						ApplicationArgs: [][]byte{[]byte("no")}, Boxes: make([]transactions.BoxRef, 8)}
					if pad.ApplicationID == 0 {
						break
					}
					txs = append(txs, pad)
					refs += 8
				}
				err := txgroup(tt, l, eval, txs...)
				verdict := "acc"
				if err != nil {
					verdict = "rej"
					rejected++
				} else {
					accepted++
				}
				for _, op := range ops {
					s := op.String()
					fp.WriteString(s)
					fp.WriteByte(';')
					rendered = append(rendered, s)
					k := op.K
					if op.Via >= 0 && op.Cross {
						k += "@cross"
					} else if op.Via >= 0 {
						k += "@inner"
					}
					if len(ops) == 1 {
						vk.Labelf("%s:%s", k, verdict)
					} else {
						vk.Labelf("%s:in-group:%s", k, verdict)
					}
				}
				fp.WriteString(verdict + "|")
				rendered = append(rendered, "=> "+verdict)
				if len(txs) > len(ops) {
					vk.Label("padded-group:" + verdict)
				}
				if err != nil {
					if len(ops) == 1 {
						vk.Label("reject-reason:" + c23Reason(err))
					}
					continue
				}
				w.m = mc
				for k := range gnts {
					nts[k] = true
				}
				for _, op := range ops {
					switch op.K {
					case "bc", "br", "dc", "bp":
						sz := op.Size
						if op.K == "bp" {
							sz = op.Val
						}
						switch {
						case sz >= 32767:
							vk.Label("accepted-size:max")
						case sz >= 4096:
							vk.Label("accepted-size:>=4096")
						case sz >= 1024:
							vk.Label("accepted-size:>=1024")
						case sz == 0:
							vk.Label("accepted-size:0")
						}
						if len(op.Name) >= 63 {
							vk.Label("accepted-name:len63-64")
						} else if strings.ContainsAny(op.Name, "\x00\xff") {
							vk.Label("accepted-name:00/ff")
						}
					}
				}
			}
			endBlock(tt, l, eval)
			l.trackers.waitAccountsWriting()
			snap = w.checkLedger(t, tt, l, vk, fmt.Sprintf("after block %d", b+1), snap, nts)
		}
		if c23R(t, "flush", 0, 3) == 0 {
			// push everything into the database and read it all back through the committed path
			commitRoundLookback(0, l)
			l.trackers.waitAccountsWriting()
			w.checkLedger(t, tt, l, vk, "after flushing to the database", snap, map[string]bool{})
			vk.Label("flushed-to-db")
		}
		vk.Add("ms_history", time.Since(t0).Milliseconds())
		vk.Add("groups_accepted", int64(accepted))
		vk.Add("groups_rejected", int64(rejected))
		nt := nts["resize"] || nts["recreate-other-size"] || nts["type-change-at-limit"]
		for k := range nts {
			vk.Label("hist:" + k)
		}
		for _, a := range w.m.apps {
			if !a.Alive && len(a.Boxes) > 0 {
				vk.Label("hist:app-deleted-with-boxes")
			}
		}
		vk.Case(nt, fp.String())
		if vk.WantSample(nt) {
			vk.Sample(nt, rendered)
		}
	})
}

var c23ReTxid = regexp.MustCompile(`transaction [A-Z2-7]{52}: `)
var c23ReAddr = regexp.MustCompile(`[A-Z2-7]{58}`)
var c23ReNum = regexp.MustCompile(`[0-9]+`)
var c23ReHex = regexp.MustCompile(`0x[0-9a-f]*`)

// c23Reason normalises an evaluation error into a short label
func c23Reason(err error) string {
	e := err.Error()
	if i := strings.LastIndex(e, "logic eval error: "); i >= 0 {
		e = e[i+len("logic eval error: "):]
	}
	if i := strings.Index(e, ". Details"); i >= 0 {
		e = e[:i]
	}
	e = c23ReTxid.ReplaceAllString(e, "")
	e = c23ReAddr.ReplaceAllString(e, "ADDR")
	e = c23ReHex.ReplaceAllString(e, "HEX")
	e = c23ReNum.ReplaceAllString(e, "#")
	if len(e) > 64 {
		e = e[:64]
	}
	return e
}

// padApp returns an app that is still alive, to carry padding box references (0 if none is)
func (w *c23World) padApp() basics.AppIndex {
	for _, a := range w.m.apps {
		if a.Alive {
			return a.ID
		}
	}
	return 0
}
