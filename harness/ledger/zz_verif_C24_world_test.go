package ledger

// C24 — shared world for the two C24 units (group fees / proposer payouts).
//
// A compact, self-contained world on top of the public ledger API (OpenLedger, StartEvaluator, TransactionGroup,
// GenerateBlock, Validate, AddValidatedBlock) and data/txntest. Custom consensus versions (registered before
// rapid.Check, removed by t.Cleanup) vary Payouts.Percent, MinTxnFee, PerByteTxnSurcharge and the bonus plan; the
// genesis header carries a drawn Bonus (BonusPlan.BaseAmount == 0 leaves the inherited bonus alone, see the BonusPlan
// doc comment) and the fee sink a drawn balance.
//
// The oracles (math/big) are written from the doc comments of the code, not by calling it:
//   * usage of a transaction (SignedTxn.FeeFactor / Transaction.feeFactor / Header.FeeContribution /
//     ApplicationCallTxnFields.feeContribution / logicSigProgramFeeContribution / PQSchemeFeeContribution doc comments):
//     1e6 + PerByteTxnSurcharge*max(0, len(Note)-MaxTxnNoteBytes)
//         + [appl] PerByteTxnSurcharge*max(0, sum(len(args))-MaxAppTotalArgLen)
//         + [appl] PerByteTxnSurcharge*max(0, len(approval)+len(clear)-MaxAppTotalProgramLen*(1+MaxExtraAppProgramPages))
//         + [Falcon-1024 signature] 2e6;
//     usage of a group = sum over members + PerByteTxnSurcharge*max(0, sum(len(Lsig.Logic)) - n*LogicSigMaxSize).
//   * required fee of a group = ceil(MinTxnFee*usage/1e6) (FeeForUsage doc: "With no starting residue, FeeForUsage is
//     just a ceiling"); over a whole tree of top-level + inner groups the charges "round up just once in aggregate",
//     i.e. sum(charged) = ceil(MinTxnFee*sum(usage)/1e6), and the fee-credit bookkeeping (EvalParams.FeeCredit doc)
//     never lets sum(paid) drop below sum(charged).
//   * payout limit = min(floor(Percent*FeesCollected/100) + Bonus, max(0, sink - MinBalance)) (proposerPayout /
//     validateForPayouts / BlockHeader.ProposerPayout doc comments; "We allow it to be too low").

import (
	"encoding/binary"
	"encoding/hex"
	"errors"
	"fmt"
	"io"
	"math/big"
	"strings"
	"sync"
	"sync/atomic"
	"testing"

	"github.com/algorand/go-deadlock"

	"github.com/algorand/go-algorand/agreement"
	"github.com/algorand/go-algorand/config"
	"github.com/algorand/go-algorand/crypto"
	"github.com/algorand/go-algorand/data/basics"
	"github.com/algorand/go-algorand/data/bookkeeping"
	"github.com/algorand/go-algorand/data/committee"
	"github.com/algorand/go-algorand/data/transactions"
	"github.com/algorand/go-algorand/data/transactions/logic"
	"github.com/algorand/go-algorand/data/txntest"
	"github.com/algorand/go-algorand/ledger/eval"
	"github.com/algorand/go-algorand/ledger/ledgercore"
	"github.com/algorand/go-algorand/logging"
	"github.com/algorand/go-algorand/protocol"
)

// c24AppSource: ApplicationArgs[0] selects the behaviour.
//
//	"n" (or creation, or < 2 args): approve, do nothing (carrier for large argument lists);
//	"s": every further argument describes one inner payment, each submitted as its own inner group;
//	"g": same, but all inner payments form ONE inner group (itxn_next), so fees pool inside it.
//
// An inner spec is 10 bytes (8-byte big-endian fee, 2-byte note length) or 2 bytes (note length only: the fee is left to
// the default that itxn_begin/itxn_next populate). The inner payment sends 0 algos to the caller with a zero-filled note
// of the requested length (notes beyond MaxTxnNoteBytes make the inner usage fractional).
const c24AppSource = `
txn ApplicationID
bz ok
txn NumAppArgs
int 2
<
bnz ok
txna ApplicationArgs 0
byte "n"
==
bnz ok
int 1
store 0
loop:
load 0
txn NumAppArgs
>=
bnz done
load 0
int 1
==
bnz begin
txna ApplicationArgs 0
byte "g"
==
bnz next
itxn_submit
begin:
itxn_begin
b fields
next:
itxn_next
fields:
int pay
itxn_field TypeEnum
txn Sender
itxn_field Receiver
load 0
txnas ApplicationArgs
store 1
load 1
len
int 10
==
bz nofee
load 1
int 0
extract_uint64
itxn_field Fee
load 1
int 8
extract_uint16
b note
nofee:
load 1
int 0
extract_uint16
note:
bzero
itxn_field Note
load 0
int 1
+
store 0
b loop
done:
itxn_submit
ok:
int 1
return
`

var (
	c24DeadlockOnce sync.Once
	c24LedgerCount  atomic.Uint64
	c24ProgMu       sync.Mutex
	c24ProgCache    = map[string][]byte{}
)

var c24Million = big.NewInt(1_000_000)

func c24B(x uint64) *big.Int { return new(big.Int).SetUint64(x) }

// c24Addr: deterministic synthetic address (nobody needs its key: the evaluator does not verify signatures).
func c24Addr(tag byte, i int) basics.Address {
	var a basics.Address
	for k := range a {
		a[k] = tag
	}
	a[0] = byte(i + 1)
	a[31] = 0x24
	return a
}

// c24RegisterProto registers a clone of base (edited by f) under name for the duration of the test. Only called from
// the Test function before rapid.Check (config.Consensus is an unsynchronised global read by ledger goroutines).
func c24RegisterProto(t *testing.T, name string, base protocol.ConsensusVersion, f func(*config.ConsensusParams)) protocol.ConsensusVersion {
	p, ok := config.Consensus[base]
	if !ok {
		t.Fatalf("HARNESS: unknown base protocol %v", base)
	}
	p.ApprovedUpgrades = map[protocol.ConsensusVersion]uint64{}
	f(&p)
	cv := protocol.ConsensusVersion(name)
	if _, exists := config.Consensus[cv]; exists {
		t.Fatalf("HARNESS: protocol %v already registered", name)
	}
	config.Consensus[cv] = p
	t.Cleanup(func() { delete(config.Consensus, cv) })
	return cv
}

// c24Protos: the consensus versions a case draws from. BaseAmount == 0 everywhere except the stock Future entry, so
// that the bonus in effect is the one the case puts into the genesis header (decaying by 1% every DecayInterval rounds).
func c24Protos(t *testing.T) []protocol.ConsensusVersion {
	mk := func(name string, base protocol.ConsensusVersion, pct, minFee, rate, decay uint64) protocol.ConsensusVersion {
		return c24RegisterProto(t, name, base, func(p *config.ConsensusParams) {
			p.Payouts.Percent = pct
			p.MinTxnFee = minFee
			if p.PerByteTxnSurcharge != 0 { // keep "size pricing off" protocols off
				p.PerByteTxnSurcharge = basics.Micros(rate)
			}
			p.Bonus = config.BonusPlan{BaseRound: 0, BaseAmount: 0, DecayInterval: decay}
		})
	}
	f := protocol.ConsensusFuture
	return []protocol.ConsensusVersion{
		mk("c24-p50", f, 50, 1000, 100, 0),
		mk("c24-p75-f1337", f, 75, 1337, 333, 2),
		mk("c24-p100-f1", f, 100, 1, 7, 3),
		mk("c24-p0", f, 0, 1000, 100, 1),
		mk("c24-p1-f2500", f, 1, 2500, 100, 0),
		mk("c24-p99-f999", f, 99, 999, 1000, 2),
		mk("c24-v41-p50", protocol.ConsensusV41, 50, 1000, 0, 2),
		protocol.ConsensusFuture, // stock: 50%, bonus plan 10 Algos at round 1
	}
}

type c24World struct {
	t      *testing.T
	l      *Ledger
	cv     protocol.ConsensusVersion
	proto  config.ConsensusParams
	rich   []basics.Address // 4 offline accounts with 1M Algos
	online []basics.Address // 2 online accounts with voting keys and 1M Algos
	small  []basics.Address // 3 offline accounts with 5 Algos (closable)
	ghost  basics.Address   // never funded
	sink   basics.Address
	pool   basics.Address
	app    basics.AppIndex
	noteN  uint64
	gen    map[basics.Address]basics.AccountData
	gbonus uint64
}

const c24RichBalance = 1_000_000_000_000
const c24SmallBalance = 5_000_000

func c24Open(t *testing.T, cv protocol.ConsensusVersion, sinkBal, genesisBonus uint64) (*c24World, error) {
	c24DeadlockOnce.Do(func() {
		// go-deadlock's lock-wait watchdog (30 s) exits the process on a machine as loaded as this one; it is off in
		// production unless configured.
		deadlock.Opts.Disable = true
	})
	proto, ok := config.Consensus[cv]
	if !ok {
		return nil, fmt.Errorf("unknown protocol %v", cv)
	}
	w := &c24World{t: t, cv: cv, proto: proto, ghost: c24Addr('g', 0), sink: c24Addr('s', 0), pool: c24Addr('p', 0), gbonus: genesisBonus}
	accts := map[basics.Address]basics.AccountData{}
	for i := 0; i < 4; i++ {
		a := c24Addr('r', i)
		w.rich = append(w.rich, a)
		accts[a] = basics.AccountData{MicroAlgos: basics.MicroAlgos{Raw: c24RichBalance}, Status: basics.Offline}
	}
	for i := 0; i < 2; i++ {
		a := c24Addr('o', i)
		w.online = append(w.online, a)
		ad := basics.AccountData{MicroAlgos: basics.MicroAlgos{Raw: c24RichBalance}, Status: basics.Online}
		ad.VoteID[0], ad.VoteID[1] = 0x51, byte(i+1)
		ad.SelectionID[0], ad.SelectionID[1] = 0x52, byte(i+1)
		ad.StateProofID[0], ad.StateProofID[1] = 0x53, byte(i+1)
		ad.VoteFirstValid, ad.VoteLastValid, ad.VoteKeyDilution = 0, 1_000_000, 10_000
		accts[a] = ad
	}
	for i := 0; i < 3; i++ {
		a := c24Addr('c', i)
		w.small = append(w.small, a)
		accts[a] = basics.AccountData{MicroAlgos: basics.MicroAlgos{Raw: c24SmallBalance}, Status: basics.Offline}
	}
	// Both special accounts are NotParticipating, as on the real networks. The pool holds exactly MinBalance: rewards off.
	accts[w.sink] = basics.AccountData{MicroAlgos: basics.MicroAlgos{Raw: sinkBal}, Status: basics.NotParticipating}
	accts[w.pool] = basics.AccountData{MicroAlgos: basics.MicroAlgos{Raw: proto.MinBalance}, Status: basics.NotParticipating}
	w.gen = accts

	gb := bookkeeping.MakeTimestampedGenesisBalances(accts, w.sink, w.pool, 1_700_000_000)
	var genHash crypto.Digest
	copy(genHash[:], "verif-C24-fixed-genesis-hash-000")
	genBlock, err := bookkeeping.MakeGenesisBlock(cv, gb, "c24", genHash)
	if err != nil {
		return nil, err
	}
	genBlock.BlockHeader.Bonus = basics.MicroAlgos{Raw: genesisBonus}

	log := logging.NewLogger()
	log.SetOutput(io.Discard)
	dbName := fmt.Sprintf("c24-%s-%d-%d", strings.ReplaceAll(t.Name(), "/", "_"), vkShard(), c24LedgerCount.Add(1))
	cfg := config.GetDefaultLocal()
	cfg.Archival = true
	cfg.TxPoolSize, cfg.VerifiedTranscationsCacheSize = 8, 8
	cfg.MaxAcctLookback = 400 // every round of a case stays in the in-memory deltas: no tracker flush races with lookups
	l, err := OpenLedger(log, dbName, true, ledgercore.InitState{Block: genBlock, Accounts: gb.Balances, GenesisHash: genHash}, cfg)
	if err != nil {
		return nil, err
	}
	w.l = l
	return w, nil
}

func (w *c24World) close() {
	if w.l != nil {
		w.l.Close()
		w.l = nil
	}
}

// setup commits block 1: creates the application and funds its account.
func (w *c24World) setup() error {
	hdr0, err := w.l.BlockHdr(0)
	if err != nil {
		return err
	}
	predicted := basics.AppIndex(hdr0.TxnCounter + 1)
	ev, err := w.startEval()
	if err != nil {
		return err
	}
	create := &txntest.Txn{Type: "appl", Sender: w.rich[0], ApprovalProgram: c24AppSource, ClearStateProgram: "int 1"}
	fund := &txntest.Txn{Type: "pay", Sender: w.rich[0], Receiver: predicted.Address(), Amount: uint64(50_000_000)}
	for _, tx := range []*txntest.Txn{create, fund} {
		w.fill(tx, 8)
		if err := ev.TransactionGroup(transactions.WrapSignedTxnsWithAD([]transactions.SignedTxn{tx.SignedTxn()})...); err != nil {
			return fmt.Errorf("setup txn: %w", err)
		}
	}
	ub, err := ev.GenerateBlock(nil)
	if err != nil {
		return err
	}
	blk := ub.UnfinishedBlock().WithProposer(w.seed(1), w.rich[3], false)
	if err := w.commit(blk); err != nil {
		return fmt.Errorf("setup block: %w", err)
	}
	if got := blk.Payset[0].ApplyData.ApplicationID; got != predicted {
		return fmt.Errorf("setup: app id %d, predicted %d", got, predicted)
	}
	w.app = predicted
	return nil
}

func (w *c24World) seed(r basics.Round) committee.Seed {
	var s committee.Seed
	binary.BigEndian.PutUint64(s[:8], uint64(r))
	s[31] = 0x24
	return s
}

// startEval: what nextBlock() of simple_test.go does (deterministic timestamp), errors returned.
func (w *c24World) startEval() (*eval.BlockEvaluator, error) {
	hdr, err := w.l.BlockHdr(w.l.Latest())
	if err != nil {
		return nil, err
	}
	nextHdr := bookkeeping.MakeBlock(hdr).BlockHeader
	nextHdr.TimeStamp = hdr.TimeStamp + 1
	return eval.StartEvaluator(w.l, nextHdr, eval.EvaluatorOptions{Generate: true, Validate: true, Tracer: logic.EvalErrorDetailsTracer{}})
}

func (w *c24World) validate(blk bookkeeping.Block) (*ledgercore.ValidatedBlock, error) {
	return validateWithoutSignatures(w.t, w.l, blk)
}

func (w *c24World) commit(blk bookkeeping.Block) error {
	vb, err := w.validate(blk)
	if err != nil {
		return fmt.Errorf("Validate: %w", err)
	}
	if err := w.l.AddValidatedBlock(*vb, agreement.Certificate{}); err != nil {
		return fmt.Errorf("AddValidatedBlock: %w", err)
	}
	w.l.WaitForCommit(w.l.Latest())
	return nil
}

// fill: genesis hash, validity window, a unique note of exactly noteLen bytes (>= 8), txntest defaults. The fee is
// left alone when set; otherwise txntest sets the exact requirement of the single transaction.
func (w *c24World) fill(tx *txntest.Txn, noteLen int) {
	tx.GenesisHash = w.l.GenesisHash()
	if tx.FirstValid == 0 {
		tx.FirstValid = w.l.Latest() + 1
	}
	if noteLen < 8 {
		noteLen = 8
	}
	w.noteN++
	note := make([]byte, noteLen)
	binary.BigEndian.PutUint64(note, w.noteN)
	tx.Note = note
	tx.FillDefaults(w.proto)
}

func (w *c24World) sinkBalance() (uint64, error) {
	ad, _, err := w.l.LookupWithoutRewards(w.l.Latest(), w.sink)
	return ad.MicroAlgos.Raw, err
}

// c24BigProgram: "int 1" preceded by k chunks of 1004 bytes ("byte 0x00..00; pop"), assembled once per (version, k).
func c24BigProgram(version uint64, k int) []byte {
	key := fmt.Sprintf("%d/%d", version, k)
	c24ProgMu.Lock()
	defer c24ProgMu.Unlock()
	if p, ok := c24ProgCache[key]; ok {
		return p
	}
	var sb strings.Builder
	chunk := "byte 0x" + hex.EncodeToString(make([]byte, 1000)) + "\npop\n"
	for i := 0; i < k; i++ {
		sb.WriteString(chunk)
	}
	sb.WriteString("int 1\n")
	ops, err := logic.AssembleStringWithVersion(sb.String(), version)
	if err != nil {
		panic(fmt.Sprintf("c24BigProgram: %v", err))
	}
	c24ProgCache[key] = ops.Program
	return ops.Program
}

// ---------------------------------------------------------------------------------------------------------------
// Oracle pieces (math/big, from the documentation; see the header comment)

// c24TxnUsage: usage (in Micros: 1e6 = one basic fee) of one transaction from its fields.
func c24TxnUsage(p *config.ConsensusParams, tx *transactions.Transaction) *big.Int {
	rate := c24B(uint64(p.PerByteTxnSurcharge))
	over := func(have, free int) *big.Int {
		if have <= free {
			return new(big.Int)
		}
		return new(big.Int).Mul(rate, big.NewInt(int64(have-free)))
	}
	u := new(big.Int).Set(c24Million)
	u.Add(u, over(len(tx.Note), p.MaxTxnNoteBytes))
	if tx.Type == protocol.ApplicationCallTx {
		args := 0
		for _, a := range tx.ApplicationArgs {
			args += len(a)
		}
		u.Add(u, over(args, p.MaxAppTotalArgLen))
		u.Add(u, over(len(tx.ApprovalProgram)+len(tx.ClearStateProgram), p.MaxAppTotalProgramLen*(1+p.MaxExtraAppProgramPages)))
	}
	return u
}

// c24GroupUsage: usage of a top-level group (members + Falcon signatures + pooled LogicSig program bytes).
func c24GroupUsage(p *config.ConsensusParams, g []transactions.SignedTxn) *big.Int {
	u := new(big.Int)
	lsig := 0
	for i := range g {
		u.Add(u, c24TxnUsage(p, &g[i].Txn))
		if !g[i].PQsig.Blank() && g[i].PQsig.Scheme == protocol.PQSchemeFalcon1024 {
			u.Add(u, big.NewInt(2_000_000))
		}
		lsig += len(g[i].Lsig.Logic)
	}
	if free := len(g) * int(p.LogicSigMaxSize); lsig > free {
		u.Add(u, new(big.Int).Mul(c24B(uint64(p.PerByteTxnSurcharge)), big.NewInt(int64(lsig-free))))
	}
	return u
}

// c24CeilFee = ceil(MinTxnFee * usage / 1e6).
func c24CeilFee(p *config.ConsensusParams, usage *big.Int) *big.Int {
	n := new(big.Int).Mul(c24B(p.MinTxnFee), usage)
	q, r := new(big.Int).QuoRem(n, c24Million, new(big.Int))
	if r.Sign() != 0 {
		q.Add(q, big.NewInt(1))
	}
	return q
}

// c24InnerTotals walks the inner transactions recorded in an ApplyData: sum of their fees and of their usages.
func c24InnerTotals(p *config.ConsensusParams, ad *transactions.ApplyData, fees, usage *big.Int, count *int) {
	for i := range ad.EvalDelta.InnerTxns {
		in := &ad.EvalDelta.InnerTxns[i]
		fees.Add(fees, c24B(in.Txn.Fee.Raw))
		usage.Add(usage, c24TxnUsage(p, &in.Txn))
		*count++
		c24InnerTotals(p, &in.ApplyData, fees, usage, count)
	}
}

// c24IsFeeError: was the group refused because of its fees? (top-level CheckGroupFees, or the inner-group check in
// itxn_submit.)
func c24IsFeeError(err error) bool {
	if err == nil {
		return false
	}
	var gme *ledgercore.TxGroupMalformedError
	if errors.As(err, &gme) && gme.Reason == ledgercore.TxGroupErrorReasonInvalidFee {
		return true
	}
	s := err.Error()
	return strings.Contains(s, "too small (needs") || strings.Contains(s, "fee saturation") || strings.Contains(s, "required fee overflow") ||
		strings.Contains(s, "fees is less than")
}

func c24ErrClass(err error) string {
	if err == nil {
		return "ok"
	}
	if c24IsFeeError(err) {
		return "fee"
	}
	s := err.Error()
	for _, kv := range [][2]string{
		{"overspend", "overspend"}, {"below min", "minbalance"}, {"heartbeat", "heartbeat"}, {"write budget", "io-budget"},
		{"malformed", "malformed"}, {"already in ledger", "dup"}, {"logic eval error", "teal"}, {"registering", "keyreg"},
	} {
		if strings.Contains(s, kv[0]) {
			return kv[1]
		}
	}
	return "other"
}
