package ledger

// Shared catchpoint helpers of the checks C14, C16 and the C15 end-to-end unit (all identifiers prefixed cpx).
// Built on the Engine C API (zz_verif_engc_*; see /verif/notes/ENGC.md). Nothing here belongs to the engine.
//
//   - custom consensus versions with a small CatchpointLookback (registered before rapid.Check, as ENGC.md demands)
//   - extra nodes: additional ledgers of a world, fed the engine's blocks through AddBlock (what the engine's Shadow does)
//   - the independent oracle for the balances trie: leaf multiset recomputed from the reference model, inserted into a
//     fresh in-memory merkletrie; account totals recomputed from the model
//   - reading back what a node stored: persisted trie root, first-stage records, catchpoint files

import (
	"archive/tar"
	"bytes"
	"compress/gzip"
	"context"
	"fmt"
	"io"
	"sort"
	"strings"
	"testing"

	"pgregory.net/rapid"

	"github.com/algorand/go-algorand/config"
	"github.com/algorand/go-algorand/crypto"
	"github.com/algorand/go-algorand/crypto/merkletrie"
	"github.com/algorand/go-algorand/data/basics"
	"github.com/algorand/go-algorand/data/bookkeeping"
	"github.com/algorand/go-algorand/data/transactions"
	"github.com/algorand/go-algorand/data/txntest"
	"github.com/algorand/go-algorand/ledger/ledgercore"
	"github.com/algorand/go-algorand/ledger/store/trackerdb"
	"github.com/algorand/go-algorand/protocol"
)

// ---------------------------------------------------------------------------------------------------------------
// consensus versions

type cpxProto struct {
	CV       protocol.ConsensusVersion
	Lookback uint64 // CatchpointLookback
	Small    bool   // balance lookback windows shortened as well
}

// cpxRegisterProtos registers the consensus versions used by the catchpoint checks. Must be called from the Test
// function before rapid.Check (engcRegisterProto's contract). tag keeps the names of different Test functions apart.
func cpxRegisterProtos(tb testing.TB, tag string) []cpxProto {
	var out []cpxProto
	add := func(name string, base protocol.ConsensusVersion, lookback uint64, small bool) {
		cv := engcRegisterProto(tb, protocol.ConsensusVersion("verif-"+tag+"-"+name), base, func(p *config.ConsensusParams) {
			p.CatchpointLookback = lookback
			if small {
				// a consistent small balance-lookback triple (upstream acctonline tests do the same), so that the online
				// account history and the online round params turn over inside a short history
				p.SeedLookback = 2
				p.SeedRefreshInterval = 4
				p.MaxBalLookback = 2 * p.SeedLookback * p.SeedRefreshInterval // 16
			}
		})
		out = append(out, cpxProto{CV: cv, Lookback: lookback, Small: small})
	}
	add("future-cl8", protocol.ConsensusFuture, 8, false)
	add("future-cl4", protocol.ConsensusFuture, 4, false)
	add("future-cl8-bal16", protocol.ConsensusFuture, 8, true)
	add("current-cl8", protocol.ConsensusCurrentVersion, 8, false)
	return out
}

// cpxIsCatchpointRound: R is a round for which a node with this interval makes a label (second stage), given the
// protocol's lookback: R is a multiple of the interval, R > lookback (catchpointtracker.calculateCatchpointRounds) and
// its accounts round R-lookback is >= 1 (calculateFirstStageRounds starts at oldBase+1 >= 1).
func cpxIsCatchpointRound(r basics.Round, lookback, interval uint64) bool {
	return interval > 0 && uint64(r)%interval == 0 && uint64(r) > lookback
}

// ---------------------------------------------------------------------------------------------------------------
// extra nodes

// cpxNodeSpec describes one ledger of a case beyond what engcDrawCfg draws.
type cpxNodeSpec struct {
	Interval  uint64 // CatchpointInterval
	Tracking  int64  // CatchpointTracking
	TrieCache int    // trackerdb.TrieMemoryConfig.CachedNodesCount used whenever this node (re)creates its trie
}

func (s cpxNodeSpec) apply(cfg *config.Local) {
	cfg.CatchpointInterval = s.Interval
	cfg.CatchpointTracking = s.Tracking
	if s.Tracking == config.CatchpointTrackingModeAutomatic {
		cfg.Archival = true // automatic mode tracks catchpoints on archival nodes only
	}
}

// cpxStores: the node writes catchpoint files.
func cpxStores(cfg config.Local) bool { return cfg.StoresCatchpoints() }

const (
	cpxStoreDrawn = iota
	cpxStoreMem
	cpxStoreDisk
)

// cpxAddNode opens an additional ledger on the world's genesis. The caller feeds it blocks with cpxFeed and must
// close it (cpxCloseNode) before w.Close().
//
// storage: cpxStoreDrawn (memory 2/3, disk 1/3 like the engine), cpxStoreMem, cpxStoreDisk.
func cpxAddNode(w *engcWorld, t *rapid.T, name string, spec cpxNodeSpec, forceNoLRU bool, storage int) *engcNode {
	n := &engcNode{Name: name, w: w, Cfg: engcDrawCfg(t, name)}
	if forceNoLRU {
		n.Cfg.DisableLedgerLRUCache = true
	}
	spec.apply(&n.Cfg)
	switch storage {
	case cpxStoreMem:
		n.OnDisk = false
	case cpxStoreDisk:
		n.OnDisk = true
	default:
		n.OnDisk = rapid.IntRange(0, 2).Draw(t, name+".onDisk") == 0
	}
	n.prefix = fmt.Sprintf("%s/%s-%d", w.dir, name, engcWorldSeq.Add(1))
	n.parked = rapid.IntRange(0, 3).Draw(t, name+".parked") != 0
	if err := n.open(); err != nil {
		t.Fatalf("ENGINE: OpenLedger(%s): %v", name, err)
	}
	w.tracef("%s open lookback=%d archival=%v nolru=%v disk=%v parked=%v interval=%d tracking=%d triecache=%d", name, n.Cfg.MaxAcctLookback,
		n.Cfg.Archival, n.Cfg.DisableLedgerLRUCache, n.OnDisk, n.parked, n.Cfg.CatchpointInterval, n.Cfg.CatchpointTracking, spec.TrieCache)
	return n
}

func cpxCloseNode(n *engcNode) {
	if n != nil && n.L != nil {
		n.L.Close()
		n.L = nil
	}
}

// cpxFeed adds the block to an extra node the way a node that did not propose it gets it (re-evaluation, no
// validation of signatures), like the engine does for its Shadow.
func cpxFeed(t *rapid.T, n *engcNode, blk bookkeeping.Block) {
	n.Quiesce()
	if err := n.L.AddBlock(blk, engcCert); err != nil {
		t.Fatalf("ENGINE: %s AddBlock %d: %v", n.Name, blk.Round(), err)
	}
	n.Quiesce()
}

// ---------------------------------------------------------------------------------------------------------------
// scripted prelude: guarantees that kvs, resources and their deletion / re-creation occur in every history

// cpxScript adds, to the blocks of fixed early rounds, transactions that create an application with global state and
// boxes and an asset with a second holder, and later delete and re-create some of them (box delete + re-create, asset
// holding close-out, local state opt-in + close-out, zero-length boxes created / resized / deleted across flushes).
// Rejections are tolerated (the engine records them).
type cpxScript struct {
	App   basics.AppIndex
	Asset basics.AssetIndex
	rich  basics.Address
	other basics.Address
}

func (sc *cpxScript) apply(w *engcWorld, b *engcBlockBuilder) {
	tip := b.Gen.s
	if sc.rich.IsZero() {
		sc.rich, sc.other = w.Users[0], w.Users[1]
		if tip.Acct(sc.other).Data.MicroAlgos.Raw > tip.Acct(sc.rich).Data.MicroAlgos.Raw {
			sc.rich, sc.other = sc.other, sc.rich
		}
		for _, u := range w.Users[2:] {
			switch bal := tip.Acct(u).Data.MicroAlgos.Raw; {
			case bal > tip.Acct(sc.rich).Data.MicroAlgos.Raw:
				sc.rich, sc.other = u, sc.rich
			case bal > tip.Acct(sc.other).Data.MicroAlgos.Raw:
				sc.other = u
			}
		}
	}
	rich, other := sc.rich, sc.other
	a, _, cl := engcPrograms()
	call := func(sender basics.Address, box string, args ...string) {
		tx := &txntest.Txn{Type: protocol.ApplicationCallTx, Sender: sender, ApplicationID: sc.App}
		for _, x := range args {
			tx.ApplicationArgs = append(tx.ApplicationArgs, []byte(x))
		}
		if box != "" {
			tx.Boxes = []transactions.BoxRef{{Index: 0, Name: []byte(box)}}
		}
		_ = b.Submit([]string{"app-call"}, tx)
	}
	switch b.Round {
	case 1:
		_ = b.Submit([]string{"app-create"}, &txntest.Txn{Type: protocol.ApplicationCallTx, Sender: rich, ApprovalProgram: a, ClearStateProgram: cl,
			GlobalStateSchema: basics.StateSchema{NumUint: 1, NumByteSlice: 2}, LocalStateSchema: basics.StateSchema{NumByteSlice: 1}})
		_ = b.Submit([]string{"acfg-create"}, &txntest.Txn{Type: protocol.AssetConfigTx, Sender: rich,
			AssetParams: basics.AssetParams{Total: 1_000_000, UnitName: "cpx", Manager: rich, Reserve: rich}})
		// boundary creatables: an asset with EVERY parameter at its default (total 0, no names, no addresses; stored with
		// the "empty asset" resource flag), an asset whose only non-default field is one address, an application with no
		// state schema at all
		_ = b.Submit([]string{"acfg-create"}, &txntest.Txn{Type: protocol.AssetConfigTx, Sender: rich})
		_ = b.Submit([]string{"acfg-create"}, &txntest.Txn{Type: protocol.AssetConfigTx, Sender: rich, AssetParams: basics.AssetParams{Clawback: other}})
		_ = b.Submit([]string{"app-create"}, &txntest.Txn{Type: protocol.ApplicationCallTx, Sender: rich, ApprovalProgram: a, ClearStateProgram: cl})
	case 2:
		for _, id := range tip.CreatableIDs(basics.AppCreatable) {
			if c, _ := tip.Creator(id, basics.AppCreatable); c == rich && sc.App == 0 {
				sc.App = basics.AppIndex(id)
			}
		}
		for _, id := range tip.CreatableIDs(basics.AssetCreatable) {
			if c, _ := tip.Creator(id, basics.AssetCreatable); c == rich && sc.Asset == 0 {
				sc.Asset = basics.AssetIndex(id)
			}
		}
		if sc.App != 0 {
			_ = b.Submit([]string{"app-fund"}, &txntest.Txn{Type: protocol.PaymentTx, Sender: rich, Receiver: sc.App.Address(), Amount: 2_000_000})
			call(rich, "", "gput", "k", "v0")
		}
	}
	if sc.App != 0 {
		switch b.Round {
		case 3:
			call(rich, "ab", "bput", "ab", "Qab")
			call(rich, "x", "bput", "x", "Qx")
			// zero-length boxes (kv value []byte{}, not nil) and a box that becomes zero-length later. The steps of each
			// box are far enough apart that a first-stage round (a forced flush boundary) lies between them: for box "e"
			// on every node (8 rounds), for "z" and "y" on the nodes whose first-stage rounds are the multiples of 4.
			call(rich, "e", "bcreate", "e", string(engcItob(0)))
			call(rich, "z", "bcreate", "z", string(engcItob(0)))
			call(rich, "y", "bput", "y", "Qy")
		case 6:
			call(rich, "x", "bdel", "x")
		case 7:
			call(rich, "z", "bresize", "z", string(engcItob(2))) // empty -> non-empty
		case 8:
			call(rich, "x", "bput", "x", "Qx2") // re-created with another value
		case 9:
			call(rich, "y", "bresize", "y", string(engcItob(0))) // non-empty -> empty
		case 12:
			call(rich, "z", "bresize", "z", string(engcItob(0))) // ... and back to empty
		case 14:
			call(rich, "y", "bdel", "y") // delete of a persisted zero-length box (was non-empty before)
		case 17:
			call(rich, "z", "bdel", "z") // delete of a persisted zero-length box (was empty, non-empty, empty)
		case 10:
			_ = b.Submit([]string{"app-optin"}, &txntest.Txn{Type: protocol.ApplicationCallTx, Sender: other, ApplicationID: sc.App, OnCompletion: transactions.OptInOC})
		case 11:
			call(other, "", "lput", "a", "v1")
			call(rich, "e", "bdel", "e") // delete of a zero-length box persisted in an earlier flush on every node
		case 13:
			_ = b.Submit([]string{"app-closeout"}, &txntest.Txn{Type: protocol.ApplicationCallTx, Sender: other, ApplicationID: sc.App, OnCompletion: transactions.CloseOutOC})
		}
	}
	if sc.Asset != 0 {
		switch b.Round {
		case 3:
			_ = b.Submit([]string{"axfer-optin"}, &txntest.Txn{Type: protocol.AssetTransferTx, Sender: other, XferAsset: sc.Asset, AssetReceiver: other})
		case 5:
			_ = b.Submit([]string{"axfer-send"}, &txntest.Txn{Type: protocol.AssetTransferTx, Sender: rich, XferAsset: sc.Asset, AssetReceiver: other, AssetAmount: 10})
		case 9:
			_ = b.Submit([]string{"axfer-close"}, &txntest.Txn{Type: protocol.AssetTransferTx, Sender: other, XferAsset: sc.Asset, AssetReceiver: rich, AssetCloseTo: rich})
		}
	}
}

// cpxScriptedBlock = StepBlock with the scripted transactions of that round in front of the drawn groups.
func cpxScriptedBlock(w *engcWorld, t *rapid.T, sc *cpxScript, maxGroups int, excluded func(string)) *engcBlockInfo {
	b := w.BeginBlock(t)
	if sc != nil {
		sc.apply(w, b)
	}
	ng := 0
	if rapid.IntRange(0, 7).Draw(t, "emptyBlock") != 0 {
		ng = rapid.IntRange(1, maxGroups).Draw(t, "ngroups")
	}
	b.RandomGroups(t, ng)
	info := b.Finish(t)
	cpxSkipOnKvCollision(t, w, excluded)
	return info
}

// ---------------------------------------------------------------------------------------------------------------
// independent oracle: trie leaves and totals recomputed from the reference model

// cpxLastTouch returns the last round <= r whose block listed the entity (delta membership), 0 if none: this is what
// the tracker stores as UpdateRound (acctdeltas.makeCompactAccountDeltas / makeCompactResourceDeltas).
func cpxLastTouch(m *engcModel, r basics.Round, touched func(c *engcChanges) bool) uint64 {
	return uint64(m.LastChange(0, r, touched))
}

// cpxModelLeaves recomputes, from the model snapshot of round r and the per-round change sets only, the multiset of
// balances-trie leaves a ledger whose tracker DB is at round r must hold: one per non-empty base account record, one
// per (account, asset|app) resource row, one per kv pair. Records are rendered the way the tracker DB stores them
// (trackerdb.BaseAccountData / ResourcesData + msgpack) and hashed with the trackerdb hash builders.
func cpxModelLeaves(m *engcModel, r basics.Round) ([][]byte, error) {
	s := m.At(r)
	if s == nil {
		return nil, fmt.Errorf("model has no round %d", r)
	}
	setUpd := s.Proto.EnableLedgerDataUpdateRound
	var leaves [][]byte
	for _, addr := range s.Addrs() {
		a := s.Accts[addr]
		var bad trackerdb.BaseAccountData
		bad.SetCoreAccountData(&a.Data)
		if !bad.IsEmpty() {
			if setUpd {
				addr := addr
				bad.UpdateRound = cpxLastTouch(m, r, func(c *engcChanges) bool { return c.Accts[addr] })
			}
			leaves = append(leaves, trackerdb.AccountHashBuilderV6(addr, &bad, protocol.Encode(&bad)))
		}
		assetIDs := map[basics.AssetIndex]bool{}
		for id := range a.Assets {
			assetIDs[id] = true
		}
		for id := range a.AssetParams {
			assetIDs[id] = true
		}
		for id := range assetIDs {
			upd := uint64(0)
			if setUpd {
				key := ledgercore.AccountAsset{Address: addr, Asset: id}
				upd = cpxLastTouch(m, r, func(c *engcChanges) bool { return c.Assets[key] })
			}
			rd := trackerdb.MakeResourcesData(upd)
			var pd ledgercore.AssetParamsDelta
			var hd ledgercore.AssetHoldingDelta
			if p, ok := a.AssetParams[id]; ok {
				pd.Params = &p
			}
			if h, ok := a.Assets[id]; ok {
				hd.Holding = &h
			}
			rd.SetAssetData(pd, hd)
			leaf, err := trackerdb.ResourcesHashBuilderV6(&rd, addr, basics.CreatableIndex(id), rd.UpdateRound, protocol.Encode(&rd))
			if err != nil {
				return nil, fmt.Errorf("model asset resource (%v,%d): %v", addr, id, err)
			}
			leaves = append(leaves, leaf)
		}
		appIDs := map[basics.AppIndex]bool{}
		for id := range a.AppLocals {
			appIDs[id] = true
		}
		for id := range a.AppParams {
			appIDs[id] = true
		}
		for id := range appIDs {
			upd := uint64(0)
			if setUpd {
				key := ledgercore.AccountApp{Address: addr, App: id}
				upd = cpxLastTouch(m, r, func(c *engcChanges) bool { return c.Apps[key] })
			}
			rd := trackerdb.MakeResourcesData(upd)
			var pd ledgercore.AppParamsDelta
			var ld ledgercore.AppLocalStateDelta
			if p, ok := a.AppParams[id]; ok {
				pd.Params = &p
			}
			if l, ok := a.AppLocals[id]; ok {
				ld.LocalState = &l
			}
			rd.SetAppData(pd, ld)
			leaf, err := trackerdb.ResourcesHashBuilderV6(&rd, addr, basics.CreatableIndex(id), rd.UpdateRound, protocol.Encode(&rd))
			if err != nil {
				return nil, fmt.Errorf("model app resource (%v,%d): %v", addr, id, err)
			}
			leaves = append(leaves, leaf)
		}
	}
	for _, k := range s.KvKeys("") {
		leaves = append(leaves, trackerdb.KvHashBuilderV6(k, s.Kv[k]))
	}
	return leaves, nil
}

// cpxRootOf inserts the leaves into a fresh in-memory merkletrie (default memory configuration) and returns its root.
func cpxRootOf(leaves [][]byte) (crypto.Digest, error) {
	trie, err := merkletrie.MakeTrie(&merkletrie.InMemoryCommitter{}, merkletrie.MemoryConfig{NodesCountPerPage: 116, CachedNodesCount: 9000, PageFillFactor: 0.95, MaxChildrenPagesThreshold: 64})
	if err != nil {
		return crypto.Digest{}, err
	}
	sorted := append([][]byte{}, leaves...)
	sort.Slice(sorted, func(i, j int) bool { return bytes.Compare(sorted[i], sorted[j]) < 0 })
	for i, l := range sorted {
		if i > 0 && bytes.Equal(l, sorted[i-1]) {
			return crypto.Digest{}, fmt.Errorf("duplicate leaf %x", l)
		}
		added, err := trie.Add(l)
		if err != nil || !added {
			return crypto.Digest{}, fmt.Errorf("trie.Add(%x) = %v, %v", l, added, err)
		}
	}
	return trie.RootHash()
}

// cpxKvCollision finds two kv pairs of the snapshot with key1||value1 == key2||value2 (the known F1 class occurring
// naturally in a state: both pairs have the same trie leaf).
func cpxKvCollision(s *engcSnap) (k1, k2 string, found bool) {
	seen := map[string]string{}
	for _, k := range s.KvKeys("") {
		cat := k + string(s.Kv[k])
		if other, ok := seen[cat]; ok {
			return other, k, true
		}
		seen[cat] = k
	}
	return "", "", false
}

// cpxSkipOnKvCollision ends the case (rapid Skip, counted as excluded) when the state after the latest block holds two kv
// pairs with the same trie leaf. Such a state is an instance of the known class kv-boundary-shift arising inside one
// ledger (e.g. box "ab" = "c" next to a zero-length box "abc" of the same application): the balances trie then holds
// one leaf for two pairs and what it holds after one of them is deleted depends on the order of the trie operations,
// so neither the set-of-leaves model nor the pairwise comparison applies. Call after every block.
func cpxSkipOnKvCollision(t *rapid.T, w *engcWorld, excluded func(string)) {
	if k1, k2, found := cpxKvCollision(w.Model.Tip()); found {
		excluded("history reaches a state with two kv pairs of equal key||value (kv-boundary-shift inside one ledger)")
		t.Skipf("round %d: kv pairs %q and %q have the same trie leaf (known class kv-boundary-shift)", w.Model.Latest(), k1, k2)
	}
}

// cpxErrKvCollision: the model state holds two kv pairs with the same leaf; no root can be computed for it.
type cpxErrKvCollision struct {
	Round  basics.Round
	K1, K2 string
	V1, V2 []byte
}

func (e *cpxErrKvCollision) Error() string {
	return fmt.Sprintf("state of round %d holds kv pairs %q=%x and %q=%x with the same leaf (key||value equal: known class kv-boundary-shift)", e.Round, e.K1, e.V1, e.K2, e.V2)
}

// cpxModelRoot = cpxRootOf(cpxModelLeaves). A *cpxErrKvCollision error means the state itself contains an F1 collision.
func cpxModelRoot(m *engcModel, r basics.Round) (crypto.Digest, int, error) {
	if s := m.At(r); s != nil {
		if k1, k2, found := cpxKvCollision(s); found {
			return crypto.Digest{}, 0, &cpxErrKvCollision{Round: r, K1: k1, K2: k2, V1: s.Kv[k1], V2: s.Kv[k2]}
		}
	}
	leaves, err := cpxModelLeaves(m, r)
	if err != nil {
		return crypto.Digest{}, 0, err
	}
	root, err := cpxRootOf(leaves)
	return root, len(leaves), err
}

// cpxModelTotals recomputes the account totals at the snapshot's round from the enumerated accounts: per status the
// sum of balances including the rewards pending at the round's level, and the sum of whole reward units.
func cpxModelTotals(s *engcSnap) ledgercore.AccountTotals {
	var at ledgercore.AccountTotals
	at.RewardsLevel = s.RewardsLevel
	unit := s.Proto.RewardUnit
	for _, a := range s.Accts {
		d := a.Data
		if d.IsZero() {
			continue
		}
		var f *ledgercore.AlgoCount
		switch d.Status {
		case basics.Online:
			f = &at.Online
		case basics.Offline:
			f = &at.Offline
		default:
			f = &at.NotParticipating
		}
		f.Money.Raw += d.MicroAlgos.Raw + engcPendingRewards(d.Status, d.MicroAlgos.Raw, d.RewardsBase, s.RewardsLevel, unit)
		if unit > 0 {
			f.RewardUnits += d.MicroAlgos.Raw / unit
		}
	}
	return at
}

// ---------------------------------------------------------------------------------------------------------------
// reading back what a node stored (call on a quiescent node only)

// cpxStoredRoot opens the persisted balances trie of the node in a tracker-DB transaction of its own and returns its
// root together with the round the stored hashes belong to.
func cpxStoredRoot(l *Ledger) (root crypto.Digest, hashRound basics.Round, err error) {
	err = l.trackerDB().Transaction(func(ctx context.Context, tx trackerdb.TransactionScope) error {
		ar, err := tx.MakeAccountsReader()
		if err != nil {
			return err
		}
		hashRound, err = ar.AccountsHashRound(ctx)
		if err != nil {
			return err
		}
		mc, err := tx.MakeMerkleCommitter(false)
		if err != nil {
			return err
		}
		trie, err := merkletrie.MakeTrie(mc, trackerdb.TrieMemoryConfig)
		if err != nil {
			return err
		}
		root, err = trie.RootHash()
		return err
	})
	return
}

// cpxFirstStage reads the first-stage record of accounts round r.
func cpxFirstStage(l *Ledger, r basics.Round) (trackerdb.CatchpointFirstStageInfo, bool, error) {
	crw, err := l.trackerDB().MakeCatchpointReaderWriter()
	if err != nil {
		return trackerdb.CatchpointFirstStageInfo{}, false, err
	}
	return crw.SelectCatchpointFirstStageInfo(context.Background(), r)
}

// cpxSection is one entry of a catchpoint file (tar member).
type cpxSection struct {
	Name string
	Data []byte
}

// cpxReadCatchpointFile reads the catchpoint file of round r through the API peers are served from
// (Ledger.GetCatchpointStream): gzip + tar, as catchup/ledgerFetcher.go does.
func cpxReadCatchpointFile(l *Ledger, r basics.Round) ([]cpxSection, error) {
	rc, err := l.GetCatchpointStream(r)
	if err != nil {
		return nil, err
	}
	defer rc.Close()
	gz, err := gzip.NewReader(rc)
	if err != nil {
		return nil, err
	}
	defer gz.Close()
	tr := tar.NewReader(gz)
	var out []cpxSection
	for {
		hdr, err := tr.Next()
		if err == io.EOF {
			return out, nil
		}
		if err != nil {
			return nil, err
		}
		data := make([]byte, hdr.Size)
		if _, err := io.ReadFull(tr, data); err != nil {
			return nil, err
		}
		out = append(out, cpxSection{Name: hdr.Name, Data: data})
	}
}

// cpxIsBalancesSection: the section is a balances.N.msgpack chunk.
func cpxIsBalancesSection(name string) bool {
	return strings.HasPrefix(name, catchpointBalancesFileNamePrefix) && strings.HasSuffix(name, catchpointBalancesFileNameSuffix)
}

// cpxLabelRound parses the round out of a label ("" -> 0, false).
func cpxLabelRound(label string) (basics.Round, bool) {
	if label == "" {
		return 0, false
	}
	r, _, err := ledgercore.ParseCatchpointLabel(label)
	if err != nil {
		return 0, false
	}
	return r, true
}

// cpxTail renders the tail of the world's history for failure messages.
func cpxTail(w *engcWorld, n int) string {
	h := w.History
	if len(h) > n {
		h = h[len(h)-n:]
	}
	return strings.Join(h, "\n")
}
