package ledger

// C25 (ledger part) — the block evaluator withdraws from the rewards pool exactly what the header's rewards state
// distributes: pool(r) == pool(r-1) - (L(r)-L(r-1)) * rewardUnits(r-1) + payments into the pool, the header's state obeys
// the distribution equation for the inputs the evaluator really used (pool balance without rewards and the reward-unit
// total of the previous round), the pool never drops below MinBalance and the money supply is conserved.
// Real ledgers (in-memory), temporary protocols with refresh intervals of 2..7 rounds so refreshes happen.

import (
	"fmt"
	"io"
	"math/big"
	"testing"

	"github.com/algorand/go-algorand/config"
	"github.com/algorand/go-algorand/data/basics"
	"github.com/algorand/go-algorand/data/bookkeeping"
	"github.com/algorand/go-algorand/data/txntest"
	"github.com/algorand/go-algorand/logging"
	"github.com/algorand/go-algorand/protocol"
	"pgregory.net/rapid"
)

func c25lB(x uint64) *big.Int { return new(big.Int).SetUint64(x) }

func TestVerif_C25_Ledger(t *testing.T) {
	vk := vkBegin(t, "C25")
	vk.Rule("real in-memory ledgers under temporary protocols (current version with RewardsRateRefreshInterval 2/3/5/7, one with RewardUnit 1000): 3-6 reward-earning accounts + a non-participating one, pool = MinBalance + drawn surplus (0, tiny, or 1-40 level steps per round for one interval), 6-16 blocks of 0-3 payments (between accounts / into the pool); after every block the header rewards state, the pool balance and the money supply are checked with big integers. Non-trivial = history with >=1 refresh and >=1 round that raised the level leaving a residue. Distinct by genesis + payments")
	vk.Assume("accounts that exist are the generated ones, the fee sink and the rewards pool")

	// register the temporary protocols once, before any ledger (and its goroutines) exists; remove them at the end
	type pv struct {
		name     protocol.ConsensusVersion
		interval uint64
		unit     uint64
	}
	pvs := []pv{{"vk25i2", 2, 1e6}, {"vk25i3", 3, 1e6}, {"vk25i5", 5, 1e6}, {"vk25i7", 7, 1e6}, {"vk25i3u", 3, 1000}}
	for _, v := range pvs {
		p := config.Consensus[protocol.ConsensusCurrentVersion]
		p.RewardsRateRefreshInterval = v.interval
		p.RewardUnit = v.unit
		p.ApprovedUpgrades = map[protocol.ConsensusVersion]uint64{}
		config.Consensus[v.name] = p
	}
	defer func() {
		for _, v := range pvs {
			delete(config.Consensus, v.name)
		}
	}()
	tt := t
	quiet := logging.NewLogger()
	quiet.SetOutput(io.Discard)

	rapid.Check(t, func(t *rapid.T) {
		v := pvs[rapid.IntRange(0, len(pvs)-1).Draw(t, "proto")]
		proto := config.Consensus[v.name]
		fp := fmt.Sprintf("%s ", v.name)

		// genesis
		n := rapid.IntRange(3, 6).Draw(t, "accounts")
		accts := map[basics.Address]basics.AccountData{}
		var addrs []basics.Address
		for i := 0; i <= n; i++ {
			var a basics.Address
			copy(a[:], fmt.Sprintf("vk25-account-%02d-................", i))
			bal := uint64(rapid.IntRange(2, 4000).Draw(t, "units"))*proto.RewardUnit + uint64(rapid.IntRange(0, 999).Draw(t, "frac"))*proto.RewardUnit/1000
			if bal < 2_000_000 {
				bal += 2_000_000
			}
			st := basics.Offline
			if i == n {
				st = basics.NotParticipating
			}
			accts[a] = basics.AccountData{MicroAlgos: basics.MicroAlgos{Raw: bal}, Status: st}
			addrs = append(addrs, a)
			fp += fmt.Sprintf("%d,", bal)
		}
		var sink, pool basics.Address
		copy(sink[:], "vk25-fee-sink....................")
		copy(pool[:], "vk25-rewards-pool................")
		var surplus uint64
		switch rapid.IntRange(0, 5).Draw(t, "poolKind") {
		case 0:
			surplus = 0
		case 1:
			surplus = uint64(rapid.IntRange(0, 20).Draw(t, "poolTiny"))
		default:
			// enough for the level to move by 1..40 per round, plus a remainder that leaves residues
			var unitsEst uint64
			for _, ad := range accts {
				if ad.Status != basics.NotParticipating {
					unitsEst += ad.MicroAlgos.Raw / proto.RewardUnit
				}
			}
			surplus = unitsEst*proto.RewardsRateRefreshInterval*uint64(rapid.IntRange(1, 40).Draw(t, "poolLevels")) + uint64(rapid.IntRange(0, 100_000).Draw(t, "poolExtra"))
		}
		accts[sink] = basics.AccountData{MicroAlgos: basics.MicroAlgos{Raw: 5_000_000}, Status: basics.NotParticipating}
		accts[pool] = basics.AccountData{MicroAlgos: basics.MicroAlgos{Raw: proto.MinBalance + surplus}, Status: basics.NotParticipating}
		fp += fmt.Sprintf(" pool+%d ", surplus)
		all := append(append([]basics.Address{}, addrs...), sink, pool)
		supply := new(big.Int)
		for _, ad := range accts {
			supply.Add(supply, c25lB(ad.MicroAlgos.Raw))
		}
		gen := bookkeeping.MakeGenesisBalances(accts, sink, pool)
		l := newSimpleLedgerWithConsensusVersion(tt, gen, v.name, config.GetDefaultLocal(), simpleLedgerLogger(quiet))
		defer l.Close()

		nBlocks := rapid.IntRange(6, 16).Draw(t, "blocks")
		refreshes, residueRaises := 0, 0
		noteCtr := 0
		for b := 0; b < nBlocks; b++ {
			prevRound := l.Latest()
			prevHdr, err := l.BlockHdr(prevRound)
			if err != nil {
				tt.Fatalf("BlockHdr(%d): %v", prevRound, err)
			}
			_, prevTotals, err := l.LatestTotals()
			if err != nil {
				tt.Fatalf("LatestTotals: %v", err)
			}
			U := prevTotals.RewardUnits()
			poolPrevAD, _, err := l.LookupWithoutRewards(prevRound, pool)
			if err != nil {
				tt.Fatalf("LookupWithoutRewards: %v", err)
			}
			poolPrev := poolPrevAD.MicroAlgos.Raw

			ev := nextBlock(tt, l)
			credits := uint64(0)
			ntx := rapid.IntRange(0, 3).Draw(t, "ntx")
			for k := 0; k < ntx; k++ {
				from := rapid.IntRange(0, n).Draw(t, "from")
				bal := micros(tt, l, addrs[from])
				if bal < 3_000_000 {
					continue
				}
				amt := rapid.Uint64Range(0, (bal-1_000_000)/4).Draw(t, "amt")
				to := rapid.IntRange(0, n+1).Draw(t, "to")
				rcv := pool
				if to <= n {
					rcv = addrs[to]
				}
				noteCtr++
				txn(tt, l, ev, &txntest.Txn{Type: "pay", Sender: addrs[from], Receiver: rcv, Amount: amt, Note: fmt.Sprintf("vk25-%d", noteCtr)})
				if rcv == pool {
					credits += amt
				}
				fp += fmt.Sprintf("[%d>%d:%d]", from, to, amt)
			}
			endBlock(tt, l, ev)
			fp += "|"

			r := l.Latest()
			if r != prevRound+1 {
				tt.Fatalf("ledger did not advance")
			}
			hdr, err := l.BlockHdr(r)
			if err != nil {
				tt.Fatalf("BlockHdr(%d): %v", r, err)
			}
			s, res := prevHdr.RewardsState, hdr.RewardsState
			ctx := fmt.Sprintf("round %d prev %+v next %+v pool(prev)=%d units(prev)=%d\nhistory: %s", r, s, res, poolPrev, U, fp)
			// --- rate
			if r == s.RewardsRecalculationRound {
				refreshes++
				budget := new(big.Int).Sub(c25lB(poolPrev), c25lB(proto.MinBalance))
				if proto.PendingResidueRewards {
					budget.Sub(budget, c25lB(s.RewardsResidue))
				}
				I := c25lB(proto.RewardsRateRefreshInterval)
				sched := new(big.Int).Mul(c25lB(res.RewardsRate), I)
				if budget.Sign() < 0 {
					if res.RewardsRate != 0 {
						t.Fatalf("refresh with the pool below its floor gave rate %d\n%s", res.RewardsRate, ctx)
					}
				} else if sched.Cmp(budget) > 0 || new(big.Int).Add(sched, I).Cmp(budget) <= 0 {
					t.Fatalf("refresh schedules %s, budget %s, interval %s\n%s", sched, budget, I, ctx)
				}
				if res.RewardsRecalculationRound != r+basics.Round(proto.RewardsRateRefreshInterval) {
					t.Fatalf("next recalculation round %d\n%s", res.RewardsRecalculationRound, ctx)
				}
				vk.Label("ledger:refresh")
				if res.RewardsRate == 0 {
					vk.Label("ledger:refresh-rate0")
				}
			} else if res.RewardsRate != s.RewardsRate || res.RewardsRecalculationRound != s.RewardsRecalculationRound {
				t.Fatalf("rate / recalculation round changed outside a refresh round\n%s", ctx)
			}
			eff := s.RewardsRate
			if proto.RewardsCalculationFix {
				eff = res.RewardsRate
			}
			// --- distribution equation (magnitudes here cannot overflow)
			if res.RewardsLevel < s.RewardsLevel {
				t.Fatalf("level decreased\n%s", ctx)
			}
			dist := new(big.Int).Mul(c25lB(res.RewardsLevel-s.RewardsLevel), c25lB(U))
			if U == 0 {
				if res.RewardsLevel != s.RewardsLevel || res.RewardsResidue != s.RewardsResidue {
					t.Fatalf("no reward units but level/residue changed\n%s", ctx)
				}
			} else {
				lhs := new(big.Int).Add(dist, c25lB(res.RewardsResidue))
				lhs.Sub(lhs, c25lB(s.RewardsResidue))
				if lhs.Cmp(c25lB(eff)) != 0 {
					t.Fatalf("(L'-L)*U + R' - R = %s, rate in effect %d\n%s", lhs, eff, ctx)
				}
				if res.RewardsResidue >= U {
					t.Fatalf("residue %d >= units %d\n%s", res.RewardsResidue, U, ctx)
				}
				if dist.Sign() > 0 && res.RewardsResidue != 0 {
					residueRaises++
				}
			}
			// --- pool withdrawal
			poolNowAD, _, err := l.LookupWithoutRewards(r, pool)
			if err != nil {
				tt.Fatalf("LookupWithoutRewards: %v", err)
			}
			wantPool := new(big.Int).Sub(c25lB(poolPrev), dist)
			wantPool.Add(wantPool, c25lB(credits))
			if c25lB(poolNowAD.MicroAlgos.Raw).Cmp(wantPool) != 0 {
				t.Fatalf("pool balance %d, expected %s (= %d - %s distributed + %d paid in)\n%s", poolNowAD.MicroAlgos.Raw, wantPool, poolPrev, dist, credits, ctx)
			}
			if poolNowAD.MicroAlgos.Raw < proto.MinBalance {
				t.Fatalf("pool balance %d below MinBalance\n%s", poolNowAD.MicroAlgos.Raw, ctx)
			}
			// --- money supply (balances including accrued rewards)
			sum := new(big.Int)
			for _, a := range all {
				sum.Add(sum, c25lB(micros(tt, l, a)))
			}
			if sum.Cmp(supply) != 0 {
				t.Fatalf("money supply %s, genesis supply %s (difference %s)\n%s", sum, supply, new(big.Int).Sub(sum, supply), ctx)
			}
			if dist.Sign() > 0 {
				vk.Label("ledger:level-raised")
			} else {
				vk.Label("ledger:level-kept")
			}
		}
		nt := refreshes >= 1 && residueRaises >= 1
		vk.Case(nt, fp)
		if vk.WantSample(nt) {
			vk.Sample(nt, fp)
		}
	})
}
