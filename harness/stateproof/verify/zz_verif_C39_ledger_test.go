package verify

// C39 (ledger side) — ValidateStateProof accepts a state proof built by the real prover from real participant signatures for
// the verification context of its interval, and rejects it when the context (last attested round, voters commitment, online
// total weight, protocol version), the message, the time-dependent weight requirement or the proof itself is tampered.
// Oracle for the time-dependent acceptable weight: the documented piecewise-linear rule evaluated in math/big.

import (
	"crypto/sha256"
	"fmt"
	"math"
	"math/big"
	mrand "math/rand"
	"sync"
	"testing"

	"pgregory.net/rapid"

	"github.com/algorand/go-algorand/config"
	"github.com/algorand/go-algorand/crypto"
	"github.com/algorand/go-algorand/crypto/merklearray"
	"github.com/algorand/go-algorand/crypto/merklesignature"
	"github.com/algorand/go-algorand/crypto/stateproof"
	"github.com/algorand/go-algorand/data/basics"
	"github.com/algorand/go-algorand/data/stateproofmsg"
	"github.com/algorand/go-algorand/ledger/ledgercore"
	"github.com/algorand/go-algorand/logging"
	"github.com/algorand/go-algorand/protocol"
)

const (
	c39lLifetime = 256
	c39lKeys     = 3 // key periods 256, 512, 768
)

type c39lKeyArr []crypto.FalconSigner

func (k c39lKeyArr) Length() uint64 { return uint64(len(k)) }
func (k c39lKeyArr) Marshal(pos uint64) (crypto.Hashable, error) {
	if pos >= uint64(len(k)) {
		return nil, fmt.Errorf("key index %d out of range", pos)
	}
	return &merklesignature.CommittablePublicKey{VerifyingKey: *k[pos].GetVerifyingKey(), Round: c39lLifetime + pos*c39lLifetime}, nil
}

type c39lIdentity struct {
	keys c39lKeyArr
	ctx  merklesignature.SignerContext
	ver  merklesignature.Verifier
}

var (
	c39lMu   sync.Mutex
	c39lPool []*c39lIdentity
)

func c39lIdent(i int) *c39lIdentity {
	c39lMu.Lock()
	defer c39lMu.Unlock()
	for len(c39lPool) <= i {
		n := len(c39lPool)
		keys := make(c39lKeyArr, c39lKeys)
		for j := range keys {
			var seed crypto.FalconSeed
			h := sha256.Sum256([]byte(fmt.Sprintf("verif-C39-ledger-key-%d-%d", n, j)))
			copy(seed[:], h[:])
			k, err := crypto.GenerateFalconSigner(seed)
			if err != nil {
				panic(err)
			}
			keys[j] = k
		}
		tree, err := merklearray.BuildVectorCommitmentTree(keys, crypto.HashFactory{HashType: merklesignature.MerkleSignatureSchemeHashFunction})
		if err != nil {
			panic(err)
		}
		id := &c39lIdentity{keys: keys, ctx: merklesignature.SignerContext{FirstValid: c39lLifetime, KeyLifetime: c39lLifetime, Tree: *tree}}
		id.ver = *id.ctx.GetVerifier()
		c39lPool = append(c39lPool, id)
	}
	return c39lPool[i]
}

func (id *c39lIdentity) sign(round uint64, msg []byte) (merklesignature.Signature, error) {
	s := merklesignature.Signer{SigningKey: &id.keys[round/c39lLifetime-1], Round: round, SignerContext: id.ctx}
	return s.SignBytes(msg)
}

// the documented rule: 100% until interval/2 rounds after the last attested round, then linear down to the threshold
// fraction at interval rounds, then the threshold fraction.
func c39lAcceptable(total uint64, threshold uint32, interval uint64, lastAttested, atRound uint64) *big.Int {
	T := new(big.Int).SetUint64(total)
	half := interval / 2
	if atRound <= lastAttested+half {
		return T
	}
	offset := atRound - lastAttested - half
	pw := new(big.Int).Mul(T, big.NewInt(int64(threshold)))
	pw.Rsh(pw, 32)
	if offset >= half {
		return pw
	}
	sc := new(big.Int).Sub(T, pw)
	sc.Mul(sc, new(big.Int).SetUint64(half-offset))
	sc.Quo(sc, new(big.Int).SetUint64(half))
	return sc.Add(sc, pw)
}

func TestVerif_C39_Ledger(t *testing.T) {
	vk := vkBegin(t, "C39")
	vk.Rule("6..24 participants with cached real keys, stake-like weights, provenWeight = 30% of the online total as the consensus parameters say, signers holding 62..100% of the total; the proof for (LastAttestedRound 512 or 768, message) is validated at rounds across the 100% / sliding / threshold windows and with every context / message field tampered; non-trivial = the untouched proof validated; distinct by participants+signers+message")
	lvl := logging.Base().GetLevel()
	logging.Base().SetLevel(logging.Error)
	defer logging.Base().SetLevel(lvl)
	version := protocol.ConsensusCurrentVersion
	proto := config.Consensus[version]
	if proto.StateProofInterval != c39lLifetime {
		t.Fatalf("harness assumes StateProofInterval 256, got %d", proto.StateProofInterval)
	}
	pool := vkN(8, 16)
	rapid.Check(t, func(t *rapid.T) {
		n := rapid.SampledFrom([]int{6, 7, 8, 9, 12, 16, 17, 24}).Draw(t, "participants")
		seed := rapid.Int64().Draw(t, "seed")
		r := mrand.New(mrand.NewSource(seed))
		parts := make([]basics.Participant, n)
		ident := make([]int, n)
		var total uint64
		for i := range parts {
			ident[i] = r.Intn(pool)
			w := uint64(1e9) + uint64(r.Int63n(1e12))
			parts[i] = basics.Participant{PK: c39lIdent(ident[i]).ver, Weight: w}
			total += w
		}
		last := uint64(512 + 256*r.Intn(2))
		tree, err := merklearray.BuildVectorCommitmentTree(basics.ParticipantsArray(parts), crypto.HashFactory{HashType: stateproof.HashType})
		if err != nil {
			t.Fatalf("tree: %v", err)
		}
		pwBig := new(big.Int).Mul(new(big.Int).SetUint64(total), big.NewInt(int64(proto.StateProofWeightThreshold)))
		pw := pwBig.Rsh(pwBig, 32).Uint64()
		lnpw, err := stateproof.LnIntApproximation(pw)
		if err != nil {
			t.Fatalf("ln: %v", err)
		}
		msg := stateproofmsg.Message{BlockHeadersCommitment: make([]byte, 32), VotersCommitment: tree.Root(), LnProvenWeight: lnpw,
			FirstAttestedRound: basics.Round(last - 255), LastAttestedRound: basics.Round(last)}
		r.Read(msg.BlockHeadersCommitment)
		data := msg.Hash()
		prover, err := stateproof.MakeProver(data, last, pw, parts, tree, proto.StateProofStrengthTarget)
		if err != nil {
			t.Fatalf("MakeProver: %v", err)
		}
		// signers: a random order until >= 62% of the total (ratio > 2 over the 30% threshold), sometimes everybody
		all := rapid.IntRange(0, 4).Draw(t, "everybody") == 0
		var signed uint64
		signs := make([]bool, n)
		sigCache := map[int]merklesignature.Signature{}
		for _, i := range r.Perm(n) {
			if !all && signed >= total/100*62+1 {
				break
			}
			sig, ok := sigCache[ident[i]]
			if !ok {
				sig, err = c39lIdent(ident[i]).sign(last, data[:])
				if err != nil {
					t.Fatalf("sign: %v", err)
				}
				sigCache[ident[i]] = sig
			}
			if err := prover.IsValid(uint64(i), &sig, true); err != nil {
				t.Fatalf("IsValid: %v", err)
			}
			if err := prover.Add(uint64(i), sig); err != nil {
				t.Fatalf("Add: %v", err)
			}
			signs[i] = true
			signed += parts[i].Weight
		}
		sp, err := prover.CreateProof()
		if err != nil {
			t.Fatalf("CreateProof with %d of %d signed (proven %d): %v", signed, total, pw, err)
		}
		ctx := ledgercore.StateProofVerificationContext{LastAttestedRound: basics.Round(last), VotersCommitment: tree.Root(),
			OnlineTotalWeight: basics.MicroAlgos{Raw: total}, Version: version}
		late := basics.Round(last + 256 + uint64(r.Intn(1000)))
		if err := ValidateStateProof(&ctx, sp, late, &msg); err != nil {
			t.Fatalf("untouched proof rejected at round %d (signed %d of %d, proven %d): %v", late, signed, total, pw, err)
		}
		fp := fmt.Sprintf("%d/%v/%v/%d/%x", n, ident, signs, last, data[:6])
		must := func(what string, c ledgercore.StateProofVerificationContext, p *stateproof.StateProof, at basics.Round, m stateproofmsg.Message) {
			vk.Label("tamper: " + what)
			vk.Add("tampered_validations", 1)
			if err := ValidateStateProof(&c, p, at, &m); err == nil {
				t.Fatalf("%s: ValidateStateProof accepted (signed %d of %d, proven %d, last attested %d, at %d)", what, signed, total, pw, last, at)
			}
		}
		// --- time dependent weight requirement, both directions, against the documented rule
		for k := 0; k < 6; k++ {
			at := last + uint64(r.Intn(300))
			if k == 0 {
				at = last + 128
			} else if k == 1 {
				at = last + 129
			} else if k == 2 {
				at = last + 255
			}
			need := c39lAcceptable(total, proto.StateProofWeightThreshold, 256, last, at)
			enough := new(big.Int).SetUint64(signed).Cmp(need) >= 0
			err := ValidateStateProof(&ctx, sp, basics.Round(at), &msg)
			if enough != (err == nil) {
				t.Fatalf("at round %d (last attested %d): signed %d of %d, documented requirement %s, ValidateStateProof: %v", at, last, signed, total, need, err)
			}
			if enough {
				vk.Label("weight window: accepted")
			} else {
				vk.Label("weight window: rejected (not enough weight yet)")
			}
		}
		// --- context
		c := ctx
		c.LastAttestedRound += 256
		must("context LastAttestedRound+interval", c, sp, late+256, msg)
		c = ctx
		c.LastAttestedRound -= 256
		must("context LastAttestedRound-interval", c, sp, late, msg)
		c = ctx
		c.LastAttestedRound++
		must("context LastAttestedRound+1 (not a multiple)", c, sp, late, msg)
		c = ctx
		c.VotersCommitment = append(crypto.GenericDigest{}, ctx.VotersCommitment...)
		c.VotersCommitment[r.Intn(len(c.VotersCommitment))] ^= 1 << uint(r.Intn(8))
		must("context VotersCommitment bit", c, sp, late, msg)
		c = ctx
		c.OnlineTotalWeight.Raw = total * 4 // proven weight above the signed weight
		must("context OnlineTotalWeight x4", c, sp, late, msg)
		c = ctx
		c.OnlineTotalWeight.Raw = total / 2 // another ln(provenWeight): another Fiat-Shamir seed, every coin re-drawn
		{
			// asserted only where a lucky acceptance (all re-drawn coins landing in their slots) is below 2^-40
			var maxW uint64
			for i, s := range signs {
				if s && parts[i].Weight > maxW {
					maxW = parts[i].Weight
				}
			}
			if float64(len(sp.PositionsToReveal))*math.Log2(float64(signed)/float64(maxW)) >= 40 {
				must("context OnlineTotalWeight /2", c, sp, late, msg)
			} else {
				vk.Label("n/a: OnlineTotalWeight /2 (one signer dominates)")
			}
		}
		c = ctx
		c.Version = protocol.ConsensusVersion("verif-no-such-version")
		must("context unknown protocol version", c, sp, late, msg)
		// --- message
		m := msg
		m.BlockHeadersCommitment = append([]byte{}, msg.BlockHeadersCommitment...)
		m.BlockHeadersCommitment[r.Intn(32)] ^= 1 << uint(r.Intn(8))
		must("message BlockHeadersCommitment bit", ctx, sp, late, m)
		m = msg
		m.VotersCommitment = append([]byte{}, msg.VotersCommitment...)
		m.VotersCommitment[0] ^= 1
		must("message VotersCommitment bit", ctx, sp, late, m)
		m = msg
		m.LnProvenWeight++
		must("message LnProvenWeight+1", ctx, sp, late, m)
		m = msg
		m.FirstAttestedRound++
		must("message FirstAttestedRound+1", ctx, sp, late, m)
		m = msg
		m.LastAttestedRound += 256
		must("message LastAttestedRound+interval", ctx, sp, late, m)
		// --- the proof itself (the crypto-level catalogue lives in crypto/stateproof)
		var cp stateproof.StateProof
		if err := protocol.Decode(protocol.Encode(sp), &cp); err != nil {
			t.Fatalf("copy: %v", err)
		}
		if err := ValidateStateProof(&ctx, &cp, late, &msg); err != nil {
			t.Fatalf("proof rejected after encode/decode: %v", err)
		}
		if len(cp.PositionsToReveal) >= 3 {
			cp.PositionsToReveal = cp.PositionsToReveal[:len(cp.PositionsToReveal)-2]
			must("proof positions truncated by 2", ctx, &cp, late, msg)
		}
		if err := protocol.Decode(protocol.Encode(sp), &cp); err != nil {
			t.Fatalf("copy: %v", err)
		}
		for p, rv := range cp.Reveals {
			rv.Part.Weight++
			cp.Reveals[p] = rv
			break
		}
		must("proof reveal participant weight+1", ctx, &cp, late, msg)
		vk.Labelf("signed %d%% of total", signed/(total/100)/10*10)
		vk.Case(true, fp)
		if vk.WantSample(true) {
			vk.Sample(true, map[string]interface{}{"participants": n, "total": total, "provenWeight": pw, "signedWeight": signed, "lastAttested": last,
				"positions": len(sp.PositionsToReveal), "reveals": len(sp.Reveals)})
		}
	})
}
