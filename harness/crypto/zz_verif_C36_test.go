package crypto

// C36 — Participation (one-time signature) keys are forward secure.
//
// Model: H = lexicographic max of the identifiers passed to DeleteBeforeFineGrained so far (nil before the first call).
//   * id <  H                      => Sign(id) does not verify, AND no forgery assembled from any secret that is still
//                                      retained (live object incl. slice capacity, Snapshot, and decode(encode(Snapshot))) verifies;
//   * id >= H, id in the key range => Sign(id) verifies under the verifier captured at generation time, and does not verify
//                                      for another identifier / another message.
// Forgeries are built from raw key material with the ed25519 primitive, not with Sign.

import (
	"fmt"
	"testing"

	"pgregory.net/rapid"

	"github.com/algorand/go-algorand/logging"
	"github.com/algorand/go-algorand/protocol"
)

type c36Msg []byte

func (m c36Msg) ToBeHashed() (protocol.HashID, []byte) { return protocol.TestHashable, m }

type c36ID = OneTimeSignatureIdentifier

func c36Less(a, b c36ID) bool { return a.Batch < b.Batch || (a.Batch == b.Batch && a.Offset < b.Offset) }

type c36World struct {
	start, n, d uint64
	verifier    OneTimeSignatureVerifier
	s           *OneTimeSignatureSecrets
	rng         *PRNG
	hor         *c36ID
	atkPK       ed25519PublicKey
	atkSK       ed25519PrivateKey
	msgN        int
	// statistics
	oldRejected, laterVerified, forgeTries int
}

func c36NewWorld(start, n, d uint64, seed []byte) *c36World {
	w := &c36World{start: start, n: n, d: d, rng: MakePRNG(seed)}
	w.s = GenerateOneTimeSignatureSecretsRNG(start, n, w.rng)
	w.verifier = w.s.OneTimeSignatureVerifier
	w.atkPK, w.atkSK = ed25519GenerateKeyRNG(w.rng)
	return w
}

func (w *c36World) inRange(id c36ID) bool {
	return id.Batch >= w.start && id.Batch-w.start < w.n && id.Offset < w.d
}

func (w *c36World) old(id c36ID) bool { return w.hor != nil && c36Less(id, *w.hor) }

func (w *c36World) delete(cur c36ID) {
	w.s.DeleteBeforeFineGrained(cur, w.d)
	if w.hor == nil || c36Less(*w.hor, cur) {
		c := cur
		w.hor = &c
	}
}

// persist simulates a node restart: the secrets are replaced by what a reader of the stored encoding gets.
func (w *c36World) persist() error {
	snap := w.s.Snapshot()
	enc := protocol.Encode(&snap)
	dec := new(OneTimeSignatureSecrets)
	if err := protocol.Decode(enc, dec); err != nil {
		return err
	}
	dec.rng = w.rng // keep the run deterministic (a decoded object would otherwise fall back to SystemRNG)
	w.s = dec
	return nil
}

func (w *c36World) msg() c36Msg {
	w.msgN++
	return c36Msg(fmt.Sprintf("vote-%d", w.msgN))
}

// ids of the key range plus one batch before / after it
func (w *c36World) space() []c36ID {
	lo := w.start
	if lo > 0 {
		lo--
	}
	var ids []c36ID
	for b := lo; b <= w.start+w.n; b++ {
		for o := uint64(0); o < w.d; o++ {
			ids = append(ids, c36ID{Batch: b, Offset: o})
		}
	}
	return ids
}

// scan signs every identifier of the space and compares the verdict of Verify with the model.
func (w *c36World) scan(fail func(string, ...interface{})) {
	ids := w.space()
	crossDone := false
	for i, id := range ids {
		m := w.msg()
		sig := w.s.Sign(id, m)
		ok := w.verifier.Verify(id, m, sig)
		switch {
		case w.old(id):
			if ok {
				fail("forward security broken: after deleting before %v, Sign(%v) still verifies (start=%d n=%d dilution=%d)", *w.hor, id, w.start, w.n, w.d)
				return
			}
			w.oldRejected++
		case w.inRange(id):
			if !ok {
				fail("signature for later identifier %v does not verify (deleted before %v; start=%d n=%d dilution=%d; FirstBatch=%d len(Batches)=%d FirstOffset=%d len(Offsets)=%d)",
					id, w.hor, w.start, w.n, w.d, w.s.FirstBatch, len(w.s.Batches), w.s.FirstOffset, len(w.s.Offsets))
				return
			}
			w.laterVerified++
			if !crossDone || i%5 == 0 {
				crossDone = true
				other := ids[(i+1)%len(ids)]
				if other != id && w.verifier.Verify(other, m, sig) {
					fail("signature for %v also verifies for %v", id, other)
					return
				}
				if w.verifier.Verify(id, w.msg(), sig) {
					fail("signature for %v verifies for another message", id)
					return
				}
				var wrong OneTimeSignatureVerifier
				copy(wrong[:], w.atkPK[:])
				if wrong.Verify(id, m, sig) {
					fail("signature for %v verifies under an unrelated verifier", id)
					return
				}
			}
		}
	}
}

// inspect: no secret retained in p lets anybody assemble a verifying signature for an old identifier.
func (w *c36World) inspect(fail func(string, ...interface{}), p *OneTimeSignatureSecretsPersistent, where string) {
	if w.hor == nil {
		return
	}
	var olds []c36ID
	for _, id := range w.space() {
		if w.old(id) && id.Batch >= w.start {
			olds = append(olds, id)
		}
	}
	if len(olds) == 0 {
		return
	}
	m := w.msg()
	rep := HashRep(m)
	atkSig := ed25519Sign(w.atkSK, rep)
	batches := p.Batches[:cap(p.Batches)]
	offsets := p.Offsets[:cap(p.Offsets)]
	for bi, k := range batches {
		for _, id := range olds {
			// a retained batch-level secret certifies a fresh attacker key for (id.Batch, id.Offset)
			forged := OneTimeSignature{
				Sig:    atkSig,
				PK:     w.atkPK,
				PK1Sig: ed25519Sign(k.SK, HashRep(OneTimeSignatureSubkeyOffsetID{SubKeyPK: w.atkPK, Batch: id.Batch, Offset: id.Offset})),
				PK2:    k.PK,
				PK2Sig: k.PKSigNew,
			}
			w.forgeTries++
			if w.verifier.Verify(id, m, forged) {
				fail("%s: batch secret #%d (of %d, cap %d; FirstBatch=%d) is still retained and signs old identifier %v after deleting before %v (start=%d n=%d dilution=%d)",
					where, bi, len(p.Batches), cap(p.Batches), p.FirstBatch, id, *w.hor, w.start, w.n, w.d)
				return
			}
		}
	}
	for oi, k := range offsets {
		sig := ed25519Sign(k.SK, rep)
		for _, id := range olds {
			forged := OneTimeSignature{Sig: sig, PK: k.PK, PK1Sig: k.PKSigNew, PK2: p.OffsetsPK2, PK2Sig: p.OffsetsPK2Sig}
			w.forgeTries++
			if w.verifier.Verify(id, m, forged) {
				fail("%s: offset secret #%d (of %d, cap %d; FirstBatch=%d FirstOffset=%d) is still retained and signs old identifier %v after deleting before %v (start=%d n=%d dilution=%d)",
					where, oi, len(p.Offsets), cap(p.Offsets), p.FirstBatch, p.FirstOffset, id, *w.hor, w.start, w.n, w.d)
				return
			}
		}
	}
}

func (w *c36World) inspectAll(fail func(string, ...interface{})) {
	failed := false
	f := func(s string, a ...interface{}) { failed = true; fail(s, a...) }
	w.inspect(f, &w.s.OneTimeSignatureSecretsPersistent, "live object")
	if failed {
		return
	}
	snap := w.s.Snapshot()
	enc := protocol.Encode(&snap)
	var dec OneTimeSignatureSecrets
	if err := protocol.Decode(enc, &dec); err != nil {
		fail("snapshot does not decode: %v", err)
		return
	}
	w.inspect(f, &dec.OneTimeSignatureSecretsPersistent, "decoded snapshot")
}

func c36Quiet() func() {
	lvl := logging.Base().GetLevel()
	logging.Base().SetLevel(logging.Error) // Sign warns on every out-of-range identifier
	return func() { logging.Base().SetLevel(lvl) }
}

// ---- random histories


func TestVerif_C36_Histories(t *testing.T) {
	vk := vkBegin(t, "C36")
	vk.Rule("secrets for 1..4 batches x dilution {1,2,3,4,7} (also derived from first/last valid rounds like FillDBWithParticipationKeys), histories of 1..8 operations: DeleteBeforeFineGrained at the next round, further in the batch, skipping batches, backwards, before/after the range, and store/load round-trips; after every operation every identifier of the range (+1 batch each side) is signed and verified and all retained secrets are used to forge old identifiers; non-trivial = some identifier became old (rejected) while a later one still verified; distinct by parameters+history")
	defer c36Quiet()()
	rapid.Check(t, func(t *rapid.T) {
		d := rapid.SampledFrom([]uint64{1, 2, 3, 4, 7}).Draw(t, "dilution")
		var start, n uint64
		roundsMode := rapid.Bool().Draw(t, "roundsMode")
		if roundsMode {
			// as in data/account: batches cover [firstValid, lastValid]
			first := rapid.Uint64Range(0, 40).Draw(t, "firstValid")
			if rapid.IntRange(0, 5).Draw(t, "farStart") == 0 {
				first += 1 << 33
			}
			maxSpan := 4*d - 1 - first%d
			last := first + rapid.Uint64Range(0, maxSpan).Draw(t, "span")
			start = first / d
			n = last/d - start + 1
		} else {
			start = rapid.SampledFrom([]uint64{0, 1, 2, 9, 1 << 40}).Draw(t, "start")
			n = rapid.Uint64Range(1, 4).Draw(t, "n")
		}
		seed := rapid.SliceOfN(rapid.Byte(), 8, 8).Draw(t, "seed")
		w := c36NewWorld(start, n, d, seed)
		fail := func(s string, a ...interface{}) { t.Fatalf(s, a...) }

		w.scan(fail) // nothing deleted yet: the whole range signs
		nops := rapid.IntRange(1, 8).Draw(t, "nops")
		fp := fmt.Sprintf("s%d n%d d%d %x", start, n, d, seed)
		var hist []string
		nonMono, skipped, beyond, inBatch, persisted := false, false, false, false, false
		for i := 0; i < nops; i++ {
			cur := c36ID{Batch: start}
			if w.hor != nil {
				cur = *w.hor
			}
			kind := rapid.IntRange(0, 12).Draw(t, "op")
			switch {
			case kind == 0:
				if err := w.persist(); err != nil {
					t.Fatalf("persist round-trip failed: %v", err)
				}
				persisted = true
				hist = append(hist, "P")
				w.scan(fail)
				w.inspectAll(fail)
				continue
			case kind <= 5: // the next round (what the node does every round)
				cur.Offset++
				if cur.Offset >= d {
					cur.Batch, cur.Offset = cur.Batch+1, 0
				}
			case kind == 6: // further inside the same batch
				cur.Offset = rapid.Uint64Range(0, d-1).Draw(t, "off")
				inBatch = true
			case kind == 7: // skip whole batches
				cur.Batch += rapid.Uint64Range(1, 2).Draw(t, "skip")
				cur.Offset = rapid.Uint64Range(0, d-1).Draw(t, "off")
				skipped = true
			case kind == 8: // backwards / before the range
				back := rapid.Uint64Range(0, 3).Draw(t, "back")
				if back > cur.Batch {
					back = cur.Batch
				}
				cur.Batch -= back
				cur.Offset = rapid.Uint64Range(0, d-1).Draw(t, "off")
			case kind <= 10: // anywhere in the space
				ids := w.space()
				cur = ids[rapid.IntRange(0, len(ids)-1).Draw(t, "any")]
			case kind == 11: // beyond the range
				cur.Batch = start + n + rapid.Uint64Range(0, 2).Draw(t, "past")
				cur.Offset = rapid.Uint64Range(0, d-1).Draw(t, "off")
			default: // last identifier of the range
				cur = c36ID{Batch: start + n - 1, Offset: d - 1}
			}
			if w.hor != nil && c36Less(cur, *w.hor) {
				nonMono = true
			}
			if cur.Batch >= start+n {
				beyond = true
			}
			hist = append(hist, fmt.Sprintf("D%d.%d", cur.Batch-minU64(cur.Batch, start), cur.Offset))
			if cur.Batch < start {
				hist[len(hist)-1] = fmt.Sprintf("D-%d.%d", start-cur.Batch, cur.Offset)
			}
			w.delete(cur)
			w.scan(fail)
			w.inspectAll(fail)
		}
		for _, l := range []struct {
			on   bool
			name string
		}{{nonMono, "non-monotone delete"}, {skipped, "skips batches"}, {beyond, "delete beyond the range"}, {inBatch, "advance inside batch"}, {persisted, "store/load round-trip"}, {roundsMode, "derived from rounds"}} {
			if l.on {
				vk.Label(l.name)
			}
		}
		if w.hor != nil && w.inRange(*w.hor) {
			vk.Label("final horizon inside the range")
		}
		nt := w.oldRejected > 0 && w.laterVerified > 0 && w.hor != nil
		vk.Add("old_ids_rejected", int64(w.oldRejected))
		vk.Add("later_ids_verified", int64(w.laterVerified))
		vk.Add("forgery_attempts", int64(w.forgeTries))
		fp += fmt.Sprint(hist)
		vk.Case(nt, fp)
		if vk.WantSample(nt) {
			vk.Sample(nt, map[string]interface{}{"start": start, "batches": n, "dilution": d, "history": hist, "oldRejected": w.oldRejected, "laterVerified": w.laterVerified, "forgeryAttempts": w.forgeTries})
		}
	})
}

func minU64(a, b uint64) uint64 {
	if a < b {
		return a
	}
	return b
}

// ---- exhaustive: every deletion sequence on a 3 x 3 key space

func TestVerif_C36_Exhaustive(t *testing.T) {
	vk := vkBegin(t, "C36")
	maxLen := vkN(2, 4)
	vk.Rule(fmt.Sprintf("3 batches x dilution 3 starting at batch 5; every sequence of <= %d DeleteBeforeFineGrained calls over the 18 identifiers of batches 4..9 (one before, two after the range), each with and without a store/load round-trip after every call; full sign/verify scan and forgery inspection after the last call (prefixes are their own sequences); non-trivial = some identifier old and some later identifier still verifying; distinct by sequence", maxLen))
	defer c36Quiet()()
	const start, n, d = 5, 3, 3
	var ops []c36ID
	for b := uint64(start - 1); b <= start+n+1; b++ {
		for o := uint64(0); o < d; o++ {
			ops = append(ops, c36ID{Batch: b, Offset: o})
		}
	}
	type rp struct {
		Seq     []c36ID
		Persist bool
	}
	idx := 0
	var seq []c36ID
	var rec func(depth int)
	run := func(persist bool) {
		w := c36NewWorld(start, n, d, []byte(fmt.Sprintf("ex-%d-%d", vkSeed(), len(seq))))
		fail := func(s string, a ...interface{}) {
			vk.Failf(rp{append([]c36ID{}, seq...), persist}, "sequence %v persist=%v: %s", seq, persist, fmt.Sprintf(s, a...))
		}
		for _, cur := range seq {
			w.delete(cur)
			if persist {
				if err := w.persist(); err != nil {
					fail("persist failed: %v", err)
				}
			}
		}
		w.scan(fail)
		w.inspectAll(fail)
		nt := w.oldRejected > 0 && w.laterVerified > 0
		vk.Case(nt, fmt.Sprintf("%v/%v", seq, persist))
		vk.Add("old_ids_rejected", int64(w.oldRejected))
		vk.Add("later_ids_verified", int64(w.laterVerified))
		vk.Add("forgery_attempts", int64(w.forgeTries))
		if vk.WantSample(nt) {
			vk.Sample(nt, map[string]interface{}{"sequence": fmt.Sprint(seq), "persist": persist, "oldRejected": w.oldRejected, "laterVerified": w.laterVerified})
		}
	}
	rec = func(depth int) {
		if depth > 0 {
			idx++
			if idx%vkNShards() == vkShard() {
				run(false)
				run(true)
			}
		}
		if depth == maxLen {
			return
		}
		for _, o := range ops {
			seq = append(seq, o)
			rec(depth + 1)
			seq = seq[:len(seq)-1]
		}
	}
	rec(0)
	vk.Exhaustive(fmt.Sprintf("all DeleteBeforeFineGrained sequences of length <= %d over 18 identifiers (batches 4..9) on a 3x3 key space (x store/load after every call), split over %d shard(s)", maxLen, vkNShards()))
}
