package merkletrie

import (
	"fmt"
	"syscall"
	"testing"
)

func c17cpu() float64 {
	var ru syscall.Rusage
	syscall.Getrusage(syscall.RUSAGE_SELF, &ru)
	return float64(ru.Utime.Sec+ru.Stime.Sec) + float64(ru.Utime.Usec+ru.Stime.Usec)/1e6
}

func TestVerif_C17_Probe(t *testing.T) {
	vk := vkBegin(t, "C17")
	u9 := c17Universe([]byte{0, 1, 2}, []byte{0, 1, 2})
	cfgA := MemoryConfig{NodesCountPerPage: 2, CachedNodesCount: 1, PageFillFactor: 0.9, MaxChildrenPagesThreshold: 1}
	c0 := c17cpu()
	c17Exhaust(vk, "probe", u9, 3, cfgA)
	c1 := c17cpu()
	fmt.Printf("PROBE exhaust u9 len<=3: cpu %.2fs for %d sequences\n", c1-c0, vk.counters["sequences/probe"])
	com := &InMemoryCommitter{}
	mt, _ := MakeTrie(com, cfgA)
	mt.Add([]byte{0, 0})
	mt.Add([]byte{0, 1})
	c0 = c17cpu()
	for i := 0; i < 2000; i++ {
		mt.Commit()
	}
	c1 = c17cpu()
	fmt.Printf("PROBE 2000 commits: cpu %.3fs\n", c1-c0)
}
