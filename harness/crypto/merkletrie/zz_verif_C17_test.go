package merkletrie

// C17 — Merkle trie root depends only on the element set.
//
// Oracles (all independent of the trie implementation):
//   (1) membership: Add/Delete booleans against a Go map model;
//   (2) canonical hash: c17RefRoot, a recursive reference written from the documented layout
//       (node.calculateHash / Trie.RootHash comments), hashing with crypto/sha512 directly;
//   (3) history independence: a fresh trie fed the final set in sorted order under a huge-page config;
//   (4) reload equivalence: after commit/evict/reload/crash-reload/committer swap the root and every later
//       result still follow the model; no operation may return an error with an in-memory committer.

import (
	"bytes"
	"crypto/sha512"
	"errors"
	"fmt"
	mrand "math/rand"
	"sort"
	"strings"
	"syscall"
	"testing"

	"pgregory.net/rapid"
)

// ---------------------------------------------------------------------------------------------------------
// reference canonical hash

// c17RefNode hashes the branch node whose path is keys[0][:depth]; keys are sorted, distinct, equal length and
// all share that path; len(keys) >= 2.
func c17RefNode(keys [][]byte, depth int) [32]byte {
	buf := []byte{byte(depth)}
	buf = append(buf, keys[0][:depth]...)
	for i := 0; i < len(keys); {
		b := keys[i][depth]
		j := i + 1
		for j < len(keys) && keys[j][depth] == b {
			j++
		}
		if j-i == 1 {
			suffix := keys[i][depth+1:]
			buf = append(buf, 0, byte(len(suffix)), b)
			buf = append(buf, suffix...)
		} else {
			d := c17RefNode(keys[i:j], depth+1)
			buf = append(buf, 1, byte(len(d)), b)
			buf = append(buf, d[:]...)
		}
		i = j
	}
	return sha512.Sum512_256(buf)
}

// c17RefRoot is the canonical root hash of a set of equal-length keys (sorted, distinct).
func c17RefRoot(sorted [][]byte) [32]byte {
	switch len(sorted) {
	case 0:
		return [32]byte{}
	case 1:
		return sha512.Sum512_256(append([]byte{0}, sorted[0]...))
	}
	h := c17RefNode(sorted, 0)
	return sha512.Sum512_256(append([]byte{1}, h[:]...))
}

// ---------------------------------------------------------------------------------------------------------
// counting committer

type c17Com struct {
	InMemoryCommitter
	loads, stores int
}

func (c *c17Com) LoadPage(p uint64) ([]byte, error) {
	c.loads++
	return c.InMemoryCommitter.LoadPage(p)
}

func (c *c17Com) StorePage(p uint64, b []byte) error {
	c.stores++
	return c.InMemoryCommitter.StorePage(p, b)
}

func (c *c17Com) dup() *c17Com {
	out := &c17Com{loads: c.loads, stores: c.stores}
	out.memStore = make(map[uint64][]byte, len(c.memStore))
	for k, v := range c.memStore {
		out.memStore[k] = append([]byte(nil), v...)
	}
	return out
}

// ---------------------------------------------------------------------------------------------------------
// simulator: trie + model

type c17Sim struct {
	cfg       MemoryConfig
	com       *c17Com
	mt        *Trie
	set       map[string]struct{} // model of the live element set
	committed map[string]struct{} // model of what the committer holds
	dirty     bool                // model of "modified since last commit"
	viaEvict  bool                // reload persists through Evict(true) instead of an explicit Commit

	// statistics for the non-trivial rule / labels
	collapseReload int // deletes that collapsed a branch into a leaf and needed a page load
	collapses      int
	packRealloc    int // CommitStats.PackingReallocatedNodeCount over explicit commits
	fanRealloc     int // CommitStats.FanoutReallocatedNodeCount over explicit commits
	evicted        int
	reloads        int
	crashes        int
	rootChecks     int
	opLoads        int
	emptyOuts      int
}

func c17Copy(m map[string]struct{}) map[string]struct{} {
	o := make(map[string]struct{}, len(m))
	for k := range m {
		o[k] = struct{}{}
	}
	return o
}

func c17NewSim(cfg MemoryConfig) (*c17Sim, error) {
	s := &c17Sim{cfg: cfg, com: &c17Com{}, set: map[string]struct{}{}, committed: map[string]struct{}{}}
	mt, err := MakeTrie(s.com, cfg)
	if err != nil {
		return nil, fmt.Errorf("MakeTrie on empty committer: %v", err)
	}
	s.mt = mt
	return s, nil
}

func (s *c17Sim) sorted() [][]byte {
	ks := make([]string, 0, len(s.set))
	for k := range s.set {
		ks = append(ks, k)
	}
	sort.Strings(ks)
	out := make([][]byte, len(ks))
	for i, k := range ks {
		out[i] = []byte(k)
	}
	return out
}

// wouldCollapse: deleting k (present) turns some branch into a leaf, i.e. the deepest branch holding k holds
// exactly one other key.
func (s *c17Sim) wouldCollapse(k string) bool {
	if len(s.set) < 2 {
		return false
	}
	best, cnt := -1, 0
	for o := range s.set {
		if o == k {
			continue
		}
		l := 0
		for l < len(k) && o[l] == k[l] {
			l++
		}
		if l > best {
			best, cnt = l, 1
		} else if l == best {
			cnt++
		}
	}
	return cnt == 1
}

func (s *c17Sim) add(k []byte) error {
	_, present := s.set[string(k)]
	ok, err := s.mt.Add(append([]byte(nil), k...))
	if err != nil {
		return fmt.Errorf("Add(%x) error: %v", k, err)
	}
	if ok == present {
		return fmt.Errorf("Add(%x) returned %v but model says present=%v", k, ok, present)
	}
	if ok {
		s.set[string(k)] = struct{}{}
		s.dirty = true
	}
	return nil
}

func (s *c17Sim) del(k []byte) error {
	_, present := s.set[string(k)]
	collapse := present && s.wouldCollapse(string(k))
	l0 := s.com.loads
	ok, err := s.mt.Delete(append([]byte(nil), k...))
	if err != nil {
		return fmt.Errorf("Delete(%x) error: %v", k, err)
	}
	if ok != present {
		return fmt.Errorf("Delete(%x) returned %v but model says present=%v", k, ok, present)
	}
	if ok {
		delete(s.set, string(k))
		s.dirty = true
		if collapse {
			s.collapses++
			if s.com.loads > l0 {
				s.collapseReload++
			}
		}
	}
	s.opLoads += s.com.loads - l0
	return nil
}

func (s *c17Sim) commit() error {
	st, err := s.mt.Commit()
	if err != nil {
		return fmt.Errorf("Commit error: %v", err)
	}
	s.packRealloc += st.PackingReallocatedNodeCount
	s.fanRealloc += st.FanoutReallocatedNodeCount
	s.committed = c17Copy(s.set)
	s.dirty = false
	return nil
}

func (s *c17Sim) evict(commit bool) error {
	n, err := s.mt.Evict(commit)
	if !commit && s.dirty {
		if !errors.Is(err, ErrUnableToEvictPendingCommits) {
			return fmt.Errorf("Evict(false) on a modified trie returned (%d,%v), want ErrUnableToEvictPendingCommits", n, err)
		}
		return nil
	}
	if err != nil {
		return fmt.Errorf("Evict(%v) error: %v", commit, err)
	}
	if s.dirty {
		s.committed = c17Copy(s.set)
		s.dirty = false
	}
	s.evicted += n
	return nil
}

// checkRoot compares RootHash with the reference. RootHash commits a modified non-empty trie.
func (s *c17Sim) checkRoot() error {
	got, err := s.mt.RootHash()
	if err != nil {
		return fmt.Errorf("RootHash error: %v", err)
	}
	if s.dirty && len(s.set) > 0 {
		s.committed = c17Copy(s.set)
		s.dirty = false
	} else if s.dirty {
		// RootHash of an emptied trie has nothing to hash; whether it persists the deletion is not specified,
		// so bring storage to a definite state explicitly.
		if err := s.commit(); err != nil {
			return err
		}
	}
	want := c17RefRoot(s.sorted())
	s.rootChecks++
	if !bytes.Equal(got[:], want[:]) {
		return fmt.Errorf("RootHash=%x but canonical hash of the %d-element set is %x", got[:], len(s.set), want[:])
	}
	return nil
}

// reload: a new Trie over the same committer. crash=false commits first; crash=true abandons uncommitted changes.
func (s *c17Sim) reload(cfg MemoryConfig, crash bool) error {
	if crash {
		s.set = c17Copy(s.committed)
		s.dirty = false
		s.crashes++
	} else if s.viaEvict {
		// persist through Evict(true) only: it commits iff the cache believes it is modified
		if err := s.evict(true); err != nil {
			return err
		}
	} else if err := s.commit(); err != nil {
		return err
	}
	mt, err := MakeTrie(s.com, cfg)
	if err != nil {
		return fmt.Errorf("MakeTrie (reload, crash=%v) error: %v", crash, err)
	}
	s.mt, s.cfg = mt, cfg
	s.reloads++
	return nil
}

// probeAll is a full, non-mutating membership comparison: Add of a member and Delete of a non-member must both
// report false (neither changes the trie).
func (s *c17Sim) probeAll(pool [][]byte) error {
	for _, k := range pool {
		var err error
		if _, in := s.set[string(k)]; in {
			err = s.add(k)
		} else {
			err = s.del(k)
		}
		if err != nil {
			return fmt.Errorf("membership probe: %v", err)
		}
	}
	return nil
}

// swap gives the trie a new committer with identical content (what the ledger does with a per-transaction committer).
func (s *c17Sim) swap() {
	s.com = s.com.dup()
	s.mt.SetCommitter(s.com)
}

// wrongPageSize: reopening a committed trie with a different NodesCountPerPage must be refused.
func (s *c17Sim) wrongPageSize(npp int64) error {
	if s.com.memStore[storedNodeIdentifierNull] == nil || npp == s.cfg.NodesCountPerPage {
		return nil
	}
	cfg := s.cfg
	cfg.NodesCountPerPage = npp
	_, err := MakeTrie(s.com.dup(), cfg)
	if !errors.Is(err, ErrMismatchingPageSize) {
		return fmt.Errorf("MakeTrie with NodesCountPerPage %d over a trie stored with %d returned %v, want ErrMismatchingPageSize", npp, s.cfg.NodesCountPerPage, err)
	}
	return nil
}

// wrongLen: an element of another length is rejected without changing anything (only meaningful on a non-empty trie).
func (s *c17Sim) wrongLen(k []byte, del bool) error {
	if len(s.set) == 0 {
		return nil
	}
	var ok bool
	var err error
	if del {
		ok, err = s.mt.Delete(k)
	} else {
		ok, err = s.mt.Add(k)
	}
	if ok || !errors.Is(err, ErrMismatchingElementLength) {
		return fmt.Errorf("Add/Delete(del=%v) of a %d-byte element returned (%v,%v), want ErrMismatchingElementLength", del, len(k), ok, err)
	}
	return nil
}

// freshRoot: oracle (3) — sorted insertion into a brand-new trie with one huge page and a huge cache.
func c17FreshRoot(sorted [][]byte) ([32]byte, error) {
	mt, err := MakeTrie(nil, MemoryConfig{NodesCountPerPage: 4096, CachedNodesCount: 1 << 20, PageFillFactor: 0.01, MaxChildrenPagesThreshold: 256})
	if err != nil {
		return [32]byte{}, err
	}
	for _, k := range sorted {
		ok, err := mt.Add(append([]byte(nil), k...))
		if err != nil || !ok {
			return [32]byte{}, fmt.Errorf("fresh trie Add(%x) = %v,%v", k, ok, err)
		}
	}
	h, err := mt.RootHash()
	return h, err
}

// ---------------------------------------------------------------------------------------------------------
// exhaustive small sub-spaces (plain unit)

type c17Replay struct {
	Space    string
	Config   MemoryConfig
	Universe []string
	Ops      []string
}

// op encoding for the exhaustive enumeration over a universe of nk keys:
// [0,nk) add key i ; [nk,2nk) delete key i ; 2nk commit ; 2nk+1 evict(commit) ; 2nk+2 reload
func c17OpName(op, nk int, uni [][]byte) string {
	switch {
	case op < nk:
		return fmt.Sprintf("add %x", uni[op])
	case op < 2*nk:
		return fmt.Sprintf("del %x", uni[op-nk])
	case op == 2*nk:
		return "commit"
	case op == 2*nk+1:
		return "evict"
	default:
		return "reload"
	}
}

// c17RunSeq replays one op sequence from scratch and checks the root at the end (every prefix is itself enumerated,
// so "after every operation" is covered without the implicit commit of RootHash perturbing longer sequences).
func c17RunSeq(seq []int, uni [][]byte, cfg MemoryConfig, fresh bool) (s *c17Sim, err error) {
	defer func() {
		if r := recover(); r != nil {
			err = fmt.Errorf("panic: %v", r)
		}
	}()
	nk := len(uni)
	s, err = c17NewSim(cfg)
	if err != nil {
		return s, err
	}
	// under the 2-nodes-per-page config "reload" persists through Evict(true) + reopen (no explicit Commit), under the
	// other one through Commit + reopen
	s.viaEvict = cfg.NodesCountPerPage == 2
	for _, op := range seq {
		switch {
		case op < nk:
			err = s.add(uni[op])
		case op < 2*nk:
			err = s.del(uni[op-nk])
		case op == 2*nk:
			err = s.commit()
		case op == 2*nk+1:
			err = s.evict(true)
		default:
			err = s.reload(cfg, false)
		}
		if err != nil {
			return s, err
		}
	}
	if err = s.probeAll(uni); err != nil {
		return s, err
	}
	if err = s.checkRoot(); err != nil {
		return s, err
	}
	if fresh {
		srt := s.sorted()
		h, ferr := c17FreshRoot(srt)
		want := c17RefRoot(srt)
		if ferr != nil || !bytes.Equal(h[:], want[:]) {
			return s, fmt.Errorf("fresh sorted-insertion trie root %x (err %v) differs from canonical %x", h[:], ferr, want[:])
		}
	}
	return s, nil
}

func c17Exhaust(vk *vkCtx, space string, uni [][]byte, maxLen int, cfg MemoryConfig) {
	nk := len(uni)
	nops := 2*nk + 3
	sh, nsh := vkShard(), vkNShards()
	seq := make([]int, 0, maxLen)
	var count, nts int64
	var rec func()
	visit := func() {
		s, err := c17RunSeq(seq, uni, cfg, len(seq) <= 2)
		if err != nil {
			rp := c17Replay{Space: space, Config: cfg}
			for _, k := range uni {
				rp.Universe = append(rp.Universe, fmt.Sprintf("%x", k))
			}
			for _, op := range seq {
				rp.Ops = append(rp.Ops, c17OpName(op, nk, uni))
			}
			vk.Failf(rp, "%s: after %v: %v", space, rp.Ops, err)
		}
		nt := s.collapseReload > 0 || s.packRealloc > 0 || s.fanRealloc > 0
		count++
		if nt {
			nts++
		}
		var sb strings.Builder
		sb.WriteString(space)
		for _, op := range seq {
			sb.WriteByte(byte('A' + op))
		}
		vk.Case(nt, sb.String())
		if vk.WantSample(nt) && len(seq) >= 3 {
			rp := c17Replay{Space: space, Config: cfg}
			for _, op := range seq {
				rp.Ops = append(rp.Ops, c17OpName(op, nk, uni))
			}
			vk.Sample(nt, rp)
		}
	}
	rec = func() {
		// shard on the first two operations; length-1 sequences belong to shard 0
		if len(seq) == 2 && (seq[0]*nops+seq[1])%nsh != sh {
			return
		}
		if len(seq) >= 2 || (len(seq) == 1 && sh == 0) {
			visit()
		}
		if len(seq) == maxLen {
			return
		}
		for op := 0; op < nops; op++ {
			seq = append(seq, op)
			rec()
			seq = seq[:len(seq)-1]
		}
	}
	cpu0 := c17CPU()
	rec()
	vk.Add("cpu_ms/"+space, int64((c17CPU()-cpu0)*1000))
	vk.Add("sequences/"+space, count)
	vk.Add("nontrivial/"+space, nts)
}

// c17CPU is the process CPU time in seconds (cost reporting only; never used by an oracle).
func c17CPU() float64 {
	var ru syscall.Rusage
	if syscall.Getrusage(syscall.RUSAGE_SELF, &ru) != nil {
		return 0
	}
	return float64(ru.Utime.Sec+ru.Stime.Sec) + float64(ru.Utime.Usec+ru.Stime.Usec)/1e6
}

func c17Universe(first []byte, second []byte) [][]byte {
	var u [][]byte
	for _, a := range first {
		for _, b := range second {
			u = append(u, []byte{a, b})
		}
	}
	return u
}

func TestVerif_C17_Exhaustive(t *testing.T) {
	vk := vkBegin(t, "C17")
	vk.Rule("every add/delete/commit/evict/reload sequence up to a length bound over a tiny key universe, replayed from scratch on a 2- or 3-node-per-page trie with a 1- or 2-node cache (reload = Evict(true)+reopen under page size 2, Commit+reopen under page size 3); Add/Delete booleans vs a map, full membership probe and root vs the reference hash at the end; non-trivial = a delete collapsed a branch into a leaf and had to load a page from the committer, or a commit reallocated nodes; distinct by op sequence")
	vk.Assume("crypto/sha512 (reference hash) and the layout documented in node.calculateHash / Trie.RootHash are the specification of the canonical hash")
	u9 := c17Universe([]byte{0, 1, 2}, []byte{0, 1, 2})
	u4 := [][]byte{{0, 0}, {0, 1}, {0, 2}, {1, 0}}
	cfgA := MemoryConfig{NodesCountPerPage: 2, CachedNodesCount: 1, PageFillFactor: 0.9, MaxChildrenPagesThreshold: 1}
	cfgB := MemoryConfig{NodesCountPerPage: 3, CachedNodesCount: 2, PageFillFactor: 0.5, MaxChildrenPagesThreshold: 2}
	if vkThorough() {
		c17Exhaust(vk, "u9/len<=4/npp2", u9, 4, cfgA)
		c17Exhaust(vk, "u9/len<=4/npp3", u9, 4, cfgB)
		c17Exhaust(vk, "u4/len<=6/npp2", u4, 6, cfgA)
		c17Exhaust(vk, "u4/len<=5/npp3", u4, 5, cfgB)
		vk.Exhaustive("all add/delete/commit/evict/reload sequences of length <=4 over the nine 2-byte keys on {0,1,2} (page size 2/cache 1 and page size 3/cache 2) and over the keys {0000,0001,0002,0100} of length <=6 (page size 2/cache 1) and <=5 (page size 3/cache 2) (complete when all shards of the unit ran)")
	} else {
		c17Exhaust(vk, "u9/len<=3/npp2", u9, 3, cfgA)
		c17Exhaust(vk, "u4/len<=4/npp2", u4, 4, cfgA)
		c17Exhaust(vk, "u4/len<=4/npp3", u4, 4, cfgB)
		vk.Exhaustive("all add/delete/commit/evict/reload sequences of length <=3 over the nine 2-byte keys on {0,1,2} (page size 2, cache 1) and of length <=4 over {0000,0001,0002,0100} (page size 2/cache 1 and page size 3/cache 2) (complete when all shards of the unit ran)")
	}
}

// ---------------------------------------------------------------------------------------------------------
// frozen regressions (plain unit, run first)

// c17Script runs a whitespace-separated script: aHEX add, dHEX delete, c commit, e evict(true), e0 evict(false),
// r root check, L reload, X crash-reload.
func c17Script(cfg MemoryConfig, script string) (s *c17Sim, err error) {
	defer func() {
		if r := recover(); r != nil {
			err = fmt.Errorf("panic: %v", r)
		}
	}()
	if s, err = c17NewSim(cfg); err != nil {
		return
	}
	for i, op := range strings.Fields(script) {
		switch {
		case op[0] == 'a' || op[0] == 'd':
			var k []byte
			if _, err = fmt.Sscanf(op[1:], "%x", &k); err != nil {
				return s, fmt.Errorf("bad script op %q", op)
			}
			if op[0] == 'a' {
				err = s.add(k)
			} else {
				err = s.del(k)
			}
		case op == "c":
			err = s.commit()
		case op == "e":
			err = s.evict(true)
		case op == "e0":
			err = s.evict(false)
		case op == "r":
			err = s.checkRoot()
		case op == "L":
			err = s.reload(cfg, false)
		case op == "X":
			err = s.reload(cfg, true)
		default:
			err = fmt.Errorf("bad script op %q", op)
		}
		if err != nil {
			return s, fmt.Errorf("op %d (%s): %v", i, op, err)
		}
	}
	return s, s.checkRoot()
}

// TestVerif_C17_Regression freezes confirmed counter-examples.
//
// tip-page-evicted (fixed in /repo by 998bb3641e): Evict() dropped the partially filled page on which the next node
// id falls; the next allocation recreated that page without its stored nodes and the next commit overwrote the stored
// page, so later lookups failed with ErrLoadedPageMissingNode.
func TestVerif_C17_Regression(t *testing.T) {
	vk := vkBegin(t, "C17")
	vk.Rule("frozen counter-examples replayed as scripts against the map model and the reference hash; non-trivial = every script (each once made the unfixed tree fail); distinct by (config, script)")
	type rc struct {
		Name   string
		Config MemoryConfig
		Script string
	}
	tip := "a0000 a0001 a0002 e a0100 r a0000 d0001 r d0000 d0002 r d0100 r"
	cases := []rc{
		{"tip-page-evicted/cache1", MemoryConfig{NodesCountPerPage: 12, CachedNodesCount: 1, PageFillFactor: 0.1, MaxChildrenPagesThreshold: 1}, tip},
		{"tip-page-evicted/cache3", MemoryConfig{NodesCountPerPage: 12, CachedNodesCount: 3, PageFillFactor: 0.1, MaxChildrenPagesThreshold: 1}, tip},
		{"tip-page-evicted/commit-then-evict0", MemoryConfig{NodesCountPerPage: 12, CachedNodesCount: 1, PageFillFactor: 0.1, MaxChildrenPagesThreshold: 1},
			"a0000 a0001 a0002 c e0 a0100 c e0 a0000 d0001 a0200 c e0 d0002 r a0001 r"},
		{"tip-page-evicted/packing", MemoryConfig{NodesCountPerPage: 12, CachedNodesCount: 1, PageFillFactor: 0.9, MaxChildrenPagesThreshold: 64},
			"a0000 a0001 a0002 a0100 a0101 e a0200 e a0201 r d0000 d0001 e a0202 r d0100 d0101 d0002 r d0200 d0201 d0202 r"},
		{"tip-page-evicted/evict-twice", MemoryConfig{NodesCountPerPage: 5, CachedNodesCount: 2, PageFillFactor: 0.5, MaxChildrenPagesThreshold: 1},
			"a0000 a0001 a0002 a0100 e e0 a0101 e e0 a0102 r d0000 e d0001 r d0002 d0100 r d0101 d0102 r"},
	}
	for _, c := range cases {
		s, err := c17Script(c.Config, c.Script)
		if err != nil {
			vk.Failf(c, "regression %s: %v", c.Name, err)
		}
		vk.Case(true, fmt.Sprintf("%s|%v|%s", c.Name, c.Config, c.Script))
		vk.Sample(true, c)
		vk.Add("regression_evicted_nodes", int64(s.evicted))
	}
}

// ---------------------------------------------------------------------------------------------------------
// random long histories (rapid unit)

func c17DrawConfig(t *rapid.T, npp int64) MemoryConfig {
	cfg := MemoryConfig{NodesCountPerPage: npp}
	if npp == 0 {
		if rapid.Bool().Draw(t, "nppSmall") {
			cfg.NodesCountPerPage = int64(rapid.IntRange(2, 9).Draw(t, "npp"))
		} else {
			cfg.NodesCountPerPage = int64(rapid.SampledFrom([]int{12, 16, 17, 33, 64, 101, 116, 255, 256, 512}).Draw(t, "npp"))
		}
	}
	if rapid.Bool().Draw(t, "cacheSmall") {
		cfg.CachedNodesCount = rapid.IntRange(1, 8).Draw(t, "cache")
	} else {
		cfg.CachedNodesCount = rapid.IntRange(9, 200).Draw(t, "cache")
	}
	cfg.PageFillFactor = float32(rapid.IntRange(2, 20).Draw(t, "fill20")) / 20 // 0.1 .. 1.0
	cfg.MaxChildrenPagesThreshold = uint64(rapid.SampledFrom([]int{1, 1, 2, 3, 4, 8, 32, 64}).Draw(t, "thr"))
	return cfg
}

// c17DrawPool builds the key universe of one case.
func c17DrawPool(t *rapid.T) (pool [][]byte, mode string) {
	mode = rapid.SampledFrom([]string{"tiny", "prefix", "prefix", "prefix", "fanout", "hashed"}).Draw(t, "mode")
	switch mode {
	case "tiny":
		return c17Universe([]byte{0, 1, 2}, []byte{0, 1, 2}), mode
	case "hashed":
		// what the ledger feeds the trie: uniformly distributed fixed-length digests
		n := rapid.IntRange(2, 300).Draw(t, "n")
		l := rapid.SampledFrom([]int{32, 37}).Draw(t, "len")
		rnd := mrand.New(mrand.NewSource(rapid.Int64().Draw(t, "poolSeed")))
		seen := map[string]bool{}
		for len(pool) < n {
			k := make([]byte, l)
			rnd.Read(k)
			if !seen[string(k)] {
				seen[string(k)] = true
				pool = append(pool, k)
			}
		}
		return pool, mode
	}
	l := rapid.SampledFrom([]int{32, 37, 37, 32, 3, 5, 8}).Draw(t, "len")
	base := make([]byte, l)
	rnd := mrand.New(mrand.NewSource(rapid.Int64().Draw(t, "poolSeed")))
	rnd.Read(base)
	seen := map[string]bool{string(base): true}
	pool = append(pool, base)
	vals := []byte{0, 1, 2, 3, 127, 128, 254, 255}
	if mode == "fanout" {
		// many siblings under one (usually deep) node, plus a few deeper variants
		p := rapid.SampledFrom([]int{0, 1, l / 2, l - 2, l - 1}).Draw(t, "fanPos")
		if p < 0 {
			p = 0
		}
		width := rapid.SampledFrom([]int{3, 5, 17, 64, 200, 256}).Draw(t, "width")
		start := rapid.IntRange(0, 255).Draw(t, "start")
		for i := 0; i < width; i++ {
			k := append([]byte(nil), base...)
			k[p] = byte(start + i)
			if !seen[string(k)] {
				seen[string(k)] = true
				pool = append(pool, k)
			}
		}
	}
	extra := rapid.IntRange(3, 48).Draw(t, "extra")
	for i := 0; i < extra; i++ {
		parent := pool[rapid.IntRange(0, len(pool)-1).Draw(t, "parent")]
		var p int
		switch rapid.IntRange(0, 5).Draw(t, "posKind") {
		case 0:
			p = rapid.IntRange(0, l-1).Draw(t, "pos")
		case 1:
			p = 0
		case 2:
			p = l / 2
		case 3:
			p = l - 1
		case 4:
			p = l - 2
		default:
			p = l - 1 - rapid.IntRange(0, 3).Draw(t, "fromEnd")
		}
		if p < 0 {
			p = 0
		}
		k := append([]byte(nil), parent...)
		k[p] = rapid.SampledFrom(vals).Draw(t, "val")
		if rapid.IntRange(0, 3).Draw(t, "tail") == 0 {
			f := rapid.SampledFrom(vals).Draw(t, "fill")
			for j := p + 1; j < l; j++ {
				k[j] = f
			}
		}
		if !seen[string(k)] {
			seen[string(k)] = true
			pool = append(pool, k)
		}
	}
	return pool, mode
}

// c17EmptyOut drives the trie down to 0..2 elements, persists, deletes the rest, persists again in a drawn way
// (Evict(true) most often), reopens it (most often without any further commit) and compares membership and root.
func c17EmptyOut(t *rapid.T, s *c17Sim, pool [][]byte, fp *strings.Builder) error {
	s.emptyOuts++
	keep := rapid.SampledFrom([]int{1, 1, 1, 0, 2}).Draw(t, "eoKeep")
	if keep >= len(pool) {
		keep = len(pool) - 1
	}
	fmt.Fprintf(fp, "E%d", keep)
	persist := func(name string, choices []string) error {
		op := rapid.SampledFrom(choices).Draw(t, name)
		fp.WriteString(op)
		switch op {
		case "c":
			return s.commit()
		case "e":
			return s.evict(true)
		case "e0":
			return s.evict(false)
		case "r":
			return s.checkRoot()
		}
		return nil
	}
	// make sure there is something to delete
	for i := 0; len(s.set) < keep || len(s.set) == 0; i++ {
		if err := s.add(pool[i%len(pool)]); err != nil {
			return err
		}
	}
	members := s.sorted()
	if rapid.Bool().Draw(t, "eoDesc") {
		for i, j := 0, len(members)-1; i < j; i, j = i+1, j-1 {
			members[i], members[j] = members[j], members[i]
		}
	}
	cut := len(members) - keep
	for _, k := range members[:cut] {
		if err := s.del(k); err != nil {
			return err
		}
	}
	if err := persist("eoPersist1", []string{"c", "e", "e", "r", "-"}); err != nil {
		return err
	}
	for _, k := range members[cut:] {
		if err := s.del(k); err != nil {
			return err
		}
	}
	if err := persist("eoPersist2", []string{"e", "e", "e", "e", "e0", "c", "r", "-"}); err != nil {
		return err
	}
	re := rapid.SampledFrom([]string{"X", "X", "L", "-"}).Draw(t, "eoReopen")
	fp.WriteString(re + ",")
	switch re {
	case "X":
		if err := s.reload(s.cfg, true); err != nil {
			return err
		}
	case "L":
		s.viaEvict = rapid.Bool().Draw(t, "eoViaEvict")
		if err := s.reload(s.cfg, false); err != nil {
			return err
		}
	}
	if err := s.probeAll(pool); err != nil {
		return err
	}
	return s.checkRoot()
}

func TestVerif_C17_Machine(t *testing.T) {
	vk := vkBegin(t, "C17")
	vk.Rule("random histories of 5..2000 add/delete/commit/evict/root/reload/crash-reload/committer-swap/empty-out operations (empty-out = drain to 0..2 elements, persist, delete the rest, persist through Evict(true)/Evict(false)/Commit/RootHash/nothing, reopen with or without commit, full membership probe) over a per-case key pool (tiny 2-byte universe; 3..37-byte keys that share long prefixes and differ in one late byte; wide fan-out under one node; uniformly hashed 32/37-byte keys) under a drawn MemoryConfig (page 2..512 nodes, cache 1..200, fill 0.1..1, fan-out threshold 1..64, redrawn at reloads); Add/Delete booleans vs a map, RootHash vs the independent reference hash, final set re-inserted sorted into a fresh trie, then reloaded and drained; non-trivial = a delete collapsed a branch into a leaf and needed a page load from the committer, or a commit reallocated nodes (packing or fan-out); distinct by (config, pool, op sequence)")
	vk.Assume("crypto/sha512 (reference hash) and the layout documented in node.calculateHash / Trie.RootHash are the specification of the canonical hash")
	rapid.Check(t, func(t *rapid.T) {
		cfg := c17DrawConfig(t, 0)
		pool, mode := c17DrawPool(t)
		var nops int
		switch rapid.IntRange(0, 9).Draw(t, "lenKind") {
		case 0:
			nops = rapid.IntRange(5, 20).Draw(t, "nops")
		case 1:
			nops = rapid.IntRange(400, 2000).Draw(t, "nops")
		default:
			nops = rapid.IntRange(20, 400).Draw(t, "nops")
		}
		everyOp := nops <= 150 && rapid.IntRange(0, 3).Draw(t, "rootEveryOp") == 0
		// per-case op weights: how often the history persists / evicts
		persist := rapid.SampledFrom([]int{1, 3, 8, 20}).Draw(t, "persistWeight")
		s, err := c17NewSim(cfg)
		if err != nil {
			t.Fatalf("%v", err)
		}
		var hdr, fp strings.Builder // hdr: config+pool, fp: op sequence
		fmt.Fprintf(&hdr, "%v|%s|%d|", cfg, mode, len(pool))
		for _, k := range pool {
			hdr.Write(k)
		}
		present := []int{} // pool indices believed present (may contain stale entries; only a bias)
		npp := cfg.NodesCountPerPage
		for i := 0; i < nops; i++ {
			w := rapid.IntRange(0, 99+4*persist).Draw(t, "op")
			var err error
			switch {
			case w < 2: // drain to (almost) empty around persistence and reopening
				err = c17EmptyOut(t, s, pool, &fp)
				present = present[:0]
			case w < 42: // add
				ki := rapid.IntRange(0, len(pool)-1).Draw(t, "key")
				fmt.Fprintf(&fp, "a%d,", ki)
				err = s.add(pool[ki])
				present = append(present, ki)
			case w < 72: // delete, biased to present keys
				var ki int
				if len(present) > 0 && rapid.IntRange(0, 4).Draw(t, "delPresent") > 0 {
					j := rapid.IntRange(0, len(present)-1).Draw(t, "pidx")
					ki = present[j]
					present[j] = present[len(present)-1]
					present = present[:len(present)-1]
				} else {
					ki = rapid.IntRange(0, len(pool)-1).Draw(t, "key")
				}
				fmt.Fprintf(&fp, "d%d,", ki)
				err = s.del(pool[ki])
			case w < 80: // root
				fp.WriteString("r,")
				err = s.checkRoot()
			case w < 84: // reload (commit first), maybe with another cache geometry
				ncfg := s.cfg
				if rapid.Bool().Draw(t, "newCfg") {
					ncfg = c17DrawConfig(t, npp)
				}
				s.viaEvict = rapid.Bool().Draw(t, "reloadViaEvict")
				fmt.Fprintf(&fp, "L%v%v,", s.viaEvict, ncfg)
				err = s.reload(ncfg, false)
				if err == nil {
					err = s.probeAll(pool)
				}
			case w < 87: // crash: abandon uncommitted changes
				fp.WriteString("X,")
				err = s.reload(s.cfg, true)
				if err == nil {
					err = s.probeAll(pool)
				}
				present = present[:0]
				for ki, k := range pool {
					if _, ok := s.set[string(k)]; ok {
						present = append(present, ki)
					}
				}
			case w < 90:
				fp.WriteString("s,")
				s.swap()
			case w < 92:
				fp.WriteString("e0,")
				err = s.evict(false)
			case w < 94:
				other := int64(rapid.IntRange(2, 600).Draw(t, "otherNpp"))
				fmt.Fprintf(&fp, "P%d,", other)
				err = s.wrongPageSize(other)
			case w < 96:
				delta := rapid.SampledFrom([]int{-1, 1, 5}).Draw(t, "lenDelta")
				isDel := rapid.Bool().Draw(t, "wrongDel")
				fmt.Fprintf(&fp, "W%d%v,", delta, isDel)
				l := len(pool[0]) + delta
				err = s.wrongLen(bytes.Repeat([]byte{1}, l), isDel)
			case w < 100+2*persist:
				fp.WriteString("c,")
				err = s.commit()
			default:
				fp.WriteString("e,")
				err = s.evict(true)
			}
			if err == nil && everyOp {
				err = s.checkRoot()
			}
			if err != nil {
				t.Fatalf("op %d: %v", i, err)
			}
		}
		if rapid.IntRange(0, 2).Draw(t, "endEmptyOut") == 0 {
			if err := c17EmptyOut(t, s, pool, &fp); err != nil {
				t.Fatalf("closing empty-out: %v", err)
			}
		}
		if err := s.checkRoot(); err != nil {
			t.Fatalf("final: %v", err)
		}
		srt := s.sorted()
		want := c17RefRoot(srt)
		if h, err := c17FreshRoot(srt); err != nil || !bytes.Equal(h[:], want[:]) {
			t.Fatalf("fresh sorted-insertion trie root %x (err %v) differs from canonical %x", h[:], err, want[:])
		}
		finalSize := len(srt)
		// reload from a copy of the storage under another cache geometry and drain: every member is reported present
		// exactly once, the root follows the reference all the way down to the empty set.
		if err := s.commit(); err != nil {
			t.Fatalf("final commit: %v", err)
		}
		s.swap()
		if err := s.reload(c17DrawConfig(t, npp), false); err != nil {
			t.Fatalf("final reload: %v", err)
		}
		if err := s.probeAll(pool); err != nil {
			t.Fatalf("after final reload: %v", err)
		}
		if err := s.checkRoot(); err != nil {
			t.Fatalf("after final reload: %v", err)
		}
		order := rapid.SampledFrom([]string{"asc", "desc", "shuffle"}).Draw(t, "drainOrder")
		switch order {
		case "desc":
			for i, j := 0, len(srt)-1; i < j; i, j = i+1, j-1 {
				srt[i], srt[j] = srt[j], srt[i]
			}
		case "shuffle":
			rnd := mrand.New(mrand.NewSource(rapid.Int64().Draw(t, "drainSeed")))
			rnd.Shuffle(len(srt), func(i, j int) { srt[i], srt[j] = srt[j], srt[i] })
		}
		stride := rapid.IntRange(1, 9).Draw(t, "drainStride")
		for i, k := range srt {
			if err := s.del(k); err != nil {
				t.Fatalf("drain %d: %v", i, err)
			}
			if i%stride == 0 {
				if i%2 == 0 {
					err = s.evict(true)
				} else {
					err = s.checkRoot()
				}
				if err != nil {
					t.Fatalf("drain %d: %v", i, err)
				}
			}
		}
		if err := s.checkRoot(); err != nil || len(s.set) != 0 {
			t.Fatalf("after drain: %v (model size %d)", err, len(s.set))
		}
		// the emptied trie, reopened from storage without any further commit, must still be empty
		if err := s.reload(s.cfg, true); err != nil {
			t.Fatalf("reopen after drain: %v", err)
		}
		if err := s.probeAll(pool); err != nil {
			t.Fatalf("reopen after drain: %v", err)
		}
		if err := s.checkRoot(); err != nil || len(s.set) != 0 {
			t.Fatalf("reopen after drain: %v (model size %d)", err, len(s.set))
		}
		if s.emptyOuts > 0 {
			vk.Label("empty-out macro")
		}

		nt := s.collapseReload > 0 || s.packRealloc > 0 || s.fanRealloc > 0
		vk.Case(nt, hdr.String()+fp.String())
		vk.Label("mode=" + mode)
		if s.collapseReload > 0 {
			vk.Label("collapse-after-page-load")
		}
		if s.collapses > 0 {
			vk.Label("collapse")
		}
		if s.packRealloc > 0 {
			vk.Label("packing-realloc")
		}
		if s.fanRealloc > 0 {
			vk.Label("fanout-realloc")
		}
		if s.evicted > 0 {
			vk.Label("evicted-nodes")
		}
		if s.reloads > 1 {
			vk.Label("reload-midway")
		}
		if s.crashes > 0 {
			vk.Label("crash-reload")
		}
		if everyOp {
			vk.Label("root-every-op")
		}
		switch {
		case finalSize == 0:
			vk.Label("final=0")
		case finalSize == 1:
			vk.Label("final=1")
		case finalSize < 10:
			vk.Label("final=2..9")
		case finalSize < 50:
			vk.Label("final=10..49")
		default:
			vk.Label("final>=50")
		}
		switch {
		case nops <= 20:
			vk.Label("ops<=20")
		case nops <= 400:
			vk.Label("ops=21..400")
		default:
			vk.Label("ops>400")
		}
		switch {
		case npp <= 4:
			vk.Label("npp=2..4")
		case npp <= 17:
			vk.Label("npp=5..17")
		default:
			vk.Label("npp>17")
		}
		vk.Add("ops", int64(nops))
		vk.Add("root_checks", int64(s.rootChecks))
		vk.Add("page_loads", int64(s.com.loads))
		vk.Add("collapse_after_load", int64(s.collapseReload))
		vk.Add("packing_realloc_nodes", int64(s.packRealloc))
		vk.Add("fanout_realloc_nodes", int64(s.fanRealloc))
		if vk.WantSample(nt) {
			ops := fp.String()
			if len(ops) > 400 {
				ops = ops[len(ops)-400:]
			}
			vk.Sample(nt, map[string]interface{}{"config": fmt.Sprintf("%+v", cfg), "mode": mode, "pool": len(pool), "keylen": len(pool[0]),
				"nops": nops, "final_size": finalSize, "collapse_after_load": s.collapseReload, "packing_realloc": s.packRealloc,
				"fanout_realloc": s.fanRealloc, "ops_tail": ops})
		}
	})
}
