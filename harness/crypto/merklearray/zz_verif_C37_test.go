package merklearray

// C37 — Merkle array proofs are complete and sound.
//
// Completeness: a proof produced by Prove/ProveSingleLeaf verifies against Root() with the right elements.
// Soundness: each single-field change (element, position, path digest flipped/removed/added, TreeDepth, root, hash
// type, element set) makes Verify / VerifyVectorCommitment return an error.
// Root, tree depth and single-leaf paths are compared with an independent reference (c37RefTree) written from the
// documented layout: leaf = H(hashid||data), node = H("MA"||left||right) with a missing right child as zeros,
// vector commitment = array padded to 2^k with H("MB") leaves and stored at bit-reversed positions.
//
// What is deliberately NOT asserted (documented behaviour, see notes/C37.md): a plain (non vector-commitment) tree does
// not bind positions across an absent sibling, and plain Verify does not bind Proof.TreeDepth beyond bounding positions
// (merkle.go: "If a proof of position is require, a Vector Commitments is required"). Those mutation classes are
// counted with vk.Excluded.

import (
	"bytes"
	"crypto/sha256"
	"crypto/sha512"
	"fmt"
	"hash"
	mrand "math/rand"
	"sort"
	"testing"

	"github.com/algorand/go-sumhash"
	"pgregory.net/rapid"

	"github.com/algorand/go-algorand/crypto"
	"github.com/algorand/go-algorand/protocol"
)

// ---------------------------------------------------------------------------------------------------------
// elements and arrays

type c37Elem []byte

func (e c37Elem) ToBeHashed() (protocol.HashID, []byte) { return protocol.TestHashable, []byte(e) }

type c37Array []c37Elem

func (a c37Array) Length() uint64 { return uint64(len(a)) }

func (a c37Array) Marshal(pos uint64) (crypto.Hashable, error) {
	if pos >= uint64(len(a)) {
		return nil, fmt.Errorf("c37Array: pos %d out of range %d", pos, len(a))
	}
	return a[pos], nil
}

// ---------------------------------------------------------------------------------------------------------
// independent reference

func c37NewHash(ht crypto.HashType) hash.Hash {
	switch ht {
	case crypto.Sha512_256:
		return sha512.New512_256()
	case crypto.Sha256:
		return sha256.New()
	case crypto.Sumhash:
		return sumhash.New512(nil)
	case crypto.Sha512:
		return sha512.New()
	}
	panic("c37: unknown hash type")
}

func c37H(h hash.Hash, parts ...[]byte) []byte {
	h.Reset()
	for _, p := range parts {
		h.Write(p)
	}
	return h.Sum(nil)
}

// c37Rev reverses the low `bits` bits of x.
func c37Rev(x uint64, bits int) uint64 {
	var r uint64
	for i := 0; i < bits; i++ {
		r = r<<1 | (x>>uint(i))&1
	}
	return r
}

type c37Ref struct {
	levels [][][]byte // levels[0] = leaves
	depth  int
	size   int // digest size
}

func (r *c37Ref) root() []byte {
	if len(r.levels) == 0 {
		return nil
	}
	return r.levels[len(r.levels)-1][0]
}

// sibling of tree position pos at level l, zeros if absent.
func (r *c37Ref) sibling(l int, pos uint64) []byte {
	sp := (pos >> uint(l)) ^ 1
	if sp < uint64(len(r.levels[l])) {
		return r.levels[l][sp]
	}
	return make([]byte, r.size)
}

func c37RefTree(ht crypto.HashType, elems []c37Elem, vc bool) *c37Ref {
	h := c37NewHash(ht)
	ref := &c37Ref{size: h.Size()}
	var leaves [][]byte
	if vc {
		bits := 0
		for (1 << uint(bits)) < len(elems) {
			bits++
		}
		n := 1 << uint(bits)
		leaves = make([][]byte, n)
		for m := 0; m < n; m++ {
			idx := c37Rev(uint64(m), bits)
			if idx < uint64(len(elems)) {
				leaves[m] = c37H(h, []byte("TE"), elems[idx])
			} else {
				leaves[m] = c37H(h, []byte("MB"))
			}
		}
	} else {
		leaves = make([][]byte, len(elems))
		for i, e := range elems {
			leaves[i] = c37H(h, []byte("TE"), e)
		}
	}
	if len(leaves) == 0 {
		return ref
	}
	ref.levels = [][][]byte{leaves}
	zeros := make([]byte, ref.size)
	for cur := leaves; len(cur) > 1; {
		next := make([][]byte, (len(cur)+1)/2)
		for i := 0; i < len(cur); i += 2 {
			r := zeros
			if i+1 < len(cur) {
				r = cur[i+1]
			}
			next[i/2] = c37H(h, []byte("MA"), cur[i], r)
		}
		ref.levels = append(ref.levels, next)
		cur = next
	}
	ref.depth = len(ref.levels) - 1
	return ref
}

// ---------------------------------------------------------------------------------------------------------
// tree under test + helpers

type c37Tree struct {
	ht       crypto.HashType
	vc       bool
	elems    []c37Elem
	distinct bool
	tree     *Tree
	ref      *c37Ref
	root     crypto.GenericDigest
}

func c37Build(ht crypto.HashType, vc bool, elems []c37Elem, distinct bool) (*c37Tree, error) {
	ct := &c37Tree{ht: ht, vc: vc, elems: elems, distinct: distinct}
	var err error
	if vc {
		ct.tree, err = BuildVectorCommitmentTree(c37Array(elems), crypto.HashFactory{HashType: ht})
	} else {
		ct.tree, err = Build(c37Array(elems), crypto.HashFactory{HashType: ht})
	}
	if err != nil {
		return nil, fmt.Errorf("build(vc=%v,n=%d): %v", vc, len(elems), err)
	}
	ct.ref = c37RefTree(ht, elems, vc)
	ct.root = ct.tree.Root()
	if !bytes.Equal(ct.root, ct.ref.root()) {
		return nil, fmt.Errorf("Root()=%x but the reference root of the %d-element array (vc=%v, %v) is %x", []byte(ct.root), len(elems), vc, ht, ct.ref.root())
	}
	if ct.tree.NumOfElements != uint64(len(elems)) {
		return nil, fmt.Errorf("NumOfElements=%d want %d", ct.tree.NumOfElements, len(elems))
	}
	return ct, nil
}

func (ct *c37Tree) verify(root crypto.GenericDigest, elems map[uint64]crypto.Hashable, p *Proof) error {
	if ct.vc {
		return VerifyVectorCommitment(root, elems, p)
	}
	return Verify(root, elems, p)
}

func (ct *c37Tree) elemsMap(set []uint64) map[uint64]crypto.Hashable {
	m := make(map[uint64]crypto.Hashable, len(set))
	for _, p := range set {
		m[p] = ct.elems[p]
	}
	return m
}

func c37CloneProof(p *Proof) *Proof {
	q := &Proof{HashFactory: p.HashFactory, TreeDepth: p.TreeDepth}
	if p.Path != nil {
		q.Path = make([]crypto.GenericDigest, len(p.Path))
		for i, d := range p.Path {
			if d != nil {
				q.Path[i] = append(crypto.GenericDigest{}, d...)
			}
		}
	}
	return q
}

func c37CloneMap(m map[uint64]crypto.Hashable) map[uint64]crypto.Hashable {
	o := make(map[uint64]crypto.Hashable, len(m))
	for k, v := range m {
		o[k] = v
	}
	return o
}

func c37Uniq(req []uint64) []uint64 {
	seen := map[uint64]bool{}
	var out []uint64
	for _, p := range req {
		if !seen[p] {
			seen[p] = true
			out = append(out, p)
		}
	}
	sort.Slice(out, func(i, j int) bool { return out[i] < out[j] })
	return out
}

func c37HasEmptyHint(p *Proof) bool {
	for _, d := range p.Path {
		if len(d) == 0 {
			return true
		}
	}
	return false
}

// prove requests a proof (request may be unsorted / contain duplicates) and checks completeness.
func (ct *c37Tree) prove(req []uint64) (*Proof, []uint64, error) {
	in := append([]uint64(nil), req...) // Prove sorts its argument in place
	p, err := ct.tree.Prove(in)
	if err != nil {
		return nil, nil, fmt.Errorf("Prove(%v) on n=%d vc=%v: %v", req, len(ct.elems), ct.vc, err)
	}
	if p == nil {
		return nil, nil, fmt.Errorf("Prove(%v) returned a nil proof", req)
	}
	if int(p.TreeDepth) != ct.ref.depth {
		return nil, nil, fmt.Errorf("Prove(%v): TreeDepth=%d but the reference tree over n=%d (vc=%v) has depth %d", req, p.TreeDepth, len(ct.elems), ct.vc, ct.ref.depth)
	}
	if p.HashFactory.HashType != ct.ht {
		return nil, nil, fmt.Errorf("Prove: proof hash type %v want %v", p.HashFactory.HashType, ct.ht)
	}
	set := c37Uniq(req)
	if err := ct.verify(ct.root, ct.elemsMap(set), p); err != nil {
		return nil, nil, fmt.Errorf("genuine proof for positions %v (requested as %v) of n=%d vc=%v %v does not verify: %v", set, req, len(ct.elems), ct.vc, ct.ht, err)
	}
	return p, set, nil
}

// reject: the (mutated) proof/elements/root must not verify.
func (ct *c37Tree) reject(what string, root crypto.GenericDigest, elems map[uint64]crypto.Hashable, p *Proof) error {
	if err := ct.verify(root, elems, p); err == nil {
		ks := make([]uint64, 0, len(elems))
		for k := range elems {
			ks = append(ks, k)
		}
		sort.Slice(ks, func(i, j int) bool { return ks[i] < ks[j] })
		return fmt.Errorf("SOUNDNESS: %s verified (n=%d vc=%v %v depth=%d pathlen=%d positions=%v)", what, len(ct.elems), ct.vc, ct.ht, p.TreeDepth, len(p.Path), ks)
	}
	return nil
}

func c37Flip(d []byte, at int, size int) crypto.GenericDigest {
	if len(d) == 0 {
		o := make([]byte, size) // an absent sibling stands for zeros; make it a non-zero digest
		o[at%size] = 0x80
		return o
	}
	o := append([]byte(nil), d...)
	o[at%len(o)] ^= 1 << uint(at%8)
	return o
}

// wrongElem returns a hashable different from the true element at p.
func (ct *c37Tree) wrongElem(p uint64, salt byte) crypto.Hashable {
	if ct.distinct && len(ct.elems) > 1 && salt%2 == 0 {
		n := uint64(len(ct.elems))
		return ct.elems[(p+1+uint64(salt/2)%(n-1))%n] // offset in [1,n-1]: never position p itself
	}
	w := append(append(c37Elem{}, ct.elems[p]...), salt|1)
	return w
}

type c37Stats struct {
	negatives int
	excluded  map[string]int
}

func (s *c37Stats) excl(k string) {
	if s.excluded == nil {
		s.excluded = map[string]int{}
	}
	s.excluded[k]++
}

// negDepth applies the TreeDepth +-1 mutations with the documented binding rules.
func (ct *c37Tree) negDepth(p *Proof, set []uint64, st *c37Stats) error {
	if len(set) == 0 {
		return nil // no elements: nothing is claimed
	}
	if !ct.distinct {
		st.excl("depth change with duplicate elements")
		return nil
	}
	em := ct.elemsMap(set)
	maxPos := set[len(set)-1]
	for _, delta := range []int{+1, -1} {
		nd := int(p.TreeDepth) + delta
		if nd < 0 {
			continue
		}
		q := c37CloneProof(p)
		q.TreeDepth = uint8(nd)
		if ct.vc {
			// the claimed depth selects the bit reversal: every index except 0 lands elsewhere (or out of range)
			if maxPos == 0 {
				st.excl("vc depth change with only index 0 (same leaf at any depth)")
				continue
			}
		} else {
			// plain Verify only uses TreeDepth to bound positions
			if delta > 0 || maxPos < (uint64(1)<<uint(nd)) {
				st.excl("plain tree does not bind TreeDepth (documented: needs a vector commitment)")
				continue
			}
		}
		st.negatives++
		if err := ct.reject(fmt.Sprintf("TreeDepth %d->%d", p.TreeDepth, nd), ct.root, em, q); err != nil {
			return err
		}
	}
	return nil
}

// negShift: the element of position p presented at position p2 (not in the set).
func (ct *c37Tree) negShift(p *Proof, set []uint64, pi int, p2 uint64, st *c37Stats) error {
	if !ct.distinct {
		st.excl("position shift with duplicate elements")
		return nil
	}
	if !ct.vc && c37HasEmptyHint(p) {
		st.excl("plain tree position shift across an absent sibling (documented: needs a vector commitment)")
		return nil
	}
	em := ct.elemsMap(set)
	if _, in := em[p2]; in {
		return nil
	}
	delete(em, set[pi])
	em[p2] = ct.elems[set[pi]]
	st.negatives++
	return ct.reject(fmt.Sprintf("element of position %d presented at position %d", set[pi], p2), ct.root, em, p)
}

// negAlias: position + 2^depth together with TreeDepth+1 (same low path bits; only the final position differs), and
// for vector commitments the index whose reversed position is the alias.
func (ct *c37Tree) negAlias(p *Proof, set []uint64, pi int, st *c37Stats) error {
	if !ct.distinct {
		st.excl("position alias with duplicate elements")
		return nil
	}
	d := uint(p.TreeDepth)
	{
		// same TreeDepth, a position beyond the tree width whose low bits equal the true position: out of range
		p2 := set[pi] + (1 << d)
		if ct.vc && pi%2 == 1 {
			p2 = set[pi] + (3 << d)
		}
		em := ct.elemsMap(set)
		delete(em, set[pi])
		em[p2] = ct.elems[set[pi]]
		st.negatives++
		if err := ct.reject(fmt.Sprintf("position %d presented at %d (beyond the tree width)", set[pi], p2), ct.root, em, p); err != nil {
			return err
		}
	}
	q := c37CloneProof(p)
	q.TreeDepth = p.TreeDepth + 1
	cand := []uint64{set[pi] + (1 << d)}
	if ct.vc {
		cand = append(cand, set[pi]<<1|1)
	}
	for _, p2 := range cand {
		em := ct.elemsMap(set)
		if _, in := em[p2]; in {
			continue
		}
		delete(em, set[pi])
		em[p2] = ct.elems[set[pi]]
		st.negatives++
		if err := ct.reject(fmt.Sprintf("position %d aliased to %d with TreeDepth+1", set[pi], p2), ct.root, em, q); err != nil {
			return err
		}
	}
	return nil
}

// negOtherSet: the proof of `set` presented with the true elements of another non-empty position set.
func (ct *c37Tree) negOtherSet(p *Proof, set, other []uint64, st *c37Stats) error {
	if !ct.distinct {
		st.excl("other subset with duplicate elements")
		return nil
	}
	if len(other) == 0 || fmt.Sprint(set) == fmt.Sprint(other) {
		return nil
	}
	if len(p.Path) == 0 && len(other) == len(ct.elems) {
		// an empty path is the genuine proof of the full set as well (no siblings needed)
		st.excl("empty path presented with the full set (legitimately valid)")
		return nil
	}
	st.negatives++
	return ct.reject(fmt.Sprintf("proof of %v presented with the elements of %v", set, other), ct.root, ct.elemsMap(other), p)
}

// negFixed runs the single-field mutations that need no drawn parameters beyond `sel` (a selector spreading the byte
// positions); if all is true every path index is mutated, otherwise one chosen by sel.
func (ct *c37Tree) negFixed(p *Proof, set []uint64, sel int, all bool, st *c37Stats) error {
	if len(set) == 0 {
		return nil
	}
	em := ct.elemsMap(set)
	size := ct.ref.size
	// wrong element
	for i, pos := range set {
		if !all && i != sel%len(set) {
			continue
		}
		m := c37CloneMap(em)
		m[pos] = ct.wrongElem(pos, byte(sel+i))
		st.negatives++
		if err := ct.reject(fmt.Sprintf("another element at position %d", pos), ct.root, m, p); err != nil {
			return err
		}
	}
	// path digests
	for i := range p.Path {
		if !all && i != sel%len(p.Path) {
			continue
		}
		for _, at := range []int{0, size*8 - 1, sel + i*7} {
			q := c37CloneProof(p)
			q.Path[i] = c37Flip(q.Path[i], at, size)
			st.negatives++
			if err := ct.reject(fmt.Sprintf("path[%d] flipped at %d", i, at), ct.root, em, q); err != nil {
				return err
			}
		}
		q := c37CloneProof(p)
		q.Path = append(q.Path[:i:i], q.Path[i+1:]...)
		st.negatives++
		if err := ct.reject(fmt.Sprintf("path[%d] removed", i), ct.root, em, q); err != nil {
			return err
		}
		q = c37CloneProof(p)
		extra := c37Flip(nil, sel+i, size)
		if sel%2 == 0 && len(p.Path[i]) > 0 {
			extra = append(crypto.GenericDigest{}, p.Path[i]...) // a duplicate of the neighbour
		}
		q.Path = append(q.Path[:i:i], append([]crypto.GenericDigest{extra}, q.Path[i:]...)...)
		st.negatives++
		if err := ct.reject(fmt.Sprintf("digest inserted before path[%d]", i), ct.root, em, q); err != nil {
			return err
		}
	}
	{
		q := c37CloneProof(p)
		q.Path = append(q.Path, c37Flip(nil, sel, size))
		st.negatives++
		if err := ct.reject("digest appended to the path", ct.root, em, q); err != nil {
			return err
		}
		q = c37CloneProof(p)
		q.Path = append(q.Path, make([]byte, size))
		st.negatives++
		if err := ct.reject("zero digest appended to the path", ct.root, em, q); err != nil {
			return err
		}
	}
	// root
	for _, at := range []int{0, len(ct.root)*8 - 1, sel * 13} {
		r := c37Flip(ct.root, at, size)
		st.negatives++
		if err := ct.reject(fmt.Sprintf("root flipped at %d", at), r, em, p); err != nil {
			return err
		}
	}
	// hash type
	for _, ht := range []crypto.HashType{crypto.Sha512_256, crypto.Sumhash, crypto.Sha256, crypto.Sha512} {
		if ht == ct.ht {
			continue
		}
		if !all && int(ht) != (int(ct.ht)+1+sel%3)%4 {
			continue
		}
		q := c37CloneProof(p)
		q.HashFactory = crypto.HashFactory{HashType: ht}
		st.negatives++
		if err := ct.reject(fmt.Sprintf("hash type %v->%v", ct.ht, ht), ct.root, em, q); err != nil {
			return err
		}
	}
	if err := ct.negDigestLen(p, set, sel, all, st); err != nil {
		return err
	}
	if ct.vc && ct.distinct {
		st.excl("vector commitment: whole set relabelled to indices j*2^k with TreeDepth+k (known finding vc-depth-index-relabel)")
	}
	return ct.negDepth(p, set, st)
}

// ---------------------------------------------------------------------------------------------------------
// path digests of the wrong length

type c37Hint struct {
	level int
	sib   uint64 // tree position (at that level) of the sibling the hint stands for
}

// treePos maps array indices to sorted leaf positions (bit-reversed for vector commitments).
func (ct *c37Tree) treePos(set []uint64) []uint64 {
	out := make([]uint64, len(set))
	for i, x := range set {
		if ct.vc {
			x = c37Rev(x, ct.ref.depth)
		}
		out[i] = x
	}
	sort.Slice(out, func(i, j int) bool { return out[i] < out[j] })
	return out
}

// c37HintOrder lists, in path order, which sibling each path digest stands for: level by level, left to right, a
// sibling is needed whenever the neighbour is not itself in the partial layer (the documented proof layout).
func c37HintOrder(pos []uint64, depth int) []c37Hint {
	var order []c37Hint
	pl := pos
	for l := 0; l < depth; l++ {
		var next []uint64
		for i := 0; i < len(pl); i++ {
			if i+1 < len(pl) && pl[i+1] == pl[i]^1 {
				next = append(next, pl[i]/2)
				i++
				continue
			}
			order = append(order, c37Hint{l, pl[i] ^ 1})
			next = append(next, pl[i]/2)
		}
		pl = next
	}
	return order
}

func c37AllZero(b []byte) bool {
	for _, x := range b {
		if x != 0 {
			return false
		}
	}
	return true
}

// negDigestLen: a path digest replaced by one of another length (over-long sibling||own, truncated, empty), presented
// with a WRONG element somewhere below the node that digest is combined with, must not verify; truncated/empty digests
// must not verify with the true elements either.
func (ct *c37Tree) negDigestLen(p *Proof, set []uint64, sel int, all bool, st *c37Stats) error {
	if len(p.Path) == 0 || len(set) == 0 {
		return nil
	}
	order := c37HintOrder(ct.treePos(set), ct.ref.depth)
	if len(order) != len(p.Path) {
		st.excl("path layout differs from the harness model of the hint order")
		return nil
	}
	size := ct.ref.size
	em := ct.elemsMap(set)
	for h, hint := range order {
		if !all && h != sel%len(order) {
			continue
		}
		l, owner := hint.level, hint.sib^1
		// a member below the owner node
		victim, found := uint64(0), false
		for _, idx := range set {
			tp := idx
			if ct.vc {
				tp = c37Rev(idx, ct.ref.depth)
			}
			if tp>>uint(l) == owner {
				victim, found = idx, true
				break
			}
		}
		if !found {
			return fmt.Errorf("harness: no member below level %d node %d", l, owner)
		}
		emWrong := c37CloneMap(em)
		emWrong[victim] = ct.wrongElem(victim, byte(sel+h)|1)
		var trueSib []byte
		if hint.sib < uint64(len(ct.ref.levels[l])) {
			trueSib = ct.ref.levels[l][hint.sib]
		}
		trueOwn := ct.ref.levels[l][owner]
		with := func(d []byte) *Proof {
			q := c37CloneProof(p)
			q.Path[h] = append(crypto.GenericDigest{}, d...)
			return q
		}
		// over-long: sibling||own and own||sibling (one of them is left||right, i.e. the whole input of the parent)
		if 2*size > crypto.MaxHashDigestSize {
			st.excl("over-long digest not representable for this hash (GenericDigest is at most 64 bytes)")
		} else {
			sb := trueSib
			if sb == nil {
				sb = make([]byte, size)
			}
			for _, ownFirst := range []bool{false, true} {
				d := append(append([]byte{}, sb...), trueOwn...)
				name := "sibling||own"
				if ownFirst {
					d = append(append([]byte{}, trueOwn...), sb...)
					name = "own||sibling"
				}
				if owner&1 == 1 && (!ownFirst || bytes.Equal(trueOwn, sb)) {
					// the digest is the left operand and spells left||right: the known forgery
					st.excl("over-long path digest left of a right child (known finding path-digest-length)")
					continue
				}
				st.negatives++
				if err := ct.reject(fmt.Sprintf("path[%d] replaced by the %d-byte %s digest, wrong element at %d", h, 2*size, name, victim), ct.root, emWrong, with(d)); err != nil {
					return err
				}
			}
		}
		if trueSib == nil {
			continue // an absent sibling is genuinely empty
		}
		for _, cut := range []int{size - 1, size / 2, 1, 0} {
			q := with(trueSib[:cut])
			st.negatives++
			if err := ct.reject(fmt.Sprintf("path[%d] truncated to %d bytes, wrong element at %d", h, cut, victim), ct.root, emWrong, q); err != nil {
				return err
			}
			if c37AllZero(trueSib[cut:]) {
				continue // zero padding would reproduce the same bytes
			}
			st.negatives++
			if err := ct.reject(fmt.Sprintf("path[%d] truncated to %d bytes", h, cut), ct.root, em, q); err != nil {
				return err
			}
		}
	}
	return nil
}

// singleLeaf checks ProveSingleLeaf and its byte representations against the reference siblings.
func (ct *c37Tree) singleLeaf(idx uint64) error {
	sp, err := ct.tree.ProveSingleLeaf(idx)
	if err != nil {
		return fmt.Errorf("ProveSingleLeaf(%d): %v", idx, err)
	}
	d := ct.ref.depth
	if int(sp.TreeDepth) != d || len(sp.Path) != d {
		return fmt.Errorf("ProveSingleLeaf(%d): TreeDepth=%d len(Path)=%d, reference depth %d", idx, sp.TreeDepth, len(sp.Path), d)
	}
	pos := idx
	if ct.vc {
		pos = c37Rev(idx, d)
	}
	var concat []byte
	for l := 0; l < d; l++ {
		concat = append(concat, ct.ref.sibling(l, pos)...)
	}
	size := ct.ref.size
	fixed := append([]byte{byte(d)}, make([]byte, (MaxEncodedTreeDepth-d)*size)...)
	fixed = append(fixed, concat...)
	if got := sp.GetConcatenatedProof(); !bytes.Equal(got, concat) {
		return fmt.Errorf("GetConcatenatedProof(idx %d, n=%d, vc=%v) = %x, reference sibling path %x", idx, len(ct.elems), ct.vc, got, concat)
	}
	if got := sp.GetFixedLengthHashableRepresentation(); !bytes.Equal(got, fixed) {
		return fmt.Errorf("GetFixedLengthHashableRepresentation(idx %d, n=%d, vc=%v) = %x, want %x", idx, len(ct.elems), ct.vc, got, fixed)
	}
	em := ct.elemsMap([]uint64{idx})
	if err := ct.verify(ct.root, em, sp.ToProof()); err != nil {
		return fmt.Errorf("single-leaf proof of %d does not verify: %v", idx, err)
	}
	rt, err := ProofDataToSingleLeafProof(ct.ht.String(), concat)
	if err != nil {
		return fmt.Errorf("ProofDataToSingleLeafProof: %v", err)
	}
	if int(rt.TreeDepth) != d {
		return fmt.Errorf("ProofDataToSingleLeafProof depth %d want %d", rt.TreeDepth, d)
	}
	if err := ct.verify(ct.root, em, rt.ToProof()); err != nil {
		return fmt.Errorf("single-leaf proof of %d rebuilt from its concatenated bytes does not verify: %v", idx, err)
	}
	if d > 0 {
		// one flipped byte in the serialized path must be rejected
		bad := append([]byte(nil), concat...)
		bad[(int(idx)*31)%len(bad)] ^= 0x10
		rt2, err := ProofDataToSingleLeafProof(ct.ht.String(), bad)
		if err == nil {
			if err := ct.reject(fmt.Sprintf("single-leaf proof of %d rebuilt from corrupted bytes", idx), ct.root, em, rt2.ToProof()); err != nil {
				return err
			}
		}
	}
	return nil
}

// ---------------------------------------------------------------------------------------------------------
// exhaustive unit

type c37Replay struct {
	Hash     string
	VC       bool
	N        int
	Request  []uint64
	Distinct bool
	Elems    []string
}

func (ct *c37Tree) replay(req []uint64) c37Replay {
	r := c37Replay{Hash: ct.ht.String(), VC: ct.vc, N: len(ct.elems), Request: req, Distinct: ct.distinct}
	if len(ct.elems) <= 40 {
		for _, e := range ct.elems {
			r.Elems = append(r.Elems, fmt.Sprintf("%x", []byte(e)))
		}
	}
	return r
}

func c37FixedElems(n int) []c37Elem {
	out := make([]c37Elem, n)
	for i := range out {
		switch i % 4 {
		case 0:
			out[i] = c37Elem(fmt.Sprintf("element-%d-of-%d", i, n))
		case 1:
			out[i] = c37Elem{byte(i), byte(n)}
		case 2:
			out[i] = c37Elem(bytes.Repeat([]byte{byte(i + 1)}, 33+i))
		default:
			out[i] = c37Elem{byte(i)}
		}
	}
	if n > 5 {
		out[5] = c37Elem{} // an empty element is a legal leaf
	}
	return out
}

func c37MaskSet(mask, n int) []uint64 {
	var s []uint64
	for i := 0; i < n; i++ {
		if mask>>uint(i)&1 == 1 {
			s = append(s, uint64(i))
		}
	}
	return s
}

func c37ExhaustOne(vk *vkCtx, ht crypto.HashType, vc bool, n int, st *c37Stats) {
	ct, err := c37Build(ht, vc, c37FixedElems(n), true)
	if err != nil {
		vk.Failf(c37Replay{Hash: ht.String(), VC: vc, N: n}, "%v", err)
	}
	fail := func(req []uint64, err error) {
		vk.Failf(ct.replay(req), "%v", err)
	}
	// a proof request on positions outside the array must be refused
	if _, err := ct.tree.Prove([]uint64{uint64(n)}); err == nil {
		fail([]uint64{uint64(n)}, fmt.Errorf("Prove accepted position %d of an %d-element array", n, n))
	}
	for i := 0; i < n; i++ {
		if err := ct.singleLeaf(uint64(i)); err != nil {
			fail([]uint64{uint64(i)}, err)
		}
	}
	width := uint64(1) << uint(ct.ref.depth)
	for mask := 0; mask < 1<<uint(n); mask++ {
		set := c37MaskSet(mask, n)
		p, _, err := ct.prove(set)
		if err != nil {
			fail(set, err)
		}
		// the same set requested in reverse order with a duplicate
		if len(set) > 0 {
			req := []uint64{set[0]}
			for i := len(set) - 1; i >= 0; i-- {
				req = append(req, set[i])
			}
			p2, _, err := ct.prove(req)
			if err != nil {
				fail(req, err)
			}
			if len(p2.Path) != len(p.Path) {
				fail(req, fmt.Errorf("unsorted/duplicate request %v gives %d path digests, sorted request %d", req, len(p2.Path), len(p.Path)))
			}
			for i := range p.Path {
				if !bytes.Equal(p.Path[i], p2.Path[i]) {
					fail(req, fmt.Errorf("unsorted/duplicate request %v gives a different path", req))
				}
			}
		}
		if err := ct.negFixed(p, set, mask, true, st); err != nil {
			fail(set, err)
		}
		for pi := range set {
			for p2 := uint64(0); p2 < width; p2++ {
				if err := ct.negShift(p, set, pi, p2, st); err != nil {
					fail(set, err)
				}
			}
			if err := ct.negAlias(p, set, pi, st); err != nil {
				fail(set, err)
			}
		}
		if n <= 6 {
			for m2 := 1; m2 < 1<<uint(n); m2++ {
				if err := ct.negOtherSet(p, set, c37MaskSet(m2, n), st); err != nil {
					fail(set, err)
				}
			}
		} else {
			for b := 0; b < n; b++ {
				if err := ct.negOtherSet(p, set, c37MaskSet(mask^(1<<uint(b)), n), st); err != nil {
					fail(set, err)
				}
			}
		}
		nt := n >= 3 && len(set) > 0 && len(set) < n && len(p.Path) > 0
		vk.Case(nt, fmt.Sprintf("x/%v/%v/%d/%d", ht, vc, n, mask))
		if vk.WantSample(nt) && n >= 3 {
			vk.Sample(nt, map[string]interface{}{"hash": ht.String(), "vc": vc, "n": n, "positions": set, "pathlen": len(p.Path), "depth": p.TreeDepth})
		}
	}
}

func TestVerif_C37_Exhaustive(t *testing.T) {
	vk := vkBegin(t, "C37")
	maxN := vkN(7, 10)
	vk.Rule(fmt.Sprintf("every array size 0..%d x {Build, BuildVectorCommitmentTree} x {sha512_256, sha256, sumhash} with fixed distinct elements and EVERY position subset: root/depth/single-leaf paths vs the reference, genuine proof verifies, and every single-field mutation (each element replaced, each position moved to each free position, each path digest flipped/removed/duplicated, digest appended, TreeDepth+-1, root flipped, hash type changed, other subsets, position aliased with TreeDepth+1) is rejected; non-trivial = n>=3, proper non-empty subset, non-empty path; distinct by (hash, kind, n, subset)", maxN))
	vk.Assume("sha512/sha256 from the Go standard library and github.com/algorand/go-sumhash are the hash primitives; collision resistance (a rejected mutation could only verify through a collision)")
	st := &c37Stats{}
	combo := 0
	for _, ht := range []crypto.HashType{crypto.Sha512_256, crypto.Sha256, crypto.Sumhash} {
		for _, vc := range []bool{false, true} {
			for n := 0; n <= maxN; n++ {
				combo++
				if combo%vkNShards() != vkShard() {
					continue
				}
				c37ExhaustOne(vk, ht, vc, n, st)
			}
		}
	}
	vk.Add("negative_verifications", int64(st.negatives))
	for k, v := range st.excluded {
		for i := 0; i < v; i++ {
			vk.Excluded(k)
		}
	}
	vk.Exhaustive(fmt.Sprintf("all position subsets of arrays of size 0..%d for both tree kinds and three hash functions, with all listed single-field mutations (complete when all shards of the unit ran)", maxN))
}

// ---------------------------------------------------------------------------------------------------------
// random unit

func TestVerif_C37_Random(t *testing.T) {
	vk := vkBegin(t, "C37")
	vk.Rule("arrays of 0..33 (70%), 34..600 (25%) or 601..5000 (5%, not sumhash) elements of 0..40 bytes (distinct, or with duplicates), Build or BuildVectorCommitmentTree, sha512_256/sha256/sumhash; per tree 1..4 position requests (single, few, dense, range, all, empty, tail) possibly unsorted with duplicates; root/depth vs the reference, genuine proof verifies, one drawn instance of every single-field mutation is rejected, single-leaf byte representations vs reference siblings; non-trivial = n>=3, proper non-empty subset, non-empty path; distinct by (hash, kind, elements, request)")
	vk.Assume("sha512/sha256 from the Go standard library and github.com/algorand/go-sumhash are the hash primitives; collision resistance (a rejected mutation could only verify through a collision)")
	rapid.Check(t, func(t *rapid.T) {
		ht := rapid.SampledFrom([]crypto.HashType{crypto.Sha512_256, crypto.Sha256, crypto.Sumhash}).Draw(t, "hash")
		vc := rapid.Bool().Draw(t, "vc")
		var n int
		switch k := rapid.IntRange(0, 19).Draw(t, "sizeKind"); {
		case k < 14:
			n = rapid.IntRange(0, 33).Draw(t, "n")
		case k < 19 || ht == crypto.Sumhash:
			n = rapid.IntRange(34, 600).Draw(t, "n")
		default:
			n = rapid.IntRange(601, 5000).Draw(t, "n")
		}
		if rapid.IntRange(0, 7).Draw(t, "pow2") == 0 && n > 1 {
			// around powers of two the padding / odd-layer logic changes
			b := 1
			for b*2 <= n {
				b *= 2
			}
			n = b + rapid.IntRange(-1, 1).Draw(t, "pow2delta")
		}
		distinct := rapid.IntRange(0, 5).Draw(t, "dups") != 0
		rnd := mrand.New(mrand.NewSource(rapid.Int64().Draw(t, "elemSeed")))
		elems := make([]c37Elem, n)
		seen := map[string]bool{}
		for i := range elems {
			for {
				l := rnd.Intn(41)
				if !distinct {
					l = rnd.Intn(2)
				}
				e := make(c37Elem, l)
				rnd.Read(e)
				if !distinct && l > 0 {
					e[0] &= 3
				}
				if distinct && seen[string(e)] {
					continue
				}
				seen[string(e)] = true
				elems[i] = e
				break
			}
		}
		ct, err := c37Build(ht, vc, elems, distinct)
		if err != nil {
			t.Fatalf("%v", err)
		}
		st := &c37Stats{}
		width := uint64(1) << uint(ct.ref.depth)
		fpBase := fmt.Sprintf("%v/%v/%d/%x/", ht, vc, n, ct.ref.root())
		if n == 0 {
			// nothing can be proven in an empty array; an empty request gives an empty proof that verifies
			if _, err := ct.tree.Prove([]uint64{0}); err == nil {
				t.Fatalf("Prove([0]) on an empty array succeeded")
			}
			if _, _, err := ct.prove(nil); err != nil {
				t.Fatalf("%v", err)
			}
			vk.Case(false, fpBase)
			vk.Label("n=0")
			return
		}
		if _, err := ct.tree.Prove([]uint64{uint64(n) + uint64(rapid.IntRange(0, 3).Draw(t, "oob"))}); err == nil {
			t.Fatalf("Prove accepted a position >= n=%d", n)
		}
		if err := ct.singleLeaf(uint64(rapid.IntRange(0, n-1).Draw(t, "single"))); err != nil {
			t.Fatalf("%v", err)
		}
		if err := ct.singleLeaf(uint64(n - 1)); err != nil {
			t.Fatalf("%v", err)
		}
		nreq := rapid.IntRange(1, 4).Draw(t, "requests")
		for r := 0; r < nreq; r++ {
			kind := rapid.SampledFrom([]string{"single", "few", "few", "dense", "range", "all", "empty", "tail"}).Draw(t, "kind")
			var req []uint64
			switch kind {
			case "single":
				req = []uint64{uint64(rapid.IntRange(0, n-1).Draw(t, "pos"))}
			case "few":
				k := rapid.IntRange(2, 8).Draw(t, "k")
				for i := 0; i < k; i++ {
					req = append(req, uint64(rapid.IntRange(0, n-1).Draw(t, "pos")))
				}
			case "dense":
				seed := rapid.Int64().Draw(t, "denseSeed")
				pr := rapid.IntRange(1, 9).Draw(t, "densityTenths")
				dr := mrand.New(mrand.NewSource(seed))
				for i := 0; i < n; i++ {
					if dr.Intn(10) < pr {
						req = append(req, uint64(i))
					}
				}
			case "range":
				a := rapid.IntRange(0, n-1).Draw(t, "from")
				b := rapid.IntRange(a, n-1).Draw(t, "to")
				if b-a > 300 {
					b = a + 300
				}
				for i := a; i <= b; i++ {
					req = append(req, uint64(i))
				}
			case "all":
				for i := 0; i < n; i++ {
					req = append(req, uint64(i))
				}
			case "tail":
				req = []uint64{uint64(n - 1)}
				if n > 1 && rapid.Bool().Draw(t, "tail2") {
					req = append(req, uint64(n-2))
				}
			}
			dupReq := false
			if len(req) > 0 && len(req) <= 400 && rapid.Bool().Draw(t, "scramble") {
				// unsorted with duplicates
				sr := mrand.New(mrand.NewSource(rapid.Int64().Draw(t, "scrambleSeed")))
				extra := 1 + sr.Intn(3)
				for i := 0; i < extra; i++ {
					req = append(req, req[sr.Intn(len(req))])
				}
				sr.Shuffle(len(req), func(i, j int) { req[i], req[j] = req[j], req[i] })
				dupReq = true
			}
			p, set, err := ct.prove(req)
			if err != nil {
				t.Fatalf("%v", err)
			}
			sel := rapid.IntRange(0, 1<<20).Draw(t, "sel")
			if err := ct.negFixed(p, set, sel, false, st); err != nil {
				t.Fatalf("%v", err)
			}
			if len(set) > 0 {
				pi := sel % len(set)
				var p2 uint64
				switch rapid.IntRange(0, 3).Draw(t, "shiftKind") {
				case 0:
					p2 = set[pi] ^ 1
				case 1:
					p2 = set[pi] + 1
				case 2:
					p2 = (set[pi] + width - 1) % width
				default:
					p2 = uint64(rapid.IntRange(0, int(width)-1).Draw(t, "shiftTo"))
				}
				if p2 < width || ct.vc {
					if err := ct.negShift(p, set, pi, p2, st); err != nil {
						t.Fatalf("%v", err)
					}
				}
				if err := ct.negAlias(p, set, pi, st); err != nil {
					t.Fatalf("%v", err)
				}
				// another subset: toggle one position
				tog := uint64(rapid.IntRange(0, n-1).Draw(t, "toggle"))
				var other []uint64
				had := false
				for _, x := range set {
					if x == tog {
						had = true
						continue
					}
					other = append(other, x)
				}
				if !had {
					other = c37Uniq(append(other, tog))
				}
				if err := ct.negOtherSet(p, set, other, st); err != nil {
					t.Fatalf("%v", err)
				}
			} else {
				// empty request: empty proof; it must not open any proper non-empty subset
				if len(p.Path) != 0 {
					t.Fatalf("empty request produced %d path digests", len(p.Path))
				}
				if n > 1 {
					other := []uint64{uint64(sel % n)}
					if err := ct.negOtherSet(p, nil, other, st); err != nil {
						t.Fatalf("%v", err)
					}
				}
			}
			nt := n >= 3 && len(set) > 0 && len(set) < n && len(p.Path) > 0
			vk.Case(nt, fmt.Sprintf("%s%v", fpBase, req))
			vk.Label("request=" + kind)
			if dupReq {
				vk.Label("request unsorted+dups")
			}
			if c37HasEmptyHint(p) {
				vk.Label("path has absent sibling")
			}
			switch {
			case len(p.Path) == 0:
				vk.Label("path=0")
			case len(p.Path) <= 4:
				vk.Label("path=1..4")
			case len(p.Path) <= 16:
				vk.Label("path=5..16")
			default:
				vk.Label("path>16")
			}
			if vk.WantSample(nt) {
				s := set
				if len(s) > 20 {
					s = s[:20]
				}
				vk.Sample(nt, map[string]interface{}{"hash": ht.String(), "vc": vc, "n": n, "distinct": distinct, "request_kind": kind, "positions(first 20)": s, "npositions": len(set), "pathlen": len(p.Path), "depth": p.TreeDepth})
			}
		}
		vk.Label("hash=" + ht.String())
		if vc {
			vk.Label("kind=vector-commitment")
		} else {
			vk.Label("kind=plain")
		}
		if !distinct {
			vk.Label("elements with duplicates")
		}
		switch {
		case n <= 2:
			vk.Label("n=1..2")
		case n <= 33:
			vk.Label("n=3..33")
		case n <= 600:
			vk.Label("n=34..600")
		default:
			vk.Label("n>600")
		}
		if n&(n-1) == 0 {
			vk.Label("n power of two")
		}
		vk.Add("negative_verifications", int64(st.negatives))
		for k, v := range st.excluded {
			for i := 0; i < v; i++ {
				vk.Excluded(k)
			}
		}
	})
}

// ---------------------------------------------------------------------------------------------------------
// known findings (reproduced outside the main search, which excludes these families by construction)

type c37Forgery struct {
	Sig      string
	What     string
	Hash     string
	VC       bool
	N        int
	Genuine  []uint64          // positions the genuine proof was made for
	Claimed  map[string]string // position -> element (hex) presented to the verifier
	Depth    uint8
	Path     []string
	Verified bool
}

func TestVerif_C37_Known(t *testing.T) {
	vk := vkBegin(t, "C37")
	vk.Rule("hand-built minimal forgeries for the two families the main search excludes: (a) a path digest of twice the hash size left of a right child makes the element's own hash irrelevant; (b) a vector-commitment proof re-labelled to indices j*2^k by claiming TreeDepth+k; each that verifies is reported through the known-findings list; non-trivial = every case; distinct by case")
	junk := c37Elem("junk element that is not in the array")
	var cases []c37Forgery
	run := func(f c37Forgery, ct *c37Tree, elems map[uint64]crypto.Hashable, p *Proof) {
		f.Hash, f.VC, f.N, f.Depth = ct.ht.String(), ct.vc, len(ct.elems), p.TreeDepth
		f.Claimed = map[string]string{}
		for k, v := range elems {
			f.Claimed[fmt.Sprint(k)] = fmt.Sprintf("%x", []byte(v.(c37Elem)))
		}
		for _, d := range p.Path {
			f.Path = append(f.Path, fmt.Sprintf("%x", []byte(d)))
		}
		f.Verified = ct.verify(ct.root, elems, p) == nil
		cases = append(cases, f)
		vk.Case(true, fmt.Sprintf("%s/%s/%v/%d/%v/%v", f.Sig, f.Hash, f.VC, f.N, f.Genuine, f.Claimed))
		vk.Sample(true, f)
	}
	build := func(ht crypto.HashType, vc bool, n int) *c37Tree {
		ct, err := c37Build(ht, vc, c37FixedElems(n), true)
		if err != nil {
			vk.Failf(c37Replay{Hash: ht.String(), VC: vc, N: n}, "%v", err)
		}
		return ct
	}
	cat := func(a, b []byte) crypto.GenericDigest { return append(append(crypto.GenericDigest{}, a...), b...) }

	// (a) path-digest-length
	{
		ct := build(crypto.Sha512_256, false, 2)
		p := &Proof{HashFactory: crypto.HashFactory{HashType: ct.ht}, TreeDepth: 1, Path: []crypto.GenericDigest{cat(ct.ref.levels[0][0], ct.ref.levels[0][1])}}
		run(c37Forgery{Sig: "path-digest-length", What: "Verify accepts a junk element at position 1 of a 2-element sha512_256 tree when Path[0] is the 64-byte leafhash0||leafhash1", Genuine: []uint64{1}}, ct, map[uint64]crypto.Hashable{1: junk}, p)
	}
	{
		ct := build(crypto.Sha256, true, 4)
		p := &Proof{HashFactory: crypto.HashFactory{HashType: ct.ht}, TreeDepth: 2, Path: []crypto.GenericDigest{cat(ct.ref.levels[0][2], ct.ref.levels[0][3]), append(crypto.GenericDigest{}, ct.ref.levels[1][0]...)}}
		run(c37Forgery{Sig: "path-digest-length", What: "VerifyVectorCommitment accepts a junk element at index 3 of a 4-element sha256 vector commitment when Path[0] is the 64-byte leaf2||leaf3", Genuine: []uint64{3}}, ct, map[uint64]crypto.Hashable{3: junk}, p)
	}
	{
		ct := build(crypto.Sha512_256, false, 4)
		p := &Proof{HashFactory: crypto.HashFactory{HashType: ct.ht}, TreeDepth: 2, Path: []crypto.GenericDigest{bytes.Repeat([]byte{0xAB}, 32), cat(ct.ref.levels[1][0], ct.ref.levels[1][1])}}
		run(c37Forgery{Sig: "path-digest-length", What: "Verify accepts a junk element at position 2 of a 4-element tree with a junk Path[0] when Path[1] is the 64-byte node0||node1 of level 1", Genuine: []uint64{2}}, ct, map[uint64]crypto.Hashable{2: junk}, p)
	}
	// (b) vc-depth-index-relabel
	{
		ct := build(crypto.Sha512_256, true, 4)
		p, _, err := ct.prove([]uint64{1})
		if err != nil {
			vk.Failf(ct.replay([]uint64{1}), "%v", err)
		}
		q := c37CloneProof(p)
		q.TreeDepth = 3
		run(c37Forgery{Sig: "vc-depth-index-relabel", What: "VerifyVectorCommitment accepts element 1 of a 4-element vector commitment as index 2 when the proof claims TreeDepth 3 (path has 2 digests)", Genuine: []uint64{1}}, ct, map[uint64]crypto.Hashable{2: ct.elems[1]}, q)
		p, _, err = ct.prove([]uint64{0, 1, 2, 3})
		if err != nil {
			vk.Failf(ct.replay([]uint64{0, 1, 2, 3}), "%v", err)
		}
		q = c37CloneProof(p)
		q.TreeDepth = 3
		run(c37Forgery{Sig: "vc-depth-index-relabel", What: "the full opening of a 4-element vector commitment verifies as indices {0,2,4,6} with TreeDepth 3", Genuine: []uint64{0, 1, 2, 3}}, ct, map[uint64]crypto.Hashable{0: ct.elems[0], 2: ct.elems[1], 4: ct.elems[2], 6: ct.elems[3]}, q)
		p, _, err = ct.prove([]uint64{2})
		if err != nil {
			vk.Failf(ct.replay([]uint64{2}), "%v", err)
		}
		q = c37CloneProof(p)
		q.TreeDepth = 1
		run(c37Forgery{Sig: "vc-depth-index-relabel", What: "VerifyVectorCommitment accepts element 2 of a 4-element vector commitment as index 1 when the proof claims TreeDepth 1 (path has 2 digests)", Genuine: []uint64{2}}, ct, map[uint64]crypto.Hashable{1: ct.elems[2]}, q)
	}
	for _, f := range cases {
		fmt.Printf("C37-KNOWN-PROBE sig=%s verified=%v hash=%s vc=%v n=%d genuine=%v claimed=%v depth=%d path=%v\n", f.Sig, f.Verified, f.Hash, f.VC, f.N, f.Genuine, f.Claimed, f.Depth, f.Path)
	}
	// report after all cases were evaluated (an unlisted finding stops the test)
	for _, f := range cases {
		if f.Verified {
			vk.Known(f.Sig, f.What, f)
		}
	}
}
