package stateproof

// C39 — State proofs verify iff enough valid signatures back them.
//
//   * honest: participants with real Falcon / merkle-signature keys, a signer subset whose weight exceeds provenWeight
//     => Ready, CreateProof succeeds (or refuses only with the documented reveal-count errors when the ratio is small),
//     Verify(round, message) == nil, also after an encode/decode round trip;
//   * signed weight <= provenWeight => not Ready, CreateProof refuses;
//   * every single-field tampering of a valid proof (message, round to another key period, SignedWeight, reveal L / weight /
//     participant key / signature bytes / salt version / merkle path / index, proof digests, depths, SigCommit, positions,
//     dropped / duplicated / swapped reveals, truncated positions, foreign signatures, verifier commitment / proven weight,
//     strength downgrade) => Verify returns an error.
//
// Keys are generated once per process (deterministic seeds) and shared by all cases.

import (
	"crypto/sha256"
	"encoding/binary"
	"errors"
	"fmt"
	"math"
	mrand "math/rand"
	"sort"
	"sync"
	"testing"

	"golang.org/x/crypto/sha3"
	"pgregory.net/rapid"

	"github.com/algorand/go-algorand/crypto"
	"github.com/algorand/go-algorand/crypto/merklearray"
	"github.com/algorand/go-algorand/crypto/merklesignature"
	"github.com/algorand/go-algorand/data/basics"
	"github.com/algorand/go-algorand/protocol"
)

const (
	c39Lifetime  = 256 // merklesignature.KeyLifetimeDefault == StateProofInterval in every consensus version
	c39FirstKey  = 256
	c39KeysPerID = 3 // key periods 256, 512, 768
)

type c39Keys []crypto.FalconSigner

func (k c39Keys) Length() uint64 { return uint64(len(k)) }
func (k c39Keys) Marshal(pos uint64) (crypto.Hashable, error) {
	if pos >= uint64(len(k)) {
		return nil, fmt.Errorf("key index %d out of range", pos)
	}
	return &merklesignature.CommittablePublicKey{VerifyingKey: *k[pos].GetVerifyingKey(), Round: c39FirstKey + pos*c39Lifetime}, nil
}

type c39Identity struct {
	keys c39Keys
	ctx  merklesignature.SignerContext
	ver  merklesignature.Verifier
}

var (
	c39PoolMu sync.Mutex
	c39Pool   []*c39Identity
)

// c39Ident returns the i-th cached identity, generating it on first use (3 Falcon keys each).
func c39Ident(i int) *c39Identity {
	c39PoolMu.Lock()
	defer c39PoolMu.Unlock()
	for len(c39Pool) <= i {
		n := len(c39Pool)
		keys := make(c39Keys, c39KeysPerID)
		for j := range keys {
			var seed crypto.FalconSeed
			h := sha256.Sum256([]byte(fmt.Sprintf("verif-C39-key-%d-%d", n, j)))
			copy(seed[:], h[:])
			k, err := crypto.GenerateFalconSigner(seed)
			if err != nil {
				panic(err)
			}
			keys[j] = k
		}
		tree, err := merklearray.BuildVectorCommitmentTree(keys, crypto.HashFactory{HashType: merklesignature.MerkleSignatureSchemeHashFunction})
		if err != nil {
			panic(err)
		}
		id := &c39Identity{keys: keys, ctx: merklesignature.SignerContext{FirstValid: c39FirstKey, KeyLifetime: c39Lifetime, Tree: *tree}}
		id.ver = *id.ctx.GetVerifier()
		c39Pool = append(c39Pool, id)
	}
	return c39Pool[i]
}

func (id *c39Identity) sign(round uint64, msg []byte) (merklesignature.Signature, error) {
	period := round / c39Lifetime
	if period < 1 || period > c39KeysPerID {
		return merklesignature.Signature{}, fmt.Errorf("no key for round %d", round)
	}
	s := merklesignature.Signer{SigningKey: &id.keys[period-1], Round: round, SignerContext: id.ctx}
	return s.SignBytes(msg)
}

func c39PoolSize() int { return vkN(12, 24) }

type c39Case struct {
	Scenario string
	Profile  string
	Weights  []uint64
	Ident    []int
	Signs    []bool
	PW       uint64
	ST       uint64
	Round    uint64
	Data     MessageHash
	Seed     int64
}

type c39Built struct {
	c       *c39Case
	parts   []basics.Participant
	tree    *merklearray.Tree
	partcom crypto.GenericDigest
	prover  *Prover
	signed  uint64
	sigs    map[int]merklesignature.Signature // per identity index, for (Round, Data)
}

func (b *c39Built) sigFor(ident int, round uint64, data MessageHash) (merklesignature.Signature, error) {
	return c39Ident(ident).sign(round, data[:])
}

func c39GenCase(t *rapid.T) *c39Case {
	c := &c39Case{}
	n := rapid.SampledFrom([]int{4, 5, 7, 8, 9, 12, 15, 16, 17, 24, 31, 32, 33, 40}).Draw(t, "participants")
	c.Seed = rapid.Int64().Draw(t, "seed")
	r := mrand.New(mrand.NewSource(c.Seed))
	kind := rapid.SampledFrom([]string{"equal", "small", "whale", "stake", "tiny", "tiny"}).Draw(t, "weights")
	c.Profile = kind
	c.Weights = make([]uint64, n)
	c.Ident = make([]int, n)
	for i := range c.Weights {
		switch kind {
		case "equal":
			c.Weights[i] = 1000
		case "tiny":
			c.Weights[i] = uint64(1 + r.Intn(3)) // slot boundaries dense: almost every coin is the first or last coin of its slot
		case "small":
			c.Weights[i] = uint64(r.Intn(20)) // zeros: participants that can never sign
		case "whale":
			c.Weights[i] = uint64(1 + r.Intn(50))
			if i == n/2 {
				c.Weights[i] = uint64(60 * n)
			}
		default:
			c.Weights[i] = uint64(1e9) + uint64(r.Int63n(1e13))
		}
		c.Ident[i] = r.Intn(c39PoolSize())
	}
	var total uint64
	for _, w := range c.Weights {
		total += w
	}
	if total == 0 {
		c.Weights[0] = 7
		total = 7
	}
	c.ST = rapid.SampledFrom([]uint64{8, 64, 256, 256}).Draw(t, "strength")
	c.Round = rapid.SampledFrom([]uint64{256, 300, 512, 767, 768, 1000}).Draw(t, "round")
	for i := range c.Data {
		c.Data[i] = byte(r.Intn(256))
	}
	c.Signs = make([]bool, n)
	order := r.Perm(n)
	c.Scenario = rapid.SampledFrom([]string{"above", "above", "above", "just-above", "equal", "below"}).Draw(t, "scenario")
	switch c.Scenario {
	case "above":
		// proven weight a fraction of the total (30% as on chain, or 10..60%), signers added until signed >= 2*proven (+ extras)
		pct := uint64(30)
		if r.Intn(2) == 0 {
			pct = uint64(10 + r.Intn(36))
		}
		if total < 1<<50 {
			c.PW = total * pct / 100
		} else {
			c.PW = total / 100 * pct
		}
		if c.PW == 0 {
			c.PW = 1
		}
		var signed uint64
		for _, i := range order {
			if c.Weights[i] == 0 {
				continue
			}
			if signed >= 2*c.PW && r.Intn(3) != 0 {
				continue
			}
			c.Signs[i] = true
			signed += c.Weights[i]
		}
		if signed < 2*c.PW { // cannot happen for pct <= 50 unless weights are degenerate; keep the scenario honest
			c.PW = signed / 2
			if c.PW == 0 {
				c.PW = 1
			}
		}
	default:
		// a random signer subset; provenWeight placed right next to its weight
		var signed uint64
		for _, i := range order {
			if c.Weights[i] != 0 && (signed == 0 || r.Intn(2) == 0) {
				c.Signs[i] = true
				signed += c.Weights[i]
			}
		}
		d := uint64(1 + r.Intn(3))
		switch c.Scenario {
		case "just-above":
			c.PW = signed - d
			if signed <= d {
				c.PW = signed - 1
			}
		case "equal":
			c.PW = signed
		default:
			c.PW = signed + d
		}
		if c.PW == 0 {
			c.PW = 1
			if signed <= 1 {
				c.Scenario = "equal" // signed == 1 == PW
				if signed == 0 {
					c.Scenario = "below"
				}
			}
		}
	}
	return c
}

func c39Build(c *c39Case, st uint64) (*c39Built, error) { return c39BuildWith(c, st, nil) }

// c39BuildWith: forge == nil builds the honest prover; otherwise forge(i) supplies the (invalid) signature put into slot i,
// as a prover that does not hold the participants' keys would (Prover.Add does not check signatures, IsValid does).
func c39BuildWith(c *c39Case, st uint64, forge func(i int) (merklesignature.Signature, error)) (*c39Built, error) {
	b := &c39Built{c: c, sigs: map[int]merklesignature.Signature{}}
	for i, w := range c.Weights {
		b.parts = append(b.parts, basics.Participant{PK: c39Ident(c.Ident[i]).ver, Weight: w})
	}
	tree, err := merklearray.BuildVectorCommitmentTree(basics.ParticipantsArray(b.parts), crypto.HashFactory{HashType: HashType})
	if err != nil {
		return nil, err
	}
	b.tree = tree
	b.partcom = tree.Root()
	p, err := MakeProver(c.Data, c.Round, c.PW, b.parts, tree, st)
	if err != nil {
		return nil, err
	}
	b.prover = p
	for i, s := range c.Signs {
		if !s {
			continue
		}
		if forge != nil {
			sig, err := forge(i)
			if err != nil {
				return nil, err
			}
			if err := p.IsValid(uint64(i), &sig, true); err == nil {
				return nil, fmt.Errorf("IsValid accepted a forged signature for participant %d", i)
			}
			if err := p.Add(uint64(i), sig); err != nil {
				return nil, fmt.Errorf("Add(%d): %w", i, err)
			}
			b.signed += c.Weights[i]
			continue
		}
		sig, ok := b.sigs[c.Ident[i]]
		if !ok {
			sig, err = c39Ident(c.Ident[i]).sign(c.Round, c.Data[:])
			if err != nil {
				return nil, err
			}
			b.sigs[c.Ident[i]] = sig
		}
		if err := p.IsValid(uint64(i), &sig, true); err != nil {
			return nil, fmt.Errorf("honest signature of participant %d rejected by IsValid: %w", i, err)
		}
		if err := p.Add(uint64(i), sig); err != nil {
			return nil, fmt.Errorf("Add(%d): %w", i, err)
		}
		b.signed += c.Weights[i]
	}
	return b, nil
}

func c39Copy(sp *StateProof) (*StateProof, error) {
	var cp StateProof
	if err := protocol.Decode(protocol.Encode(sp), &cp); err != nil {
		return nil, err
	}
	return &cp, nil
}

// ---- tamperings

type c39T struct {
	sp      *StateProof // private deep copy
	b       *c39Built
	round   uint64
	data    MessageHash
	partcom crypto.GenericDigest
	pw      uint64
	st      uint64
	r       *mrand.Rand
	pos     []uint64 // sorted revealed positions
}

func (x *c39T) pick() uint64 { return x.pos[x.r.Intn(len(x.pos))] }

// A changed SignedWeight re-randomises every coin (it is part of the Fiat-Shamir seed); the tampered proof is then accepted
// with probability <= (heaviest revealed slot / new signed weight)^positions, which is not negligible for few positions or
// one dominant signer. negligible reports whether that bound is below 2^-40.
func (x *c39T) negligible(newSW uint64) bool {
	var maxW uint64
	for _, rv := range x.sp.Reveals {
		if rv.Part.Weight > maxW {
			maxW = rv.Part.Weight
		}
	}
	if maxW == 0 || newSW <= maxW {
		return false
	}
	return float64(len(x.sp.PositionsToReveal))*math.Log2(float64(newSW)/float64(maxW)) >= 40
}

func (x *c39T) setReveal(pos uint64, f func(*Reveal)) {
	rv := x.sp.Reveals[pos]
	f(&rv)
	x.sp.Reveals[pos] = rv
}

func c39FlipDigest(path []crypto.GenericDigest, r *mrand.Rand) bool {
	if len(path) == 0 {
		return false
	}
	i := r.Intn(len(path))
	if len(path[i]) == 0 {
		return false
	}
	d := append(crypto.GenericDigest{}, path[i]...)
	d[r.Intn(len(d))] ^= 1 << uint(r.Intn(8))
	path[i] = d
	return true
}

type c39Tamper struct {
	name  string
	apply func(x *c39T) bool // false: not applicable to this proof
}

// outcome only recorded, no verdict: TreeDepth of the two batch proofs is encoding metadata that the commitment root does
// not bind (merklearray accepts e.g. a single reveal at position 0 under any depth; see notes/C39.md)
var c39Soft = map[string]bool{"SigProofs depth+1": true, "PartProofs depth+1": true, "SigProofs depth-1": true, "PartProofs depth-1": true}

func c39OtherRound(round uint64) uint64 {
	if round >= 512 {
		return round - c39Lifetime
	}
	return round + c39Lifetime
}

var c39Catalog = []c39Tamper{
	{"message bit", func(x *c39T) bool { x.data[x.r.Intn(32)] ^= 1 << uint(x.r.Intn(8)); return true }},
	{"round in another key period", func(x *c39T) bool { x.round = c39OtherRound(x.round); return true }},
	{"SignedWeight+1", func(x *c39T) bool { x.sp.SignedWeight++; return x.negligible(x.sp.SignedWeight) }},
	{"SignedWeight-1", func(x *c39T) bool { x.sp.SignedWeight--; return x.negligible(x.sp.SignedWeight) }},
	{"SignedWeight doubled", func(x *c39T) bool { x.sp.SignedWeight *= 2; return x.negligible(x.sp.SignedWeight) }},
	{"reveal L+1", func(x *c39T) bool { x.setReveal(x.pick(), func(r *Reveal) { r.SigSlot.L++ }); return true }},
	{"reveal L-1", func(x *c39T) bool {
		p := x.pick()
		if x.sp.Reveals[p].SigSlot.L == 0 {
			return false
		}
		x.setReveal(p, func(r *Reveal) { r.SigSlot.L-- })
		return true
	}},
	{"reveal participant weight+1", func(x *c39T) bool { x.setReveal(x.pick(), func(r *Reveal) { r.Part.Weight++ }); return true }},
	{"reveal participant weight-1", func(x *c39T) bool { x.setReveal(x.pick(), func(r *Reveal) { r.Part.Weight-- }); return true }},
	{"reveal participant weight x1000", func(x *c39T) bool { x.setReveal(x.pick(), func(r *Reveal) { r.Part.Weight *= 1000 }); return true }},
	{"reveal participant key commitment bit", func(x *c39T) bool {
		x.setReveal(x.pick(), func(r *Reveal) { r.Part.PK.Commitment[x.r.Intn(len(r.Part.PK.Commitment))] ^= 1 })
		return true
	}},
	{"reveal participant key lifetime", func(x *c39T) bool { x.setReveal(x.pick(), func(r *Reveal) { r.Part.PK.KeyLifetime *= 2 }); return true }},
	{"falcon signature byte", func(x *c39T) bool {
		x.setReveal(x.pick(), func(r *Reveal) {
			s := append(crypto.FalconSignature{}, r.SigSlot.Sig.Signature...)
			s[2+x.r.Intn(len(s)-2)] ^= 1 << uint(x.r.Intn(8))
			r.SigSlot.Sig.Signature = s
		})
		return true
	}},
	{"falcon salt version byte", func(x *c39T) bool {
		x.setReveal(x.pick(), func(r *Reveal) {
			s := append(crypto.FalconSignature{}, r.SigSlot.Sig.Signature...)
			s[1]++
			r.SigSlot.Sig.Signature = s
		})
		return true
	}},
	{"falcon signature truncated", func(x *c39T) bool {
		x.setReveal(x.pick(), func(r *Reveal) {
			r.SigSlot.Sig.Signature = append(crypto.FalconSignature{}, r.SigSlot.Sig.Signature[:len(r.SigSlot.Sig.Signature)-1]...)
		})
		return true
	}},
	{"MerkleSignatureSaltVersion+1", func(x *c39T) bool { x.sp.MerkleSignatureSaltVersion++; return true }},
	{"signature key index", func(x *c39T) bool { x.setReveal(x.pick(), func(r *Reveal) { r.SigSlot.Sig.VectorCommitmentIndex ^= 1 }); return true }},
	{"signature key-path digest", func(x *c39T) bool {
		ok := false
		x.setReveal(x.pick(), func(r *Reveal) {
			p := append([]crypto.GenericDigest{}, r.SigSlot.Sig.Proof.Path...)
			ok = c39FlipDigest(p, x.r)
			r.SigSlot.Sig.Proof.Path = p
		})
		return ok
	}},
	{"signature key-path depth", func(x *c39T) bool { x.setReveal(x.pick(), func(r *Reveal) { r.SigSlot.Sig.Proof.TreeDepth++ }); return true }},
	{"ephemeral verifying key byte", func(x *c39T) bool {
		x.setReveal(x.pick(), func(r *Reveal) { r.SigSlot.Sig.VerifyingKey.PublicKey[1+x.r.Intn(1000)] ^= 1 << uint(x.r.Intn(8)) })
		return true
	}},
	{"signature of another identity", func(x *c39T) bool {
		p := x.pick()
		mine := x.b.c.Ident[p]
		other := (mine + 1 + x.r.Intn(c39PoolSize()-1)) % c39PoolSize()
		sig, err := c39Ident(other).sign(x.b.c.Round, x.b.c.Data[:])
		if err != nil {
			return false
		}
		x.setReveal(p, func(r *Reveal) { r.SigSlot.Sig = sig })
		return true
	}},
	{"own signature on another message", func(x *c39T) bool {
		p := x.pick()
		d := x.b.c.Data
		d[0] ^= 0x80
		sig, err := c39Ident(x.b.c.Ident[p]).sign(x.b.c.Round, d[:])
		if err != nil {
			return false
		}
		x.setReveal(p, func(r *Reveal) { r.SigSlot.Sig = sig })
		return true
	}},
	{"own signature from another key period", func(x *c39T) bool {
		p := x.pick()
		o := c39OtherRound(x.b.c.Round)
		if o/c39Lifetime == x.b.c.Round/c39Lifetime {
			return false
		}
		sig, err := c39Ident(x.b.c.Ident[p]).sign(o, x.b.c.Data[:])
		if err != nil {
			return false
		}
		x.setReveal(p, func(r *Reveal) { r.SigSlot.Sig = sig })
		return true
	}},
	{"empty signature slot", func(x *c39T) bool {
		x.setReveal(x.pick(), func(r *Reveal) { r.SigSlot.Sig = merklesignature.Signature{} })
		return true
	}},
	{"SigProofs digest", func(x *c39T) bool {
		p := append([]crypto.GenericDigest{}, x.sp.SigProofs.Path...)
		ok := c39FlipDigest(p, x.r)
		x.sp.SigProofs.Path = p
		return ok
	}},
	{"PartProofs digest", func(x *c39T) bool {
		p := append([]crypto.GenericDigest{}, x.sp.PartProofs.Path...)
		ok := c39FlipDigest(p, x.r)
		x.sp.PartProofs.Path = p
		return ok
	}},
	{"SigProofs digest dropped", func(x *c39T) bool {
		if len(x.sp.SigProofs.Path) == 0 {
			return false
		}
		x.sp.SigProofs.Path = append([]crypto.GenericDigest{}, x.sp.SigProofs.Path[:len(x.sp.SigProofs.Path)-1]...)
		return true
	}},
	{"PartProofs digest dropped", func(x *c39T) bool {
		if len(x.sp.PartProofs.Path) == 0 {
			return false
		}
		x.sp.PartProofs.Path = append([]crypto.GenericDigest{}, x.sp.PartProofs.Path[1:]...)
		return true
	}},
	{"SigProofs depth+1", func(x *c39T) bool { x.sp.SigProofs.TreeDepth++; return true }},
	{"PartProofs depth+1", func(x *c39T) bool { x.sp.PartProofs.TreeDepth++; return true }},
	{"SigProofs depth-1", func(x *c39T) bool {
		if x.sp.SigProofs.TreeDepth == 0 {
			return false
		}
		x.sp.SigProofs.TreeDepth--
		return true
	}},
	{"PartProofs depth-1", func(x *c39T) bool {
		if x.sp.PartProofs.TreeDepth == 0 {
			return false
		}
		x.sp.PartProofs.TreeDepth--
		return true
	}},
	{"SigProofs hash type", func(x *c39T) bool { x.sp.SigProofs.HashFactory.HashType = crypto.Sha512_256; return true }},
	{"PartProofs hash type", func(x *c39T) bool { x.sp.PartProofs.HashFactory.HashType = crypto.Sha256; return true }},
	{"SigCommit bit", func(x *c39T) bool {
		d := append(crypto.GenericDigest{}, x.sp.SigCommit...)
		d[x.r.Intn(len(d))] ^= 1 << uint(x.r.Intn(8))
		x.sp.SigCommit = d
		return true
	}},
	{"position -> another revealed position", func(x *c39T) bool {
		if len(x.pos) < 2 {
			return false
		}
		j := x.r.Intn(len(x.sp.PositionsToReveal))
		cur := x.sp.PositionsToReveal[j]
		for _, k := range x.r.Perm(len(x.pos)) {
			if x.pos[k] != cur {
				x.sp.PositionsToReveal[j] = x.pos[k]
				return true
			}
		}
		return false
	}},
	{"position -> unrevealed position", func(x *c39T) bool {
		j := x.r.Intn(len(x.sp.PositionsToReveal))
		x.sp.PositionsToReveal[j] = uint64(len(x.b.parts) + 3)
		return true
	}},
	{"positions truncated by 2", func(x *c39T) bool {
		// the honest count is minimal or minimal+1 (C38), so two fewer is below the verifier's bound
		if len(x.sp.PositionsToReveal) < 3 {
			return false
		}
		x.sp.PositionsToReveal = x.sp.PositionsToReveal[:len(x.sp.PositionsToReveal)-2]
		return true
	}},
	{"positions halved", func(x *c39T) bool {
		if len(x.sp.PositionsToReveal) < 6 {
			return false
		}
		x.sp.PositionsToReveal = x.sp.PositionsToReveal[:len(x.sp.PositionsToReveal)/2]
		return true
	}},
	{"positions emptied", func(x *c39T) bool { x.sp.PositionsToReveal = nil; return true }},
	{"reveal dropped", func(x *c39T) bool { delete(x.sp.Reveals, x.pick()); return true }},
	{"reveal duplicated under a new position", func(x *c39T) bool {
		np := uint64(0)
		for {
			if _, ok := x.sp.Reveals[np]; !ok {
				break
			}
			np++
		}
		x.sp.Reveals[np] = x.sp.Reveals[x.pick()]
		return true
	}},
	{"two reveals swapped", func(x *c39T) bool {
		if len(x.pos) < 2 {
			return false
		}
		k := x.r.Perm(len(x.pos))
		a, b := x.pos[k[0]], x.pos[k[1]]
		x.sp.Reveals[a], x.sp.Reveals[b] = x.sp.Reveals[b], x.sp.Reveals[a]
		return true
	}},
	{"two reveals' participants swapped", func(x *c39T) bool {
		if len(x.pos) < 2 {
			return false
		}
		k := x.r.Perm(len(x.pos))
		a, b := x.pos[k[0]], x.pos[k[1]]
		ra, rb := x.sp.Reveals[a], x.sp.Reveals[b]
		if ra.Part == rb.Part {
			return false
		}
		ra.Part, rb.Part = rb.Part, ra.Part
		x.sp.Reveals[a], x.sp.Reveals[b] = ra, rb
		return true
	}},
	{"verifier: participants commitment bit", func(x *c39T) bool {
		d := append(crypto.GenericDigest{}, x.partcom...)
		d[x.r.Intn(len(d))] ^= 1 << uint(x.r.Intn(8))
		x.partcom = d
		return true
	}},
	{"verifier: commitment of participants with one weight changed", func(x *c39T) bool {
		parts := append([]basics.Participant{}, x.b.parts...)
		parts[x.pick()].Weight += 5
		tree, err := merklearray.BuildVectorCommitmentTree(basics.ParticipantsArray(parts), crypto.HashFactory{HashType: HashType})
		if err != nil {
			return false
		}
		x.partcom = tree.Root()
		return true
	}},
	{"verifier: proven weight raised to the signed weight", func(x *c39T) bool { x.pw = x.sp.SignedWeight; return true }},
	{"verifier: proven weight doubled past the signed weight", func(x *c39T) bool {
		if x.sp.SignedWeight > 1<<62 {
			return false
		}
		x.pw = 2 * x.sp.SignedWeight
		return true
	}},
}

// c39Coins recomputes the Fiat-Shamir coins of a proof independently of coinGenerator.go: own seed serialisation, own
// SHAKE256 context, rejection sampling in uint64 arithmetic (accept z iff z < floor(2^64/sw)*sw, coin = z mod sw).
func c39Coins(partcom []byte, lnProvenWeight uint64, sigcom []byte, sw uint64, data MessageHash, n int) []uint64 {
	b := []byte("spc")
	b = append(b, 0)
	b = append(b, partcom...)
	var u [8]byte
	binary.LittleEndian.PutUint64(u[:], lnProvenWeight)
	b = append(b, u[:]...)
	b = append(b, sigcom...)
	binary.LittleEndian.PutUint64(u[:], sw)
	b = append(b, u[:]...)
	b = append(b, data[:]...)
	shk := sha3.NewShake256()
	shk.Write(b)
	rem := (math.MaxUint64%sw + 1) % sw // 2^64 mod sw
	coins := make([]uint64, 0, n)
	for len(coins) < n {
		var z8 [8]byte
		shk.Read(z8[:])
		z := binary.LittleEndian.Uint64(z8[:])
		if z <= math.MaxUint64-rem {
			coins = append(coins, z%sw)
		}
	}
	return coins
}

func c39Verify(x *c39T) error {
	v, err := MkVerifier(x.partcom, x.pw, x.st)
	if err != nil {
		return err
	}
	return v.Verify(basics.Round(x.round), x.data, x.sp)
}

var c39TamperCursor int

func TestVerif_C39_Proofs(t *testing.T) {
	vk := vkBegin(t, "C39")
	vk.Rule("4..40 participants with cached real Falcon/merkle-signature identities (3 key periods each), weights equal/small-with-zeros/whale/stake-like, strength target 8/64/256, rounds in three key periods; signer subsets comfortably above (>= 2x), just above (+1..3), equal to and below provenWeight; each valid proof is then tampered field by field (rotating through the whole catalogue); non-trivial = a valid proof was produced and verified; distinct by participants+signers+message")
	vk.Assume("Falcon keys come from fixed seeds (verdicts do not depend on key bits); honest reveal count is minimal or minimal+1 (C38), so dropping two positions must be rejected")
	perProof := vkN(10, len(c39Catalog))
	rapid.Check(t, func(t *rapid.T) {
		c := c39GenCase(t)
		b, err := c39Build(c, c.ST)
		if err != nil {
			t.Fatalf("building the honest prover failed: %v", err)
		}
		vk.Label("scenario=" + c.Scenario)
		vk.Label("weights=" + c.Profile)
		fp := fmt.Sprintf("%v/%v/%v/%d/%d/%d/%x", c.Weights, c.Ident, c.Signs, c.PW, c.ST, c.Round, c.Data[:6])
		if b.prover.SignedWeight() != b.signed {
			t.Fatalf("prover signed weight %d, sum of signer weights %d", b.prover.SignedWeight(), b.signed)
		}
		if b.signed <= c.PW {
			// not enough weight: never ready, never a proof
			if b.prover.Ready() {
				t.Fatalf("prover Ready with signed %d <= proven %d", b.signed, c.PW)
			}
			sp, err := b.prover.CreateProof()
			if err == nil {
				t.Fatalf("CreateProof produced a proof (%d positions) with signed %d <= proven %d", len(sp.PositionsToReveal), b.signed, c.PW)
			}
			if !errors.Is(err, ErrSignedWeightLessThanProvenWeight) {
				t.Fatalf("CreateProof with signed %d <= proven %d failed with an unexpected error: %v", b.signed, c.PW, err)
			}
			vk.Case(false, fp)
			return
		}
		if !b.prover.Ready() {
			t.Fatalf("prover not Ready with signed %d > proven %d", b.signed, c.PW)
		}
		sp, err := b.prover.CreateProof()
		if err != nil {
			lowRatio := b.signed/2 < c.PW // signed < 2*proven (no overflow)
			if lowRatio && (errors.Is(err, ErrTooManyReveals) || errors.Is(err, ErrNegativeNumOfRevealsEquation)) {
				vk.Label("prover refused: ratio too small for MaxReveals")
				vk.Case(false, fp)
				return
			}
			t.Fatalf("CreateProof failed with signed %d > proven %d (strength %d): %v", b.signed, c.PW, c.ST, err)
		}
		// structural sanity of the honest proof
		if sp.SignedWeight != b.signed {
			t.Fatalf("proof SignedWeight %d != %d", sp.SignedWeight, b.signed)
		}
		for pos, rv := range sp.Reveals {
			if pos >= uint64(len(c.Signs)) || !c.Signs[pos] {
				t.Fatalf("proof reveals position %d which did not sign", pos)
			}
			if rv.Part != b.parts[pos] {
				t.Fatalf("reveal %d carries another participant", pos)
			}
		}
		base := &c39T{sp: sp, b: b, round: c.Round, data: c.Data, partcom: b.partcom, pw: c.PW, st: c.ST}
		if err := c39Verify(base); err != nil {
			t.Fatalf("honest proof rejected (signed %d, proven %d, strength %d, %d positions, %d reveals): %v", b.signed, c.PW, c.ST, len(sp.PositionsToReveal), len(sp.Reveals), err)
		}
		cp, err := c39Copy(sp)
		if err != nil {
			t.Fatalf("proof does not survive encode/decode: %v", err)
		}
		base.sp = cp
		if err := c39Verify(base); err != nil {
			t.Fatalf("honest proof rejected after encode/decode: %v", err)
		}
		vk.Labelf("reveals %d..%d", len(sp.Reveals)/10*10, len(sp.Reveals)/10*10+9)
		vk.Labelf("positions %d..%d", len(sp.PositionsToReveal)/100*100, len(sp.PositionsToReveal)/100*100+99)
		if b.signed/2 < c.PW {
			vk.Label("valid proof with ratio < 2")
		}

		var pos []uint64
		for p := range sp.Reveals {
			pos = append(pos, p)
		}
		sort.Slice(pos, func(i, j int) bool { return pos[i] < pos[j] })
		r := mrand.New(mrand.NewSource(c.Seed ^ 0x5eed))
		applied := 0
		for tries := 0; applied < perProof && tries < 3*len(c39Catalog); tries++ {
			tm := c39Catalog[c39TamperCursor%len(c39Catalog)]
			c39TamperCursor++
			cp, err := c39Copy(sp)
			if err != nil {
				t.Fatalf("copy: %v", err)
			}
			x := &c39T{sp: cp, b: b, round: c.Round, data: c.Data, partcom: b.partcom, pw: c.PW, st: c.ST, r: r, pos: pos}
			if !tm.apply(x) {
				vk.Label("n/a: " + tm.name)
				continue
			}
			if c39Soft[tm.name] {
				if err := c39Verify(x); err == nil {
					vk.Label("unbound metadata accepted: " + tm.name)
				} else {
					vk.Label("unbound metadata rejected: " + tm.name)
				}
				continue
			}
			applied++
			vk.Label("tamper: " + tm.name)
			vk.Add("tampered_proofs", 1)
			if err := c39Verify(x); err == nil {
				t.Fatalf("tampered proof accepted: %q (signed %d, proven %d, strength %d, round %d, %d participants, %d positions, %d reveals)",
					tm.name, b.signed, c.PW, c.ST, c.Round, len(b.parts), len(sp.PositionsToReveal), len(sp.Reveals))
			}
		}

		// strength downgrade: the same signatures proven with a weaker target must not satisfy the real verifier
		if c.ST >= 64 && r.Intn(3) == 0 {
			weak, err := c39Build(c, c.ST/8)
			if err != nil {
				t.Fatalf("weak prover: %v", err)
			}
			wsp, err := weak.prover.CreateProof()
			if err == nil && len(wsp.PositionsToReveal)+2 <= len(sp.PositionsToReveal) {
				x := &c39T{sp: wsp, b: b, round: c.Round, data: c.Data, partcom: b.partcom, pw: c.PW, st: c.ST}
				vk.Label("tamper: strength downgrade")
				vk.Add("tampered_proofs", 1)
				if err := c39Verify(x); err == nil {
					t.Fatalf("a proof built for strength %d (%d positions) is accepted by a verifier for strength %d (honest: %d positions)", c.ST/8, len(wsp.PositionsToReveal), c.ST, len(sp.PositionsToReveal))
				}
				x.st = c.ST / 8
				if err := c39Verify(x); err != nil {
					t.Fatalf("the weaker proof is not even valid for its own strength: %v", err)
				}
			}
		}
		// --- coin / slot binding decided by the harness from the signed-slot table, independently of the verifier:
		// coin j must lie in [L, L+Weight) of the slot PositionsToReveal[j] claims. The honest proof must satisfy it, and
		// re-pointing entry j at the neighbouring signed slot (whose half-open range ends exactly at, or starts right after,
		// the coin) must be rejected.
		{
			lnpw, err := LnIntApproximation(c.PW)
			if err != nil {
				t.Fatalf("ln: %v", err)
			}
			coins := c39Coins(b.partcom, lnpw, sp.SigCommit, sp.SignedWeight, c.Data, len(sp.PositionsToReveal))
			slotL := make([]uint64, len(c.Weights))
			var signers []int
			var acc uint64
			for i, w := range c.Weights {
				slotL[i] = acc
				if c.Signs[i] {
					acc += w
					signers = append(signers, i)
				}
			}
			inSlot := func(coin uint64, q int) bool { return c.Signs[q] && coin >= slotL[q] && coin-slotL[q] < c.Weights[q] }
			type sub struct {
				j, q int
				kind string
			}
			var boundary, other []sub
			for j, coin := range coins {
				pos := int(sp.PositionsToReveal[j])
				if pos >= len(c.Weights) || !inSlot(coin, pos) {
					t.Fatalf("honest proof: coin #%d = %d is outside the slot [%d,%d+%d) of the position %d it reveals (signed weight %d)", j, coin, slotL[c39MinInt(pos, len(slotL)-1)], slotL[c39MinInt(pos, len(slotL)-1)], c.Weights[c39MinInt(pos, len(c.Weights)-1)], pos, sp.SignedWeight)
				}
				k := sort.SearchInts(signers, pos)
				if k > 0 {
					q := signers[k-1]
					if _, ok := sp.Reveals[uint64(q)]; ok {
						if coin == slotL[q]+c.Weights[q] {
							boundary = append(boundary, sub{j, q, "coin == L+Weight of the lower neighbour"})
						} else {
							other = append(other, sub{j, q, "lower neighbour"})
						}
					}
				}
				if k+1 < len(signers) {
					q := signers[k+1]
					if _, ok := sp.Reveals[uint64(q)]; ok {
						if coin+1 == slotL[q] {
							boundary = append(boundary, sub{j, q, "coin == L-1 of the upper neighbour"})
						} else {
							other = append(other, sub{j, q, "upper neighbour"})
						}
					}
				}
			}
			r.Shuffle(len(boundary), func(i, j int) { boundary[i], boundary[j] = boundary[j], boundary[i] })
			r.Shuffle(len(other), func(i, j int) { other[i], other[j] = other[j], other[i] })
			budget := vkN(8, 40)
			if len(other) > 2 {
				other = other[:2]
			}
			// alternate the two kinds of boundary substitution, then a couple of non-boundary ones
			var lowerB, upperB, cands []sub
			for _, sb := range boundary {
				if sb.kind == "coin == L+Weight of the lower neighbour" {
					lowerB = append(lowerB, sb)
				} else {
					upperB = append(upperB, sb)
				}
			}
			for i := 0; i < len(lowerB) || i < len(upperB); i++ {
				if i < len(lowerB) {
					cands = append(cands, lowerB[i])
				}
				if i < len(upperB) {
					cands = append(cands, upperB[i])
				}
			}
			cands = append(cands, other...)
			if len(boundary) > 0 {
				vk.Label("substitution: boundary coins available")
			}
			for _, sb := range cands {
				if budget == 0 {
					break
				}
				budget--
				if inSlot(coins[sb.j], sb.q) {
					t.Fatalf("harness error: substituted slot contains the coin")
				}
				cp, err := c39Copy(sp)
				if err != nil {
					t.Fatalf("copy: %v", err)
				}
				cp.PositionsToReveal[sb.j] = uint64(sb.q)
				x := &c39T{sp: cp, b: b, round: c.Round, data: c.Data, partcom: b.partcom, pw: c.PW, st: c.ST}
				vk.Label("substitution: " + sb.kind)
				vk.Add("tampered_proofs", 1)
				if err := c39Verify(x); err == nil {
					t.Fatalf("position entry #%d re-pointed from slot %d to slot %d [L=%d, weight %d] is accepted although coin %d is outside [L, L+weight) (%s; weights profile %s, signed weight %d, %d positions)",
						sb.j, sp.PositionsToReveal[sb.j], sb.q, slotL[sb.q], c.Weights[sb.q], coins[sb.j], sb.kind, c.Profile, sp.SignedWeight, len(sp.PositionsToReveal))
				}
			}
		}
		// a prover without the participants' keys: every slot carries a well-formed but invalid signature, committed consistently
		if r.Intn(2) == 0 {
			kinds := []string{"signatures over another message", "signatures of other identities", "signatures from another key period"}
			k := r.Intn(len(kinds))
			forged, err := c39BuildWith(c, c.ST, func(i int) (merklesignature.Signature, error) {
				switch k {
				case 0:
					d := c.Data
					d[31] ^= 1
					return c39Ident(c.Ident[i]).sign(c.Round, d[:])
				case 1:
					return c39Ident((c.Ident[i]+1)%c39PoolSize()).sign(c.Round, c.Data[:])
				default:
					return c39Ident(c.Ident[i]).sign(c39OtherRound(c.Round), c.Data[:])
				}
			})
			if err != nil {
				t.Fatalf("forging prover (%s): %v", kinds[k], err)
			}
			fsp, err := forged.prover.CreateProof()
			if err != nil {
				t.Fatalf("forging prover (%s) could not even build: %v", kinds[k], err)
			}
			vk.Label("forged prover: " + kinds[k])
			vk.Add("tampered_proofs", 1)
			x := &c39T{sp: fsp, b: b, round: c.Round, data: c.Data, partcom: b.partcom, pw: c.PW, st: c.ST}
			if err := c39Verify(x); err == nil {
				t.Fatalf("a proof whose slots all carry %s is accepted (signed %d, proven %d, strength %d, round %d)", kinds[k], b.signed, c.PW, c.ST, c.Round)
			}
		}
		vk.Case(true, fp)
		if vk.WantSample(true) {
			vk.Sample(true, map[string]interface{}{"scenario": c.Scenario, "participants": len(c.Weights), "signedWeight": b.signed, "provenWeight": c.PW,
				"strengthTarget": c.ST, "round": c.Round, "positions": len(sp.PositionsToReveal), "reveals": len(sp.Reveals), "tamperingsApplied": applied})
		}
	})
}

func c39MinInt(a, b int) int {
	if a < b {
		return a
	}
	return b
}
