package stateproof

// C38 — State proof prover and verifier agree on the required reveals.
//
// Oracles (all independent of weights.go / coinGenerator.go):
//   * the documented integer inequality re-derived in big.Rat form
//         n * ( 2^16 * 3(z^2-1)/(z^2+4z+1) + d*(T-1) - P )  >=  st * T        z = signedWeight / 2^d
//     (own constants, own floor(log2), no shared sub-expressions with the implementation);
//   * the real-valued security statement it is documented to imply,
//         n * ( ln(signedWeight) - P/2^16 ) >= st * ln 2
//     evaluated with a 320-bit atanh series (only the "accepted => holds" direction, which is a theorem);
//   * the documented rejection-sampling coin stream re-implemented with uint64 arithmetic over an own SHAKE256 context
//     and an own serialisation of the seed.

import (
	"encoding/binary"
	"fmt"
	"math"
	"math/big"
	"testing"

	"golang.org/x/crypto/sha3"
	"pgregory.net/rapid"

	"github.com/algorand/go-algorand/crypto"
)

const (
	c38T          = 45427 // ceil(2^16 * ln 2), re-checked against the series below
	c38B          = 16
	c38MaxReveals = 640
	c38Prec       = 320
)

var (
	c38One     = big.NewInt(1)
	c38Two64   = new(big.Int).Lsh(big.NewInt(1), 64)
	c38RatT    = new(big.Rat).SetInt64(c38T)
	c38Rat2b   = new(big.Rat).SetInt64(1 << c38B)
	c38Ln2     *big.Float
	c38StSet   = []uint64{1, 64, 256, 1 << 16, 1 << 32}
	c38EpsReal = new(big.Float).SetMantExp(big.NewFloat(1), -200)
)

func c38U(x uint64) *big.Int { return new(big.Int).SetUint64(x) }

// floor(log2(x)) by repeated halving (x > 0)
func c38Log2(x uint64) uint {
	d := uint(0)
	for x > 1 {
		x >>= 1
		d++
	}
	return d
}

// 2*atanh(u) = 2*(u + u^3/3 + u^5/5 + ...), 0 <= u <= 1/3
func c38TwoAtanh(u *big.Float) *big.Float {
	sum := new(big.Float).SetPrec(c38Prec)
	u2 := new(big.Float).SetPrec(c38Prec).Mul(u, u)
	pow := new(big.Float).SetPrec(c38Prec).Set(u)
	for k := 0; k < 106; k++ { // (1/9)^106 < 2^-335
		term := new(big.Float).SetPrec(c38Prec).Quo(pow, new(big.Float).SetPrec(c38Prec).SetInt64(int64(2*k+1)))
		sum.Add(sum, term)
		pow.Mul(pow, u2)
	}
	return sum.Mul(sum, new(big.Float).SetPrec(c38Prec).SetInt64(2))
}

func c38InitLn2() {
	if c38Ln2 != nil {
		return
	}
	third := new(big.Float).SetPrec(c38Prec).Quo(new(big.Float).SetPrec(c38Prec).SetInt64(1), new(big.Float).SetPrec(c38Prec).SetInt64(3))
	c38Ln2 = c38TwoAtanh(third)
}

// ln(x) to ~300 bits, x >= 1
func c38Ln(x uint64) *big.Float {
	c38InitLn2()
	d := c38Log2(x)
	z := new(big.Float).SetPrec(c38Prec).SetInt(c38U(x))
	z.SetMantExp(z, -int(d)) // z in [1,2)
	one := new(big.Float).SetPrec(c38Prec).SetInt64(1)
	u := new(big.Float).SetPrec(c38Prec).Quo(new(big.Float).SetPrec(c38Prec).Sub(z, one), new(big.Float).SetPrec(c38Prec).Add(z, one))
	r := c38TwoAtanh(u)
	return r.Add(r, new(big.Float).SetPrec(c38Prec).Mul(c38Ln2, new(big.Float).SetPrec(c38Prec).SetInt64(int64(d))))
}

// c38LnLower = 2^16 * 3(z^2-1)/(z^2+4z+1) + d*(T-1): the documented scaled lower approximation of ln(signedWeight)
func c38LnLower(sw uint64) *big.Rat {
	d := c38Log2(sw)
	z := new(big.Rat).SetFrac(c38U(sw), new(big.Int).Lsh(c38One, d))
	z2 := new(big.Rat).Mul(z, z)
	num := new(big.Rat).Sub(z2, new(big.Rat).SetInt64(1))
	num.Mul(num, new(big.Rat).SetInt64(3))
	den := new(big.Rat).Add(z2, new(big.Rat).Mul(new(big.Rat).SetInt64(4), z))
	den.Add(den, new(big.Rat).SetInt64(1))
	r := new(big.Rat).Quo(num, den)
	r.Mul(r, c38Rat2b)
	return r.Add(r, new(big.Rat).SetInt64(int64(d)*(c38T-1)))
}

// slope = lnLower(sw) - P
func c38Slope(sw, p uint64) *big.Rat {
	return new(big.Rat).Sub(c38LnLower(sw), new(big.Rat).SetInt(c38U(p)))
}

// the documented inequality for n reveals
func c38Ineq(slope *big.Rat, n uint64, st uint64) bool {
	lhs := new(big.Rat).Mul(new(big.Rat).SetInt(c38U(n)), slope)
	rhs := new(big.Rat).Mul(new(big.Rat).SetInt(c38U(st)), c38RatT)
	return lhs.Cmp(rhs) >= 0
}

// minimal n satisfying the inequality, nil when none exists (slope <= 0 and st > 0)
func c38MinN(slope *big.Rat, st uint64) *big.Int {
	if slope.Sign() <= 0 {
		return nil
	}
	q := new(big.Rat).Quo(new(big.Rat).Mul(new(big.Rat).SetInt(c38U(st)), c38RatT), slope)
	n, r := new(big.Int).QuoRem(q.Num(), q.Denom(), new(big.Int))
	if r.Sign() != 0 {
		n.Add(n, c38One)
	}
	return n
}

// accepted => n*(ln sw - P/2^16) >= st*ln2 ; returns the signed margin lhs-rhs
func c38RealMargin(lnsw *big.Float, p, n, st uint64) *big.Float {
	pp := new(big.Float).SetPrec(c38Prec).SetInt(c38U(p))
	pp.SetMantExp(pp, -c38B)
	lhs := new(big.Float).SetPrec(c38Prec).Sub(lnsw, pp)
	lhs.Mul(lhs, new(big.Float).SetPrec(c38Prec).SetInt(c38U(n)))
	rhs := new(big.Float).SetPrec(c38Prec).Mul(c38Ln2, new(big.Float).SetPrec(c38Prec).SetInt(c38U(st)))
	return lhs.Sub(lhs, rhs)
}

// splitmix64: rapid biases integer draws towards small values; the weights here need uniformly spread widths, so the
// generators draw one entropy word from rapid and expand it.
type c38Mix struct{ s uint64 }

func (m *c38Mix) next() uint64 {
	m.s += 0x9e3779b97f4a7c15
	z := m.s
	z = (z ^ (z >> 30)) * 0xbf58476d1ce4e5b9
	z = (z ^ (z >> 27)) * 0x94d049bb133111eb
	return z ^ (z >> 31)
}
func (m *c38Mix) upto(n uint64) uint64 { return m.next() % (n + 1) } // [0,n], n < 2^64-1

// boundary-biased signed weights (>= 1)
func c38SW() *rapid.Generator[uint64] {
	return rapid.Custom(func(t *rapid.T) uint64 {
		m := &c38Mix{s: rapid.Uint64().Draw(t, "swEntropy")}
		switch m.upto(19) {
		case 0:
			return 1 + m.upto(63)
		case 1, 2:
			return uint64(1) << uint(m.upto(63))
		case 3, 4:
			k := 1 + m.upto(62)
			return (uint64(1) << uint(k)) + m.upto(2) - 1
		case 5:
			return math.MaxUint64 - m.upto(8)
		case 6, 7, 8:
			// realistic online stake, microalgos
			return uint64(1e14) + m.upto(uint64(1e16-1e14))
		case 9, 10:
			// just below a power of two: z close to 2 (largest Pade error)
			k := 3 + m.upto(61)
			var top uint64 = math.MaxUint64
			if k < 64 {
				top = (uint64(1) << uint(k)) - 1
			}
			return top - m.upto(top>>8)
		default:
			// exactly k significant bits, k uniform in 1..64
			k := 1 + m.upto(63)
			return (uint64(1) << uint(k-1)) | (m.next() >> uint(65-k) << 0 & ((uint64(1) << uint(k-1)) - 1))
		}
	})
}

// sub-expressions of the implementation's integer form, derived here only to *construct* inputs
// (floor(x/y) = floor(2^16*pade)); not used by any verdict.
func c38FloorLnLower(sw uint64) *big.Int {
	l := c38LnLower(sw)
	return new(big.Int).Quo(l.Num(), l.Denom()) // l >= 0
}

type c38Case struct {
	Kind string
	SW   uint64
	P    uint64
	ST   uint64
	PW   uint64 // proven weight P was derived from (0 = raw P)
}

func c38ClampP(v *big.Int) uint64 {
	if v.Sign() < 0 {
		return 0
	}
	if !v.IsUint64() {
		return math.MaxUint64
	}
	return v.Uint64()
}

// solve f(z) = 3*2^16*(z^2-1)/(z^2+4z+1) = k for z in [1,2): z = (2k + sqrt(3k^2 + A^2))/(A-k), A = 3*2^16
// returns ceil(z*2^d): the smallest signedWeight with floor(log2)=d whose x/y is >= k (then x/y-k < 2^(16-d)).
func c38TruncSW(k int64, d uint) uint64 {
	const A = 3 << 16
	kf := new(big.Float).SetPrec(400).SetInt64(k)
	af := new(big.Float).SetPrec(400).SetInt64(A)
	s := new(big.Float).SetPrec(400).Mul(kf, kf)
	s.Mul(s, new(big.Float).SetPrec(400).SetInt64(3))
	s.Add(s, new(big.Float).SetPrec(400).Mul(af, af))
	s.Sqrt(s)
	s.Add(s, new(big.Float).SetPrec(400).Mul(kf, new(big.Float).SetPrec(400).SetInt64(2)))
	s.Quo(s, new(big.Float).SetPrec(400).Sub(af, kf))
	s.SetMantExp(s, int(d))
	i, acc := s.Int(nil)
	if acc != big.Exact {
		i.Add(i, c38One)
	}
	if !i.IsUint64() {
		return 0
	}
	return i.Uint64()
}

func c38GenCase(t *rapid.T) c38Case {
	c := c38Case{}
	// 256 is the consensus value; 2^16 and 2^32 can never be met within MaxReveals (refusal paths only)
	switch w := rapid.IntRange(0, 19).Draw(t, "stKind"); {
	case w <= 8:
		c.ST = 256
	case w <= 11:
		c.ST = 64
	case w <= 13:
		c.ST = 1
	case w <= 16:
		c.ST = rapid.Uint64Range(1, 600).Draw(t, "stSmall")
	case w == 17:
		c.ST = 1 << 16
	default:
		c.ST = 1 << 32
	}
	kind := rapid.IntRange(0, 11).Draw(t, "kind")
	switch {
	case kind <= 2:
		c.Kind = "ratio"
		c.SW = c38SW().Draw(t, "sw")
		// provenWeight = sw * r/1000, r in [20, 999]
		r := rapid.Uint64Range(20, 999).Draw(t, "r")
		pw := new(big.Int).Mul(c38U(c.SW), c38U(r))
		pw.Quo(pw, big.NewInt(1000))
		c.PW = pw.Uint64()
		if c.PW == 0 {
			c.PW = 1
		}
	case kind == 3:
		c.Kind = "close"
		c.SW = c38SW().Draw(t, "sw")
		delta := rapid.Uint64Range(1, 3).Draw(t, "delta")
		if rapid.Bool().Draw(t, "rel") {
			delta = c.SW>>uint(rapid.IntRange(4, 20).Draw(t, "sh")) + 1
		}
		if delta >= c.SW {
			c.PW = 1
		} else {
			c.PW = c.SW - delta
		}
	case kind <= 6:
		// P chosen so that the minimal reveal count lands next to a drawn target (covers 1..MaxReveals and the 640/641 edge)
		c.Kind = "target-n"
		c.SW = c38SW().Draw(t, "sw")
		nt := rapid.Uint64Range(1, 644).Draw(t, "nTarget")
		if rapid.IntRange(0, 3).Draw(t, "edge") == 0 {
			nt = rapid.Uint64Range(636, 644).Draw(t, "nEdge")
		}
		need := new(big.Int).Mul(c38U(c.ST), big.NewInt(c38T))
		need.Add(need, c38U(nt-1)).Quo(need, c38U(nt)) // ceil(st*T/nt)
		p := new(big.Int).Sub(c38FloorLnLower(c.SW), need)
		p.Add(p, big.NewInt(int64(rapid.IntRange(-1, 1).Draw(t, "dP"))))
		c.P = c38ClampP(p)
	case kind == 7:
		// denominator x + (w-P)*y tiny / zero / negative
		c.Kind = "near-singular"
		c.SW = c38SW().Draw(t, "sw")
		p := c38FloorLnLower(c.SW)
		p.Add(p, big.NewInt(int64(rapid.IntRange(-2, 2).Draw(t, "dP"))))
		c.P = c38ClampP(p)
	case kind == 8:
		// signedWeight = 2^d, P = w - T*g with g | st: the division in numReveals is exact (n = min+1)
		c.Kind = "pow2-exact"
		d := rapid.IntRange(1, 63).Draw(t, "d")
		c.SW = uint64(1) << uint(d)
		var divs []uint64
		for g := uint64(1); g <= c.ST && g <= 1024; g++ {
			if c.ST%g == 0 {
				divs = append(divs, g, c.ST/g)
			}
		}
		g := divs[rapid.IntRange(0, len(divs)-1).Draw(t, "g")]
		p := new(big.Int).Sub(big.NewInt(int64(d)*(c38T-1)), new(big.Int).Mul(big.NewInt(c38T), c38U(g)))
		c.P = c38ClampP(p)
	case kind == 9:
		c.Kind = "raw"
		c.SW = c38SW().Draw(t, "sw")
		switch rapid.IntRange(0, 5).Draw(t, "raw") {
		case 0:
			c.P = 0
		case 1:
			c.P = math.MaxUint64 - rapid.Uint64Range(0, 1).Draw(t, "m")
		case 2:
			c.P = rapid.Uint64Range(0, 64*c38T).Draw(t, "p")
		case 3:
			c.P = rapid.Uint64().Draw(t, "p64")
		default:
			// a proven weight above the signed weight (the verifier must still reject everything)
			c.PW = c.SW + rapid.Uint64Range(0, 5).Draw(t, "over")
			if c.PW < c.SW {
				c.PW = math.MaxUint64
			}
		}
	default:
		// x/y within st*T/2^64 above an integer and P = w + floor(x/y): the exact quotient is >= 2^64
		c.Kind = "trunc"
		d := uint(rapid.IntRange(50, 63).Draw(t, "d"))
		if c.ST >= 1<<16 {
			d = uint(rapid.IntRange(40, 63).Draw(t, "d2"))
		}
		k := rapid.Int64Range(1, 45000).Draw(t, "k")
		c.SW = c38TruncSW(k, d)
		if c.SW == 0 || c38Log2(c.SW) != d {
			c.SW = uint64(1)<<d + 1
		}
		p := c38FloorLnLower(c.SW)
		c.P = c38ClampP(p)
	}
	if c.PW != 0 {
		p, err := LnIntApproximation(c.PW)
		if err != nil {
			t.Fatalf("LnIntApproximation(%d) failed: %v", c.PW, err)
		}
		c.P = p
	}
	return c
}

func TestVerif_C38_Reveals(t *testing.T) {
	vk := vkBegin(t, "C38")
	vk.Rule("(signedWeight, lnProvenWeight, strengthTarget) built constructively: proven/signed ratios, provenWeight just below signedWeight, P solved so the minimal reveal count hits a drawn target (incl. 640/641), near-singular denominators (P = w+floor(x/y)+-2), exact-division powers of two, raw boundary P, and signedWeights whose x/y is within 2^-40 of an integer (quotient >= 2^64); non-trivial = prover produced a count (both sides of the verifier boundary probed) or the denominator is within one unit of zero; distinct by the triple")
	vk.Assume("math/big arithmetic; Pade bound ln z >= 3(z^2-1)/(z^2+4z+1) for z>=1 (proved in notes/C38.md) makes 'accepted => real inequality' a theorem")
	c38InitLn2()
	// own constant check: T = ceil(2^16 ln 2), T-1 <= 2^16 ln2
	{
		s := new(big.Float).SetPrec(c38Prec).SetMantExp(c38Ln2, c38B)
		if s.Cmp(new(big.Float).SetInt64(c38T)) > 0 || s.Cmp(new(big.Float).SetInt64(c38T-1)) < 0 {
			t.Fatalf("oracle constant T wrong")
		}
		if ln2IntApproximation != c38T || precisionBits != c38B || MaxReveals != c38MaxReveals {
			t.Fatalf("package constants differ from the documented ones: T=%d b=%d MaxReveals=%d", ln2IntApproximation, precisionBits, MaxReveals)
		}
	}
	rapid.Check(t, func(t *rapid.T) {
		c := c38GenCase(t)
		sw, p, st := c.SW, c.P, c.ST
		slope := c38Slope(sw, p)
		minN := c38MinN(slope, st)
		vk.Label("kind=" + c.Kind)
		vk.Labelf("sw bits %d..%d", (c38Log2(sw)/8)*8, (c38Log2(sw)/8)*8+7)
		if c.PW != 0 && c.PW >= sw {
			vk.Label("pw>=sw in kind=" + c.Kind)
		}

		lnSW := c38Ln(sw)
		var lnPW *big.Float
		if c.PW != 0 {
			lnPW = c38Ln(c.PW)
		}
		// --- LnIntApproximation bracket (documented: P/2^16 >= ln(provenWeight), P = ceil) up to float64 error
		if c.PW != 0 {
			l := new(big.Float).SetPrec(c38Prec).SetMantExp(lnPW, c38B)
			pf := new(big.Float).SetPrec(c38Prec).SetInt(c38U(p))
			tol := big.NewFloat(1.0 / (1 << 20))
			if new(big.Float).Add(pf, tol).Cmp(l) < 0 {
				t.Fatalf("LnIntApproximation(%d)=%d is below 2^16*ln = %s", c.PW, p, l.Text('f', 12))
			}
			if new(big.Float).Sub(pf, tol).Cmp(new(big.Float).Add(l, big.NewFloat(1))) > 0 {
				t.Fatalf("LnIntApproximation(%d)=%d is more than 1 above 2^16*ln = %s", c.PW, p, l.Text('f', 12))
			}
		}

		// --- prover side
		n, err := numReveals(sw, p, st)
		proverOK := err == nil
		if proverOK {
			if n > c38MaxReveals {
				t.Fatalf("numReveals(%d,%d,%d) = %d > MaxReveals", sw, p, st, n)
			}
			if verr := verifyWeights(sw, p, n, st); verr != nil {
				t.Fatalf("prover's choice rejected by the verifier: numReveals(%d,%d,%d)=%d, verifyWeights: %v", sw, p, st, n, verr)
			}
			if !c38Ineq(slope, n, st) {
				t.Fatalf("numReveals(%d,%d,%d)=%d violates the documented inequality (independent evaluation; minimal n = %v)", sw, p, st, n, minN)
			}
			switch {
			case minN != nil && minN.IsUint64() && minN.Uint64() == n:
				vk.Label("prover: n == minimal")
			case minN != nil && minN.IsUint64() && minN.Uint64()+1 == n:
				vk.Label("prover: n == minimal+1 (exact division)")
			default:
				vk.Label("prover: n > minimal+1")
			}
			if n >= 600 {
				vk.Label("prover: n in [600,640]")
			}
		} else {
			switch {
			case minN == nil:
				vk.Label("prover: refused, no n can satisfy (denominator <= 0)")
			case minN.Cmp(c38Two64) >= 0:
				vk.Label("prover: refused, exact quotient >= 2^64 (Uint64 truncation path)")
			case minN.Cmp(big.NewInt(c38MaxReveals)) > 0:
				vk.Label("prover: refused, minimal n > MaxReveals")
			default:
				vk.Label("prover: refused although minimal n <= MaxReveals (allowed: n=min+1 > 640)")
			}
		}

		// --- verifier side: probe counts around every boundary
		probes := []uint64{0, 1, 2, c38MaxReveals - 1, c38MaxReveals, c38MaxReveals + 1, 1000, math.MaxUint64,
			rapid.Uint64Range(0, c38MaxReveals).Draw(t, "probe")}
		if proverOK {
			probes = append(probes, n-1, n, n+1)
			if n >= 2 {
				probes = append(probes, n-2)
			}
		}
		if minN != nil && minN.IsUint64() {
			m := minN.Uint64()
			probes = append(probes, m, m+1)
			if m >= 1 {
				probes = append(probes, m-1)
			}
			if m >= 2 {
				probes = append(probes, m-2)
			}
		}
		accepted, rejected := 0, 0
		for _, np := range probes {
			verr := verifyWeights(sw, p, np, st)
			want := np <= c38MaxReveals && c38Ineq(slope, np, st)
			if verr == nil && !want {
				t.Fatalf("verifyWeights(%d,%d,n=%d,%d) accepted a reveal count that violates the documented inequality (minimal n = %v)", sw, p, np, st, minN)
			}
			if verr != nil && want {
				t.Fatalf("verifyWeights(%d,%d,n=%d,%d) rejected (%v) a count that satisfies the documented inequality (minimal n = %v)", sw, p, np, st, verr, minN)
			}
			if verr == nil {
				accepted++
				// theorem: accepted => n*(ln sw - P/2^16) >= st*ln2
				mg := c38RealMargin(lnSW, p, np, st)
				if mg.Cmp(new(big.Float).Neg(c38EpsReal)) < 0 {
					t.Fatalf("verifyWeights(%d,%d,n=%d,%d) accepted but n*(ln sw - P/2^16) - st*ln2 = %s < 0", sw, p, np, st, mg.Text('g', 20))
				}
				if c.PW != 0 && c.PW < sw {
					// end-to-end: (sw/pw)^n >= 2^st up to the float64 error of LnIntApproximation (< 2^-40 per reveal)
					lhs := new(big.Float).SetPrec(c38Prec).Sub(lnSW, lnPW)
					lhs.Mul(lhs, new(big.Float).SetInt(c38U(np)))
					rhs := new(big.Float).SetPrec(c38Prec).Mul(c38Ln2, new(big.Float).SetInt(c38U(st)))
					tol := new(big.Float).SetMantExp(new(big.Float).SetInt(c38U(np+1)), -40)
					if new(big.Float).Add(lhs, tol).Cmp(rhs) < 0 {
						t.Fatalf("accepted n=%d for signedWeight=%d provenWeight=%d st=%d but (sw/pw)^n < 2^st", np, sw, c.PW, st)
					}
				}
			} else {
				rejected++
			}
		}
		if accepted > 0 && rejected > 0 {
			vk.Label("verifier: both verdicts probed")
		} else if accepted == 0 {
			vk.Label("verifier: all probes rejected")
		}
		nearSing := new(big.Rat).Abs(slope).Cmp(new(big.Rat).SetInt64(1)) <= 0
		if nearSing {
			vk.Label("denominator within one unit of zero")
			if slope.Sign() > 0 {
				vk.Label("denominator tiny positive")
			}
		}
		if c.PW != 0 && c.PW >= sw {
			vk.Label("provenWeight >= signedWeight")
			if proverOK || accepted > 0 {
				// the Pade form under-approximates ln(sw) and P over-approximates ln(pw): nothing may be accepted
				t.Fatalf("signedWeight %d <= provenWeight %d but prover ok=%v n=%d / verifier accepted %d probes", sw, c.PW, proverOK, n, accepted)
			}
		}
		nt := proverOK || nearSing
		vk.Case(nt, fmt.Sprintf("%d/%d/%d", sw, p, st))
		if vk.WantSample(nt) {
			vk.Sample(nt, map[string]interface{}{"kind": c.Kind, "signedWeight": sw, "lnProvenWeight": p, "provenWeight": c.PW, "strengthTarget": st,
				"numReveals": n, "proverOK": proverOK, "oracleMinN": fmt.Sprint(minN)})
		}
	})
	// verifier must refuse a zero signed weight whatever the rest (plain, outside rapid)
	for _, st := range c38StSet {
		for _, np := range []uint64{0, 1, 640} {
			if verifyWeights(0, 0, np, st) == nil {
				t.Fatalf("verifyWeights accepted signedWeight 0 (n=%d st=%d)", np, st)
			}
		}
	}
}

// ---- coins

func c38SeedBytes(version byte, partcom []byte, lnpw uint64, sigcom []byte, sw uint64, data [32]byte) []byte {
	b := []byte("spc")
	b = append(b, version)
	b = append(b, partcom...)
	var u [8]byte
	binary.LittleEndian.PutUint64(u[:], lnpw)
	b = append(b, u[:]...)
	b = append(b, sigcom...)
	binary.LittleEndian.PutUint64(u[:], sw)
	b = append(b, u[:]...)
	return append(b, data[:]...)
}

func c38CoinSW() *rapid.Generator[uint64] {
	return rapid.Custom(func(t *rapid.T) uint64 {
		switch rapid.IntRange(0, 7).Draw(t, "coinSwKind") {
		case 7:
			return rapid.Uint64Range(1, 40).Draw(t, "small")
		case 0, 1:
			// just above 2^63: about half of the samples are rejected
			return uint64(1)<<63 + rapid.Uint64Range(1, 1<<20).Draw(t, "above63")
		case 2:
			// 2^64/3 and 2^64/5 neighbourhoods: k changes between sw and sw-1
			q := []uint64{3, 5, 6, 7, 9, 11}[rapid.IntRange(0, 5).Draw(t, "q")]
			return math.MaxUint64/q + uint64(rapid.IntRange(0, 3).Draw(t, "dq"))
		case 3:
			return math.MaxUint64 - rapid.Uint64Range(0, 1<<62).Draw(t, "big")
		case 4:
			return (uint64(1) << uint(rapid.IntRange(1, 63).Draw(t, "k"))) + uint64(rapid.IntRange(-1, 1).Draw(t, "pm"))
		default:
			return c38SW().Draw(t, "sw")
		}
	})
}

func TestVerif_C38_Coins(t *testing.T) {
	vk := vkBegin(t, "C38")
	vk.Rule("coin generators seeded with drawn commitments/message/lnProvenWeight and boundary signedWeights (2^63+d, 2^64/q, 2^k+-1, tiny); every coin compared with an own SHAKE256 rejection sampler (own seed serialisation) and checked < signedWeight, then mapped through Prover.coinIndex over drawn slot weights and compared with a linear scan; non-trivial = at least one sample was rejected by the sampler or the slot array has unsigned (zero-weight) slots; distinct by seed+weights")
	draws := vkN(2000, 10000)
	rapid.Check(t, func(t *rapid.T) {
		// slot weights (0 = participant did not sign); signedWeight = their sum, or a drawn boundary value spread over slots
		nslots := rapid.IntRange(1, 40).Draw(t, "nslots")
		sw := c38CoinSW().Draw(t, "sw")
		weights := make([]uint64, nslots)
		rest := sw
		zero := 0
		for i := 0; i < nslots; i++ {
			if i == nslots-1 {
				weights[i] = rest
				break
			}
			switch rapid.IntRange(0, 3).Draw(t, "wKind") {
			case 0:
				weights[i] = 0
			case 1:
				weights[i] = rapid.Uint64Range(0, 3).Draw(t, "wSmall")
			default:
				weights[i] = rapid.Uint64().Draw(t, "w") % (rest/2 + 1)
			}
			if weights[i] > rest {
				weights[i] = rest
			}
			rest -= weights[i]
		}
		if nslots > 1 && rapid.Bool().Draw(t, "rot") {
			// rotate so the big remainder slot is not always last
			r := rapid.IntRange(0, nslots-1).Draw(t, "rotBy")
			weights = append(weights[r:], weights[:r]...)
		}
		for _, w := range weights {
			if w == 0 {
				zero++
			}
		}
		partcom := rapid.SliceOfN(rapid.Byte(), HashSize, HashSize).Draw(t, "partcom")
		sigcom := rapid.SliceOfN(rapid.Byte(), HashSize, HashSize).Draw(t, "sigcom")
		var data MessageHash
		copy(data[:], rapid.SliceOfN(rapid.Byte(), 32, 32).Draw(t, "data"))
		lnpw := rapid.Uint64().Draw(t, "lnpw")

		choice := coinChoiceSeed{partCommitment: crypto.GenericDigest(partcom), lnProvenWeight: lnpw,
			sigCommitment: crypto.GenericDigest(sigcom), signedWeight: sw, data: data}
		cg := makeCoinGenerator(&choice)

		// reference sampler
		shk := sha3.NewShake256()
		shk.Write(c38SeedBytes(0, partcom, lnpw, sigcom, sw, data))
		rem := (math.MaxUint64%sw + 1) % sw // 2^64 mod sw
		rejectedSamples := 0
		nextRef := func() uint64 {
			for {
				var b [8]byte
				shk.Read(b[:])
				z := binary.LittleEndian.Uint64(b[:])
				if z <= math.MaxUint64-rem { // z < floor(2^64/sw)*sw
					return z % sw
				}
				rejectedSamples++
			}
		}

		b := &Prover{sigs: make([]sigslot, nslots)}
		var acc uint64
		for i := range weights {
			b.sigs[i].Weight = weights[i]
			b.sigs[i].L = acc
			acc += weights[i]
		}
		for j := 0; j < draws; j++ {
			coin := cg.getNextCoin()
			if coin >= sw {
				t.Fatalf("coin %d >= signedWeight %d (draw %d)", coin, sw, j)
			}
			if ref := nextRef(); ref != coin {
				t.Fatalf("coin #%d for signedWeight %d is %d, the documented rejection sampler gives %d", j, sw, coin, ref)
			}
			pos, err := b.coinIndex(coin)
			if err != nil {
				t.Fatalf("coinIndex(%d) failed for weights %v: %v", coin, weights, err)
			}
			// linear scan oracle
			var lo uint64
			want := -1
			for i, w := range weights {
				if w != 0 && coin-lo < w {
					want = i
					break
				}
				lo += w
			}
			if want < 0 || uint64(want) != pos {
				t.Fatalf("coinIndex(%d)=%d, linear scan gives %d (weights %v)", coin, pos, want, weights)
			}
		}
		vk.Add("coins", int64(draws))
		vk.Add("rejected_samples", int64(rejectedSamples))
		nt := rejectedSamples > 0 || zero > 0
		if rejectedSamples > 0 {
			vk.Label("sampler rejected >=1 sample")
		}
		if rejectedSamples > draws/4 {
			vk.Label("sampler rejected >25% of samples")
		}
		if zero > 0 {
			vk.Label("has unsigned slots")
		}
		if sw < 64 {
			vk.Label("signedWeight < 64")
		}
		fp := fmt.Sprintf("%d/%x/%x/%x/%d/%v", sw, partcom[:8], sigcom[:8], data[:8], lnpw, weights)
		vk.Case(nt, fp)
		if vk.WantSample(nt) {
			vk.Sample(nt, map[string]interface{}{"signedWeight": sw, "weights": fmt.Sprint(weights), "rejectedSamples": rejectedSamples, "draws": draws})
		}
	})
}
