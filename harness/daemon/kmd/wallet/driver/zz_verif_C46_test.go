package driver

// C46 — Wallet keys are deterministic, unique and password-protected (kmd SQLite wallet driver).
//
// A rapid state machine drives a real SQLiteWalletDriver in a temp dir (scrypt with minimal parameters; the password
// logic is the production code) through CreateWallet (random or recovered master derivation key), FetchWallet/Init
// (right | wrong password), GenerateKey, ImportKey (random key, the key the wallet would generate next / two ahead — taken
// from a twin wallet created from the same MDK —, a duplicate, a key with a forged public half), DeleteKey / ExportKey /
// ExportMasterDerivationKey / RenameWallet (right | wrong password), CheckPassword, close/re-fetch, and finally a restore:
// a new wallet from the exported MDK generating as many keys.
//
// Oracle: a model (set of keys with their seeds, highest derivation index, ordered list of generated addresses) plus an
// independent derivation of the deterministic sequence (HKDF-Expand/SHA-512-256 + Go's crypto/ed25519, not libsodium).

import (
	"bytes"
	"crypto/ed25519"
	"crypto/sha256"
	"crypto/sha512"
	"fmt"
	"io"
	"os"
	"sort"
	"strings"
	"testing"
	"time"

	"golang.org/x/crypto/hkdf"
	"pgregory.net/rapid"

	"github.com/algorand/go-algorand/crypto"
	"github.com/algorand/go-algorand/daemon/kmd/config"
	"github.com/algorand/go-algorand/daemon/kmd/wallet"
	"github.com/algorand/go-algorand/logging"
)

type c46Key struct {
	seed      [32]byte
	generated bool
}

type c46Model struct {
	mdk     crypto.MasterDerivationKey
	pw      []byte
	name    []byte
	id      []byte
	keys    map[crypto.Digest]c46Key
	maxIdx  uint64
	gen     []crypto.Digest // every address ever generated, in order
	genIdx  []uint64        // its derivation index
	deleted map[crypto.Digest]bool
}

// c46Derive is the independent statement of the derivation: seed = HKDF-Expand(SHA-512/256, mdk, "AlgorandDeterministicKey-<i>"),
// address = ed25519 public key of the seed.
func c46Derive(mdk crypto.MasterDerivationKey, i uint64) (addr crypto.Digest, seed [32]byte) {
	ks := hkdf.Expand(sha512.New512_256, mdk[:], []byte(fmt.Sprintf("AlgorandDeterministicKey-%d", i)))
	if _, err := io.ReadFull(ks, seed[:]); err != nil {
		panic(err)
	}
	pub := ed25519.NewKeyFromSeed(seed[:]).Public().(ed25519.PublicKey)
	copy(addr[:], pub)
	return
}

func c46AddrOfSeed(seed [32]byte) (addr crypto.Digest) {
	copy(addr[:], ed25519.NewKeyFromSeed(seed[:]).Public().(ed25519.PublicKey))
	return
}

func c46SK(seed [32]byte) (sk crypto.PrivateKey) {
	copy(sk[:], ed25519.NewKeyFromSeed(seed[:]))
	return
}

type c46World struct {
	rt   *rapid.T
	vk   *vkCtx
	swd  *SQLiteWalletDriver
	m    *c46Model
	w    wallet.Wallet // the wallet handle under test
	unl  bool          // handle initialised with the right password
	twin wallet.Wallet
	tpw  []byte
	tn   uint64 // keys generated in the twin
	oth  wallet.Wallet
	oKey []crypto.Digest
	hist []string

	wrongRejected, rightAccepted int
	skips, deletedGen            int
	nGenerate                    int
}

func (w *c46World) logf(f string, a ...interface{}) { w.hist = append(w.hist, fmt.Sprintf(f, a...)) }

func (w *c46World) fatalf(f string, a ...interface{}) {
	h := w.hist
	if len(h) > 80 {
		h = h[len(h)-80:]
	}
	w.rt.Fatalf("%s\n  history:\n    %s", fmt.Sprintf(f, a...), strings.Join(h, "\n    "))
}

func c46GenPw(rt *rapid.T, lbl string) []byte {
	switch rapid.IntRange(0, 5).Draw(rt, lbl+"k") {
	case 0:
		return []byte{}
	case 1:
		return []byte("a")
	case 2:
		return bytes.Repeat([]byte{0}, rapid.IntRange(1, 3).Draw(rt, lbl+"z"))
	default:
		return rapid.SliceOfN(rapid.Byte(), 1, 12).Draw(rt, lbl+"b")
	}
}

// wrongPw derives a password different from pw: near misses first.
func c46WrongPw(rt *rapid.T, lbl string, pw []byte) []byte {
	var out []byte
	switch rapid.IntRange(0, 6).Draw(rt, lbl+"w") {
	case 0:
		out = append(append([]byte{}, pw...), 0, 1) // right password + two more bytes
	case 1:
		if len(pw) > 0 {
			out = append([]byte{}, pw[:len(pw)-1]...) // prefix
		}
	case 2:
		if len(pw) > 0 {
			out = append([]byte{}, pw...)
			out[rapid.IntRange(0, len(pw)-1).Draw(rt, lbl+"i")] ^= 1 << uint(rapid.IntRange(0, 7).Draw(rt, lbl+"bit"))
		}
	case 3:
		out = []byte{} // blank
	case 4:
		out = nil
	case 5:
		out = append([]byte{' '}, pw...)
	default:
		out = rapid.SliceOfN(rapid.Byte(), 1, 12).Draw(rt, lbl+"r")
	}
	if c46SamePw(out, pw) {
		out = append(append([]byte{}, pw...), 'x')
	}
	return out
}

// c46SamePw: scrypt derives the key with PBKDF2-HMAC-SHA256, and HMAC pads keys shorter than its block with zero bytes,
// so passwords that differ only in trailing NUL bytes ARE the same key for the standard KDF (and for any wallet using it).
// They are not "wrong passwords"; the generator never treats them as such (passwords here are far below 64 bytes, where
// HMAC would start hashing the key).
func c46SamePw(a, b []byte) bool {
	return bytes.Equal(bytes.TrimRight(a, "\x00"), bytes.TrimRight(b, "\x00"))
}

type c46State struct {
	keys string
	name string
	file [32]byte
}

func (w *c46World) dbPath() string { return w.w.(*SQLiteWallet).dbPath }

// observe renders everything observable about the wallet without a password (key list, metadata, database file bytes).
func (w *c46World) observe() c46State {
	ks, err := w.w.ListKeys()
	if err != nil {
		w.fatalf("ListKeys: %v", err)
	}
	ss := make([]string, len(ks))
	for i, k := range ks {
		ss[i] = fmt.Sprintf("%x", k[:])
	}
	sort.Strings(ss)
	md, err := w.w.Metadata()
	if err != nil {
		w.fatalf("Metadata: %v", err)
	}
	b, err := os.ReadFile(w.dbPath())
	if err != nil {
		w.fatalf("read wallet file: %v", err)
	}
	return c46State{strings.Join(ss, ","), string(md.Name), sha256.Sum256(b)}
}

// mustNotChange runs f, which must fail, and checks that nothing observable changed.
func (w *c46World) mustNotChange(what string, f func() error) {
	before := w.observe()
	err := f()
	if err == nil {
		w.fatalf("%s succeeded", what)
	}
	after := w.observe()
	if before.keys != after.keys {
		w.fatalf("%s failed (%v) but changed the key list\n  before: %s\n  after : %s", what, err, before.keys, after.keys)
	}
	if before.name != after.name {
		w.fatalf("%s failed (%v) but changed the wallet name %q -> %q", what, err, before.name, after.name)
	}
	if before.file != after.file {
		w.fatalf("%s failed (%v) but modified the wallet database file", what, err)
	}
}

func (w *c46World) checkList() {
	ks, err := w.w.ListKeys()
	if err != nil {
		w.fatalf("ListKeys: %v", err)
	}
	seen := map[crypto.Digest]bool{}
	for _, k := range ks {
		if seen[k] {
			w.fatalf("ListKeys returns address %x twice", k[:])
		}
		seen[k] = true
		if _, ok := w.m.keys[k]; !ok {
			w.fatalf("ListKeys returns address %x which the model does not hold", k[:])
		}
	}
	if len(ks) != len(w.m.keys) {
		w.fatalf("ListKeys returns %d addresses, the model holds %d", len(ks), len(w.m.keys))
	}
	// the unrelated wallet in the same directory is untouched
	ok, err := w.oth.ListKeys()
	if err != nil || len(ok) != len(w.oKey) {
		w.fatalf("the other wallet's key list changed: %v / %d keys, want %d", err, len(ok), len(w.oKey))
	}
}

// twinKey returns address and secret key number idx of the twin wallet (same MDK, no imports).
func (w *c46World) twinKey(idx uint64) (crypto.Digest, crypto.PrivateKey) {
	for w.tn < idx {
		a, err := w.twin.GenerateKey(false)
		if err != nil {
			w.fatalf("twin GenerateKey: %v", err)
		}
		w.tn++
		want, _ := c46Derive(w.m.mdk, w.tn)
		if a != want {
			w.fatalf("twin wallet key %d is %x, the documented derivation gives %x", w.tn, a[:], want[:])
		}
	}
	addr, _ := c46Derive(w.m.mdk, idx)
	sk, err := w.twin.ExportKey(addr, w.tpw)
	if err != nil {
		w.fatalf("twin ExportKey(%d): %v", idx, err)
	}
	return addr, sk
}

func (w *c46World) pw(right bool, lbl string) []byte {
	if right {
		return w.m.pw
	}
	return c46WrongPw(w.rt, lbl, w.m.pw)
}

func (w *c46World) pickAddr(lbl string) (crypto.Digest, bool) {
	rt := w.rt
	var ks []crypto.Digest
	for k := range w.m.keys {
		ks = append(ks, k)
	}
	sort.Slice(ks, func(i, j int) bool { return bytes.Compare(ks[i][:], ks[j][:]) < 0 })
	switch c := rapid.IntRange(0, 9).Draw(rt, lbl+"c"); {
	case c == 0 || len(ks) == 0: // not in the wallet
		var a crypto.Digest
		if len(w.m.gen) > 0 && rapid.Bool().Draw(rt, lbl+"delgen") {
			for _, g := range w.m.gen {
				if _, ok := w.m.keys[g]; !ok {
					return g, false // a deleted generated key
				}
			}
		}
		a[0] = 0xee
		a[1] = rapid.Byte().Draw(rt, lbl+"u")
		return a, false
	case c <= 4 && len(w.m.gen) > 0: // the most recently generated keys
		for i := len(w.m.gen) - 1; i >= 0; i-- {
			if _, ok := w.m.keys[w.m.gen[i]]; ok {
				return w.m.gen[i], true
			}
		}
	}
	return ks[rapid.IntRange(0, len(ks)-1).Draw(rt, lbl+"i")], true
}

func (w *c46World) actGenerate() {
	if !w.unl {
		w.mustNotChange("GenerateKey on a wallet that was not unlocked", func() error { _, err := w.w.GenerateKey(false); return err })
		return
	}
	idx := w.m.maxIdx + 1
	skipped := 0
	for {
		a, _ := c46Derive(w.m.mdk, idx)
		if _, present := w.m.keys[a]; !present {
			break
		}
		idx++
		skipped++
	}
	want, seed := c46Derive(w.m.mdk, idx)
	got, err := w.w.GenerateKey(false)
	if err != nil {
		w.fatalf("GenerateKey failed: %v (next index %d, %d imported keys to skip)", err, idx, skipped)
	}
	if got != want {
		w.fatalf("GenerateKey returned %x; the deterministic sequence of the master derivation key gives %x at index %d (highest index so far %d, %d addresses skipped because they were already imported)",
			got[:], want[:], idx, w.m.maxIdx, skipped)
	}
	w.logf("GenerateKey -> index %d (skipped %d)", idx, skipped)
	w.m.keys[got] = c46Key{seed, true}
	w.m.maxIdx = idx
	w.m.gen = append(w.m.gen, got)
	w.m.genIdx = append(w.m.genIdx, idx)
	w.nGenerate++
	if skipped > 0 {
		w.skips++
		w.vk.Label("generate: skipped an imported key")
	} else {
		w.vk.Label("generate: plain")
	}
}

func (w *c46World) actImport() {
	rt := w.rt
	var sk crypto.PrivateKey
	var seed [32]byte
	kind := rapid.IntRange(0, 9).Draw(rt, "impKind")
	what := ""
	switch {
	case kind <= 2: // the key the wallet would generate next
		_, sk = w.twinKey(w.m.maxIdx + 1)
		what = fmt.Sprintf("next (index %d)", w.m.maxIdx+1)
	case kind <= 4: // two ahead
		_, sk = w.twinKey(w.m.maxIdx + 2)
		what = fmt.Sprintf("two ahead (index %d)", w.m.maxIdx+2)
	case kind == 5 && len(w.m.gen) > 0: // an already generated (maybe deleted) key
		i := rapid.IntRange(0, len(w.m.gen)-1).Draw(rt, "impGen")
		_, sk = w.twinKey(w.m.genIdx[i])
		what = fmt.Sprintf("generated earlier (index %d)", w.m.genIdx[i])
	default:
		b := rapid.SliceOfN(rapid.Byte(), 32, 32).Draw(rt, "impSeed")
		copy(seed[:], b)
		sk = c46SK(seed)
		what = "random"
	}
	copy(seed[:], sk[:32])
	if rapid.IntRange(0, 5).Draw(rt, "impForge") == 0 {
		sk[40] ^= 0xff // forged public half: the wallet must derive the address from the seed
		what += " with forged public half"
	}
	addr := c46AddrOfSeed(seed)
	if !w.unl {
		w.mustNotChange("ImportKey on a wallet that was not unlocked", func() error { _, err := w.w.ImportKey(sk); return err })
		return
	}
	if _, present := w.m.keys[addr]; present {
		w.mustNotChange("ImportKey of an address already in the wallet", func() error { _, err := w.w.ImportKey(sk); return err })
		w.vk.Label("import: duplicate rejected")
		w.logf("ImportKey %s: duplicate rejected", what)
		return
	}
	got, err := w.w.ImportKey(sk)
	if err != nil {
		w.fatalf("ImportKey(%s) failed: %v", what, err)
	}
	if got != addr {
		w.fatalf("ImportKey(%s) stored address %x, the seed's public key is %x", what, got[:], addr[:])
	}
	w.m.keys[addr] = c46Key{seed, false}
	w.logf("ImportKey %s", what)
	w.vk.Label("import: " + strings.Split(what, " (")[0])
}

func (w *c46World) actDelete() {
	right := rapid.IntRange(0, 2).Draw(w.rt, "delRight") != 0
	addr, present := w.pickAddr("del")
	pw := w.pw(right, "delpw")
	if !right {
		w.mustNotChange(fmt.Sprintf("DeleteKey(present=%v) with a wrong password %q", present, pw), func() error { return w.w.DeleteKey(addr, pw) })
		w.wrongRejected++
		w.vk.Label("delete: wrong password rejected")
		return
	}
	if err := w.w.DeleteKey(addr, pw); err != nil {
		w.fatalf("DeleteKey with the right password failed: %v", err)
	}
	w.rightAccepted++
	if k, ok := w.m.keys[addr]; ok {
		if k.generated {
			w.deletedGen++
			w.vk.Label("delete: generated key")
		} else {
			w.vk.Label("delete: imported key")
		}
		w.m.deleted[addr] = true
	} else {
		w.vk.Label("delete: absent key")
	}
	delete(w.m.keys, addr)
	w.logf("DeleteKey %x (present=%v)", addr[:4], present)
}

func (w *c46World) actExport() {
	right := rapid.IntRange(0, 2).Draw(w.rt, "expRight") != 0
	addr, present := w.pickAddr("exp")
	pw := w.pw(right, "exppw")
	if !right {
		w.mustNotChange(fmt.Sprintf("ExportKey(present=%v) with a wrong password %q", present, pw), func() error {
			sk, err := w.w.ExportKey(addr, pw)
			if err == nil || sk != (crypto.PrivateKey{}) {
				return nil
			}
			return err
		})
		w.wrongRejected++
		w.vk.Label("export: wrong password rejected")
		return
	}
	if !w.unl {
		// right password, but the handle never decrypted the master key: nothing can be exported
		sk, err := w.w.ExportKey(addr, pw)
		if err == nil && present {
			w.fatalf("ExportKey on a wallet that was not unlocked returned a key: %x", sk[:4])
		}
		return
	}
	sk, err := w.w.ExportKey(addr, pw)
	if !present {
		if err == nil {
			w.fatalf("ExportKey of an address not in the wallet succeeded")
		}
		w.vk.Label("export: absent key")
		return
	}
	if err != nil {
		w.fatalf("ExportKey with the right password failed: %v", err)
	}
	w.rightAccepted++
	k := w.m.keys[addr]
	if !bytes.Equal(sk[:32], k.seed[:]) {
		w.fatalf("ExportKey(%x) returned another seed than the one stored", addr[:4])
	}
	pub := ed25519.NewKeyFromSeed(sk[:32]).Public().(ed25519.PublicKey)
	if !bytes.Equal(pub, addr[:]) || !bytes.Equal(sk[32:], addr[:]) {
		w.fatalf("the key exported for %x is not the key of that address", addr[:4])
	}
	msg := []byte("c46")
	if !ed25519.Verify(ed25519.PublicKey(addr[:]), msg, ed25519.Sign(ed25519.PrivateKey(sk[:]), msg)) {
		w.fatalf("a signature made with the exported key does not verify under its address")
	}
	w.vk.Label("export: ok")
}

func (w *c46World) actExportMDK() {
	right := rapid.Bool().Draw(w.rt, "mdkRight")
	pw := w.pw(right, "mdkpw")
	if !right {
		w.mustNotChange(fmt.Sprintf("ExportMasterDerivationKey with a wrong password %q", pw), func() error {
			mdk, err := w.w.ExportMasterDerivationKey(pw)
			if err == nil || mdk != (crypto.MasterDerivationKey{}) {
				return nil
			}
			return err
		})
		w.wrongRejected++
		w.vk.Label("mdk: wrong password rejected")
		return
	}
	if !w.unl {
		return
	}
	mdk, err := w.w.ExportMasterDerivationKey(pw)
	if err != nil {
		w.fatalf("ExportMasterDerivationKey with the right password failed: %v", err)
	}
	if mdk != w.m.mdk {
		w.fatalf("ExportMasterDerivationKey returned another key than the wallet was created with")
	}
	w.rightAccepted++
	w.vk.Label("mdk: ok")
}

func (w *c46World) actRename() {
	rt := w.rt
	right := rapid.Bool().Draw(rt, "renRight")
	pw := w.pw(right, "renpw")
	newName := []byte(rapid.StringMatching(`[a-zA-Z0-9_. /-]{1,12}`).Draw(rt, "renName"))
	if bytes.Equal(newName, w.m.name) || bytes.Equal(newName, []byte("twin")) || bytes.Equal(newName, []byte("other")) || bytes.Equal(newName, []byte("restored")) {
		if bytes.Equal(newName, []byte("restored")) {
			return // reserved for the restore step
		}
		w.mustNotChange("RenameWallet to a name in use", func() error { return w.swd.RenameWallet(newName, w.m.id, pw) })
		w.vk.Label("rename: name in use")
		return
	}
	if !right {
		w.mustNotChange(fmt.Sprintf("RenameWallet with a wrong password %q", pw), func() error { return w.swd.RenameWallet(newName, w.m.id, pw) })
		w.wrongRejected++
		w.vk.Label("rename: wrong password rejected")
		return
	}
	if err := w.swd.RenameWallet(newName, w.m.id, pw); err != nil {
		w.fatalf("RenameWallet with the right password failed: %v", err)
	}
	w.rightAccepted++
	w.m.name = newName
	md, err := w.w.Metadata()
	if err != nil || !bytes.Equal(md.Name, newName) || !bytes.Equal(md.ID, w.m.id) {
		w.fatalf("after RenameWallet the metadata is name=%q id=%q err=%v", md.Name, md.ID, err)
	}
	w.logf("RenameWallet %q", newName)
	w.vk.Label("rename: ok")
}

func (w *c46World) actCheckPassword() {
	right := rapid.Bool().Draw(w.rt, "cpRight")
	pw := w.pw(right, "cppw")
	err := w.w.CheckPassword(pw)
	if right && err != nil {
		w.fatalf("CheckPassword rejects the right password (unlocked=%v): %v", w.unl, err)
	}
	if !right && err == nil {
		w.fatalf("CheckPassword accepts the wrong password %q (right one %q, unlocked=%v)", pw, w.m.pw, w.unl)
	}
	if right {
		w.rightAccepted++
	} else {
		w.wrongRejected++
	}
	w.vk.Labelf("checkpassword right=%v unlocked=%v", right, w.unl)
}

// actRefetch closes the handle and fetches the wallet again: it comes back locked.
func (w *c46World) actRefetch() {
	h, err := w.swd.FetchWallet(w.m.id)
	if err != nil {
		w.fatalf("FetchWallet: %v", err)
	}
	w.w = h
	w.unl = false
	w.logf("re-fetched (locked)")
	w.vk.Label("refetch")
}

func (w *c46World) actInit() {
	right := rapid.IntRange(0, 2).Draw(w.rt, "initRight") != 0
	pw := w.pw(right, "initpw")
	if !right {
		w.mustNotChange(fmt.Sprintf("Init with a wrong password %q", pw), func() error { return w.w.Init(pw) })
		w.wrongRejected++
		w.vk.Label("init: wrong password rejected")
		return
	}
	if err := w.w.Init(pw); err != nil {
		w.fatalf("Init with the right password failed: %v", err)
	}
	w.unl = true
	w.rightAccepted++
	w.logf("Init ok")
	w.vk.Label("init: ok")
}

func c46NewDriver(dir string) (*SQLiteWalletDriver, error) {
	cfg := config.KMDConfig{DataDir: dir}
	cfg.DriverConfig.SQLiteWalletDriverConfig = config.SQLiteWalletDriverConfig{
		UnsafeScrypt: true, // only lifts the lower bound on the cost parameters; the password path is unchanged
		ScryptParams: config.ScryptParams{ScryptN: 2, ScryptR: 1, ScryptP: 1},
	}
	swd := &SQLiteWalletDriver{}
	return swd, swd.InitWithConfig(cfg, logging.Base())
}

func TestVerif_C46_Wallet(t *testing.T) {
	vk := vkBegin(t, "C46")
	vk.Rule("a case = one SQLite wallet (random or recovered master derivation key, random password incl. blank) next to a twin wallet of the same MDK and an unrelated wallet, driven by 10..45 random operations " +
		"(generate, import random/next/two-ahead/duplicate/forged-public-half keys, delete/export/export-MDK/rename/check-password/init with right and wrong passwords, close and re-fetch), then a restore from the exported MDK; " +
		"non-trivial = at least 3 generated keys, at least one generation that had to skip an imported key or one deleted generated key, at least 3 wrong-password rejections and 3 right-password successes; distinct by history")
	vk.Assume("scrypt runs with N=2,r=1,p=1 (UnsafeScrypt only lifts the parameter floor); crypto/ed25519, x/crypto/hkdf and SHA-512/256 are the reference for the derivation")
	base := c46TempBase(t)
	rapid.Check(t, func(rt *rapid.T) {
		dir, err := os.MkdirTemp(base, "c46-")
		if err != nil {
			rt.Fatalf("%v", err)
		}
		defer os.RemoveAll(dir)
		swd, err := c46NewDriver(dir)
		if err != nil {
			rt.Fatalf("driver init: %v", err)
		}
		w := &c46World{rt: rt, vk: vk, swd: swd, m: &c46Model{keys: map[crypto.Digest]c46Key{}, deleted: map[crypto.Digest]bool{}}}
		m := w.m
		m.pw = c46GenPw(rt, "pw")
		m.name = []byte(rapid.StringMatching(`[a-zA-Z0-9_. -]{1,10}`).Draw(rt, "name"))
		if string(m.name) == "twin" || string(m.name) == "other" || string(m.name) == "restored" {
			m.name = append(m.name, '1')
		}
		m.id = []byte(rapid.StringMatching(`[a-f0-9]{8,32}`).Draw(rt, "id"))
		recovered := rapid.Bool().Draw(rt, "recovered")
		var mdk crypto.MasterDerivationKey
		if recovered {
			copy(mdk[:], rapid.SliceOfN(rapid.Byte(), 32, 32).Draw(rt, "mdk"))
			mdk[0] |= 1 // the all-zero key means "generate one"
		}
		if err := swd.CreateWallet(m.name, m.id, m.pw, mdk); err != nil {
			w.fatalf("CreateWallet: %v", err)
		}
		w.logf("CreateWallet name=%q pw=%q recovered=%v", m.name, m.pw, recovered)
		vk.Labelf("create: recovered=%v blankpw=%v", recovered, len(m.pw) == 0)
		if w.w, err = swd.FetchWallet(m.id); err != nil {
			w.fatalf("FetchWallet: %v", err)
		}
		// before unlocking: a wrong password does not unlock
		wrong := c46WrongPw(rt, "firstwrong", m.pw)
		if err := w.w.Init(wrong); err == nil {
			w.fatalf("Init accepts the wrong password %q (right one %q)", wrong, m.pw)
		}
		if err := w.w.Init(m.pw); err != nil {
			w.fatalf("Init with the right password failed: %v", err)
		}
		w.unl = true
		got, err := w.w.ExportMasterDerivationKey(m.pw)
		if err != nil {
			w.fatalf("ExportMasterDerivationKey: %v", err)
		}
		if recovered && got != mdk {
			w.fatalf("the wallet does not hold the master derivation key it was created with")
		}
		if got == (crypto.MasterDerivationKey{}) {
			w.fatalf("the wallet holds an all-zero master derivation key")
		}
		m.mdk = got
		// twin: same MDK, own password, never imports
		w.tpw = c46GenPw(rt, "tpw")
		if err := swd.CreateWallet([]byte("twin"), []byte("twin-"+string(m.id)), w.tpw, m.mdk); err != nil {
			w.fatalf("CreateWallet(twin): %v", err)
		}
		if w.twin, err = swd.FetchWallet([]byte("twin-" + string(m.id))); err != nil {
			w.fatalf("FetchWallet(twin): %v", err)
		}
		if err := w.twin.Init(w.tpw); err != nil {
			w.fatalf("Init(twin): %v", err)
		}
		// an unrelated wallet in the same directory
		if err := swd.CreateWallet([]byte("other"), []byte("other-"+string(m.id)), []byte("opw"), crypto.MasterDerivationKey{}); err != nil {
			w.fatalf("CreateWallet(other): %v", err)
		}
		if w.oth, err = swd.FetchWallet([]byte("other-" + string(m.id))); err != nil {
			w.fatalf("FetchWallet(other): %v", err)
		}
		if err := w.oth.Init([]byte("opw")); err != nil {
			w.fatalf("Init(other): %v", err)
		}
		for i := 0; i < 2; i++ {
			a, err := w.oth.GenerateKey(false)
			if err != nil {
				w.fatalf("other GenerateKey: %v", err)
			}
			w.oKey = append(w.oKey, a)
		}
		// the unrelated wallet's password does not open this one (unless equal)
		if !c46SamePw(m.pw, []byte("opw")) {
			if err := w.w.CheckPassword([]byte("opw")); err == nil {
				w.fatalf("the other wallet's password is accepted")
			}
		}

		n := rapid.IntRange(10, 45).Draw(rt, "nOps")
		for i := 0; i < n; i++ {
			if !w.unl && rapid.IntRange(0, 2).Draw(rt, fmt.Sprintf("relock%d", i)) != 0 {
				w.actInit()
				w.checkList()
				continue
			}
			switch rapid.IntRange(0, 19).Draw(rt, fmt.Sprintf("act%d", i)) {
			case 0, 1, 2, 3, 4:
				w.actGenerate()
			case 5, 6, 7, 8:
				w.actImport()
			case 9, 10, 11:
				w.actDelete()
			case 12, 13:
				w.actExport()
			case 14:
				w.actExportMDK()
			case 15:
				w.actRename()
			case 16:
				w.actCheckPassword()
			case 17:
				w.actRefetch()
			case 18:
				w.actInit()
			default:
				w.actExport()
			}
			w.checkList()
		}
		// every key still in the wallet is exportable and is the key of its address
		if !w.unl {
			if err := w.w.Init(m.pw); err != nil {
				w.fatalf("final Init: %v", err)
			}
			w.unl = true
		}
		for a, k := range m.keys {
			sk, err := w.w.ExportKey(a, m.pw)
			if err != nil || !bytes.Equal(sk[:32], k.seed[:]) || !bytes.Equal(sk[32:], a[:]) {
				w.fatalf("final ExportKey(%x): err=%v or wrong key", a[:4], err)
			}
		}
		// restore: a new wallet from the exported MDK regenerates the same addresses
		exp, err := w.w.ExportMasterDerivationKey(m.pw)
		if err != nil || exp != m.mdk {
			w.fatalf("final ExportMasterDerivationKey: %v", err)
		}
		rid := []byte("restored-" + string(m.id))
		rpw := c46GenPw(rt, "rpw")
		if err := swd.CreateWallet([]byte("restored"), rid, rpw, exp); err != nil {
			w.fatalf("CreateWallet(restored): %v", err)
		}
		rw, err := swd.FetchWallet(rid)
		if err != nil {
			w.fatalf("FetchWallet(restored): %v", err)
		}
		if err := rw.Init(rpw); err != nil {
			w.fatalf("Init(restored): %v", err)
		}
		var rseq []crypto.Digest
		seen := map[crypto.Digest]bool{}
		for i := uint64(1); i <= m.maxIdx; i++ {
			a, err := rw.GenerateKey(false)
			if err != nil {
				w.fatalf("restored GenerateKey %d: %v", i, err)
			}
			if seen[a] {
				w.fatalf("the restored wallet generated address %x twice", a[:4])
			}
			seen[a] = true
			rseq = append(rseq, a)
		}
		// the original's generated sequence = the restored sequence minus the indices skipped for imported keys
		for j, a := range m.gen {
			idx := m.genIdx[j]
			if rseq[idx-1] != a {
				w.fatalf("generated key #%d of the original wallet (index %d) is %x, the wallet restored from the exported master derivation key has %x there", j+1, idx, a[:4], rseq[idx-1][:4])
			}
		}
		for i := 1; i < len(m.genIdx); i++ {
			if m.genIdx[i] <= m.genIdx[i-1] {
				w.fatalf("derivation indices not increasing: %v", m.genIdx)
			}
		}
		nt := w.nGenerate >= 3 && (w.skips > 0 || w.deletedGen > 0) && w.wrongRejected >= 3 && w.rightAccepted >= 3
		vk.Case(nt, strings.Join(w.hist, "|"))
		vk.Add("wrong_password_rejections", int64(w.wrongRejected))
		vk.Add("right_password_successes", int64(w.rightAccepted))
		vk.Add("generated_keys", int64(w.nGenerate))
		vk.Add("skipping_generations", int64(w.skips))
		vk.Add("deleted_generated_keys", int64(w.deletedGen))
		if vk.WantSample(nt) {
			vk.Sample(nt, map[string]interface{}{"history": w.hist, "generated_indices": m.genIdx, "keys_at_end": len(m.keys)})
		}
	})
}

// c46TempBase returns a scratch directory, on a RAM-backed file system when there is one (the stores fsync on every
// commit / open; on a loaded machine that dominates the run time). Removed at the end of the test; stale directories of
// killed runs are swept.
func c46TempBase(t *testing.T) string {
	const shm = "/dev/shm"
	if st, err := os.Stat(shm); err == nil && st.IsDir() {
		if ents, err := os.ReadDir(shm); err == nil {
			for _, e := range ents {
				if strings.HasPrefix(e.Name(), "verif-c46-") {
					if fi, err := e.Info(); err == nil && time.Since(fi.ModTime()) > 2*time.Hour {
						os.RemoveAll(shm + "/" + e.Name())
					}
				}
			}
		}
		if d, err := os.MkdirTemp(shm, "verif-c46-"); err == nil {
			t.Cleanup(func() { os.RemoveAll(d) })
			return d
		}
	}
	return t.TempDir()
}
