package network

// C41 native fuzz targets (thorough tier only) for the wire types of this package; seed corpora live in
// /verif/corpus/<FuzzName>/ (written once by TestVerif_C41_WriteCorpus_* with VERIF_WRITE_CORPUS=<dir>).

import "testing"

var c41NetTypes = []string{"identityChallengeSigned", "identityChallengeResponseSigned", "identityVerificationMessageSigned", "peerMetaHeaders"}

func FuzzVerif_C41_NetworkMsg(f *testing.F) { c41FuzzRun(f, c41NetTypes...) }

func TestVerif_C41_WriteCorpus_network(t *testing.T) {
	c41WriteCorpus(t, "FuzzVerif_C41_NetworkMsg", c41NetTypes...)
}
