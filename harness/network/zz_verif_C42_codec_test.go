package network

// C42 (connection part) — how a connection reacts to vote-compression errors.
//
// Two real wsPeerMsgCodec instances (one per end of a connection), negotiated through the real feature
// advertisement (setHeaders / decodePeerFeatures / getBestVpackTableSize / makeWsPeerMsgCodec), exchange votes in both
// directions over two FIFO queues. Malformed VP frames and spurious abort messages are injected. The glue between
// codec and wire (what readLoop / writeLoopSendMsg do with the codec's results) is emulated exactly as documented
// in msgCompressor.go: a voteCompressionError makes the end send VP+0xFF and drop the vote, a nil result is a drop.
//
// Oracle: (1) both ends negotiate the same table size = min of the two normalised configured sizes; (2) every
// message handed up equals the original vote bytes; (3) before any disturbance no vote is lost; (4) after an end saw
// a decode error or an abort it never again produces data from a VP frame and never again emits VP frames.

import (
	"bytes"
	"encoding/binary"
	"errors"
	"fmt"
	"io"
	"math"
	mrand "math/rand"
	"net/http"
	"testing"

	"pgregory.net/rapid"

	"github.com/algorand/go-algorand/config"
	"github.com/algorand/go-algorand/logging"
	"github.com/algorand/go-algorand/network/vpack"
	"github.com/algorand/go-algorand/protocol"
)

type c42Meta struct {
	enable bool
	size   uint
}

func (m c42Meta) TelemetryGUID() string                   { return "" }
func (m c42Meta) InstanceName() string                    { return "" }
func (m c42Meta) GetGenesisID() string                    { return "g" }
func (m c42Meta) PublicAddress() string                   { return "" }
func (m c42Meta) RandomID() string                        { return "" }
func (m c42Meta) SupportedProtoVersions() []string        { return SupportedProtocolVersions }
func (m c42Meta) VoteCompressionEnabled() bool            { return m.enable }
func (m c42Meta) StatefulVoteCompressionTableSize() uint  { return m.size }

// independent canonical msgpack vote (same layout as the builder in the vpack harness)
type c42NVote struct {
	pf                         [80]byte
	per, oper, rnd, step       uint64
	dig, encdig, oprop, snd, p [32]byte
	p2                         [32]byte
	p1s, p2s, s                [64]byte
}

func c42NUint(b []byte, v uint64) []byte {
	switch {
	case v < 128:
		return append(b, byte(v))
	case v <= math.MaxUint8:
		return append(b, 0xcc, byte(v))
	case v <= math.MaxUint16:
		return append(b, 0xcd, byte(v>>8), byte(v))
	case v <= math.MaxUint32:
		return append(b, 0xce, byte(v>>24), byte(v>>16), byte(v>>8), byte(v))
	default:
		return binary.BigEndian.AppendUint64(append(b, 0xcf), v)
	}
}

func c42NStr(b []byte, s string) []byte { return append(append(b, 0xa0|byte(len(s))), s...) }
func c42NBin(b []byte, d []byte) []byte { return append(append(b, 0xc4, byte(len(d))), d...) }
func c42NZero(b []byte) bool            { return bytes.Equal(b, make([]byte, len(b))) }

func (v *c42NVote) encode() []byte {
	b := make([]byte, 0, 640)
	b = c42NBin(c42NStr(append(c42NStr(append(b, 0x83), "cred"), 0x81), "pf"), v.pf[:])
	hasProp := !c42NZero(v.dig[:]) || !c42NZero(v.encdig[:]) || v.oper != 0 || !c42NZero(v.oprop[:])
	nr := 2
	for _, c := range []bool{v.per != 0, hasProp, v.step != 0} {
		if c {
			nr++
		}
	}
	b = append(c42NStr(b, "r"), 0x80|byte(nr))
	if v.per != 0 {
		b = c42NUint(c42NStr(b, "per"), v.per)
	}
	if hasProp {
		np := 0
		for _, c := range []bool{!c42NZero(v.dig[:]), !c42NZero(v.encdig[:]), v.oper != 0, !c42NZero(v.oprop[:])} {
			if c {
				np++
			}
		}
		b = append(c42NStr(b, "prop"), 0x80|byte(np))
		if !c42NZero(v.dig[:]) {
			b = c42NBin(c42NStr(b, "dig"), v.dig[:])
		}
		if !c42NZero(v.encdig[:]) {
			b = c42NBin(c42NStr(b, "encdig"), v.encdig[:])
		}
		if v.oper != 0 {
			b = c42NUint(c42NStr(b, "oper"), v.oper)
		}
		if !c42NZero(v.oprop[:]) {
			b = c42NBin(c42NStr(b, "oprop"), v.oprop[:])
		}
	}
	b = c42NUint(c42NStr(b, "rnd"), v.rnd)
	b = c42NBin(c42NStr(b, "snd"), v.snd[:])
	if v.step != 0 {
		b = c42NUint(c42NStr(b, "step"), v.step)
	}
	b = append(c42NStr(b, "sig"), 0x86)
	b = c42NBin(c42NStr(b, "p"), v.p[:])
	b = c42NBin(c42NStr(b, "p1s"), v.p1s[:])
	b = c42NBin(c42NStr(b, "p2"), v.p2[:])
	b = c42NBin(c42NStr(b, "p2s"), v.p2s[:])
	b = c42NBin(c42NStr(b, "ps"), make([]byte, 64))
	b = c42NBin(c42NStr(b, "s"), v.s[:])
	return b
}

// reference normalisation of the configured table size, from the doc comment of NormalizedVoteCompressionTableSize
func c42RefNormalize(x uint) uint {
	if x < 16 {
		return 0
	}
	if x >= 2048 {
		return 2048
	}
	p := uint(16)
	for p*2 <= x {
		p *= 2
	}
	return p
}

type c42Wire struct {
	tag   protocol.Tag
	data  []byte
	orig  int // index of the genuine vote carried, -1 for injected frames / control messages
	taint bool
}

type c42End struct {
	name     string
	codec    *wsPeerMsgCodec
	out      []c42Wire // queue towards the other end
	dead     bool      // saw a decode/encode error or an abort: stateful compression must stay off
	tainted  bool      // its decoder accepted an injected frame as a vote: later VP output no longer comparable
	lastVP   []byte
	sentVP   int
	gotVotes int
}

func c42MakeEnd(t *rapid.T, name string, log logging.Logger, own c42Meta, peerHdr string) *c42End {
	norm := config.Local{StatefulVoteCompressionTableSize: own.size}.NormalizedVoteCompressionTableSize(log)
	wp := &wsPeer{
		wsPeerCore:               wsPeerCore{log: log, originAddress: name},
		features:                 decodePeerFeatures("2.2", peerHdr),
		enableVoteCompression:    own.enable,
		voteCompressionTableSize: norm,
	}
	return &c42End{name: name, codec: makeWsPeerMsgCodec(wp)}
}

func TestVerif_C42_Codec(t *testing.T) {
	vk := vkBegin(t, "C42")
	vk.Rule("a connection = two configured (enable, table size) pairs negotiated through the real header code; 5..120 steps of: either end sends a vote from small pools, either queue delivers, a malformed VP frame / spurious abort is injected into either queue; non-trivial = stateful compression was negotiated, VP frames with references flowed, and a disturbance (malformed frame or abort) happened with genuine VP frames still in flight; distinct by hash of all wire messages")
	log := logging.NewLogger()
	log.SetOutput(io.Discard)
	log.SetLevel(logging.Panic)
	sizes := []uint{0, 1, 15, 16, 17, 31, 32, 64, 100, 128, 256, 512, 1000, 1024, 2047, 2048, 4096, 1 << 20}
	rapid.Check(t, func(t *rapid.T) {
		rng := mrand.New(mrand.NewSource(rapid.Int64().Draw(t, "bytesSeed")))
		var metas [2]c42Meta
		for i := range metas {
			metas[i].enable = rapid.IntRange(0, 15).Draw(t, "enable") != 7 // mid value: rapid favours the ends of a range
			metas[i].size = sizes[rapid.IntRange(0, len(sizes)-1).Draw(t, "cfgSize")]
			if rapid.IntRange(0, 7).Draw(t, "cfgValid") != 5 {
				// scrambled so that rapid's preference for small draws does not collapse the minimum to 16
				x := rapid.Uint32().Draw(t, "cfgSizeValid")
				metas[i].size = sizes[3+int((uint64(x)*2654435761>>11)%uint64(len(sizes)-3))]
			}
		}
		var hdrs [2]string
		for i := range metas {
			h := http.Header{}
			norm := config.Local{StatefulVoteCompressionTableSize: metas[i].size}.NormalizedVoteCompressionTableSize(log)
			setHeaders(h, "2.2", c42Meta{metas[i].enable, norm})
			hdrs[i] = h.Get(PeerFeaturesHeader)
		}
		ends := [2]*c42End{c42MakeEnd(t, "A", log, metas[0], hdrs[1]), c42MakeEnd(t, "B", log, metas[1], hdrs[0])}

		// (1) negotiation
		wantSize := min(c42RefNormalize(metas[0].size), c42RefNormalize(metas[1].size))
		wantOn := metas[0].enable && metas[1].enable && wantSize > 0
		for _, e := range ends {
			on := e.codec.statefulVoteEnabled.Load()
			if on != wantOn || (on && e.codec.statefulVoteTableSize != wantSize) {
				t.Fatalf("negotiation: end %s enabled=%v size=%d, want enabled=%v size=%d (configs %+v)", e.name, on, e.codec.statefulVoteTableSize, wantOn, wantSize, metas)
			}
			if e.codec.avdec.enabled != (metas[0].enable && metas[1].enable) {
				t.Fatalf("negotiation: end %s stateless decompression enabled=%v (configs %+v)", e.name, e.codec.avdec.enabled, metas)
			}
		}
		statelessOn := metas[0].enable && metas[1].enable

		// pools
		var snd [][32]byte
		var pks [][96]byte
		var props []c42NVote
		for i := rapid.IntRange(1, 6).Draw(t, "nSnd"); i > 0; i-- {
			var a [32]byte
			rng.Read(a[:])
			a[0] |= 1
			snd = append(snd, a)
		}
		for i := rapid.IntRange(1, 6).Draw(t, "nPk"); i > 0; i-- {
			var a [96]byte
			rng.Read(a[:])
			pks = append(pks, a)
		}
		for i := rapid.IntRange(1, 9).Draw(t, "nProp"); i > 0; i-- {
			var v c42NVote
			m := rapid.IntRange(0, 15).Draw(t, "propMask")
			if m&1 != 0 {
				rng.Read(v.dig[:])
				v.dig[0] |= 1
			}
			if m&2 != 0 {
				rng.Read(v.encdig[:])
				v.encdig[0] |= 1
			}
			if m&4 != 0 {
				v.oper = uint64(rapid.SampledFrom([]uint64{1, 200, 70000, 1 << 33}).Draw(t, "oper"))
			}
			if m&8 != 0 {
				rng.Read(v.oprop[:])
				v.oprop[0] |= 1
			}
			props = append(props, v)
		}
		round := rapid.SampledFrom([]uint64{1, 127, 255, 65535, 1 << 32, math.MaxUint64 - 2}).Draw(t, "round0")

		var originals [][]byte
		disturbed := false
		refsSeen, inFlightAtDisturbance, drops, delivered := 0, 0, 0, 0
		h := uint64(1469598103934665603)
		mix := func(b []byte) {
			for _, x := range b {
				h = (h ^ uint64(x)) * 1099511628211
			}
		}

		send := func(from int) {
			e := ends[from]
			var v c42NVote
			rng.Read(v.pf[:])
			v.pf[0] |= 1
			v.snd = snd[rapid.IntRange(0, len(snd)-1).Draw(t, "snd")]
			k1, k2 := pks[rapid.IntRange(0, len(pks)-1).Draw(t, "pk")], pks[rapid.IntRange(0, len(pks)-1).Draw(t, "pk2")]
			copy(v.p[:], k1[:32])
			copy(v.p1s[:], k1[32:])
			copy(v.p2[:], k2[:32])
			copy(v.p2s[:], k2[32:])
			pr := props[rapid.IntRange(0, len(props)-1).Draw(t, "prop")]
			v.dig, v.encdig, v.oper, v.oprop = pr.dig, pr.encdig, pr.oper, pr.oprop
			switch rapid.IntRange(0, 5).Draw(t, "rndMove") {
			case 0:
				round++
			case 1:
				if round > 1 {
					round--
				}
			}
			v.rnd = round
			v.per = uint64(rapid.IntRange(0, 2).Draw(t, "per"))
			v.step = uint64(rapid.IntRange(0, 3).Draw(t, "step"))
			rng.Read(v.s[:])
			v.s[0] |= 1
			mp := v.encode()
			idx := len(originals)
			originals = append(originals, mp)
			// what broadcast does before queueing to peers: AV + stateless compression when vote compression is on,
			// raw AV otherwise (wsNetwork.go broadcaster / vpackCompressVote)
			data := append([]byte(protocol.AgreementVoteTag), mp...)
			if statelessOn {
				var logMsg string
				data, logMsg = vpackCompressVote([]byte(protocol.AgreementVoteTag), mp)
				if logMsg != "" {
					t.Fatalf("stateless compression refused a valid vote: %s", logMsg)
				}
			} else if e.codec.statefulVoteEnabled.Load() {
				t.Fatalf("stateful enabled without stateless")
			}
			wasOn := e.codec.statefulVoteEnabled.Load()
			out, err := e.codec.compress(protocol.AgreementVoteTag, data)
			if err != nil {
				t.Fatalf("end %s: compress failed on a valid vote: %v", e.name, err)
			}
			if out != nil {
				if e.dead {
					t.Fatalf("end %s emitted a VP frame after stateful compression had to be off", e.name)
				}
				if !wasOn || string(out[:2]) != string(protocol.VotePackedTag) {
					t.Fatalf("end %s: unexpected compress output tag %q (enabled=%v)", e.name, out[:2], wasOn)
				}
				if len(out)-2 > vpack.MaxCompressedVoteSize {
					t.Fatalf("VP frame of %d bytes", len(out)-2)
				}
				if out[3]&0xe0 != 0 {
					refsSeen++
				}
				e.out = append(e.out, c42Wire{tag: protocol.VotePackedTag, data: append([]byte(nil), out[2:]...), orig: idx})
				e.lastVP = e.out[len(e.out)-1].data
				e.sentVP++
				mix(out)
			} else {
				if wasOn && !e.dead {
					t.Fatalf("end %s: stateful compression enabled but compress returned nothing", e.name)
				}
				e.out = append(e.out, c42Wire{tag: protocol.AgreementVoteTag, data: append([]byte(nil), data[2:]...), orig: idx})
				mix(data)
			}
		}

		deliver := func(to int) {
			src, e := ends[1-to], ends[to]
			if len(src.out) == 0 {
				return
			}
			m := src.out[0]
			src.out = src.out[1:]
			wasOn := e.codec.statefulVoteEnabled.Load()
			var d []byte
			var err error
			func() {
				defer func() {
					if r := recover(); r != nil {
						t.Fatalf("end %s: decompress panicked on %s frame % x: %v", e.name, m.tag, m.data, r)
					}
				}()
				d, err = e.codec.decompress(m.tag, append([]byte(nil), m.data...))
			}()
			isAbort := m.tag == protocol.VotePackedTag && len(m.data) == 1 && m.data[0] == voteCompressionAbortMessage
			if err != nil {
				var vc *voteCompressionError
				if !errors.As(err, &vc) {
					t.Fatalf("end %s: non-VP error from a vote message: %v", e.name, err)
				}
				if m.orig >= 0 && !e.tainted && !e.dead && !src.dead {
					t.Fatalf("end %s: genuine VP frame of vote %d rejected on an undisturbed connection: %v", e.name, m.orig, err)
				}
				if e.codec.statefulVoteEnabled.Load() {
					t.Fatalf("end %s: decode error (%v) did not switch stateful compression off", e.name, err)
				}
				if d != nil {
					t.Fatalf("end %s: data returned with an error", e.name)
				}
				e.dead = true
				// readLoop.handleVPError: notify the peer, drop the vote
				e.out = append(e.out, c42Wire{tag: protocol.VotePackedTag, data: []byte{voteCompressionAbortMessage}, orig: -1})
				drops++
				return
			}
			if isAbort {
				if d != nil || e.codec.statefulVoteEnabled.Load() {
					t.Fatalf("end %s: abort message not honoured (data=%v enabled=%v)", e.name, d != nil, e.codec.statefulVoteEnabled.Load())
				}
				e.dead = true
				return
			}
			if m.tag == protocol.VotePackedTag && (e.dead || !wasOn) && d != nil {
				t.Fatalf("end %s: produced a vote from a VP frame although stateful compression was off", e.name)
			}
			if d == nil {
				if m.orig >= 0 && !disturbed {
					t.Fatalf("end %s: vote %d lost on an undisturbed connection (tag %s)", e.name, m.orig, m.tag)
				}
				drops++
				return
			}
			if m.orig < 0 {
				// an injected frame that decodes as some vote: the peer "sent" it, the receiver's tables follow it
				e.tainted = true
				return
			}
			if m.tag == protocol.VotePackedTag && e.tainted {
				return // not comparable any more
			}
			if !bytes.Equal(d, originals[m.orig]) {
				t.Fatalf("end %s: vote %d delivered with different bytes (tag %s)\n orig % x\n got  % x", e.name, m.orig, m.tag, originals[m.orig], d)
			}
			delivered++
			e.gotVotes++
		}

		inject := func(into int) { // into the queue of end `into` (towards the other end)
			e := ends[into]
			var bad []byte
			kind := rapid.IntRange(0, 6).Draw(t, "injKind")
			base := e.lastVP
			if base == nil {
				kind = 0
			}
			switch kind {
			case 0:
				bad = make([]byte, rapid.IntRange(0, 300).Draw(t, "injLen"))
				rng.Read(bad)
				if len(bad) == 1 && bad[0] == voteCompressionAbortMessage {
					bad[0] = 0xfe
				}
			case 1:
				bad = append([]byte(nil), base[:rapid.IntRange(0, len(base)-1).Draw(t, "injTrunc")]...)
				if len(bad) == 1 && bad[0] == voteCompressionAbortMessage {
					bad = nil
				}
			case 2:
				bad = append([]byte(nil), base...)
				bad[1] |= 0xe0 // all references claimed
			case 3:
				bad = append(append([]byte(nil), base...), byte(rng.Intn(256)))
			case 4:
				bad = append([]byte(nil), base...)
				bad[1] = (bad[1] &^ 0x1c) | 7<<2 // oldest possible proposal reference
			case 5:
				// this end gives up on its own (what writeLoopSendMsg does when its encoder fails): switch off, then tell the peer
				if !disturbed {
					for _, w := range e.out {
						if w.tag == protocol.VotePackedTag && w.orig >= 0 {
							inFlightAtDisturbance++
						}
					}
				}
				disturbed = true
				e.codec.switchOffStatefulVoteCompression()
				e.dead = true
				e.out = append(e.out, c42Wire{tag: protocol.VotePackedTag, data: []byte{voteCompressionAbortMessage}, orig: -1})
				return
			default:
				bad = append([]byte(nil), base...)
				p := rapid.IntRange(0, len(bad)-1).Draw(t, "injFlip")
				bad[p] ^= 1 << uint(rapid.IntRange(0, 7).Draw(t, "injBit"))
			}
			pos := rapid.IntRange(0, len(e.out)).Draw(t, "injPos")
			if !disturbed {
				for _, w := range e.out[pos:] {
					if w.tag == protocol.VotePackedTag && w.orig >= 0 {
						inFlightAtDisturbance++
					}
				}
			}
			disturbed = true
			q := append([]c42Wire(nil), e.out[:pos]...)
			q = append(q, c42Wire{tag: protocol.VotePackedTag, data: bad, orig: -1})
			e.out = append(q, e.out[pos:]...)
			mix(bad)
		}

		steps := rapid.IntRange(5, 120).Draw(t, "steps")
		injections := 0
		for s := 0; s < steps; s++ {
			switch a := rapid.IntRange(0, 19).Draw(t, "action"); {
			case a < 10:
				send(rapid.IntRange(0, 1).Draw(t, "from"))
			case a < 17:
				deliver(rapid.IntRange(0, 1).Draw(t, "to"))
			default:
				if injections < 3 {
					inject(rapid.IntRange(0, 1).Draw(t, "into"))
					injections++
				}
			}
		}
		// drain: every queued message is processed (aborts generated meanwhile are delivered too)
		for guard := 0; (len(ends[0].out) > 0 || len(ends[1].out) > 0) && guard < 10000; guard++ {
			deliver(0)
			deliver(1)
		}
		// after the dust settles a dead end must have told its peer: both ends agree that stateful compression is off
		if (ends[0].dead || ends[1].dead) && (ends[0].codec.statefulVoteEnabled.Load() || ends[1].codec.statefulVoteEnabled.Load()) {
			t.Fatalf("after an abort the two ends disagree: A enabled=%v B enabled=%v", ends[0].codec.statefulVoteEnabled.Load(), ends[1].codec.statefulVoteEnabled.Load())
		}
		// and plain traffic still flows losslessly afterwards
		if ends[0].dead || ends[1].dead {
			disturbedBefore := disturbed
			disturbed = false // from here on nothing may be lost again
			before := delivered
			send(0)
			send(1)
			deliver(0)
			deliver(1)
			if delivered != before+2 {
				t.Fatalf("votes lost after falling back to AV")
			}
			disturbed = disturbedBefore
		}

		nt := wantOn && refsSeen > 0 && injections > 0 && inFlightAtDisturbance > 0
		vk.Case(nt, fmt.Sprintf("%v/%x", metas, h))
		vk.Labelf("negotiated=%d", func() uint {
			if wantOn {
				return wantSize
			}
			return 0
		}())
		if injections > 0 {
			vk.Label("disturbed")
		}
		if ends[0].dead || ends[1].dead {
			vk.Label("aborted")
		}
		if ends[0].tainted || ends[1].tainted {
			vk.Label("injected-frame-accepted-as-vote")
		}
		if inFlightAtDisturbance > 0 {
			vk.Label("vp-in-flight-at-disturbance")
		}
		vk.Add("votes_sent", int64(len(originals)))
		vk.Add("votes_delivered_identical", int64(delivered))
		vk.Add("messages_dropped", int64(drops))
		vk.Add("vp_frames_with_refs", int64(refsSeen))
		if vk.WantSample(nt) {
			vk.Sample(nt, map[string]interface{}{"configs": fmt.Sprintf("%+v", metas), "negotiated": wantSize, "on": wantOn, "votes": len(originals),
				"delivered": delivered, "dropped": drops, "injections": injections, "aborted": ends[0].dead || ends[1].dead})
		}
	})
}
