package network

// C43 — Peers never deliver oversized or duplicate gossip to handlers.
//
// Units:
//   TestVerif_C43_Slurper   rapid: LimitedReaderSlurper alone, memory inspected from inside every Read call of the source.
//   TestVerif_C43_Filter    rapid: messageFilter alone against the guaranteed-retention reference model.
//   TestVerif_C43_ReadLoop  rapid: real wsPeer.readLoop goroutines (1..4 peers sharing one incoming filter and one
//                           readBuffer) on fake connections whose readers deliver generated chunkings.
//
// Determinism of the read-loop unit: the fake connection hands a frame to a read loop only when the harness says so,
// and the harness does not release the next frame (to any peer) before the loop that got the previous one is back in
// NextReader or has exited. Exactly one frame is in flight, so the verdict does not depend on goroutine scheduling.

import (
	"bytes"
	"crypto/sha256"
	"fmt"
	"io"
	mrand "math/rand"
	"net"
	"sync"
	"testing"
	"time"

	"github.com/DataDog/zstd"
	"github.com/gorilla/websocket"
	"pgregory.net/rapid"

	"github.com/algorand/go-algorand/logging"
	"github.com/algorand/go-algorand/network/vpack"
	"github.com/algorand/go-algorand/protocol"
)

// ---------------------------------------------------------------------------------------------------------------
// virtual payloads

const c43PatLen = 65521 // prime

var c43Pat = func() []byte {
	b := make([]byte, c43PatLen)
	mrand.New(mrand.NewSource(4343)).Read(b)
	return b
}()

// c43Fill writes payload bytes [off, off+len(p)) of the pattern message with the given seed.
func c43Fill(p []byte, seed uint32, off int) {
	i := (int(seed%c43PatLen) + off) % c43PatLen
	for n := 0; n < len(p); {
		c := copy(p[n:], c43Pat[i:])
		n += c
		i = 0
	}
}

func c43Payload(seed uint32, size int) []byte {
	b := make([]byte, size)
	c43Fill(b, seed, 0)
	return b
}

// c43Source is an io.Reader over head||body delivering bytes according to a chunk plan.
type c43Source struct {
	head     []byte // tag bytes (may be short)
	explicit []byte // body given explicitly, or
	seed     uint32 // ... a pattern body
	size     int    // body size
	zeroHead bool   // force body[0]=0 (keeps pattern proposals from looking like zstd frames)

	chunks      []int // cycled; <=0 means "as much as the caller accepts"
	zeroEvery   int   // every n-th call returns (0, nil)
	eofSeparate bool  // final data chunk returned with nil error, EOF on the following call
	failAt      int   // >=0: return a non-EOF error once this many bytes were delivered

	pos, calls, ci int
	onRead         func(reqLen int) // observation hook, called at the start of every Read
}

var errC43Broken = fmt.Errorf("c43: connection broke")

func (s *c43Source) total() int { return len(s.head) + s.size }

func (s *c43Source) Read(p []byte) (int, error) {
	s.calls++
	if s.onRead != nil {
		s.onRead(len(p))
	}
	if s.failAt >= 0 && s.pos >= s.failAt {
		return 0, errC43Broken
	}
	if s.pos >= s.total() {
		return 0, io.EOF
	}
	if s.zeroEvery > 0 && s.calls%s.zeroEvery == 0 {
		return 0, nil
	}
	if len(p) == 0 {
		return 0, nil
	}
	n := len(p)
	if len(s.chunks) > 0 {
		if c := s.chunks[s.ci%len(s.chunks)]; c > 0 && c < n {
			n = c
		}
		s.ci++
	}
	if n > s.total()-s.pos {
		n = s.total() - s.pos
	}
	if s.failAt >= 0 && s.pos+n > s.failAt {
		n = s.failAt - s.pos
	}
	w := 0
	for w < n {
		if s.pos < len(s.head) {
			c := copy(p[w:n], s.head[s.pos:])
			w += c
			s.pos += c
			continue
		}
		off := s.pos - len(s.head)
		if s.explicit != nil {
			c := copy(p[w:n], s.explicit[off:])
			w += c
			s.pos += c
		} else {
			c43Fill(p[w:n], s.seed, off)
			if s.zeroHead && off == 0 {
				p[w] = 0
			}
			s.pos += n - w
			w = n
		}
	}
	if s.pos >= s.total() && !s.eofSeparate {
		return n, io.EOF
	}
	return n, nil
}

func (s *c43Source) body() []byte {
	if s.explicit != nil {
		return s.explicit
	}
	b := c43Payload(s.seed, s.size)
	if s.zeroHead && len(b) > 0 {
		b[0] = 0
	}
	return b
}

// c43DrawChunks draws a chunk plan; byteWise plans are only used for small messages.
func c43DrawChunks(t *rapid.T, s *c43Source, total int) string {
	s.failAt = -1
	s.eofSeparate = rapid.Bool().Draw(t, "eofSeparate")
	if rapid.IntRange(0, 3).Draw(t, "zeroReads") == 0 {
		s.zeroEvery = rapid.IntRange(2, 5).Draw(t, "zeroEvery")
	}
	kind := rapid.IntRange(0, 5).Draw(t, "chunkKind")
	if total > 16384 && (kind == 1 || kind == 4) {
		kind = 2
	}
	switch kind {
	case 0:
		return "whole"
	case 1:
		s.chunks = []int{1}
		return "bytewise"
	case 2: // around the slurper's allocation geometry
		edges := []int{int(allocationStep) - 1, int(allocationStep), int(allocationStep) + 1, averageMessageLength - 1, averageMessageLength, averageMessageLength + 1, 4096, 32768}
		s.chunks = []int{edges[rapid.IntRange(0, len(edges)-1).Draw(t, "edgeChunk")]}
		return "edge"
	case 3:
		n := rapid.IntRange(1, 6).Draw(t, "nChunks")
		for i := 0; i < n; i++ {
			lo, hi := 1024, 70000
			if total <= 16384 {
				lo, hi = 1, 300
			}
			s.chunks = append(s.chunks, rapid.IntRange(lo, hi).Draw(t, "chunk"))
		}
		return "mixed"
	case 4:
		s.chunks = []int{1, 2, 3}
		return "tiny"
	default:
		s.chunks = []int{2, 0} // tag alone, then everything
		return "tag-then-rest"
	}
}

// ---------------------------------------------------------------------------------------------------------------
// (b) the slurper alone

func c43SlurperCap(s *LimitedReaderSlurper) (total uint64) {
	for _, b := range s.buffers {
		total += uint64(cap(b))
	}
	return
}

func TestVerif_C43_Slurper(t *testing.T) {
	vk := vkBegin(t, "C43")
	vk.Rule("one slurper (real base/max or small drawn ones) reads 1..6 messages in a row (Reset(limit) + Read) from chunked sources with zero-length reads, EOF with/without data and mid-stream errors; sizes at limit-1/limit/limit+1/limit+step+1/max+1 and at the buffer geometry; memory (sum of capacities) is inspected from inside every Read call; non-trivial = a message within 1 byte of its limit or larger, read in more than one chunk; distinct by (geometry, limits, sizes, chunk plans)")
	vk.Assume("interpretation (DESIGN C43): the slurper allocates in allocationStep (64 KiB) pieces and checks the limit after each read, so 'never buffers more than the limit' is checked as: capacity held <= max(base, limit + allocationStep) and <= the configured maximum")
	rapid.Check(t, func(t *rapid.T) {
		base, max := uint64(averageMessageLength), uint64(MaxMessageLength)
		realGeom := rapid.IntRange(0, 2).Draw(t, "realGeometry") != 1
		if !realGeom {
			base = uint64(rapid.SampledFrom([]int{0, 1, 100, 2048, 65536, 70000, 200000}).Draw(t, "base"))
			max = uint64(rapid.SampledFrom([]int{1, 2048, 65535, 65536, 65537, 131072, 200000, 300001}).Draw(t, "max"))
		}
		sl := MakeLimitedReaderSlurper(base, max)
		if base > max {
			base = max
		}
		if c := c43SlurperCap(sl); c != base {
			t.Fatalf("fresh slurper holds %d bytes, base is %d", c, base)
		}
		nmsg := rapid.IntRange(1, 6).Draw(t, "nMessages")
		fp := fmt.Sprintf("g%d/%d", base, max)
		nt := false
		for mi := 0; mi < nmsg; mi++ {
			// limit: a tag limit, 0 (= no per-message limit), or a drawn small one
			var limit uint64
			switch rapid.IntRange(0, 3).Draw(t, "limitKind") {
			case 0:
				limit = protocol.TagList[rapid.IntRange(0, len(protocol.TagList)-1).Draw(t, "tag")].MaxMessageSize()
			case 1:
				limit = 0
			default:
				limit = uint64(rapid.SampledFrom([]int{1, 2, 47, 48, 2047, 2048, 2049, 65535, 65536, 65537, 67584, 131072, 133120, 300000}).Draw(t, "limit"))
			}
			eff := limit // what actually bounds the message: the per-message limit, and always the configured maximum
			if eff == 0 || eff > max {
				eff = max
			}
			// size relative to the effective limit / the geometry
			var size uint64
			switch rapid.IntRange(0, 9).Draw(t, "sizeKind") {
			case 0:
				size = eff - 1
			case 1:
				size = eff
			case 2:
				size = eff + 1
			case 3:
				size = eff + allocationStep
			case 4:
				size = eff + allocationStep + 1
			case 5:
				size = max + 1
			case 6: // at the buffer edges: base + k*step (+-1)
				k := uint64(rapid.IntRange(0, 3).Draw(t, "edgeK"))
				size = base + k*allocationStep + uint64(rapid.IntRange(0, 2).Draw(t, "edgeD")) - 1
			case 7:
				size = uint64(rapid.IntRange(0, 300).Draw(t, "small"))
			default:
				size = uint64(rapid.Uint64Range(0, eff+eff/8+2).Draw(t, "anySize"))
			}
			if int64(size) < 0 {
				size = 0
			}
			if !vkThorough() && size > 1<<20 && rapid.IntRange(0, 3).Draw(t, "keepBig") != 0 {
				size = size % (1 << 18) // keep most quick-tier messages cheap
			}
			src := &c43Source{seed: rapid.Uint32().Draw(t, "seed"), size: int(size)}
			plan := c43DrawChunks(t, src, int(size))
			if rapid.IntRange(0, 11).Draw(t, "break") == 0 && size > 0 {
				src.failAt = rapid.IntRange(0, int(size)-1).Draw(t, "breakAt")
			}
			bound := eff + allocationStep
			if bound < base {
				bound = base
			}
			if bound > max {
				bound = max
			}
			var worst uint64
			src.onRead = func(int) {
				if c := c43SlurperCap(sl); c > worst {
					worst = c
				}
			}
			sl.Reset(limit)
			if c := c43SlurperCap(sl); c != base {
				t.Fatalf("message %d: after Reset the slurper still holds %d bytes (base %d)", mi, c, base)
			}
			err := sl.Read(src)
			if c := c43SlurperCap(sl); c > worst {
				worst = c
			}
			if worst > bound {
				t.Fatalf("message %d (size %d, limit %d, base %d, max %d, plan %s): slurper held %d bytes > max(base, limit+step)=%d", mi, size, limit, base, max, plan, worst, bound)
			}
			fp += fmt.Sprintf("|%d,%d,%s,%v,%d,%d", limit, size, plan, src.chunks, src.zeroEvery, src.failAt)
			over := size > eff
			switch {
			case src.failAt >= 0 && (uint64(src.failAt) <= eff):
				// the stream breaks before the limit can be exceeded: the source's error must surface
				if err != errC43Broken {
					t.Fatalf("message %d: source broke at %d (size %d limit %d) but Read returned %v", mi, src.failAt, size, limit, err)
				}
				vk.Label("slurper:source-error")
			case over:
				if err != ErrIncomingMsgTooLarge {
					t.Fatalf("message %d: size %d exceeds limit %d (max %d) but Read returned %v after consuming %d bytes (plan %s %v)", mi, size, limit, max, err, src.pos, plan, src.chunks)
				}
				if uint64(src.pos) > bound+1 {
					t.Fatalf("message %d: consumed %d bytes of an oversized message (limit %d, bound %d)", mi, src.pos, limit, bound)
				}
				vk.Label("slurper:too-large")
			default:
				if src.failAt >= 0 {
					if err != errC43Broken && err != ErrIncomingMsgTooLarge {
						t.Fatalf("message %d: broken oversized source, Read returned %v", mi, err)
					}
					break
				}
				if err != nil {
					t.Fatalf("message %d: size %d within limit %d (max %d) rejected: %v (plan %s %v)", mi, size, limit, max, err, plan, src.chunks)
				}
				if sl.Size() != size {
					t.Fatalf("message %d: Size()=%d want %d", mi, sl.Size(), size)
				}
				if got := sl.Bytes(); !bytes.Equal(got, src.body()) {
					t.Fatalf("message %d: content differs (size %d, plan %s %v zeroEvery %d)", mi, size, plan, src.chunks, src.zeroEvery)
				}
				vk.Label("slurper:accepted")
			}
			if size+1 >= eff && src.calls > 2 {
				nt = true
			}
			vk.Label("slurper-plan:" + plan)
		}
		vk.Case(nt, fp)
		if realGeom {
			vk.Label("slurper:real-geometry")
		}
		if vk.WantSample(nt) {
			vk.Sample(nt, fp)
		}
	})
}

// ---------------------------------------------------------------------------------------------------------------
// (c) the filter alone: guaranteed retention reference model

// c43Retention is the reference model of what the filter promises. A key sighted (inserted, or found with promote)
// at time t is guaranteed to be reported as present as long as fewer than (buckets-1)*bucketSize further additions
// happened. Every add-call counts as one possible addition (an upper bound), so the model only ever under-promises.
type c43Retention struct {
	guarantee int
	adds      int            // add-calls so far
	seenAt    map[string]int // key -> value of adds right after its last refreshing sighting
}

func c43NewRetention(buckets, size int) *c43Retention {
	return &c43Retention{guarantee: (buckets - 1) * size, seenAt: map[string]int{}}
}

// expect returns (mustBePresent, mustBeAbsent).
func (m *c43Retention) expect(key string) (bool, bool) {
	at, ok := m.seenAt[key]
	if !ok {
		return false, true
	}
	return m.adds-at < m.guarantee, false
}

// observe records a call's outcome. refreshed = the call left the key in (or moved it to) the newest bucket.
func (m *c43Retention) observe(key string, add, promote, has bool) {
	if !add {
		return
	}
	m.adds++
	if !has || promote {
		m.seenAt[key] = m.adds
	}
}

func TestVerif_C43_Filter(t *testing.T) {
	vk := vkBegin(t, "C43")
	vk.Rule("one messageFilter with 1..6 buckets of 1..8 entries; 20..400 CheckIncomingMessage calls over a small pool of (tag,payload) keys (same payload under AV and TX included) with add/promote flags drawn (the read loop uses add+promote); non-trivial = a key was re-sighted inside its guaranteed window after at least one rotation, and some key aged out; distinct by parameters + call sequence")
	rapid.Check(t, func(t *rapid.T) {
		B := rapid.IntRange(1, 6).Draw(t, "buckets")
		S := rapid.IntRange(1, 8).Draw(t, "bucketSize")
		f := makeMessageFilter(B, S)
		model := c43NewRetention(B, S)
		nkeys := rapid.IntRange(1, 3*B*S+4).Draw(t, "nKeys")
		tags := []protocol.Tag{protocol.AgreementVoteTag, protocol.TxnTag}
		n := rapid.IntRange(20, 400).Draw(t, "nCalls")
		readLoopOnly := rapid.Bool().Draw(t, "readLoopFlagsOnly")
		fp := fmt.Sprintf("B%dS%d", B, S)
		hits, aged := 0, 0
		for i := 0; i < n; i++ {
			k := rapid.IntRange(0, nkeys-1).Draw(t, "key")
			if rapid.IntRange(0, 3).Draw(t, "recent") == 0 && i > 0 {
				k = (k % 3) // a hot subset
			}
			tag := tags[k%2]
			payload := []byte(fmt.Sprintf("payload-%d", k/2)) // keys 2j and 2j+1 share the payload under different tags
			key := string(tag) + string(payload)
			add, promote := true, true
			if !readLoopOnly {
				add = rapid.IntRange(0, 4).Draw(t, "add") != 2
				promote = rapid.IntRange(0, 4).Draw(t, "promote") != 2
			}
			mustHave, mustNot := model.expect(key)
			has := f.CheckIncomingMessage(tag, payload, add, promote)
			if mustHave && !has {
				t.Fatalf("call %d: %q was sighted %d additions ago (guarantee %d = (%d-1)*%d) but the filter forgot it", i, key, model.adds-model.seenAt[key], model.guarantee, B, S)
			}
			if mustNot && has {
				t.Fatalf("call %d: %q was never added but the filter reports it as a duplicate", i, key)
			}
			if has && mustHave && model.adds-model.seenAt[key] >= S {
				hits++
			}
			if !has && !mustNot {
				aged++
			}
			model.observe(key, add, promote, has)
			fp += fmt.Sprintf(",%d%v%v", k, add, promote)
		}
		nt := hits > 0 && aged > 0
		vk.Case(nt, fp)
		vk.Labelf("filter:buckets=%d", B)
		if aged > 0 {
			vk.Label("filter:aged-out")
		}
		if hits > 0 {
			vk.Label("filter:retained-across-rotation")
		}
		if vk.WantSample(nt) {
			vk.Sample(nt, map[string]int{"buckets": B, "size": S, "keys": nkeys, "calls": n, "retainedAcrossRotation": hits, "agedOut": aged})
		}
	})
}

// ---------------------------------------------------------------------------------------------------------------
// (a)+(c) the read loop

type c43Net struct {
	GossipNode // nil: only peerRemoteClose is reached from the read loop
	mu         sync.Mutex
	closed     map[*wsPeer]disconnectReason
}

func (n *c43Net) peerRemoteClose(p *wsPeer, r disconnectReason) {
	n.mu.Lock()
	n.closed[p] = r
	n.mu.Unlock()
}

type c43Item struct {
	mtype int
	src   *c43Source
	err   error
}

type c43Conn struct {
	feed   chan c43Item
	idle   chan struct{}
	closed chan struct{}
	once   sync.Once
}

func c43NewConn() *c43Conn {
	return &c43Conn{feed: make(chan c43Item), idle: make(chan struct{}), closed: make(chan struct{})}
}

func (c *c43Conn) RemoteAddr() net.Addr      { return &net.TCPAddr{IP: net.IPv4(10, 0, 0, 1), Port: 1} }
func (c *c43Conn) RemoteAddrString() string  { return "10.0.0.1:1" }
func (c *c43Conn) UnderlyingConn() net.Conn  { return nil }
func (c *c43Conn) SetReadLimit(int64)        {}
func (c *c43Conn) WriteMessage(int, []byte) error { return nil }
func (c *c43Conn) CloseWithMessage([]byte, time.Time) error { return nil }
func (c *c43Conn) CloseWithoutFlush() error {
	c.once.Do(func() { close(c.closed) })
	return nil
}

func (c *c43Conn) NextReader() (int, io.Reader, error) {
	select {
	case c.idle <- struct{}{}:
	case <-c.closed:
		return 0, nil, io.ErrClosedPipe
	}
	select {
	case it := <-c.feed:
		if it.err != nil {
			return 0, nil, it.err
		}
		return it.mtype, it.src, nil
	case <-c.closed:
		return 0, nil, io.ErrClosedPipe
	}
}

type c43Peer struct {
	wp      *wsPeer
	conn    *c43Conn
	done    chan struct{}
	alive   bool
	vp      bool // negotiated vote compression (stateless + stateful)
	vpOff   bool // stateful compression was switched off on this connection
	enc     *vpack.StatefulEncoder
	encSync bool // harness encoder still in step with the peer's decoder
}

type c43Expect struct {
	deliver    bool   // must be delivered (exactly want, tagged wantTag)
	suppress   bool   // must not be delivered
	mustEnd    bool   // the connection must end
	wantTag    protocol.Tag
	want       []byte
	dedupKey   string // non-empty: goes through the incoming filter
	boundBytes int    // >=0: the loop may consume at most this many body bytes
	either     bool   // delivery is not predicted (beyond the filter's guarantee, or an excluded class)
	isVote     bool   // body is the msgpack encoding of a vote
	label      string
}

var c43Deliverable = map[protocol.Tag]bool{
	protocol.AgreementVoteTag: true, protocol.TxnTag: true, protocol.ProposalPayloadTag: true, protocol.NetPrioResponseTag: true,
	protocol.StateProofSigTag: true, protocol.UniEnsBlockReqTag: true, protocol.VoteBundleTag: true, protocol.NetIDVerificationTag: true,
}

func c43Bound(limit uint64) int {
	eff := limit
	if eff == 0 || eff > MaxMessageLength {
		eff = MaxMessageLength
	}
	b := eff + allocationStep
	if b < averageMessageLength {
		b = averageMessageLength
	}
	if b > MaxMessageLength {
		b = MaxMessageLength
	}
	return int(b) + 1 // +1: the probe byte read when the slurper is full
}

func TestVerif_C43_ReadLoop(t *testing.T) {
	vk := vkBegin(t, "C43")
	vk.Rule("1..4 real wsPeer.readLoop goroutines on fake connections share one incomingMsgFilter (1..5 buckets x 1..6) and one readBuffer; 3..40 frames are released one at a time to drawn peers: every tag (plus unknown/deprecated ones), body sizes small / limit-1 / limit / limit+1 / limit+64KiB+1 / 6MiB(+1), zstd proposals expanding to around MaxDecompressedMessageSize, genuine and broken VP/AV vote frames on compression-enabled peers, duplicates of earlier dedup-safe messages from the same or another peer; chunk plans bytewise / buffer-edge / mixed with zero-length reads and EOF-with-data; non-trivial = (an over-limit frame ended a connection and a frame within 1 byte of its limit was delivered) or a duplicate sent through a different peer was suppressed; distinct by filter geometry + hash of frames")
	vk.Assume("interpretation (DESIGN C43): while reading one message the loop may take up to max(2KiB, limit+64KiB) (+1 probe byte) from the connection before it rejects it")
	vk.Assume("empty AV/TX payloads bypass the incoming filter (len(msg.Data) > 0 guard in readLoop) and are excluded from the duplicate expectation")
	log := logging.NewLogger()
	log.SetOutput(io.Discard)
	log.SetLevel(logging.Panic)

	rapid.Check(t, func(t *rapid.T) {
		rng := mrand.New(mrand.NewSource(rapid.Int64().Draw(t, "bytesSeed")))
		B := rapid.IntRange(1, 5).Draw(t, "buckets")
		S := rapid.IntRange(1, 6).Draw(t, "bucketSize")
		filter := makeMessageFilter(B, S)
		model := c43NewRetention(B, S)
		netw := &c43Net{closed: map[*wsPeer]disconnectReason{}}
		readBuffer := make(chan IncomingMessage)
		npeers := rapid.IntRange(1, 4).Draw(t, "nPeers")
		peers := make([]*c43Peer, npeers)
		for i := range peers {
			p := &c43Peer{conn: c43NewConn(), done: make(chan struct{}), alive: true}
			p.vp = rapid.IntRange(0, 2).Draw(t, "vpPeer") == 1
			wp := &wsPeer{
				wsPeerCore:         wsPeerCore{net: netw, log: log, readBuffer: readBuffer, originAddress: fmt.Sprintf("p%d", i)},
				conn:               p.conn,
				closing:            make(chan struct{}),
				sendBufferHighPrio: make(chan sendMessage, 256),
				sendBufferBulk:     make(chan sendMessage, 256),
				incomingMsgFilter:  filter,
				processed:          make(chan struct{}, msgsInReadBufferPerPeer),
				responseChannels:   make(map[uint64]chan *Response),
			}
			for j := 0; j < msgsInReadBufferPerPeer; j++ {
				wp.processed <- struct{}{}
			}
			if p.vp {
				wp.enableVoteCompression = true
				wp.voteCompressionTableSize = 32
				wp.features = pfCompressedVoteVpack | pfCompressedVoteVpackStateful32
				p.enc, _ = vpack.NewStatefulEncoder(32)
				p.encSync = true
			}
			wp.outstandingTopicRequests.Store(int64(rapid.IntRange(0, 2).Draw(t, "outstandingTS")))
			wp.msgCodec = makeWsPeerMsgCodec(wp)
			if p.vp && !wp.msgCodec.statefulVoteEnabled.Load() {
				t.Fatalf("harness: stateful compression not negotiated")
			}
			p.wp = wp
			peers[i] = p
			wp.wg.Add(1)
			go wp.readLoop()
			go func() { wp.wg.Wait(); close(p.done) }()
		}
		// every loop starts by asking for a frame; atReader[i] = the harness has seen peer i arrive in NextReader
		atReader := make([]bool, npeers)
		// join every goroutine before the case ends, whatever happens (also when the case fails half-way through a frame)
		defer func() {
			closeItem := c43Item{err: &websocket.CloseError{Code: websocket.CloseNormalClosure}}
			for i, p := range peers {
				idleCh := p.conn.idle
				var feedCh chan c43Item
				if atReader[i] {
					idleCh, feedCh = nil, p.conn.feed
				}
				for joined := false; !joined; {
					select {
					case m := <-readBuffer:
						m.processing <- struct{}{}
					case <-idleCh:
						idleCh, feedCh = nil, p.conn.feed
					case feedCh <- closeItem:
						feedCh = nil
					case <-p.done:
						joined = true
					}
				}
			}
		}()

		type sent struct {
			tag    protocol.Tag
			data   []byte // as delivered
			raw    *c43Source
			isVote bool
		}
		var dedupSent []sent // earlier dedup-safe messages that may be repeated
		var otherSent []sent // earlier small messages under tags that must never be de-duplicated
		dedupSentVotes, dedupSentTx, dedupSentPlainAV := 0, 0, 0
		var votes [][]byte   // msgpack votes generated so far
		overLimitEnds, nearLimitDelivered, dupSuppressed, crossPeerDup, delivered := 0, 0, 0, 0, 0
		lastSender := map[string]int{}
		h := sha256.New()

		nframes := rapid.IntRange(3, 40).Draw(t, "nFrames")
		bigBudget := 1
		if vkThorough() {
			bigBudget = 6
		}
		for fi := 0; fi < nframes; fi++ {
			// pick a live peer
			var live []int
			for i, p := range peers {
				if p.alive {
					live = append(live, i)
				}
			}
			if len(live) == 0 {
				break
			}
			pi := live[rapid.IntRange(0, len(live)-1).Draw(t, "peer")]
			p := peers[pi]
			if !atReader[pi] {
				select {
				case <-p.conn.idle:
					atReader[pi] = true
				case <-p.done:
					t.Fatalf("peer %d: read loop exited before any frame", pi)
				}
			}

			// ---- build a frame and what must happen to it
			src := &c43Source{}
			exp := c43Expect{boundBytes: -1}
			var tag protocol.Tag
			mtype := websocket.BinaryMessage
			kind := rapid.IntRange(0, 19).Draw(t, "frameKind")
			switch {
			case kind <= 1 && c43HasRepeatable(dedupSentVotes, dedupSentTx, dedupSentPlainAV, p.vp): // repeat an earlier dedup-safe message (through this or another peer)
				// pattern AV payloads are only ever sent to peers without vote compression (a vote decoder could
				// reinterpret them); votes are repeated in their raw msgpack form, which every peer passes through
				var cands []int
				for i, d := range dedupSent {
					if d.isVote || d.tag == protocol.TxnTag || !p.vp {
						cands = append(cands, i)
					}
				}
				prev := dedupSent[cands[rapid.IntRange(0, len(cands)-1).Draw(t, "dupOf")]]
				tag = prev.tag
				if prev.isVote {
					src = &c43Source{explicit: prev.data, size: len(prev.data)}
					exp.isVote = true
				} else {
					src = &c43Source{seed: prev.raw.seed, size: prev.raw.size, zeroHead: prev.raw.zeroHead}
				}
				exp.wantTag, exp.want = tag, prev.data
				exp.dedupKey = c43Key(tag, prev.data)
				exp.label = "repeat"
			case (kind == 2 || kind == 7) && p.vp: // genuine votes on a compression-enabled connection
				var v c42NVote
				rng.Read(v.pf[:])
				v.pf[0] |= 1
				rng.Read(v.snd[:])
				v.snd[0] |= 1
				rng.Read(v.p[:])
				rng.Read(v.p1s[:])
				rng.Read(v.p2[:])
				rng.Read(v.p2s[:])
				rng.Read(v.s[:])
				v.s[0] |= 1
				v.rnd = uint64(rapid.IntRange(1, 70000).Draw(t, "rnd"))
				v.step = uint64(rapid.IntRange(0, 3).Draw(t, "step"))
				if rapid.Bool().Draw(t, "withProp") {
					rng.Read(v.dig[:])
					v.dig[0] |= 1
					rng.Read(v.encdig[:])
					v.encdig[0] |= 1
					rng.Read(v.oprop[:])
					v.oprop[0] |= 1
				}
				mp := v.encode()
				if len(votes) > 0 && rapid.IntRange(0, 2).Draw(t, "voteAgain") == 0 {
					mp = votes[rapid.IntRange(0, len(votes)-1).Draw(t, "voteIdx")]
				}
				votes = append(votes, mp)
				sl, err := vpack.NewStatelessEncoder().CompressVote(nil, mp)
				if err != nil {
					t.Fatalf("harness: %v", err)
				}
				tag = protocol.AgreementVoteTag
				exp.wantTag, exp.want, exp.isVote = protocol.AgreementVoteTag, mp, true
				exp.dedupKey = c43Key(protocol.AgreementVoteTag, mp)
				switch form := rapid.IntRange(0, 2).Draw(t, "voteForm"); {
				case form == 0:
					src.explicit = mp // uncompressed vote from a peer that supports compression: passed through
					exp.label = "vote-raw"
				case form == 1 || p.vpOff || !p.encSync:
					src.explicit = sl
					exp.label = "vote-stateless"
				default:
					fr, err := p.enc.Compress(nil, sl)
					if err != nil {
						t.Fatalf("harness: %v", err)
					}
					src.explicit = append([]byte(nil), fr...)
					tag = protocol.VotePackedTag
					exp.label = "vote-stateful"
				}
				src.size = len(src.explicit)
			case kind == 3 && p.vp: // broken VP frame: anything shorter than header+proof cannot be a vote
				tag = protocol.VotePackedTag
				n := rapid.IntRange(0, 81).Draw(t, "vpGarbageLen")
				src.explicit = make([]byte, n)
				rng.Read(src.explicit)
				if n == 1 && src.explicit[0] == voteCompressionAbortMessage && rapid.Bool().Draw(t, "notAbort") {
					src.explicit[0] = 1
				}
				src.size = n
				exp.suppress = true
				exp.label = "vp-broken"
			case kind == 4: // compressed proposal
				tag = protocol.ProposalPayloadTag
				lim := MaxDecompressedMessageSize
				raws := []int{100, 70000, lim - 1, lim, lim + 1, lim + 4096, MaxMessageLength + 1}
				ri := rapid.IntRange(0, len(raws)-1).Draw(t, "ppRaw")
				if ri >= 2 {
					if bigBudget == 0 {
						ri = rapid.IntRange(0, 1).Draw(t, "ppRawSmall")
					} else {
						bigBudget--
					}
				}
				raw := c43Payload(rapid.Uint32().Draw(t, "ppSeed"), raws[ri])
				comp, err := zstd.CompressLevel(nil, raw, zstd.BestSpeed)
				if err != nil || !bytes.HasPrefix(comp, zstdCompressionMagic[:]) {
					t.Fatalf("harness: zstd: %v", err)
				}
				src.explicit, src.size = comp, len(comp)
				if len(raw) <= lim {
					exp.deliver, exp.wantTag, exp.want = true, tag, raw
					if len(raw) >= lim-1 {
						exp.label = "pp-zstd-at-limit"
					} else {
						exp.label = "pp-zstd"
					}
				} else {
					exp.suppress, exp.mustEnd = true, true
					exp.label = "pp-zstd-bomb"
				}
			case (kind == 6 || kind == 8) && len(otherSent) > 0: // repeat a message of a tag that is not safe to de-duplicate: must be delivered again
				prev := otherSent[rapid.IntRange(0, len(otherSent)-1).Draw(t, "otherDupOf")]
				tag = prev.tag
				src = &c43Source{seed: prev.raw.seed, size: prev.raw.size, zeroHead: prev.raw.zeroHead}
				exp.deliver, exp.wantTag, exp.want = true, tag, prev.data
				exp.label = "repeat-not-dedup-safe"
			case kind == 5: // frame too short to carry a tag, or not binary
				tag = ""
				src.head = []byte("AV")[:rapid.IntRange(0, 1).Draw(t, "shortHead")]
				if rapid.Bool().Draw(t, "textFrame") {
					mtype = websocket.TextMessage
					src.head = []byte("AV")
					src.size = 10
				}
				exp.suppress = true
				exp.label = "malformed-frame"
			default: // pattern body of a drawn size under a drawn tag
				allTags := append(append([]protocol.Tag{}, protocol.TagList...), protocol.PingTag, protocol.PingReplyTag, "XX", "zz", "av")
				tag = allTags[rapid.IntRange(0, len(allTags)-1).Draw(t, "tag")]
				if rapid.IntRange(0, 2).Draw(t, "dedupTag") == 0 {
					tag = []protocol.Tag{protocol.AgreementVoteTag, protocol.TxnTag}[rapid.IntRange(0, 1).Draw(t, "whichDedup")]
				}
				if p.vp && (tag == protocol.AgreementVoteTag || tag == protocol.VotePackedTag) {
					tag = protocol.TxnTag // see above: no pattern payloads into vote decoders
				}
				limit := tag.MaxMessageSize()
				eff := limit
				if eff == 0 {
					eff = MaxMessageLength
				}
				var size uint64
				switch rapid.IntRange(0, 13).Draw(t, "sizeKind") {
				case 0:
					size = eff - 1
				case 1:
					size = eff
				case 2:
					size = eff + 1
				case 3:
					size = []uint64{eff + allocationStep + 1, MaxMessageLength, MaxMessageLength + 1}[rapid.IntRange(0, 2).Draw(t, "farOver")]
				case 4:
					size = uint64(rapid.IntRange(0, 1).Draw(t, "tiny"))
				case 5:
					size = averageMessageLength + uint64(rapid.IntRange(0, 2).Draw(t, "baseD")) - 1
				default:
					size = uint64(rapid.IntRange(1, 3000).Draw(t, "small"))
				}
				if size > 1<<20 && eff > 1<<20 { // more than 1 MiB will be read (and maybe copied): rationed per case
					if bigBudget == 0 {
						size = uint64(rapid.IntRange(1, 3000).Draw(t, "smallInstead"))
					} else {
						bigBudget--
					}
				}
				src.seed, src.size = rapid.Uint32().Draw(t, "seed"), int(size)
				src.zeroHead = tag == protocol.ProposalPayloadTag
				exp.boundBytes = c43Bound(limit)
				exp.label = "plain"
				_, known := protocol.TagMap[tag]
				switch {
				case tag == protocol.TopicMsgRespTag:
					exp.suppress = true // responses go to request channels, never to handlers
					exp.boundBytes = -1 // unrequested responses are discarded by streaming
					exp.label = "ts"
				case known && size > limit:
					exp.suppress, exp.mustEnd = true, true
					exp.label = "over-limit"
				case !known:
					exp.suppress = true
					exp.mustEnd = size > MaxMessageLength
					exp.label = "unknown-tag"
				case tag == protocol.VotePackedTag: // plain peer: stateful compression not negotiated, VP is dropped
					exp.suppress = true
					exp.label = "vp-on-plain-peer"
				case !c43Deliverable[tag]:
					exp.suppress = true // MI / MS are consumed by the peer itself
					exp.label = "control"
				default:
					exp.wantTag, exp.want = tag, nil // filled below
					switch {
					case dedupSafeTag(tag) && size > 0:
						exp.dedupKey = "pending"
					case dedupSafeTag(tag):
						exp.either = true // empty payloads are not filtered; not part of the duplicate expectation
						vk.Excluded("empty AV/TX payload (bypasses the incoming filter)")
					default:
						exp.deliver = true
					}
					if size+1 >= limit {
						exp.label = "at-limit"
					} else if exp.either {
						exp.label = "empty-dedup-tag"
					}
				}
			}
			src.head = append([]byte(nil), src.head...)
			if tag != "" {
				src.head = []byte(tag)
			}
			plan := c43DrawChunks(t, src, src.total())
			if exp.want == nil && (exp.deliver || exp.dedupKey != "") {
				exp.want = src.body()
			}
			if exp.dedupKey == "pending" {
				exp.dedupKey = c43Key(tag, exp.want)
			}
			// dedup expectation from the reference model
			allowEither := exp.either
			if exp.dedupKey != "" {
				mustHave, mustNot := model.expect(exp.dedupKey)
				switch {
				case mustHave:
					exp.suppress = true
				case mustNot:
					exp.deliver = true
				default:
					allowEither = true
				}
			}
			// over-limit applies to vote frames as well
			if src.explicit != nil && tag != "" && uint64(src.size) > tag.MaxMessageSize() {
				exp.deliver, exp.suppress, exp.mustEnd, allowEither = false, true, true, false
			}
			fmt.Fprintf(h, "%d|%s|%d|%d|%s|%v|%d|%v;", pi, tag, src.size, src.seed, plan, src.chunks, src.zeroEvery, src.eofSeparate)

			// ---- release the frame and watch exactly one round of the loop
			p.conn.feed <- c43Item{mtype: mtype, src: src}
			atReader[pi] = false
			var got []IncomingMessage
			for waiting := true; waiting; {
				select {
				case m := <-readBuffer:
					got = append(got, m)
					m.processing <- struct{}{}
				case <-p.conn.idle:
					atReader[pi] = true
					waiting = false
				case <-p.done:
					p.alive = false
					waiting = false
				}
			}
			for drained := false; !drained; { // control messages queued for the (absent) write loop
				select {
				case <-p.wp.sendBufferHighPrio:
				case <-p.wp.sendBufferBulk:
				default:
					drained = true
				}
			}

			// ---- verdict
			desc := fmt.Sprintf("frame %d peer %d tag %q size %d (%s, plan %s %v zeroEvery=%d eofSeparate=%v)", fi, pi, tag, src.size, exp.label, plan, src.chunks, src.zeroEvery, src.eofSeparate)
			if len(got) > 1 {
				t.Fatalf("%s: %d messages delivered for one frame", desc, len(got))
			}
			for _, m := range got {
				lim := m.Tag.MaxMessageSize()
				if uint64(len(m.Data)) > lim {
					t.Fatalf("%s: delivered %d bytes under tag %s whose limit is %d", desc, len(m.Data), m.Tag, lim)
				}
				if w, ok := m.Sender.(*wsPeer); !ok || w != p.wp {
					t.Fatalf("%s: delivered message attributed to another peer", desc)
				}
				if exp.suppress && !allowEither {
					t.Fatalf("%s: must not reach the handlers but %d bytes were delivered under tag %s", desc, len(m.Data), m.Tag)
				}
				if exp.want != nil || exp.deliver {
					if m.Tag != exp.wantTag || !bytes.Equal(m.Data, exp.want) {
						t.Fatalf("%s: delivered message differs from what was sent (tag %s/%s, %d/%d bytes)", desc, m.Tag, exp.wantTag, len(m.Data), len(exp.want))
					}
				}
				delivered++
				if exp.label == "plain" && exp.dedupKey == "" && !dedupSafeTag(m.Tag) && len(m.Data) > 0 && len(m.Data) <= 4096 && len(otherSent) < 8 {
					otherSent = append(otherSent, sent{tag: m.Tag, data: exp.want, raw: src})
				}
				if exp.label == "at-limit" || exp.label == "pp-zstd-at-limit" {
					nearLimitDelivered++
				}
			}
			if len(got) == 0 && exp.deliver && !allowEither {
				t.Fatalf("%s: a message within its limit that must be delivered (never seen, or under a tag that is not de-duplicated) was not delivered (connection alive=%v)", desc, p.alive)
			}
			if exp.mustEnd && p.alive {
				t.Fatalf("%s: the connection stayed open", desc)
			}
			if exp.mustEnd {
				overLimitEnds++
				netw.mu.Lock()
				_, told := netw.closed[p.wp]
				netw.mu.Unlock()
				if !told {
					t.Fatalf("%s: connection ended without notifying the network", desc)
				}
			}
			if exp.boundBytes >= 0 {
				if bodyRead := src.pos - len(src.head); bodyRead > exp.boundBytes {
					t.Fatalf("%s: the loop took %d body bytes from the connection, bound %d", desc, bodyRead, exp.boundBytes)
				}
			}
			// model bookkeeping
			if exp.dedupKey != "" {
				// the filter was consulted iff the message got as far as the filter: it did unless the connection ended first
				reached := len(got) == 1 || (p.alive && !exp.mustEnd)
				if reached {
					has := len(got) == 0
					model.observe(exp.dedupKey, true, true, has)
					if has {
						dupSuppressed++
						if prev, ok := lastSender[exp.dedupKey]; ok && prev != pi {
							crossPeerDup++
						}
					} else if len(dedupSent) < 12 && len(exp.want) <= 1<<20 {
						dedupSent = append(dedupSent, sent{tag: exp.wantTag, data: exp.want, raw: src, isVote: exp.isVote})
						switch {
						case exp.isVote:
							dedupSentVotes++
						case exp.wantTag == protocol.TxnTag:
							dedupSentTx++
						default:
							dedupSentPlainAV++
						}
					}
					lastSender[exp.dedupKey] = pi
				}
			}
			if exp.label == "vp-broken" && !(src.size == 1 && src.explicit[0] == voteCompressionAbortMessage) {
				if p.wp.msgCodec.statefulVoteEnabled.Load() {
					t.Fatalf("%s: broken VP frame did not switch stateful compression off", desc)
				}
			}
			if p.vp && !p.wp.msgCodec.statefulVoteEnabled.Load() {
				p.vpOff = true
			}
			if exp.label == "vote-stateful" && len(got) == 0 && !exp.suppress && !allowEither {
				p.encSync = false
			}
			vk.Label("frame:" + exp.label)
			vk.Label("plan:" + plan)
		}

		nt := (overLimitEnds > 0 && nearLimitDelivered > 0) || crossPeerDup > 0
		vk.Case(nt, fmt.Sprintf("B%dS%dP%d/%x", B, S, npeers, h.Sum(nil)[:12]))
		vk.Add("frames_delivered", int64(delivered))
		vk.Add("connections_ended_by_oversize", int64(overLimitEnds))
		vk.Add("duplicates_suppressed", int64(dupSuppressed))
		vk.Add("cross_peer_duplicates_suppressed", int64(crossPeerDup))
		vk.Add("delivered_within_1_of_limit", int64(nearLimitDelivered))
		vk.Labelf("peers=%d", npeers)
		if vk.WantSample(nt) {
			vk.Sample(nt, map[string]int{"buckets": B, "bucketSize": S, "peers": npeers, "frames": nframes, "delivered": delivered,
				"oversizeEnds": overLimitEnds, "dupSuppressed": dupSuppressed, "crossPeerDup": crossPeerDup, "nearLimitDelivered": nearLimitDelivered})
		}
	})
}

func c43HasRepeatable(votes, tx, plainAV int, vpPeer bool) bool {
	if vpPeer {
		return votes+tx > 0
	}
	return votes+tx+plainAV > 0
}

// c43Key identifies a (tag, payload) pair for the harness's duplicate model (collision-free for all practical purposes).
func c43Key(tag protocol.Tag, body []byte) string {
	d := sha256.Sum256(body)
	return string(tag) + string(d[:])
}
