package vpack

// C42 — Vote compression is lossless and stays in sync.
//
// Units in this file (package vpack):
//   TestVerif_C42_Seq      rapid: vote sequences from small pools through all four layers, with malformed frames
//                          interleaved (fed to clones of the live decoder state).
//   TestVerif_C42_Masks    plain: every optional-field mask x every allowed table size x literal/ref repetition.
//   FuzzVerif_C42_Decoders native fuzz (thorough): arbitrary bytes into primed decoders.
//
// Oracles are independent of the code under test: the msgpack votes are produced by a canonical encoder written
// here (cross-checked against protocol.Decode/Encode of agreement.UnauthenticatedVote), the round trip is an
// inverse check, and the state comparison is a differential between the two ends of the connection.

import (
	"bytes"
	"encoding/binary"
	"fmt"
	"hash/fnv"
	"math"
	mrand "math/rand"
	"os"
	"path/filepath"
	"strconv"
	"testing"

	"pgregory.net/rapid"

	"github.com/algorand/go-algorand/agreement"
	"github.com/algorand/go-algorand/protocol"
)

// ---------------------------------------------------------------------------------------------------------------
// independent canonical msgpack encoder for an unauthenticated vote

type c42Vote struct {
	pf                           [80]byte
	per, oper, rnd, step         uint64
	dig, encdig, oprop, snd, p   [32]byte
	p2                           [32]byte
	p1s, p2s, s                  [64]byte
}

func c42AppendUint(b []byte, v uint64) []byte {
	switch {
	case v < 128:
		return append(b, byte(v))
	case v <= math.MaxUint8:
		return append(b, 0xcc, byte(v))
	case v <= math.MaxUint16:
		return append(b, 0xcd, byte(v>>8), byte(v))
	case v <= math.MaxUint32:
		return append(b, 0xce, byte(v>>24), byte(v>>16), byte(v>>8), byte(v))
	default:
		b = append(b, 0xcf)
		return binary.BigEndian.AppendUint64(b, v)
	}
}

func c42AppendStr(b []byte, s string) []byte {
	b = append(b, 0xa0|byte(len(s)))
	return append(b, s...)
}

func c42AppendBin(b []byte, d []byte) []byte {
	b = append(b, 0xc4, byte(len(d)))
	return append(b, d...)
}

func c42Zero(b []byte) bool {
	for _, x := range b {
		if x != 0 {
			return false
		}
	}
	return true
}

// optMask is the set of optional fields present (bit order as documented in vpack.go: per,dig,encdig,oper,oprop,step).
func (v *c42Vote) optMask() uint8 {
	var m uint8
	if v.per != 0 {
		m |= 1
	}
	if !c42Zero(v.dig[:]) {
		m |= 2
	}
	if !c42Zero(v.encdig[:]) {
		m |= 4
	}
	if v.oper != 0 {
		m |= 8
	}
	if !c42Zero(v.oprop[:]) {
		m |= 16
	}
	if v.step != 0 {
		m |= 32
	}
	return m
}

// encode renders the canonical (sorted keys, omitempty, shortest ints) msgpack encoding that protocol.Encode
// produces for agreement.UnauthenticatedVote. Requires pf, rnd, snd and sig to be non-zero (a sendable vote).
func (v *c42Vote) encode() []byte {
	m := v.optMask()
	b := make([]byte, 0, 640)
	b = append(b, 0x83)
	b = c42AppendStr(b, "cred")
	b = append(b, 0x81)
	b = c42AppendStr(b, "pf")
	b = c42AppendBin(b, v.pf[:])
	b = c42AppendStr(b, "r")
	nr := 2
	if m&1 != 0 {
		nr++
	}
	if m&(2|4|8|16) != 0 {
		nr++
	}
	if m&32 != 0 {
		nr++
	}
	b = append(b, 0x80|byte(nr))
	if m&1 != 0 {
		b = c42AppendStr(b, "per")
		b = c42AppendUint(b, v.per)
	}
	if m&(2|4|8|16) != 0 {
		np := 0
		for _, bit := range []uint8{2, 4, 8, 16} {
			if m&bit != 0 {
				np++
			}
		}
		b = c42AppendStr(b, "prop")
		b = append(b, 0x80|byte(np))
		if m&2 != 0 {
			b = c42AppendStr(b, "dig")
			b = c42AppendBin(b, v.dig[:])
		}
		if m&4 != 0 {
			b = c42AppendStr(b, "encdig")
			b = c42AppendBin(b, v.encdig[:])
		}
		if m&8 != 0 {
			b = c42AppendStr(b, "oper")
			b = c42AppendUint(b, v.oper)
		}
		if m&16 != 0 {
			b = c42AppendStr(b, "oprop")
			b = c42AppendBin(b, v.oprop[:])
		}
	}
	b = c42AppendStr(b, "rnd")
	b = c42AppendUint(b, v.rnd)
	b = c42AppendStr(b, "snd")
	b = c42AppendBin(b, v.snd[:])
	if m&32 != 0 {
		b = c42AppendStr(b, "step")
		b = c42AppendUint(b, v.step)
	}
	b = c42AppendStr(b, "sig")
	b = append(b, 0x86)
	b = c42AppendStr(b, "p")
	b = c42AppendBin(b, v.p[:])
	b = c42AppendStr(b, "p1s")
	b = c42AppendBin(b, v.p1s[:])
	b = c42AppendStr(b, "p2")
	b = c42AppendBin(b, v.p2[:])
	b = c42AppendStr(b, "p2s")
	b = c42AppendBin(b, v.p2s[:])
	b = c42AppendStr(b, "ps")
	b = c42AppendBin(b, make([]byte, 64))
	b = c42AppendStr(b, "s")
	b = c42AppendBin(b, v.s[:])
	return b
}

// c42CrossCheck validates the generator (not the code under test): the bytes must be exactly what the node's codec
// produces for the vote they decode to.
func c42CrossCheck(mp []byte) error {
	var uv agreement.UnauthenticatedVote
	if err := protocol.Decode(mp, &uv); err != nil {
		return fmt.Errorf("generator bug: protocol.Decode: %v", err)
	}
	if re := protocol.Encode(&uv); !bytes.Equal(re, mp) {
		return fmt.Errorf("generator bug: not the canonical encoding")
	}
	return nil
}

// ---------------------------------------------------------------------------------------------------------------
// in-package logical state comparison and cloning

func c42LRUDiff[K comparable](name string, a, b *lruTable[K]) string {
	if a.numBuckets != b.numBuckets || len(a.buckets) != len(b.buckets) {
		return fmt.Sprintf("%s: bucket counts differ %d/%d", name, a.numBuckets, b.numBuckets)
	}
	for i := range a.buckets {
		if a.buckets[i] != b.buckets[i] {
			return fmt.Sprintf("%s: bucket %d contents differ", name, i)
		}
		la := (a.mru[i>>3] >> (uint(i) & 7)) & 1
		lb := (b.mru[i>>3] >> (uint(i) & 7)) & 1
		if la != lb {
			return fmt.Sprintf("%s: bucket %d recency order differs (enc bit %d, dec bit %d)", name, i, la, lb)
		}
	}
	return ""
}

func c42WindowList(w *propWindow) []proposalEntry {
	out := make([]proposalEntry, 0, w.size)
	for i := 0; i < w.size; i++ {
		out = append(out, w.entries[(w.head+i)%proposalWindowSize])
	}
	return out
}

// c42StateDiff returns "" iff the two ends hold the same logical compression state.
func c42StateDiff(e, d *dynamicTableState) string {
	if e.lastRnd != d.lastRnd {
		return fmt.Sprintf("lastRnd differs: enc %d dec %d", e.lastRnd, d.lastRnd)
	}
	we, wd := c42WindowList(&e.proposalWindow), c42WindowList(&d.proposalWindow)
	if len(we) != len(wd) {
		return fmt.Sprintf("proposal window sizes differ: enc %d dec %d", len(we), len(wd))
	}
	for i := range we {
		if we[i] != wd[i] {
			return fmt.Sprintf("proposal window entry %d (oldest first) differs", i)
		}
	}
	if s := c42LRUDiff("sndTable", e.sndTable, d.sndTable); s != "" {
		return s
	}
	if s := c42LRUDiff("pkTable", e.pkTable, d.pkTable); s != "" {
		return s
	}
	return c42LRUDiff("pk2Table", e.pk2Table, d.pk2Table)
}

func c42CloneLRU[K comparable](t *lruTable[K]) *lruTable[K] {
	c := &lruTable[K]{numBuckets: t.numBuckets}
	c.buckets = append([]twoSlotBucket[K](nil), t.buckets...)
	c.mru = append([]byte(nil), t.mru...)
	return c
}

// c42CopyLRU overwrites dst (same geometry) with src without allocating.
func c42CopyLRU[K comparable](dst, src *lruTable[K]) {
	copy(dst.buckets, src.buckets)
	copy(dst.mru, src.mru)
}

func c42CopyState(dst, src *dynamicTableState) {
	c42CopyLRU(dst.sndTable, src.sndTable)
	c42CopyLRU(dst.pkTable, src.pkTable)
	c42CopyLRU(dst.pk2Table, src.pk2Table)
	dst.proposalWindow = src.proposalWindow
	dst.lastRnd = src.lastRnd
}

func c42CloneState(s *dynamicTableState) dynamicTableState {
	return dynamicTableState{
		sndTable:       c42CloneLRU(s.sndTable),
		pkTable:        c42CloneLRU(s.pkTable),
		pk2Table:       c42CloneLRU(s.pk2Table),
		proposalWindow: s.proposalWindow,
		lastRnd:        s.lastRnd,
	}
}

// ---------------------------------------------------------------------------------------------------------------
// helpers

var c42TableSizes = []uint{16, 32, 64, 128, 256, 512, 1024, 2048}

var c42UintPool = []uint64{0, 1, 2, 3, 126, 127, 128, 129, 254, 255, 256, 257, 65534, 65535, 65536, 65537,
	math.MaxUint32 - 1, math.MaxUint32, math.MaxUint32 + 1, math.MaxUint32 + 2, math.MaxUint64 - 1, math.MaxUint64}

// c42Try runs f and converts a panic into a value.
func c42Try(f func()) (pv interface{}) {
	defer func() {
		if r := recover(); r != nil {
			pv = r
		}
	}()
	f()
	return nil
}

// c42Dst models the ways callers hand a destination buffer to the codecs.
type c42Dst struct {
	mode  int
	reuse []byte
}

func (d *c42Dst) get(rng *mrand.Rand) []byte {
	switch d.mode {
	case 0:
		return nil
	case 1:
		return make([]byte, 0, MaxMsgpackVoteSize)
	case 2: // dirty reused buffer
		if d.reuse == nil {
			d.reuse = make([]byte, 1024)
		}
		rng.Read(d.reuse)
		return d.reuse[:0]
	default: // tiny buffer that must grow
		return make([]byte, 0, 3)
	}
}

// c42AcceptedFrameOracle is what must hold whenever the decoders accept some frame without an error, whatever the
// frame was: sizes within the documented maxima and the produced msgpack is a well-formed vote which the stateless
// layer maps to itself (so "accepted" never yields bytes that are not a vote).
func c42AcceptedFrameOracle(stateless []byte) (msgpack []byte, note string, violation string) {
	if len(stateless) > MaxCompressedVoteSize {
		return nil, "", fmt.Sprintf("accepted frame expands to %d stateless bytes > MaxCompressedVoteSize %d", len(stateless), MaxCompressedVoteSize)
	}
	var m []byte
	var err error
	if pv := c42Try(func() { m, err = NewStatelessDecoder().DecompressVote(nil, stateless) }); pv != nil {
		return nil, "", fmt.Sprintf("StatelessDecoder panicked on output of StatefulDecoder: %v", pv)
	}
	if err != nil {
		return nil, "stateless-rejects", ""
	}
	if len(m) > MaxMsgpackVoteSize {
		return nil, "", fmt.Sprintf("accepted frame yields %d msgpack bytes > MaxMsgpackVoteSize", len(m))
	}
	var c, m2 []byte
	if pv := c42Try(func() { c, err = NewStatelessEncoder().CompressVote(nil, m) }); pv != nil {
		return nil, "", fmt.Sprintf("StatelessEncoder panicked on decoder output: %v", pv)
	}
	if err != nil {
		return nil, "", fmt.Sprintf("decoder produced msgpack that is not a vote: %v (% x)", err, m)
	}
	m2, err = NewStatelessDecoder().DecompressVote(nil, c)
	if err != nil || !bytes.Equal(m, m2) {
		return nil, "", fmt.Sprintf("decoder output is not a fixed point of the stateless layer (err=%v)", err)
	}
	return m, "accepted", ""
}

// ---------------------------------------------------------------------------------------------------------------
// generator: pools with crafted LRU bucket collisions

type c42Pools struct {
	tableSize uint
	snd       [][32]byte
	pk        []pkSigPair
	props     []c42Vote // only the proposal fields are used
	rounds    []uint64
	pers      []uint64
	steps     []uint64
	pfs       [][80]byte
}

func c42Fill(rng *mrand.Rand, b []byte) { rng.Read(b) }

// craft the low 16 bits of the table hash (documented in dynamic_vpack.go: XOR of little-endian words) so that the
// value lands in the wanted bucket whatever the table size; only used to bias the generator towards collisions.
func c42CraftAddr(rng *mrand.Rand, bucket uint16) (a [32]byte) {
	c42Fill(rng, a[:])
	h := binary.LittleEndian.Uint16(a[0:]) ^ binary.LittleEndian.Uint16(a[8:]) ^ binary.LittleEndian.Uint16(a[16:]) ^ binary.LittleEndian.Uint16(a[24:])
	fix := h ^ bucket
	binary.LittleEndian.PutUint16(a[0:], binary.LittleEndian.Uint16(a[0:])^fix)
	return a
}

func c42CraftPk(rng *mrand.Rand, bucket uint16) (p pkSigPair) {
	c42Fill(rng, p.pk[:])
	c42Fill(rng, p.sig[:])
	h := binary.LittleEndian.Uint16(p.pk[0:]) ^ binary.LittleEndian.Uint16(p.sig[0:])
	fix := h ^ bucket
	binary.LittleEndian.PutUint16(p.pk[0:], binary.LittleEndian.Uint16(p.pk[0:])^fix)
	return p
}

func c42DrawBuckets(t *rapid.T, nb uint, label string) []uint16 {
	n := rapid.IntRange(1, 4).Draw(t, label+"N")
	out := make([]uint16, n)
	for i := range out {
		switch rapid.IntRange(0, 4).Draw(t, label+"Kind") {
		case 0:
			out[i] = 0
		case 1:
			out[i] = uint16(nb - 1)
		case 2: // around the 1-byte reference boundary (ids 254..257 <=> buckets 127,128)
			out[i] = uint16((127 + uint(rapid.IntRange(0, 1).Draw(t, label+"B"))) % nb)
		default:
			out[i] = uint16(rapid.UintRange(0, nb-1).Draw(t, label+"Any"))
		}
	}
	return out
}

func c42DrawPools(t *rapid.T, rng *mrand.Rand) *c42Pools {
	p := &c42Pools{}
	p.tableSize = c42TableSizes[rapid.IntRange(0, len(c42TableSizes)-1).Draw(t, "tableSizeIdx")]
	nb := p.tableSize / 2
	// senders
	sb := c42DrawBuckets(t, nb, "sndBucket")
	ns := rapid.SampledFrom([]int{1, 2, 3, 5, 8, 11, 14}).Draw(t, "nSenders")
	for i := 0; i < ns; i++ {
		if rapid.IntRange(0, 5).Draw(t, "sndFree") == 0 {
			var a [32]byte
			c42Fill(rng, a[:])
			a[31] |= 1
			p.snd = append(p.snd, a)
		} else {
			a := c42CraftAddr(rng, sb[i%len(sb)])
			p.snd = append(p.snd, a)
		}
	}
	// one-time key pairs (shared pool for the p and p2 tables)
	kb := c42DrawBuckets(t, nb, "pkBucket")
	nk := rapid.SampledFrom([]int{1, 2, 3, 5, 8, 11, 14}).Draw(t, "nKeys")
	for i := 0; i < nk; i++ {
		switch rapid.IntRange(0, 9).Draw(t, "pkKind") {
		case 0:
			p.pk = append(p.pk, pkSigPair{}) // all-zero pair: equals the content of a never-used slot
		case 1:
			var k pkSigPair
			c42Fill(rng, k.pk[:])
			c42Fill(rng, k.sig[:])
			p.pk = append(p.pk, k)
		case 2:
			if len(p.pk) > 0 { // same key, different signature
				k := p.pk[rapid.IntRange(0, len(p.pk)-1).Draw(t, "pkDup")]
				k.sig[63] ^= 0x80
				p.pk = append(p.pk, k)
				break
			}
			fallthrough
		default:
			p.pk = append(p.pk, c42CraftPk(rng, kb[i%len(kb)]))
		}
	}
	// proposals: more than the 7-entry window when the draw is large; every field mask can occur
	np := rapid.SampledFrom([]int{1, 2, 3, 7, 8, 9, 11}).Draw(t, "nProps")
	for i := 0; i < np; i++ {
		var v c42Vote
		m := uint8(rapid.IntRange(0, 15).Draw(t, "propMask"))
		if rapid.IntRange(0, 2).Draw(t, "propFull") == 0 {
			m = 15
		}
		if m&1 != 0 {
			c42Fill(rng, v.dig[:])
			v.dig[0] |= 1
		}
		if m&2 != 0 {
			c42Fill(rng, v.encdig[:])
			v.encdig[0] |= 1
		}
		if m&4 != 0 {
			v.oper = c42UintPool[rapid.IntRange(1, len(c42UintPool)-1).Draw(t, "oper")]
		}
		if m&8 != 0 {
			c42Fill(rng, v.oprop[:])
			v.oprop[0] |= 1
		}
		if i > 0 && rapid.IntRange(0, 4).Draw(t, "propNear") == 0 {
			// differs from an earlier proposal in exactly one field
			v = p.props[rapid.IntRange(0, i-1).Draw(t, "propBase")]
			switch rapid.IntRange(0, 3).Draw(t, "propNearField") {
			case 0:
				v.dig[31] ^= 1
			case 1:
				v.encdig[31] ^= 1
			case 2:
				v.oper ^= 1
			default:
				v.oprop[31] ^= 1
			}
		}
		p.props = append(p.props, v)
	}
	nr := rapid.IntRange(1, 4).Draw(t, "nRounds")
	for i := 0; i < nr; i++ {
		r := c42UintPool[rapid.IntRange(1, len(c42UintPool)-1).Draw(t, "round")]
		if rapid.IntRange(0, 3).Draw(t, "roundFree") == 0 {
			r = rapid.Uint64Range(1, math.MaxUint64).Draw(t, "roundAny")
		}
		p.rounds = append(p.rounds, r)
	}
	for i := rapid.IntRange(1, 3).Draw(t, "nPers"); i > 0; i-- {
		p.pers = append(p.pers, c42UintPool[rapid.IntRange(0, len(c42UintPool)-1).Draw(t, "per")])
	}
	for i := rapid.IntRange(1, 4).Draw(t, "nSteps"); i > 0; i-- {
		p.steps = append(p.steps, c42UintPool[rapid.IntRange(0, len(c42UintPool)-1).Draw(t, "step")])
	}
	for i := rapid.IntRange(1, 3).Draw(t, "nPfs"); i > 0; i-- {
		var pf [80]byte
		c42Fill(rng, pf[:])
		pf[0] |= 1
		p.pfs = append(p.pfs, pf)
	}
	return p
}

// next vote: indices from the pools; the round walks by 0/+1/-1 or jumps.
func (p *c42Pools) drawVote(t *rapid.T, rng *mrand.Rand, cur *uint64) c42Vote {
	var v c42Vote
	if rapid.IntRange(0, 3).Draw(t, "pfFresh") == 0 {
		v.pf = p.pfs[rapid.IntRange(0, len(p.pfs)-1).Draw(t, "pf")]
	} else {
		c42Fill(rng, v.pf[:])
		v.pf[0] |= 1
	}
	v.snd = p.snd[rapid.IntRange(0, len(p.snd)-1).Draw(t, "snd")]
	k1 := p.pk[rapid.IntRange(0, len(p.pk)-1).Draw(t, "pk")]
	k2 := p.pk[rapid.IntRange(0, len(p.pk)-1).Draw(t, "pk2")]
	v.p, v.p1s, v.p2, v.p2s = k1.pk, k1.sig, k2.pk, k2.sig
	pr := p.props[rapid.IntRange(0, len(p.props)-1).Draw(t, "prop")]
	v.dig, v.encdig, v.oper, v.oprop = pr.dig, pr.encdig, pr.oper, pr.oprop
	switch rapid.IntRange(0, 9).Draw(t, "rndMove") {
	case 0, 1, 2, 3:
	case 4, 5:
		if *cur != math.MaxUint64 {
			*cur++
		}
	case 6:
		if *cur > 1 {
			*cur--
		}
	default:
		*cur = p.rounds[rapid.IntRange(0, len(p.rounds)-1).Draw(t, "rndJump")]
	}
	v.rnd = *cur
	v.per = p.pers[rapid.IntRange(0, len(p.pers)-1).Draw(t, "perIdx")]
	v.step = p.steps[rapid.IntRange(0, len(p.steps)-1).Draw(t, "stepIdx")]
	c42Fill(rng, v.s[:])
	v.s[0] |= 1
	return v
}

// ---------------------------------------------------------------------------------------------------------------
// malformed frames

func c42Mutate(t *rapid.T, rng *mrand.Rand, frame, stateless, msgpack []byte, tableSize uint, old [][]byte) (string, []byte) {
	f := append([]byte(nil), frame...)
	switch rapid.IntRange(0, 11).Draw(t, "mutKind") {
	case 0: // bit flip, biased to the header and the bytes right after the fixed prefix
		pos := rapid.IntRange(0, len(f)-1).Draw(t, "flipPos")
		if rapid.Bool().Draw(t, "flipHdr") {
			pos = rapid.IntRange(0, 1).Draw(t, "flipHdrPos")
		}
		f[pos] ^= 1 << uint(rapid.IntRange(0, 7).Draw(t, "flipBit"))
		return "bitflip", f
	case 1: // claim a reference that the body does not carry (or the converse)
		f[1] ^= []byte{hdr1SndRef, hdr1PkRef, hdr1Pk2Ref}[rapid.IntRange(0, 2).Draw(t, "refBit")]
		return "toggle-ref-bit", f
	case 2: // proposal reference index rewritten
		f[1] = (f[1] &^ hdr1PropMask) | byte(rapid.IntRange(0, 7).Draw(t, "propIdx"))<<hdr1PropShift
		return "prop-index", f
	case 3: // round delta code rewritten
		f[1] = (f[1] &^ hdr1RndMask) | byte(rapid.IntRange(0, 3).Draw(t, "rndCode"))
		return "rnd-code", f
	case 4:
		return "truncate", f[:rapid.IntRange(0, len(f)-1).Draw(t, "truncLen")]
	case 5:
		extra := make([]byte, rapid.IntRange(1, 40).Draw(t, "extraLen"))
		c42Fill(rng, extra)
		return "trailing", append(f, extra...)
	case 6: // overwrite two bytes somewhere with an out-of-range / boundary reference id
		ids := []uint16{uint16(tableSize), uint16(tableSize + 1), uint16(tableSize - 1), 0xffff, 0x8000, uint16(2 * tableSize)}
		if len(f) >= 4 {
			pos := rapid.IntRange(2, len(f)-2).Draw(t, "idPos")
			binary.BigEndian.PutUint16(f[pos:], ids[rapid.IntRange(0, len(ids)-1).Draw(t, "id")])
		}
		f[1] |= hdr1SndRef
		return "bad-ref-id", f
	case 7:
		r := make([]byte, rapid.IntRange(0, 320).Draw(t, "randLen"))
		c42Fill(rng, r)
		return "random", r
	case 8:
		return "raw-msgpack", append([]byte(nil), msgpack...)
	case 9: // a stateless frame is a well-formed all-literal stateful frame unless byte 1 is dirty
		s := append([]byte(nil), stateless...)
		s[1] = byte(rng.Intn(256))
		return "stateless-as-stateful", s
	case 10:
		if len(old) > 0 {
			return "replay-old", append([]byte(nil), old[rapid.IntRange(0, len(old)-1).Draw(t, "oldIdx")]...)
		}
		fallthrough
	default: // header mask rewritten (optional-field bits, including the two unused ones)
		f[0] = byte(rapid.IntRange(0, 255).Draw(t, "hdr0"))
		return "hdr0", f
	}
}

// ---------------------------------------------------------------------------------------------------------------

type c42PropKey struct {
	dig, encdig, oprop [32]byte
	oper               uint64
}

type c42Stats struct {
	sndRef, pkRef, pk2Ref, propRef, rndDelta       int
	lruReinsert, winReinsert                       int
	malformed, malformedAccepted, malformedDirty   int
}

func TestVerif_C42_Seq(t *testing.T) {
	vk := vkBegin(t, "C42")
	vk.Rule("a connection = one table size (16..2048) + pools of senders/one-time-key pairs crafted to collide in LRU buckets, up to 11 proposals (window holds 7), rounds walking 0/+1/-1/jump over varuint-width boundaries; 1..300 canonical msgpack votes go StatelessEncoder->StatefulEncoder->StatefulDecoder->StatelessDecoder with malformed frames interleaved (fed to clones of the live decoder); non-trivial = the sequence had an LRU reference, a proposal-window reference, a round delta and a re-sent literal after an eviction; distinct by table size + hash of all frames")
	vk.Assume("the abort-on-error policy of the connection (checked in package network, TestVerif_C42_Codec) is what makes a decoder that returned an error unreachable; in package vpack malformed frames are therefore applied to clones")
	rapid.Check(t, func(t *rapid.T) {
		seed := rapid.Int64().Draw(t, "bytesSeed")
		rng := mrand.New(mrand.NewSource(seed))
		pools := c42DrawPools(t, rng)
		T := pools.tableSize
		enc, err := NewStatefulEncoder(T)
		if err != nil {
			t.Fatalf("NewStatefulEncoder(%d): %v", T, err)
		}
		dec, err := NewStatefulDecoder(T)
		if err != nil {
			t.Fatalf("NewStatefulDecoder(%d): %v", T, err)
		}
		stEnc, stDec := NewStatelessEncoder(), NewStatelessDecoder()
		dsts := [4]*c42Dst{}
		for i := range dsts {
			dsts[i] = &c42Dst{mode: rapid.IntRange(0, 3).Draw(t, "dstMode")}
		}
		var n int
		switch rapid.SampledFrom([]int{0, 1, 1, 2, 2, 2}).Draw(t, "lenClass") {
		case 0:
			n = rapid.IntRange(1, 12).Draw(t, "nVotesShort")
		case 1:
			n = 13 + rapid.IntRange(0, 87).Draw(t, "nVotesMid")
		default:
			n = 300 - rapid.IntRange(0, 199).Draw(t, "nVotesLong")
		}
		malformedPct := rapid.SampledFrom([]int{0, 5, 25}).Draw(t, "malformedPct")
		cur := pools.rounds[0]
		var st c42Stats
		sentSnd := map[[32]byte]bool{}
		sentPk := map[pkSigPair]bool{}
		sentPk2 := map[pkSigPair]bool{}
		sentProp := map[c42PropKey]bool{}
		var oldFrames [][]byte
		var history []c42Vote
		var clone *StatefulDecoder
		h := fnv.New64a()
		maskSeen := map[uint8]bool{}

		for i := 0; i < n; i++ {
			var v c42Vote
			if len(history) > 0 && rapid.IntRange(0, 11).Draw(t, "dupVote") == 0 {
				v = history[rapid.IntRange(0, len(history)-1).Draw(t, "dupIdx")]
				cur = v.rnd
			} else {
				v = pools.drawVote(t, rng, &cur)
			}
			history = append(history, v)
			mp := v.encode()
			if i < 3 {
				if err := c42CrossCheck(mp); err != nil {
					t.Fatalf("%v", err)
				}
			}
			maskSeen[v.optMask()] = true
			if len(mp) > MaxMsgpackVoteSize {
				t.Fatalf("vote %d: canonical msgpack is %d bytes > MaxMsgpackVoteSize %d", i, len(mp), MaxMsgpackVoteSize)
			}

			// layer 1
			sl, err := stEnc.CompressVote(dsts[0].get(rng), mp)
			if err != nil {
				t.Fatalf("vote %d: StatelessEncoder rejected a valid vote: %v", i, err)
			}
			if len(sl) > MaxCompressedVoteSize {
				t.Fatalf("vote %d: stateless size %d > MaxCompressedVoteSize", i, len(sl))
			}
			sl = append([]byte(nil), sl...)
			// layer 2
			fr, err := enc.Compress(dsts[1].get(rng), sl)
			if err != nil {
				t.Fatalf("vote %d: StatefulEncoder rejected a valid stateless vote: %v", i, err)
			}
			if len(fr) > MaxCompressedVoteSize || len(fr) > len(sl) {
				t.Fatalf("vote %d: stateful frame %d bytes (stateless %d, max %d)", i, len(fr), len(sl), MaxCompressedVoteSize)
			}
			fr = append([]byte(nil), fr...)
			h.Write(fr)

			// malformed traffic derived from the frame that is about to arrive, applied to a clone of the receiver
			for rapid.IntRange(0, 99).Draw(t, "malformed?") < malformedPct {
				kind, bad := c42Mutate(t, rng, fr, sl, mp, T, oldFrames)
				if bytes.Equal(bad, fr) {
					break
				}
				st.malformed++
				vk.Label("malformed:" + kind)
				if clone == nil {
					clone = &StatefulDecoder{c42CloneState(&dec.dynamicTableState)}
				} else {
					c42CopyState(&clone.dynamicTableState, &dec.dynamicTableState)
				}
				var out []byte
				var derr error
				if pv := c42Try(func() { out, derr = clone.Decompress(dsts[2].get(rng), bad) }); pv != nil {
					t.Fatalf("vote %d: StatefulDecoder.Decompress panicked on %s frame % x: %v", i, kind, bad, pv)
				}
				if derr != nil {
					if out != nil {
						t.Fatalf("vote %d: Decompress returned both data and error on %s frame", i, kind)
					}
					if c42StateDiff(&clone.dynamicTableState, &dec.dynamicTableState) != "" {
						st.malformedDirty++
					}
				} else {
					_, note, viol := c42AcceptedFrameOracle(out)
					if viol != "" {
						t.Fatalf("vote %d: %s frame % x: %s", i, kind, bad, viol)
					}
					vk.Label("malformed-outcome:" + note)
					st.malformedAccepted++
				}
				// the stateless decoder must also survive the same bytes
				if pv := c42Try(func() { _, _ = NewStatelessDecoder().DecompressVote(nil, bad) }); pv != nil {
					t.Fatalf("vote %d: StatelessDecoder panicked on %s bytes % x: %v", i, kind, bad, pv)
				}
				if pv := c42Try(func() { _, _ = NewStatelessEncoder().CompressVote(nil, bad) }); pv != nil {
					t.Fatalf("vote %d: StatelessEncoder panicked on %s bytes % x: %v", i, kind, bad, pv)
				}
			}

			// layer 3
			var sl2 []byte
			if pv := c42Try(func() { sl2, err = dec.Decompress(dsts[2].get(rng), fr) }); pv != nil {
				t.Fatalf("vote %d: Decompress panicked on a valid frame: %v", i, pv)
			}
			if err != nil {
				t.Fatalf("vote %d (table %d): StatefulDecoder rejected the sender's frame: %v", i, T, err)
			}
			if len(sl2) != len(sl) || sl2[0] != sl[0] || !bytes.Equal(sl2[2:], sl[2:]) {
				t.Fatalf("vote %d (table %d): stateful round trip differs\n sent % x\n got  % x", i, T, sl, sl2)
			}
			// layer 4
			mp2, err := stDec.DecompressVote(dsts[3].get(rng), sl2)
			if err != nil {
				t.Fatalf("vote %d: StatelessDecoder rejected: %v", i, err)
			}
			if !bytes.Equal(mp2, mp) {
				t.Fatalf("vote %d (table %d): decompressed vote differs from the original\n orig % x\n got  % x", i, T, mp, mp2)
			}
			// sync
			if d := c42StateDiff(&enc.dynamicTableState, &dec.dynamicTableState); d != "" {
				t.Fatalf("vote %d (table %d): receiver state differs from sender state: %s", i, T, d)
			}

			// bookkeeping for labels, from the wire only
			hdr1 := fr[1]
			pe := c42PropKey{v.dig, v.encdig, v.oprop, v.oper}
			k1, k2 := pkSigPair{v.p, v.p1s}, pkSigPair{v.p2, v.p2s}
			if hdr1&hdr1SndRef != 0 {
				st.sndRef++
			} else {
				if sentSnd[v.snd] {
					st.lruReinsert++
				}
				sentSnd[v.snd] = true
			}
			if hdr1&hdr1PkRef != 0 {
				st.pkRef++
			} else {
				if sentPk[k1] {
					st.lruReinsert++
				}
				sentPk[k1] = true
			}
			if hdr1&hdr1Pk2Ref != 0 {
				st.pk2Ref++
			} else {
				if sentPk2[k2] {
					st.lruReinsert++
				}
				sentPk2[k2] = true
			}
			if hdr1&hdr1PropMask != 0 {
				st.propRef++
			} else {
				if sentProp[pe] {
					st.winReinsert++
				}
				sentProp[pe] = true
			}
			if hdr1&hdr1RndMask != 0 {
				st.rndDelta++
			}
			if len(oldFrames) < 8 {
				oldFrames = append(oldFrames, fr)
			}
		}

		nt := st.sndRef+st.pkRef+st.pk2Ref > 0 && st.propRef > 0 && st.rndDelta > 0 && st.lruReinsert+st.winReinsert > 0
		fp := fmt.Sprintf("T%d/%x", T, h.Sum64())
		vk.Case(nt, fp)
		vk.Labelf("table=%d", T)
		vk.Add("votes", int64(n))
		vk.Add("lru_refs", int64(st.sndRef+st.pkRef+st.pk2Ref))
		vk.Add("prop_refs", int64(st.propRef))
		vk.Add("rnd_deltas", int64(st.rndDelta))
		vk.Add("lru_literal_resent_after_eviction", int64(st.lruReinsert))
		vk.Add("prop_literal_resent_after_window_eviction", int64(st.winReinsert))
		vk.Add("malformed_frames", int64(st.malformed))
		vk.Add("malformed_accepted", int64(st.malformedAccepted))
		vk.Add("malformed_rejected_after_partial_state_update", int64(st.malformedDirty))
		vk.Add("distinct_optional_masks_in_case", int64(len(maskSeen)))
		if st.lruReinsert > 0 {
			vk.Label("lru-eviction")
		}
		if st.winReinsert > 0 {
			vk.Label("window-eviction")
		}
		if st.malformed > 0 {
			vk.Label("with-malformed")
		}
		switch {
		case n <= 12:
			vk.Label("len<=12")
		case n <= 100:
			vk.Label("len<=100")
		default:
			vk.Label("len>100")
		}
		if vk.WantSample(nt) {
			vk.Sample(nt, map[string]interface{}{"table": T, "votes": n, "senders": len(pools.snd), "keys": len(pools.pk), "proposals": len(pools.props),
				"lruRefs": st.sndRef + st.pkRef + st.pk2Ref, "propRefs": st.propRef, "rndDeltas": st.rndDelta, "lruResent": st.lruReinsert,
				"winResent": st.winReinsert, "malformed": st.malformed, "firstVote": fmt.Sprintf("%x", history[0].encode())})
		}
	})
}

// ---------------------------------------------------------------------------------------------------------------
// exhaustive masks x table sizes

func c42MaskVote(rng *mrand.Rand, mask uint8, width int) c42Vote {
	vals := []uint64{5, 200, 40000, 3000000000, 1 << 40}
	var v c42Vote
	c42Fill(rng, v.pf[:])
	v.pf[0] |= 1
	c42Fill(rng, v.snd[:])
	v.snd[0] |= 1
	c42Fill(rng, v.p[:])
	c42Fill(rng, v.p1s[:])
	c42Fill(rng, v.p2[:])
	c42Fill(rng, v.p2s[:])
	c42Fill(rng, v.s[:])
	v.s[0] |= 1
	v.rnd = vals[width]
	if mask&1 != 0 {
		v.per = vals[(width+1)%5]
	}
	if mask&2 != 0 {
		c42Fill(rng, v.dig[:])
		v.dig[0] |= 1
	}
	if mask&4 != 0 {
		c42Fill(rng, v.encdig[:])
		v.encdig[0] |= 1
	}
	if mask&8 != 0 {
		v.oper = vals[(width+2)%5]
	}
	if mask&16 != 0 {
		c42Fill(rng, v.oprop[:])
		v.oprop[0] |= 1
	}
	if mask&32 != 0 {
		v.step = vals[(width+3)%5]
	}
	return v
}

func TestVerif_C42_Masks(t *testing.T) {
	vk := vkBegin(t, "C42")
	vk.Rule("every optional-field mask (64) x every allowed table size (8) x 5 varuint widths: the vote is sent, then sent again (all references + same round), then once more with round+1; non-trivial = every case (the second and third frames must use references); distinct by (mask, table, width)")
	type rp struct {
		Mask  uint8
		Table uint
		Width int
		Step  int
		Vote  string
	}
	rng := vkRand(42)
	for _, T := range c42TableSizes {
		for mask := 0; mask < 64; mask++ {
			for width := 0; width < 5; width++ {
				enc, err1 := NewStatefulEncoder(T)
				dec, err2 := NewStatefulDecoder(T)
				if err1 != nil || err2 != nil {
					vk.Failf(rp{Table: T}, "constructor failed for allowed table size %d: %v %v", T, err1, err2)
				}
				// warm the connection with a few unrelated votes so references are not all id 0 / index 1
				for w := 0; w < width+mask%3; w++ {
					u := c42MaskVote(rng, uint8(rng.Intn(64)), rng.Intn(5))
					sl, err := NewStatelessEncoder().CompressVote(nil, u.encode())
					if err != nil {
						vk.Failf(rp{Table: T}, "warm-up vote rejected: %v", err)
					}
					fr, err := enc.Compress(nil, sl)
					if err != nil {
						vk.Failf(rp{Table: T}, "warm-up vote rejected: %v", err)
					}
					if _, err = dec.Decompress(nil, fr); err != nil {
						vk.Failf(rp{Table: T}, "warm-up frame rejected: %v", err)
					}
				}
				v := c42MaskVote(rng, uint8(mask), width)
				if v.optMask() != uint8(mask) {
					t.Fatalf("harness bug: mask")
				}
				for step := 0; step < 3; step++ {
					if step == 2 {
						v.rnd++
					}
					mp := v.encode()
					if step == 0 && (mask%7 == 0) {
						if err := c42CrossCheck(mp); err != nil {
							t.Fatal(err)
						}
					}
					r := rp{uint8(mask), T, width, step, fmt.Sprintf("%x", mp)}
					sl, err := NewStatelessEncoder().CompressVote(nil, mp)
					if err != nil {
						vk.Failf(r, "StatelessEncoder: %v", err)
					}
					fr, err := enc.Compress(nil, sl)
					if err != nil {
						vk.Failf(r, "StatefulEncoder: %v", err)
					}
					if len(fr) > len(sl) || len(fr) > MaxCompressedVoteSize {
						vk.Failf(r, "frame size %d (stateless %d)", len(fr), len(sl))
					}
					sl2, err := dec.Decompress(nil, fr)
					if err != nil {
						vk.Failf(r, "StatefulDecoder: %v", err)
					}
					mp2, err := NewStatelessDecoder().DecompressVote(nil, sl2)
					if err != nil {
						vk.Failf(r, "StatelessDecoder: %v", err)
					}
					if !bytes.Equal(mp, mp2) {
						vk.Failf(r, "round trip differs: got %x", mp2)
					}
					if d := c42StateDiff(&enc.dynamicTableState, &dec.dynamicTableState); d != "" {
						vk.Failf(r, "state differs: %s", d)
					}
					if step > 0 {
						vk.Labelf("repeat-frame-refs=%03b", fr[1]>>5)
					}
				}
				vk.Case(true, fmt.Sprintf("m%d/T%d/w%d", mask, T, width))
				if vk.WantSample(true) {
					vk.Sample(true, rp{uint8(mask), T, width, 0, fmt.Sprintf("%x", v.encode())})
				}
			}
		}
	}
	// table sizes outside the allowed set must be refused by both constructors alike
	for _, bad := range []uint{0, 1, 8, 15, 17, 24, 100, 2047} {
		_, e1 := NewStatefulEncoder(bad)
		_, e2 := NewStatefulDecoder(bad)
		if (e1 == nil) != (e2 == nil) {
			vk.Failf(bad, "encoder and decoder disagree on table size %d: %v / %v", bad, e1, e2)
		}
	}
	vk.Exhaustive("all 64 optional-field masks x 8 allowed table sizes x 5 varuint widths, each sent literal, repeated, and repeated with round+1")
}

// ---------------------------------------------------------------------------------------------------------------
// native fuzzing of the decoders (thorough tier)

// c42Prime builds a decoder that has processed k valid votes (deterministic in (tableIdx,k)) and returns it with the
// last valid frame.
func c42Prime(tableIdx, k uint8) (*StatefulDecoder, []byte) {
	T := c42TableSizes[int(tableIdx)%len(c42TableSizes)]
	rng := mrand.New(mrand.NewSource(int64(tableIdx%8) + 77))
	enc, _ := NewStatefulEncoder(T)
	dec, _ := NewStatefulDecoder(T)
	var pool []c42Vote
	for i := 0; i < 6; i++ {
		pool = append(pool, c42MaskVote(rng, uint8(rng.Intn(64)), rng.Intn(5)))
	}
	var last []byte
	for i := 0; i < int(k%40); i++ {
		v := pool[rng.Intn(len(pool))]
		c42Fill(rng, v.s[:])
		v.s[0] |= 1
		sl, err := NewStatelessEncoder().CompressVote(nil, v.encode())
		if err != nil {
			panic(err)
		}
		fr, err := enc.Compress(nil, sl)
		if err != nil {
			panic(err)
		}
		if _, err := dec.Decompress(nil, fr); err != nil {
			panic(err)
		}
		last = fr
	}
	return dec, last
}

func FuzzVerif_C42_Decoders(f *testing.F) {
	f.Add(uint8(0), uint8(0), []byte{})
	f.Add(uint8(7), uint8(9), []byte{0x3f, 0xff})
	f.Fuzz(func(t *testing.T, tableIdx, k uint8, data []byte) {
		dec, _ := c42Prime(tableIdx, k)
		var out []byte
		var err error
		if pv := c42Try(func() { out, err = dec.Decompress(make([]byte, 0, MaxCompressedVoteSize), data) }); pv != nil {
			t.Fatalf("StatefulDecoder.Decompress panicked: %v", pv)
		}
		if err == nil {
			if _, _, viol := c42AcceptedFrameOracle(out); viol != "" {
				t.Fatalf("%s", viol)
			}
		} else if out != nil {
			t.Fatalf("data returned together with an error")
		}
		// the same bytes straight into the stateless decoder
		var m []byte
		if pv := c42Try(func() { m, err = NewStatelessDecoder().DecompressVote(nil, data) }); pv != nil {
			t.Fatalf("StatelessDecoder.DecompressVote panicked: %v", pv)
		}
		if err == nil {
			if _, _, viol := c42AcceptedFrameOracle(data); viol != "" {
				t.Fatalf("%s", viol)
			}
			if len(m) > MaxMsgpackVoteSize {
				t.Fatalf("stateless decoder produced %d bytes", len(m))
			}
		}
	})
}

// TestVerif_C42_GenCorpus writes the seed corpus for FuzzVerif_C42_Decoders (run by hand with VERIF_C42_GENCORPUS=dir).
func TestVerif_C42_GenCorpus(t *testing.T) {
	dir := os.Getenv("VERIF_C42_GENCORPUS")
	if dir == "" {
		t.Skip("corpus generator; set VERIF_C42_GENCORPUS")
	}
	if err := os.MkdirAll(dir, 0o755); err != nil {
		t.Fatal(err)
	}
	n := 0
	write := func(ti, k uint8, data []byte) {
		s := fmt.Sprintf("go test fuzz v1\nuint8(%d)\nuint8(%d)\n[]byte(%s)\n", ti, k, strconv.Quote(string(data)))
		if err := os.WriteFile(filepath.Join(dir, fmt.Sprintf("seed-%03d", n)), []byte(s), 0o644); err != nil {
			t.Fatal(err)
		}
		n++
	}
	for ti := uint8(0); ti < 8; ti++ {
		for _, k := range []uint8{0, 1, 5, 17, 39} {
			_, last := c42Prime(ti, k+1) // the (k+1)-th frame of the same deterministic sequence: valid for the state after k votes
			if last == nil {
				last = []byte{0, 0}
			}
			write(ti, k, last)
			if len(last) > 10 {
				write(ti, k, last[:len(last)/2])
				b := append([]byte(nil), last...)
				b[1] |= hdr1SndRef | hdr1PkRef | hdr1Pk2Ref
				write(ti, k, b)
				b = append([]byte(nil), last...)
				b[1] |= 7 << hdr1PropShift
				write(ti, k, b)
			}
		}
	}
	rng := mrand.New(mrand.NewSource(1))
	v := c42MaskVote(rng, 63, 4)
	sl, _ := NewStatelessEncoder().CompressVote(nil, v.encode())
	write(3, 3, sl)
	write(3, 3, v.encode())
	t.Logf("wrote %d corpus files", n)
}
