package agreement

// C01 — scripted message-delay schedule: "the block arrives after the next vote".
//
// 5 honest nodes with one account each (no crash, no Byzantine identity, only delays). Period 0 of round 1:
//  1. the network withholds every proposal payload and every next vote; the stand-alone proposal-votes get through, so
//     every node soft-votes the lowest proposal v, a soft quorum for v forms, but only v's proposer X holds the block;
//  2. the period deadline passes: the four others next-vote bottom (nothing staged), X cert-votes and next-votes v;
//  3. the payloads are released; a node that is past the cert step must not cert-vote any more (player.go:387,721);
//  4. the network shows the cert votes only to X and the next votes to everybody but X, then runs benignly.
// If the four others cert-voted v in step 3, X sees a cert quorum and commits v, while the others see the next quorum
// for bottom, enter period 1 and commit a different block. The round -> digest invariant (c01Observer) decides.
// "Effective" = the soft quorum formed without the block at the four others and all four next-voted bottom.

import (
	"fmt"
	"testing"
)

type c01LPResult struct {
	KeySeed        uint64
	Proposer       int
	NextBottom     int
	CertVotesForV  int
	PayloadsLate   int
	Commits        []string
	MaxPeriod      period
	Note           string
}

func c01LatePayloadScenario(t *testing.T, keySeed uint64) (res c01LPResult) {
	res.KeySeed = keySeed
	cfg := engaConfig{Nodes: 5, Accts: []int{1, 1, 1, 1, 1}, Stake: []uint64{1e6, 1e6, 1e6, 1e6, 1e6}, KeySeed: keySeed}
	s := engaNewSimHook(t, cfg, func(s *engaSim) { s.traceOn = true; c01Attach(s) })
	ent := func() uint64 { return 1 }
	// 1+2: payloads and next votes withheld until every node is past its cert deadline and its next votes are on the wire
	s.hold = func(m *engaMsg) bool { return m.cls == engaClsPayload || m.cls == int(next) }
	for i := 0; i < 3000; i++ {
		done := true
		for _, n := range s.nodes {
			if n.player.Step < next {
				done = false
			}
		}
		if done {
			break
		}
		if !s.benignStep(ent()) {
			break
		}
	}
	s.drain(500)
	var v proposalValue
	best := 0
	for k, uvs := range s.votesSeen {
		if k.r == 1 && k.p == 0 && k.s == soft && len(uvs) > best {
			v, best = k.v, len(uvs)
		}
	}
	if best < 5 {
		res.Note = fmt.Sprintf("soft votes split (%d for the best value)", best)
		return
	}
	res.Proposer = -1
	for _, id := range s.ids {
		if id.addr == v.OriginalProposer {
			res.Proposer = id.owner
		}
	}
	res.NextBottom = len(s.votesSeen[engaVoteKey{1, 0, next, bottom}])
	if res.Proposer < 0 || res.NextBottom != 4 {
		res.Note = fmt.Sprintf("unexpected next votes: %d for bottom", res.NextBottom)
		return
	}
	x := res.Proposer
	// 3: release the payloads (next and cert votes stay in the network), no timeout fires meanwhile
	s.hold = func(m *engaMsg) bool { return m.cls == int(next) || m.cls == int(cert) }
	before := s.stats.payloadAfterNextVote
	s.drain(3000)
	res.PayloadsLate = s.stats.payloadAfterNextVote - before
	res.CertVotesForV = len(s.votesSeen[engaVoteKey{1, 0, cert, v}])
	// 4: cert votes only to X, next votes to everybody but X
	s.hold = func(m *engaMsg) bool {
		uv, ok := engaVoteOf(m)
		if !ok || uv.R.Round != 1 || uv.R.Period != 0 {
			return false
		}
		return (uv.R.Step == cert && m.dst != x) || (uv.R.Step >= next && m.dst == x)
	}
	for i := 0; i < 4000; i++ {
		others := true
		for j, n := range s.nodes {
			if j != x && n.committed() < 1 {
				others = false
			}
		}
		if others {
			break
		}
		if !s.benignStep(ent()) {
			break
		}
	}
	for _, e := range s.ensures {
		res.Commits = append(res.Commits, fmt.Sprintf("node%d r%d %.8s", e.Node, e.Round, e.Digest.String()))
	}
	res.MaxPeriod = s.stats.maxPeriod
	return
}

func TestVerif_C01_LatePayload(t *testing.T) {
	vk := vkBegin(t, "C01")
	vk.Rule("scripted delay-only schedule (payload released after the next vote; cert votes shown to the proposer only, next votes to the others), 10 populations; non-trivial = soft quorum without the block at four nodes, four next votes for bottom, payloads then delivered to nodes past the cert step, and the others finished round 1 in a later period")
	for ks := uint64(0); ks < 10; ks++ {
		res := c01LatePayloadScenario(t, ks)
		nt := res.Note == "" && res.PayloadsLate >= 4 && res.MaxPeriod >= 1 && len(res.Commits) >= 4
		vk.Case(nt, fmt.Sprintf("latepayload/%d/%v", ks, res.Commits))
		vk.Sample(nt, res)
		if nt {
			vk.Label("latepayload/effective")
		} else {
			vk.Label("latepayload/not_applicable")
		}
		if res.CertVotesForV > 1 {
			// only the proposer's node may have cert-voted; more is what the rule forbids (the fork, if it follows, is
			// reported by c01Observer — this is a label, not a verdict)
			vk.Label("latepayload/cert_votes_after_next_vote_seen")
		}
	}
}
