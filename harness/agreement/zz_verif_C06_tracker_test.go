package agreement

// C06 — Vote counting emits exactly one threshold per step, for the right value.
//
// Sequences of accepted votes (sender, weight, value) with duplicates and equivocations are fed to the real
// voteTracker (through the real router tree, or through the real voteAggregator) and compared, event by event,
// with a small reference tally written from the property statement.

import (
	"encoding/binary"
	"fmt"
	"io"
	"sort"
	"strings"
	"testing"

	"pgregory.net/rapid"

	"github.com/algorand/go-algorand/config"
	"github.com/algorand/go-algorand/crypto"
	"github.com/algorand/go-algorand/data/basics"
	"github.com/algorand/go-algorand/data/committee"
	"github.com/algorand/go-algorand/logging"
	"github.com/algorand/go-algorand/protocol"
)

// ---------------------------------------------------------------------------------------------------------------
// reference tally (the oracle). Written from the statement, not from voteTracker.go:
//   * a sender's first vote counts for its value; a repeat of the same value changes nothing;
//   * a second, different value turns the sender into an equivocator: it stops counting for its first value and
//     counts once for every value; anything later from that sender changes nothing;
//   * the step signals at the first vote after which some value (that still has a plain voter) has weight >= T,
//     for that value, and never again.

type c06Cast struct {
	V   int // value index
	Seq int // index of the event that carried this vote
}

type c06Ref struct {
	T       uint64
	W       []uint64
	first   map[int]c06Cast    // plain voters
	eq      map[int][2]c06Cast // equivocators: their two votes, in arrival order
	emitted bool
}

type c06Outcome struct {
	ignored bool // duplicate, or third vote of an equivocator
	equiv   bool // this vote made its sender an equivocator
	cross   bool
	value   int
}

func c06NewRef(T uint64, w []uint64) *c06Ref {
	return &c06Ref{T: T, W: w, first: map[int]c06Cast{}, eq: map[int][2]c06Cast{}}
}

func (m *c06Ref) clone() *c06Ref {
	c := c06NewRef(m.T, m.W)
	c.emitted = m.emitted
	for k, v := range m.first {
		c.first[k] = v
	}
	for k, v := range m.eq {
		c.eq[k] = v
	}
	return c
}

func (m *c06Ref) eqWeight() uint64 {
	e := uint64(0)
	for s := range m.eq {
		e += m.W[s]
	}
	return e
}

// tally: value -> weight, for the values that have at least one plain voter (equivocators counted for each).
func (m *c06Ref) tally() map[int]uint64 {
	e := m.eqWeight()
	res := map[int]uint64{}
	for s, c := range m.first {
		if _, ok := res[c.V]; !ok {
			res[c.V] = e
		}
		res[c.V] += m.W[s]
	}
	return res
}

func (m *c06Ref) over() []int {
	var o []int
	for v, w := range m.tally() {
		if w >= m.T {
			o = append(o, v)
		}
	}
	sort.Ints(o)
	return o
}

func (m *c06Ref) apply(s, v, seq int) (out c06Outcome) {
	if _, isEq := m.eq[s]; isEq {
		out.ignored = true
		return
	}
	if c, voted := m.first[s]; voted {
		if c.V == v {
			out.ignored = true
			return
		}
		m.eq[s] = [2]c06Cast{c, {v, seq}}
		delete(m.first, s)
		out.equiv = true
	} else {
		m.first[s] = c06Cast{v, seq}
	}
	if o := m.over(); len(o) > 0 && !m.emitted {
		m.emitted = true
		out.cross = true
		out.value = o[0]
	}
	return
}

// forbidden reports whether accepting (s, v) would leave the honest-majority precondition under which voteTracker
// deliberately panics: equivocators alone reaching the threshold, or two values over the threshold at once.
func (m *c06Ref) forbidden(s, v int) bool {
	c := m.clone()
	c.apply(s, v, -1)
	return c.eqWeight() >= c.T || len(c.over()) > 1
}

// ---------------------------------------------------------------------------------------------------------------
// slots: one (round, period, step) vote tracker with its senders, weights, values and reference

type c06Slot struct {
	idx    int
	ver    protocol.ConsensusVersion
	proto  config.ConsensusParams
	round  round
	period period
	step   step
	T      uint64
	w      []uint64
	byz    []bool
	pref   []int // value an honest sender sticks to
	addrs  []basics.Address
	vals   []proposalValue
	main   int
	ref    *c06Ref
	seq    int
	wmode  string

	// statistics
	dups, thirds, equivs, forbid, after int
	dupOrEqBeforeCross                  bool
	crossed                             bool
	crossByEquiv                        bool
	crossVal                            int
	bundleEq                            int
	log                                 []string
}

// c06Threshold re-derives the step threshold from the consensus parameters (spec table: soft, cert, the three
// fast-recovery steps, every other step uses the "next" committee).
func c06Threshold(p config.ConsensusParams, s step) uint64 {
	switch s {
	case 1:
		return p.SoftCommitteeThreshold
	case 2:
		return p.CertCommitteeThreshold
	case 253:
		return p.LateCommitteeThreshold
	case 254:
		return p.RedoCommitteeThreshold
	case 255:
		return p.DownCommitteeThreshold
	}
	return p.NextCommitteeThreshold
}

func c06EventType(s step) eventType {
	switch s {
	case 1:
		return softThreshold
	case 2:
		return certThreshold
	}
	return nextThreshold
}

func c06Addr(slot, s int) (a basics.Address) {
	a[0], a[1], a[2] = 0xC6, byte(slot), byte(s)
	// spread over the address so that byte order comparisons in genBundle see varied keys
	a[31] = byte(s*37 + slot)
	return
}

func c06Value(i int) proposalValue {
	if i == 3 {
		return bottom
	}
	var p proposalValue
	p.BlockDigest[0], p.BlockDigest[1] = 0xA0+byte(i), 0x06
	p.EncodingDigest[0] = 0xB0 + byte(i)
	p.OriginalProposer[0] = 0xD0 + byte(i)
	return p
}

func c06ValName(i int) string { return [...]string{"A", "B", "C", "bot"}[i] }

func c06Sig(slot, s, v, seq int) (sig crypto.OneTimeSignature) {
	binary.BigEndian.PutUint32(sig.Sig[0:4], uint32(seq)+1)
	sig.Sig[4], sig.Sig[5], sig.Sig[6] = byte(slot), byte(s), byte(v)
	sig.PK[0] = byte(s) + 1
	return
}

func c06Proof(slot, s int) (pf crypto.VrfProof) {
	pf[0], pf[1], pf[2] = 0xC6, byte(slot), byte(s)
	return
}

func (sl *c06Slot) vote(s, v, seq int) vote {
	return vote{
		R: rawVote{Sender: sl.addrs[s], Round: sl.round, Period: sl.period, Step: sl.step, Proposal: sl.vals[v]},
		Cred: committee.Credential{
			Weight:                    sl.w[s],
			UnauthenticatedCredential: committee.UnauthenticatedCredential{Proof: c06Proof(sl.idx, s)},
		},
		Sig: c06Sig(sl.idx, s, v, seq),
	}
}

func (sl *c06Slot) senderIdx(a basics.Address) int {
	for i := range sl.addrs {
		if sl.addrs[i] == a {
			return i
		}
	}
	return -1
}

func (sl *c06Slot) valIdx(p proposalValue) int {
	for i := range sl.vals {
		if sl.vals[i] == p {
			return i
		}
	}
	return -1
}

// checkBundle recomputes, from the votes that were actually fed, that the bundle is a quorum proof for value v:
// right (r,p,s,value), at least one plain vote, distinct senders, every plain vote is the sender's counted vote for
// v (same credential and signature), every pair is a real equivocation of that sender (two different values, the
// two signatures that were fed, in order), total weight >= T, and not larger than the bundle size limit.
func (sl *c06Slot) checkBundle(ref *c06Ref, b unauthenticatedBundle, v int) error {
	if b.Round != sl.round || b.Period != sl.period || b.Step != sl.step || b.Proposal != sl.vals[v] {
		return fmt.Errorf("bundle header (%d,%d,%d,%v) != slot (%d,%d,%d,%v)", b.Round, b.Period, b.Step, b.Proposal, sl.round, sl.period, sl.step, sl.vals[v])
	}
	if len(b.Votes) == 0 {
		return fmt.Errorf("bundle has no plain vote")
	}
	seen := map[int]bool{}
	weight := uint64(0)
	for _, a := range b.Votes {
		s := sl.senderIdx(a.Sender)
		if s < 0 {
			return fmt.Errorf("bundle vote from unknown sender %v", a.Sender)
		}
		if seen[s] {
			return fmt.Errorf("sender %d appears twice in bundle", s)
		}
		seen[s] = true
		c, ok := ref.first[s]
		if !ok || c.V != v {
			return fmt.Errorf("bundle vote of sender %d is not a counted plain vote for %s", s, c06ValName(v))
		}
		if a.Sig != c06Sig(sl.idx, s, c.V, c.Seq) {
			return fmt.Errorf("bundle vote of sender %d carries a signature that is not the one of its counted vote", s)
		}
		if a.Cred.Proof != c06Proof(sl.idx, s) {
			return fmt.Errorf("bundle vote of sender %d carries a foreign credential", s)
		}
		weight += sl.w[s]
	}
	for _, a := range b.EquivocationVotes {
		s := sl.senderIdx(a.Sender)
		if s < 0 {
			return fmt.Errorf("bundle pair from unknown sender %v", a.Sender)
		}
		if seen[s] {
			return fmt.Errorf("sender %d appears twice in bundle", s)
		}
		seen[s] = true
		pair, ok := ref.eq[s]
		if !ok {
			return fmt.Errorf("bundle pair of sender %d who did not equivocate", s)
		}
		if a.Proposals[0] == a.Proposals[1] {
			return fmt.Errorf("bundle pair of sender %d has identical proposals", s)
		}
		for k := 0; k < 2; k++ {
			if a.Proposals[k] != sl.vals[pair[k].V] || a.Sigs[k] != c06Sig(sl.idx, s, pair[k].V, pair[k].Seq) {
				return fmt.Errorf("bundle pair of sender %d, member %d, is not the vote that was fed", s, k)
			}
		}
		if a.Cred.Proof != c06Proof(sl.idx, s) {
			return fmt.Errorf("bundle pair of sender %d carries a foreign credential", s)
		}
		weight += sl.w[s]
	}
	if weight < sl.T {
		return fmt.Errorf("bundle weight %d < threshold %d", weight, sl.T)
	}
	if uint64(len(b.Votes)+len(b.EquivocationVotes)) > sl.T {
		return fmt.Errorf("bundle has more entries than the threshold")
	}
	return nil
}

// checkOut compares one tracker output with the reference outcome; ref is the reference state right after the vote
// that crossed (a bundleVerified message goes on playing votes after the crossing).
func (sl *c06Slot) checkOut(ref *c06Ref, out event, want c06Outcome) error {
	te, ok := out.(thresholdEvent)
	if !ok {
		if out.t() == none && !want.cross {
			return nil
		}
		return fmt.Errorf("output %T (%v), reference expects cross=%v", out, out.t(), want.cross)
	}
	if !want.cross {
		if te.T != none {
			return fmt.Errorf("spurious %v for %v (reference: no threshold reached now; already signalled=%v, tally=%v, T=%d)", te.T, te.Proposal, ref.emitted, ref.tally(), sl.T)
		}
		if len(te.Bundle.Votes) != 0 || len(te.Bundle.EquivocationVotes) != 0 {
			return fmt.Errorf("none event carries a bundle")
		}
		return nil
	}
	if te.T == none {
		return fmt.Errorf("missing threshold event: value %s reached %d >= T=%d", c06ValName(want.value), ref.tally()[want.value], sl.T)
	}
	if te.T != c06EventType(sl.step) {
		return fmt.Errorf("event type %v for step %d", te.T, sl.step)
	}
	if te.Proposal != sl.vals[want.value] {
		return fmt.Errorf("threshold signalled for %v, reference value is %s (tally %v, T=%d)", te.Proposal, c06ValName(want.value), ref.tally(), sl.T)
	}
	if te.Round != sl.round || te.Period != sl.period || te.Step != sl.step || te.Proto != sl.ver {
		return fmt.Errorf("event (r,p,s,proto)=(%d,%d,%d,%v) != slot (%d,%d,%d,%v)", te.Round, te.Period, te.Step, te.Proto, sl.round, sl.period, sl.step, sl.ver)
	}
	if err := sl.checkBundle(ref, te.Bundle, want.value); err != nil {
		return fmt.Errorf("bundle of the %v event is not a quorum proof: %v", te.T, err)
	}
	return nil
}

// checkState compares the tracker's tally with the reference tally (equivocators counted for every value).
func (sl *c06Slot) checkState(tr *voteTracker) error {
	want := sl.ref.tally()
	for v, w := range want {
		if got := tr.count(sl.vals[v]); got != w {
			return fmt.Errorf("tracker counts %d for %s, reference tally %d", got, c06ValName(v), w)
		}
	}
	for p := range tr.Counts {
		if v := sl.valIdx(p); v < 0 || want[v] == 0 {
			return fmt.Errorf("tracker holds a count for %v which has no plain voter in the reference", p)
		}
	}
	if tr.EquivocatorsCount != sl.ref.eqWeight() {
		return fmt.Errorf("tracker equivocator weight %d, reference %d", tr.EquivocatorsCount, sl.ref.eqWeight())
	}
	return nil
}

func (sl *c06Slot) note(s, v int, o c06Outcome) {
	switch {
	case o.ignored:
		if _, isEq := sl.ref.eq[s]; isEq {
			sl.thirds++
		} else {
			sl.dups++
		}
		if !sl.crossed {
			sl.dupOrEqBeforeCross = true
		}
	case o.equiv:
		sl.equivs++
	}
	if sl.crossed && !o.cross {
		sl.after++
	}
	if o.cross {
		sl.crossed = true
		sl.crossByEquiv = o.equiv
		sl.crossVal = o.value
		if len(sl.ref.eq) > 0 {
			sl.dupOrEqBeforeCross = true
		}
	}
}

func (sl *c06Slot) render() string {
	ver := string(sl.ver)
	if sl.ver == protocol.ConsensusCurrentVersion {
		ver = "current"
	}
	return fmt.Sprintf("slot%d %s (r%d,p%d,s%d) T=%d w=%v byz=%v: %s", sl.idx, ver, sl.round, sl.period, sl.step, sl.T, sl.w, sl.byz, strings.Join(sl.log, " "))
}

// ---------------------------------------------------------------------------------------------------------------
// generators

var c06Versions = []protocol.ConsensusVersion{protocol.ConsensusCurrentVersion, protocol.ConsensusCurrentVersion, protocol.ConsensusCurrentVersion, protocol.ConsensusV7, protocol.ConsensusV8}
var c06Steps = []step{soft, soft, cert, cert, next, next, next + 1, next + 4, late, redo, down}

func c06DrawWeights(t *rapid.T, n int, T uint64) ([]uint64, string) {
	w := make([]uint64, n)
	mode := rapid.IntRange(0, 4).Draw(t, "wmode")
	switch mode {
	case 0: // total weight S placed at / around T .. 2T, split in random proportions
		var S uint64
		switch rapid.IntRange(0, 4).Draw(t, "S") {
		case 0:
			S = T - 1
		case 1:
			S = T
		case 2:
			S = T + 1
		default:
			S = rapid.Uint64Range(T, 2*T-1).Draw(t, "Sval")
		}
		raw := make([]uint64, n)
		sum := uint64(0)
		for i := range raw {
			raw[i] = rapid.Uint64Range(1, 10).Draw(t, "raw")
			sum += raw[i]
		}
		acc := uint64(0)
		for i := range w {
			w[i] = raw[i] * S / sum
			if w[i] == 0 {
				w[i] = 1
			}
			acc += w[i]
		}
		if acc < S {
			w[n-1] += S - acc
		}
		return w, "total-around-T"
	case 1: // a prefix of the senders sums to exactly T-d
		for i := range w {
			w[i] = rapid.Uint64Range(1, T/2).Draw(t, "w")
		}
		k := rapid.IntRange(1, n).Draw(t, "k")
		d := rapid.Uint64Range(0, 2).Draw(t, "d")
		part := uint64(0)
		for i := 0; i < k-1; i++ {
			part += w[i]
		}
		if part < T-d {
			w[k-1] = T - d - part
		}
		return w, "subset-exact"
	case 2: // one whale
		for i := range w {
			w[i] = rapid.Uint64Range(1, 5).Draw(t, "w")
		}
		w[rapid.IntRange(0, n-1).Draw(t, "whale")] = []uint64{T - 1, T, T + 1, T - 3, T / 2}[rapid.IntRange(0, 4).Draw(t, "whaleW")]
		return w, "whale"
	case 3: // k equal shares of T
		k := uint64(rapid.IntRange(1, n).Draw(t, "k"))
		for i := range w {
			w[i] = T / k
			if rapid.Bool().Draw(t, "ceil") {
				w[i] = (T + k - 1) / k
			}
		}
		return w, "equal-shares"
	default:
		for i := range w {
			w[i] = rapid.Uint64Range(1, T).Draw(t, "w")
		}
		return w, "random"
	}
}

func c06DrawSlot(t *rapid.T, idx int, used map[[3]uint64]bool) *c06Slot {
	sl := &c06Slot{idx: idx}
	sl.ver = rapid.SampledFrom(c06Versions).Draw(t, "proto")
	sl.proto = config.Consensus[sl.ver]
	for {
		sl.round = round(rapid.IntRange(0, 2).Draw(t, "round"))
		sl.period = period(rapid.IntRange(0, 2).Draw(t, "period"))
		sl.step = rapid.SampledFrom(c06Steps).Draw(t, "step")
		k := [3]uint64{uint64(sl.round), uint64(sl.period), uint64(sl.step)}
		if !used[k] {
			used[k] = true
			break
		}
	}
	sl.T = c06Threshold(sl.proto, sl.step)
	n := rapid.IntRange(1, 8).Draw(t, "senders")
	sl.w, sl.wmode = c06DrawWeights(t, n, sl.T)
	nvals := 3
	if sl.step >= next {
		nvals = 4 // bottom is a legal value from the first next step on
	}
	for i := 0; i < nvals; i++ {
		sl.vals = append(sl.vals, c06Value(i))
	}
	sl.main = rapid.IntRange(0, nvals-1).Draw(t, "main")
	allByz := rapid.IntRange(0, 9).Draw(t, "allByz") == 0
	for s := 0; s < n; s++ {
		sl.addrs = append(sl.addrs, c06Addr(idx, s))
		sl.byz = append(sl.byz, allByz || rapid.IntRange(0, 9).Draw(t, "byz") < 3)
		p := sl.main
		if rapid.IntRange(0, 9).Draw(t, "dissent") < 1 {
			p = rapid.IntRange(0, nvals-1).Draw(t, "pref")
		}
		sl.pref = append(sl.pref, p)
	}
	sl.ref = c06NewRef(sl.T, sl.w)
	return sl
}

// drawVote: honest senders repeat their one value (duplicates); byzantine ones vote anything (equivocations).
func (sl *c06Slot) drawVote(t *rapid.T) (s, v int) {
	s = rapid.IntRange(0, len(sl.w)-1).Draw(t, "s")
	if !sl.byz[s] {
		return s, sl.pref[s]
	}
	switch k := rapid.IntRange(0, 9).Draw(t, "bk"); {
	case k < 3:
		v = sl.main
	case k < 5:
		v = sl.pref[s]
	default:
		v = rapid.IntRange(0, len(sl.vals)-1).Draw(t, "v")
	}
	return
}

func c06Tracer() *tracer {
	l := logging.NewLogger()
	l.SetLevel(logging.Error)
	l.SetOutput(io.Discard)
	return &tracer{log: serviceLogger{l}}
}

func c06Safely(f func() event) (out event, pan interface{}) {
	defer func() {
		if r := recover(); r != nil {
			pan = r
		}
	}()
	out = f()
	return
}

func c06Labels(vk *vkCtx, slots []*c06Slot) (nt bool, fp string) {
	var fps []string
	for _, sl := range slots {
		fps = append(fps, sl.render())
		vk.Labelf("step=%d", sl.step)
		vk.Label("weights=" + sl.wmode)
		if sl.crossed {
			vk.Label("crossed")
			if sl.crossByEquiv {
				vk.Label("crossed-by-equivocating-vote")
			}
			if sl.crossVal == 3 {
				vk.Label("crossed-value-bottom")
			}
			if sl.bundleEq > 0 {
				vk.Label("bundle-has-equivocation-pairs")
			}
			if sl.after > 0 {
				vk.Label("votes-after-crossing")
			}
			if sl.dupOrEqBeforeCross {
				vk.Label("crossed-with-dup-or-equivocator-before")
				nt = true
			}
		} else {
			vk.Label("not-crossed")
			if tl := sl.ref.tally(); len(tl) > 0 {
				best := uint64(0)
				for _, w := range tl {
					if w > best {
						best = w
					}
				}
				if best+3 >= sl.T {
					vk.Label("not-crossed-within-3-of-T")
				}
			}
		}
		if sl.equivs > 0 {
			vk.Label("has-equivocator")
		}
		if sl.dups > 0 {
			vk.Label("has-duplicate")
		}
		if sl.thirds > 0 {
			vk.Label("has-third-vote-of-equivocator")
		}
		if sl.forbid > 0 {
			vk.Label("had-precondition-skips")
		}
		vk.Add("events_fed", int64(sl.seq))
		vk.Add("votes_skipped_precondition", int64(sl.forbid))
	}
	vk.Labelf("slots=%d", len(slots))
	return nt, strings.Join(fps, " || ")
}

// ---------------------------------------------------------------------------------------------------------------
// Unit 1: voteAccepted events dispatched through the real router tree to the per-step voteTracker

func TestVerif_C06_Tracker(t *testing.T) {
	vk := vkBegin(t, "C06")
	vk.Rule("1-3 (round,period,step) slots per case, each with 1-8 senders whose weights are placed around the real step threshold (total at T-1/T/T+1..2T, a subset summing to T-d, a whale, equal shares, random), honest senders repeat one value, byzantine ones vote A/B/C/bottom freely; up to 60 interleaved voteAccepted events dispatched through a real rootRouter to the step's checked voteTracker; oracle = reference tally per slot (event iff first crossing, value, bundle recomputed from the fed votes, tracker tally == reference tally); non-trivial = a threshold was crossed with a duplicate or an equivocator before it; distinct by slot configuration + event sequence")
	vk.Assume("votes whose acceptance would make equivocators alone reach T, or two values reach T at once, are not fed (voteTracker panics there by design); each sender has one weight per step (credential is a function of sender, round, period, step)")
	tr := c06Tracer()
	rapid.Check(t, func(t *rapid.T) {
		nslots := []int{1, 1, 1, 2, 3}[rapid.IntRange(0, 4).Draw(t, "nslots")]
		used := map[[3]uint64]bool{}
		var slots []*c06Slot
		for i := 0; i < nslots; i++ {
			slots = append(slots, c06DrawSlot(t, i, used))
		}
		rr := new(rootRouter)
		pl := player{}
		h := routerHandle{t: tr, r: rr, src: voteMachinePeriod}
		nev := rapid.IntRange(1, 60).Draw(t, "events")
		for i := 0; i < nev; i++ {
			sl := slots[0]
			if nslots > 1 {
				sl = slots[rapid.IntRange(0, nslots-1).Draw(t, "slot")]
			}
			s, v := sl.drawVote(t)
			if sl.ref.forbidden(s, v) {
				sl.forbid++
				vk.Excluded("vote would break the honest-majority precondition (voteTracker panics by design)")
				continue
			}
			seq := sl.seq
			sl.seq++
			vt := sl.vote(s, v, seq)
			want := sl.ref.apply(s, v, seq)
			sl.log = append(sl.log, fmt.Sprintf("%d:%s", s, c06ValName(v)))
			out, pan := c06Safely(func() event {
				return h.dispatch(pl, voteAcceptedEvent{Vote: vt, Proto: sl.ver}, voteMachineStep, sl.round, sl.period, sl.step)
			})
			if pan != nil {
				t.Fatalf("voteTracker panicked on a precondition-respecting vote: %v\n%s", pan, sl.render())
			}
			if err := sl.checkOut(sl.ref, out, want); err != nil {
				t.Fatalf("event %d (sender %d votes %s): %v\n%s", seq, s, c06ValName(v), err, sl.render())
			}
			if want.cross {
				sl.bundleEq = len(out.(thresholdEvent).Bundle.EquivocationVotes)
				sl.log[len(sl.log)-1] += "!"
			}
			sl.note(s, v, want)
			sr := rr.Children[sl.round].Children[sl.period].Children[sl.step]
			if err := sl.checkState(&sr.VoteTracker); err != nil {
				t.Fatalf("after event %d (sender %d votes %s): %v\n%s", seq, s, c06ValName(v), err, sl.render())
			}
			if sr.VoteTrackerContract.Emitted != sl.ref.emitted {
				t.Fatalf("after event %d: contract.Emitted=%v reference=%v\n%s", seq, sr.VoteTrackerContract.Emitted, sl.ref.emitted, sl.render())
			}
		}
		nt, fp := c06Labels(vk, slots)
		vk.Case(nt, fp)
		if vk.WantSample(nt) {
			vk.Sample(nt, fp)
		}
	})
}

// ---------------------------------------------------------------------------------------------------------------
// Unit 2: the same histories delivered as voteVerified / bundleVerified messages to the real voteAggregator

func TestVerif_C06_Aggregator(t *testing.T) {
	vk := vkBegin(t, "C06")
	vk.Rule("one slot per case (generator of unit Tracker); the history arrives at the real checked voteAggregator (root of a real rootRouter) as voteVerified messages and as bundleVerified messages (distinct senders, plain votes for one value + equivocation pairs, quorum or not); oracle = reference tally folded over the flattened votes: threshold event iff first crossing inside the message, else none / voteFiltered (duplicate, known equivocator) / bundleFiltered; tracker tally == reference; non-trivial = crossed with a duplicate or an equivocator before; distinct by configuration + message sequence")
	vk.Assume("same precondition as unit Tracker; bundles are cut before a vote that would break it")
	tr := c06Tracer()
	rapid.Check(t, func(t *rapid.T) {
		sl := c06DrawSlot(t, 0, map[[3]uint64]bool{})
		if sl.round == 0 {
			sl.round = 1
		}
		rr := new(rootRouter)
		pl := player{Round: sl.round, Period: sl.period, Step: sl.step}
		fresh := freshnessData{PlayerRound: sl.round, PlayerPeriod: sl.period, PlayerStep: sl.step}
		h := routerHandle{t: tr, r: rr, src: playerMachine}
		view := ConsensusVersionView{Version: sl.ver}
		nmsg := rapid.IntRange(1, 30).Draw(t, "messages")
		bundles, bundleCross := 0, 0
		for i := 0; i < nmsg; i++ {
			if rapid.IntRange(0, 3).Draw(t, "msgKind") > 0 {
				// ---- single vote
				s, v := sl.drawVote(t)
				if sl.ref.forbidden(s, v) {
					sl.forbid++
					vk.Excluded("vote would break the honest-majority precondition (voteTracker panics by design)")
					continue
				}
				seq := sl.seq
				sl.seq++
				vt := sl.vote(s, v, seq)
				want := sl.ref.apply(s, v, seq)
				sl.log = append(sl.log, fmt.Sprintf("%d:%s", s, c06ValName(v)))
				msg := filterableMessageEvent{messageEvent: messageEvent{T: voteVerified, Input: message{Vote: vt, UnauthenticatedVote: vt.u()}, Proto: view}, FreshnessData: fresh}
				out, pan := c06Safely(func() event { return h.dispatch(pl, msg, voteMachine, 0, 0, 0) })
				if pan != nil {
					t.Fatalf("voteAggregator panicked on a precondition-respecting vote: %v\n%s", pan, sl.render())
				}
				if want.ignored {
					if out.t() != voteFiltered {
						t.Fatalf("vote %d:%s is a duplicate / from a known equivocator but the aggregator answered %v\n%s", s, c06ValName(v), out.t(), sl.render())
					}
				} else if err := sl.checkOut(sl.ref, out, want); err != nil {
					t.Fatalf("message %d (sender %d votes %s): %v\n%s", i, s, c06ValName(v), err, sl.render())
				}
				if want.cross {
					sl.bundleEq = len(out.(thresholdEvent).Bundle.EquivocationVotes)
					sl.log[len(sl.log)-1] += "!"
				}
				sl.note(s, v, want)
			} else {
				// ---- bundle: plain votes for bv from distinct senders + equivocation pairs from other senders
				bundles++
				bv := sl.main
				if rapid.IntRange(0, 3).Draw(t, "bundleOther") == 0 {
					bv = rapid.IntRange(0, len(sl.vals)-1).Draw(t, "bv")
				}
				perm := rapid.Permutation(c06Ints(len(sl.w))).Draw(t, "perm")
				np := rapid.IntRange(1, len(perm)).Draw(t, "nplain")
				ne := 0
				if len(perm) > np && rapid.Bool().Draw(t, "withPairs") {
					ne = rapid.IntRange(1, len(perm)-np).Draw(t, "npairs")
				}
				var b bundle
				b.U = unauthenticatedBundle{Round: sl.round, Period: sl.period, Step: sl.step, Proposal: sl.vals[bv]}
				var want c06Outcome
				var snap *c06Ref
				crossed := false
				var part []string
				play := func(s, v, seq int) {
					o := sl.ref.apply(s, v, seq)
					sl.note(s, v, o)
					if o.cross {
						want, crossed, snap = o, true, sl.ref.clone()
					}
				}
				cut := false
				for _, s := range perm[:np] {
					if sl.ref.forbidden(s, bv) {
						cut = true
						break
					}
					seq := sl.seq
					sl.seq++
					b.Votes = append(b.Votes, sl.vote(s, bv, seq))
					play(s, bv, seq)
					part = append(part, fmt.Sprintf("%d:%s", s, c06ValName(bv)))
				}
				for _, s := range perm[np : np+ne] {
					if cut {
						break
					}
					v0 := rapid.IntRange(0, len(sl.vals)-1).Draw(t, "v0")
					v1 := (v0 + rapid.IntRange(1, len(sl.vals)-1).Draw(t, "v1")) % len(sl.vals)
					// the pair is replayed as two votes; both must respect the precondition
					c := sl.ref.clone()
					if c.forbidden(s, v0) {
						cut = true
						break
					}
					c.apply(s, v0, -1)
					if c.forbidden(s, v1) {
						cut = true
						break
					}
					seq := sl.seq
					sl.seq += 2
					a, bb := sl.vote(s, v0, seq), sl.vote(s, v1, seq+1)
					b.EquivocationVotes = append(b.EquivocationVotes, equivocationVote{Sender: a.R.Sender, Round: sl.round, Period: sl.period, Step: sl.step, Cred: a.Cred, Proposals: [2]proposalValue{a.R.Proposal, bb.R.Proposal}, Sigs: [2]crypto.OneTimeSignature{a.Sig, bb.Sig}})
					play(s, v0, seq)
					play(s, v1, seq+1)
					part = append(part, fmt.Sprintf("%d:%s/%s", s, c06ValName(v0), c06ValName(v1)))
				}
				if cut {
					sl.forbid++
					vk.Excluded("bundle cut before a vote that would break the honest-majority precondition")
				}
				if len(b.Votes) == 0 {
					bundles--
					continue
				}
				sl.log = append(sl.log, "["+strings.Join(part, ",")+"]")
				msg := filterableMessageEvent{messageEvent: messageEvent{T: bundleVerified, Input: message{Bundle: b, UnauthenticatedBundle: b.U}, Proto: view}, FreshnessData: fresh}
				out, pan := c06Safely(func() event { return h.dispatch(pl, msg, voteMachine, 0, 0, 0) })
				if pan != nil {
					t.Fatalf("voteAggregator panicked on a precondition-respecting bundle: %v\n%s", pan, sl.render())
				}
				if crossed {
					bundleCross++
					if err := sl.checkOut(snap, out, want); err != nil {
						t.Fatalf("message %d (bundle %v): %v\n%s", i, part, err, sl.render())
					}
					sl.bundleEq = len(out.(thresholdEvent).Bundle.EquivocationVotes)
					sl.log[len(sl.log)-1] += "!"
				} else if out.t() != bundleFiltered {
					t.Fatalf("message %d (bundle %v): no first crossing inside the bundle (already signalled=%v, tally=%v, T=%d) but the aggregator answered %v\n%s", i, part, sl.ref.emitted, sl.ref.tally(), sl.T, out.t(), sl.render())
				}
			}
			if rc := rr.Children[sl.round]; rc != nil && rc.Children[sl.period] != nil && rc.Children[sl.period].Children[sl.step] != nil {
				sr := rc.Children[sl.period].Children[sl.step]
				if err := sl.checkState(&sr.VoteTracker); err != nil {
					t.Fatalf("after message %d: %v\n%s", i, err, sl.render())
				}
				if sr.VoteTrackerContract.Emitted != sl.ref.emitted {
					t.Fatalf("after message %d: contract.Emitted=%v reference=%v\n%s", i, sr.VoteTrackerContract.Emitted, sl.ref.emitted, sl.render())
				}
			}
		}
		nt, fp := c06Labels(vk, []*c06Slot{sl})
		if bundles > 0 {
			vk.Label("has-bundle-message")
		}
		if bundleCross > 0 {
			vk.Label("crossed-inside-bundle")
		}
		vk.Case(nt, fp)
		if vk.WantSample(nt) {
			vk.Sample(nt, fp)
		}
	})
}

func c06Ints(n int) []int {
	r := make([]int, n)
	for i := range r {
		r[i] = i
	}
	return r
}

// ---------------------------------------------------------------------------------------------------------------
// Unit 3: exhaustive tiny space — 3 senders x 2 values, every sequence of length <= 6, for every step kind and a
// set of weight configurations that realises every relation between subset sums and T.

type c06ExhReplay struct {
	Step    int
	T       uint64
	Weights []uint64
	Seq     []string
}

func TestVerif_C06_Exhaustive(t *testing.T) {
	vk := vkBegin(t, "C06")
	vk.Rule("every sequence of length <= 5 (quick) / <= 6 (thorough) over 3 senders x 2 values (A,B for soft/cert; A,bottom for next/late/redo/down), for 8 weight configurations relative to the real threshold T and 6 step kinds, fed to a checked voteTracker; sequences are cut at the first vote that breaks the honest-majority precondition; same oracle as unit Tracker; non-trivial = crossed with a duplicate or equivocator before")
	tr := c06Tracer()
	ver := protocol.ConsensusCurrentVersion
	proto := config.Consensus[ver]
	steps := []step{soft, cert, next, late, redo, down}
	maxLen := vkN(5, 6)
	type job struct {
		st  step
		cfg int
	}
	var jobs []job
	for _, st := range steps {
		for c := 0; c < 8; c++ {
			jobs = append(jobs, job{st, c})
		}
	}
	seqs, cut := int64(0), int64(0)
	for ji, jb := range jobs {
		if ji%vkNShards() != vkShard() {
			continue
		}
		T := c06Threshold(proto, jb.st)
		third := (T + 2) / 3
		var w []uint64
		switch jb.cfg {
		case 0:
			w = []uint64{third, third, third} // all three needed (or two + nothing): 3*ceil(T/3) >= T
		case 1:
			w = []uint64{(T + 1) / 2, T / 2, 1} // the two big ones reach T exactly
		case 2:
			w = []uint64{T - 1, 1, 1}
		case 3:
			w = []uint64{T, 1, 1} // a single vote crosses
		case 4:
			w = []uint64{T - 2, 1, 1} // all three reach exactly T
		case 5:
			w = []uint64{T / 2, T / 2, 1}
		case 6:
			w = []uint64{third - 1, third - 1, third - 1} // never reaches T
		case 7:
			w = []uint64{T - 3, 2, 1}
		}
		vals := []int{0, 1}
		if jb.st >= next {
			vals = []int{0, 3}
		}
		// enumerate all maximal sequences (odometer over 6 symbols, maxLen digits); shorter sequences are their prefixes
		digits := make([]int, maxLen)
		for {
			sl := &c06Slot{idx: 0, ver: ver, proto: proto, round: 1, period: 2, step: jb.st, T: T, w: w}
			for i := 0; i < 4; i++ {
				sl.vals = append(sl.vals, c06Value(i))
			}
			for s := 0; s < 3; s++ {
				sl.addrs = append(sl.addrs, c06Addr(0, s))
			}
			sl.ref = c06NewRef(T, w)
			vtr := new(voteTracker)
			lst := checkedListener{listener: vtr, listenerContract: new(voteTrackerContract)}
			h := routerHandle{t: tr, src: voteMachinePeriod}
			wasCut := false
			for i := 0; i < maxLen; i++ {
				s, v := digits[i]/2, vals[digits[i]%2]
				if sl.ref.forbidden(s, v) {
					wasCut = true
					break
				}
				vt := sl.vote(s, v, i)
				sl.seq++
				want := sl.ref.apply(s, v, i)
				out, pan := c06Safely(func() event { return lst.handle(h, player{}, voteAcceptedEvent{Vote: vt, Proto: ver}) })
				fail := func(format string, a ...interface{}) {
					sl.log = nil
					for _, d := range digits[:i+1] {
						sl.log = append(sl.log, fmt.Sprintf("%d:%s", d/2, c06ValName(vals[d%2])))
					}
					vk.Failf(c06ExhReplay{int(jb.st), T, w, sl.log}, "%s\n%s", fmt.Sprintf(format, a...), sl.render())
				}
				if pan != nil {
					fail("voteTracker panicked on a precondition-respecting vote: %v", pan)
				}
				if err := sl.checkOut(sl.ref, out, want); err != nil {
					fail("event %d: %v", i, err)
				}
				sl.note(s, v, want)
				if err := sl.checkState(vtr); err != nil {
					fail("after event %d: %v", i, err)
				}
			}
			seqs++
			if wasCut {
				cut++
			}
			nt := sl.crossed && sl.dupOrEqBeforeCross
			fp := fmt.Sprintf("x/%d/%d/%v/%d", jb.st, jb.cfg, digits, sl.seq)
			vk.Case(nt, fp)
			if sl.crossed {
				vk.Label("crossed")
				if sl.crossByEquiv {
					vk.Label("crossed-by-equivocating-vote")
				}
				if sl.after > 0 {
					vk.Label("votes-after-crossing")
				}
			} else {
				vk.Label("not-crossed")
			}
			if wasCut {
				vk.Label("cut-at-precondition")
			}
			if vk.WantSample(nt) {
				for _, d := range digits[:sl.seq] {
					sl.log = append(sl.log, fmt.Sprintf("%d:%s", d/2, c06ValName(vals[d%2])))
				}
				vk.Sample(nt, sl.render())
			}
			// next sequence
			k := maxLen - 1
			for k >= 0 {
				digits[k]++
				if digits[k] < 6 {
					break
				}
				digits[k] = 0
				k--
			}
			if k < 0 {
				break
			}
		}
	}
	vk.Add("sequences", seqs)
	vk.Add("sequences_cut_at_precondition", cut)
	vk.Exhaustive(fmt.Sprintf("all 6^%d maximal sequences (hence all sequences of length <= %d) over 3 senders x 2 values, x 8 weight configurations x 6 step kinds (the 48 jobs are split over the shards), each up to the first precondition-breaking vote", maxLen, maxLen))
}
