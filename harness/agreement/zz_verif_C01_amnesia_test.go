package agreement

// C01 — reproduction of the known finding "double-crash-amnesia" (excluded by construction from the random schedules,
// see engaSim.crash):
//
//	service.go:224-253  after a restart that adopts the decoded crash state, mainLoop re-executes the restored actions
//	                    but does NOT assign persistRouter/persistStatus/persistActions (only service.go:266-270 does,
//	                    after a later persistent transition);
//	actions.go:443      the restored attest action calls s.persistState(...);
//	service.go:281-283  persistState encodes the still zero-valued persistRouter/persistStatus/persistActions and the
//	                    persistence loop (persistence.go:351-378, Ledger.Wait(0) is already closed) overwrites row 1 of
//	                    the crash DB with that empty state.
//
// From then until the next attest the crash DB no longer protects the node: a second crash restarts it "fresh"
// (service.go:234 status.Round(0) < Ledger.NextRound()) with an empty router — it has forgotten the votes it cast in
// the current round. If nodes holding together a quorum of stake do this after cert-voting a block that some other node
// committed, they can time out to period 1 and commit a different block for the same round.
//
// The scenario below is a schedule the real Service can produce: 3 nodes (2+2+1 equal accounts); cert votes reach only
// node 2, which commits V; nodes 0 and 1 each crash, restart (restored), let the persistence loop run, crash again,
// restart; their period-0 proposals to each other are lost; they next-vote bottom, enter period 1 and commit V1 != V.

import (
	"fmt"
	"testing"

	"github.com/algorand/go-algorand/crypto"
	"github.com/algorand/go-algorand/protocol"
)

type c01Caught struct{}

type c01Catch struct{ msg string }

func (c *c01Catch) Fatalf(f string, a ...any) {
	c.msg = fmt.Sprintf(f, a...)
	panic(c01Caught{})
}
func (c *c01Catch) Logf(string, ...any) {}

type c01AmnesiaResult struct {
	KeySeed  uint64
	Forked   bool
	Message  string
	Why      string
	Events   int
	Commits  []string
	ZeroDisk int
}

func c01VoteStep(m *engaMsg) (step, period, bool) {
	if m.tag != protocol.AgreementVoteTag {
		return 0, 0, false
	}
	o, err := decodeVote(m.data)
	if err != nil {
		return 0, 0, false
	}
	uv := o.(unauthenticatedVote)
	return uv.R.Step, uv.R.Period, true
}

func c01AmnesiaScenario(keySeed uint64) (res c01AmnesiaResult) {
	res.KeySeed = keySeed
	catch := &c01Catch{}
	cfg := engaConfig{Nodes: 3, Accts: []int{2, 2, 1}, Stake: []uint64{1e6, 1e6, 1e6, 1e6, 1e6}, KeySeed: keySeed}
	var s *engaSim
	defer func() {
		if r := recover(); r != nil {
			if _, ok := r.(c01Caught); !ok {
				panic(r)
			}
			res.Message = catch.msg
			if len(res.Message) > 600 {
				res.Message = res.Message[:600]
			}
			if s != nil {
				res.Events = s.stats.events
				for _, e := range s.ensures {
					res.Commits = append(res.Commits, fmt.Sprintf("node%d/inc%d r%d %.8s", e.Node, e.Incarnation, e.Round, e.Digest.String()))
				}
				// the fork is what c01Observer reports
				res.Forked = len(s.ensures) >= 2 && s.ensures[len(s.ensures)-1].Digest != s.ensures[0].Digest && s.ensures[len(s.ensures)-1].Round == s.ensures[0].Round
			}
		}
	}()
	s = engaNewSim(catch, cfg)
	s.allowAmnesia = true
	c01Attach(s)
	ent := func() uint64 { return 0 }
	// phase 1: cert votes never reach nodes 0 and 1
	s.hold = func(m *engaMsg) bool {
		st, _, ok := c01VoteStep(m)
		return ok && st == cert && m.dst != 2
	}
	for i := 0; i < 3000 && s.nodes[2].committed() < 1; i++ {
		if !s.benignStep(ent()) {
			break
		}
		if s.nodes[0].committed() >= 1 || s.nodes[1].committed() >= 1 {
			res.Why = "node 0/1 committed in phase 1"
			return
		}
	}
	if s.nodes[2].committed() < 1 {
		res.Why = "node 2 did not commit in phase 1"
		return
	}
	// phase 2: nodes 0 and 1: crash, restart from the crash DB, persistence loop runs, crash again, restart
	for _, i := range []int{0, 1} {
		n := s.nodes[i]
		if n.disk == nil || n.diskRound != 1 {
			res.Why = fmt.Sprintf("node %d has no round-1 crash state", i)
			return
		}
		s.crash(i)
		fresh := s.stats.freshStarts
		s.restart(i)
		if s.stats.freshStarts != fresh {
			res.Why = fmt.Sprintf("node %d did not adopt its crash state", i)
			return
		}
		for n.diskWrite() {
		}
		if n.diskZero {
			res.ZeroDisk++
		}
		s.crash(i)
		s.restart(i)
	}
	s.pool = nil
	for i := range s.known {
		s.known[i] = map[crypto.Digest]bool{}
	}
	// phase 3: node 2 is unreachable; period-0 proposals between nodes 0 and 1 are lost
	s.hold = func(m *engaMsg) bool {
		if m.src == 2 || m.dst == 2 {
			return true
		}
		if m.tag == protocol.ProposalPayloadTag {
			if o, err := decodeProposal(m.data); err == nil {
				return o.(compoundMessage).Proposal.OriginalPeriod == 0
			}
		}
		if st, p, ok := c01VoteStep(m); ok && st == propose && p == 0 {
			return true
		}
		return false
	}
	for i := 0; i < 6000; i++ {
		if s.nodes[0].committed() >= 1 && s.nodes[1].committed() >= 1 {
			break
		}
		if !s.benignStep(ent()) {
			break
		}
	}
	res.Events = s.stats.events
	res.Why = fmt.Sprintf("no fork: commits=%d maxPeriod=%d", len(s.ensures), s.stats.maxPeriod)
	return
}

// TestVerif_C01_KnownAmnesia reproduces the finding and reports it through vk.Known.
func TestVerif_C01_KnownAmnesia(t *testing.T) {
	vk := vkBegin(t, "C01")
	vk.Rule("directed schedule reproducing the excluded class double-crash-amnesia over several populations; non-trivial = the schedule reached the second restart with the crash DB holding the zero state")
	var forked *c01AmnesiaResult
	for ks := uint64(0); ks < 12; ks++ {
		res := c01AmnesiaScenario(ks)
		nt := res.ZeroDisk == 2
		vk.Case(nt, fmt.Sprintf("amnesia/%d/%v/%s", ks, res.Forked, res.Why))
		vk.Sample(nt, res)
		if res.ZeroDisk > 0 {
			vk.Label("amnesia/crash_db_overwritten_with_zero_state")
		}
		if res.Forked {
			vk.Label("amnesia/forked")
			if forked == nil {
				r := res
				forked = &r
			}
		} else {
			vk.Label("amnesia/no_fork")
		}
	}
	if forked != nil {
		vk.Known("double-crash-amnesia", "two crash/restart cycles of a stake majority forget cast cert votes (service.go persistState encodes unassigned persistRouter after restore) and commit a second block for the round: "+forked.Message[:min(len(forked.Message), 200)], forked)
	}
}
