package agreement

// C41 native fuzz targets (thorough tier only) for the wire types of this package; seed corpora live in
// /verif/corpus/<FuzzName>/ (written once by TestVerif_C41_WriteCorpus_* with VERIF_WRITE_CORPUS=<dir>).

import "testing"

func FuzzVerif_C41_TransmittedPayload(f *testing.F) { c41FuzzRun(f, "transmittedPayload") }

func FuzzVerif_C41_Vote(f *testing.F) { c41FuzzRun(f, "unauthenticatedVote") }

func FuzzVerif_C41_Bundle(f *testing.F) { c41FuzzRun(f, "unauthenticatedBundle") }

func TestVerif_C41_WriteCorpus_agreement(t *testing.T) {
	c41WriteCorpus(t, "FuzzVerif_C41_TransmittedPayload", "transmittedPayload")
	c41WriteCorpus(t, "FuzzVerif_C41_Vote", "unauthenticatedVote")
	c41WriteCorpus(t, "FuzzVerif_C41_Bundle", "unauthenticatedBundle")
}
