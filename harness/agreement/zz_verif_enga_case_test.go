package agreement

// Engine A — one adversarial case (population + benign prefix + rapid-driven schedule), shared by C01/C03/C07.

import (
	"pgregory.net/rapid"
)

type engaCaseOpts struct {
	hook    func(s *engaSim) // attach observers before the first event
	budgets []int            // candidate event budgets
}

type engaCase struct {
	s       *engaSim
	sc      *engaSched
	cfg     engaConfig
	stopped bool // ended early: the drawn committee violates the protocol precondition (s.excluded says why)
	rounds  round
}

func engaBudgets() []int {
	if vkThorough() {
		return []int{300, 500, 700, 900, 1200}
	}
	return []int{300, 500, 700, 900}
}

// engaRunCase draws and runs one adversarial case. Node construction happens inside (the first events — fresh start
// actions — are already observed by the hook's observers only for later transitions; start-up actions are not transitions).
func engaRunCase(t *rapid.T, o engaCaseOpts) *engaCase {
	c := &engaCase{}
	withByz := rapid.IntRange(0, 2).Draw(t, "withByz") > 0
	if withByz {
		// B <= 2 of >= 9 accounts (else B <= 1): DESIGN 1.2 population
		c.cfg = engaDrawConfig(t, 3, 5, 7, 10, 2)
		if c.cfg.Byz > 1 && len(c.cfg.Stake) < 9 {
			c.cfg.Byz = 1
			c.cfg.Stake = c.cfg.Stake[:len(c.cfg.Stake)-1]
		}
	} else {
		c.cfg = engaDrawConfig(t, 3, 6, 4, 9, 0)
	}
	s := engaNewSimHook(t, c.cfg, o.hook)
	c.s = s
	s.traceOn = true
	sc := engaNewSched(t, s)
	c.sc = sc
	if o.budgets == nil {
		o.budgets = engaBudgets()
	}
	budget := o.budgets[rapid.IntRange(0, len(o.budgets)-1).Draw(t, "budget")]
	c.rounds = round(rapid.IntRange(1, 3).Draw(t, "rounds"))
	// benign prefix: reach the middle of a round constructively, then hand over to the adversarial scheduler
	prefix := 0
	if rapid.IntRange(0, 2).Draw(t, "hasPrefix") > 0 {
		prefix = rapid.IntRange(1, 250).Draw(t, "prefix")
	}
	// bias: from the very start the network delays proposal payloads (or cert votes) towards a few nodes and releases
	// them later — constructs "cert threshold before the block" (stageDigest, late-payload commit) and nodes that learn
	// the outcome only from bundles
	if rapid.IntRange(0, 2).Draw(t, "earlyHold") == 0 {
		n := len(s.nodes)
		mask := 1 << rapid.IntRange(0, n-1).Draw(t, "earlyHoldNode") // usually one node: the others still form quorums
		if rapid.IntRange(0, 3).Draw(t, "earlyHoldMany") == 0 {
			mask = rapid.IntRange(1, (1<<n)-2).Draw(t, "earlyHoldMask")
		}
		h := engaHold{cls: engaClsPayload, dstMask: mask,
			until: rapid.IntRange(80, 450).Draw(t, "earlyHoldFor"), drop: rapid.IntRange(0, 3).Draw(t, "earlyHoldDrop") == 0}
		if rapid.IntRange(0, 2).Draw(t, "earlyHoldCert") == 0 {
			h.cls = int(cert)
		}
		sc.holds = append(sc.holds, h)
		s.stats.holds++
		s.tracef("SCHED early hold class %d mask %b until %d drop=%v", h.cls, h.dstMask, h.until, h.drop)
	}
	lateMacro := rapid.IntRange(0, 5).Draw(t, "lateMacro") == 0
	c.stopped = s.guard(func() {
		if lateMacro {
			// constructive bias, see macroLatePayload; sometimes after a committed round so that it hits round 2
			if rapid.IntRange(0, 3).Draw(t, "lateAfterRound") == 0 {
				s.runBenign(1, 1500, sc.entropy)
			}
			sc.macroLatePayload()
		}
		for i := 0; i < prefix; i++ {
			if !s.benignStep(sc.entropy()) {
				break
			}
			sc.afterStep()
		}
		for s.stats.events < budget {
			if !sc.step() {
				break
			}
			done := true
			for _, n := range s.nodes {
				if !n.up || n.committed() < c.rounds {
					done = false
				}
			}
			if done {
				break
			}
		}
	})
	s.stats.equivSeen = s.countEquivocations()
	return c
}

// account records the exclusions of the case into vk and reports whether the case has a verdict.
func (c *engaCase) account(vk *vkCtx) bool {
	if c.stopped {
		vk.Excluded(c.s.excluded)
		return false
	}
	return true
}
