package agreement

// C01 — Consensus safety: over all ensureActions of all honest nodes (all incarnations) round -> digest is a function;
// no contract-checker / voteTracker panic while the committee precondition holds. Engine A (zz_verif_enga_*).

import (
	"fmt"
	"testing"

	"pgregory.net/rapid"
)

// c01Observer is the history invariant, evaluated at every ensureAction (i.e. after every step that matters).
type c01Observer struct {
	s       *engaSim
	byRound map[round]engaEnsure
	byNode  map[[2]int]engaEnsure // (node, round) -> first ensure of that node for that round, all incarnations
}

func (o *c01Observer) transition(n *engaNode, e externalEvent, before player, actions []action) {}
func (o *c01Observer) restarted(n *engaNode, restored bool)                                      {}
func (o *c01Observer) crashed(n *engaNode)                                                       {}
func (o *c01Observer) ensured(n *engaNode, en engaEnsure) {
	if en.Cert.Round != en.Payload.Round() {
		o.s.failf("C01: ensureAction of node %d pairs a round-%d certificate with a round-%d block", n.id, en.Cert.Round, en.Payload.Round())
	}
	if prev, ok := o.byNode[[2]int{n.id, int(en.Round)}]; ok && prev.Digest != en.Digest {
		o.s.failf("C01: honest node %d emitted ensureAction for round %d twice with different digests: %v (incarnation %d) then %v (incarnation %d)",
			n.id, en.Round, prev.Digest, prev.Incarnation, en.Digest, en.Incarnation)
	} else if !ok {
		o.byNode[[2]int{n.id, int(en.Round)}] = en
	}
	if prev, ok := o.byRound[en.Round]; ok {
		if prev.Digest != en.Digest {
			o.s.failf("C01: two honest nodes committed different blocks for round %d: node %d (incarnation %d) %v vs node %d (incarnation %d) %v",
				en.Round, prev.Node, prev.Incarnation, prev.Digest, en.Node, en.Incarnation, en.Digest)
		}
	} else {
		o.byRound[en.Round] = en
	}
}

func c01Attach(s *engaSim) *c01Observer {
	o := &c01Observer{s: s, byRound: map[round]engaEnsure{}, byNode: map[[2]int]engaEnsure{}}
	s.obs = append(s.obs, o)
	return o
}

// TestVerif_C01_Benign: glue cross-check. Under the benign policy (FIFO, timeouts at their deadlines) N honest nodes
// must all commit the same block for 1..2 rounds, every node exactly once per round, in period 0, and nothing panics.
// A failure here means the simulator glue is wrong (or the protocol does not even work on the happy path).
func TestVerif_C01_Benign(t *testing.T) {
	vk := vkBegin(t, "C01")
	vk.Rule("benign policy cross-check: 3..6 honest nodes x 1..3 identities, FIFO delivery, timeouts at deadlines; all nodes must commit the same digest each round; non-trivial = >=2 rounds committed by every node")
	rapid.Check(t, func(t *rapid.T) {
		cfg := engaDrawConfig(t, 3, 6, 4, 10, 0)
		rounds := round(rapid.IntRange(1, 2).Draw(t, "rounds"))
		s := engaNewSim(t, cfg)
		s.traceOn = true
		c01Attach(s)
		ent := func() uint64 { return uint64(rapid.IntRange(0, 1_000_000_000).Draw(t, "entropy")) | 1 } // odd: see engaSched.entropy
		ok := s.runBenign(rounds, 4000, ent)
		if !ok {
			// with few equal accounts a step committee can fall below its threshold (e.g. 3 of 4 accounts selected with
			// low weight); then even the benign run needs more periods. Require at least liveness within 4000 events.
			s.failf("benign run did not commit %d rounds within 4000 events (events=%d maxPeriod=%d)", rounds, s.stats.events, s.stats.maxPeriod)
		}
		for r := round(1); r <= rounds; r++ {
			c, ok := s.commits[r]
			if !ok {
				s.failf("round %d has no commit", r)
			}
			for _, n := range s.nodes {
				b, ok := engaBlockOf(n.ledger, r)
				if !ok || b.Digest() != c.Digest {
					s.failf("node %d ledger round %d: have=%v want %v", n.id, r, ok, c.Digest)
				}
			}
		}
		s.label(vk, "benign/")
		vk.Case(rounds >= 2, s.fingerprint())
		if vk.WantSample(rounds >= 2) {
			vk.Sample(rounds >= 2, map[string]any{"config": cfg.String(), "rounds": rounds, "events": s.stats.events, "maxPeriod": s.stats.maxPeriod, "ensures": len(s.ensures)})
		}
	})
}

// TestVerif_C01_Schedules: adversarial schedules (reorder, duplicate, drop, class delays, partition, clock drift,
// timeouts incl. fast recovery, crash/restart from the last persisted bytes, catch-up) and Byzantine identities below the bound.
func TestVerif_C01_Schedules(t *testing.T) {
	vk := vkBegin(t, "C01")
	vk.Rule("rapid-drawn schedules over Engine A (3..6 honest nodes, 0..2 Byzantine identities of >=9 accounts, 250..1200 events): non-trivial = >=1 commit AND one of {period>0, partition, crash between attest and commit, equivocation counted by an honest tracker}; distinct by population + commit sequence + event counters")
	vk.Assume("glue (network, demux tagging, pseudonode, persistence handshake, clock) re-implemented from service.go/demux.go/actions.go/pseudonode.go/persistence.go; the ledger is upstream's testLedger and is durable")
	rapid.Check(t, func(t *rapid.T) {
		c := engaRunCase(t, engaCaseOpts{hook: func(s *engaSim) { c01Attach(s) }})
		s := c.s
		if !c.account(vk) {
			vk.Case(false, s.fingerprint())
			return
		}
		st := s.stats
		nt := len(s.commits) >= 1 && (st.maxPeriod > 0 || st.partitions > 0 || st.crashAttestCommit > 0 || st.equivSeen > 0)
		s.label(vk, "")
		vk.Labelf("profile=%s", c.sc.prof.Name)
		vk.Labelf("byz=%d", c.cfg.Byz)
		vk.Case(nt, s.fingerprint())
		if vk.WantSample(nt) {
			vk.Sample(nt, map[string]any{"config": c.cfg.String(), "profile": c.sc.prof.Name, "events": st.events, "commits": len(s.commits),
				"maxPeriod": st.maxPeriod, "maxStep": st.maxStep, "crashes": st.crashes, "partitions": st.partitions, "byzVotes": st.byzVotes,
				"equivocationsCounted": st.equivSeen, "ensures": fmt.Sprint(len(s.ensures))})
		}
	})
}
