package agreement

// C07 — Persisted consensus state restores exactly. Engine A (zz_verif_enga_*).
//
// Domain: every (router, player, pending actions) reached after ANY transition of adversarial Engine-A runs (not only
// at attest points). Oracles:
//  (1) codec round trip through the real encode/decode: decode(encode(s)) re-encodes to identical bytes (msgp path), the
//      reflect path decodes to a state that re-encodes (msgp) to the same bytes, and the msgp bytes decode on the
//      reflect path to the same;
//  (2) structural: the decoded state equals the live state on every exported (persisted) field — compared by an
//      independent reflection walk that never touches the codec (catches fields the codec silently drops, for which
//      (1) is blind because a lossy encoding is idempotent);
//  (3) behavioural: fork — the restored (router, player) shadows the live node for the next 5..40 events the scheduler
//      feeds that node; action streams (type, ComparableStr, persisted encoding) and the subsequent encodings of
//      (router, player, actions) must be identical.
// Not restored by design and therefore masked: unexported fields (player.lowestCredentialArrivals,
// player.dynamicFilterTimeout, proposalSeeker.lowestIncludingLate/hasLowestIncludingLate, vote.validatedAt,
// proposal.ve/validatedAt/receivedAt, message.messageHandle, networkAction.h, checkpointAction.done, tracer, clock
// identity). Their only behavioural effect inside the horizon is the late-credential note of a proposal-vote
// (ignore vs relay of a step-0 vote that arrives after the freeze), see c07MaskLateCredential.

import (
	"bytes"
	"fmt"
	"reflect"
	"sort"
	"testing"

	"github.com/algorand/go-algorand/crypto"
	"github.com/algorand/go-algorand/protocol"
	"pgregory.net/rapid"
)

type c07Shadow struct {
	incarnation int
	player      player
	router      rootRouter
	tracer      *tracer
	left        int
	age         int
}

type c07Observer struct {
	s       *engaSim
	t       *rapid.T
	vk      *vkCtx
	shadows map[int]*c07Shadow
	reflectEvery int
	count        int

	phase, stageDigestSkipped                                                 int
	snapshots, ntSnapshots, shadowEvents, shadowsDone, maskedLate, maskedOld, maskedNilHandle int
	maxPeriodRouters, withEquiv, withPending, withActions           int
}

func (o *c07Observer) ensured(n *engaNode, en engaEnsure)   {}
func (o *c07Observer) restarted(n *engaNode, restored bool) {}
func (o *c07Observer) crashed(n *engaNode)                  { delete(o.shadows, n.id) }

// c07ExportedDiff walks a and b and returns the path of the first difference in exported (persisted) fields.
// nil and empty maps/slices are equal (the codec does not distinguish them: omitempty / allocbound maps).
func c07ExportedDiff(a, b reflect.Value, path string, depth int) string {
	if depth > 64 {
		return ""
	}
	if a.IsValid() != b.IsValid() {
		return path + ": validity"
	}
	if !a.IsValid() {
		return ""
	}
	if a.Type() != b.Type() {
		return fmt.Sprintf("%s: type %v vs %v", path, a.Type(), b.Type())
	}
	switch a.Kind() {
	case reflect.Struct:
		tp := a.Type()
		for i := 0; i < tp.NumField(); i++ {
			f := tp.Field(i)
			if f.PkgPath != "" && !f.Anonymous {
				continue // unexported: not persisted
			}
			if f.PkgPath != "" && f.Anonymous {
				// embedded unexported struct type (e.g. unauthenticatedProposal in proposal): its exported fields are persisted
				if d := c07ExportedDiff(a.Field(i), b.Field(i), path+"."+f.Name, depth+1); d != "" {
					return d
				}
				continue
			}
			if f.Tag.Get("codec") == "-" {
				continue
			}
			if d := c07ExportedDiff(a.Field(i), b.Field(i), path+"."+f.Name, depth+1); d != "" {
				return d
			}
		}
	case reflect.Map:
		if a.Len() != b.Len() {
			return fmt.Sprintf("%s: map len %d vs %d", path, a.Len(), b.Len())
		}
		iter := a.MapRange()
		for iter.Next() {
			bv := b.MapIndex(iter.Key())
			if !bv.IsValid() {
				return fmt.Sprintf("%s[%v]: missing after restore", path, iter.Key())
			}
			if d := c07ExportedDiff(iter.Value(), bv, fmt.Sprintf("%s[%.24v]", path, iter.Key()), depth+1); d != "" {
				return d
			}
		}
	case reflect.Slice:
		if a.Len() != b.Len() {
			return fmt.Sprintf("%s: slice len %d vs %d", path, a.Len(), b.Len())
		}
		for i := 0; i < a.Len(); i++ {
			if d := c07ExportedDiff(a.Index(i), b.Index(i), fmt.Sprintf("%s[%d]", path, i), depth+1); d != "" {
				return d
			}
		}
	case reflect.Array:
		for i := 0; i < a.Len(); i++ {
			if d := c07ExportedDiff(a.Index(i), b.Index(i), fmt.Sprintf("%s[%d]", path, i), depth+1); d != "" {
				return d
			}
		}
	case reflect.Ptr, reflect.Interface:
		if a.IsNil() != b.IsNil() {
			return path + ": nil vs non-nil"
		}
		if a.IsNil() {
			return ""
		}
		return c07ExportedDiff(a.Elem(), b.Elem(), path, depth+1)
	case reflect.Bool:
		if a.Bool() != b.Bool() {
			return fmt.Sprintf("%s: %v vs %v", path, a.Bool(), b.Bool())
		}
	case reflect.Int, reflect.Int8, reflect.Int16, reflect.Int32, reflect.Int64:
		if a.Int() != b.Int() {
			return fmt.Sprintf("%s: %d vs %d", path, a.Int(), b.Int())
		}
	case reflect.Uint, reflect.Uint8, reflect.Uint16, reflect.Uint32, reflect.Uint64, reflect.Uintptr:
		if a.Uint() != b.Uint() {
			return fmt.Sprintf("%s: %d vs %d", path, a.Uint(), b.Uint())
		}
	case reflect.String:
		if a.String() != b.String() {
			return fmt.Sprintf("%s: %q vs %q", path, a.String(), b.String())
		}
	case reflect.Float32, reflect.Float64:
		if a.Float() != b.Float() {
			return path + ": float"
		}
	case reflect.Chan, reflect.Func:
		// never persisted
	}
	return ""
}

func c07ActionsEqual(a, b []action) string {
	if len(a) != len(b) {
		return fmt.Sprintf("%d actions vs %d: [%s] vs [%s]", len(a), len(b), engaActionsStr(a), engaActionsStr(b))
	}
	for i := range a {
		if a[i].t() != b[i].t() {
			return fmt.Sprintf("action %d type %v vs %v", i, a[i].t(), b[i].t())
		}
		if a[i].ComparableStr() != b[i].ComparableStr() {
			return fmt.Sprintf("action %d %q vs %q", i, a[i].ComparableStr(), b[i].ComparableStr())
		}
		if na, ok := a[i].(networkAction); ok && na.T == broadcastVotes {
			// collected by ranging over maps (voteTracker.go:283-292): compare as multisets
			nb := b[i].(networkAction)
			if !c07SameVotes(na.UnauthenticatedVotes, nb.UnauthenticatedVotes) {
				return fmt.Sprintf("action %d broadcastVotes carries a different set of votes (%d vs %d)", i, len(na.UnauthenticatedVotes), len(nb.UnauthenticatedVotes))
			}
			continue
		}
		// the persisted form of an action (persistence.go:87)
		if !bytes.Equal(protocol.EncodeReflect(a[i]), protocol.EncodeReflect(b[i])) {
			return fmt.Sprintf("action %d (%s) encodes differently", i, a[i].ComparableStr())
		}
	}
	return ""
}

func c07SameVotes(a, b []unauthenticatedVote) bool {
	if len(a) != len(b) {
		return false
	}
	enc := func(vs []unauthenticatedVote) []string {
		var r []string
		for _, v := range vs {
			v := v
			r = append(r, string(protocol.Encode(&v)))
		}
		sort.Strings(r)
		return r
	}
	ea, eb := enc(a), enc(b)
	for i := range ea {
		if ea[i] != eb[i] {
			return false
		}
	}
	return true
}

// c07OldRoundProposalVote: encode() deliberately drops round routers older than the player's round
// (persistence.go:59-66, "Don't persist state for old rounds"), which rootRouter.update keeps for credentialRoundLag
// rounds only to time late proposal-votes (router.go:160-167). A restored node therefore answers a step-0 vote of an
// OLDER round with verifyVote where the live node (which still knows the sender) answers ignore. The fork ends there:
// the extra verify task shifts player.Pending.PendingNext, after which feeding the live node's events is meaningless.
func c07OldRoundProposalVote(e externalEvent, before player) bool {
	me, ok := e.(messageEvent)
	if !ok || (me.T != votePresent && me.T != voteVerified) {
		return false
	}
	uv := me.Input.UnauthenticatedVote
	return uv.R.Step == propose && uv.R.Round < before.Round
}

// c07MaskNilHandleTail: message.messageHandle is unexported ("we can't define serializers for interface{}", message.go:29)
// so a payload tail waiting in player.Pending loses its handle on restore. When the step-0 vote it waits for is verified,
// the tail is popped and handled (player.go:597-609); with a nil handle the player takes it for its own proposal and adds
// the "relay as the proposer" action (player.go:690-703). The restored node therefore emits the live node's actions plus
// extra relays of that compound message. State is not affected.
func c07MaskNilHandleTail(e externalEvent, live, shadow []action) bool {
	me, ok := e.(messageEvent)
	if !ok || me.T != voteVerified || me.Input.UnauthenticatedVote.R.Step != propose {
		return false
	}
	strip := func(as []action) (rest []action, pp int) {
		for _, a := range as {
			if na, ok := a.(networkAction); ok && na.T == relay && na.Tag == protocol.ProposalPayloadTag {
				pp++
				continue
			}
			rest = append(rest, a)
		}
		return
	}
	rl, nl := strip(live)
	rs, ns := strip(shadow)
	return ns > nl && c07ActionsEqual(rl, rs) == ""
}

// c07MaskLateCredential recognises the one documented behavioural effect of a non-restored field inside the horizon:
// proposalSeeker.lowestIncludingLate/hasLowestIncludingLate (proposalTracker.go, unexported, feeds only the dynamic filter
// timeout statistics) makes a restored node answer a step-0 voteVerified that arrives after the freeze with
// relay(vote) where the live node answers ignore (player.go:626-637) or vice versa. Only the first action may differ.
func c07MaskLateCredential(e externalEvent, live, shadow []action) bool {
	me, ok := e.(messageEvent)
	if !ok || me.T != voteVerified || me.Input.UnauthenticatedVote.R.Step != propose {
		return false
	}
	if len(live) == 0 || len(live) != len(shadow) {
		return false
	}
	t0, t1 := live[0].t(), shadow[0].t()
	if !((t0 == ignore && t1 == relay) || (t0 == relay && t1 == ignore)) {
		return false
	}
	for _, a := range [][]action{live, shadow} {
		if a[0].t() == relay {
			na := a[0].(networkAction)
			if na.Tag != protocol.AgreementVoteTag || na.UnauthenticatedVote != me.Input.UnauthenticatedVote {
				return false
			}
		}
	}
	return c07ActionsEqual(live[1:], shadow[1:]) == ""
}

func (o *c07Observer) transition(n *engaNode, e externalEvent, before player, actions []action) {
	s := o.s
	log := serviceLogger{s.log}
	// ---- (3) behavioural equivalence of an active shadow
	if sh := o.shadows[n.id]; sh != nil && sh.incarnation == n.incarnation {
		var a2 []action
		func() {
			defer func() {
				if r := recover(); r != nil {
					if _, ok := r.(engaStop); ok {
						panic(r)
					}
					s.failf("C07: restored node %d (forked %d events ago) PANICS on %s where the live node does not: %v", n.id, sh.age, engaEventStr(e), engaPanicStr(r))
				}
			}()
			sh.player, a2 = sh.router.submitTop(sh.tracer, sh.player, e)
		}()
		sh.age++
		o.shadowEvents++
		if d := c07ActionsEqual(actions, a2); d != "" {
			if c07OldRoundProposalVote(e, before) {
				o.maskedOld++
				sh.left = 0
			} else if c07MaskLateCredential(e, actions, a2) {
				o.maskedLate++
			} else if c07MaskNilHandleTail(e, actions, a2) {
				o.maskedNilHandle++
			} else {
				s.failf("C07: restored node %d diverges from the live node %d events after the fork on %s: %s\n live:     %s\n restored: %s",
					n.id, sh.age, engaEventStr(e), d, engaActionsStr(actions), engaActionsStr(a2))
			}
		} else if sh.age%4 == 0 || sh.left <= 1 {
			// actions were compared above (broadcastVotes modulo order): compare the state proper
			rawLive := encode(n.clock, n.router, n.player, nil, false)
			rawShadow := encode(n.clock, sh.router, sh.player, nil, false)
			if !bytes.Equal(rawLive, rawShadow) {
				d := c07ExportedDiff(reflect.ValueOf(n.router), reflect.ValueOf(sh.router), "router", 0)
				if d == "" {
					d = c07ExportedDiff(reflect.ValueOf(n.player), reflect.ValueOf(sh.player), "player", 0)
				}
				s.failf("C07: state of restored node %d encodes differently from the live node %d events after the fork (event %s): first difference %s",
					n.id, sh.age, engaEventStr(e), d)
			}
		}
		sh.left--
		if sh.left <= 0 {
			delete(o.shadows, n.id)
			o.shadowsDone++
		}
	}

	// ---- (1) codec round trip at this state: at every persistent transition (the real crash points) and at a fifth
	// of all other transitions (each snapshot costs several encodes/decodes of a ~100 kB state)
	o.count++
	if !persistent(actions) && (o.count+o.phase)%5 != 0 {
		return
	}
	if !persistent(actions) {
		// The real Service only ever persists action lists that contain an attest (service.go:266-270). zeroAction
		// (actions.go:503-523) has no case for stageDigest and decode would panic on it; no transition emits attest and
		// stageDigest together (player.go:369-375 emits stageDigest only on a cert threshold without the block), so for
		// these extra, non-persistent snapshots stageDigest actions are left out. A persistent list goes through as is.
		var kept []action
		for _, a := range actions {
			if a.t() != stageDigest {
				kept = append(kept, a)
			}
		}
		if len(kept) != len(actions) {
			o.stageDigestSkipped++
			actions = kept
		}
	}
	raw := encode(n.clock, n.router, n.player, actions, false)
	clock2, rr2, p2, a2, err := decode(raw, n.clock, log, false)
	if err != nil {
		s.failf("C07: decode(encode(state)) failed at node %d after %s: %v", n.id, engaEventStr(e), err)
	}
	raw2 := encode(clock2, rr2, p2, a2, false)
	if !bytes.Equal(raw, raw2) {
		s.failf("C07: decode(encode(state)) re-encodes to different bytes (%d vs %d) at node %d after %s; first structural difference: %s",
			len(raw), len(raw2), n.id, engaEventStr(e), c07ExportedDiff(reflect.ValueOf(n.router), reflect.ValueOf(rr2), "router", 0))
	}
	if clock2.(*engaClock).zero != n.clock.zero {
		s.failf("C07: clock zero not restored")
	}
	if o.reflectEvery > 0 && o.snapshots%o.reflectEvery == 0 {
		// reflect path: encode(reflect) -> decode(reflect) -> same state; and msgp bytes decode on the reflect path too
		rawR := encode(n.clock, n.router, n.player, actions, true)
		c3, rr3, p3, a3, err := decode(rawR, n.clock, log, true)
		if err != nil {
			s.failf("C07: reflect-path decode(encode) failed at node %d after %s: %v", n.id, engaEventStr(e), err)
		}
		if !bytes.Equal(encode(c3, rr3, p3, a3, false), raw) {
			s.failf("C07: reflect-path round trip yields a different state at node %d after %s: %s", n.id, engaEventStr(e),
				c07ExportedDiff(reflect.ValueOf(n.router), reflect.ValueOf(rr3), "router", 0))
		}
		if !bytes.Equal(encode(c3, rr3, p3, a3, true), rawR) {
			s.failf("C07: reflect-path round trip re-encodes (reflect) to different bytes at node %d after %s", n.id, engaEventStr(e))
		}
		c4, rr4, p4, a4, err := decode(raw, n.clock, log, true)
		if err != nil {
			s.failf("C07: msgp bytes do not decode on the reflect path at node %d after %s: %v", n.id, engaEventStr(e), err)
		}
		if !bytes.Equal(encode(c4, rr4, p4, a4, false), raw) {
			s.failf("C07: msgp bytes decoded on the reflect path give a different state at node %d after %s", n.id, engaEventStr(e))
		}
		vkLabelOnce(o.vk, "reflect_path_checked")
	}

	// ---- (2) structural equality on persisted fields, independent of the codec.
	// encode() drops round routers older than the player's round on purpose (persistence.go:59-66): compare those kept.
	live := rootRouter{ProposalManager: n.router.ProposalManager, VoteAggregator: n.router.VoteAggregator}
	for rnd, c := range n.router.Children {
		if rnd >= n.player.Round {
			if live.Children == nil {
				live.Children = map[round]*roundRouter{}
			}
			live.Children[rnd] = c
		}
	}
	if d := c07ExportedDiff(reflect.ValueOf(live), reflect.ValueOf(rr2), "router", 0); d != "" {
		s.failf("C07: restored router differs from the live router at node %d after %s: %s", n.id, engaEventStr(e), d)
	}
	if d := c07ExportedDiff(reflect.ValueOf(n.player), reflect.ValueOf(p2), "player", 0); d != "" {
		s.failf("C07: restored player differs from the live player at node %d after %s: %s", n.id, engaEventStr(e), d)
	}
	if d := c07ExportedDiff(reflect.ValueOf(actions), reflect.ValueOf(a2), "actions", 0); d != "" && len(actions)+len(a2) > 0 {
		s.failf("C07: restored pending actions differ from the live ones at node %d after %s: %s", n.id, engaEventStr(e), d)
	}
	if rr2.root == nil {
		s.failf("C07: decode returned a router whose root actor is not wired (makeRootRouter)")
	}

	// ---- bookkeeping: what kind of state was this
	periodRouters, equiv := 0, 0
	for _, r := range n.router.Children {
		periodRouters += len(r.Children)
	}
	equiv = engaRouterEquivocations(&n.router)
	pending := len(n.player.Pending.Pending)
	nt := periodRouters >= 2 || equiv > 0 || pending > 0
	o.snapshots++
	if nt {
		o.ntSnapshots++
	}
	if equiv > 0 {
		o.withEquiv++
	}
	if pending > 0 {
		o.withPending++
	}
	if len(actions) > 0 {
		o.withActions++
	}
	if periodRouters > o.maxPeriodRouters {
		o.maxPeriodRouters = periodRouters
	}
	h := crypto.Hash(raw)
	o.vk.Case(nt, string(h[:]))
	if o.vk.WantSample(nt) {
		o.vk.Sample(nt, map[string]any{"node": n.id, "after": engaEventStr(e), "player": fmt.Sprintf("r%d p%d s%d", n.player.Round, n.player.Period, n.player.Step),
			"periodRouters": periodRouters, "equivocationRecords": equiv, "pendingVerify": pending, "pendingActions": engaActionsStr(actions), "bytes": len(raw)})
	}

	// ---- start a new fork from the restored state
	if o.shadows[n.id] == nil && rapid.IntRange(0, 2).Draw(o.t, "fork") > 0 {
		o.shadows[n.id] = &c07Shadow{incarnation: n.incarnation, player: p2, router: rr2, tracer: &tracer{log: log},
			left: rapid.IntRange(5, 40).Draw(o.t, "forkLen")}
	}
}

var c07Once = map[string]bool{}

func vkLabelOnce(vk *vkCtx, l string) {
	if !c07Once[l] {
		c07Once[l] = true
		vk.Label(l)
	}
}

func TestVerif_C07_Restore(t *testing.T) {
	vk := vkBegin(t, "C07")
	vk.Rule("one case = one (router, player, pending actions) state reached after a transition of an adversarial Engine-A run (reorder/drop/partition/timeouts/crash-restart/Byzantine equivocation); each goes through real encode->decode; non-trivial = state has >=2 period routers, or an equivocation record, or a pending verify task (player.Pending); distinct by hash of the encoded state")
	vk.Assume("unexported fields are not persisted by design (lowestCredentialArrivals, dynamicFilterTimeout, proposalSeeker.lowestIncludingLate, validatedAt/receivedAt, ve, messageHandle, h, done): masked")
	rapid.Check(t, func(t *rapid.T) {
		var o *c07Observer
		c := engaRunCase(t, engaCaseOpts{hook: func(s *engaSim) {
			o = &c07Observer{s: s, t: t, vk: vk, shadows: map[int]*c07Shadow{}, reflectEvery: 4, phase: rapid.IntRange(0, 4).Draw(t, "snapPhase")}
			s.obs = append(s.obs, o)
		}})
		s := c.s
		c.account(vk)
		vk.Labelf("run/period_max=%d", min(int(s.stats.maxPeriod), 4))
		vk.Labelf("run/states=%s", engaBucket(o.snapshots, 100, 300, 600))
		vk.Labelf("run/forks_completed=%s", engaBucket(o.shadowsDone, 0, 5, 20))
		if o.withEquiv > 0 {
			vk.Label("run/has_equivocation_record_states")
		}
		if o.withPending > 0 {
			vk.Label("run/has_pending_verify_states")
		}
		if s.stats.restoredStarts > 0 {
			vk.Label("run/real_crash_restore_too")
		}
		if o.maskedLate > 0 {
			vk.Label("run/masked_late_credential_note")
		}
		vk.Add("states", int64(o.snapshots))
		vk.Add("states_nontrivial", int64(o.ntSnapshots))
		vk.Add("states_with_equivocation_record", int64(o.withEquiv))
		vk.Add("states_with_pending_verify", int64(o.withPending))
		vk.Add("states_with_pending_actions", int64(o.withActions))
		vk.Add("shadow_events_compared", int64(o.shadowEvents))
		vk.Add("forks_completed", int64(o.shadowsDone))
		vk.Add("masked_late_credential", int64(o.maskedLate))
		vk.Add("forks_ended_by_old_round_proposal_vote", int64(o.maskedOld))
		vk.Add("masked_nil_handle_tail_relay", int64(o.maskedNilHandle))
		vk.Add("snapshots_with_stageDigest_action_left_out", int64(o.stageDigestSkipped))
	})
}
