package agreement

// Engine A — deterministic agreement simulator (DESIGN.md 1.2). Core: population, nodes, action interpreter,
// network pool, persistence / crash model. Everything here is *glue*: the protocol itself is the real
// rootRouter.submitTop. Every glue rule cites the upstream line it mirrors.
//
// No Service goroutines, no demux, no wall clock. A node = (player, rootRouter, ledger, keys).

import (
	"bytes"
	"context"
	"fmt"
	"io"
	"sort"
	"sync"
	"time"

	"github.com/algorand/go-algorand/config"
	"github.com/algorand/go-algorand/crypto"
	"github.com/algorand/go-algorand/data/basics"
	"github.com/algorand/go-algorand/data/bookkeeping"
	"github.com/algorand/go-algorand/data/committee"
	"github.com/algorand/go-algorand/logging"
	"github.com/algorand/go-algorand/protocol"
	"github.com/algorand/go-algorand/util/timers"
)

// ---------------------------------------------------------------------------------------------------------------
// failure reporting

// engaFailer is satisfied by *rapid.T and *testing.T.
type engaFailer interface {
	Fatalf(format string, args ...any)
	Logf(format string, args ...any)
}

// engaStop is panicked (and recovered by engaSim.guard) to end a case early without a verdict
// (precondition of the property violated by the drawn committee, see engaSim.exclude).
type engaStop struct{ why string }

// ---------------------------------------------------------------------------------------------------------------
// logical clock

// engaTimeout mirrors one entry of timers.Monotonic.timeouts (util/timers/monotonic.go:26,52-76).
type engaTimeout struct {
	delta    time.Duration
	closed   bool // TimeoutAt was first called after the target passed: a closed channel, readable forever
	consumed bool // a time.After channel delivers exactly one value
}

// engaClock is a timers.Clock[TimeoutType] over the node's logical wall time (engaNode.wall).
// It mirrors timers.Monotonic: a zero point, and per-type cached timeout channels.
type engaClock struct {
	n        *engaNode
	zero     time.Duration
	timeouts map[TimeoutType]engaTimeout
}

func (c *engaClock) Zero() timers.Clock[TimeoutType] { // monotonic.go:45 Zero(): new clock at "now", no cached timeouts
	return &engaClock{n: c.n, zero: c.n.wall}
}
func (c *engaClock) Since() time.Duration { return c.n.wall - c.zero } // monotonic.go:104
func (c *engaClock) TimeoutAt(time.Duration, TimeoutType) <-chan time.Time {
	panic("engaClock.TimeoutAt: the simulator has no channels; use arm/canFire")
}
func (c *engaClock) Encode() []byte { return protocol.EncodeReflect(uint64(c.zero)) } // monotonic.go:79 (encodes zero)
func (c *engaClock) Decode(data []byte) (timers.Clock[TimeoutType], error) { // monotonic.go:84
	var z uint64
	err := protocol.DecodeReflect(data, &z)
	return &engaClock{n: c.n, zero: time.Duration(z)}, err
}

// arm mirrors Monotonic.TimeoutAt (monotonic.go:52-76) as called by demux.next (demux.go:271-272).
func (c *engaClock) arm(delta time.Duration, typ TimeoutType) {
	if c.timeouts == nil {
		c.timeouts = make(map[TimeoutType]engaTimeout)
	}
	tmt, ok := c.timeouts[typ]
	if ok && tmt.delta == delta {
		return // same delta: the existing channel is returned
	}
	left := delta - c.Since()
	c.timeouts[typ] = engaTimeout{delta: delta, closed: left < 0}
}

func (c *engaClock) canFire(delta time.Duration, typ TimeoutType) bool {
	c.arm(delta, typ)
	tmt := c.timeouts[typ]
	if tmt.closed {
		return true
	}
	return !tmt.consumed && c.Since() >= tmt.delta
}

func (c *engaClock) fired(typ TimeoutType) {
	tmt := c.timeouts[typ]
	if !tmt.closed {
		tmt.consumed = true
		c.timeouts[typ] = tmt
	}
}

// ---------------------------------------------------------------------------------------------------------------
// population

type engaIdentity struct {
	idx   int
	addr  basics.Address
	vrf   *crypto.VRFSecrets
	ot    crypto.OneTimeSigner
	owner int // honest node index, or -1 for a Byzantine identity
	stake uint64
}

// engaConfig describes the population of one case.
type engaConfig struct {
	Nodes   int      // honest nodes
	Accts   []int    // identities per honest node (len == Nodes)
	Byz     int      // Byzantine identities
	Stake   []uint64 // stake per identity (honest identities in node order first, then Byzantine)
	KeySeed uint64
}

func (c engaConfig) String() string {
	return fmt.Sprintf("N=%d accts=%v B=%d stake=%v seed=%d", c.Nodes, c.Accts, c.Byz, c.Stake, c.KeySeed)
}

func engaMakeIdentity(idx int, keySeed uint64, owner int, stake uint64) *engaIdentity {
	var seed [32]byte
	copy(seed[:], fmt.Sprintf("enga-key-%d-%d", keySeed, idx))
	h := crypto.Hash(seed[:])
	pk, sk := crypto.VrfKeygenFromSeed(h)
	// one-time keys for batch 0 only: rounds 1..9999 at DefaultKeyDilution 10000 (common_test.go:generateKeys uses the same
	// constructor with the system RNG; a seeded PRNG keeps cases reproducible)
	ots := crypto.GenerateOneTimeSignatureSecretsRNG(0, 1, crypto.MakePRNG(h[:]))
	return &engaIdentity{
		idx:   idx,
		addr:  basics.Address(crypto.Hash(append([]byte("enga-addr"), h[:]...))),
		vrf:   &crypto.VRFSecrets{PK: pk, SK: sk},
		ot:    crypto.OneTimeSigner{OneTimeSignatureSecrets: ots},
		owner: owner,
		stake: stake,
	}
}

// ---------------------------------------------------------------------------------------------------------------
// network

// engaHandle is the MessageHandle of a message received from the network; own (loopback) messages carry nil
// (pseudonode.go:484,590,609 build messages without a handle).
type engaHandle struct{ src int }

type engaMsg struct {
	id       uint64
	src, dst int // src < 0: injected by the adversary
	tag      protocol.Tag
	data     []byte
	keep     bool // stays in the pool after delivery once (duplication)
	cls      int  // message class for scheduler filters: vote step (>= 0), engaClsPayload, engaClsBundle
	due      time.Duration // synchronous phase only: global time at which the network delivers it
}

const (
	engaClsPayload = -1
	engaClsBundle  = -2
)

// engaVoteOf decodes a vote message (nil, false for other tags).
func engaVoteOf(m *engaMsg) (unauthenticatedVote, bool) {
	if m.tag != protocol.AgreementVoteTag {
		return unauthenticatedVote{}, false
	}
	o, err := decodeVote(m.data)
	if err != nil {
		return unauthenticatedVote{}, false
	}
	return o.(unauthenticatedVote), true
}

func engaClassify(tag protocol.Tag, data []byte) int {
	switch tag {
	case protocol.AgreementVoteTag:
		if o, err := decodeVote(data); err == nil {
			return int(o.(unauthenticatedVote).R.Step)
		}
	case protocol.VoteBundleTag:
		return engaClsBundle
	}
	return engaClsPayload
}

func (m *engaMsg) String() string {
	return fmt.Sprintf("#%d %d->%d %s(%dB)", m.id, m.src, m.dst, m.tag, len(m.data))
}

// ---------------------------------------------------------------------------------------------------------------
// node

type engaChanKind int

const (
	engaChanPersist engaChanKind = iota // events channel returned by asyncPersistenceLoop.Enqueue (persistence.go:325)
	engaChanEvents                      // output channel of a pseudonode task (pseudonode.go:100)
)

// engaChan models one channel of demux.queue (demux.go:62,419).
type engaChan struct {
	kind   engaChanKind
	events []externalEvent
	wait   chan error      // pseudonodeVotesTask.persistStateDone: outputs are released after it is closed (pseudonode.go:454-470)
	req    *engaPersistReq // for engaChanPersist
}

// engaPersistReq mirrors persistentRequest (persistence.go:297).
type engaPersistReq struct {
	round   round
	period  period
	step    step
	raw     []byte
	done    chan error
	written bool
	zero    bool // encoded from unassigned persistRouter/persistStatus/persistActions
}

type engaEnsure struct {
	Node, Incarnation int
	Round             round
	Digest            crypto.Digest
	Payload           proposal
	Cert              Certificate
	Via               eventType // type of the external event whose transition emitted the ensureAction
	Restored          bool      // emitted by re-executing restored actions after a crash
}

type engaNode struct {
	sim *engaSim
	id  int
	ids []*engaIdentity

	up          bool
	incarnation int

	// volatile (lost in a crash)
	player         player
	router         rootRouter
	tracer         *tracer
	clock          *engaClock
	historical     map[round]roundStartTimer // Service.historicalClocks (service.go:64)
	persistSet     bool                      // whether Service.persist{Router,Status,Actions} were assigned in this incarnation
	persistRouter  rootRouter                // service.go:59-61
	persistStatus  player
	persistActions []action
	loop           []*engaChan       // demux.queue: FIFO of prioritized channels (demux.go:419)
	crypto         []cryptoAction    // requests handed to the cryptoVerifier whose results were not yet read (any order)
	persistQ       []*engaPersistReq // requests enqueued to the persistence loop, not yet written

	// durable
	ledger Ledger
	disk   []byte        // row 1 of the Service table (persistence.go:110); nil = no row
	diskRound round      // player round of the state in disk (bookkeeping for labels only)
	diskZero  bool       // disk holds a state encoded from unassigned persist fields (must never happen, see doPseudonode)
	lastCrashRound round // ledger round at the last crash (label bookkeeping)
	wall   time.Duration // the node's wall clock; survives crashes, set by the scheduler

	lastActions []action // actions of the last transition (for observers)
	firings     int      // deadline firings delivered to this node so far (step + fast-recovery timeouts, all incarnations)
}

func (n *engaNode) String() string {
	if !n.up {
		return fmt.Sprintf("n%d(down)", n.id)
	}
	return fmt.Sprintf("n%d(r%d p%d s%d d=%v nap=%v el=%v)", n.id, n.player.Round, n.player.Period, n.player.Step, n.player.Deadline.Duration, n.player.Napping, n.clock.Since())
}

// ---------------------------------------------------------------------------------------------------------------
// simulator

type engaObserver interface {
	// transition is called after every submitTop of an honest node, before the actions are interpreted.
	transition(n *engaNode, e externalEvent, before player, actions []action)
	// ensured is called for every ensureAction, before it is applied to the ledger.
	ensured(n *engaNode, en engaEnsure)
	// restarted is called when a node (re)starts; restored tells whether it adopted decoded state.
	restarted(n *engaNode, restored bool)
	// crashed is called when a node crashes.
	crashed(n *engaNode)
}

type engaStats struct {
	events, netDelivered, netDropped, netDup, timeouts, fastTimeouts, crashes, restarts, restoredStarts, freshStarts int
	partitions, heals, catchups, interrupts, diskWrites, byzVotes, byzBundles, byzProposals, equivSeen, byzCertSplit int
	maxPeriod                                                                                                     period
	maxStep                                                                                                       step
	sawLate, sawRedo, sawDown, pipelined, stageDigest, crashAttestCommit, disconnects, zeroPersist              int
	verifyErr, doubleCrashInRound, holds, latePayloadMacro, payloadAfterNextVote                                                                                    int
}

type engaSim struct {
	f       engaFailer
	cfg     engaConfig
	ids     []*engaIdentity
	byz     []*engaIdentity
	genesis map[basics.Address]basics.AccountData
	nodes   []*engaNode
	pool    []*engaMsg
	seq     uint64
	group   []int // partition group of each node
	log     logging.Logger

	// what every message ever put on the wire looked like (the adversary sees everything); keyed by content
	seenWire map[crypto.Digest]bool
	// per destination: content hashes already delivered or pending (dedupe, see send)
	known []map[crypto.Digest]bool
	// dedupe against already-delivered copies (safety runs); when false only pending identical copies are merged
	dedupeDelivered bool
	keepDup         func() bool // scheduler hook: keep a copy that dedupe would drop?
	hold            func(m *engaMsg) bool // scheduler hook: messages held back by the network for now
	delay           func() time.Duration  // synchronous phase: delivery time assigned to every new message

	// history
	ref      Ledger // reference ledger holding the agreed prefix
	commits  map[round]engaEnsure
	ensures  []engaEnsure
	obs      []engaObserver
	stats    engaStats
	trace    []string
	traceOn  bool
	excluded string

	votesSeen map[engaVoteKey][]unauthenticatedVote // every vote that was ever on the wire, by (r,p,s,value)
	payloads  map[proposalValue]unauthenticatedProposal
}

type engaVoteKey struct {
	r round
	p period
	s step
	v proposalValue
}

var engaAVVOnce sync.Once
var engaAVV *AsyncVoteVerifier

// engaVerifier returns the process-wide AsyncVoteVerifier used only as the worker pool that
// unauthenticatedBundle.verify needs (bundle.go:142); it is a pure helper with no protocol state.
func engaVerifier() *AsyncVoteVerifier {
	engaAVVOnce.Do(func() { engaAVV = MakeAsyncVoteVerifier(nil) })
	return engaAVV
}

func engaNewSim(f engaFailer, cfg engaConfig) *engaSim { return engaNewSimHook(f, cfg, nil) }

// engaNewSimHook builds the population and starts every node; hook runs before the nodes start.
func engaNewSimHook(f engaFailer, cfg engaConfig, hook func(*engaSim)) *engaSim {
	s := &engaSim{f: f, cfg: cfg, genesis: map[basics.Address]basics.AccountData{}, commits: map[round]engaEnsure{},
		seenWire: map[crypto.Digest]bool{}, dedupeDelivered: true,
		votesSeen: map[engaVoteKey][]unauthenticatedVote{}, payloads: map[proposalValue]unauthenticatedProposal{}}
	lg := logging.NewLogger()
	lg.SetOutput(io.Discard)
	lg.SetLevel(logging.Error) // Panicf still panics; Warn/Info formatting is skipped
	s.log = lg
	idx := 0
	for i := 0; i < cfg.Nodes; i++ {
		n := &engaNode{sim: s, id: i}
		for k := 0; k < cfg.Accts[i]; k++ {
			id := engaMakeIdentity(idx, cfg.KeySeed, i, cfg.Stake[idx])
			s.ids = append(s.ids, id)
			n.ids = append(n.ids, id)
			idx++
		}
		s.nodes = append(s.nodes, n)
	}
	for b := 0; b < cfg.Byz; b++ {
		id := engaMakeIdentity(idx, cfg.KeySeed, -1, cfg.Stake[idx])
		s.ids = append(s.ids, id)
		s.byz = append(s.byz, id)
		idx++
	}
	for _, id := range s.ids {
		// same shape as service_test.go:688-693 / common_test.go:112-117
		s.genesis[id.addr] = basics.AccountData{
			Status:      basics.Online,
			MicroAlgos:  basics.MicroAlgos{Raw: id.stake},
			SelectionID: id.vrf.PK,
			VoteID:      id.ot.OneTimeSignatureVerifier,
		}
	}
	s.ref = makeTestLedger(s.genesis)
	s.group = make([]int, cfg.Nodes)
	s.known = make([]map[crypto.Digest]bool, cfg.Nodes)
	for i := range s.nodes {
		s.known[i] = map[crypto.Digest]bool{}
	}
	if hook != nil {
		hook(s)
	}
	for i, n := range s.nodes {
		s.known[i] = map[crypto.Digest]bool{}
		n.ledger = makeTestLedger(s.genesis)
		n.start()
	}
	return s
}

func (s *engaSim) tracef(format string, args ...any) {
	if !s.traceOn {
		return
	}
	s.trace = append(s.trace, fmt.Sprintf(format, args...))
}

func (s *engaSim) dumpTrace() string {
	var b bytes.Buffer
	from := 0
	if len(s.trace) > 400 {
		from = len(s.trace) - 400
		fmt.Fprintf(&b, "... (%d earlier lines)\n", from)
	}
	for _, l := range s.trace[from:] {
		b.WriteString(l)
		b.WriteByte('\n')
	}
	return b.String()
}

func (s *engaSim) failf(format string, args ...any) {
	msg := fmt.Sprintf(format, args...)
	s.f.Fatalf("%s\nconfig: %v\nnodes: %v\ntrace:\n%s", msg, s.cfg, s.nodes, s.dumpTrace())
}

// exclude ends the case without a verdict: the drawn committee violates the protocol's precondition.
func (s *engaSim) exclude(why string) {
	s.excluded = why
	panic(engaStop{why})
}

// guard runs fn and converts an engaStop into a normal return (reporting whether the case was stopped).
func (s *engaSim) guard(fn func()) (stopped bool) {
	defer func() {
		if r := recover(); r != nil {
			if _, ok := r.(engaStop); ok {
				stopped = true
				return
			}
			panic(r)
		}
	}()
	fn()
	return false
}

// ---------------------------------------------------------------------------------------------------------------
// start / crash / restart  (service.go:216-253 mainLoop prologue)

func (n *engaNode) start() {
	s := n.sim
	n.up = true
	n.incarnation++
	n.tracer = &tracer{log: serviceLogger{s.log}} // state_machine_test.go:342 builds tracers the same way
	n.historical = make(map[round]roundStartTimer)
	n.clock = &engaClock{n: n, zero: n.wall} // the Clock parameter handed to MakeService
	n.persistSet = false
	n.persistRouter, n.persistStatus, n.persistActions = rootRouter{}, player{}, nil
	n.loop, n.crypto, n.persistQ = nil, nil, nil

	var a []action
	restored := false
	if n.disk != nil { // restore() found a row (persistence.go:144)
		clock, router, status, acts, err := decode(n.disk, n.clock, serviceLogger{s.log}, false) // service.go:226
		if err != nil {
			n.disk = nil // reset() (service.go:228)
		} else if status.Round >= n.ledger.NextRound() { // service.go:234
			n.clock = clock.(*engaClock) // service.go:252
			n.router, n.player, a = router, status, acts
			// service.go:253-258 (fix 15ee9a30f7): the restored state is what a re-executed restored attest persists
			n.persistSet = true
			n.persistRouter, n.persistStatus, n.persistActions = router, status, acts
			restored = true
		}
	}
	if !restored {
		// service.go:237-250
		nextRound := n.ledger.NextRound()
		nextVersion, err := n.ledger.ConsensusVersion(nextRound)
		if err != nil {
			nextVersion = protocol.ConsensusCurrentVersion
		}
		n.player = player{Round: nextRound, Step: soft, Deadline: Deadline{Duration: FilterTimeout(0, nextVersion), Type: TimeoutFilter}, lowestCredentialArrivals: makeCredentialArrivalHistory(dynamicFilterCredentialArrivalHistory)}
		n.router = makeRootRouter(n.player)
		a = []action{pseudonodeAction{T: assemble, Round: n.ledger.NextRound()}, rezeroAction{}}
		s.stats.freshStarts++
	} else {
		s.stats.restoredStarts++
	}
	s.tracef("n%d START inc=%d restored=%v %v actions=%s", n.id, n.incarnation, restored, n, engaActionsStr(a))
	for _, o := range s.obs {
		o.restarted(n, restored)
	}
	n.lastActions = a
	n.do(a, none, restored) // service.go:256 output <- a  → demuxLoop s.do(ctx, a)
	n.armTimers()
}

// crash discards node i's volatile state. It reports whether the crash happened.
func (s *engaSim) crash(i int) bool {
	n := s.nodes[i]
	if !n.up {
		return false
	}
	s.stats.crashes++
	if n.lastCrashRound == n.ledger.NextRound() && n.incarnation >= 2 {
		s.stats.doubleCrashInRound++ // second (or later) crash of this node while still in the same round
	}
	n.lastCrashRound = n.ledger.NextRound()
	// a crash between an attest and the commit of that round (label for C01's non-trivial rule)
	if n.disk != nil && n.diskRound == n.player.Round && n.ledger.NextRound() == n.player.Round {
		s.stats.crashAttestCommit++
	}
	s.tracef("n%d CRASH %v loop=%d crypto=%d unwritten=%d", i, n, len(n.loop), len(n.crypto), len(n.persistQ))
	for _, o := range s.obs {
		o.crashed(n)
	}
	n.up = false
	n.player, n.router, n.tracer, n.clock, n.historical = player{}, rootRouter{}, nil, nil, nil
	n.loop, n.crypto, n.persistQ = nil, nil, nil
	n.persistSet = false
	n.persistRouter, n.persistStatus, n.persistActions = rootRouter{}, player{}, nil
	return true
}

func (s *engaSim) restart(i int) {
	n := s.nodes[i]
	if n.up {
		return
	}
	s.stats.restarts++
	n.start()
}

// ---------------------------------------------------------------------------------------------------------------
// feeding one external event (demux.next epilogue + mainLoop body)

func (n *engaNode) armTimers() {
	// demux.go:271-272: TimeoutAt(deadline) and TimeoutAt(fastDeadline) on every demux.next
	n.clock.arm(n.player.Deadline.Duration, n.player.Deadline.Type)
	n.clock.arm(n.player.FastRecoveryDeadline, TimeoutFastRecovery)
}

func (n *engaNode) submit(e externalEvent) {
	s := n.sim
	if !n.up {
		s.failf("harness bug: event %v submitted to a node that is down", e)
	}
	// demux.go:207-225 (deferred block of demux.next)
	proto, err := n.ledger.ConsensusVersion(ParamsRound(e.ConsensusRound()))
	e = e.AttachConsensusVersion(ConsensusVersionView{Err: makeSerErr(err), Version: proto})
	getClock := clockForRound(n.player.Round, n.clock, n.historical)
	switch e.t() {
	case payloadVerified:
		e = e.(messageEvent).AttachValidatedAt(getClock)
	case payloadPresent, votePresent:
		e = e.(messageEvent).AttachReceivedAt(getClock)
	case voteVerified:
		if e.(messageEvent).Input.Vote.R.Step == 0 {
			e = e.(messageEvent).AttachValidatedAt(getClock)
		}
	}
	before := n.player
	var a []action
	func() {
		defer func() {
			if r := recover(); r != nil {
				if _, ok := r.(engaStop); ok {
					panic(r)
				}
				s.failf("PANIC in submitTop at node %d on %s: %v", n.id, engaEventStr(e), engaPanicStr(r))
			}
		}()
		n.player, a = n.router.submitTop(n.tracer, n.player, e) // service.go:264
	}()
	s.stats.events++
	if n.player.Period > s.stats.maxPeriod {
		s.stats.maxPeriod = n.player.Period
	}
	if n.player.Step > s.stats.maxStep && n.player.Step < late {
		s.stats.maxStep = n.player.Step
	}
	if me, ok := e.(messageEvent); ok && (me.T == payloadPresent || me.T == votePresent) && me.ConsensusRound() == before.Round+1 && len(a) > 0 && a[0].t() != ignore {
		s.stats.pipelined++
	}
	if me, ok := e.(messageEvent); ok && me.T == payloadVerified && me.Err == nil && before.Step >= next && me.Input.messageHandle != nil &&
		me.Input.UnauthenticatedProposal.Round() == before.Round {
		s.stats.payloadAfterNextVote++
	}
	if persistent(a) { // service.go:266-270
		n.persistSet = true
		n.persistRouter, n.persistStatus, n.persistActions = n.router, n.player, a
	}
	s.tracef("n%d %s => %v :: %s", n.id, engaEventStr(e), n, engaActionsStr(a))
	n.lastActions = a
	for _, o := range s.obs {
		o.transition(n, e, before, a)
	}
	n.do(a, e.t(), false)
	n.armTimers()
}

func engaPanicStr(r any) string {
	if e, ok := r.(interface{ String() (string, error) }); ok { // *logrus.Entry
		if str, err := e.String(); err == nil {
			return str
		}
	}
	return fmt.Sprintf("%v", r)
}

func engaEventStr(e externalEvent) string {
	switch ev := e.(type) {
	case messageEvent:
		switch ev.T {
		case votePresent, voteVerified:
			uv := ev.Input.UnauthenticatedVote
			return fmt.Sprintf("%s{%d.%d.%d %.6s by %.6s err=%v h=%v}", ev.T, uv.R.Round, uv.R.Period, uv.R.Step, uv.R.Proposal.BlockDigest.String(), uv.R.Sender.String(), ev.Err != nil, ev.Input.messageHandle)
		case payloadPresent, payloadVerified:
			up := ev.Input.UnauthenticatedProposal
			return fmt.Sprintf("%s{%d %.6s err=%v h=%v}", ev.T, up.Round(), up.Digest().String(), ev.Err != nil, ev.Input.messageHandle)
		case bundlePresent, bundleVerified:
			ub := ev.Input.UnauthenticatedBundle
			return fmt.Sprintf("%s{%d.%d.%d %.6s votes=%d eq=%d err=%v h=%v}", ev.T, ub.Round, ub.Period, ub.Step, ub.Proposal.BlockDigest.String(), len(ub.Votes), len(ub.EquivocationVotes), ev.Err != nil, ev.Input.messageHandle)
		}
	case timeoutEvent:
		return fmt.Sprintf("%s{r%d ent=%d}", ev.T, ev.Round, ev.RandomEntropy)
	case roundInterruptionEvent:
		return fmt.Sprintf("roundInterruption{%d}", ev.Round)
	case checkpointEvent:
		return fmt.Sprintf("checkpoint{%d.%d.%d}", ev.Round, ev.Period, ev.Step)
	}
	return e.String()
}

func engaActionsStr(as []action) string {
	var b bytes.Buffer
	for i, a := range as {
		if i > 0 {
			b.WriteString("; ")
		}
		b.WriteString(a.ComparableStr())
	}
	return b.String()
}

// ---------------------------------------------------------------------------------------------------------------
// action interpretation (actions.go: the do methods)

func (n *engaNode) do(as []action, via eventType, restored bool) {
	for _, a := range as {
		n.do1(a, via, restored)
	}
}

func (n *engaNode) do1(a0 action, via eventType, restored bool) {
	s := n.sim
	switch a := a0.(type) {
	case noopAction:
	case networkAction:
		n.doNetwork(a)
	case cryptoAction:
		// actions.go:217-226: handed to the cryptoVerifier; the result comes back later, in any order
		// (the verifier pool is parallel: cryptoVerifier.go:33-36)
		n.crypto = append(n.crypto, a)
	case ensureAction:
		// actions.go:251-298
		en := engaEnsure{Node: n.id, Incarnation: n.incarnation, Round: a.Certificate.Round, Digest: a.Payload.Digest(),
			Payload: a.Payload, Cert: a.Certificate, Via: via, Restored: restored}
		s.recordEnsure(n, en)
		n.ledger.EnsureBlock(a.Payload.Block, a.Certificate)
	case stageDigestAction:
		// actions.go:316-326: Ledger.EnsureDigest — the ledger may fetch the block (catch-up); scheduler's choice
		s.stats.stageDigest++
	case rezeroAction:
		// actions.go:346-361
		n.clock = n.clock.Zero().(*engaClock)
		if _, ok := n.historical[a.Round]; !ok {
			n.historical[a.Round] = n.clock
		}
		for rnd := range n.historical {
			if a.Round > rnd+credentialRoundLag {
				delete(n.historical, rnd)
			}
		}
	case pseudonodeAction:
		n.doPseudonode(a)
	case checkpointAction:
		// actions.go:541-563
		if a.Err != nil && a.done != nil {
			// not generated: the simulated disk never fails
			s.failf("harness bug: checkpoint with error")
		}
		if a.done != nil {
			close(a.done)
		}
	default:
		s.failf("harness bug: unknown action type %T", a0)
	}
}

func (n *engaNode) doNetwork(a networkAction) {
	s := n.sim
	// actions.go:133-180
	if a.T == broadcastVotes {
		// player.go:247-252 collects these by ranging over maps (voteTracker.go:283-292): the order is arbitrary in the
		// real system; sort so that cases replay deterministically
		var datas [][]byte
		for _, uv := range a.UnauthenticatedVotes {
			uv := uv
			datas = append(datas, protocol.Encode(&uv))
		}
		sort.Slice(datas, func(i, j int) bool { return bytes.Compare(datas[i], datas[j]) < 0 })
		for _, d := range datas {
			s.send(n.id, -1, protocol.AgreementVoteTag, d)
		}
		return
	}
	var data []byte
	switch a.Tag {
	case protocol.AgreementVoteTag:
		data = protocol.Encode(&a.UnauthenticatedVote)
	case protocol.VoteBundleTag:
		data = protocol.Encode(&a.UnauthenticatedBundle)
	case protocol.ProposalPayloadTag:
		msg := a.CompoundMessage
		payload := transmittedPayload{unauthenticatedProposal: msg.Proposal, PriorVote: msg.Vote}
		data = protocol.Encode(&payload)
	}
	switch a.T {
	case broadcast:
		s.send(n.id, -1, a.Tag, data)
	case relay:
		// gossip/network.go:155-169: a handle that is not network metadata (nil loopback, or the literal 0 of
		// player.go:489) relays to everybody; otherwise everybody except the sender
		excl := -1
		if h, ok := a.h.(engaHandle); ok {
			excl = h.src
		}
		s.send(n.id, excl, a.Tag, data)
	case disconnect:
		s.stats.disconnects++
	case ignore:
	}
}

// votingIdentities mirrors KeyManager.VotingKeys (abstractions.go:226): every identity of the node has keys valid
// for all simulated rounds.
func (n *engaNode) votingIdentities() []*engaIdentity { return n.ids }

// engaMakeProposals mirrors asyncPseudonode.makeProposals + pseudonodeProposalsTask.execute (pseudonode.go:286-322, 502-627):
// one proposal per identity, proposal-votes self-verified, only verified ones are emitted (votes first, then payloads).
func engaMakeProposals(l Ledger, factory BlockFactory, ids []*engaIdentity, r round, p period) (events []externalEvent) {
	addresses := make([]basics.Address, len(ids))
	for i := range ids {
		addresses[i] = ids[i].addr
	}
	ve, err := factory.AssembleBlock(r, addresses)
	if err != nil {
		return nil
	}
	var votes []messageEvent
	var payloads []messageEvent
	for _, acc := range ids {
		payload, prop, pErr := proposalForBlock(acc.addr, acc.vrf, ve, p, l)
		if pErr != nil {
			continue
		}
		rv := rawVote{Sender: acc.addr, Round: r, Period: p, Step: propose, Proposal: prop}
		uv, vErr := makeVote(rv, acc.ot, acc.vrf, l)
		if vErr != nil {
			continue
		}
		v, err := uv.verify(l) // asyncVoteVerifier.go:97-98
		if err != nil {
			continue // "this is normal and happens every time an account isn't self-selected" (pseudonode.go:548)
		}
		m := message{Tag: protocol.AgreementVoteTag, UnauthenticatedVote: uv, Vote: v}
		votes = append(votes, messageEvent{T: voteVerified, Input: m})
		pm := message{Tag: protocol.ProposalPayloadTag, UnauthenticatedProposal: payload.u(), Proposal: payload}
		payloads = append(payloads, messageEvent{T: payloadVerified, Input: pm})
	}
	for _, v := range votes {
		events = append(events, v)
	}
	for _, p := range payloads {
		events = append(events, p)
	}
	return events
}

// engaMakeVotes mirrors asyncPseudonode.makeVotes + pseudonodeVotesTask.execute (pseudonode.go:326-338, 379-500).
func engaMakeVotes(l Ledger, ids []*engaIdentity, r round, p period, st step, prop proposalValue) (events []externalEvent) {
	for _, part := range ids {
		rv := rawVote{Sender: part.addr, Round: r, Period: p, Step: st, Proposal: prop}
		uv, err := makeVote(rv, part.ot, part.vrf, l)
		if err != nil {
			continue
		}
		v, err := uv.verify(l)
		if err != nil {
			continue
		}
		m := message{Tag: protocol.AgreementVoteTag, UnauthenticatedVote: uv, Vote: v}
		events = append(events, messageEvent{T: voteVerified, Input: m})
	}
	return events
}

func (n *engaNode) doPseudonode(a pseudonodeAction) {
	s := n.sim
	ids := n.votingIdentities()
	switch a.T {
	case assemble:
		// actions.go:393-402
		if len(ids) == 0 {
			return
		}
		evs := engaMakeProposals(n.ledger, testBlockFactory{Owner: n.id}, ids, a.Round, a.Period)
		n.loop = append(n.loop, &engaChan{kind: engaChanEvents, events: evs})
	case repropose:
		// actions.go:403-426: persistStateDone is closed at once, step = propose
		if len(ids) == 0 {
			return
		}
		evs := engaMakeVotes(n.ledger, ids, a.Round, a.Period, propose, a.Proposal)
		n.loop = append(n.loop, &engaChan{kind: engaChanEvents, events: evs})
	case attest:
		// actions.go:427-455
		if len(ids) == 0 {
			return
		}
		done := make(chan error)
		evs := engaMakeVotes(n.ledger, ids, a.Round, a.Period, a.Step, a.Proposal)
		// service.go:281-284 persistState: encodes persistRouter/persistStatus/persistActions — whatever they hold
		raw := encode(n.clock, n.persistRouter, n.persistStatus, n.persistActions, false)
		if !n.persistSet {
			// only a restored attest can run before the first persistent transition, and start() assigns the persist
			// fields on the restore path exactly like service.go:253-258 does
			s.failf("harness bug: attest executed with unassigned persist fields at node %d", n.id)
		}
		req := &engaPersistReq{round: n.persistStatus.Round, period: n.persistStatus.Period, step: n.persistStatus.Step, raw: raw, done: done, zero: !n.persistSet}
		// asyncPersistenceLoop.pending has capacity 1 and the loop holds one more (persistence.go:321,358): a third
		// Enqueue blocks demuxLoop until the oldest write finished
		for len(n.persistQ) >= 2 {
			n.diskWrite()
		}
		n.persistQ = append(n.persistQ, req)
		// actions.go:445-446: the checkpoint channel is prioritized before the votes channel
		n.loop = append(n.loop, &engaChan{kind: engaChanPersist, req: req}, &engaChan{kind: engaChanEvents, events: evs, wait: done})
	}
}

// diskWrite lets the persistence loop complete its oldest pending write (persistence.go:351-378).
func (n *engaNode) diskWrite() bool {
	if !n.up || len(n.persistQ) == 0 {
		return false
	}
	req := n.persistQ[0]
	// persistence.go:361-366: waits for Ledger.Wait(round-1)
	if n.ledger.NextRound() <= req.round.SubSaturate(1) && req.round.SubSaturate(1) > 0 {
		return false
	}
	n.persistQ = n.persistQ[1:]
	n.disk = req.raw // persist(): insert or replace row 1
	n.diskRound = req.round
	n.diskZero = req.zero
	req.written = true
	n.sim.stats.diskWrites++
	n.sim.tracef("n%d DISKWRITE (%d,%d,%d) %dB", n.id, req.round, req.period, req.step, len(req.raw))
	return true
}

// ---------------------------------------------------------------------------------------------------------------
// local event sources

func engaClosed(ch chan error) bool {
	if ch == nil {
		return true
	}
	select {
	case <-ch:
		return true
	default:
		return false
	}
}

// loopbackReady reports whether the head of demux.queue has an event to deliver (after dropping closed, drained channels).
func (n *engaNode) loopbackReady() bool {
	if !n.up {
		return false
	}
	for len(n.loop) > 0 {
		h := n.loop[0]
		switch h.kind {
		case engaChanPersist:
			return h.req.written // persistence.go:369-378: the checkpoint event follows the write
		case engaChanEvents:
			if len(h.events) == 0 {
				// task finished, channel closed (pseudonode.go:380 defer t.close()): demux.go:238 pops it
				n.loop = n.loop[1:]
				continue
			}
			return engaClosed(h.wait) // pseudonode.go:454-470
		}
	}
	return false
}

// stepLoopback delivers the next prioritized event (demux.go:228-247,278-290).
func (n *engaNode) stepLoopback() bool {
	if !n.loopbackReady() {
		return false
	}
	h := n.loop[0]
	switch h.kind {
	case engaChanPersist:
		n.loop = n.loop[1:] // one event, then closed (persistence.go:371-378)
		n.submit(checkpointEvent{Round: h.req.round, Period: h.req.period, Step: h.req.step, done: h.req.done})
	case engaChanEvents:
		e := h.events[0]
		h.events = h.events[1:]
		n.submit(e)
	}
	return true
}

// stepCrypto reads result k of the cryptoVerifier (demux.go:355-372); verification itself is the real code.
func (n *engaNode) stepCrypto(k int) bool {
	if !n.up || k < 0 || k >= len(n.crypto) {
		return false
	}
	a := n.crypto[k]
	n.crypto = append(n.crypto[:k:k], n.crypto[k+1:]...)
	n.submit(n.sim.verify(n.ledger, a))
	return true
}

// verify runs the real verification for a cryptoAction and builds the event like demux.next does.
func (s *engaSim) verify(l Ledger, a cryptoAction) externalEvent {
	switch a.T {
	case verifyVote:
		// asyncVoteVerifier.go:89-106 executeVoteVerification; demux.go:356
		m := a.M
		v, err := m.UnauthenticatedVote.verify(l)
		m.Vote = v
		if err != nil {
			s.stats.verifyErr++
		}
		return messageEvent{T: voteVerified, Input: m, TaskIndex: a.TaskIndex, Err: makeSerErr(err)}
	case verifyPayload:
		// cryptoVerifier.go:375-394 verifyProposalPayload; demux.go:362
		m := a.M
		p, err := m.UnauthenticatedProposal.validate(context.Background(), a.Round, l, testBlockValidator{})
		if err != nil {
			s.stats.verifyErr++
			return messageEvent{T: payloadVerified, Input: m, Err: makeSerErrf("rejected invalid proposalPayload: %v", err)}
		}
		m.Proposal = p
		return messageEvent{T: payloadVerified, Input: m}
	case verifyBundle:
		// cryptoVerifier.go:226-279; demux.go:368
		m := a.M
		b, err := m.UnauthenticatedBundle.verify(context.Background(), l, engaVerifier())
		if err != nil {
			s.stats.verifyErr++
			return messageEvent{T: bundleVerified, Input: m, Err: makeSerErr(err)}
		}
		// bundle.go:246-266 appends votes in completion order of a parallel pool; any order is a real outcome.
		// Normalise to the order of the unauthenticated bundle so that cases replay deterministically.
		pos := map[basics.Address]int{}
		for i, v := range m.UnauthenticatedBundle.Votes {
			pos[v.Sender] = i
		}
		sort.SliceStable(b.Votes, func(i, j int) bool { return pos[b.Votes[i].R.Sender] < pos[b.Votes[j].R.Sender] })
		epos := map[basics.Address]int{}
		for i, v := range m.UnauthenticatedBundle.EquivocationVotes {
			epos[v.Sender] = i
		}
		sort.SliceStable(b.EquivocationVotes, func(i, j int) bool {
			return epos[b.EquivocationVotes[i].Sender] < epos[b.EquivocationVotes[j].Sender]
		})
		m.Bundle = b
		return messageEvent{T: bundleVerified, Input: m}
	}
	s.failf("harness bug: verify of %v", a.T)
	return nil
}

// fireTimeout delivers the (fast) timeout if the node's logical clock allows it (demux.go:314-323).
func (n *engaNode) canTimeout(fast bool) bool {
	if !n.up {
		return false
	}
	if fast {
		return n.clock.canFire(n.player.FastRecoveryDeadline, TimeoutFastRecovery)
	}
	return n.clock.canFire(n.player.Deadline.Duration, n.player.Deadline.Type)
}

func (n *engaNode) fireTimeout(fast bool, entropy uint64) bool {
	if !n.canTimeout(fast) {
		return false
	}
	n.firings++
	if fast {
		n.clock.fired(TimeoutFastRecovery)
		n.sim.stats.fastTimeouts++
		n.submit(timeoutEvent{T: fastTimeout, RandomEntropy: entropy, Round: n.player.Round})
	} else {
		n.clock.fired(n.player.Deadline.Type)
		n.sim.stats.timeouts++
		n.submit(timeoutEvent{T: timeout, RandomEntropy: entropy, Round: n.player.Round})
	}
	return true
}

// canInterrupt: Ledger.Wait(currentRound) fired (demux.go:270,298-313).
func (n *engaNode) canInterrupt() bool { return n.up && n.ledger.NextRound() > n.player.Round }

func (n *engaNode) interrupt() bool {
	if !n.canInterrupt() {
		return false
	}
	n.sim.stats.interrupts++
	n.submit(roundInterruptionEvent{Round: n.ledger.NextRound()})
	return true
}

// ---------------------------------------------------------------------------------------------------------------
// network pool

func (s *engaSim) send(src, excl int, tag protocol.Tag, data []byte) {
	s.observeWire(tag, data)
	h := crypto.Hash(append([]byte(tag), data...))
	for dst := range s.nodes {
		if dst == src || dst == excl {
			continue
		}
		s.enqueue(src, dst, tag, data, h)
	}
}

func (s *engaSim) enqueue(src, dst int, tag protocol.Tag, data []byte, h crypto.Digest) {
	if s.known[dst][h] {
		// an identical copy is pending for (or, in dedupeDelivered mode, was already delivered to) dst: the
		// network may always drop a message; the scheduler may still ask to keep it as a duplicate
		if s.keepDup == nil || !s.keepDup() {
			s.stats.netDropped++
			return
		}
		s.stats.netDup++
	}
	s.known[dst][h] = true
	s.seq++
	m := &engaMsg{id: s.seq, src: src, dst: dst, tag: tag, data: data, cls: engaClassify(tag, data)}
	if s.delay != nil {
		m.due = s.delay()
	}
	s.pool = append(s.pool, m)
}

// observeWire records votes / payloads that were on the wire (the adversary's knowledge, and label bookkeeping).
func (s *engaSim) observeWire(tag protocol.Tag, data []byte) {
	h := crypto.Hash(append([]byte(tag), data...))
	if s.seenWire[h] {
		return
	}
	s.seenWire[h] = true
	switch tag {
	case protocol.AgreementVoteTag:
		if o, err := decodeVote(data); err == nil {
			s.noteVote(o.(unauthenticatedVote))
		}
	case protocol.ProposalPayloadTag:
		if o, err := decodeProposal(data); err == nil {
			cm := o.(compoundMessage)
			s.payloads[cm.Proposal.value()] = cm.Proposal
			if cm.Vote != (unauthenticatedVote{}) {
				s.noteVote(cm.Vote)
			}
		}
	}
}

func (s *engaSim) noteVote(uv unauthenticatedVote) {
	k := engaVoteKey{uv.R.Round, uv.R.Period, uv.R.Step, uv.R.Proposal}
	for _, o := range s.votesSeen[k] {
		if o.R.Sender == uv.R.Sender {
			return
		}
	}
	s.votesSeen[k] = append(s.votesSeen[k], uv)
	switch uv.R.Step {
	case late:
		s.stats.sawLate++
	case redo:
		s.stats.sawRedo++
	case down:
		s.stats.sawDown++
	}
}

func (s *engaSim) deliverable(m *engaMsg) bool {
	if !s.nodes[m.dst].up {
		return false
	}
	if s.hold != nil && s.hold(m) {
		return false
	}
	if m.src < 0 {
		return true
	}
	return s.group[m.src] == s.group[m.dst]
}

func (s *engaSim) removeMsg(k int) *engaMsg {
	m := s.pool[k]
	s.pool = append(s.pool[:k:k], s.pool[k+1:]...)
	return m
}

func (s *engaSim) dropMsg(k int) {
	m := s.removeMsg(k)
	if !s.dedupeDelivered {
		delete(s.known[m.dst], crypto.Hash(append([]byte(m.tag), m.data...)))
	}
	s.stats.netDropped++
	s.tracef("DROP %v", m)
}

// deliverMsg hands pool[k] to its destination: tokenizer (demux.go:110-180) then demux.next (demux.go:326-352).
func (s *engaSim) deliverMsg(k int, keep bool) bool {
	m := s.pool[k]
	if !s.deliverable(m) {
		return false
	}
	if keep {
		s.stats.netDup++
	} else {
		s.removeMsg(k)
		if !s.dedupeDelivered {
			delete(s.known[m.dst], crypto.Hash(append([]byte(m.tag), m.data...)))
		}
	}
	n := s.nodes[m.dst]
	s.stats.netDelivered++
	var h MessageHandle = engaHandle{src: m.src}
	var e externalEvent
	switch m.tag {
	case protocol.AgreementVoteTag:
		o, err := decodeVote(m.data)
		if err != nil {
			return true // demux.go:133-144: disconnect, message lost
		}
		e = messageEvent{T: votePresent, Input: message{messageHandle: h, Tag: m.tag, UnauthenticatedVote: o.(unauthenticatedVote)}}
	case protocol.VoteBundleTag:
		o, err := decodeBundle(m.data)
		if err != nil {
			return true
		}
		e = messageEvent{T: bundlePresent, Input: message{messageHandle: h, Tag: m.tag, UnauthenticatedBundle: o.(unauthenticatedBundle)}}
	case protocol.ProposalPayloadTag:
		o, err := decodeProposal(m.data)
		if err != nil {
			return true // demux.go:128-131
		}
		cm := o.(compoundMessage)
		if proposalCarriesInvalidTxn(cm.Proposal) { // demux.go:155-159
			return true
		}
		e = setupCompoundMessage(n.ledger, message{messageHandle: h, Tag: m.tag, CompoundMessage: cm}) // demux.go:339
	default:
		s.failf("harness bug: tag %v", m.tag)
	}
	n.armTimers()
	n.submit(e)
	return true
}

// ---------------------------------------------------------------------------------------------------------------
// history

func (s *engaSim) recordEnsure(n *engaNode, en engaEnsure) {
	s.ensures = append(s.ensures, en)
	s.tracef("n%d ENSURE r%d %.8s via %v restored=%v", n.id, en.Round, en.Digest.String(), en.Via, en.Restored)
	for _, o := range s.obs {
		o.ensured(n, en)
	}
	if c, ok := s.commits[en.Round]; ok {
		if c.Digest != en.Digest {
			s.failf("C01 SAFETY VIOLATION: round %d committed as %v by node %d (inc %d) and as %v by node %d (inc %d)",
				en.Round, c.Digest, c.Node, c.Incarnation, en.Digest, en.Node, en.Incarnation)
		}
	} else {
		s.commits[en.Round] = en
		if s.ref.NextRound() == en.Round {
			s.ref.EnsureBlock(en.Payload.Block, en.Cert)
		}
	}
}

// catchup writes the next agreed block into node i's ledger, as the catch-up service would after fetching block and
// certificate from a peer (node/ledger EnsureDigest / catchup.Service; demux.go:298 then sees Ledger.Wait fire).
func (s *engaSim) catchup(i int) bool {
	n := s.nodes[i]
	r := n.ledger.NextRound()
	c, ok := s.commits[r]
	if !ok {
		return false
	}
	n.ledger.EnsureBlock(c.Payload.Block, c.Cert)
	s.stats.catchups++
	s.tracef("n%d CATCHUP block %d", i, r)
	return true
}

// committedRounds returns how many rounds node i's ledger holds.
func (n *engaNode) committed() round { return n.ledger.NextRound() - 1 }

func engaBlockOf(l Ledger, r round) (bookkeeping.Block, bool) {
	tl := l.(*testLedger)
	tl.mu.Lock()
	defer tl.mu.Unlock()
	b, ok := tl.entries[r]
	return b, ok
}

// thresholds / credentials ---------------------------------------------------------------------------------------

// engaWeights computes, from real credentials, the sortition weight of every identity for (r,p,s) on ledger l.
func (s *engaSim) weights(l Ledger, r round, p period, st step) (honest, byz uint64) {
	for _, id := range s.ids {
		m, err := membership(l, id.addr, r, p, st)
		if err != nil {
			continue
		}
		proto, err := l.ConsensusParams(ParamsRound(r))
		if err != nil {
			continue
		}
		cred, err := committee.MakeCredential(&id.vrf.SK, m.Selector).Verify(proto, m)
		if err != nil {
			continue // weight 0
		}
		if id.owner < 0 {
			byz += cred.Weight
		} else {
			honest += cred.Weight
		}
	}
	return
}

func engaProto() config.ConsensusParams { return config.Consensus[protocol.ConsensusCurrentVersion] }
