package agreement

// C05 — Progress once the network is synchronous (bounded liveness). Engine A (zz_verif_enga_*).
//
// Case = arbitrary asynchronous prefix (the adversarial scheduler: drops, class delays, partitions, crashes, clock drift,
// at most one Byzantine identity of >= 10 accounts) followed by a synchrony point: partitions healed, holds released,
// crashed nodes restarted, no more drops, every pending and future message delivered in random order within delta of
// logical time, clocks advance in lock-step, timeouts fire exactly at their deadlines, local work is instantaneous,
// lagging ledgers are served by catch-up, the Byzantine identity falls silent.
//
// Oracle (the bounded reading of "eventually"): let F be the highest round any honest node is in at the synchrony point
// and P0 the highest period among the nodes in F. Every honest node must emit ensureAction for F (or receive F's block)
// before any honest node reaches period P0+K+1 of round F, K = 5. Reaching that period is a violation; running out of the
// event budget first is inconclusive (counted, not failed). Cases whose honest sortition weight is below the soft or
// cert threshold (or that have no honest proposer) in some period of [P0, P0+K] of round F are discarded (counted):
// the statement's "honest online supermajority" does not hold for them.

import (
	"fmt"
	"math"
	"testing"
	"time"

	"github.com/algorand/go-algorand/crypto"
	"github.com/algorand/go-algorand/protocol"
	"pgregory.net/rapid"
)

const c05K = 5

// c05FiringBound is B of the second, explicitly bounded reading: after the synchrony point every honest node must hold
// the frontier block within B deadline firings (step + fast-recovery timeouts) of its own. It is a MEASURED ENGINEERING
// BOUND, not a protocol constant: >= 5x the maximum observed on the clean tree over the thorough tier (see notes/C05.md).
var c05FiringBound = 320

var c05MaxFiringsSeen int64

// c05Delta is the network bound of the synchronous phase. Nodes enter a period at most delta apart (the message that
// completes a quorum is relayed within delta) and a proposal takes at most delta, so every proposal arrives within
// 2*delta of a node's period start; that must stay inside the shortest filter timeout (AgreementFilterTimeoutPeriod0 = 3 s
// since v38; 2*SmallLambda = 4 s otherwise): delta = 1 s.
const c05Delta = time.Second

type c05Result struct {
	Config      string
	Profile     string
	PrefixEv    int
	Frontier    round
	P0          period
	PeriodsUsed int
	SyncEvents  int
	Verdict     string
	StatesAtSync string
}

// c05Supermajority checks the statement's precondition on round f, periods p0..p0+K, from the real credentials.
func c05Supermajority(s *engaSim, f round, p0 period) (ok bool, why string) {
	proto := engaProto()
	for p := p0; p <= p0+c05K; p++ {
		for _, st := range []step{soft, cert} {
			h, _ := s.weights(s.ref, f, p, st)
			if !st.reachesQuorum(proto, h) {
				return false, fmt.Sprintf("honest weight %d below threshold %d at (%d,%d,%d)", h, st.threshold(proto), f, p, st)
			}
		}
		if h, _ := s.weights(s.ref, f, p, propose); h == 0 {
			return false, fmt.Sprintf("no honest proposer at (%d,%d)", f, p)
		}
	}
	return true, ""
}

func TestVerif_C05_Progress(t *testing.T) {
	vk := vkBegin(t, "C05")
	vk.Rule("asynchronous prefix drawn by the Engine-A adversarial scheduler (100..500 events, B<=1 of >=10 accounts) then a synchrony point (delta = 1 s, lock-step clocks, timeouts at deadlines, catch-up on); every honest node must commit the frontier round within K=5 further periods; non-trivial = at the synchrony point honest nodes were in >=2 different (round,period) positions, or some node had seen a cert threshold without the block, or some node was down; distinct by population + positions at the synchrony point + prefix counters")
	vk.Assume("after the synchrony point the Byzantine identity is silent; message delay bound delta = 1 s (see c05Delta); the 'eventually' of the statement is read as K = 5 periods")
	defer func() { vk.Add("firings_max_seen_in_this_shard", c05MaxFiringsSeen) }()
	rapid.Check(t, func(t *rapid.T) {
		// population: >= 10 accounts, B <= 1
		var cfg engaConfig
		if rapid.Bool().Draw(t, "withByz") {
			cfg = engaDrawConfig(t, 3, 5, 9, 11, 1)
			if cfg.Byz == 1 && len(cfg.Stake) < 10 {
				cfg.Stake = append(cfg.Stake, 1_000_000)
				cfg.Accts[0]++
			}
		} else {
			cfg = engaDrawConfig(t, 3, 5, 5, 10, 0)
		}
		s := engaNewSimHook(t, cfg, func(s *engaSim) { s.traceOn = true })
		sc := engaNewSched(t, s)
		res := c05Result{Config: cfg.String(), Profile: sc.prof.Name}
		prefixBudget := []int{100, 200, 350, 500}[rapid.IntRange(0, 3).Draw(t, "prefixBudget")]
		benignPrefix := rapid.IntRange(0, 200).Draw(t, "benignPrefix")
		vkLabelDesync := "none"
		stopped := s.guard(func() {
			for i := 0; i < benignPrefix && s.stats.events < prefixBudget; i++ {
				if !s.benignStep(sc.entropy()) {
					break
				}
			}
			for s.stats.events < prefixBudget {
				if !sc.step() {
					break
				}
			}
			// constructive desynchronisation (so that the synchrony point finds nodes in different positions):
			// one node is cut off (partitioned away, or crashed, or deprived of proposal payloads) while the soft votes
			// of the others are delayed, so the majority walks through next votes into later periods
			modes := []string{"none", "isolate", "crash", "nopayload", "isolate", "crash"}
			if cfg.Byz == 1 {
				// the Byzantine account helps the majority through next votes into later periods while one node is cut
				// off, then falls silent at the synchrony point: the laggard becomes pivotal and has to catch up
				modes = append(modes, "byzassist", "byzassist", "byzassist")
			}
			mode := rapid.SampledFrom(modes).Draw(t, "desync")
			if mode == "none" {
				return
			}
			x := rapid.IntRange(0, len(s.nodes)-1).Draw(t, "desyncNode")
			holdSoft := rapid.Bool().Draw(t, "desyncHoldSoft")
			if mode == "byzassist" {
				holdSoft = true
			}
			assisted := map[engaStepKey]bool{}
			switch mode {
			case "isolate", "byzassist":
				for i := range s.group {
					s.group[i] = 0
				}
				s.group[x] = 1
				s.stats.partitions++
			case "crash":
				s.crash(x)
			}
			s.hold = func(m *engaMsg) bool {
				if mode == "nopayload" && m.dst == x && m.cls == engaClsPayload {
					return true
				}
				return holdSoft && m.cls == int(soft)
			}
			for k := rapid.IntRange(40, 500).Draw(t, "desyncFor"); k > 0; k-- {
				if !s.benignStep(sc.entropy()) {
					break
				}
				if mode != "byzassist" {
					continue
				}
				var dsts []int
				for i := range s.nodes {
					if i != x {
						dsts = append(dsts, i)
					}
				}
				for i, n := range s.nodes {
					if i == x || !n.up || n.player.Step < next {
						continue
					}
					for st := next; st <= n.player.Step; st++ {
						key := engaStepKey{n.player.Round, n.player.Period, st}
						if assisted[key] {
							continue
						}
						assisted[key] = true
						sc.byz.precondition(key)
						if uv, ok := sc.byz.makeVote(s.byz[0], key, bottom); ok {
							sc.byz.inject(s.byz[0], dsts, protocol.AgreementVoteTag, protocol.Encode(&uv))
							s.stats.byzVotes++
						}
					}
				}
			}
			vkLabelDesync = mode
		})
		if stopped {
			vk.Excluded(s.excluded)
			vk.Case(false, s.fingerprint())
			return
		}
		res.PrefixEv = s.stats.events
		prefixStats := s.stats

		// ---------------- synchrony point
		sc.holds = nil
		sc.healAt, sc.crashAfterAttest = 0, -1
		sc.restartAt = map[int]int{}
		s.hold = nil
		for i := range s.group {
			s.group[i] = 0
		}
		anyDown := false
		for i, n := range s.nodes {
			if !n.up {
				anyDown = true
				s.restart(i)
			}
		}
		// the adversary falls silent: what it already injected is still delivered
		s.keepDup = nil
		s.dedupeDelivered = false
		for i := range s.known {
			s.known[i] = map[crypto.Digest]bool{}
		}
		var now time.Duration
		for _, m := range s.pool {
			m.due = time.Duration(rapid.Int64Range(0, int64(c05Delta)).Draw(t, "due0"))
			s.known[m.dst][crypto.Hash(append([]byte(m.tag), m.data...))] = true
		}
		s.delay = func() time.Duration {
			return now + time.Duration(rapid.Int64Range(0, int64(c05Delta)).Draw(t, "delay"))
		}
		var frontier round
		for _, n := range s.nodes {
			if n.player.Round > frontier {
				frontier = n.player.Round
			}
		}
		var p0 period
		positions := map[string]bool{}
		stagedNoBlock := prefixStats.stageDigest > 0
		for _, n := range s.nodes {
			if n.player.Round == frontier && n.player.Period > p0 {
				p0 = n.player.Period
			}
			positions[fmt.Sprintf("%d.%d", n.player.Round, n.player.Period)] = true
			res.StatesAtSync += n.String() + " "
		}
		res.Frontier, res.P0 = frontier, p0
		if ok, why := c05Supermajority(s, frontier, p0); !ok {
			vk.Excluded("no_honest_supermajority")
			vk.Label("excluded/" + why[:min(len(why), 24)])
			vk.Case(false, s.fingerprint())
			return
		}
		s.tracef("=========== SYNCHRONY POINT frontier=%d P0=%d", frontier, p0)

		// event budget of the synchronous phase: large enough for a stuck system to reach B firings per node (a stuck
		// node re-broadcasts ~10 recovery votes to every peer at each fast-recovery firing); clean cases need < 4 000
		budget := 150000
		startEvents := s.stats.events
		verdict := ""
		livePos := map[int][3]uint64{}
		liveCnt := map[int]int{}
		fireBase := map[int]int{}
		for _, n := range s.nodes {
			fireBase[n.id] = n.firings
		}
		maxFirings := 0 // max over nodes of deadline firings between the synchrony point and that node holding block F
		maxPeriodSeen := p0
		for verdict == "" {
			// termination / violation checks
			all := true
			for _, n := range s.nodes {
				if n.ledger.NextRound() <= frontier {
					all = false
				}
				if n.player.Round == frontier && n.player.Period > maxPeriodSeen {
					maxPeriodSeen = n.player.Period
				}
			}
			for _, n := range s.nodes {
				if n.ledger.NextRound() <= frontier {
					if f := n.firings - fireBase[n.id]; f > maxFirings {
						maxFirings = f
					}
				}
			}
			if all {
				verdict = "committed"
				break
			}
			if maxFirings > c05FiringBound {
				verdict = "violation_firings"
				break
			}
			if maxPeriodSeen > p0+c05K {
				verdict = "violation"
				break
			}
			if s.stats.events-startEvents > budget {
				verdict = "inconclusive_step_budget"
				break
			}
			// 1. local work is instantaneous
			progressed := false
			for _, n := range s.nodes {
				if n.localStep() {
					progressed = true
					break
				}
			}
			if progressed {
				continue
			}
			// catch-up serves lagging ledgers (blocks below the frontier were committed by somebody)
			for i, n := range s.nodes {
				if n.ledger.NextRound() < frontier || (n.ledger.NextRound() == frontier && s.commits[frontier].Round == frontier) {
					if s.catchup(i) {
						progressed = true
						break
					}
				}
			}
			if progressed {
				continue
			}
			// 2. messages due now, in random order
			var due []int
			for k, m := range s.pool {
				if m.due <= now {
					due = append(due, k)
				}
			}
			if len(due) > 0 {
				s.deliverMsg(due[rapid.IntRange(0, len(due)-1).Draw(t, "dueIdx")], false)
				continue
			}
			// 3. timeouts exactly at their deadlines
			for _, n := range s.nodes {
				if n.canTimeout(false) {
					// livelock detector: every step timeout either casts the step's vote or moves to the next step
					// (player.go:112-140), so a node takes at most a few step timeouts per (round, period, step)
					pos := [3]uint64{uint64(n.player.Round), uint64(n.player.Period), uint64(n.player.Step)}
					if livePos[n.id] == pos {
						liveCnt[n.id]++
					} else {
						livePos[n.id], liveCnt[n.id] = pos, 1
					}
					if liveCnt[n.id] > 20 {
						s.failf("C05: livelock after the synchrony point: node %d took %d step timeouts in a row at (round %d, period %d, step %d) without advancing its step — it will never reach a later step or period", n.id, liveCnt[n.id], n.player.Round, n.player.Period, n.player.Step)
					}
				}
				if n.canTimeout(false) && n.fireTimeout(false, sc.entropy()) {
					progressed = true
					break
				}
				if n.canTimeout(true) && n.fireTimeout(true, sc.entropy()) {
					progressed = true
					break
				}
			}
			if progressed {
				continue
			}
			// 4. advance every clock in lock-step to the next instant at which something happens
			dt := time.Duration(math.MaxInt64)
			for _, m := range s.pool {
				if d := m.due - now; d < dt {
					dt = d
				}
			}
			for _, n := range s.nodes {
				if at, _, ok := n.nextDue(); ok {
					if d := at - n.wall; d < dt {
						dt = d
					}
				}
			}
			if dt == time.Duration(math.MaxInt64) {
				verdict = "deadlock"
				break
			}
			if dt < 0 {
				dt = 0
			}
			if dt == 0 {
				// a due timeout that cannot fire (consumed one-shot timer with an unchanged deadline): nudge time
				dt = time.Millisecond
			}
			now += dt
			for _, n := range s.nodes {
				n.wall += dt
			}
		}
		res.SyncEvents = s.stats.events - startEvents
		res.PeriodsUsed = int(maxPeriodSeen - p0)
		res.Verdict = verdict
		nt := len(positions) >= 2 || stagedNoBlock || anyDown
		switch verdict {
		case "violation":
			s.failf("C05: after the synchrony point (frontier round %d, highest period %d) an honest node reached period %d without every honest node having committed round %d (K=%d). Positions at the synchrony point: %s",
				frontier, p0, maxPeriodSeen, frontier, c05K, res.StatesAtSync)
		case "violation_firings":
			s.failf("C05: after the synchrony point (frontier round %d) an honest node has taken %d deadline firings (step + fast-recovery timeouts) and still does not hold block %d; bound B=%d (measured engineering bound, see notes/C05.md). Positions at the synchrony point: %s",
				frontier, maxFirings, frontier, c05FiringBound, res.StatesAtSync)
		case "deadlock":
			s.failf("C05: after the synchrony point nothing is enabled any more (no message, no timeout) and round %d is not committed by everybody. Positions at the synchrony point: %s", frontier, res.StatesAtSync)
		case "inconclusive_step_budget":
			vk.Excluded("inconclusive_step_budget")
			vk.Label("verdict/inconclusive_step_budget")
		default:
			vk.Label("verdict/committed")
			vk.Labelf("periods_used=%d", res.PeriodsUsed)
			vk.Labelf("firings_max=%s", engaBucket(maxFirings, 0, 2, 4, 6, 8, 12, 16, 24, 32, 48, 64, 100))
			vk.Add("firings_max_overall", 0)
			if int64(maxFirings) > c05MaxFiringsSeen {
				c05MaxFiringsSeen = int64(maxFirings)
			}
		}
		vk.Labelf("sync/positions=%d", min(len(positions), 4))
		vk.Labelf("sync/P0=%d", min(int(p0), 3))
		vk.Labelf("sync/frontier=%d", min(int(frontier), 4))
		if anyDown {
			vk.Label("sync/some_node_was_down")
		}
		if stagedNoBlock {
			vk.Label("sync/cert_threshold_without_block_in_prefix")
		}
		if prefixStats.partitions > 0 {
			vk.Label("prefix/partition")
		}
		if prefixStats.crashes > 0 {
			vk.Label("prefix/crash")
		}
		if prefixStats.netDropped > 0 {
			vk.Label("prefix/drops")
		}
		if prefixStats.byzVotes > 0 {
			vk.Label("prefix/byz_votes")
		}
		vk.Labelf("prefix/profile=%s", sc.prof.Name)
		vk.Labelf("prefix/desync=%s", vkLabelDesync)
		vk.Labelf("sync/events=%s", engaBucket(res.SyncEvents, 500, 1500, 4000, 9000))
		vk.Add("sync_events", int64(res.SyncEvents))
		vk.Add("prefix_events", int64(res.PrefixEv))
		vk.Case(nt, s.fingerprint()+"|"+res.StatesAtSync)
		if vk.WantSample(nt) {
			vk.Sample(nt, res)
		}
	})
}

// TestVerif_C05_LongPartition: scripted long-partition scenario, delay/partition only (no crash, no Byzantine identity).
// 5 equal-stake nodes. Period 0 fails (the soft votes are lost), everybody next-votes bottom; the next quorum is seen by
// nodes 0,1,2 only, which enter period 1; then the network splits {0,1,2} | {3,4} — neither side has a quorum — and stays
// split until nodes 0,1,2 have voted at step next+4 of period 1 (so they are past partitionStep = next+3). Everything in
// flight is lost, the partition heals, and from then on the network is synchronous: every message is delivered before
// the next timer fires, timers fire exactly at their deadlines, clocks run in lock-step. Every node must hold block 1
// within B = c05FiringBound deadline firings of its own (the same measured engineering bound as TestVerif_C05_Progress).
func TestVerif_C05_LongPartition(t *testing.T) {
	vk := vkBegin(t, "C05")
	vk.Rule("scripted long partition ({0,1,2} one period ahead of {3,4}, held past step next+4, then healed; timers only), 8 populations; non-trivial = at healing the two sides were in different periods and the majority side was past partitionStep")
	for ks := uint64(0); ks < 8; ks++ {
		cfg := engaConfig{Nodes: 5, Accts: []int{1, 1, 1, 1, 1}, Stake: []uint64{1e6, 1e6, 1e6, 1e6, 1e6}, KeySeed: ks}
		s := engaNewSimHook(t, cfg, func(s *engaSim) { s.traceOn = true })
		ent := func() uint64 { return 1 }
		// period 0: soft votes are lost; next votes do not reach nodes 3 and 4
		s.hold = func(m *engaMsg) bool {
			return m.cls == int(soft) || (m.cls >= int(next) && m.cls < int(late) && (m.dst == 3 || m.dst == 4))
		}
		ahead := func(p period) bool {
			return s.nodes[0].player.Period >= p && s.nodes[1].player.Period >= p && s.nodes[2].player.Period >= p
		}
		for i := 0; i < 4000 && !ahead(1); i++ {
			if !s.benignStep(ent()) {
				break
			}
		}
		note := ""
		if !ahead(1) || s.nodes[3].player.Period != 0 || s.nodes[4].player.Period != 0 {
			note = "could not put nodes 0,1,2 one period ahead"
		}
		// the split
		s.group = []int{0, 0, 0, 1, 1}
		s.hold = func(m *engaMsg) bool { return m.cls == int(soft) }
		past := func() bool {
			for _, i := range []int{0, 1, 2} {
				n := s.nodes[i]
				if n.player.Period != 1 || n.player.Step < next+4 || n.player.Napping {
					return false
				}
			}
			return true
		}
		for i := 0; i < 20000 && note == "" && !past(); i++ {
			if !s.benignStep(ent()) {
				break
			}
		}
		if note == "" && !past() {
			note = "majority side did not reach step next+4 of period 1"
		}
		nt := note == "" && s.nodes[3].player.Period == 0 && s.nodes[4].player.Period == 0
		pos := ""
		for _, n := range s.nodes {
			pos += n.String() + " "
		}
		// heal: what was in flight is lost; from here on synchronous, timers only
		s.pool = nil
		for i := range s.known {
			s.known[i] = map[crypto.Digest]bool{}
		}
		s.dedupeDelivered = false
		s.hold = nil
		s.group = []int{0, 0, 0, 0, 0}
		base := map[int]int{}
		for _, n := range s.nodes {
			base[n.id] = n.firings
		}
		maxF := 0
		verdict := ""
		for ev := 0; verdict == "" && nt; ev++ {
			all := true
			for _, n := range s.nodes {
				if n.committed() < 1 {
					all = false
					if f := n.firings - base[n.id]; f > maxF {
						maxF = f
					}
				}
			}
			switch {
			case all:
				verdict = "committed"
			case maxF > c05FiringBound:
				verdict = "violation"
			case ev > 400000:
				verdict = "inconclusive"
			default:
				for i, n := range s.nodes { // catch-up for nodes that lag a whole round
					if _, ok := s.commits[n.ledger.NextRound()]; ok && n.committed() < 1 {
						s.catchup(i)
					}
				}
				if !s.benignStep(ent()) {
					verdict = "deadlock"
				}
			}
		}
		vk.Case(nt, fmt.Sprintf("longpartition/%d/%s", ks, pos))
		vk.Sample(nt, map[string]any{"keySeed": ks, "note": note, "positionsAtHealing": pos, "verdict": verdict, "firingsMaxPerNode": maxF})
		if !nt {
			vk.Label("longpartition/not_applicable")
			continue
		}
		vk.Label("longpartition/" + verdict)
		vk.Labelf("longpartition/firings_max=%s", engaBucket(maxF, 2, 4, 8, 16, 32, 64))
		switch verdict {
		case "violation", "deadlock":
			s.failf("C05 long partition: after healing ({0,1,2} were one period ahead and past step next+4) %s: some node took %d deadline firings without holding block 1 (B=%d). Positions at healing: %s", verdict, maxF, c05FiringBound, pos)
		case "inconclusive":
			vk.Excluded("inconclusive_step_budget")
		}
	}
}
