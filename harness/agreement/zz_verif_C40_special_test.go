package agreement

// C40 (hand-written part for agreement): identifiers of votes, proposals, bundles and certificates.

import (
	"bytes"
	"fmt"

	"github.com/algorand/go-algorand/crypto"
	"github.com/algorand/go-algorand/protocol"
)

func init() { c40Extra = append(c40Extra, c40AgreementExtra) }

func c40ProposalIDs(p *unauthenticatedProposal) error {
	re := protocol.EncodeReflect(p)
	pv := p.value()
	if w := crypto.Digest(eDigest(protocol.Payload, re)); pv.EncodingDigest != w {
		return fmt.Errorf("proposal-value EncodingDigest %v, from reflection encoding %v", pv.EncodingDigest, w)
	}
	if w := crypto.Digest(eDigest(protocol.BlockHeader, protocol.EncodeReflect(&p.Block.BlockHeader))); pv.BlockDigest != w {
		return fmt.Errorf("proposal-value BlockDigest %v, from reflection encoding of the header %v", pv.BlockDigest, w)
	}
	var back unauthenticatedProposal
	if err := protocol.DecodeReflect(re, &back); err != nil {
		return fmt.Errorf("DecodeReflect(unauthenticatedProposal): %v", err)
	}
	if back.value() != pv {
		return fmt.Errorf("proposal-value changes across a reflection round trip: %+v vs %+v", back.value(), pv)
	}
	var back2 unauthenticatedProposal
	if err := protocol.Decode(re, &back2); err != nil {
		return fmt.Errorf("Decode(unauthenticatedProposal): %v", err)
	}
	if back2.value() != pv {
		return fmt.Errorf("proposal-value changes across a msgp round trip")
	}
	return nil
}

func c40RawVoteID(rv *rawVote) error {
	if got, w := crypto.HashObj(*rv), crypto.Digest(eDigest(protocol.Vote, protocol.EncodeReflect(rv))); got != w {
		return fmt.Errorf("vote digest %v, from reflection encoding %v", got, w)
	}
	return nil
}

func c40AgreementExtra(ty *eType, obj eObj, enc []byte) error {
	switch v := obj.(type) {
	case *unauthenticatedProposal:
		return c40ProposalIDs(v)
	case *proposal:
		return c40ProposalIDs(&v.unauthenticatedProposal)
	case *transmittedPayload:
		if err := c40ProposalIDs(&v.unauthenticatedProposal); err != nil {
			return err
		}
		return c40RawVoteID(&v.PriorVote.R)
	case *rawVote:
		return c40RawVoteID(v)
	case *unauthenticatedVote:
		return c40RawVoteID(&v.R)
	case *vote:
		if err := c40RawVoteID(&v.R); err != nil {
			return err
		}
		// the wire form of an authenticated vote is the unauthenticated vote
		u := v.u()
		if u.R != v.R || u.Sig != v.Sig {
			return fmt.Errorf("vote.u() drops information")
		}
	case *unauthenticatedBundle:
		// a certificate is the same object under another name: both names encode to the same bytes on both paths
		c := (*Certificate)(v)
		if !bytes.Equal(protocol.Encode(c), enc) || !bytes.Equal(protocol.EncodeReflect(c), enc) {
			return fmt.Errorf("Certificate and unauthenticatedBundle encode differently")
		}
	case *Certificate:
		b := (*unauthenticatedBundle)(v)
		if !bytes.Equal(protocol.Encode(b), enc) || !bytes.Equal(protocol.EncodeReflect(b), enc) {
			return fmt.Errorf("Certificate and unauthenticatedBundle encode differently")
		}
	}
	return nil
}
