package agreement

// Engine A — Byzantine identities. The adversary owns B accounts with real keys, sees every message ever put on the
// wire (engaSim.votesSeen / payloads), and may: vote any value in any step of the current/adjacent periods (two values
// in one step = equivocation, possibly to different peers), vote out of turn (before any timeout), send stale/future
// period votes, withhold, propose (also two different blocks), and build bundles from the votes it has seen.
// Every Byzantine vote is made with the real makeVote against the reference ledger (the agreed prefix), so it verifies
// at honest nodes exactly when the real protocol would accept it.

import (
	"fmt"
	"sort"

	"github.com/algorand/go-algorand/crypto"
	"github.com/algorand/go-algorand/data/basics"
	"github.com/algorand/go-algorand/data/bookkeeping"
	"github.com/algorand/go-algorand/protocol"
	"pgregory.net/rapid"
)

type engaStepKey struct {
	r  round
	p  period
	st step
}

type engaAdversary struct {
	s        *engaSim
	checked  map[engaStepKey]bool
	myVotes  map[engaStepKey]map[basics.Address][]unauthenticatedVote // Byzantine votes made so far
	stampSeq int64
}

// precondition checks the protocol's assumption for committee (r,p,st) from the real credentials:
// with H/B the honest/Byzantine sortition weight and T the step threshold, two quorums for different values need
// H + 2B >= 2T (every honest voter is in at most one of them); and the equivocators alone must stay below T
// (voteTracker.go:184-190 panics otherwise by design). Cases whose drawn committee violates this are excluded.
func (a *engaAdversary) precondition(k engaStepKey) {
	if k.st == propose {
		return
	}
	if a.checked == nil {
		a.checked = map[engaStepKey]bool{}
	}
	if a.checked[k] {
		return
	}
	a.checked[k] = true
	h, b := a.s.weights(a.s.ref, k.r, k.p, k.st)
	T := k.st.threshold(engaProto())
	if h+2*b >= 2*T || b >= T {
		a.s.tracef("BYZ precondition violated at (%d,%d,%d): honest=%d byz=%d T=%d", k.r, k.p, k.st, h, b, T)
		a.s.exclude("assumption_violated")
	}
}

// knownValues lists proposal values of round r that were on the wire (sorted for determinism).
func (a *engaAdversary) knownValues(r round) []proposalValue {
	var vs []proposalValue
	for v, up := range a.s.payloads {
		if up.Round() == r {
			vs = append(vs, v)
		}
	}
	sort.Slice(vs, func(i, j int) bool {
		return string(vs[i].BlockDigest[:])+fmt.Sprint(vs[i].OriginalPeriod) < string(vs[j].BlockDigest[:])+fmt.Sprint(vs[j].OriginalPeriod)
	})
	return vs
}

func (a *engaAdversary) targets(sc *engaSched) []int {
	n := len(a.s.nodes)
	mask := rapid.IntRange(1, (1<<n)-1).Draw(sc.t, "byzTargets")
	if rapid.IntRange(0, 2).Draw(sc.t, "byzAll") == 0 {
		mask = (1 << n) - 1
	}
	var r []int
	for i := 0; i < n; i++ {
		if mask&(1<<i) != 0 {
			r = append(r, i)
		}
	}
	return r
}

func (a *engaAdversary) inject(b *engaIdentity, dsts []int, tag protocol.Tag, data []byte) {
	s := a.s
	s.observeWire(tag, data)
	for _, d := range dsts {
		s.seq++
		s.pool = append(s.pool, &engaMsg{id: s.seq, src: -1 - b.idx, dst: d, tag: tag, data: data, cls: engaClassify(tag, data)})
	}
}

// where picks the (round, period) the move is about: that of a drawn honest node, sometimes shifted.
func (a *engaAdversary) where(sc *engaSched) (round, period, bool) {
	up := sc.upNodes()
	if len(up) == 0 {
		return 0, 0, false
	}
	n := a.s.nodes[sc.pick(up, "byzRef")]
	r, p := n.player.Round, n.player.Period
	switch rapid.IntRange(0, 9).Draw(sc.t, "byzShift") {
	case 0:
		if p > 0 {
			p-- // stale period
		}
	case 1:
		p++ // future period
	case 2:
		if a.s.ref.NextRound() >= r { // next round, only if its seed round exists on the reference ledger
			r, p = r+1, 0
		}
	}
	// membership() needs Seed(r-2) on the reference ledger (selector.go:88)
	if r.SubSaturate(2) >= a.s.ref.NextRound() {
		return 0, 0, false
	}
	return r, p, true
}

func (a *engaAdversary) makeVote(b *engaIdentity, k engaStepKey, v proposalValue) (unauthenticatedVote, bool) {
	// respect makeVote's own panics (vote.go:150-159): these combinations cannot be signed by the real code path
	switch k.st {
	case propose, soft, cert, late, redo:
		if v == bottom {
			return unauthenticatedVote{}, false
		}
	case down:
		if v != bottom {
			return unauthenticatedVote{}, false
		}
	}
	rv := rawVote{Sender: b.addr, Round: k.r, Period: k.p, Step: k.st, Proposal: v}
	uv, err := makeVote(rv, b.ot, b.vrf, a.s.ref)
	if err != nil {
		return unauthenticatedVote{}, false
	}
	if _, err := uv.verify(a.s.ref); err != nil {
		return unauthenticatedVote{}, false // not selected for this committee: the vote would be rejected anyway
	}
	if a.myVotes == nil {
		a.myVotes = map[engaStepKey]map[basics.Address][]unauthenticatedVote{}
	}
	if a.myVotes[k] == nil {
		a.myVotes[k] = map[basics.Address][]unauthenticatedVote{}
	}
	a.myVotes[k][b.addr] = append(a.myVotes[k][b.addr], uv)
	return uv, true
}

func (a *engaAdversary) move(sc *engaSched) bool {
	s := a.s
	r, p, ok := a.where(sc)
	if !ok {
		return false
	}
	b := s.byz[rapid.IntRange(0, len(s.byz)-1).Draw(sc.t, "byzId")]
	kind := rapid.IntRange(0, 9).Draw(sc.t, "byzKind")
	if len(s.byz) >= 2 && rapid.IntRange(0, 3).Draw(sc.t, "byzCertSplit") == 0 && a.certSplit(sc, r, p) {
		return true
	}
	switch {
	case kind <= 4: // vote (possibly the second value of an equivocation)
		steps := []step{soft, cert, next, next + 1, next + 2, late, redo, down, soft, cert}
		st := steps[rapid.IntRange(0, len(steps)-1).Draw(sc.t, "byzStep")]
		k := engaStepKey{r, p, st}
		vals := a.knownValues(r)
		if st >= next && st != late && st != redo {
			vals = append(vals, bottom)
		}
		if len(vals) == 0 {
			return false
		}
		v := vals[rapid.IntRange(0, len(vals)-1).Draw(sc.t, "byzVal")]
		a.precondition(k)
		uv, ok := a.makeVote(b, k, v)
		if !ok {
			return false
		}
		a.inject(b, a.targets(sc), protocol.AgreementVoteTag, protocol.Encode(&uv))
		s.stats.byzVotes++
		s.tracef("BYZ %d votes (%d,%d,%d) %.6s", b.idx, r, p, st, v.BlockDigest.String())
		return true
	case kind <= 6: // equivocate: two values in one step, to (possibly) different peers
		steps := []step{soft, cert, next, cert, soft}
		st := steps[rapid.IntRange(0, len(steps)-1).Draw(sc.t, "byzEqStep")]
		k := engaStepKey{r, p, st}
		vals := a.knownValues(r)
		if st >= next {
			vals = append(vals, bottom)
		}
		if len(vals) < 2 {
			return false
		}
		i := rapid.IntRange(0, len(vals)-1).Draw(sc.t, "byzEqA")
		j := rapid.IntRange(0, len(vals)-2).Draw(sc.t, "byzEqB")
		if j >= i {
			j++
		}
		a.precondition(k)
		u1, ok1 := a.makeVote(b, k, vals[i])
		u2, ok2 := a.makeVote(b, k, vals[j])
		if !ok1 || !ok2 {
			return false
		}
		a.inject(b, a.targets(sc), protocol.AgreementVoteTag, protocol.Encode(&u1))
		a.inject(b, a.targets(sc), protocol.AgreementVoteTag, protocol.Encode(&u2))
		s.stats.byzVotes += 2
		s.tracef("BYZ %d equivocates (%d,%d,%d) %.6s / %.6s", b.idx, r, p, st, vals[i].BlockDigest.String(), vals[j].BlockDigest.String())
		return true
	case kind == 7: // propose (a fresh block; a different TimeStamp gives a second, equivocating proposal)
		a.stampSeq++
		f := engaStampFactory{stamp: a.stampSeq * int64(rapid.IntRange(0, 1).Draw(sc.t, "byzStamp"))}
		evs := engaMakeProposals(s.ref, f, []*engaIdentity{b}, r, p)
		if len(evs) != 2 {
			return false // not selected as proposer
		}
		uv := evs[0].(messageEvent).Input.UnauthenticatedVote
		up := evs[1].(messageEvent).Input.UnauthenticatedProposal
		tp := transmittedPayload{unauthenticatedProposal: up, PriorVote: uv}
		a.inject(b, a.targets(sc), protocol.ProposalPayloadTag, protocol.Encode(&tp))
		s.stats.byzProposals++
		s.tracef("BYZ %d proposes (%d,%d) %.6s", b.idx, r, p, up.Digest().String())
		return true
	default: // build a bundle from votes seen on the wire (plus own equivocation pairs)
		return a.bundle(sc, r, p)
	}
}

// certSplit: two equivocators in one cert step whose FIRST votes are split: X1 votes the value that currently leads
// (most soft/cert votes on the wire) and then another value, X2 the other value first and then the leading one; both
// pairs go to the same drawn targets in this order. Honest trackers then hold an equivocator whose first vote was for the
// value being certified next to one whose first vote was not — the shape genBundle has to get right when the quorum is
// only reached with equivocator weight (voteTracker.go:192-204, 317-355).
func (a *engaAdversary) certSplit(sc *engaSched, r round, p period) bool {
	s := a.s
	vals := a.knownValues(r)
	if len(vals) < 2 {
		return false
	}
	lead, best := vals[0], -1
	for _, v := range vals {
		n := len(s.votesSeen[engaVoteKey{r, p, cert, v}])*2 + len(s.votesSeen[engaVoteKey{r, p, soft, v}])
		if n > best {
			lead, best = v, n
		}
	}
	var other proposalValue
	for _, v := range vals {
		if v != lead {
			other = v
			break
		}
	}
	k := engaStepKey{r, p, cert}
	if len(a.myVotes[k]) > 0 {
		return false // already voted in this step
	}
	a.precondition(k)
	x1, x2 := s.byz[0], s.byz[1]
	if rapid.Bool().Draw(sc.t, "byzSplitSwap") {
		x1, x2 = x2, x1
	}
	u1a, ok1 := a.makeVote(x1, k, lead)
	u1b, ok2 := a.makeVote(x1, k, other)
	u2a, ok3 := a.makeVote(x2, k, other)
	u2b, ok4 := a.makeVote(x2, k, lead)
	if !(ok1 && ok2 && ok3 && ok4) {
		return false
	}
	dsts := a.targets(sc)
	for _, uv := range []unauthenticatedVote{u1a, u1b, u2a, u2b} {
		uv := uv
		a.inject(x1, dsts, protocol.AgreementVoteTag, protocol.Encode(&uv))
	}
	// they also help the soft quorum for the leading value, so that honest cert votes appear at all
	for _, b := range []*engaIdentity{x1, x2} {
		if uv, ok := a.makeVote(b, engaStepKey{r, p, soft}, lead); ok {
			a.inject(b, a.targets(sc), protocol.AgreementVoteTag, protocol.Encode(&uv))
		}
	}
	s.stats.byzVotes += 4
	s.stats.byzCertSplit++
	s.tracef("BYZ cert-split equivocation (%d,%d): lead %.6s other %.6s to %v", r, p, lead.BlockDigest.String(), other.BlockDigest.String(), dsts)
	return true
}

// bundle assembles, from votes seen on the wire, a bundle for some (r,p,step,value) that reaches the threshold.
func (a *engaAdversary) bundle(sc *engaSched, r round, p period) bool {
	s := a.s
	var keys []engaVoteKey
	for k := range s.votesSeen {
		if k.r == r && k.p == p && k.s != propose {
			keys = append(keys, k)
		}
	}
	if len(keys) == 0 {
		return false
	}
	sort.Slice(keys, func(i, j int) bool {
		if keys[i].s != keys[j].s {
			return keys[i].s < keys[j].s
		}
		return string(keys[i].v.BlockDigest[:]) < string(keys[j].v.BlockDigest[:])
	})
	k := keys[rapid.IntRange(0, len(keys)-1).Draw(sc.t, "byzBundleKey")]
	if rapid.Bool().Draw(sc.t, "byzBundleCert") {
		// prefer a cert-step bundle (a certificate) when one can be formed
		for _, c := range keys {
			if c.s == cert {
				k = c
				break
			}
		}
	}
	proto := engaProto()
	// equivocation pairs by Byzantine identities in this step
	var eqs []equivocationVote
	eqSender := map[basics.Address]bool{}
	for addr, uvs := range a.myVotes[engaStepKey{k.r, k.p, k.s}] {
		if len(uvs) >= 2 && uvs[0].R.Proposal != uvs[1].R.Proposal {
			uev := unauthenticatedEquivocationVote{Sender: addr, Round: k.r, Period: k.p, Step: k.s, Cred: uvs[0].Cred,
				Proposals: [2]proposalValue{uvs[0].R.Proposal, uvs[1].R.Proposal}, Sigs: [2]crypto.OneTimeSignature{uvs[0].Sig, uvs[1].Sig}}
			if ev, err := uev.verify(s.ref); err == nil {
				eqs = append(eqs, ev)
				eqSender[addr] = true
			}
		}
	}
	sort.Slice(eqs, func(i, j int) bool { return string(eqs[i].Sender[:]) < string(eqs[j].Sender[:]) })
	var votes []vote
	var weight uint64
	for _, uv := range s.votesSeen[k] {
		if eqSender[uv.R.Sender] {
			continue
		}
		v, err := uv.verify(s.ref)
		if err != nil {
			continue
		}
		votes = append(votes, v)
		weight += v.Cred.Weight
	}
	for _, e := range eqs {
		weight += e.Cred.Weight
	}
	if len(votes) == 0 || !k.s.reachesQuorum(proto, weight) {
		return false
	}
	// makeBundle packs plain votes first and adds equivocation pairs only while the quorum is not reached
	// (bundle.go:95-124): leave out plain votes, as far as the quorum allows, so that the pairs are needed
	if len(eqs) > 0 && rapid.Bool().Draw(sc.t, "byzNeedEq") {
		for len(votes) > 1 && k.s.reachesQuorum(proto, weight-votes[len(votes)-1].Cred.Weight) {
			weight -= votes[len(votes)-1].Cred.Weight
			votes = votes[:len(votes)-1]
		}
	}
	ub := makeBundle(proto, k.v, votes, eqs)
	b := s.byz[0]
	a.inject(b, a.targets(sc), protocol.VoteBundleTag, protocol.Encode(&ub))
	s.stats.byzBundles++
	s.tracef("BYZ bundle (%d,%d,%d) %.6s votes=%d eq=%d", k.r, k.p, k.s, k.v.BlockDigest.String(), len(ub.Votes), len(ub.EquivocationVotes))
	return true
}

// engaStampFactory is testBlockFactory (common_test.go:193) plus a TimeStamp, so one proposer can make distinct blocks.
type engaStampFactory struct{ stamp int64 }

func (f engaStampFactory) AssembleBlock(r basics.Round, _ []basics.Address) (UnfinishedBlock, error) {
	return testValidatedBlock{Inside: bookkeeping.Block{BlockHeader: bookkeeping.BlockHeader{Round: r, TimeStamp: f.stamp}}}, nil
}
