package agreement

// Engine A — schedulers. (1) the benign policy: what a healthy deployment does (local work first, FIFO network,
// timeouts exactly at their deadlines, clocks in lock-step); (2) the adversarial rapid-driven scheduler.

import (
	"fmt"
	"math"
	"time"

	"pgregory.net/rapid"
)

// ---------------------------------------------------------------------------------------------------------------
// benign policy

// localStep performs one pending local event of node n (loopback first, like demux.go:228 prioritises it; then the
// persistence loop; then the oldest crypto result; then a pending round interruption).
func (n *engaNode) localStep() bool {
	if !n.up {
		return false
	}
	if n.stepLoopback() {
		return true
	}
	if n.diskWrite() {
		return true
	}
	if n.stepCrypto(0) {
		return true
	}
	if n.interrupt() {
		return true
	}
	return false
}

func (n *engaNode) hasLocal() bool {
	return n.up && (n.loopbackReady() || len(n.persistQ) > 0 || len(n.crypto) > 0 || n.canInterrupt())
}

// nextDue returns the earliest wall time at which a timeout of node n may fire, or MaxInt64.
func (n *engaNode) nextDue() (at time.Duration, fast bool, ok bool) {
	if !n.up {
		return 0, false, false
	}
	at = time.Duration(math.MaxInt64)
	n.armTimers()
	if t := n.clock.timeouts[n.player.Deadline.Type]; t.closed || !t.consumed {
		at, ok = n.clock.zero+n.player.Deadline.Duration, true
	}
	if t := n.clock.timeouts[TimeoutFastRecovery]; t.closed || !t.consumed {
		if f := n.clock.zero + n.player.FastRecoveryDeadline; f < at || !ok {
			at, fast, ok = f, true, true
		}
	}
	return
}

// benignStep performs one event under the benign policy; entropy feeds timeoutEvent.RandomEntropy.
// It returns false if nothing at all is enabled.
func (s *engaSim) benignStep(entropy uint64) bool {
	for _, n := range s.nodes {
		if n.localStep() {
			return true
		}
	}
	for k, m := range s.pool {
		if s.deliverable(m) {
			s.deliverMsg(k, false)
			return true
		}
	}
	// quiescent: advance every clock in lock-step to the earliest deadline and fire it
	best := -1
	var bestAt time.Duration
	var bestFast bool
	for i, n := range s.nodes {
		at, fast, ok := n.nextDue()
		if !ok {
			continue
		}
		// compare in terms of "how long from now" on the node's own clock
		wait := at - n.wall
		if best < 0 || wait < bestAt {
			best, bestAt, bestFast = i, wait, fast
		}
	}
	if best < 0 {
		return false
	}
	if bestAt > 0 {
		for _, n := range s.nodes {
			n.wall += bestAt
		}
	}
	return s.nodes[best].fireTimeout(bestFast, entropy)
}

// runBenign runs the benign policy until every up node has committed `upto` rounds or maxEvents were processed.
func (s *engaSim) runBenign(upto round, maxEvents int, entropy func() uint64) bool {
	for i := 0; i < maxEvents; i++ {
		done := true
		for _, n := range s.nodes {
			if n.up && n.committed() < upto {
				done = false
			}
		}
		if done {
			return true
		}
		if !s.benignStep(entropy()) {
			return false
		}
	}
	return false
}

// ---------------------------------------------------------------------------------------------------------------
// population generator

// engaDrawConfig draws a population: n honest nodes holding 1..3 identities each, b Byzantine identities, equal-ish stake.
func engaDrawConfig(t *rapid.T, minNodes, maxNodes, minAccts, maxAccts, maxByz int) engaConfig {
	cfg := engaConfig{}
	cfg.Nodes = rapid.IntRange(minNodes, maxNodes).Draw(t, "nodes")
	total := rapid.IntRange(max(minAccts, cfg.Nodes), max(maxAccts, cfg.Nodes)).Draw(t, "honestAccts")
	cfg.Accts = make([]int, cfg.Nodes)
	for i := range cfg.Accts {
		cfg.Accts[i] = 1
	}
	for k := cfg.Nodes; k < total; k++ {
		cfg.Accts[rapid.IntRange(0, cfg.Nodes-1).Draw(t, "acctOwner")]++
	}
	cfg.Byz = rapid.IntRange(0, maxByz).Draw(t, "byz")
	for i := 0; i < total+cfg.Byz; i++ {
		// equal-ish: ±5% around 1e6 µAlgos (service_test.go:690 uses exactly 1e6 for every account)
		cfg.Stake = append(cfg.Stake, uint64(1_000_000+rapid.IntRange(-50_000, 50_000).Draw(t, "stake")))
	}
	cfg.KeySeed = uint64(rapid.IntRange(0, 7).Draw(t, "keySeed"))
	return cfg
}

// ---------------------------------------------------------------------------------------------------------------
// adversarial scheduler

type engaProfile struct {
	Name                                                                                               string
	wBenign, wDeliver, wLocal, wTimeout, wFast, wClock, wDrop, wPartition, wHeal, wCrash, wRestart    int
	wCatchup, wByz, wTickAll, wDisk, wRedeliver, wHold, wCrashLoop                                     int
	fifo                                                                                               int // percent of deliveries taken from the head of the pool
	dup                                                                                                int // percent of deliveries that leave a duplicate behind
	burst                                                                                              int // length of benign bursts
}

var engaProfiles = []engaProfile{
	{Name: "mostly-benign", wBenign: 60, wDeliver: 10, wLocal: 10, wTimeout: 4, wFast: 1, wClock: 2, wDrop: 2, wPartition: 1, wHeal: 2, wCrash: 2, wRestart: 4, wCatchup: 1, wByz: 4, wTickAll: 2, wDisk: 2, wRedeliver: 1, wHold: 2, wCrashLoop: 1, fifo: 80, dup: 3, burst: 40},
	{Name: "reorder", wBenign: 10, wDeliver: 45, wLocal: 25, wTimeout: 4, wFast: 1, wClock: 2, wDrop: 2, wPartition: 1, wHeal: 2, wCrash: 1, wRestart: 4, wCatchup: 1, wByz: 4, wTickAll: 2, wDisk: 3, wRedeliver: 2, wHold: 2, wCrashLoop: 1, fifo: 20, dup: 10, burst: 12},
	{Name: "lossy", wBenign: 30, wDeliver: 15, wLocal: 15, wTimeout: 6, wFast: 1, wClock: 2, wDrop: 16, wPartition: 1, wHeal: 2, wCrash: 1, wRestart: 4, wCatchup: 2, wByz: 4, wTickAll: 6, wDisk: 2, wRedeliver: 1, wHold: 6, wCrashLoop: 1, fifo: 60, dup: 3, burst: 25},
	{Name: "partition", wBenign: 45, wDeliver: 10, wLocal: 10, wTimeout: 5, wFast: 2, wClock: 2, wDrop: 2, wPartition: 6, wHeal: 3, wCrash: 1, wRestart: 4, wCatchup: 2, wByz: 4, wTickAll: 8, wDisk: 2, wRedeliver: 1, wHold: 4, wCrashLoop: 1, fifo: 70, dup: 3, burst: 40},
	{Name: "crashy", wBenign: 40, wDeliver: 10, wLocal: 12, wTimeout: 4, wFast: 1, wClock: 2, wDrop: 2, wPartition: 1, wHeal: 2, wCrash: 10, wRestart: 10, wCatchup: 2, wByz: 3, wTickAll: 4, wDisk: 6, wRedeliver: 1, wHold: 2, wCrashLoop: 7, fifo: 70, dup: 3, burst: 25},
	{Name: "timeouts", wBenign: 35, wDeliver: 8, wLocal: 8, wTimeout: 14, wFast: 5, wClock: 5, wDrop: 4, wPartition: 1, wHeal: 2, wCrash: 1, wRestart: 4, wCatchup: 1, wByz: 3, wTickAll: 14, wDisk: 2, wRedeliver: 1, wHold: 8, wCrashLoop: 1, fifo: 70, dup: 3, burst: 25},
	{Name: "byzantine", wBenign: 40, wDeliver: 10, wLocal: 10, wTimeout: 5, wFast: 1, wClock: 2, wDrop: 3, wPartition: 1, wHeal: 2, wCrash: 1, wRestart: 4, wCatchup: 1, wByz: 22, wTickAll: 5, wDisk: 2, wRedeliver: 1, wHold: 3, wCrashLoop: 1, fifo: 70, dup: 3, burst: 25},
}

// engaSched drives one case: every decision is a rapid draw, so the whole schedule shrinks as one value.
type engaSched struct {
	s        *engaSim
	t        *rapid.T
	prof     engaProfile
	byz      *engaAdversary
	delivered []*engaMsg // a few already delivered messages, for stale re-delivery
	allowCrash, allowDrop, allowPartition bool
	crashAfterAttest int // node index armed for "crash right after its next attest", -1 = none
	crashPhase       int
	crashDown        int
	watch            *engaAttestWatch
	holds            []engaHold
	healAt           int         // event count at which the current partition heals by itself (0 = never)
	restartAt        map[int]int // node -> event count at which it is restarted
}

// engaHold delays one class of messages (to a set of destinations) for a number of events; at expiry the held
// messages are released or lost. An asynchronous network may do either.
type engaHold struct {
	cls     int
	dstMask int
	until   int
	drop    bool
}

func engaNewSched(t *rapid.T, s *engaSim) *engaSched {
	sc := &engaSched{s: s, t: t, allowCrash: true, allowDrop: true, allowPartition: true, crashAfterAttest: -1}
	sc.prof = engaProfiles[rapid.IntRange(0, len(engaProfiles)-1).Draw(t, "profile")]
	s.keepDup = func() bool { return rapid.IntRange(0, 99).Draw(t, "keepDup") < sc.prof.dup }
	sc.byz = &engaAdversary{s: s}
	sc.watch = &engaAttestWatch{}
	s.obs = append(s.obs, sc.watch)
	sc.restartAt = map[int]int{}
	s.hold = func(m *engaMsg) bool {
		for _, h := range sc.holds {
			if h.cls == m.cls && h.dstMask&(1<<m.dst) != 0 {
				return true
			}
		}
		return false
	}
	return sc
}

// entropy draws timeoutEvent.RandomEntropy (demux.go:315). Only its residue modulo the nap range matters. The value is
// forced odd: every range (2 s * 2^k, or FastRecoveryLambda) is an even number of nanoseconds, so the residue is never
// 0. A residue of exactly 0 makes player.go:134-138 set Deadline = lower, which equals the Deadline that has just fired
// (upper of the previous step); timers.Monotonic.TimeoutAt then returns the cached, already consumed channel
// (monotonic.go:58-62) and the step timer never fires again. With the real RandomSource that has probability ~2^-31
// per timeout; rapid would draw it constantly (0 is its favourite). Excluded by construction, see notes/ENGA.md.
func (sc *engaSched) entropy() uint64 {
	if rapid.IntRange(0, 3).Draw(sc.t, "entropyKind") == 0 {
		return rapid.Uint64().Draw(sc.t, "entropy") | 1
	}
	return uint64(rapid.IntRange(0, 4_000_000_000).Draw(sc.t, "entropyNs")) | 1
}

func (sc *engaSched) upNodes() []int {
	var r []int
	for i, n := range sc.s.nodes {
		if n.up {
			r = append(r, i)
		}
	}
	return r
}

func (sc *engaSched) pick(xs []int, label string) int {
	return xs[rapid.IntRange(0, len(xs)-1).Draw(sc.t, label)]
}

// step performs one scheduler action; it always makes progress if anything is enabled (falls back to benign).
func (sc *engaSched) step() bool {
	s, t, p := sc.s, sc.t, sc.prof
	type wa struct {
		w int
		f func() bool
	}
	acts := []wa{
		{p.wBenign, sc.actBurst},
		{p.wDeliver, sc.actDeliver},
		{p.wLocal, sc.actLocal},
		{p.wTimeout, func() bool { return sc.actTimeout(false) }},
		{p.wFast, func() bool { return sc.actTimeout(true) }},
		{p.wClock, sc.actClock},
		{p.wTickAll, sc.actTickAll},
		{p.wDisk, sc.actDisk},
		{p.wCatchup, sc.actCatchup},
		{p.wRedeliver, sc.actRedeliver},
		{p.wHold, sc.actHold},
	}
	if sc.allowDrop {
		acts = append(acts, wa{p.wDrop, sc.actDrop})
	}
	if sc.allowPartition {
		acts = append(acts, wa{p.wPartition, sc.actPartition}, wa{p.wHeal, sc.actHeal})
	}
	if sc.allowCrash {
		acts = append(acts, wa{p.wCrash, sc.actCrash}, wa{p.wRestart, sc.actRestart}, wa{p.wCrashLoop, sc.actCrashLoop})
	}
	if len(s.byz) > 0 {
		acts = append(acts, wa{p.wByz, sc.actByz})
	}
	total := 0
	for _, a := range acts {
		total += a.w
	}
	x := rapid.IntRange(0, total-1).Draw(t, "act")
	for _, a := range acts {
		if x < a.w {
			if a.f() {
				sc.afterStep()
				return true
			}
			break
		}
		x -= a.w
	}
	ok := s.benignStep(sc.entropy())
	if !ok {
		// nothing enabled: every node down? bring one back
		ok = sc.actRestart()
	}
	sc.afterStep()
	return ok
}

// afterStep implements the armed "crash right after attest" bias: once the watched node has produced an attest,
// crash it at the drawn phase of the persistence handshake.
func (sc *engaSched) afterStep() {
	ev := sc.s.stats.events
	// expire message holds
	for i := 0; i < len(sc.holds); {
		h := sc.holds[i]
		if ev < h.until {
			i++
			continue
		}
		sc.holds = append(sc.holds[:i:i], sc.holds[i+1:]...)
		if h.drop {
			for k := len(sc.s.pool) - 1; k >= 0; k-- {
				if m := sc.s.pool[k]; m.cls == h.cls && h.dstMask&(1<<m.dst) != 0 {
					sc.s.dropMsg(k)
				}
			}
		}
		sc.s.tracef("SCHED hold on class %d mask %b expired (drop=%v)", h.cls, h.dstMask, h.drop)
	}
	if sc.healAt > 0 && ev >= sc.healAt {
		sc.healAt = 0
		sc.actHeal()
	}
	for i, at := range sc.restartAt {
		if ev >= at {
			delete(sc.restartAt, i)
			sc.s.restart(i)
		}
	}
	if sc.crashAfterAttest < 0 {
		return
	}
	n := sc.s.nodes[sc.crashAfterAttest]
	if !n.up {
		sc.crashAfterAttest = -1
		return
	}
	if sc.watch.attested[n.id] == 0 {
		return
	}
	// phases: 0 = before the disk write, 1 = after the write before the checkpoint event, 2 = after the checkpoint before
	// the votes are out, 3 = after the first vote is out
	switch sc.crashPhase {
	case 0:
	case 1:
		n.diskWrite()
	case 2:
		n.diskWrite()
		n.stepLoopback()
	case 3:
		n.diskWrite()
		n.stepLoopback()
		n.stepLoopback()
	}
	sc.s.tracef("SCHED crash-after-attest n%d phase %d", n.id, sc.crashPhase)
	if sc.s.crash(n.id) {
		sc.restartAt[n.id] = ev + sc.crashDown
	}
	sc.crashAfterAttest = -1
}

func (sc *engaSched) actBurst() bool {
	k := rapid.IntRange(1, sc.prof.burst).Draw(sc.t, "burst")
	did := false
	for i := 0; i < k; i++ {
		if !sc.s.benignStep(sc.entropy()) {
			break
		}
		did = true
		if sc.crashAfterAttest >= 0 && sc.watch.attested[sc.crashAfterAttest] > 0 {
			break
		}
	}
	return did
}

func (sc *engaSched) deliverableIdx() []int {
	var r []int
	for k, m := range sc.s.pool {
		if sc.s.deliverable(m) {
			r = append(r, k)
		}
	}
	return r
}

func (sc *engaSched) actDeliver() bool {
	idx := sc.deliverableIdx()
	if len(idx) == 0 {
		return false
	}
	k := idx[0]
	if rapid.IntRange(0, 99).Draw(sc.t, "fifo") >= sc.prof.fifo {
		k = sc.pick(idx, "msg")
	}
	keep := rapid.IntRange(0, 99).Draw(sc.t, "dup") < sc.prof.dup
	m := sc.s.pool[k]
	if len(sc.delivered) < 64 {
		sc.delivered = append(sc.delivered, m)
	} else {
		sc.delivered[int(m.id)%64] = m
	}
	return sc.s.deliverMsg(k, keep)
}

// actRedeliver re-injects a message that was delivered earlier (stale duplicate), possibly to another node.
func (sc *engaSched) actRedeliver() bool {
	if len(sc.delivered) == 0 {
		return false
	}
	m := sc.delivered[rapid.IntRange(0, len(sc.delivered)-1).Draw(sc.t, "old")]
	dst := m.dst
	if rapid.Bool().Draw(sc.t, "otherDst") {
		dst = rapid.IntRange(0, len(sc.s.nodes)-1).Draw(sc.t, "dst")
	}
	if dst == m.src {
		return false
	}
	sc.s.seq++
	sc.s.stats.netDup++
	sc.s.pool = append(sc.s.pool, &engaMsg{id: sc.s.seq, src: m.src, dst: dst, tag: m.tag, data: m.data, cls: m.cls})
	return true
}

func (sc *engaSched) actLocal() bool {
	var cand []int
	for i, n := range sc.s.nodes {
		if n.hasLocal() {
			cand = append(cand, i)
		}
	}
	if len(cand) == 0 {
		return false
	}
	n := sc.s.nodes[sc.pick(cand, "localNode")]
	// the loopback queue is FIFO and is preferred by demux; crypto results come back in any order
	switch rapid.IntRange(0, 5).Draw(sc.t, "localKind") {
	case 0, 1, 2:
		if n.stepLoopback() {
			return true
		}
	case 3:
		if len(n.crypto) > 0 && n.stepCrypto(rapid.IntRange(0, len(n.crypto)-1).Draw(sc.t, "cryptoIdx")) {
			return true
		}
	case 4:
		if n.interrupt() {
			return true
		}
	}
	// "run to quiescence": the common real behaviour, local work is fast
	did := false
	for i := 0; i < 8 && n.localStep(); i++ {
		did = true
	}
	return did
}

func (sc *engaSched) actDisk() bool {
	var cand []int
	for i, n := range sc.s.nodes {
		if n.up && len(n.persistQ) > 0 {
			cand = append(cand, i)
		}
	}
	if len(cand) == 0 {
		return false
	}
	return sc.s.nodes[sc.pick(cand, "diskNode")].diskWrite()
}

// actTimeout advances one node's clock to its deadline (clock drift: nobody else's clock moves) and fires it.
func (sc *engaSched) actTimeout(fast bool) bool {
	up := sc.upNodes()
	if len(up) == 0 {
		return false
	}
	n := sc.s.nodes[sc.pick(up, "toNode")]
	if !n.canTimeout(fast) {
		var target time.Duration
		if fast {
			target = n.clock.zero + n.player.FastRecoveryDeadline
		} else {
			target = n.clock.zero + n.player.Deadline.Duration
		}
		if target > n.wall {
			n.wall = target
		}
	}
	return n.fireTimeout(fast, sc.entropy())
}

func (sc *engaSched) actClock() bool {
	up := sc.upNodes()
	if len(up) == 0 {
		return false
	}
	n := sc.s.nodes[sc.pick(up, "clkNode")]
	n.wall += time.Duration(rapid.IntRange(1, 3000).Draw(sc.t, "clkMs")) * time.Millisecond
	return true
}

// actTickAll: every up node (or a drawn subset) runs into its next timeout — pushes the system through steps.
func (sc *engaSched) actTickAll() bool {
	up := sc.upNodes()
	if len(up) == 0 {
		return false
	}
	mask := rapid.IntRange(1, (1<<len(up))-1).Draw(sc.t, "tickMask")
	did := false
	for b, i := range up {
		if mask&(1<<b) == 0 {
			continue
		}
		n := sc.s.nodes[i]
		if !n.up {
			continue
		}
		target := n.clock.zero + n.player.Deadline.Duration
		if target > n.wall {
			n.wall = target
		}
		if n.fireTimeout(false, sc.entropy()) {
			did = true
		}
	}
	return did
}

func (sc *engaSched) actDrop() bool {
	if len(sc.s.pool) == 0 {
		return false
	}
	switch rapid.IntRange(0, 3).Draw(sc.t, "dropKind") {
	case 0: // everything addressed to one node (it was unreachable for a while)
		dst := rapid.IntRange(0, len(sc.s.nodes)-1).Draw(sc.t, "dropDst")
		did := false
		for k := len(sc.s.pool) - 1; k >= 0; k-- {
			if sc.s.pool[k].dst == dst {
				sc.s.dropMsg(k)
				did = true
			}
		}
		return did
	case 1: // every copy of one message
		m := sc.s.pool[rapid.IntRange(0, len(sc.s.pool)-1).Draw(sc.t, "dropMsg")]
		for k := len(sc.s.pool) - 1; k >= 0; k-- {
			o := sc.s.pool[k]
			if o.src == m.src && o.tag == m.tag && string(o.data) == string(m.data) {
				sc.s.dropMsg(k)
			}
		}
		return true
	default:
		sc.s.dropMsg(rapid.IntRange(0, len(sc.s.pool)-1).Draw(sc.t, "dropIdx"))
		return true
	}
}

func (sc *engaSched) actPartition() bool {
	n := len(sc.s.nodes)
	mask := rapid.IntRange(1, (1<<n)-2).Draw(sc.t, "partMask")
	for i := range sc.s.group {
		sc.s.group[i] = (mask >> i) & 1
	}
	sc.s.stats.partitions++
	sc.s.tracef("SCHED partition %v", sc.s.group)
	if rapid.IntRange(0, 4).Draw(sc.t, "autoHeal") > 0 {
		sc.healAt = sc.s.stats.events + rapid.IntRange(10, 200).Draw(sc.t, "healAfter")
	}
	return true
}

// drain delivers all local work and every deliverable message without letting any timeout fire.
func (s *engaSim) drain(maxEvents int) {
	for i := 0; i < maxEvents; i++ {
		did := false
		for _, n := range s.nodes {
			if n.localStep() {
				did = true
				break
			}
		}
		if did {
			continue
		}
		for k, m := range s.pool {
			if s.deliverable(m) {
				s.deliverMsg(k, false)
				did = true
				break
			}
		}
		if !did {
			return
		}
	}
}

// macroLatePayload constructs "the block payload arrives after the node has next-voted": from the start of a period
// the network withholds every proposal payload (the proposal-votes, which travel on their own, get through) and every
// next vote; nodes soft-vote the lowest proposal-vote, see the soft quorum without the block, run into the period
// deadline and next-vote. Then the payloads are released (a correct node must NOT cert-vote any more, player.go:387,721),
// and for a drawn while the network shows cert votes only to one node and that node no next votes.
// Pure message delay; everything in between is the benign policy.
func (sc *engaSched) macroLatePayload() bool {
	s := sc.s
	n := len(s.nodes)
	all := (1 << n) - 1
	far := 1 << 30
	base := len(sc.holds)
	sc.holds = append(sc.holds, engaHold{cls: engaClsPayload, dstMask: all, until: far}, engaHold{cls: int(next), dstMask: all, until: far})
	s.tracef("SCHED macro late-payload: hold payloads and next votes")
	// phase 1: until every up node has passed its cert deadline in the period it is in (bounded)
	startPos := map[int][2]uint64{}
	for i, nd := range s.nodes {
		startPos[i] = [2]uint64{uint64(nd.player.Round), uint64(nd.player.Period)}
	}
	ok := false
	for i := 0; i < 900; i++ {
		ok = true
		for j, nd := range s.nodes {
			if !nd.up {
				continue
			}
			pos := [2]uint64{uint64(nd.player.Round), uint64(nd.player.Period)}
			if pos == startPos[j] && nd.player.Step < next {
				ok = false
			}
		}
		if ok {
			s.drain(400) // let the next votes of the last node reach the wire (they stay held)
			break
		}
		if !s.benignStep(sc.entropy()) {
			break
		}
	}
	// phase 2: release the payloads, deliver them without any timeout in between
	sc.holds = append(sc.holds[:base:base], engaHold{cls: int(next), dstMask: all, until: far}, engaHold{cls: int(cert), dstMask: all, until: far})
	s.drain(1500)
	// phase 3: cert votes reach only node x, next votes reach everybody but x, for a drawn while
	x := rapid.IntRange(0, n-1).Draw(sc.t, "lateX")
	if rapid.Bool().Draw(sc.t, "lateXProposer") {
		// prefer the node that holds the block's proposer: it is the one that could cert-vote legitimately
		best, bestVotes := proposalValue{}, 0
		for k, uvs := range s.votesSeen {
			if k.s == soft && len(uvs) > bestVotes {
				best, bestVotes = k.v, len(uvs)
			}
		}
		for _, id := range s.ids {
			if id.addr == best.OriginalProposer && id.owner >= 0 {
				x = id.owner
			}
		}
	}
	until := s.stats.events + rapid.IntRange(100, 500).Draw(sc.t, "lateFor")
	sc.holds = append(sc.holds[:base:base],
		engaHold{cls: int(cert), dstMask: all &^ (1 << x), until: until, drop: rapid.Bool().Draw(sc.t, "lateDropCert")},
		engaHold{cls: int(next), dstMask: 1 << x, until: until})
	s.stats.latePayloadMacro++
	s.tracef("SCHED macro late-payload: released; cert votes only to n%d until %d (phase1 complete=%v)", x, until, ok)
	return true
}

// actHold: the network delays one class of messages (proposal payloads, votes of one step, bundles) for a while.
func (sc *engaSched) actHold() bool {
	if len(sc.holds) >= 2 {
		return false
	}
	classes := []int{engaClsPayload, int(soft), int(cert), int(next), engaClsBundle, int(soft), int(cert), int(propose)}
	n := len(sc.s.nodes)
	h := engaHold{
		cls:     classes[rapid.IntRange(0, len(classes)-1).Draw(sc.t, "holdCls")],
		dstMask: (1 << n) - 1,
		until:   sc.s.stats.events + rapid.IntRange(20, 250).Draw(sc.t, "holdFor"),
		drop:    rapid.Bool().Draw(sc.t, "holdDrop"),
	}
	if rapid.Bool().Draw(sc.t, "holdSome") {
		h.dstMask = rapid.IntRange(1, (1<<n)-1).Draw(sc.t, "holdMask")
	}
	sc.holds = append(sc.holds, h)
	sc.s.stats.holds++
	sc.s.tracef("SCHED hold class %d mask %b until %d drop=%v", h.cls, h.dstMask, h.until, h.drop)
	return true
}

func (sc *engaSched) actHeal() bool {
	healed := false
	for i := range sc.s.group {
		if sc.s.group[i] != 0 {
			healed = true
		}
		sc.s.group[i] = 0
	}
	if healed {
		sc.s.stats.heals++
		sc.s.tracef("SCHED heal")
	}
	return healed
}

func (sc *engaSched) actCrash() bool {
	up := sc.upNodes()
	if len(up) == 0 {
		return false
	}
	i := sc.pick(up, "crashNode")
	switch rapid.IntRange(0, 2).Draw(sc.t, "crashKind") {
	case 0:
		if !sc.s.crash(i) {
			return false
		}
		if rapid.IntRange(0, 3).Draw(sc.t, "autoRestart") > 0 {
			sc.restartAt[i] = sc.s.stats.events + rapid.IntRange(0, 120).Draw(sc.t, "downFor")
		}
		return true
	default:
		// bias: crash right after this node's next attest, at a drawn phase of the persistence handshake
		if sc.crashAfterAttest >= 0 {
			return false
		}
		sc.crashAfterAttest = i
		sc.crashPhase = rapid.IntRange(0, 3).Draw(sc.t, "crashPhase")
		sc.crashDown = rapid.IntRange(0, 120).Draw(sc.t, "downFor")
		sc.watch.attested[i] = 0
	}
	return true
}

// actCrashLoop: a node that already persisted something crashes, restarts from its crash DB, does a little local work
// (the persistence loop may or may not complete the re-persisted state), crashes again and restarts — the double crash
// within a round that used to lose the crash state (fix 15ee9a30f7).
func (sc *engaSched) actCrashLoop() bool {
	var cand []int
	for i, n := range sc.s.nodes {
		if n.up && n.disk != nil {
			cand = append(cand, i)
		}
	}
	if len(cand) == 0 {
		return false
	}
	i := sc.pick(cand, "loopNode")
	n := sc.s.nodes[i]
	cycles := rapid.IntRange(2, 3).Draw(sc.t, "loopCycles")
	for c := 0; c < cycles; c++ {
		if !sc.s.crash(i) {
			return c > 0
		}
		sc.s.restart(i)
		for k := rapid.IntRange(0, 6).Draw(sc.t, "loopLocal"); k > 0 && n.localStep(); k-- {
		}
	}
	return true
}

func (sc *engaSched) actRestart() bool {
	var down []int
	for i, n := range sc.s.nodes {
		if !n.up {
			down = append(down, i)
		}
	}
	if len(down) == 0 {
		return false
	}
	sc.s.restart(sc.pick(down, "restartNode"))
	return true
}

func (sc *engaSched) actCatchup() bool {
	var cand []int
	for i, n := range sc.s.nodes {
		if _, ok := sc.s.commits[n.ledger.NextRound()]; ok {
			cand = append(cand, i)
		}
	}
	if len(cand) == 0 {
		return false
	}
	return sc.s.catchup(sc.pick(cand, "catchupNode"))
}

func (sc *engaSched) actByz() bool { return sc.byz.move(sc) }

// engaAttestWatch counts attest actions per node (used by the crash-after-attest bias and by labels).
type engaAttestWatch struct {
	attested [16]int
	total    int
}

func (w *engaAttestWatch) transition(n *engaNode, e externalEvent, before player, actions []action) {
	for _, a := range actions {
		if a.t() == attest {
			w.attested[n.id]++
			w.total++
		}
	}
}
func (w *engaAttestWatch) ensured(n *engaNode, en engaEnsure) {}
func (w *engaAttestWatch) restarted(n *engaNode, restored bool) {}
func (w *engaAttestWatch) crashed(n *engaNode)                {}

// ---------------------------------------------------------------------------------------------------------------
// labels

func engaBucket(n int, edges ...int) string {
	for i, e := range edges {
		if n <= e {
			if i == 0 {
				return fmt.Sprintf("<=%d", e)
			}
			return fmt.Sprintf("%d..%d", edges[i-1]+1, e)
		}
	}
	return fmt.Sprintf(">%d", edges[len(edges)-1])
}

// label records the label histogram of a finished case into vk.
func (s *engaSim) label(vk *vkCtx, prefix string) {
	st := s.stats
	vk.Labelf("%speriod_max=%d", prefix, min(int(st.maxPeriod), 4))
	stepName := map[step]string{soft: "soft", cert: "cert", next: "next"}
	if nm, ok := stepName[st.maxStep]; ok {
		vk.Labelf("%sstep_max=%s", prefix, nm)
	} else {
		vk.Labelf("%sstep_max=next+%s", prefix, engaBucket(int(st.maxStep-next), 1, 2, 4))
	}
	vk.Labelf("%scommits=%d", prefix, min(len(s.commits), 4))
	vk.Labelf("%sevents=%s", prefix, engaBucket(st.events, 50, 150, 300, 600))
	vk.Labelf("%scrashes=%s", prefix, engaBucket(st.crashes, 0, 1, 3))
	vk.Labelf("%spartitions=%s", prefix, engaBucket(st.partitions, 0, 1, 3))
	if st.crashAttestCommit > 0 {
		vk.Label(prefix + "crash_between_attest_and_commit")
	}
	if st.restoredStarts > 0 {
		vk.Label(prefix + "restart_from_disk")
	}
	if st.doubleCrashInRound > 0 {
		vk.Label(prefix + "double_crash_in_round")
	}
	if st.partitions > 0 && st.heals > 0 {
		vk.Label(prefix + "partition_then_heal")
	}
	if st.sawLate > 0 {
		vk.Label(prefix + "vote_late")
	}
	if st.sawRedo > 0 {
		vk.Label(prefix + "vote_redo")
	}
	if st.sawDown > 0 {
		vk.Label(prefix + "vote_down")
	}
	if st.fastTimeouts > 0 {
		vk.Label(prefix + "fast_timeout")
	}
	if st.stageDigest > 0 {
		vk.Label(prefix + "stage_digest")
	}
	if st.catchups > 0 {
		vk.Label(prefix + "catchup")
	}
	if st.interrupts > 0 {
		vk.Label(prefix + "round_interruption")
	}
	if st.pipelined > 0 {
		vk.Label(prefix + "pipelined_next_round_payload")
	}
	if st.equivSeen > 0 {
		vk.Label(prefix + "equivocation_counted")
	}
	if st.byzVotes > 0 {
		vk.Label(prefix + "byz_votes")
	}
	if st.byzBundles > 0 {
		vk.Label(prefix + "byz_bundle")
	}
	if st.byzCertSplit > 0 {
		vk.Label(prefix + "byz_cert_split_equivocation")
	}
	if st.netDup > 0 {
		vk.Label(prefix + "duplicates")
	}
	if st.holds > 0 {
		vk.Label(prefix + "class_delay")
	}
	if st.latePayloadMacro > 0 {
		vk.Label(prefix + "macro_late_payload")
	}
	if st.payloadAfterNextVote > 0 {
		vk.Label(prefix + "payload_arrived_after_next_vote")
	}

	if st.disconnects > 0 {
		vk.Label(prefix + "disconnect_action")
	}
	vk.Add(prefix+"events", int64(st.events))
	vk.Add(prefix+"ensure_actions", int64(len(s.ensures)))
	vk.Add(prefix+"crashes", int64(st.crashes))
	vk.Add(prefix+"double_crashes_in_round", int64(st.doubleCrashInRound))
	vk.Add(prefix+"restored_starts", int64(st.restoredStarts))
}

// fingerprint renders the case for distinctness: population + the sequence of commits and coarse counters.
func (s *engaSim) fingerprint() string {
	fp := s.cfg.String()
	for _, e := range s.ensures {
		fp += fmt.Sprintf("|%d:%d:%.8s", e.Node, e.Round, e.Digest.String())
	}
	st := s.stats
	fp += fmt.Sprintf("|ev%d|to%d|cr%d|pa%d|dr%d|by%d", st.events, st.timeouts, st.crashes, st.partitions, st.netDropped, st.byzVotes)
	return fp
}

// countEquivocations walks every live router and counts equivocation records held by honest vote trackers.
func (s *engaSim) countEquivocations() int {
	c := 0
	for _, n := range s.nodes {
		if !n.up {
			continue
		}
		c += engaRouterEquivocations(&n.router)
	}
	return c
}

func engaRouterEquivocations(rr *rootRouter) int {
	c := 0
	for _, r := range rr.Children {
		for _, p := range r.Children {
			for _, st := range p.Children {
				c += len(st.VoteTracker.Equivocators)
			}
		}
	}
	return c
}
