package agreement

// C04 — Bundles and certificates are accepted only if they prove a quorum.
//
// Real keys, real sortition: small "worlds" (10-20 staked accounts + deliberately ineligible ones) on a test ledger.
// A case = an honest bundle assembled from a subset of the valid voters of one (round, period, step, value) — the
// subset weight is placed around the step threshold — to which 0, 1 or 2 mutations are applied. The expected verdict
// is known by construction: accept <=> no invalidating mutation was applied and the subset weight reaches the
// threshold. Both directions are checked, through unauthenticatedBundle.verify and Certificate.Authenticate.

import (
	"context"
	"fmt"
	"reflect"
	"sort"
	"strings"
	"sync"
	"testing"

	"pgregory.net/rapid"

	"github.com/algorand/go-algorand/config"
	"github.com/algorand/go-algorand/crypto"
	"github.com/algorand/go-algorand/data/basics"
	"github.com/algorand/go-algorand/data/bookkeeping"
	"github.com/algorand/go-algorand/data/committee"
	"github.com/algorand/go-algorand/protocol"
)

// ---------------------------------------------------------------------------------------------------------------
// worlds

type c04Acct struct {
	addr basics.Address
	vrf  *crypto.VRFSecrets
	ots  crypto.OneTimeSigner
	kind string // online | offline | zero | dust | expired | future
}

type c04CredInfo struct {
	cred   committee.UnauthenticatedCredential
	weight uint64 // weight of a correctly signed vote of this account in this (r,p,s); 0 = not a valid voter
	// probeOK: the single-vote path accepted a correctly signed vote of this account (must be false for accounts that
	// are ineligible by construction)
	probeOK bool
}

type c04World struct {
	name  string
	ver   protocol.ConsensusVersion
	l     Ledger
	accts []c04Acct
	next  basics.Round
	cache map[[3]uint64][]c04CredInfo
}

func c04MakeWorld(name string, seed byte, ver protocol.ConsensusVersion, stakes []uint64, kinds []string, nblocks int) *c04World {
	rng := crypto.MakePRNG([]byte{0xC0, 0x04, seed})
	w := &c04World{name: name, ver: ver, cache: map[[3]uint64][]c04CredInfo{}}
	state := map[basics.Address]basics.AccountData{}
	for i, stake := range stakes {
		var s crypto.Seed
		rng.RandBytes(s[:])
		addr := basics.Address(crypto.GenerateSignatureSecrets(s).SignatureVerifier)
		var vs [32]byte
		rng.RandBytes(vs[:])
		vrf := new(crypto.VRFSecrets)
		vrf.PK, vrf.SK = crypto.VrfKeygenFromSeed(vs)
		ots := crypto.GenerateOneTimeSignatureSecretsRNG(0, 2, rng)
		ad := basics.AccountData{Status: basics.Online, MicroAlgos: basics.MicroAlgos{Raw: stake}, SelectionID: vrf.PK, VoteID: ots.OneTimeSignatureVerifier}
		switch kinds[i] {
		case "offline":
			ad.Status = basics.Offline
		case "expired":
			ad.VoteLastValid = 2
		case "future":
			ad.VoteFirstValid = 5
		}
		state[addr] = ad
		w.accts = append(w.accts, c04Acct{addr: addr, vrf: vrf, ots: crypto.OneTimeSigner{OneTimeSignatureSecrets: ots}, kind: kinds[i]})
	}
	w.l = makeTestLedgerWithConsensusVersion(state, func(basics.Round) (protocol.ConsensusVersion, error) { return ver, nil })
	for r := 1; r <= nblocks; r++ {
		b := bookkeeping.Block{BlockHeader: bookkeeping.BlockHeader{Round: basics.Round(r)}}
		rng.RandBytes(b.BlockHeader.Seed[:])
		w.l.EnsureBlock(b, Certificate{})
	}
	w.next = w.l.NextRound()
	return w
}

func c04Kinds(n int, special ...string) []string {
	k := make([]string, 0, n+len(special))
	for i := 0; i < n; i++ {
		k = append(k, "online")
	}
	return append(k, special...)
}

var c04WorldsOnce sync.Once
var c04WorldList []*c04World

func c04Worlds() []*c04World {
	c04WorldsOnce.Do(func() {
		// W0: 12 similar stakes + every kind of ineligible account
		st := []uint64{}
		for i := 0; i < 12; i++ {
			st = append(st, 4_000_000+uint64(i)*450_000)
		}
		st = append(st, 5_000_000, 0, 1, 6_000_000, 6_000_000)
		c04WorldList = append(c04WorldList, c04MakeWorld("W0", 0, protocol.ConsensusCurrentVersion, st, c04Kinds(12, "offline", "zero", "dust", "expired", "future"), 6))
		// W1: 18 accounts, heavy tail (one whale ~ 35 %)
		st = []uint64{60_000_000}
		for i := 0; i < 17; i++ {
			st = append(st, 2_000_000+uint64(i*i)*90_000)
		}
		st = append(st, 3_000_000, 0, 2, 9_000_000, 9_000_000)
		c04WorldList = append(c04WorldList, c04MakeWorld("W1", 1, protocol.ConsensusCurrentVersion, st, c04Kinds(18, "offline", "zero", "dust", "expired", "future"), 6))
		// W2: 10 equal stakes under the first protocol version (other thresholds, legacy credential hashing)
		st = []uint64{}
		for i := 0; i < 10; i++ {
			st = append(st, 10_000_000)
		}
		st = append(st, 10_000_000, 0, 10_000_000, 10_000_000)
		c04WorldList = append(c04WorldList, c04MakeWorld("W2", 2, protocol.ConsensusV7, st, c04Kinds(10, "offline", "zero", "expired", "future"), 5))
	})
	return c04WorldList
}

func (w *c04World) sign(i int, rv rawVote) crypto.OneTimeSignature {
	proto := config.Consensus[w.ver]
	id := basics.OneTimeIDForRound(rv.Round, w.accts[i].ots.KeyDilution(proto.DefaultKeyDilution))
	return w.accts[i].ots.Sign(id, rv)
}

// eligible: by construction of the world, may account i cast a valid vote in round r at all? (offline, no stake, voting
// keys expired after round 2, voting keys valid from round 5 on). Dust accounts are eligible but practically never
// selected.
func (w *c04World) eligible(i int, r basics.Round) bool {
	switch w.accts[i].kind {
	case "offline", "zero":
		return false
	case "expired":
		return r <= 2
	case "future":
		return r >= 5
	}
	return true
}

var c04ProbeValue = proposalValue{BlockDigest: crypto.Digest{0xC0, 0x04}}

// creds computes (and caches: it is a pure function of the world) every account's credential for (r,p,s) and the
// weight a correctly signed vote of that account has there, as judged by the single-vote path.
func (w *c04World) creds(r basics.Round, p period, s step) []c04CredInfo {
	k := [3]uint64{uint64(r), uint64(p), uint64(s)}
	if c, ok := w.cache[k]; ok {
		return c
	}
	res := make([]c04CredInfo, len(w.accts))
	for i, a := range w.accts {
		m, err := membership(w.l, a.addr, r, p, s)
		if err != nil {
			panic(err)
		}
		res[i].cred = committee.MakeCredential(&a.vrf.SK, m.Selector)
		rv := rawVote{Sender: a.addr, Round: r, Period: p, Step: s, Proposal: c04ProbeValue}
		uv := unauthenticatedVote{R: rv, Cred: res[i].cred, Sig: w.sign(i, rv)}
		if v, err := uv.verify(w.l); err == nil {
			res[i].probeOK = true
			if w.eligible(i, r) {
				res[i].weight = v.Cred.Weight
			}
		}
	}
	w.cache[k] = res
	return res
}

// c04Threshold re-derives the threshold of a step from the consensus parameters.
func c04Threshold(p config.ConsensusParams, s step) uint64 {
	switch s {
	case 1:
		return p.SoftCommitteeThreshold
	case 2:
		return p.CertCommitteeThreshold
	case 253:
		return p.LateCommitteeThreshold
	case 254:
		return p.RedoCommitteeThreshold
	case 255:
		return p.DownCommitteeThreshold
	}
	return p.NextCommitteeThreshold
}

// ---------------------------------------------------------------------------------------------------------------
// case construction

type c04Case struct {
	t     *rapid.T
	w     *c04World
	r     basics.Round
	p     period
	s     step
	val   proposalValue
	alt   [2]proposalValue // other values, for equivocation pairs
	creds []c04CredInfo
	ub    unauthenticatedBundle
	desc  []string
	// bookkeeping for the expected verdict
	invalid []string
	sum     uint64
}

func c04RandValue(t *rapid.T, label string, p period) proposalValue {
	var v proposalValue
	b := rapid.SliceOfN(rapid.Byte(), 8, 8).Draw(t, label)
	copy(v.BlockDigest[:], b)
	v.BlockDigest[31] = 1 // never the zero digest
	copy(v.EncodingDigest[:], b[4:])
	copy(v.OriginalProposer[:], b[2:])
	if p > 0 {
		v.OriginalPeriod = period(b[0]) % (p + 1)
	}
	return v
}

func (c *c04Case) signedVote(i int, val proposalValue) voteAuthenticator {
	rv := rawVote{Sender: c.w.accts[i].addr, Round: c.r, Period: c.p, Step: c.s, Proposal: val}
	return voteAuthenticator{Sender: rv.Sender, Cred: c.creds[i].cred, Sig: c.w.sign(i, rv)}
}

func (c *c04Case) signedPair(i int, v0, v1 proposalValue) equivocationVoteAuthenticator {
	a, b := c.signedVote(i, v0), c.signedVote(i, v1)
	return equivocationVoteAuthenticator{Sender: a.Sender, Cred: a.Cred, Sigs: [2]crypto.OneTimeSignature{a.Sig, b.Sig}, Proposals: [2]proposalValue{v0, v1}}
}

// c04SubsetSum finds a subset of idx (in the given order) whose weights sum to exactly target.
func c04SubsetSum(idx []int, weight func(int) uint64, target uint64) ([]int, bool) {
	from := make([]int, target+1) // from[s] = position in idx of the last element used to reach s (+1), 0 = unreached
	prev := make([]uint64, target+1)
	reach := make([]bool, target+1)
	reach[0] = true
	for pos, i := range idx {
		wt := weight(i)
		if wt == 0 || wt > target {
			continue
		}
		for s := target; s >= wt; s-- {
			if !reach[s] && reach[s-wt] && (s-wt == 0 || from[s-wt] != pos+1) {
				reach[s], from[s], prev[s] = true, pos+1, s-wt
			}
			if s == wt {
				break
			}
		}
	}
	if !reach[target] {
		return nil, false
	}
	var res []int
	for s := target; s > 0; s = prev[s] {
		res = append(res, idx[from[s]-1])
	}
	return res, true
}

func c04FlipBit(t *rapid.T, b []byte, label string) string {
	bit := rapid.IntRange(0, len(b)*8-1).Draw(t, label)
	b[bit/8] ^= 1 << uint(bit%8)
	return fmt.Sprintf("bit%d", bit)
}

// the mutation catalogue. Each returns "" when not applicable to the current bundle.
type c04Mut struct {
	name       string
	invalidate bool
	apply      func(c *c04Case) string
}

func (c *c04Case) pickVote(label string) int {
	if len(c.ub.Votes) == 0 {
		return -1
	}
	return rapid.IntRange(0, len(c.ub.Votes)-1).Draw(c.t, label)
}

func (c *c04Case) pickPair(label string) int {
	if len(c.ub.EquivocationVotes) == 0 {
		return -1
	}
	return rapid.IntRange(0, len(c.ub.EquivocationVotes)-1).Draw(c.t, label)
}

func (c *c04Case) acctOf(a basics.Address) int {
	for i := range c.w.accts {
		if c.w.accts[i].addr == a {
			return i
		}
	}
	return -1
}

func (c *c04Case) otherStep() step {
	for {
		s := rapid.SampledFrom([]step{soft, cert, next, next + 1, next + 2, late, redo, down}).Draw(c.t, "otherStep")
		if s != c.s {
			return s
		}
	}
}

var c04Muts = []c04Mut{
	{"dup-vote", true, func(c *c04Case) string {
		i := c.pickVote("i")
		if i < 0 {
			return ""
		}
		c.ub.Votes = append(c.ub.Votes, c.ub.Votes[i])
		return fmt.Sprint(i)
	}},
	{"dup-pair", true, func(c *c04Case) string {
		i := c.pickPair("i")
		if i < 0 {
			return ""
		}
		c.ub.EquivocationVotes = append(c.ub.EquivocationVotes, c.ub.EquivocationVotes[i])
		return fmt.Sprint(i)
	}},
	{"voter-also-in-pair", true, func(c *c04Case) string {
		i := c.pickVote("i")
		if i < 0 {
			return ""
		}
		a := c.acctOf(c.ub.Votes[i].Sender)
		if a < 0 {
			return ""
		}
		c.ub.EquivocationVotes = append(c.ub.EquivocationVotes, c.signedPair(a, c.alt[0], c.alt[1]))
		return fmt.Sprint(i)
	}},
	{"pair-identical-proposals", true, func(c *c04Case) string {
		// a voter moved into an "equivocation pair" whose two (validly signed) votes are for the same value
		if i := c.pickPair("i"); i >= 0 && rapid.Bool().Draw(c.t, "onPair") {
			if a := c.acctOf(c.ub.EquivocationVotes[i].Sender); a >= 0 {
				v := c.ub.EquivocationVotes[i].Proposals[rapid.IntRange(0, 1).Draw(c.t, "which")]
				c.ub.EquivocationVotes[i] = c.signedPair(a, v, v)
				return fmt.Sprintf("pair%d", i)
			}
		}
		i := c.pickVote("i")
		if i < 0 {
			return ""
		}
		a := c.acctOf(c.ub.Votes[i].Sender)
		if a < 0 {
			return ""
		}
		c.ub.Votes = append(c.ub.Votes[:i:i], c.ub.Votes[i+1:]...)
		c.ub.EquivocationVotes = append(c.ub.EquivocationVotes, c.signedPair(a, c.val, c.val))
		return fmt.Sprintf("vote%d", i)
	}},
	{"swap-sigs", true, func(c *c04Case) string {
		if len(c.ub.Votes) < 2 {
			return ""
		}
		i := c.pickVote("i")
		j := (i + 1 + rapid.IntRange(0, len(c.ub.Votes)-2).Draw(c.t, "j")) % len(c.ub.Votes)
		if c.ub.Votes[i].Sender == c.ub.Votes[j].Sender {
			return ""
		}
		c.ub.Votes[i].Sig, c.ub.Votes[j].Sig = c.ub.Votes[j].Sig, c.ub.Votes[i].Sig
		return fmt.Sprintf("%d,%d", i, j)
	}},
	{"swap-creds", true, func(c *c04Case) string {
		if len(c.ub.Votes) < 2 {
			return ""
		}
		i := c.pickVote("i")
		j := (i + 1 + rapid.IntRange(0, len(c.ub.Votes)-2).Draw(c.t, "j")) % len(c.ub.Votes)
		if c.ub.Votes[i].Sender == c.ub.Votes[j].Sender {
			return ""
		}
		c.ub.Votes[i].Cred, c.ub.Votes[j].Cred = c.ub.Votes[j].Cred, c.ub.Votes[i].Cred
		return fmt.Sprintf("%d,%d", i, j)
	}},
	{"pair-sigs-crossed", true, func(c *c04Case) string {
		i := c.pickPair("i")
		if i < 0 || c.ub.EquivocationVotes[i].Proposals[0] == c.ub.EquivocationVotes[i].Proposals[1] {
			return ""
		}
		e := &c.ub.EquivocationVotes[i]
		e.Sigs[0], e.Sigs[1] = e.Sigs[1], e.Sigs[0]
		return fmt.Sprint(i)
	}},
	{"flip-sig-bit", true, func(c *c04Case) string {
		var sig *crypto.OneTimeSignature
		var where string
		if i := c.pickPair("pi"); i >= 0 && rapid.Bool().Draw(c.t, "onPair") {
			k := rapid.IntRange(0, 1).Draw(c.t, "member")
			sig, where = &c.ub.EquivocationVotes[i].Sigs[k], fmt.Sprintf("pair%d.%d", i, k)
		} else if i := c.pickVote("i"); i >= 0 {
			sig, where = &c.ub.Votes[i].Sig, fmt.Sprintf("vote%d", i)
		} else {
			return ""
		}
		// every field the verifier binds (PKSigOld is a deprecated, unverified field and is left alone)
		switch f := rapid.IntRange(0, 4).Draw(c.t, "field"); f {
		case 0:
			return where + ".Sig." + c04FlipBit(c.t, sig.Sig[:], "bit")
		case 1:
			return where + ".PK." + c04FlipBit(c.t, sig.PK[:], "bit")
		case 2:
			return where + ".PK2." + c04FlipBit(c.t, sig.PK2[:], "bit")
		case 3:
			return where + ".PK1Sig." + c04FlipBit(c.t, sig.PK1Sig[:], "bit")
		default:
			return where + ".PK2Sig." + c04FlipBit(c.t, sig.PK2Sig[:], "bit")
		}
	}},
	{"flip-cred-bit", true, func(c *c04Case) string {
		if i := c.pickPair("pi"); i >= 0 && rapid.Bool().Draw(c.t, "onPair") {
			return fmt.Sprintf("pair%d.", i) + c04FlipBit(c.t, c.ub.EquivocationVotes[i].Cred.Proof[:], "bit")
		}
		i := c.pickVote("i")
		if i < 0 {
			return ""
		}
		return fmt.Sprintf("vote%d.", i) + c04FlipBit(c.t, c.ub.Votes[i].Cred.Proof[:], "bit")
	}},
	{"flip-sender-bit", true, func(c *c04Case) string {
		if i := c.pickPair("pi"); i >= 0 && rapid.Bool().Draw(c.t, "onPair") {
			return fmt.Sprintf("pair%d.", i) + c04FlipBit(c.t, c.ub.EquivocationVotes[i].Sender[:], "bit")
		}
		i := c.pickVote("i")
		if i < 0 {
			return ""
		}
		return fmt.Sprintf("vote%d.", i) + c04FlipBit(c.t, c.ub.Votes[i].Sender[:], "bit")
	}},
	{"foreign-cred", true, func(c *c04Case) string {
		// the same account's genuine credential, but for another step or period
		i := c.pickVote("i")
		if i < 0 {
			return ""
		}
		a := c.acctOf(c.ub.Votes[i].Sender)
		if a < 0 {
			return ""
		}
		if rapid.Bool().Draw(c.t, "otherPeriod") {
			c.ub.Votes[i].Cred = c.w.creds(c.r, c.p+1, c.s)[a].cred
			return fmt.Sprintf("vote%d<-period%d", i, c.p+1)
		}
		s := c.otherStep()
		c.ub.Votes[i].Cred = c.w.creds(c.r, c.p, s)[a].cred
		return fmt.Sprintf("vote%d<-step%d", i, s)
	}},
	{"hdr-round", true, func(c *c04Case) string {
		if len(c.ub.Votes)+len(c.ub.EquivocationVotes) == 0 {
			return ""
		}
		for {
			r := basics.Round(rapid.IntRange(1, int(c.w.next)+1).Draw(c.t, "round"))
			if r != c.r {
				c.ub.Round = r
				return fmt.Sprint(r)
			}
		}
	}},
	{"hdr-period", true, func(c *c04Case) string {
		if len(c.ub.Votes)+len(c.ub.EquivocationVotes) == 0 {
			return ""
		}
		c.ub.Period = c.p + period(rapid.IntRange(1, 3).Draw(c.t, "dp"))
		if c.p > 0 && rapid.Bool().Draw(c.t, "down") {
			c.ub.Period = c.p - 1
		}
		return fmt.Sprint(c.ub.Period)
	}},
	{"hdr-step", true, func(c *c04Case) string {
		if len(c.ub.Votes)+len(c.ub.EquivocationVotes) == 0 {
			return ""
		}
		c.ub.Step = c.otherStep()
		return fmt.Sprint(c.ub.Step)
	}},
	{"hdr-step-propose", true, func(c *c04Case) string {
		c.ub.Step = propose
		return "0"
	}},
	{"hdr-proposal", true, func(c *c04Case) string {
		if len(c.ub.Votes) == 0 {
			return "" // pairs alone do not bind the bundle's proposal
		}
		switch rapid.IntRange(0, 5).Draw(c.t, "how") {
		case 0:
			return "BlockDigest." + c04FlipBit(c.t, c.ub.Proposal.BlockDigest[:], "bit")
		case 1:
			return "EncodingDigest." + c04FlipBit(c.t, c.ub.Proposal.EncodingDigest[:], "bit")
		case 2:
			return "OriginalProposer." + c04FlipBit(c.t, c.ub.Proposal.OriginalProposer[:], "bit")
		case 3:
			c.ub.Proposal.OriginalPeriod++
			return "OriginalPeriod+1"
		case 4:
			if c.ub.Proposal == bottom {
				c.ub.Proposal = c.alt[0]
				return "bottom->value"
			}
			c.ub.Proposal = bottom
			return "->bottom"
		default:
			c.ub.Proposal = c.alt[1]
			return "->other value"
		}
	}},
	{"add-ineligible-voter", true, func(c *c04Case) string {
		// a correctly signed vote, with a genuine VRF proof, from an account that is offline / has no stake / was not
		// selected / whose voting keys are not valid in this round
		cand := map[string][]int{}
		used := map[basics.Address]bool{}
		for _, v := range c.ub.Votes {
			used[v.Sender] = true
		}
		for _, v := range c.ub.EquivocationVotes {
			used[v.Sender] = true
		}
		for i := range c.w.accts {
			if c.creds[i].weight == 0 && !used[c.w.accts[i].addr] {
				cand[c.w.accts[i].kind] = append(cand[c.w.accts[i].kind], i)
			}
		}
		if len(cand) == 0 {
			return ""
		}
		kinds := make([]string, 0, len(cand))
		for k := range cand {
			kinds = append(kinds, k)
		}
		sort.Strings(kinds)
		kind := kinds[rapid.IntRange(0, len(kinds)-1).Draw(c.t, "kind")]
		a := cand[kind][rapid.IntRange(0, len(cand[kind])-1).Draw(c.t, "acct")]
		if rapid.Bool().Draw(c.t, "asPair") {
			c.ub.EquivocationVotes = append(c.ub.EquivocationVotes, c.signedPair(a, c.alt[0], c.alt[1]))
		} else {
			c.ub.Votes = append(c.ub.Votes, c.signedVote(a, c.val))
		}
		return c.w.accts[a].kind
	}},
	// ---- neutral mutations: the bundle stays exactly as valid as it was
	{"swap-order", false, func(c *c04Case) string {
		if len(c.ub.Votes) < 2 {
			return ""
		}
		i := c.pickVote("i")
		j := c.pickVote("j")
		c.ub.Votes[i], c.ub.Votes[j] = c.ub.Votes[j], c.ub.Votes[i]
		return fmt.Sprintf("%d,%d", i, j)
	}},
	{"pair-members-flipped", false, func(c *c04Case) string {
		i := c.pickPair("i")
		if i < 0 {
			return ""
		}
		e := &c.ub.EquivocationVotes[i]
		e.Sigs[0], e.Sigs[1] = e.Sigs[1], e.Sigs[0]
		e.Proposals[0], e.Proposals[1] = e.Proposals[1], e.Proposals[0]
		return fmt.Sprint(i)
	}},
	{"move-pairs-first", false, func(c *c04Case) string {
		if len(c.ub.EquivocationVotes) < 2 {
			return ""
		}
		e := c.ub.EquivocationVotes
		e[0], e[len(e)-1] = e[len(e)-1], e[0]
		return "ends"
	}},
}

// c04MutPick: index list used to choose a mutation kind; the ineligible-voter class has five sub-kinds and is listed
// four times.
var c04MutPick = func() []int {
	var l []int
	for i, m := range c04Muts {
		l = append(l, i)
		if m.name == "add-ineligible-voter" {
			l = append(l, i, i, i)
		}
	}
	return l
}()

type c04Result struct {
	nontrivial bool
	fp         string
}

// c04RunCase draws and evaluates one case. It returns an error text for a violation.
func c04RunCase(t *rapid.T, vk *vkCtx, avv *AsyncVoteVerifier) (res c04Result, violation string) {
	worlds := c04Worlds()
	w := worlds[rapid.IntRange(0, len(worlds)-1).Draw(t, "world")]
	c := &c04Case{t: t, w: w}
	c.r = basics.Round(rapid.IntRange(1, int(w.next)+1).Draw(t, "round"))
	c.p = period(rapid.IntRange(0, 3).Draw(t, "period"))
	c.s = rapid.SampledFrom([]step{soft, cert, cert, cert, next, next + 1, next + 3, late, redo, down}).Draw(t, "step")
	proto := config.Consensus[w.ver]
	T := c04Threshold(proto, c.s)
	c.creds = w.creds(c.r, c.p, c.s)

	for i := range w.accts {
		if c.creds[i].probeOK && !w.eligible(i, c.r) {
			return res, fmt.Sprintf("a correctly signed vote of an ineligible account (%s) was verified: world %s round %d period %d step %d", w.accts[i].kind, w.name, c.r, c.p, c.s)
		}
	}

	// value: for cert, the digest of a real block of that round; bottom sometimes (legal from the first next step on;
	// for soft/cert it is the "bottom in a cert" class and invalidates the bundle although every vote is well signed)
	var block bookkeeping.Block
	c.val = c04RandValue(t, "val", c.p)
	if c.s == cert {
		block = bookkeeping.Block{BlockHeader: bookkeeping.BlockHeader{Round: c.r}}
		copy(block.BlockHeader.Branch[:], rapid.SliceOfN(rapid.Byte(), 4, 4).Draw(t, "branch"))
		c.val.BlockDigest = block.Digest()
	}
	c.alt[0], c.alt[1] = c04RandValue(t, "alt0", c.p), c04RandValue(t, "alt1", c.p)
	c.alt[1].BlockDigest[30] ^= 0x80 // alt0 != alt1 whatever was drawn
	c.alt[0].BlockDigest[29] ^= 0x40
	if bk := rapid.IntRange(0, 9).Draw(t, "bottom"); bk == 0 || (bk <= 3 && c.s >= next) {
		c.val = bottom
		if c.s <= cert {
			c.invalid = append(c.invalid, "bottom-value-in-soft/cert")
		}
	}

	// the valid voters and the subset
	var elig []int
	total, maxW := uint64(0), uint64(0)
	for i := range w.accts {
		if c.creds[i].weight > 0 {
			elig = append(elig, i)
			total += c.creds[i].weight
		}
	}
	perm := rapid.Permutation(elig).Draw(t, "perm")
	wt := func(i int) uint64 { return c.creds[i].weight }
	minimal := func() []int {
		s := uint64(0)
		for k, i := range perm {
			s += wt(i)
			if s >= T {
				return perm[:k+1]
			}
		}
		return perm
	}
	var chosen []int
	mode := rapid.SampledFrom([]string{"minimal", "minimal", "minimal-drop-last", "minimal-drop-any", "minimal-plus", "all", "random", "exact", "exact", "exact"}).Draw(t, "mode")
	switch mode {
	case "minimal":
		chosen = minimal()
	case "minimal-drop-last":
		chosen = minimal()
		if len(chosen) > 0 {
			chosen = chosen[:len(chosen)-1]
		}
	case "minimal-drop-any":
		chosen = append([]int{}, minimal()...)
		if len(chosen) > 0 {
			k := rapid.IntRange(0, len(chosen)-1).Draw(t, "drop")
			chosen = append(chosen[:k], chosen[k+1:]...)
		}
	case "minimal-plus":
		m := minimal()
		extra := 0
		if len(perm) > len(m) {
			extra = rapid.IntRange(1, len(perm)-len(m)).Draw(t, "extra")
		}
		chosen = perm[:len(m)+extra]
	case "all":
		chosen = perm
	case "random":
		n := rapid.IntRange(0, len(perm)).Draw(t, "n")
		chosen = perm[:n]
	case "exact":
		d := rapid.IntRange(-1, 1).Draw(t, "d")
		mode = fmt.Sprintf("exact%+d", d)
		if sub, ok := c04SubsetSum(perm, wt, uint64(int64(T)+int64(d))); ok {
			chosen = sub
		} else {
			mode += "-none"
			chosen = minimal()
		}
	}
	c.ub = unauthenticatedBundle{Round: c.r, Period: c.p, Step: c.s, Proposal: c.val}
	npairs := 0
	minW := ^uint64(0)
	var parts []string
	for _, i := range chosen {
		c.sum += wt(i)
		if wt(i) > maxW {
			maxW = wt(i)
		}
		if wt(i) < minW {
			minW = wt(i)
		}
		// keep at least the first one a plain vote; turn ~1/5 of the others into genuine equivocation pairs
		if len(c.ub.Votes) > 0 && rapid.IntRange(0, 4).Draw(t, "asPair") == 0 {
			v0, v1 := c.alt[0], c.alt[1]
			switch rapid.IntRange(0, 2).Draw(t, "pairVals") {
			case 0:
				v0 = c.val
			case 1:
				v1 = c.val
			}
			if c.s <= cert && (v0 == bottom || v1 == bottom) {
				v0, v1 = c.alt[0], c.alt[1] // a bottom member would be one more (separately counted) fault
			}
			c.ub.EquivocationVotes = append(c.ub.EquivocationVotes, c.signedPair(i, v0, v1))
			npairs++
			parts = append(parts, fmt.Sprintf("%d:%d*", i, wt(i)))
		} else {
			c.ub.Votes = append(c.ub.Votes, c.signedVote(i, c.val))
			parts = append(parts, fmt.Sprintf("%d:%d", i, wt(i)))
		}
	}
	maxUnused := uint64(0)
	inSel := map[int]bool{}
	for _, i := range chosen {
		inSel[i] = true
	}
	for _, i := range elig {
		if !inSel[i] && wt(i) > maxUnused {
			maxUnused = wt(i)
		}
	}

	// mutations
	nm := []int{0, 0, 0, 1, 1, 1, 1, 1, 2, 2}[rapid.IntRange(0, 9).Draw(t, "nmut")]
	usedKinds := map[string]bool{}
	var muts []string
	for k := 0; k < nm; k++ {
		m := c04Muts[c04MutPick[rapid.IntRange(0, len(c04MutPick)-1).Draw(t, "mut")]]
		if usedKinds[m.name] {
			continue
		}
		how := m.apply(c)
		if how == "" {
			continue
		}
		usedKinds[m.name] = true
		muts = append(muts, m.name+"("+how+")")
		if m.invalidate {
			c.invalid = append(c.invalid, m.name)
		}
	}

	wantAccept := len(c.invalid) == 0 && c.sum >= T
	near := (c.sum >= T && len(chosen) > 0 && c.sum-minW < T) || (c.sum < T && c.sum+maxUnused >= T)
	res.nontrivial = near || len(muts) > 0 || len(c.invalid) > 0
	res.fp = fmt.Sprintf("%s r%d p%d s%d T=%d val=%x.. [%s] sum=%d pool=%d mode=%s muts=%v invalid=%v", w.name, c.r, c.p, c.s, T, c.val.BlockDigest[:3], strings.Join(parts, " "), c.sum, total, mode, muts, c.invalid)

	// ---- labels
	vk.Label("world=" + w.name)
	vk.Labelf("step=%d", c.s)
	vk.Label("mode=" + mode)
	vk.Labelf("mutations=%d", len(muts))
	for _, m := range muts {
		vk.Label("mut:" + m[:strings.Index(m, "(")])
		if strings.HasPrefix(m, "add-ineligible-voter") {
			vk.Label("ineligible:" + m[strings.Index(m, "(")+1:len(m)-1])
		}
	}
	if c.val == bottom {
		vk.Label("value=bottom")
	}
	if npairs > 0 {
		vk.Label("has-equivocation-pairs")
	}
	if total < T {
		vk.Label("pool-below-threshold")
	}
	switch {
	case wantAccept && c.sum == T:
		vk.Label("expect-accept:sum==T")
	case wantAccept && near:
		vk.Label("expect-accept:minimal-quorum")
	case wantAccept:
		vk.Label("expect-accept:comfortable")
	case len(c.invalid) == 0 && c.sum+1 == T:
		vk.Label("expect-reject:sum==T-1")
	case len(c.invalid) == 0 && near:
		vk.Label("expect-reject:one-vote-short")
	case len(c.invalid) == 0:
		vk.Label("expect-reject:far-below")
	case c.sum >= T:
		vk.Label("expect-reject:invalidated-quorum")
	default:
		vk.Label("expect-reject:invalidated-and-below")
	}

	// ---- the code under test
	ctx := context.Background()
	got, err := c.ub.verify(ctx, w.l, avv)
	avv.wg.Wait()
	if wantAccept && err != nil {
		return res, fmt.Sprintf("a bundle that proves a quorum was rejected: %v\n%s", err, res.fp)
	}
	if !wantAccept && err == nil {
		return res, fmt.Sprintf("a bundle that does not prove a quorum was accepted (weight %d, threshold %d, faults %v)\n%s", c.sum, T, c.invalid, res.fp)
	}
	if err == nil {
		// the authenticated bundle must be the submitted one, with the weights that were proven
		if !reflect.DeepEqual(got.U, c.ub) {
			return res, "verify returned a bundle whose unauthenticated part differs from the input\n" + res.fp
		}
		if len(got.Votes) != len(c.ub.Votes) || len(got.EquivocationVotes) != len(c.ub.EquivocationVotes) {
			return res, "verify returned a different number of votes\n" + res.fp
		}
		sum := uint64(0)
		for _, v := range got.Votes {
			sum += v.Cred.Weight
		}
		for _, v := range got.EquivocationVotes {
			sum += v.Cred.Weight
		}
		if sum != c.sum {
			return res, fmt.Sprintf("verify proved weight %d, expected %d\n%s", sum, c.sum, res.fp)
		}
	}

	// ---- certificates
	crt := Certificate(c.ub)
	if c.s != cert {
		// (the block is irrelevant: only cert-step bundles are certificates)
		blk := bookkeeping.Block{BlockHeader: bookkeeping.BlockHeader{Round: c.ub.Round}}
		if c.ub.Step != cert {
			if e := crt.Authenticate(blk, w.l, avv); e == nil {
				return res, "a non-cert bundle authenticated a block as a certificate\n" + res.fp
			}
			avv.wg.Wait()
		}
		return res, ""
	}
	wrongRound := block
	wrongRound.BlockHeader.Round = c.r + 1
	wrongDigest := block
	wrongDigest.BlockHeader.Branch[7] ^= 1
	for _, bc := range []struct {
		name string
		b    bookkeeping.Block
		ok   bool
	}{{"the block", block, true}, {"a block of another round", wrongRound, false}, {"another block of the round", wrongDigest, false}} {
		claims := crt.Round == bc.b.Round() && crt.Proposal.BlockDigest == bc.b.Digest()
		if e := crt.claimsToAuthenticate(bc.b); (e == nil) != claims {
			return res, fmt.Sprintf("claimsToAuthenticate(%s) = %v, expected claim=%v\n%s", bc.name, e, claims, res.fp)
		}
		want := wantAccept && bc.ok && crt.Step == cert && claims
		if !want && !bc.ok && !wantAccept {
			continue // doubly wrong: nothing new
		}
		e := crt.Authenticate(bc.b, w.l, avv)
		avv.wg.Wait()
		if want && e != nil {
			return res, fmt.Sprintf("a valid certificate failed to authenticate %s: %v\n%s", bc.name, e, res.fp)
		}
		if !want && e == nil {
			return res, fmt.Sprintf("certificate authenticated %s although it must not (quorum proven=%v)\n%s", bc.name, wantAccept, res.fp)
		}
	}
	// a certificate claiming another round must not claim this block (digest matches, round does not)
	other := crt
	other.Round = c.r + 1
	if other.claimsToAuthenticate(block) == nil {
		return res, "claimsToAuthenticate accepted a certificate of round r+1 for a block of round r\n" + res.fp
	}
	vk.Label("certificate-checked")
	return res, ""
}

func TestVerif_C04_Bundles(t *testing.T) {
	vk := vkBegin(t, "C04")
	vk.Rule("3 worlds of 10-18 staked accounts with real VRF / one-time keys (+ offline, zero-stake, dust, expired-key, not-yet-valid-key accounts) on a test ledger; per case: round, period, step (soft, cert, next.., late, redo, down), value (random / digest of a real block for cert / bottom); an honest bundle from a subset of the valid voters chosen around the threshold (minimal quorum, minimal minus one, subset-sum == T-1 / T / T+1, all, random), ~1/5 of the members as genuine equivocation pairs; then 0-2 mutations of different kinds from a catalogue of 17 invalidating and 3 neutral ones; expected verdict by construction (no invalidating fault and weight >= T); checked on unauthenticatedBundle.verify, Certificate.Authenticate (right block, block of another round, other block of the round) and claimsToAuthenticate; non-trivial = weight within one vote of T, or mutated; distinct by world,(r,p,s),members,mutations")
	vk.Assume("the weight of a single correctly signed vote is taken from unauthenticatedVote.verify on that vote alone (sortition itself is not re-derived); ed25519 / VRF forgeries by single bit flips are assumed impossible")
	avv := MakeAsyncVoteVerifier(nil)
	defer avv.Quit()
	rapid.Check(t, func(t *rapid.T) {
		res, violation := c04RunCase(t, vk, avv)
		if violation != "" {
			t.Fatalf("%s", violation)
		}
		vk.Case(res.nontrivial, res.fp)
		if vk.WantSample(res.nontrivial) {
			vk.Sample(res.nontrivial, res.fp)
		}
	})
}

// ---------------------------------------------------------------------------------------------------------------
// Size limit: a bundle may not hold more entries than the step threshold. Needs > T distinct valid voters, so this
// unit uses the upstream 7000-account fixture and the smallest committee (late, T = 320).

func TestVerif_C04_TooLarge(t *testing.T) {
	vk := vkBegin(t, "C04")
	vk.Rule("upstream 7000-account ledger, step late (threshold 320, the smallest): all accounts selected in (round 1, period p) vote; bundles with exactly T entries (accept: every entry weighs >= 1), T+1 entries (reject: too large although the weight suffices), with 0 or 5 of the entries as equivocation pairs, and T-1 entries of weight 1 when available (reject: weight); non-trivial = every case (all sit on the limit)")
	ledger, addrs, vrfs, ots := readOnlyFixture7000()
	proto := config.Consensus[protocol.ConsensusCurrentVersion]
	T := c04Threshold(proto, late)
	avv := MakeAsyncVoteVerifier(nil)
	defer avv.Quit()
	r := ledger.NextRound()
	type sel struct {
		i int
		w uint64
	}
	nper := vkN(1, 3)
	done := 0
	for p := period(vkShard() * 8); p < period(vkShard()*8+8) && done < nper; p++ {
		// find the selected accounts (parallel: 7000 VRF proofs)
		sels := make([]sel, 0, 600)
		var mu sync.Mutex
		var wg sync.WaitGroup
		const workers = 8
		for k := 0; k < workers; k++ {
			wg.Add(1)
			go func(k int) {
				defer wg.Done()
				for i := k; i < len(addrs); i += workers {
					m, err := membership(ledger, addrs[i], r, p, late)
					if err != nil {
						continue
					}
					cr, err := committee.MakeCredential(&vrfs[i].SK, m.Selector).Verify(proto, m)
					if err == nil && cr.Weight > 0 {
						mu.Lock()
						sels = append(sels, sel{i, cr.Weight})
						mu.Unlock()
					}
				}
			}(k)
		}
		wg.Wait()
		sort.Slice(sels, func(a, b int) bool { return sels[a].i < sels[b].i })
		if uint64(len(sels)) < T+1 {
			vk.Excluded("fewer than T+1 accounts selected in this period")
			continue
		}
		done++
		val := proposalValue{BlockDigest: crypto.Digest{0xC4, byte(p)}}
		alt := proposalValue{BlockDigest: crypto.Digest{0xC5, byte(p)}}
		sign := func(i int, v proposalValue) voteAuthenticator {
			rv := rawVote{Sender: addrs[i], Round: r, Period: p, Step: late, Proposal: v}
			uv, err := makeVote(rv, ots[i], vrfs[i], ledger)
			if err != nil {
				t.Fatalf("makeVote: %v", err)
			}
			return voteAuthenticator{Sender: rv.Sender, Cred: uv.Cred, Sig: uv.Sig}
		}
		build := func(members []sel, npairs int) (ub unauthenticatedBundle, weight uint64) {
			ub = unauthenticatedBundle{Round: r, Period: p, Step: late, Proposal: val}
			for k, m := range members {
				weight += m.w
				if k >= len(members)-npairs {
					a, b := sign(m.i, val), sign(m.i, alt)
					ub.EquivocationVotes = append(ub.EquivocationVotes, equivocationVoteAuthenticator{Sender: a.Sender, Cred: a.Cred, Sigs: [2]crypto.OneTimeSignature{a.Sig, b.Sig}, Proposals: [2]proposalValue{val, alt}})
				} else {
					ub.Votes = append(ub.Votes, sign(m.i, val))
				}
			}
			return
		}
		// weight-1 members first so that "T-1 entries" is below the threshold when enough of them exist
		ones := make([]sel, 0, len(sels))
		rest := make([]sel, 0, len(sels))
		for _, s := range sels {
			if s.w == 1 {
				ones = append(ones, s)
			} else {
				rest = append(rest, s)
			}
		}
		ordered := append(ones, rest...)
		type tc struct {
			name    string
			members []sel
			npairs  int
		}
		cases := []tc{
			{"exactly T entries", ordered[:T], 0},
			{"T+1 entries", ordered[:T+1], 0},
			{"exactly T entries, 5 pairs", ordered[:T], 5},
			{"T+1 entries, 5 pairs", ordered[:T+1], 5},
			{"T-1 entries", ordered[:T-1], 0},
		}
		for _, c := range cases {
			ub, weight := build(c.members, c.npairs)
			want := weight >= T && uint64(len(c.members)) <= T
			_, err := ub.verify(context.Background(), ledger, avv)
			avv.wg.Wait()
			fp := fmt.Sprintf("late r%d p%d %s: entries=%d weight=%d T=%d selected=%d", r, p, c.name, len(c.members), weight, T, len(sels))
			vk.Case(true, fp)
			vk.Label("toolarge:" + c.name)
			if want {
				vk.Label("expect-accept")
			} else {
				vk.Label("expect-reject")
			}
			vk.Sample(true, fp)
			if want && err != nil {
				vk.Failf(fp, "a bundle of %d <= T entries proving weight %d >= %d was rejected: %v", len(c.members), weight, T, err)
			}
			if !want && err == nil {
				vk.Failf(fp, "accepted a bundle with %d entries and weight %d (threshold %d): %s", len(c.members), weight, T, c.name)
			}
		}
	}
	if done == 0 {
		t.Skip("no period with more than T selected accounts")
	}
}
