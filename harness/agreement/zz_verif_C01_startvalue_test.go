package agreement

// C01 — scripted Byzantine schedule aimed at the starting-value rule of the soft vote (player.go:180-189).
//
// 3 honest nodes holding 2+2+1 accounts and one Byzantine account (6 equal accounts; every quorum needs 5 of them).
// Period 0: everybody soft- and cert-votes V; the cert votes reach only node 2, which commits V and is then unreachable.
// Nodes 0/1 time out and next-vote V (it is staged); the Byzantine account adds its next-vote for V, so nodes 0/1 see a
// next-threshold for V and enter period 1 with starting value V. The Byzantine account now proposes a NEW block B in
// period 1 (a legal proposal) and, where its credential is the lowest of period 1, nodes 0/1 freeze B. The protocol
// requires them to soft-vote the starting value V regardless. The adversary soft- and cert-votes B. If honest nodes
// soft-voted B they would, with the Byzantine vote, form quorums for B and commit a second block for round 1.
// The schedule is repeated over key seeds; it is "effective" when the Byzantine period-1 credential is the lowest.

import (
	"fmt"
	"testing"

	"github.com/algorand/go-algorand/crypto"
	"github.com/algorand/go-algorand/protocol"
)

type c01SVResult struct {
	KeySeed           uint64
	ReachedPeriod1    bool
	ByzLowest         bool
	HonestSoftVotesV  int
	HonestSoftVotesB  int
	Commits           []string
	Note              string
}

func c01StartingValueScenario(t *testing.T, keySeed uint64) (res c01SVResult) {
	res.KeySeed = keySeed
	cfg := engaConfig{Nodes: 3, Accts: []int{2, 2, 1}, Byz: 1, Stake: []uint64{1e6, 1e6, 1e6, 1e6, 1e6, 1e6}, KeySeed: keySeed}
	s := engaNewSimHook(t, cfg, func(s *engaSim) { s.traceOn = true; c01Attach(s) })
	adv := &engaAdversary{s: s}
	byz := s.byz[0]
	ent := func() uint64 { return 1 }
	run := func(max int, until func() bool) bool {
		for i := 0; i < max; i++ {
			if until() {
				return true
			}
			if !s.benignStep(ent()) {
				return until()
			}
		}
		return until()
	}
	inject := func(uv unauthenticatedVote) {
		adv.inject(byz, []int{0, 1}, protocol.AgreementVoteTag, protocol.Encode(&uv))
	}
	// phase 1: cert votes reach only node 2
	s.hold = func(m *engaMsg) bool { return m.cls == int(cert) && m.dst != 2 }
	if !run(3000, func() bool { return s.nodes[2].committed() >= 1 }) || s.nodes[0].committed() >= 1 || s.nodes[1].committed() >= 1 {
		res.Note = "phase 1 did not isolate the commit at node 2"
		return
	}
	V := s.commits[1].Cert.Proposal
	// phase 2: node 2 unreachable; period-0 cert votes stay lost; nodes 0/1 run into their next vote
	s.hold = func(m *engaMsg) bool {
		if m.src == 2 || m.dst == 2 {
			return true
		}
		uv, ok := engaVoteOf(m)
		return ok && uv.R.Step == cert && uv.R.Period == 0
	}
	if !run(2000, func() bool { return len(s.votesSeen[engaVoteKey{1, 0, next, V}]) >= 4 }) {
		res.Note = "nodes 0/1 did not next-vote V"
		return
	}
	if uv, ok := adv.makeVote(byz, engaStepKey{1, 0, next}, V); ok {
		inject(uv)
	} else {
		res.Note = "Byzantine account not in the next committee"
		return
	}
	if !run(2000, func() bool { return s.nodes[0].player.Period == 1 && s.nodes[1].player.Period == 1 }) {
		res.Note = "no next-threshold for V"
		return
	}
	res.ReachedPeriod1 = true
	// phase 3: Byzantine proposal B for period 1, delivered before the filter timeouts
	evs := engaMakeProposals(s.ref, engaStampFactory{stamp: 7}, []*engaIdentity{byz}, 1, 1)
	if len(evs) != 2 {
		res.Note = "Byzantine account is not a period-1 proposer"
		return
	}
	bv := evs[0].(messageEvent).Input.Vote
	bp := evs[1].(messageEvent).Input.UnauthenticatedProposal
	B := bp.value()
	tp := transmittedPayload{unauthenticatedProposal: bp, PriorVote: bv.u()}
	adv.inject(byz, []int{0, 1}, protocol.ProposalPayloadTag, protocol.Encode(&tp))
	// is B's credential the lowest among the period-1 proposal-votes the honest nodes will see?
	res.ByzLowest = true
	for _, id := range s.ids {
		if id.owner != 0 && id.owner != 1 {
			continue
		}
		for _, e := range engaMakeVotes(s.ref, []*engaIdentity{id}, 1, 1, propose, V) {
			if e.(messageEvent).Input.Vote.Cred.Less(bv.Cred) {
				res.ByzLowest = false
			}
		}
	}
	run(2000, func() bool { return s.nodes[0].player.Step > soft && s.nodes[1].player.Step > soft && !s.nodes[0].hasLocal() && !s.nodes[1].hasLocal() })
	byzAddr := byz.addr
	for k, uvs := range s.votesSeen {
		if k.r == 1 && k.p == 1 && k.s == soft {
			for _, uv := range uvs {
				if uv.R.Sender == byzAddr {
					continue
				}
				if k.v == V {
					res.HonestSoftVotesV++
				} else if k.v == B {
					res.HonestSoftVotesB++
				}
			}
		}
	}
	// the adversary pushes B
	for _, st := range []step{soft, cert} {
		if uv, ok := adv.makeVote(byz, engaStepKey{1, 1, st}, B); ok {
			inject(uv)
		}
	}
	run(1500, func() bool { return s.nodes[0].committed() >= 1 && s.nodes[1].committed() >= 1 })
	for _, e := range s.ensures {
		res.Commits = append(res.Commits, fmt.Sprintf("node%d r%d %.8s", e.Node, e.Round, e.Digest.String()))
	}
	_ = crypto.Digest{}
	return
}

func TestVerif_C01_StartingValue(t *testing.T) {
	vk := vkBegin(t, "C01")
	vk.Rule("scripted Byzantine schedule (period-1 proposal of a new block by the lowest-credential Byzantine proposer after a next-threshold for V that another node already committed), 24 populations; non-trivial = period 1 reached with the Byzantine credential lowest and honest period-1 soft votes observed")
	for ks := uint64(0); ks < 24; ks++ {
		res := c01StartingValueScenario(t, ks)
		nt := res.ReachedPeriod1 && res.ByzLowest && res.HonestSoftVotesV+res.HonestSoftVotesB > 0
		vk.Case(nt, fmt.Sprintf("startvalue/%d/%v/%v", ks, res.ByzLowest, res.Commits))
		vk.Sample(nt, res)
		switch {
		case nt:
			vk.Label("startvalue/effective")
		case res.ReachedPeriod1:
			vk.Label("startvalue/period1_but_byz_not_lowest")
		default:
			vk.Label("startvalue/not_applicable")
		}
		if res.HonestSoftVotesB > 0 {
			// not a C01 violation by itself (C01 is about commits; the fork, if it follows, is reported by c01Observer)
			vk.Label("startvalue/honest_softvoted_byzantine_value")
		}
	}
}
