package agreement

// C02 / Engine B — environment: real agreement.Service instances under a controlled clock, network, ledger gate,
// crash database and logger hook. Everything here is harness-side glue around the *real* Service (service.go,
// pseudonode.go, persistence.go, actions.go, demux.go are exercised unmodified).
//
// All identifiers are prefixed c02.

import (
	"context"
	"database/sql"
	"errors"
	"fmt"
	"io"
	"os"
	"sort"
	"strings"
	"sync"
	"sync/atomic"
	"testing"
	"time"

	"github.com/algorand/go-algorand/config"
	"github.com/algorand/go-algorand/data/account"
	"github.com/algorand/go-algorand/data/basics"
	"github.com/algorand/go-algorand/data/bookkeeping"
	"github.com/algorand/go-algorand/logging"
	"github.com/algorand/go-algorand/logging/logspec"
	"github.com/algorand/go-algorand/protocol"
	"github.com/algorand/go-algorand/util/db"
	"github.com/algorand/go-algorand/util/timers"
)

// ---------------------------------------------------------------------------------------------------------------
// accounts: generated once per process (one participation account per identity, equal stake)

const c02MaxAccounts = 7

var (
	c02AcctOnce sync.Once
	c02Accts    []account.Participation
	c02Bals     map[basics.Address]basics.AccountData
	c02CaseSeq  atomic.Int64
)

// c02Off: oracles switched off through VERIF_C02_DISABLE=o2a,o2b,o3,o4 (sensitivity experiments only: shows which
// oracle catches a planted defect; never set by the driver).
func c02Off(o string) bool {
	for _, x := range strings.Split(os.Getenv("VERIF_C02_DISABLE"), ",") {
		if x == o {
			return true
		}
	}
	return false
}

func c02Accounts(t *testing.T) ([]account.Participation, map[basics.Address]basics.AccountData) {
	c02AcctOnce.Do(func() {
		seed := [32]byte{0xc0, 0x02}
		c02Accts, c02Bals = createTestAccountsAndBalances(t, c02MaxAccounts, seed[:])
	})
	return c02Accts, c02Bals
}

// ---------------------------------------------------------------------------------------------------------------
// world

type c02VoteKey struct {
	Sender basics.Address
	Round  round
	Period period
	Step   step
}

type c02VoteRec struct {
	Value proposalValue
	Where string // first observation
}

type c02Msg struct {
	id   int
	tag  protocol.Tag
	data []byte
	from int
	to   int
	desc string
}

type c02World struct {
	mu sync.Mutex

	nodes    []*c02Node
	addrNode map[basics.Address]int // account -> running node index
	nAccts   int

	pool    []*c02Msg
	nextMsg int

	votes map[c02VoteKey]*c02VoteRec // oracle 1 table (all steps; propose step is reported, not asserted)

	hist []string
	viol []string

	log     logging.Logger
	caseTag string

	// statistics for labels
	st c02Stats

	settleLimit time.Duration
}

type c02Stats struct {
	ownAttestVotes    int
	proposeRevote     int // by-design: propose-step vote re-issued with a different value after a fresh restart
	persistHook       int
	crashes           map[string]int
	restarts          map[string]int
	doubleCrash       int
	maxPeriod         period
	maxRound          round
	votedAfterRestart int // crashes after an attest followed by a further own attest vote
	dReads            int
	dReadFail         int
	stuckSettles      int
	holdNewVoteChecks int
	promisesChecked   int
	delivered         int
	dropped           int
	persistFailed     int // persist() returned an error (injected crash-DB write failure)
	votesDropped      int // "votes dropped due to disk persistence failure" observed
	o5Checked         int
	o5Unmatched       int
	slowVotes         int
}

func (w *c02World) logf(format string, args ...interface{}) {
	w.mu.Lock()
	w.hist = append(w.hist, fmt.Sprintf("%04d ", len(w.hist))+fmt.Sprintf(format, args...))
	w.mu.Unlock()
}

func (w *c02World) violatef(format string, args ...interface{}) {
	s := fmt.Sprintf(format, args...)
	w.mu.Lock()
	w.viol = append(w.viol, s)
	w.hist = append(w.hist, fmt.Sprintf("%04d ", len(w.hist))+"VIOLATION "+s)
	w.mu.Unlock()
}

func (w *c02World) violations() []string {
	w.mu.Lock()
	defer w.mu.Unlock()
	return append([]string(nil), w.viol...)
}

func (w *c02World) history() string {
	w.mu.Lock()
	defer w.mu.Unlock()
	return strings.Join(w.hist, "\n")
}

// ---------------------------------------------------------------------------------------------------------------
// node and incarnation

type c02DPos struct {
	readable bool // false: the read failed (locked, ...) - no information
	present  bool // a row exists and decodes
	decodeOK bool
	Round    round
	Period   period
	Step     step
	Attests  []pseudonodeAction
	nActions int
}

func (d c02DPos) String() string {
	if !d.readable {
		return "D=?"
	}
	if !d.present {
		return "D=none"
	}
	if !d.decodeOK {
		return "D=undecodable"
	}
	s := fmt.Sprintf("D=(r%d p%d s%d;%d actions", d.Round, d.Period, d.Step, d.nActions)
	for _, a := range d.Attests {
		s += fmt.Sprintf(" attest(r%d p%d s%d %s)", a.Round, a.Period, a.Step, c02Val(a.Proposal))
	}
	return s + ")"
}

func c02Val(v proposalValue) string {
	if v == bottom {
		return "bot"
	}
	return fmt.Sprintf("%.6s/%d", v.BlockDigest.String(), v.OriginalPeriod)
}

type c02Node struct {
	w        *c02World
	idx      int
	addrs    []basics.Address // participation accounts held by this node (1, sometimes 2)
	ledger   *c02Ledger
	accessor db.Accessor
	keys     KeyManager

	inc      *c02Inc // current incarnation (nil before first start)
	incCount int

	// protected by w.mu
	lastD        c02DPos // last readable crash-DB position (monotonicity oracle)
	lastDWhere   string
	seenOwn      map[c02VoteKey]bool // own attest votes that have left this node's endpoint (any incarnation)
	holdActive   bool                // a Wait-hold or disk-hold established at true quiescence is active
	holdKind     string
	armVote      string // "", "deliver", "lose": crash at the first new own attest vote
	armPersist   bool   // crash right after the next completed persist, before the checkpoint is delivered
	slowVotes    bool   // delay the next vote task of this node until its persist has returned (fault macro)
	failLeft     int    // crash-DB write failures still to inject (trigger installed while > 0)
	attestSeen   bool   // an attest has been produced by the current or a previous incarnation (vote seen or persist observed)
	crashedAfter bool   // a crash happened after an attest was produced (reset when the node votes again)

	disk *c02DiskHold
}

type c02CutReq struct {
	inc     *c02Inc
	kind    string // "vote" or "persist"
	release chan struct{}
	desc    string
}

type c02Inc struct {
	node *c02Node
	id   int
	svc  *Service
	mon  *coserviceMonitor
	clk  *c02Clock
	ep   *c02Endpoint

	// activity snapshot (updated by the coservice listener)
	amu     sync.Mutex
	counts  [6]uint
	sum     uint
	changes uint64

	cut  atomic.Bool // output of this incarnation is no longer put on the wire (it is being crashed)
	dead atomic.Bool

	// protected by w.mu
	promises     []pseudonodeAction // attests found in the crash DB at restart time (restored state)
	promiseState string             // "", "pending", "checked", "void"
	persists     int                // completed persists observed through the logger hook
	newOwnVotes  int
	cutReq       *c02CutReq
	diskHeld     bool // a disk hold was active at some time during this incarnation

	// attest/persist bookkeeping (oracle 5). The k-th attest action executed by the incarnation is served by its k-th
	// persist (FIFO: Service.do -> persistState -> asyncPersistenceLoop.pending).
	attests     []c02VoteKey // (zero sender) keys of the attest actions executed, in order (from the "attested to" log line)
	outcomes    []bool       // result of the k-th persist() call (true = written)
	seqBroken   bool         // a MakeVotes call failed: attests and persists are no longer aligned
	failedCount int

	persistErr atomic.Bool  // set by "persisting failure", consumed by the "persisted state" line of the same persist() call
	leak       atomic.Int64 // vote tasks that returned on a persistence error without monitor.dec (test-only counter leak)
}

// quietNow: true quiescence of the incarnation. A vote task that is told "persist failed" returns without
// decrementing the (test-only) pseudonode counter; those are discounted.
func (i *c02Inc) quietNow() bool {
	c, sum, _ := i.activity()
	if sum == 0 {
		return true
	}
	lk := uint(i.leak.Load())
	return lk > 0 && sum == lk && c[pseudonodeCoserviceType] == lk
}

func (n *c02Node) owns(a basics.Address) bool {
	for _, x := range n.addrs {
		if x == a {
			return true
		}
	}
	return false
}

// coserviceListener
type c02Listener struct{ of *c02Inc }

func (l c02Listener) set(sum uint, v map[coserviceType]uint) {
	l.of.amu.Lock()
	for i := range l.of.counts {
		l.of.counts[i] = v[coserviceType(i)]
	}
	l.of.sum = sum
	l.of.changes++
	l.of.amu.Unlock()
}
func (l c02Listener) inc(sum uint, v map[coserviceType]uint) { l.set(sum, v) }
func (l c02Listener) dec(sum uint, v map[coserviceType]uint) { l.set(sum, v) }

func (i *c02Inc) activity() (counts [6]uint, sum uint, changes uint64) {
	i.amu.Lock()
	defer i.amu.Unlock()
	return i.counts, i.sum, i.changes
}

// ---------------------------------------------------------------------------------------------------------------
// clock: like upstream's testingClock, but (a) Decode is pure and returns the same controllable clock (upstream's returns a
// clock without monitor), (b) fire() is a no-op unless the node registered that timeout, (c) one clock per incarnation.

type c02Timer struct {
	d     time.Duration
	ch    chan time.Time
	fired bool
}

type c02Clock struct {
	mu      sync.Mutex
	mon     *coserviceMonitor
	ta      map[TimeoutType]*c02Timer
	stepT   TimeoutType
	hasStep bool
	zeroes  int
}

func c02MakeClock(m *coserviceMonitor) *c02Clock {
	return &c02Clock{mon: m, ta: make(map[TimeoutType]*c02Timer)}
}

func (c *c02Clock) Zero() timers.Clock[TimeoutType] {
	c.mu.Lock()
	c.zeroes++
	c.ta = make(map[TimeoutType]*c02Timer)
	c.hasStep = false
	c.mu.Unlock()
	c.mon.clearClock()
	return c
}

func (c *c02Clock) Since() time.Duration { return 1 }

func (c *c02Clock) TimeoutAt(d time.Duration, tt TimeoutType) <-chan time.Time {
	c.mu.Lock()
	defer c.mu.Unlock()
	t := c.ta[tt]
	if t == nil || t.d != d {
		t = &c02Timer{d: d, ch: make(chan time.Time)}
		c.ta[tt] = t
	}
	if tt != TimeoutFastRecovery {
		c.stepT = tt
		c.hasStep = true
	}
	return t.ch
}

func (c *c02Clock) Encode() []byte { return nil }

// Decode is called by mainLoop (restore), by the persistence loop's sanity check (concurrently!) and by the harness when
// it reads the crash DB; it must not mutate anything.
func (c *c02Clock) Decode([]byte) (timers.Clock[TimeoutType], error) { return c, nil }

// fire closes the timeout channel the node is currently selecting on (step deadline: filter or deadline, whichever was
// requested last; or the fast recovery deadline). Returns false if there is nothing to fire.
func (c *c02Clock) fire(fast bool) (string, bool) {
	c.mu.Lock()
	defer c.mu.Unlock()
	tt := TimeoutFastRecovery
	if !fast {
		if !c.hasStep {
			return "", false
		}
		tt = c.stepT
	}
	t := c.ta[tt]
	if t == nil || t.fired {
		return "", false
	}
	t.fired = true
	c.mon.inc(clockCoserviceType)
	close(t.ch)
	return fmt.Sprintf("%v@%v", tt, t.d), true
}

// ---------------------------------------------------------------------------------------------------------------
// network endpoint: every Broadcast/Relay is observed synchronously (on the node's own goroutine) and put into the
// harness' pool; nothing is delivered unless the script says so.

type c02Handle struct{ src int }

type c02Endpoint struct {
	inc      *c02Inc
	votes    chan Message
	payloads chan Message
	bundles  chan Message
}

func (e *c02Endpoint) Messages(tag protocol.Tag) <-chan Message {
	switch tag {
	case protocol.AgreementVoteTag:
		return e.votes
	case protocol.VoteBundleTag:
		return e.bundles
	case protocol.ProposalPayloadTag:
		return e.payloads
	}
	panic("c02: bad Messages tag")
}

func (e *c02Endpoint) Broadcast(tag protocol.Tag, data []byte) error {
	e.inc.node.w.emit(e.inc, tag, data, -1)
	return nil
}

func (e *c02Endpoint) Relay(h MessageHandle, tag protocol.Tag, data []byte) error {
	ex := -1
	if hh, ok := h.(*c02Handle); ok && hh != nil {
		ex = hh.src
	}
	e.inc.node.w.emit(e.inc, tag, data, ex)
	return nil
}

func (e *c02Endpoint) Disconnect(h MessageHandle) {
	src := -1
	if hh, ok := h.(*c02Handle); ok && hh != nil {
		src = hh.src
	}
	e.inc.node.w.logf("n%d.%d DISCONNECT from n%d", e.inc.node.idx, e.inc.id, src)
}

func (e *c02Endpoint) Start() {}

type c02SeenVote struct {
	key  c02VoteKey
	val  proposalValue
	kind string
}

func c02DecodeWire(tag protocol.Tag, data []byte) (votes []c02SeenVote, desc string, err error) {
	switch tag {
	case protocol.AgreementVoteTag:
		var uv unauthenticatedVote
		if err = protocol.Decode(data, &uv); err != nil {
			return
		}
		votes = append(votes, c02SeenVote{c02VoteKey{uv.R.Sender, uv.R.Round, uv.R.Period, uv.R.Step}, uv.R.Proposal, "vote"})
		desc = fmt.Sprintf("vote r%d p%d s%d %s", uv.R.Round, uv.R.Period, uv.R.Step, c02Val(uv.R.Proposal))
	case protocol.ProposalPayloadTag:
		var tp transmittedPayload
		if err = protocol.Decode(data, &tp); err != nil {
			return
		}
		desc = fmt.Sprintf("payload r%d %.6s", tp.unauthenticatedProposal.Round(), tp.unauthenticatedProposal.Digest().String())
		if tp.PriorVote != (unauthenticatedVote{}) {
			uv := tp.PriorVote
			votes = append(votes, c02SeenVote{c02VoteKey{uv.R.Sender, uv.R.Round, uv.R.Period, uv.R.Step}, uv.R.Proposal, "prior"})
			desc += fmt.Sprintf("+pv(p%d s%d %s)", uv.R.Period, uv.R.Step, c02Val(uv.R.Proposal))
		}
	case protocol.VoteBundleTag:
		var ub unauthenticatedBundle
		if err = protocol.Decode(data, &ub); err != nil {
			return
		}
		for _, va := range ub.Votes {
			votes = append(votes, c02SeenVote{c02VoteKey{va.Sender, ub.Round, ub.Period, ub.Step}, ub.Proposal, "bundle"})
		}
		for _, ev := range ub.EquivocationVotes {
			votes = append(votes, c02SeenVote{c02VoteKey{ev.Sender, ub.Round, ub.Period, ub.Step}, ev.Proposals[0], "bundle-eq0"})
			votes = append(votes, c02SeenVote{c02VoteKey{ev.Sender, ub.Round, ub.Period, ub.Step}, ev.Proposals[1], "bundle-eq1"})
		}
		desc = fmt.Sprintf("bundle r%d p%d s%d %s (%d+%deq)", ub.Round, ub.Period, ub.Step, c02Val(ub.Proposal), len(ub.Votes), len(ub.EquivocationVotes))
	default:
		err = fmt.Errorf("unknown tag %v", tag)
	}
	return
}

// emit runs on the emitting node's demuxLoop goroutine, inside Network.Broadcast/Relay.
func (w *c02World) emit(inc *c02Inc, tag protocol.Tag, data []byte, exclude int) {
	n := inc.node
	votes, desc, err := c02DecodeWire(tag, data)
	if err != nil {
		w.violatef("n%d.%d emitted an undecodable %v message: %v", n.idx, inc.id, tag, err)
		return
	}

	// Is this a direct own attest vote (step >= soft) leaving the node that holds the key?
	var own *c02SeenVote
	if tag == protocol.AgreementVoteTag && len(votes) == 1 && n.owns(votes[0].key.Sender) && votes[0].key.Step != propose {
		own = &votes[0]
	}

	var dpos c02DPos
	if own != nil {
		// ordering half of the statement: the state that led to this vote is already in the crash DB.
		dpos = n.readD()
	}

	var cut *c02CutReq
	w.mu.Lock()
	// oracle 1: (sender, round, period, step) -> value is a function, over everything that ever reached the wire
	for _, sv := range votes {
		if _, running := w.addrNode[sv.key.Sender]; !running {
			w.viol = append(w.viol, fmt.Sprintf("vote of a key nobody runs on the wire: %v", sv.key))
			continue
		}
		rec := w.votes[sv.key]
		if rec == nil {
			w.votes[sv.key] = &c02VoteRec{Value: sv.val, Where: fmt.Sprintf("n%d.%d %s #%d", n.idx, inc.id, sv.kind, len(w.hist))}
			continue
		}
		if rec.Value != sv.val {
			if sv.key.Step == propose {
				// by design: proposals are not persisted before they are released (only attest actions are persistent,
				// actions.go pseudonodeAction.persistent); a node that restarts without usable crash state assembles again.
				w.st.proposeRevote++
				continue
			}
			s := fmt.Sprintf("EQUIVOCATION: key n%d (r%d p%d s%d) voted %s (first seen %s) and %s (now, emitted by n%d.%d as %s)",
				w.addrNode[sv.key.Sender], sv.key.Round, sv.key.Period, sv.key.Step, c02Val(rec.Value), rec.Where, c02Val(sv.val), n.idx, inc.id, sv.kind)
			w.viol = append(w.viol, s)
			w.hist = append(w.hist, fmt.Sprintf("%04d VIOLATION %s", len(w.hist), s))
		}
	}
	isNew := false
	if own != nil {
		k := own.key
		isNew = !n.seenOwn[k]
		n.seenOwn[k] = true
		if isNew {
			w.st.ownAttestVotes++
			inc.newOwnVotes++
			n.attestSeen = true
			if k.Period > w.st.maxPeriod {
				w.st.maxPeriod = k.Period
			}
			if k.Round > w.st.maxRound {
				w.st.maxRound = k.Round
			}
			if n.crashedAfter {
				// a crash happened after this node had produced an attest, and it votes again now
				n.crashedAfter = false
				w.st.votedAfterRestart++
			}
		}
		// oracle 2a
		if dpos.readable {
			w.st.dReads++
			bad := !dpos.present || !dpos.decodeOK || dpos.Round < k.Round || (dpos.Round == k.Round && dpos.Period < k.Period)
			if bad && !c02Off("o2a") {
				s := fmt.Sprintf("UNPERSISTED VOTE: n%d.%d released own vote (r%d p%d s%d %s) while the crash DB holds %v", n.idx, inc.id, k.Round, k.Period, k.Step, c02Val(own.val), dpos)
				w.viol = append(w.viol, s)
				w.hist = append(w.hist, fmt.Sprintf("%04d VIOLATION %s", len(w.hist), s))
			}
			w.noteDLocked(n, dpos, "emit")
		} else {
			w.st.dReadFail++
		}
		// oracle 3: while persistence is gated (hold established at true quiescence), no *new* own attest vote is released
		if n.holdActive {
			w.st.holdNewVoteChecks++
			if isNew && !c02Off("o3") {
				s := fmt.Sprintf("VOTE RELEASED WHILE PERSISTENCE IS BLOCKED (%s): n%d.%d released new own vote (r%d p%d s%d %s); crash DB %v", n.holdKind, n.idx, inc.id, k.Round, k.Period, k.Step, c02Val(own.val), dpos)
				w.viol = append(w.viol, s)
				w.hist = append(w.hist, fmt.Sprintf("%04d VIOLATION %s", len(w.hist), s))
			}
		}
		// oracle 5: a new own attest vote is released only if (one of) the attest action(s) it comes from had its state
		// written successfully: persist() returned nil for it - not "has not returned yet", not "failed".
		if isNew && !inc.seqBroken && !c02Off("o5") {
			found, okPersist := false, false
			for idx, ak := range inc.attests {
				if ak.Round == k.Round && ak.Period == k.Period && ak.Step == k.Step {
					found = true
					if idx < len(inc.outcomes) && inc.outcomes[idx] {
						okPersist = true
					}
				}
			}
			switch {
			case !found:
				w.st.o5Unmatched++
			case !okPersist:
				w.st.o5Checked++
				s := fmt.Sprintf("VOTE RELEASED WITHOUT A SUCCESSFUL PERSIST: n%d.%d released new own vote (r%d p%d s%d %s) but no persist() of an attest for that step has succeeded (attests %d, persist outcomes %v); crash DB %v",
					n.idx, inc.id, k.Round, k.Period, k.Step, c02Val(own.val), len(inc.attests), inc.outcomes, dpos)
				w.viol = append(w.viol, s)
				w.hist = append(w.hist, fmt.Sprintf("%04d VIOLATION %s", len(w.hist), s))
			default:
				w.st.o5Checked++
			}
		}
		if isNew && n.armVote != "" && !inc.cut.Load() && inc.cutReq == nil {
			cut = &c02CutReq{inc: inc, kind: "vote", release: make(chan struct{}), desc: n.armVote}
			inc.cutReq = cut
		}
	}
	lost := inc.cut.Load()
	w.hist = append(w.hist, fmt.Sprintf("%04d   n%d.%d emits %s%s%s", len(w.hist), n.idx, inc.id, desc,
		map[bool]string{true: " [own,new]", false: ""}[own != nil && isNew], map[bool]string{true: " [cut:lost]", false: ""}[lost]))
	w.mu.Unlock()

	if cut != nil {
		// crash "at the moment the vote reaches the network": block this node until the harness has begun Shutdown.
		select {
		case <-cut.release:
		case <-time.After(90 * time.Second):
		}
		if cut.desc == "lose" {
			lost = true
		}
	}
	if lost {
		return
	}
	w.mu.Lock()
	for j := range w.nodes {
		if j == n.idx || j == exclude {
			continue
		}
		w.nextMsg++
		w.pool = append(w.pool, &c02Msg{id: w.nextMsg, tag: tag, data: data, from: n.idx, to: j, desc: desc})
	}
	w.mu.Unlock()
}

// noteDLocked: monotonicity of the crash DB position (oracle 2b). Caller holds w.mu.
func (w *c02World) noteDLocked(n *c02Node, d c02DPos, where string) {
	if !d.readable {
		return
	}
	last := n.lastD
	if last.readable && last.present {
		regress := false
		switch {
		case !d.present:
			regress = true
		case !d.decodeOK:
			regress = true
		case last.decodeOK && (d.Round < last.Round || (d.Round == last.Round && d.Period < last.Period)):
			regress = true
		}
		if regress && !c02Off("o2b") {
			s := fmt.Sprintf("CRASH STATE REGRESSED: n%d crash DB went from %v (at %s) to %v (at %s)", n.idx, last, n.lastDWhere, d, where)
			w.viol = append(w.viol, s)
			w.hist = append(w.hist, fmt.Sprintf("%04d VIOLATION %s", len(w.hist), s))
		}
	}
	if d.present && !d.decodeOK && !c02Off("o2b") {
		s := fmt.Sprintf("CRASH STATE UNDECODABLE: n%d (at %s)", n.idx, where)
		w.viol = append(w.viol, s)
	}
	n.lastD = d
	n.lastDWhere = where
}

// ---------------------------------------------------------------------------------------------------------------
// ledger wrapper: Wait(r) for an already completed round can be held back (this is what gates persist())

type c02Ledger struct {
	*testLedger
	hmu     sync.Mutex
	held    bool
	gate    chan struct{}
	waiters int
}

func (l *c02Ledger) Wait(r basics.Round) chan struct{} {
	l.hmu.Lock()
	defer l.hmu.Unlock()
	if l.held && r < l.testLedger.NextRound() {
		l.waiters++
		return l.gate
	}
	return l.testLedger.Wait(r)
}

func (l *c02Ledger) hold() {
	l.hmu.Lock()
	if !l.held {
		l.held = true
		l.gate = make(chan struct{})
		l.waiters = 0
	}
	l.hmu.Unlock()
}

func (l *c02Ledger) release() {
	l.hmu.Lock()
	if l.held {
		l.held = false
		close(l.gate)
	}
	l.hmu.Unlock()
}

func (l *c02Ledger) gateWaiters() int {
	l.hmu.Lock()
	defer l.hmu.Unlock()
	if !l.held {
		return 0
	}
	return l.waiters
}

// ---------------------------------------------------------------------------------------------------------------
// block factory: every incarnation assembles a different block, like a real node would (pool contents, timestamp)

type c02BlockFactory struct {
	owner int
	inc   int
}

func (f c02BlockFactory) AssembleBlock(r basics.Round, _ []basics.Address) (UnfinishedBlock, error) {
	return testValidatedBlock{Inside: bookkeeping.Block{BlockHeader: bookkeeping.BlockHeader{Round: r, TimeStamp: int64(1000*(f.inc+1) + f.owner)}}}, nil
}

// ---------------------------------------------------------------------------------------------------------------
// logger hook: persist() logs "persisted state to the database" (Type=Persisted) after the DB write and before the
// checkpoint event is handed to the service. Blocking there gives an exact crash point "persisted, vote not released".

type c02Logger struct {
	logging.Logger
	inc       *c02Inc
	persisted bool
	attest    bool
	ar, ap, as uint64
}

func (l c02Logger) With(key string, value interface{}) logging.Logger {
	l.Logger = l.Logger.With(key, value)
	return l
}

func (l c02Logger) WithFields(f logging.Fields) logging.Logger {
	l.Logger = l.Logger.WithFields(f)
	l.persisted, l.attest = false, false
	if ty, ok := f["Type"].(string); ok {
		switch ty {
		case logspec.Persisted.String():
			l.persisted = true
		case logspec.VoteAttest.String():
			l.attest = true
			l.ar, _ = f["Round"].(uint64)
			l.ap, _ = f["Period"].(uint64)
			l.as, _ = f["Step"].(uint64)
		}
	}
	return l
}

func (l c02Logger) Info(args ...interface{}) {
	if l.persisted && len(args) == 1 {
		if s, ok := args[0].(string); ok && s == "persisted state to the database" {
			l.inc.node.w.persistedHook(l.inc)
		}
	}
	l.Logger.Info(args...)
}

func (l c02Logger) Infof(format string, args ...interface{}) {
	switch {
	case l.attest && strings.HasPrefix(format, "attested to "):
		// actions.go pseudonodeAction.do, case attest: logged before MakeVotes/persistState
		w := l.inc.node.w
		w.mu.Lock()
		l.inc.attests = append(l.inc.attests, c02VoteKey{Round: round(l.ar), Period: period(l.ap), Step: step(l.as)})
		w.mu.Unlock()
	case format == "pseudonode: made %v votes":
		// pseudonodeVotesTask.execute, right after signing and before verification / the wait for persistStateDone
		l.inc.node.w.slowVotesHook(l.inc)
	}
	l.Logger.Infof(format, args...)
}

func (l c02Logger) Errorf(format string, args ...interface{}) {
	switch {
	case format == "persisting failure: %v":
		l.inc.persistErr.Store(true)
	case strings.HasPrefix(format, "pseudonode.MakeVotes call failed"):
		w := l.inc.node.w
		w.mu.Lock()
		l.inc.seqBroken = true
		w.mu.Unlock()
	}
	l.Logger.Errorf(format, args...)
}

func (l c02Logger) Warnf(format string, args ...interface{}) {
	if strings.HasPrefix(format, "pseudonode.makeVotes: %v votes dropped due to disk persistence") {
		// the task returns right after this line without monitor.dec(pseudonodeCoserviceType)
		w := l.inc.node.w
		w.mu.Lock()
		w.st.votesDropped++
		w.hist = append(w.hist, fmt.Sprintf("%04d   n%d.%d votes dropped due to persistence failure", len(w.hist), l.inc.node.idx, l.inc.id))
		w.mu.Unlock()
		l.inc.leak.Add(1)
	}
	l.Logger.Warnf(format, args...)
}

// slowVotesHook runs on the vote task's goroutine: when armed, the task is kept busy until the persist of its attest
// has returned (and a little longer), so that the checkpoint is processed while the task is not yet waiting for
// persistStateDone. Pure provocation; on correct code checkpointAction.do blocks until the task takes the error.
func (w *c02World) slowVotesHook(inc *c02Inc) {
	n := inc.node
	w.mu.Lock()
	armed := n.slowVotes && !inc.cut.Load()
	base := len(inc.outcomes)
	if armed {
		n.slowVotes = false
		w.st.slowVotes++
		w.hist = append(w.hist, fmt.Sprintf("%04d   n%d.%d vote task delayed until its persist returns", len(w.hist), n.idx, inc.id))
	}
	w.mu.Unlock()
	if !armed {
		return
	}
	t0 := time.Now()
	for time.Since(t0) < 10*time.Second {
		w.mu.Lock()
		done := len(inc.outcomes) > base
		w.mu.Unlock()
		if done || inc.cut.Load() {
			break
		}
		time.Sleep(200 * time.Microsecond)
	}
	time.Sleep(150 * time.Millisecond)
}

// persistedHook runs on the persistence-loop goroutine of inc, at the end of persist() (success or failure).
func (w *c02World) persistedHook(inc *c02Inc) {
	n := inc.node
	failed := inc.persistErr.Swap(false)
	var cut *c02CutReq
	dropTrigger := false
	w.mu.Lock()
	inc.outcomes = append(inc.outcomes, !failed)
	if failed {
		w.st.persistFailed++
		inc.failedCount++
		if inc.promiseState == "pending" {
			inc.promiseState = "void"
		}
		if n.failLeft > 0 {
			n.failLeft--
			dropTrigger = n.failLeft == 0
		}
		w.hist = append(w.hist, fmt.Sprintf("%04d   n%d.%d persist FAILED (#%d)", len(w.hist), n.idx, inc.id, len(inc.outcomes)))
	} else {
		w.st.persistHook++
		inc.persists++
		n.attestSeen = true
		w.hist = append(w.hist, fmt.Sprintf("%04d   n%d.%d persist completed (#%d)", len(w.hist), n.idx, inc.id, len(inc.outcomes)))
		if n.armPersist && !inc.cut.Load() && inc.cutReq == nil {
			cut = &c02CutReq{inc: inc, kind: "persist", release: make(chan struct{})}
			inc.cutReq = cut
		}
	}
	w.mu.Unlock()
	if dropTrigger {
		n.failTriggerOff()
	}
	if cut != nil {
		select {
		case <-cut.release:
		case <-time.After(90 * time.Second):
		}
	}
}

// failTriggerOn makes every write of the crash state fail ("disk full"): persist() returns an error.
func (n *c02Node) failTriggerOn(times int) bool {
	err := n.accessor.Atomic(func(ctx context.Context, tx *sql.Tx) error {
		_, e := tx.Exec("CREATE TRIGGER IF NOT EXISTS c02_fail BEFORE INSERT ON Service BEGIN SELECT RAISE(FAIL, 'c02: disk full'); END")
		return e
	})
	if err != nil {
		return false
	}
	n.w.mu.Lock()
	n.failLeft = times
	n.w.mu.Unlock()
	return true
}

func (n *c02Node) failTriggerOff() {
	n.w.mu.Lock()
	n.failLeft = 0
	n.w.mu.Unlock()
	_ = n.accessor.Atomic(func(ctx context.Context, tx *sql.Tx) error {
		_, e := tx.Exec("DROP TRIGGER IF EXISTS c02_fail")
		return e
	})
}

// ---------------------------------------------------------------------------------------------------------------
// crash DB reader (read-only; never calls restore(), which may delete rows)

type c02Raw struct {
	raw     []byte
	present bool
	err     error
}

func c02ReadRow(q interface {
	QueryRow(query string, args ...interface{}) *sql.Row
}) c02Raw {
	var raw []byte
	err := q.QueryRow("select data from Service limit 1").Scan(&raw)
	switch {
	case err == nil:
		return c02Raw{raw: raw, present: true}
	case errors.Is(err, sql.ErrNoRows):
		return c02Raw{}
	case strings.Contains(err.Error(), "no such table"):
		return c02Raw{}
	default:
		return c02Raw{err: err}
	}
}

var c02DecodeClock = c02MakeClock(nil)

func (n *c02Node) readD() c02DPos {
	var r c02Raw
	n.w.mu.Lock()
	disk := n.disk
	n.w.mu.Unlock()
	if disk != nil {
		rq := make(chan c02Raw, 1)
		select {
		case disk.reads <- rq:
			r = <-rq
		case <-disk.done:
			r = c02ReadRow(n.accessor.Handle)
		case <-time.After(20 * time.Second):
			return c02DPos{}
		}
	} else {
		for try := 0; try < 200; try++ {
			r = c02ReadRow(n.accessor.Handle)
			if r.err == nil {
				break
			}
			time.Sleep(time.Duration(50+try*20) * time.Microsecond)
		}
	}
	if r.err != nil {
		return c02DPos{}
	}
	d := c02DPos{readable: true, present: r.present}
	if !r.present {
		return d
	}
	_, _, p, acts, err := decode(r.raw, c02DecodeClock, makeServiceLogger(n.w.log), false)
	if err != nil {
		return d
	}
	d.decodeOK = true
	d.Round, d.Period, d.Step = p.Round, p.Period, p.Step
	d.nActions = len(acts)
	for _, a := range acts {
		if pa, ok := a.(pseudonodeAction); ok && pa.T == attest {
			d.Attests = append(d.Attests, pa)
		}
	}
	return d
}

// disk hold: a harness transaction keeps the crash DB's write lock, so persist() cannot complete ("slow disk").
type c02DiskHold struct {
	release chan struct{}
	reads   chan chan c02Raw
	done    chan struct{}
	started chan struct{}
	once    sync.Once
}

func (n *c02Node) diskHoldOn() bool {
	h := &c02DiskHold{release: make(chan struct{}), reads: make(chan chan c02Raw), done: make(chan struct{}), started: make(chan struct{})}
	go func() {
		defer close(h.done)
		_ = n.accessor.Atomic(func(ctx context.Context, tx *sql.Tx) error {
			// make sure we really hold the write lock (BEGIN IMMEDIATE already does; harmless otherwise)
			h.once.Do(func() { close(h.started) })
			for {
				select {
				case <-h.release:
					return nil
				case rq := <-h.reads:
					rq <- c02ReadRow(tx)
				}
			}
		})
	}()
	select {
	case <-h.started:
	case <-h.done:
		return false
	case <-time.After(30 * time.Second):
		close(h.release)
		return false
	}
	n.w.mu.Lock()
	n.disk = h
	if n.inc != nil {
		n.inc.diskHeld = true
	}
	n.w.mu.Unlock()
	return true
}

func (n *c02Node) diskHoldOff() {
	n.w.mu.Lock()
	h := n.disk
	n.disk = nil
	n.w.mu.Unlock()
	if h == nil {
		return
	}
	close(h.release)
	select {
	case <-h.done:
	case <-time.After(60 * time.Second):
	}
}

// ---------------------------------------------------------------------------------------------------------------
// lifecycle

func c02NewWorld(t *testing.T, nRun, nSilent int, extraKey bool) *c02World {
	accts, bals := c02Accounts(t)
	w := &c02World{addrNode: make(map[basics.Address]int), votes: make(map[c02VoteKey]*c02VoteRec), nAccts: nRun + nSilent}
	w.st.crashes = make(map[string]int)
	w.st.restarts = make(map[string]int)
	w.settleLimit = 60 * time.Second
	seq := c02CaseSeq.Add(1)
	w.caseTag = fmt.Sprintf("c02_%d_%d", os.Getpid(), seq)

	lg := logging.NewLogger()
	lg.SetLevel(logging.Warn)
	lg.SetOutput(io.Discard)
	if fn := os.Getenv("VERIF_C02_LOG"); fn != "" {
		if f, err := os.OpenFile(fmt.Sprintf("%s.%d", fn, seq), os.O_CREATE|os.O_TRUNC|os.O_WRONLY, 0644); err == nil {
			lg.SetLevel(logging.Debug)
			lg.SetOutput(f)
		}
	}
	w.log = lg

	state := make(map[basics.Address]basics.AccountData)
	for i := 0; i < w.nAccts; i++ {
		state[accts[i].Parent] = bals[accts[i].Parent]
	}
	for i := 0; i < nRun; i++ {
		acc, err := db.MakeAccessor(fmt.Sprintf("%s_%d_crash.db", w.caseTag, i), false, true)
		if err != nil {
			t.Fatalf("c02: MakeAccessor: %v", err)
		}
		acc.SetLogger(lg)
		parts := []account.Participation{accts[i]}
		if i == 0 && extraKey && nSilent > 0 {
			// node 0 also holds the last (otherwise silent) account: two participation keys in one node
			parts = append(parts, accts[w.nAccts-1])
		}
		n := &c02Node{
			w:        w,
			idx:      i,
			ledger:   &c02Ledger{testLedger: makeTestLedger(state).(*testLedger)},
			accessor: acc,
			keys:     makeRecordingKeyManager(parts),
			seenOwn:  make(map[c02VoteKey]bool),
		}
		for _, p := range parts {
			n.addrs = append(n.addrs, p.Parent)
			w.addrNode[p.Parent] = i
		}
		w.nodes = append(w.nodes, n)
	}
	return w
}

// start creates and starts a new incarnation of node n on the same ledger, keys and crash DB.
func (n *c02Node) start() error {
	w := n.w
	pre := n.readD()
	inc := &c02Inc{node: n, id: n.incCount}
	n.incCount++
	inc.mon = new(coserviceMonitor)
	inc.mon.id = n.idx
	inc.mon.coserviceListener = c02Listener{of: inc}
	inc.clk = c02MakeClock(inc.mon)
	inc.ep = &c02Endpoint{inc: inc, votes: make(chan Message, 4096), payloads: make(chan Message, 4096), bundles: make(chan Message, 4096)}

	mode := "fresh-nostate"
	if pre.readable && pre.present && pre.decodeOK {
		if pre.Round < n.ledger.NextRound() {
			mode = "fresh-stale"
		} else {
			mode = "restored"
			inc.promises = pre.Attests
			inc.promiseState = "pending"
		}
	}
	if inc.id == 0 {
		mode = "boot"
	}

	params := Parameters{
		Logger:         c02Logger{Logger: w.log.With("Source", fmt.Sprintf("n%d.%d", n.idx, inc.id)), inc: inc},
		Ledger:         n.ledger,
		Network:        inc.ep,
		KeyManager:     n.keys,
		BlockValidator: testBlockValidator{},
		BlockFactory:   c02BlockFactory{owner: n.idx, inc: inc.id},
		Clock:          inc.clk,
		Accessor:       n.accessor,
		Local:          config.Local{},
		RandomSource:   &testingRand{},
	}
	svc, err := MakeService(params)
	if err != nil {
		return err
	}
	svc.tracer.level = disabled
	svc.monitor = inc.mon
	inc.svc = svc
	inc.mon.inc(demuxCoserviceType)

	w.mu.Lock()
	n.inc = inc
	if n.disk != nil {
		inc.diskHeld = true
	}
	if inc.id > 0 {
		w.st.restarts[mode]++
	}
	w.noteDLocked(n, pre, fmt.Sprintf("start of n%d.%d", n.idx, inc.id))
	w.hist = append(w.hist, fmt.Sprintf("%04d   n%d.%d START (%s) ledger.next=%d %v", len(w.hist), n.idx, inc.id, mode, n.ledger.NextRound(), pre))
	w.mu.Unlock()

	svc.Start()
	return nil
}

// stopInc shuts the incarnation down. pre runs after Shutdown has begun (s.quit closed), on the harness goroutine.
func (w *c02World) shutdown(inc *c02Inc, afterQuit func(), waitLoops bool, afterLoops func()) bool {
	inc.cut.Store(true)
	done := make(chan struct{})
	go func() {
		defer close(done)
		inc.svc.Shutdown()
	}()
	// Shutdown's first effect is close(s.quit)
	t0 := time.Now()
	for {
		closed := false
		select {
		case <-inc.svc.quit:
			closed = true
		default:
		}
		if closed {
			break
		}
		if time.Since(t0) > 60*time.Second {
			return false
		}
		time.Sleep(50 * time.Microsecond)
	}
	if afterQuit != nil {
		afterQuit()
	}
	if waitLoops {
		lw := make(chan struct{})
		go func() { inc.svc.wg.Wait(); close(lw) }()
		select {
		case <-lw:
		case <-time.After(120 * time.Second):
			return false
		}
		if afterLoops != nil {
			afterLoops()
		}
	}
	select {
	case <-done:
	case <-time.After(120 * time.Second):
		return false
	}
	inc.dead.Store(true)
	return true
}

// sortPool gives the pool a canonical order so that script draws mean the same thing whatever the goroutine schedule was.
func (w *c02World) sortPoolLocked() {
	sort.SliceStable(w.pool, func(a, b int) bool {
		x, y := w.pool[a], w.pool[b]
		if x.to != y.to {
			return x.to < y.to
		}
		if x.from != y.from {
			return x.from < y.from
		}
		if x.tag != y.tag {
			return x.tag < y.tag
		}
		if x.desc != y.desc {
			return x.desc < y.desc
		}
		return x.id < y.id
	})
}

// deliver hands one pooled message to its destination's current incarnation (lost if the node is being crashed).
func (w *c02World) deliver(m *c02Msg) {
	n := w.nodes[m.to]
	inc := n.inc
	if inc == nil || inc.dead.Load() || inc.cut.Load() {
		return
	}
	var ch chan Message
	switch m.tag {
	case protocol.AgreementVoteTag:
		ch = inc.ep.votes
	case protocol.VoteBundleTag:
		ch = inc.ep.bundles
	case protocol.ProposalPayloadTag:
		ch = inc.ep.payloads
	}
	inc.mon.inc(tokenizerCoserviceType)
	select {
	case ch <- Message{MessageHandle: &c02Handle{src: m.from}, Data: m.data}:
	default:
		inc.mon.dec(tokenizerCoserviceType)
	}
}
