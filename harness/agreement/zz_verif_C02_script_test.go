package agreement

// C02 — Honest nodes never equivocate, even across crashes: a vote is released to the network only after the state
// that led to it is durably persisted. Engine B: real agreement.Service instances (see zz_verif_C02_env_test.go).
//
// Oracles (all schedule-universal; nothing below depends on which goroutine ran first):
//  (1) over everything that ever reached the network mock, (sender key, round, period, step>=soft) -> value is a function,
//      across all incarnations of the node holding the key (propose-step re-votes after a fresh restart are by design, see
//      c02World.emit; they are counted, not asserted);
//  (2a) at the instant an own attest vote (r,p,s) leaves the node, the crash DB decodes to a state at (round,period) >= (r,p);
//  (2b) the crash DB position (round,period) of a node never regresses and never becomes empty/undecodable, whatever
//      crashes and restarts happen (this is what the double-crash defect fixed by 15ee9a30f7 violated);
//  (3) while persistence is gated (Ledger.Wait held, or the crash DB write-locked = slow disk), with the gate established
//      at true quiescence, no *new* own attest vote leaves the node;
//  (4) a restart that restores crash state re-issues exactly the attests found in that state (same value), once the
//      incarnation reaches true quiescence with persistence not gated.
//  (5) a new own attest vote leaves the node only if persist() has *returned successfully* for (one of) the attest
//      action(s) of that step in this incarnation (k-th attest <-> k-th persist, FIFO); in particular never after an
//      injected crash-DB write failure ("votes dropped due to disk persistence failure" is the correct behaviour).
//
// Waiting is done with the services' own coservice monitors (quiescence), never with sleeps as an oracle. A case in
// which quiescence (or a Shutdown) cannot be observed within a generous bound is counted as inconclusive and passes.

import (
	"fmt"
	"os"
	"sort"
	"strings"
	"testing"
	"time"

	"github.com/algorand/go-deadlock"
	"pgregory.net/rapid"
)

type c02Runner struct {
	t       *rapid.T // nil for scripted (draw-free) runs
	fatalf  func(format string, args ...interface{})
	w       *c02World
	inconcl string
	lab     map[string]int
	script  []string
	cleaned bool
}

func (r *c02Runner) label(s string) { r.lab[s]++ }

func (r *c02Runner) step(format string, args ...interface{}) {
	s := fmt.Sprintf(format, args...)
	r.script = append(r.script, s)
	r.w.logf("STEP %s", s)
}

func (r *c02Runner) held(n *c02Node) (wait bool, disk bool) {
	n.ledger.hmu.Lock()
	wait = n.ledger.held
	n.ledger.hmu.Unlock()
	r.w.mu.Lock()
	disk = n.disk != nil
	r.w.mu.Unlock()
	return
}

// quiet reports true quiescence of the node's current incarnation (all coservice counters zero).
func (r *c02Runner) quiet(n *c02Node) bool {
	inc := n.inc
	if inc == nil || inc.dead.Load() {
		return true
	}
	return inc.quietNow()
}

// stuckPattern: nothing runnable except pseudonode tasks (vote tasks waiting for persistStateDone).
func c02StuckPattern(c [6]uint) bool {
	return c[demuxCoserviceType] == 0 && c[tokenizerCoserviceType] == 0 && c[cryptoVerifierCoserviceType] == 0 &&
		c[clockCoserviceType] == 0 && c[networkCoserviceType] == 0 && c[pseudonodeCoserviceType] > 0
}

// settle waits until every live node is quiescent, or - only while its persistence is gated by the script - parked with
// nothing but vote tasks waiting for the gate. Crash requests raised by the hooks are served here.
func (r *c02Runner) settle(what string) bool {
	w := r.w
	type stab struct {
		changes uint64
		since   time.Time
	}
	stable := make(map[*c02Inc]*stab)
	deadline := time.Now().Add(w.settleLimit)
	sleep := 20 * time.Microsecond
	for {
		if !r.handleCuts() {
			return false
		}
		all := true
		now := time.Now()
		for _, n := range w.nodes {
			inc := n.inc
			if inc == nil || inc.dead.Load() {
				continue
			}
			counts, _, ch := inc.activity()
			if inc.quietNow() {
				continue
			}
			wait, disk := r.held(n)
			if (wait || disk) && c02StuckPattern(counts) && counts[pseudonodeCoserviceType] > uint(inc.leak.Load()) && (!wait || n.ledger.gateWaiters() > 0) {
				st := stable[inc]
				if st == nil || st.changes != ch {
					stable[inc] = &stab{ch, now}
					all = false
					continue
				}
				need := 40 * time.Millisecond
				if wait {
					need = 15 * time.Millisecond
				}
				if now.Sub(st.since) >= need {
					continue // parked behind the gate
				}
			}
			all = false
		}
		if all {
			return true
		}
		if now.After(deadline) {
			r.inconcl = "no quiescence within bound: " + what
			w.logf("INCONCLUSIVE %s", r.inconcl)
			for _, n := range w.nodes {
				if n.inc != nil {
					c, s, _ := n.inc.activity()
					w.logf("   n%d.%d counts=%v sum=%d", n.idx, n.inc.id, c, s)
				}
			}
			return false
		}
		time.Sleep(sleep)
		if sleep < 500*time.Microsecond {
			sleep += 20 * time.Microsecond
		}
	}
}

func (r *c02Runner) handleCuts() bool {
	w := r.w
	for _, n := range w.nodes {
		w.mu.Lock()
		inc := n.inc
		var cut *c02CutReq
		if inc != nil && !inc.dead.Load() {
			cut = inc.cutReq
		}
		w.mu.Unlock()
		if cut == nil {
			continue
		}
		pos := "after-persist-before-release"
		if cut.kind == "vote" {
			pos = "at-release-" + cut.desc
		}
		if !r.crash(n, pos, cut) {
			return false
		}
	}
	return true
}

// crash = Shutdown of the current incarnation + a new Service on the same ledger, keys and crash DB.
func (r *c02Runner) crash(n *c02Node, pos string, cut *c02CutReq) bool {
	w := r.w
	inc := n.inc
	dBefore := n.readD()
	w.mu.Lock()
	attest := n.attestSeen || pos == "before-persist" || pos == "after-failed-persist"
	n.armVote = ""
	n.armPersist = false
	w.noteDLocked(n, dBefore, fmt.Sprintf("crash of n%d.%d", n.idx, inc.id))
	w.hist = append(w.hist, fmt.Sprintf("%04d   CRASH n%d.%d position=%s %v ledger.next=%d", len(w.hist), n.idx, inc.id, pos, dBefore, n.ledger.NextRound()))
	w.mu.Unlock()

	var ok bool
	switch {
	case cut != nil && cut.kind == "vote":
		ok = w.shutdown(inc, func() { close(cut.release) }, false, nil)
	case cut != nil && cut.kind == "persist":
		ok = w.shutdown(inc, nil, true, func() { close(cut.release) })
	default:
		ok = w.shutdown(inc, nil, false, nil)
	}
	if !ok {
		if cut != nil {
			select {
			case <-cut.release:
			default:
				close(cut.release)
			}
		}
		r.inconcl = "shutdown did not complete within bound"
		w.logf("INCONCLUSIVE %s", r.inconcl)
		return false
	}
	w.mu.Lock()
	w.st.crashes[pos]++
	if attest {
		n.crashedAfter = true
	}
	if dBefore.readable && dBefore.present {
		r.lab["crash-with-state"]++
	} else {
		r.lab["crash-without-state"]++
	}
	w.mu.Unlock()
	r.label("crash:" + pos)
	if err := n.start(); err != nil {
		r.inconcl = "MakeService failed: " + err.Error()
		return false
	}
	return true
}

// sample: crash DB monotonicity for every node and the restored-attest promise (oracle 4).
func (r *c02Runner) sample(where string) {
	w := r.w
	for _, n := range w.nodes {
		inc := n.inc
		if inc == nil || inc.dead.Load() {
			continue
		}
		d := n.readD()
		wait, disk := r.held(n)
		q := r.quiet(n)
		w.mu.Lock()
		w.noteDLocked(n, d, where)
		if q && !wait && !disk && inc.promiseState == "pending" && !inc.diskHeld && !inc.cut.Load() && !c02Off("o4") {
			inc.promiseState = "checked"
			for _, pa := range inc.promises {
				for ai, addr := range n.addrs {
					w.st.promisesChecked++
					rec := w.votes[c02VoteKey{addr, pa.Round, pa.Period, pa.Step}]
					switch {
					case rec == nil:
						w.viol = append(w.viol, fmt.Sprintf("RESTORED ATTEST NOT RE-ISSUED: n%d.%d (key %d) restored crash state with pending attest (r%d p%d s%d %s) but that vote never reached the network (checked at quiescence, %s)",
							n.idx, inc.id, ai, pa.Round, pa.Period, pa.Step, c02Val(pa.Proposal), where))
					case rec.Value != pa.Proposal:
						w.viol = append(w.viol, fmt.Sprintf("RESTORED ATTEST CHANGED: n%d.%d (key %d) crash state promised (r%d p%d s%d %s) but the network saw %s (%s)",
							n.idx, inc.id, ai, pa.Round, pa.Period, pa.Step, c02Val(pa.Proposal), c02Val(rec.Value), rec.Where))
					}
				}
			}
		}
		w.mu.Unlock()
	}
}

func (r *c02Runner) failIfViolated() {
	if v := r.w.violations(); len(v) > 0 {
		r.cleanup()
		r.fatalf("C02 violated (%d):\n  %s\n--- script ---\n  %s\n--- full history ---\n%s", len(v), strings.Join(v, "\n  "), strings.Join(r.script, "\n  "), r.w.history())
	}
}

func (r *c02Runner) cleanup() {
	w := r.w
	if r.cleaned {
		return
	}
	r.cleaned = true
	for _, n := range w.nodes {
		w.mu.Lock()
		n.armVote = ""
		n.armPersist = false
		n.holdActive = false
		n.slowVotes = false
		var cut *c02CutReq
		if n.inc != nil {
			cut = n.inc.cutReq
		}
		w.mu.Unlock()
		n.ledger.release()
		n.diskHoldOff()
		if n.inc != nil {
			n.inc.cut.Store(true)
		}
		if cut != nil {
			select {
			case <-cut.release:
			default:
				close(cut.release)
			}
		}
	}
	for _, n := range w.nodes {
		if n.inc != nil && !n.inc.dead.Load() {
			w.shutdown(n.inc, nil, false, nil)
		}
		n.accessor.Close()
	}
}

// --------------------------------------------------------------------------------------------------------------
// script steps

func (r *c02Runner) poolSnapshot() []*c02Msg {
	w := r.w
	w.mu.Lock()
	defer w.mu.Unlock()
	w.sortPoolLocked()
	return append([]*c02Msg(nil), w.pool...)
}

// take removes the selected messages from the pool and returns them.
func (r *c02Runner) take(sel func(m *c02Msg) bool) []*c02Msg {
	w := r.w
	w.mu.Lock()
	defer w.mu.Unlock()
	w.sortPoolLocked()
	var out, keep []*c02Msg
	for _, m := range w.pool {
		if sel(m) {
			out = append(out, m)
		} else {
			keep = append(keep, m)
		}
	}
	w.pool = keep
	return out
}

func (r *c02Runner) deliverAll() bool {
	ms := r.take(func(*c02Msg) bool { return true })
	r.step("deliverAll (%d)", len(ms))
	for _, m := range ms {
		r.w.deliver(m)
	}
	r.w.st.delivered += len(ms)
	return r.settle("deliverAll")
}

func (r *c02Runner) linkMask(name string) map[[2]int]bool {
	n := len(r.w.nodes)
	mask := make(map[[2]int]bool)
	style := rapid.IntRange(0, 3).Draw(r.t, name+"Style")
	switch style {
	case 0: // one destination
		d := rapid.IntRange(0, n-1).Draw(r.t, name+"Dst")
		for s := 0; s < n; s++ {
			mask[[2]int{s, d}] = true
		}
	case 1: // one source
		s := rapid.IntRange(0, n-1).Draw(r.t, name+"Src")
		for d := 0; d < n; d++ {
			mask[[2]int{s, d}] = true
		}
	case 2: // a group talks among itself
		var g []int
		for i := 0; i < n; i++ {
			if rapid.Bool().Draw(r.t, name+"Grp") {
				g = append(g, i)
			}
		}
		for _, a := range g {
			for _, b := range g {
				mask[[2]int{a, b}] = true
			}
		}
	default:
		for s := 0; s < n; s++ {
			for d := 0; d < n; d++ {
				if s != d && rapid.IntRange(0, 2).Draw(r.t, name+"Lnk") > 0 {
					mask[[2]int{s, d}] = true
				}
			}
		}
	}
	return mask
}

func c02MaskStr(m map[[2]int]bool) string {
	var ks []string
	for k := range m {
		if k[0] != k[1] {
			ks = append(ks, fmt.Sprintf("%d>%d", k[0], k[1]))
		}
	}
	sort.Strings(ks)
	return strings.Join(ks, ",")
}

func (r *c02Runner) classFilter(name string) (string, func(m *c02Msg) bool) {
	switch rapid.IntRange(0, 5).Draw(r.t, name+"Class") {
	case 0:
		return "votes", func(m *c02Msg) bool { return strings.HasPrefix(m.desc, "vote") }
	case 1:
		return "payloads+bundles", func(m *c02Msg) bool { return !strings.HasPrefix(m.desc, "vote") }
	case 2:
		return "no-bundles", func(m *c02Msg) bool { return !strings.HasPrefix(m.desc, "bundle") }
	default:
		return "all", func(m *c02Msg) bool { return true }
	}
}

func (r *c02Runner) deliverLinks() bool {
	mask := r.linkMask("dl")
	cn, cf := r.classFilter("dl")
	ms := r.take(func(m *c02Msg) bool { return mask[[2]int{m.from, m.to}] && cf(m) })
	r.step("deliver links[%s] class=%s (%d)", c02MaskStr(mask), cn, len(ms))
	for _, m := range ms {
		r.w.deliver(m)
	}
	r.w.st.delivered += len(ms)
	return r.settle("deliverLinks")
}

func (r *c02Runner) dropLinks() bool {
	mask := r.linkMask("dr")
	cn, cf := r.classFilter("dr")
	ms := r.take(func(m *c02Msg) bool { return mask[[2]int{m.from, m.to}] && cf(m) })
	r.step("drop links[%s] class=%s (%d)", c02MaskStr(mask), cn, len(ms))
	r.w.st.dropped += len(ms)
	return true
}

// fire lets the step deadline (filter / deadline) or the fast-recovery deadline of the given nodes expire.
func (r *c02Runner) fire(nodes []int, fast bool) (int, bool) {
	fired := 0
	var desc []string
	r.step("timeout fast=%v nodes=%v", fast, nodes)
	for _, i := range nodes {
		n := r.w.nodes[i]
		if n.inc == nil || n.inc.dead.Load() {
			continue
		}
		if what, ok := n.inc.clk.fire(fast); ok {
			fired++
			desc = append(desc, fmt.Sprintf("n%d:%s", i, what))
		}
	}
	r.w.logf("     fired=[%s]", strings.Join(desc, " "))
	if fired == 0 {
		return 0, true
	}
	return fired, r.settle("timeout")
}

func (r *c02Runner) allNodes() []int {
	var a []int
	for i := range r.w.nodes {
		a = append(a, i)
	}
	return a
}

func (r *c02Runner) someNodes(name string) []int {
	n := len(r.w.nodes)
	if rapid.IntRange(0, 2).Draw(r.t, name+"One") == 0 {
		return []int{rapid.IntRange(0, n-1).Draw(r.t, name+"Node")}
	}
	var a []int
	for i := 0; i < n; i++ {
		if rapid.Bool().Draw(r.t, name+"In") {
			a = append(a, i)
		}
	}
	if len(a) == 0 {
		a = []int{rapid.IntRange(0, n-1).Draw(r.t, name+"Node")}
	}
	return a
}

// pickVictim prefers nodes that have already produced an attest (their crash DB matters).
func (r *c02Runner) pickVictim(name string) *c02Node {
	w := r.w
	var pref []int
	w.mu.Lock()
	for _, n := range w.nodes {
		if n.attestSeen {
			pref = append(pref, n.idx)
		}
	}
	w.mu.Unlock()
	if len(pref) > 0 && rapid.IntRange(0, 3).Draw(r.t, name+"Pref") > 0 {
		return w.nodes[pref[rapid.IntRange(0, len(pref)-1).Draw(r.t, name+"Idx")]]
	}
	return w.nodes[rapid.IntRange(0, len(w.nodes)-1).Draw(r.t, name+"Any")]
}

func (r *c02Runner) crashNow(n *c02Node, pos string) bool {
	r.step("crash n%d now (%s)", n.idx, pos)
	if !r.crash(n, pos, nil) {
		return false
	}
	return r.settle("restart after crash")
}

// trigger fires node n's timers until the armed event happened (a new incarnation exists), the node is parked behind a
// persistence gate, or the tries are used up.
func (r *c02Runner) trigger(n *c02Node, fast bool, tries int, done func() bool) bool {
	for k := 0; k < tries; k++ {
		f, ok := r.fire([]int{n.idx}, fast)
		if !ok {
			return false
		}
		if done() {
			return true
		}
		if f == 0 {
			// nothing to fire for this kind: try the other kind once
			fast = !fast
		}
	}
	return true
}

func (r *c02Runner) crashAtVote() bool {
	n := r.pickVictim("cv")
	fate := rapid.SampledFrom([]string{"deliver", "lose"}).Draw(r.t, "cvFate")
	fast := rapid.IntRange(0, 3).Draw(r.t, "cvFast") == 0
	dbl := rapid.IntRange(0, 3).Draw(r.t, "cvDouble") == 0
	r.step("arm crash of n%d at its next new own attest vote (vote is %sd), trigger fast=%v", n.idx, fate, fast)
	before := n.incCount
	r.w.mu.Lock()
	n.armVote = fate
	r.w.mu.Unlock()
	ok := r.trigger(n, fast, 3, func() bool { return n.incCount != before })
	r.w.mu.Lock()
	n.armVote = ""
	r.w.mu.Unlock()
	if !ok {
		return false
	}
	if n.incCount == before {
		r.label("armed-crash-not-reached")
		return true
	}
	if dbl {
		r.label("double-crash")
		r.w.st.doubleCrash++
		return r.crashNow(n, "quiescent-second")
	}
	return true
}

func (r *c02Runner) crashAfterPersist() bool {
	n := r.pickVictim("cp")
	fast := rapid.IntRange(0, 3).Draw(r.t, "cpFast") == 0
	dbl := rapid.IntRange(0, 3).Draw(r.t, "cpDouble") == 0
	r.step("arm crash of n%d right after its next completed persist (before the vote is released), trigger fast=%v", n.idx, fast)
	before := n.incCount
	r.w.mu.Lock()
	n.armPersist = true
	r.w.mu.Unlock()
	ok := r.trigger(n, fast, 3, func() bool { return n.incCount != before })
	r.w.mu.Lock()
	n.armPersist = false
	r.w.mu.Unlock()
	if !ok {
		return false
	}
	if n.incCount == before {
		r.label("armed-crash-not-reached")
		return true
	}
	if dbl {
		r.label("double-crash")
		r.w.st.doubleCrash++
		return r.crashNow(n, "quiescent-second")
	}
	return true
}

func (r *c02Runner) parked(n *c02Node) bool {
	inc := n.inc
	if inc == nil || inc.dead.Load() {
		return false
	}
	c, _, _ := inc.activity()
	return !inc.quietNow() && c02StuckPattern(c)
}

// holdWait: Ledger.Wait(round-1) does not fire => persist() is not reached => no new own attest vote may appear.
func (r *c02Runner) holdWait() bool {
	n := r.pickVictim("hw")
	fast := rapid.IntRange(0, 3).Draw(r.t, "hwFast") == 0
	crashInside := rapid.IntRange(0, 2).Draw(r.t, "hwCrash") > 0
	deliverInside := rapid.Bool().Draw(r.t, "hwDeliver")
	if !r.quiet(n) {
		r.label("hold-skipped-not-quiet")
		return true
	}
	r.step("hold Ledger.Wait of n%d (persist gated), trigger fast=%v crashInside=%v", n.idx, fast, crashInside)
	n.ledger.hold()
	r.w.mu.Lock()
	n.holdActive = true
	n.holdKind = "Ledger.Wait held"
	r.w.mu.Unlock()
	r.label("hold:wait")
	ok := r.trigger(n, fast, 3, func() bool { return r.parked(n) })
	if ok && r.parked(n) {
		r.label("hold:wait-parked")
		r.w.st.stuckSettles++
	}
	if ok && deliverInside {
		ok = r.deliverAll()
	}
	if ok && crashInside {
		pos := "quiescent-held"
		if r.parked(n) {
			pos = "before-persist"
		}
		ok = r.crashNow(n, pos)
		if ok && rapid.IntRange(0, 3).Draw(r.t, "hwDouble") == 0 {
			r.label("double-crash")
			r.w.st.doubleCrash++
			ok = r.crashNow(n, "quiescent-second")
		}
	}
	r.step("release Ledger.Wait of n%d", n.idx)
	r.w.mu.Lock()
	n.holdActive = false
	r.w.mu.Unlock()
	n.ledger.release()
	if !ok {
		return false
	}
	return r.settle("release wait hold")
}

// holdDisk: the crash DB is write-locked by somebody else (slow disk): persist() cannot complete.
func (r *c02Runner) holdDisk() bool {
	n := r.pickVictim("hd")
	fast := rapid.IntRange(0, 3).Draw(r.t, "hdFast") == 0
	deliverInside := rapid.Bool().Draw(r.t, "hdDeliver")
	if !r.quiet(n) {
		r.label("hold-skipped-not-quiet")
		return true
	}
	r.step("write-lock the crash DB of n%d (persist cannot complete), trigger fast=%v", n.idx, fast)
	if !n.diskHoldOn() {
		r.label("hold-disk-unavailable")
		return true
	}
	r.w.mu.Lock()
	n.holdActive = true
	n.holdKind = "crash DB write-locked"
	r.w.mu.Unlock()
	r.label("hold:disk")
	ok := r.trigger(n, fast, 3, func() bool { return r.parked(n) })
	if ok && r.parked(n) {
		r.label("hold:disk-parked")
		r.w.st.stuckSettles++
	}
	if ok && deliverInside {
		ok = r.deliverAll()
	}
	r.step("unlock the crash DB of n%d", n.idx)
	r.w.mu.Lock()
	n.holdActive = false
	r.w.mu.Unlock()
	n.diskHoldOff()
	if !ok {
		return false
	}
	return r.settle("release disk hold")
}

// persistFail: the next write(s) of the crash state fail (sqlite trigger raising "disk full"): persist() returns an
// error, the checkpoint carries it, the votes of that attest must be dropped. Optionally the vote task is kept busy
// until the failed persist has returned, and the node is crashed afterwards (it restarts from the older crash state
// and may legitimately choose another value: the first vote was never released).
func (r *c02Runner) persistFail(n *c02Node, fast bool, times int, slow bool, crashAfter bool) bool {
	if !r.quiet(n) {
		r.label("fault-skipped-not-quiet")
		return true
	}
	if w, d := r.held(n); w || d {
		return true
	}
	r.step("crash-DB writes of n%d fail (next %d), trigger fast=%v, slow vote task=%v, crash afterwards=%v", n.idx, times, fast, slow, crashAfter)
	if !n.failTriggerOn(times) {
		r.label("fault-unavailable")
		return true
	}
	r.label("fault:persist-fails")
	r.w.mu.Lock()
	n.slowVotes = slow
	inc0 := n.inc
	base := inc0.failedCount
	r.w.mu.Unlock()
	failedNow := func() bool {
		r.w.mu.Lock()
		defer r.w.mu.Unlock()
		return n.inc == inc0 && inc0.failedCount > base
	}
	ok := r.trigger(n, fast, 3, failedNow)
	r.w.mu.Lock()
	n.slowVotes = false
	r.w.mu.Unlock()
	n.failTriggerOff()
	r.w.logf("     crash-DB writes of n%d succeed again", n.idx)
	if !ok {
		return false
	}
	if failedNow() {
		r.label("fault:persist-failed-observed")
	} else {
		r.label("fault:no-attest-reached")
	}
	if crashAfter {
		pos := "quiescent"
		if failedNow() {
			pos = "after-failed-persist"
		}
		return r.crashNow(n, pos)
	}
	return true
}

// benignRound: deliver everything until nothing is in flight, then let every node's step timer expire.
func (r *c02Runner) benignRound() bool {
	for k := 0; k < 4; k++ {
		r.w.mu.Lock()
		np := len(r.w.pool)
		r.w.mu.Unlock()
		if np == 0 {
			break
		}
		if !r.deliverAll() {
			return false
		}
	}
	_, ok := r.fire(r.allNodes(), false)
	return ok
}

var c02Weights = map[string][]int{
	//            dAll dLnk drop tAll tSome fast crash cVote cPers hWait hDisk dbl
	//                                                                     dbl pFail
	"progress": {30, 8, 2, 22, 6, 6, 5, 7, 7, 4, 4, 3, 6},
	"isolated": {6, 14, 8, 12, 14, 12, 6, 8, 8, 5, 5, 4, 8},
	"crashy":   {14, 8, 3, 14, 8, 8, 8, 12, 12, 4, 4, 8, 10},
	"holdy":    {14, 8, 3, 14, 8, 8, 4, 5, 5, 14, 14, 3, 12},
}

func (r *c02Runner) doStep(profile string) bool {
	ws := c02Weights[profile]
	tot := 0
	for _, x := range ws {
		tot += x
	}
	x := rapid.IntRange(0, tot-1).Draw(r.t, "kind")
	k := 0
	for ; k < len(ws); k++ {
		if x < ws[k] {
			break
		}
		x -= ws[k]
	}
	switch k {
	case 0:
		return r.deliverAll()
	case 1:
		return r.deliverLinks()
	case 2:
		return r.dropLinks()
	case 3:
		_, ok := r.fire(r.allNodes(), false)
		return ok
	case 4:
		_, ok := r.fire(r.someNodes("ts"), false)
		return ok
	case 5:
		_, ok := r.fire(r.someNodes("tf"), true)
		return ok
	case 6:
		return r.crashNow(r.pickVictim("cn"), "quiescent")
	case 7:
		return r.crashAtVote()
	case 8:
		return r.crashAfterPersist()
	case 9:
		return r.holdWait()
	case 10:
		return r.holdDisk()
	case 11:
		n := r.pickVictim("dc")
		r.label("double-crash")
		r.w.st.doubleCrash++
		if !r.crashNow(n, "quiescent") {
			return false
		}
		return r.crashNow(n, "quiescent-second")
	default:
		n := r.w.nodes[rapid.IntRange(0, len(r.w.nodes)-1).Draw(r.t, "pfNode")]
		fast := rapid.IntRange(0, 3).Draw(r.t, "pfFast") == 0
		times := rapid.IntRange(1, 2).Draw(r.t, "pfTimes")
		slow := rapid.IntRange(0, 2).Draw(r.t, "pfSlow") > 0
		crashAfter := rapid.IntRange(0, 2).Draw(r.t, "pfCrash") > 0
		return r.persistFail(n, fast, times, slow, crashAfter)
	}
}

// --------------------------------------------------------------------------------------------------------------

type c02Sample struct {
	Nodes, Silent int
	Profile       string
	Script        []string
	Labels        []string
	OwnVotes      int
	Crashes       map[string]int
	Restarts      map[string]int
}

func c02RunCase(t *rapid.T, tt *testing.T, vk *vkCtx) {
	nRun := rapid.IntRange(3, 5).Draw(t, "nodes")
	nSilent := rapid.SampledFrom([]int{0, 0, 1, 1, 2}).Draw(t, "silent")
	profile := rapid.SampledFrom([]string{"progress", "isolated", "crashy", "crashy", "holdy"}).Draw(t, "profile")
	pre := rapid.IntRange(0, 3).Draw(t, "benignRounds")
	steps := rapid.IntRange(6, 16).Draw(t, "steps")
	extraKey := nSilent > 0 && rapid.IntRange(0, 2).Draw(t, "twoKeys") == 0

	w := c02NewWorld(tt, nRun, nSilent, extraKey)
	r := &c02Runner{t: t, fatalf: t.Fatalf, w: w, lab: make(map[string]int)}
	defer r.cleanup()
	r.step("world: %d running nodes + %d silent accounts (node0 holds 2 keys: %v), profile %s, %d benign rounds, %d steps", nRun, nSilent, extraKey, profile, pre, steps)

	ok := true
	for _, n := range w.nodes {
		if err := n.start(); err != nil {
			tt.Fatalf("c02: MakeService: %v", err)
		}
	}
	ok = r.settle("boot")
	if ok {
		r.sample("boot")
		r.failIfViolated()
	}
	for k := 0; ok && k < pre; k++ {
		ok = r.benignRound()
		if ok {
			r.sample(fmt.Sprintf("benign %d", k))
		}
		r.failIfViolated()
	}
	for k := 0; ok && k < steps; k++ {
		ok = r.doStep(profile)
		if ok {
			r.sample(fmt.Sprintf("step %d", k))
		}
		r.failIfViolated()
		// keep the pool bounded
		w.mu.Lock()
		if len(w.pool) > 800 {
			w.st.dropped += len(w.pool) - 400
			w.pool = w.pool[len(w.pool)-400:]
		}
		w.mu.Unlock()
	}
	if ok {
		// epilogue: everything in flight arrives and every node times out once more: gives restarted nodes the chance to vote again
		ok = r.benignRound()
		if ok {
			r.sample("epilogue")
		}
		r.failIfViolated()
	}
	r.cleanup()
	r.failIfViolated()
	if os.Getenv("VERIF_C02_DUMP") != "" {
		tt.Logf("---- case history ----\n%s", w.history())
	}

	// ---- evidence
	w.mu.Lock()
	st := w.st
	w.mu.Unlock()
	if !ok {
		vk.Excluded("inconclusive: " + r.inconcl)
		vk.Label("inconclusive")
	}
	nontrivial := st.votedAfterRestart > 0
	vk.Case(nontrivial, strings.Join(r.script, "|"))
	labels := []string{}
	add := func(s string) { vk.Label(s); labels = append(labels, s) }
	add("profile:" + profile)
	add(fmt.Sprintf("nodes=%d silent=%d", nRun, nSilent))
	if extraKey {
		add("node0-holds-2-keys")
	}
	for l := range r.lab {
		add(l)
	}
	for pos, c := range st.crashes {
		vk.Add("crashes "+pos, int64(c))
	}
	for mode := range st.restarts {
		add("restart:" + mode)
	}
	if nontrivial {
		add("crash-after-attest+voted-again")
	}
	if st.maxPeriod > 0 {
		add("period>0")
	}
	if st.maxRound > 1 {
		add("round>1")
	}
	if st.proposeRevote > 0 {
		add("propose-revote-differs(by design)")
	}
	if st.ownAttestVotes == 0 {
		add("no-own-attest-votes")
	}
	vk.Add("own attest votes", int64(st.ownAttestVotes))
	vk.Add("persists observed", int64(st.persistHook))
	vk.Add("crash DB reads at vote release", int64(st.dReads))
	vk.Add("crash DB reads failed", int64(st.dReadFail))
	vk.Add("own (re-)emissions observed under a persistence gate", int64(st.holdNewVoteChecks))
	vk.Add("persistence gates with an attest parked behind them", int64(st.stuckSettles))
	vk.Add("restored attests checked", int64(st.promisesChecked))
	vk.Add("double crashes", int64(st.doubleCrash))
	vk.Add("persist failures injected and observed", int64(st.persistFailed))
	vk.Add("vote tasks that dropped their votes after a failed persist", int64(st.votesDropped))
	vk.Add("vote tasks delayed past their persist", int64(st.slowVotes))
	vk.Add("new own votes matched to a persist outcome (oracle 5)", int64(st.o5Checked))
	vk.Add("new own votes without a logged attest (oracle 5 skipped)", int64(st.o5Unmatched))
	if st.votesDropped > 0 {
		add("votes-dropped-after-failed-persist")
	}
	vk.Add("messages delivered", int64(st.delivered))
	vk.Add("crash-after-attest then voted again", int64(st.votedAfterRestart))
	if vk.WantSample(nontrivial) {
		sort.Strings(labels)
		vk.Sample(nontrivial, c02Sample{nRun, nSilent, profile, r.script, labels, st.ownAttestVotes, st.crashes, st.restarts})
	}
}

func TestVerif_C02_Crashes(t *testing.T) {
	vk := vkBegin(t, "C02")
	vk.Rule("3-5 real agreement.Service instances (one account each) + 0-2 silent accounts; a drawn script of deliveries/drops per link and message class, step/fast timeouts at quiescence, failing crash-DB writes (sqlite trigger, optionally with the vote task delayed past the failed persist), crashes (at quiescence, at the instant the first new own attest vote reaches the network - delivered or lost, right after persist() before the vote is released, while persist is gated), double crashes, Ledger.Wait holds and crash-DB write locks; non-trivial = a node crashed after it had produced an attest (vote seen, state persisted, or persist pending) and released a further own attest vote after the restart; distinct by script")
	vk.Assume("sqlite commits are atomic (no torn writes); the test ledger is durable; one participation account per node")
	oldTO := deadlock.Opts.DeadlockTimeout
	deadlock.Opts.DeadlockTimeout = 10 * time.Minute
	defer func() { deadlock.Opts.DeadlockTimeout = oldTO }()
	c02Accounts(t)
	rapid.Check(t, func(rt *rapid.T) {
		c02RunCase(rt, t, vk)
	})
}

// TestVerif_C02_DoubleCrash: a fixed, draw-free script through the same environment and oracles: one voting node that
// cannot reach quorum soft-votes, is crashed, restarts from its crash state, is crashed again and restarts again; then it
// times out further. (This is the history of the defect fixed by 15ee9a30f7: the first restart overwrote the crash DB
// with an empty state, the second restart started fresh and the node voted again in a step it had already voted in.)
func TestVerif_C02_DoubleCrash(t *testing.T) {
	vk := vkBegin(t, "C02")
	vk.Rule("fixed scripts: k in {1,2,3} running nodes of 5 accounts (no quorum possible); soft vote, crash, restart, crash, restart, more timeouts; variants: crash at quiescence / right after persist / at vote release; a fourth family fails the crash-DB write of the first attest (votes must be dropped) before the crashes; non-trivial = the node voted again after the second restart")
	oldTO := deadlock.Opts.DeadlockTimeout
	deadlock.Opts.DeadlockTimeout = 10 * time.Minute
	defer func() { deadlock.Opts.DeadlockTimeout = oldTO }()
	c02Accounts(t)
	for variant := 0; variant < 9; variant++ {
		nRun := 1 + variant%3
		mode := []string{"quiescent", "after-persist", "at-release"}[(variant/2)%3]
		if variant >= 6 {
			// the write of the first attest's state fails; the vote task is kept busy until that persist has returned;
			// the votes must be dropped; then crash, restart (no crash state: fresh start, other block), crash, restart, go on
			mode = "failed-persist"
		}
		w := c02NewWorld(t, nRun, 5-nRun, variant >= 3 && variant != 6)
		r := &c02Runner{fatalf: t.Fatalf, w: w, lab: make(map[string]int)}
		func() {
			defer r.cleanup()
			r.step("fixed double-crash script: %d running nodes of 5 accounts, first crash %s", nRun, mode)
			for _, n := range w.nodes {
				if err := n.start(); err != nil {
					t.Fatalf("c02: MakeService: %v", err)
				}
			}
			ok := r.settle("boot")
			n0 := w.nodes[0]
			chk := func(where string) {
				if ok {
					r.sample(where)
				}
				r.failIfViolated()
			}
			chk("boot")
			if ok && nRun > 1 {
				ok = r.deliverAll()
			}
			switch mode {
			case "quiescent":
				if ok {
					_, ok = r.fire(r.allNodes(), false) // filter timeout: soft vote (attest => persist => release)
				}
				chk("soft")
				if ok {
					ok = r.crashNow(n0, "quiescent")
				}
			case "failed-persist":
				if ok {
					if !n0.failTriggerOn(1) {
						t.Fatalf("c02: cannot install the failing trigger on the crash DB")
					}
					w.mu.Lock()
					n0.slowVotes = true
					w.mu.Unlock()
					_, ok = r.fire(r.allNodes(), false)
					w.mu.Lock()
					n0.slowVotes = false
					failed, dropped := w.st.persistFailed, w.st.votesDropped
					w.mu.Unlock()
					n0.failTriggerOff()
					if ok && failed == 0 {
						vk.Label("fixed:fault-not-observed")
					}
					if ok && dropped > 0 {
						vk.Label("fixed:votes-dropped")
					}
				}
				chk("failed persist")
				if ok {
					ok = r.crashNow(n0, "after-failed-persist")
				}
			case "after-persist":
				w.mu.Lock()
				n0.armPersist = true
				w.mu.Unlock()
				if ok {
					_, ok = r.fire(r.allNodes(), false)
				}
				w.mu.Lock()
				n0.armPersist = false
				w.mu.Unlock()
			default:
				w.mu.Lock()
				n0.armVote = "lose"
				w.mu.Unlock()
				if ok {
					_, ok = r.fire(r.allNodes(), false)
				}
				w.mu.Lock()
				n0.armVote = ""
				w.mu.Unlock()
			}
			chk("first restart")
			if ok {
				ok = r.crashNow(n0, "quiescent-second")
			}
			chk("second restart")
			for k := 0; ok && k < 3; k++ {
				if nRun > 1 {
					ok = r.deliverAll()
				}
				if ok {
					_, ok = r.fire(r.allNodes(), false)
				}
				chk(fmt.Sprintf("after %d", k))
				if ok {
					_, ok = r.fire([]int{0}, true)
				}
				chk(fmt.Sprintf("fast %d", k))
			}
			r.cleanup()
			r.failIfViolated()
			if os.Getenv("VERIF_C02_DUMP") != "" {
				t.Logf("---- case history ----\n%s", w.history())
			}
			if !ok {
				vk.Excluded("inconclusive: " + r.inconcl)
				return
			}
			w.mu.Lock()
			st := w.st
			w.mu.Unlock()
			if n0.incCount != 3 {
				t.Fatalf("c02: fixed script did not perform two crashes (incarnations=%d)\n%s", n0.incCount, w.history())
			}
			nt := st.votedAfterRestart > 0
			vk.Case(nt, strings.Join(r.script, "|"))
			vk.Label("fixed:" + mode)
			for md := range st.restarts {
				vk.Label("restart:" + md)
			}
			vk.Add("own attest votes", int64(st.ownAttestVotes))
			vk.Add("restored attests checked", int64(st.promisesChecked))
			if vk.WantSample(nt) {
				vk.Sample(nt, c02Sample{nRun, 5 - nRun, "fixed", r.script, nil, st.ownAttestVotes, st.crashes, st.restarts})
			}
		}()
	}
}
