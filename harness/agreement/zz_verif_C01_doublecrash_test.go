package agreement

// C01 — frozen regression: the double-crash schedule that forked round 1 before fix 15ee9a30f7 (service.go mainLoop's
// restore path left persistRouter/persistStatus/persistActions zero, so a re-executed restored attest overwrote the
// crash DB with an empty state and a second crash made the node forget its votes).
//
// Schedule (deterministic, scripted): 3 nodes holding 2+2+1 equal accounts. Cert votes reach only node 2, which commits
// V. Nodes 0 and 1 — a quorum of stake — each: crash, restart (restored from the crash DB), persistence loop completes
// all pending writes, crash again, restart. Then node 2 is unreachable and the period-0 proposals between nodes 0 and 1
// and their period-0 cert votes are lost, timeouts fire at their deadlines. With the fix the second restart must again
// restore the round-1 state (V staged and cert-voted): nodes 0/1 next-vote V, enter period 1 with V as starting value and
// can only commit V. A node that forgot (empty router) next-votes bottom and commits a fresh period-1 proposal: fork. Engine A mirrors the *fixed* glue
// (engaNode.start), so this guards the simulator's crash model and the protocol's use of the restored state; the
// Service-level regression itself is Engine B's (C02).

import (
	"fmt"
	"os"
	"strings"
	"testing"

	"github.com/algorand/go-algorand/crypto"
	"github.com/algorand/go-algorand/protocol"
)

type c01DCResult struct {
	KeySeed         uint64
	Events          int
	Commits         []string
	RestoredStarts  int
	FreshStarts     int
	SecondRestartOK bool
	MaxPeriod       period
	Note            string
}

func c01VoteStep(m *engaMsg) (step, period, bool) {
	if m.tag != protocol.AgreementVoteTag {
		return 0, 0, false
	}
	o, err := decodeVote(m.data)
	if err != nil {
		return 0, 0, false
	}
	uv := o.(unauthenticatedVote)
	return uv.R.Step, uv.R.Period, true
}

func c01DoubleCrashScenario(t *testing.T, keySeed uint64) (res c01DCResult) {
	res.KeySeed = keySeed
	cfg := engaConfig{Nodes: 3, Accts: []int{2, 2, 1}, Stake: []uint64{1e6, 1e6, 1e6, 1e6, 1e6}, KeySeed: keySeed}
	s := engaNewSimHook(t, cfg, func(s *engaSim) { s.traceOn = true; c01Attach(s) })
	ent := func() uint64 { return 1 }
	// phase 1: cert votes never reach nodes 0 and 1
	s.hold = func(m *engaMsg) bool {
		st, _, ok := c01VoteStep(m)
		return ok && st == cert && m.dst != 2
	}
	for i := 0; i < 3000 && s.nodes[2].committed() < 1; i++ {
		if !s.benignStep(ent()) {
			break
		}
		if s.nodes[0].committed() >= 1 || s.nodes[1].committed() >= 1 {
			res.Note = "node 0/1 committed in phase 1 (own cert weight reached the threshold)"
			return
		}
	}
	if s.nodes[2].committed() < 1 {
		res.Note = "node 2 did not commit in phase 1"
		return
	}
	// phase 2: nodes 0 and 1: crash, restart from the crash DB, persistence loop runs, crash again, restart
	res.SecondRestartOK = true
	for _, i := range []int{0, 1} {
		n := s.nodes[i]
		if n.disk == nil || n.diskRound != 1 {
			res.Note = fmt.Sprintf("node %d has no round-1 crash state", i)
			res.SecondRestartOK = false
			return
		}
		for round := 0; round < 2; round++ {
			s.crash(i)
			fresh := s.stats.freshStarts
			s.restart(i)
			if s.stats.freshStarts != fresh {
				s.failf("C01 regression: restart %d of node %d did not restore its round-1 crash state (fresh start): the crash DB no longer protects the cert vote", round+1, i)
			}
			if n.player.Round != 1 {
				s.failf("C01 regression: node %d restored round %d", i, n.player.Round)
			}
			for n.diskWrite() {
			}
			if n.diskZero || n.diskRound != 1 {
				s.failf("C01 regression: after restart %d the crash DB of node %d holds round %d (zero=%v)", round+1, i, n.diskRound, n.diskZero)
			}
		}
	}
	s.pool = nil
	for i := range s.known {
		s.known[i] = map[crypto.Digest]bool{}
	}
	// phase 3: node 2 is unreachable; period-0 proposals between nodes 0 and 1 are lost
	s.hold = func(m *engaMsg) bool {
		if m.src == 2 || m.dst == 2 {
			return true
		}
		if m.tag == protocol.ProposalPayloadTag {
			if o, err := decodeProposal(m.data); err == nil {
				return o.(compoundMessage).Proposal.OriginalPeriod == 0
			}
		}
		if st, p, ok := c01VoteStep(m); ok && (st == propose || st == cert) && p == 0 {
			// the period-0 proposal-votes and the (re-sent) period-0 cert votes are lost as well: nodes 0/1 never see
			// the cert threshold for V, so only what they restored keeps them from voting for anything else
			return true
		}
		return false
	}
	for i := 0; i < 1500; i++ {
		if s.nodes[0].committed() >= 1 && s.nodes[1].committed() >= 1 {
			break
		}
		if !s.benignStep(ent()) {
			break
		}
	}
	// c01Observer has failed the test if anybody committed a second value for round 1
	if os.Getenv("VERIF_DEBUG_DC") != "" {
		os.WriteFile(os.Getenv("VERIF_DEBUG_DC"), []byte(strings.Join(s.trace, "\n")), 0o644)
		s.failf("debug dump")
	}
	res.Events = s.stats.events
	res.RestoredStarts, res.FreshStarts, res.MaxPeriod = s.stats.restoredStarts, s.stats.freshStarts, s.stats.maxPeriod
	for _, e := range s.ensures {
		res.Commits = append(res.Commits, fmt.Sprintf("node%d/inc%d r%d %.8s", e.Node, e.Incarnation, e.Round, e.Digest.String()))
	}
	return
}

// TestVerif_C01_DoubleCrashRegression must hold on the fixed tree for every population tried.
func TestVerif_C01_DoubleCrashRegression(t *testing.T) {
	vk := vkBegin(t, "C01")
	vk.Rule("scripted double-crash schedule (crash, restart-restored, persistence loop, crash, restart for a stake quorum after cert-voting a block another node committed), 12 populations; non-trivial = both quorum nodes went through both restarts and then ran >= 1 further period without forking")
	for ks := uint64(0); ks < 12; ks++ {
		res := c01DoubleCrashScenario(t, ks)
		nt := res.SecondRestartOK && res.RestoredStarts == 4
		vk.Case(nt, fmt.Sprintf("doublecrash/%d/%v", ks, res.Commits))
		vk.Sample(nt, res)
		if nt {
			vk.Label("regression/double_crash_quorum_safe")
		} else {
			vk.Label("regression/scenario_not_applicable")
		}
		if res.MaxPeriod > 0 {
			vk.Label("regression/reached_period>0_after_restarts")
		}
	}
}
